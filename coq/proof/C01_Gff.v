(* C01 proofs, part 8: GFF3 + ##FASTA, with feature lines in front of the sequence section. *)
From Coq Require Import List ZArith NArith Bool Lia.
From Coq.Strings Require Import Byte.
Import ListNotations.
From SV Require Import Text C01_Lines C01_Dec G_codes G_c01_io C01_Model C01_Lemmas C01_Formats C01_Stockholm.

(* what the sequence round trip needs of a line written before '##FASTA': not the directive itself, a comment / blank line
   or a feature line the reader accepts and that carries no ID attribute (lines sharing an ID are merged into one feature
   by the reader, which is property C02's business), no line break inside *)
Definition line_id (l : str) : option str :=
  match split_on TAB (strip l) with
  | [_; _; _; _; _; _; _; _; attrs] => attr_id attrs
  | _ => None
  end.
Definition pre_line_ok (l : str) : bool :=
  negb (startswith GFF_FASTA l)
  && (head_is HASH l || is_blank l || (gff_ft_ok l && match line_id l with None => true | Some _ => false end))
  && no_byte nl l && no_byte cr l.

Lemma gff_ft_key_none o l : line_id l = None -> fst (gff_ft_key o l) = None.
Proof.
  unfold line_id, gff_ft_key.
  destruct (split_on TAB (strip l)) as [|c1 [|c2 [|c3 [|c4 [|c5 [|c6 [|c7 [|c8 [|c9 [|c10 r]]]]]]]]]]; try reflexivity.
  intros H. rewrite H. reflexivity.
Qed.

Lemma gff_ft_ok_opt_of o l : gff_ft_ok l = true -> gff_ft_ok_opt o l = true.
Proof.
  unfold gff_ft_ok, gff_ft_ok_opt.
  destruct (split_on TAB (strip l)) as [|c1 [|c2 [|c3 [|c4 [|c5 [|c6 [|c7 [|c8 [|c9 [|c10 r]]]]]]]]]]; try discriminate.
  intros H. match goal with |- (if ?b then true else _) = true => destruct b; [reflexivity|exact H] end.
Qed.

Lemma gff_skip_opt_pre o fl rest : forall last, forallb pre_line_ok fl = true ->
  gff_skip_opt o last (fl ++ GFF_FASTA :: rest) = Ok rest.
Proof.
  induction fl as [|l fl IH]; intros last H.
  - cbn [app gff_skip_opt]. change (startswith GFF_FASTA GFF_FASTA) with true. reflexivity.
  - cbn [forallb] in H. apply andb_prop in H. destruct H as [Hl Hf]. unfold pre_line_ok in Hl.
    apply andb_prop in Hl. destruct Hl as [Hl _]. apply andb_prop in Hl. destruct Hl as [Hl _].
    apply andb_prop in Hl. destruct Hl as [H1 H2]. apply negb_true_iff in H1.
    cbn [app gff_skip_opt]. rewrite H1. destruct (filt_fast_skips o l); [apply IH; exact Hf|].
    destruct (head_is HASH l || is_blank l) eqn:E; [apply IH; exact Hf|].
    cbn [orb] in H2. apply andb_prop in H2. destruct H2 as [H2 H3].
    rewrite (gff_ft_ok_opt_of o l H2). destruct (gff_filtered o l); [apply IH; exact Hf|].
    destruct (line_id l) eqn:Eid; [discriminate|].
    pose proof (gff_ft_key_none o l Eid) as Ek. destruct (gff_ft_key o l) as [k st]. cbn [fst] in Ek. subst k.
    apply IH. exact Hf.
Qed.

Lemma gff_skip_pre fl rest : forallb pre_line_ok fl = true -> gff_skip (fl ++ GFF_FASTA :: rest) = Ok rest.
Proof. intros H. apply gff_skip_opt_pre. exact H. Qed.

Lemma pre_lines_clean fl c : (c = nl \/ c = cr) -> forallb pre_line_ok fl = true -> forallb (no_byte c) fl = true.
Proof.
  intros Hc. apply forallb_imp. intros l H. unfold pre_line_ok in H.
  apply andb_prop in H. destruct H as [H H4]. apply andb_prop in H. destruct H as [_ H3].
  destruct Hc; subst; assumption.
Qed.

(* sequences survive whatever acceptable lines precede the sequence section; the same lines in front of the objects read
   back give the same text again *)
Theorem gff_pre_roundtrip fl b : forallb pre_line_ok fl = true -> forallb wfb_fasta b = true ->
  read_content Gff (CText (unlines (write_gff_lines_fts fl b))) = Ok (map (norm_fasta Gff) b)
  /\ write_gff_lines_fts fl (map (norm_fasta Gff) b) = write_gff_lines_fts fl b.
Proof.
  intros Hf H. split.
  - unfold read_content. rewrite text_lines_unlines.
    + unfold write_gff_lines_fts, read_gff_lines, gff_skip. cbn [gff_skip_opt].
      change (startswith GFF_FASTA (bs "##gff-version 3"%bs)) with false.
      change (filt_fast_skips no_opts (bs "##gff-version 3"%bs)) with false.
      change (head_is HASH (bs "##gff-version 3"%bs)) with true. cbn [orb].
      rewrite (gff_skip_opt_pre no_opts fl _ None Hf). cbn [bind].
      unfold read_fasta_lines. rewrite (iter_fasta_written b None H). cbn [flush app bind].
      rewrite map_set_fmt_pre_norm. reflexivity.
    + unfold write_gff_lines_fts. cbn [forallb]. rewrite forallb_app. cbn [forallb].
      rewrite (pre_lines_clean fl nl (or_introl eq_refl) Hf), (fasta_lines_clean b nl (or_introl eq_refl) H). reflexivity.
    + unfold write_gff_lines_fts. cbn [forallb]. rewrite forallb_app. cbn [forallb].
      rewrite (pre_lines_clean fl cr (or_intror eq_refl) Hf), (fasta_lines_clean b cr (or_intror eq_refl) H). reflexivity.
  - unfold write_gff_lines_fts. rewrite write_lines_norm. reflexivity.
Qed.

Lemma write_w_gff b : write_w Gff b = Ok (CText (unlines (write_gff_lines b))).
Proof. reflexivity. Qed.

Theorem gff_seq_roundtrip b : forallb wfb_fasta b = true ->
  exists t, write_w Gff b = Ok t /\ read_content Gff t = Ok (map (norm_fasta Gff) b)
            /\ write_w Gff (map (norm_fasta Gff) b) = Ok t.
Proof.
  intros H. destruct (gff_pre_roundtrip [] b eq_refl H) as [H1 H2].
  eexists. split; [apply write_w_gff|]. split; [exact H1|].
  rewrite write_w_gff. unfold write_gff_lines. rewrite H2. reflexivity.
Qed.

(* ---------------------------------------------------------------- the feature lines the writer emits are acceptable *)
Lemma quote1_facts c : quote1 c <> [] /\ forallb is_graph (quote1 c) = true /\ no_byte TAB (quote1 c) = true.
Proof. destruct c; vm_compute; repeat split; discriminate. Qed.
(* '#' is percent-encoded *)
Lemma quote1_head c r : head_is HASH (quote1 c ++ r) = false.
Proof. destruct c; reflexivity. Qed.
Lemma quote_graph s : forallb is_graph (quote s) = true.
Proof.
  induction s as [|c s IH]; [reflexivity|]. unfold quote. cbn [flat_map]. rewrite forallb_app.
  destruct (quote1_facts c) as (_ & H & _). rewrite H. exact IH.
Qed.
Lemma quote_nonempty s : s <> [] -> quote s <> [].
Proof.
  destruct s as [|c s]; [contradiction|]. intros _. unfold quote. cbn [flat_map].
  destruct (quote1_facts c) as (H & _). destruct (quote1 c); [contradiction|discriminate].
Qed.

Lemma digit_facts c : is_digit_byte c = true ->
  is_graph c = true /\ byte_eqb c PCT = false.
Proof. destruct c; vm_compute; intros H; try discriminate; split; reflexivity. Qed.
Lemma graph_no_tab c : is_graph c = true -> negb (byte_eqb c TAB) = true.
Proof. destruct c; vm_compute; intros H; try discriminate; reflexivity. Qed.
Lemma graph_no_tab_s s : forallb is_graph s = true -> no_byte TAB s = true.
Proof. apply forallb_imp. exact graph_no_tab. Qed.

Lemma py_int_dec n : py_int (dec_of_nat n) = Some (Z.of_nat n).
Proof.
  unfold py_int. pose proof (dec_of_nat_digits n) as Hd.
  assert (Hp : mem PCT (dec_of_nat n) = false).
  { unfold mem. induction (dec_of_nat n) as [|c s IH]; [reflexivity|]. cbn [forallb existsb] in *.
    apply andb_prop in Hd. destruct Hd as [Hc Hs]. destruct (digit_facts c Hc) as [_ E].
    rewrite byte_eqb_sym, E. cbn. apply IH. exact Hs. }
  rewrite Hp. rewrite strip_all_non_ws.
  - apply Z_of_dec_of_Z.
  - apply graph_non_ws. revert Hd. apply forallb_imp. intros c Hc. apply (digit_facts c Hc).
Qed.

Lemma strand_facts c : mem c STRANDS = true ->
  is_graph c = true /\ strand_ok [c] = true /\ byte_eqb c nl = false /\ byte_eqb c cr = false.
Proof. destruct c; vm_compute; intros H; try discriminate; repeat split. Qed.

Lemma wf_gft_facts ft : wf_gft ft = true ->
  g_seqid ft <> [] /\ forallb is_graph (g_seqid ft) = true /\ g_type ft <> [] /\ forallb is_graph (g_type ft) = true
  /\ g_start ft < g_stop ft /\ mem (g_strand ft) STRANDS = true.
Proof.
  unfold wf_gft, id_plain. intros H. apply andb_prop in H. destruct H as [_ H]. apply andb_prop in H. destruct H as [H H4]. apply andb_prop in H. destruct H as [H H3].
  apply andb_prop in H. destruct H as [H1 H2].
  destruct (g_seqid ft) eqn:E1; [discriminate|]. destruct (g_type ft) eqn:E2; [discriminate|].
  repeat split; try discriminate; auto. apply Nat.ltb_lt. exact H3.
Qed.

(* the columns of a written feature line: graphic characters only (so no tab, no newline, no blank ends) *)
Lemma cols_graph ft : wf_gft ft = true -> forallb (forallb is_graph) (gff_ft_cols ft) = true.
Proof.
  intros H. destruct (wf_gft_facts ft H) as (_ & H1 & _ & H2 & _ & H3).
  assert (Hd : forall n, forallb is_graph (dec_of_nat n) = true).
  { intros n. generalize (dec_of_nat_digits n). apply forallb_imp. intros c Hc. apply (digit_facts c Hc). }
  unfold gff_ft_cols. cbn [forallb]. rewrite quote_graph, H2, !Hd. destruct (strand_facts _ H3) as (Hs & _). rewrite Hs.
  reflexivity.
Qed.

Lemma strip_fix_rstrip s : strip s = s -> rstrip s = s.
Proof.
  destruct s as [|c r]; [reflexivity|]. intros H. pose proof (strip_head_non_ws _ _ _ H) as W.
  unfold strip in H. rewrite (lstrip_non_ws c r W) in H. exact H.
Qed.

Lemma strip_cons_join x a j : is_ws x = false -> strip j = j -> j <> [] ->
  strip (x :: a ++ TAB :: j) = x :: a ++ TAB :: j.
Proof.
  intros Wx Hj Hne. unfold strip. rewrite (lstrip_non_ws x _ Wx). pose proof (strip_fix_rstrip _ Hj) as R.
  assert (Eapp : x :: a ++ TAB :: j = (x :: a ++ [TAB]) ++ j) by (cbn [app]; rewrite <- app_assoc; reflexivity).
  rewrite Eapp. rewrite rstrip_app_nonblank by (rewrite R; exact Hne). rewrite R. reflexivity.
Qed.

Lemma no_byte_cons_join c (a j : str) : (c = nl \/ c = cr) -> no_byte c a = true -> no_byte c j = true ->
  no_byte c (a ++ TAB :: j) = true.
Proof.
  intros Hc Ha Hj. rewrite no_byte_app, Ha. cbn [andb no_byte forallb]. fold (no_byte c j). rewrite Hj.
  destruct Hc; subst; reflexivity.
Qed.

Lemma join_graph_line cols : cols <> [] -> forallb (fun c => match c with [] => false | _ => true end) cols = true ->
  forallb (forallb is_graph) cols = true ->
  strip (join [TAB] cols) = join [TAB] cols /\ join [TAB] cols <> [] /\
  (forall c, (c = nl \/ c = cr) -> no_byte c (join [TAB] cols) = true) /\
  head_is HASH (join [TAB] cols) = head_is HASH (hd [] cols).
Proof.
  induction cols as [|a cols IH]; [contradiction|]. intros _ Hne Hg.
  cbn [forallb] in Hne, Hg. apply andb_prop in Hne. destruct Hne as [Ha Hne]. apply andb_prop in Hg. destruct Hg as [Hga Hg].
  destruct a as [|x a]; [discriminate|].
  assert (Hnw : all_non_ws (x :: a) = true) by (apply graph_non_ws; exact Hga).
  destruct cols as [|b cols].
  - cbn [join hd]. split; [apply strip_all_non_ws; exact Hnw|]. split; [discriminate|]. split; [|reflexivity].
    intros c Hc. apply graph_no; assumption.
  - destruct (IH ltac:(discriminate) Hne Hg) as (I1 & I2 & I3 & _).
    rewrite join_cons. cbn [hd]. split; [|split; [discriminate|split; [|reflexivity]]].
    + assert (Wx : is_ws x = false).
      { cbn in Hnw. apply andb_prop in Hnw. destruct Hnw as [Hx _]. unfold non_ws in Hx. apply negb_true_iff in Hx. exact Hx. }
      cbn [app]. apply strip_cons_join; assumption.
    + intros c Hc. apply (no_byte_cons_join c (x :: a) _ Hc); [apply graph_no; assumption|apply I3; exact Hc].
Qed.

Theorem gft_line_ok ft : wf_gft ft = true -> pre_line_ok (gff_ft_line ft) = true.
Proof.
  intros H. pose proof (cols_graph ft H) as Hg. destruct (wf_gft_facts ft H) as (N1 & G1 & N2 & G2 & Hlt & Hs).
  assert (Hne : forallb (fun c : str => match c with [] => false | _ => true end) (gff_ft_cols ft) = true).
  { unfold gff_ft_cols. cbn [forallb]. pose proof (quote_nonempty _ N1). pose proof (dec_of_nat_nonempty (S (g_start ft))).
    pose proof (dec_of_nat_nonempty (g_stop ft)).
    destruct (quote (g_seqid ft)); [contradiction|]. destruct (g_type ft); [contradiction|].
    destruct (dec_of_nat (S (g_start ft))); [contradiction|]. destruct (dec_of_nat (g_stop ft)); [contradiction|]. reflexivity. }
  destruct (join_graph_line (gff_ft_cols ft) ltac:(discriminate) Hne Hg) as (S1 & S2 & S3 & S4).
  assert (Hhash : head_is HASH (gff_ft_line ft) = false).
  { unfold gff_ft_line. rewrite S4. unfold gff_ft_cols. cbn [hd].
    destruct (g_seqid ft) as [|c s]; [contradiction|]. unfold quote. cbn [flat_map]. apply quote1_head. }
  assert (Hfa : startswith GFF_FASTA (gff_ft_line ft) = false).
  { destruct (gff_ft_line ft) as [|x r] eqn:E; [reflexivity|]. cbn [head_is] in Hhash.
    apply (hash_prefix_false GFF_FASTA x r eq_refl). rewrite byte_eqb_sym. exact Hhash. }
  unfold pre_line_ok. rewrite Hfa. cbn [negb andb].
  unfold gff_ft_line in *. rewrite (S3 nl (or_introl eq_refl)), (S3 cr (or_intror eq_refl)). rewrite !andb_true_r.
  assert (Hok : gff_ft_ok (join [TAB] (gff_ft_cols ft)) = true).
  { unfold gff_ft_ok. rewrite S1. rewrite split_join; [|discriminate|].
    - unfold gff_ft_cols. rewrite !py_int_dec.
      destruct (strand_facts _ Hs) as (_ & Hso & _). rewrite Hso.
      change (num_or_dot DOT) with true. change (attrs_ok DOT) with true. rewrite !andb_true_r.
      apply Z.ltb_lt. lia.
    - revert Hg. apply forallb_imp. intros c. apply graph_no_tab_s. }
  assert (Hid : line_id (join [TAB] (gff_ft_cols ft)) = None).
  { unfold line_id. rewrite S1. rewrite split_join; [reflexivity|discriminate|].
    revert Hg. apply forallb_imp. intros c. apply graph_no_tab_s. }
  rewrite Hok, Hid. cbn [andb]. rewrite !orb_true_r. reflexivity.
Qed.

Lemma basket_ft_lines_ok fts b : forallb wf_gft fts = true -> forallb pre_line_ok (basket_ft_lines fts b) = true.
Proof.
  intros H. unfold basket_ft_lines, basket_fts. rewrite forallb_forall. intros l Hl.
  apply in_map_iff in Hl. destruct Hl as (ft & E & Hin). subst. apply gft_line_ok.
  apply in_flat_map in Hin. destruct Hin as (s & _ & Hf). apply filter_In in Hf. destruct Hf as [Hf _].
  rewrite forallb_forall in H. apply H. exact Hf.
Qed.

Lemma basket_fts_norm fts b : basket_fts fts (map (norm_fasta Gff) b) = basket_fts fts b.
Proof. unfold basket_fts. induction b as [|s b IH]; [reflexivity|]. cbn [map flat_map]. rewrite IH. reflexivity. Qed.

(* GFF baskets that carry plain features: the sequences round-trip, and writing the objects read back (with the same
   features attached) reproduces the text *)
Theorem gff_fts_roundtrip fts b : forallb wf_gft fts = true -> forallb wfb_fasta b = true ->
  exists t, write_w_fts Gff fts b = Ok t /\ read_content Gff t = Ok (map (norm_fasta Gff) b)
            /\ write_w_fts Gff fts (map (norm_fasta Gff) b) = Ok t.
Proof.
  intros Hf H. destruct (gff_pre_roundtrip (basket_ft_lines fts b) b (basket_ft_lines_ok fts b Hf) H) as [H1 H2].
  eexists. split; [reflexivity|]. split; [exact H1|].
  unfold write_w_fts. unfold basket_ft_lines in *. rewrite basket_fts_norm. rewrite H2. reflexivity.
Qed.

(* ---------------------------------------------------------------- reader options do not change which sequences are read *)
(* whatever filt_fast / filt / default_ftype are given, the text written for a basket (with acceptable lines in front of
   the sequence section) is read into the same sequences *)
Theorem gff_options_irrelevant o fl b : forallb pre_line_ok fl = true -> forallb wfb_fasta b = true ->
  read_gff_opt o (CText (unlines (write_gff_lines_fts fl b))) = Ok (map (norm_fasta Gff) b)
  /\ read_gff_opt o (CText (unlines (write_gff_lines_fts fl b))) = read_content Gff (CText (unlines (write_gff_lines_fts fl b))).
Proof.
  intros Hf H. destruct (gff_pre_roundtrip fl b Hf H) as [R _]. rewrite R.
  assert (G : read_gff_opt o (CText (unlines (write_gff_lines_fts fl b))) = Ok (map (norm_fasta Gff) b)); [|split; exact G].
  unfold read_gff_opt. rewrite text_lines_unlines.
  - unfold write_gff_lines_fts, read_gff_lines_opt. cbn [gff_skip_opt].
    change (startswith GFF_FASTA (bs "##gff-version 3"%bs)) with false.
    destruct (filt_fast_skips o (bs "##gff-version 3"%bs)).
    + rewrite (gff_skip_opt_pre o fl _ None Hf). cbn [bind].
      unfold read_fasta_lines. rewrite (iter_fasta_written b None H). cbn [flush app bind].
      rewrite map_set_fmt_pre_norm. reflexivity.
    + change (head_is HASH (bs "##gff-version 3"%bs)) with true. cbn [orb].
      rewrite (gff_skip_opt_pre o fl _ None Hf). cbn [bind].
      unfold read_fasta_lines. rewrite (iter_fasta_written b None H). cbn [flush app bind].
      rewrite map_set_fmt_pre_norm. reflexivity.
  - unfold write_gff_lines_fts. cbn [forallb]. rewrite forallb_app. cbn [forallb].
    rewrite (pre_lines_clean fl nl (or_introl eq_refl) Hf), (fasta_lines_clean b nl (or_introl eq_refl) H). reflexivity.
  - unfold write_gff_lines_fts. cbn [forallb]. rewrite forallb_app. cbn [forallb].
    rewrite (pre_lines_clean fl cr (or_intror eq_refl) Hf), (fasta_lines_clean b cr (or_intror eq_refl) H). reflexivity.
Qed.

Theorem gff_fts_options o fts b t : forallb wf_gft fts = true -> forallb wfb_fasta b = true ->
  write_w_fts Gff fts b = Ok t -> read_gff_opt o t = Ok (map (norm_fasta Gff) b).
Proof.
  intros Hf H E. unfold write_w_fts in E. inversion E; subst t.
  apply (gff_options_irrelevant o _ b (basket_ft_lines_ok fts b Hf) H).
Qed.
