(* C18 proofs, heap model: frame property, deepcopy gives a disjoint structurally equal object, copy isolation. *)
From Coq Require Import List ZArith NArith Bool Lia.
From Coq.Strings Require Import Byte.
Import ListNotations.
From SV Require Import Text G_attr C18_Model C18_Heap C18_Lemmas.

Definition cell_vals (c : cell) : list hval := match c with CMap _ kvs => map snd kvs | CList vs => vs end.
Definition vref_lt (n : nat) (v : hval) : Prop := match v with HRef l => l < n | _ => True end.
Definition vref_ge (n : nat) (v : hval) : Prop := match v with HRef l => n <= l | _ => True end.

(* locations reachable from a value *)
Inductive Reach (h : heap) : hval -> nat -> Prop :=
| R_here l : Reach h (HRef l) l
| R_step l c x l' : nth_error h l = Some c -> In x (cell_vals c) -> Reach h x l' -> Reach h (HRef l) l'.

Lemma mapM_ext {A B} (f g : A -> option B) l : (forall x, In x l -> f x = g x) -> mapM f l = mapM g l.
Proof.
  induction l as [|x r IH]; intros H; cbn; [reflexivity|].
  rewrite (H x (or_introl eq_refl)). rewrite IH; [reflexivity|]. intros y Hy. apply H. right. exact Hy.
Qed.
Lemma mapM_impl {A B} (f g : A -> option B) l ys :
  (forall x y, In x l -> f x = Some y -> g x = Some y) -> mapM f l = Some ys -> mapM g l = Some ys.
Proof.
  revert ys. induction l as [|x r IH]; intros ys H E; cbn in *; [exact E|].
  destruct (f x) as [y|] eqn:Fx; [|discriminate]. destruct (mapM f r) as [ys'|] eqn:Fr; [|discriminate].
  rewrite (H x y (or_introl eq_refl) Fx). rewrite (IH ys' (fun x' y' Hin => H x' y' (or_intror Hin)) eq_refl). exact E.
Qed.

(* ---- frame: a deep read depends only on the cells it can reach ---- *)
Lemma snap_ext n : forall h h' v,
  (forall l, Reach h v l -> nth_error h' l = nth_error h l) -> snap n h' v = snap n h v.
Proof.
  induction n as [|n IH]; intros h h' v H; destruct v as [| | | |l]; cbn; auto.
  rewrite (H l (R_here _ _)). destruct (nth_error h l) as [[g kvs|vs]|] eqn:E; auto.
  - f_equal. apply mapM_ext. intros kv Hin. f_equal. apply IH. intros l' R. apply H.
    eapply R_step; eauto. cbn. apply in_map. exact Hin.
  - f_equal. apply mapM_ext. intros x Hin. apply IH. intros l' R. apply H. eapply R_step; eauto.
Qed.

Lemma nth_error_set_nth_other {A} (l : list A) : forall n m x, n <> m -> nth_error (set_nth l n x) m = nth_error l m.
Proof.
  induction l as [|y r IH]; intros n m x N; destruct n, m; cbn; auto; try congruence.
Qed.
Lemma length_set_nth {A} (l : list A) : forall n x, length (set_nth l n x) = length l.
Proof. induction l as [|y r IH]; intros [|n] x; cbn; auto. Qed.
Lemma nth_error_set_nth_same {A} (l : list A) : forall n x, n < length l -> nth_error (set_nth l n x) n = Some x.
Proof. induction l as [|y r IH]; intros [|n] x H; cbn in *; try lia; auto. apply IH. lia. Qed.

(* P1 frame: writing a cell that x cannot reach leaves everything observable through x unchanged *)
Lemma frame_write h v l c n : ~ Reach h v l -> snap n (hwrite h l c) v = snap n h v.
Proof.
  intros NR. apply snap_ext. intros l' R. unfold hwrite. apply nth_error_set_nth_other. intros E. subst. contradiction.
Qed.

(* the same for any sequence of writes outside the reachable set *)
Lemma frame_writes h v n (ws : list (nat * cell)) :
  (forall l, Reach h v l -> ~ In l (map fst ws)) ->
  snap n (fold_left (fun h w => hwrite h (fst w) (snd w)) ws h) v = snap n h v.
Proof.
  intros H. apply snap_ext. intros l R. specialize (H l R). clear R.
  revert h. induction ws as [|[l' c] r IH]; intros h; cbn in *; [reflexivity|].
  rewrite IH by tauto. apply nth_error_set_nth_other. intros E. apply H. left. exact E.
Qed.

(* ---- monotonicity in fuel and under allocation ---- *)
Lemma snap_app n : forall h ex v t, snap n h v = Some t -> snap n (h ++ ex) v = Some t.
Proof.
  induction n as [|n IH]; intros h ex v t H; destruct v as [| | | |l]; cbn in *; auto.
  destruct (nth_error h l) as [c|] eqn:E; [|discriminate].
  rewrite nth_error_app1 by (apply nth_error_Some; congruence). rewrite E.
  destruct c as [g kvs|vs].
  - destruct (mapM _ kvs) as [ys|] eqn:M; [|discriminate]. erewrite mapM_impl; [exact H| |exact M].
    intros kv y Hin Hy. cbn in Hy. destruct (snap n h (snd kv)) as [t'|] eqn:S; [|discriminate].
    rewrite (IH _ _ _ _ S). exact Hy.
  - destruct (mapM _ vs) as [ys|] eqn:M; [|discriminate]. erewrite mapM_impl; [exact H| |exact M].
    intros x y Hin Hy. apply IH. exact Hy.
Qed.
Lemma snap_fuel n : forall m h v t, n <= m -> snap n h v = Some t -> snap m h v = Some t.
Proof.
  induction n as [|n IH]; intros m h v t L H; destruct v as [| | | |l]; try (destruct m; cbn in *; auto; fail).
  - cbn in H. discriminate.
  - destruct m as [|m]; [lia|]. cbn in *. destruct (nth_error h l) as [[g kvs|vs]|]; [| |discriminate].
    + destruct (mapM _ kvs) as [ys|] eqn:M; [|discriminate]. erewrite mapM_impl; [exact H| |exact M].
      intros kv y Hin Hy. cbn in Hy. destruct (snap n h (snd kv)) as [t'|] eqn:S; [|discriminate].
      rewrite (IH m _ _ _ ltac:(lia) S). exact Hy.
    + destruct (mapM _ vs) as [ys|] eqn:M; [|discriminate]. erewrite mapM_impl; [exact H| |exact M].
      intros x y Hin Hy. apply (IH m); [lia|exact Hy].
Qed.

(* ---- build allocates a fresh, self-contained copy of a tree ---- *)
Definition build_list : list tree -> heap -> heap * list hval :=
  fix go (l : list tree) (h : heap) : heap * list hval :=
    match l with
    | [] => (h, [])
    | x :: r => let '(h1, v) := build x h in let '(h2, vs) := go r h1 in (h2, v :: vs)
    end.
Definition build_items : list (str * tree) -> heap -> heap * list (str * hval) :=
  fix go (l : list (str * tree)) (h : heap) : heap * list (str * hval) :=
    match l with
    | [] => (h, [])
    | (k, x) :: r => let '(h1, v) := build x h in let '(h2, vs) := go r h1 in (h2, (k, v) :: vs)
    end.
Lemma build_TList l h : build (TList l) h = let '(h1, vs) := build_list l h in (h1 ++ [CList vs], HRef (length h1)).
Proof. reflexivity. Qed.
Lemma build_TMap g kvs h : build (TMap g kvs) h = let '(h1, vs) := build_items kvs h in (h1 ++ [CMap g vs], HRef (length h1)).
Proof. reflexivity. Qed.

Definition cells_ge (n : nat) (ex : list cell) : Prop := Forall (fun c => Forall (vref_ge n) (cell_vals c)) ex.

Definition cells_lt (n : nat) (ex : list cell) : Prop := Forall (fun c => Forall (vref_lt n) (cell_vals c)) ex.
Definition build_ok (t : tree) : Prop := forall h h' v, build t h = (h', v) ->
  exists ex, h' = h ++ ex /\ vref_ge (length h) v /\ vref_lt (length h') v /\ cells_ge (length h) ex
             /\ cells_lt (length h') ex /\ exists n, snap n h' v = Some t.

Lemma vref_ge_le n m v : n <= m -> vref_ge m v -> vref_ge n v.
Proof. destruct v; cbn; auto. lia. Qed.
Lemma vref_lt_le n m v : n <= m -> vref_lt n v -> vref_lt m v.
Proof. destruct v; cbn; auto. lia. Qed.
Lemma cells_lt_le n m ex : n <= m -> cells_lt n ex -> cells_lt m ex.
Proof.
  intros L H. unfold cells_lt in *. eapply Forall_impl; [|exact H]. intros c Hc. eapply Forall_impl; [|exact Hc].
  intros v. apply vref_lt_le. exact L.
Qed.
Lemma cells_ge_le n m ex : n <= m -> cells_ge m ex -> cells_ge n ex.
Proof.
  intros L H. unfold cells_ge in *. eapply Forall_impl; [|exact H]. intros c Hc. eapply Forall_impl; [|exact Hc].
  intros v. apply vref_ge_le. exact L.
Qed.

Lemma build_list_ok l : Forall build_ok l -> forall h h1 vs, build_list l h = (h1, vs) ->
  exists ex, h1 = h ++ ex /\ Forall (vref_ge (length h)) vs /\ Forall (vref_lt (length h1)) vs /\ cells_ge (length h) ex
             /\ cells_lt (length h1) ex /\ exists n, mapM (snap n h1) vs = Some l.
Proof.
  induction 1 as [|x r Hx Hr IH]; intros h h1 vs E; cbn in E.
  - inversion E; subst. exists []. rewrite app_nil_r. repeat split; auto; try constructor. exists 0. reflexivity.
  - destruct (build x h) as [ha v] eqn:Bx. destruct (build_list r ha) as [hb vs'] eqn:Br. inversion E; subst. clear E.
    destruct (Hx _ _ _ Bx) as (ex1 & -> & G1 & L1 & C1 & D1 & n1 & S1).
    destruct (IH _ _ _ Br) as (ex2 & -> & G2 & L2 & C2 & D2 & n2 & S2).
    exists (ex1 ++ ex2). rewrite app_assoc. split; [reflexivity|].
    assert (length h <= length (h ++ ex1)) as LE1 by (rewrite !app_length; lia).
    assert (length (h ++ ex1) <= length ((h ++ ex1) ++ ex2)) as LE2 by (rewrite !app_length; lia).
    split; [constructor; auto; eapply Forall_impl; [|exact G2]; intros a; apply vref_ge_le; exact LE1|].
    split; [constructor; auto; eapply vref_lt_le; eauto|].
    split; [apply Forall_app; split; auto; eapply cells_ge_le; eauto|].
    split; [apply Forall_app; split; auto; eapply cells_lt_le; eauto|].
    exists (Nat.max n1 n2). cbn.
    rewrite (snap_fuel n1 (Nat.max n1 n2) _ _ _ (Nat.le_max_l _ _) (snap_app _ _ ex2 _ _ S1)).
    erewrite mapM_impl; [reflexivity| |exact S2].
    intros a y _ Hy. eapply snap_fuel; [apply Nat.le_max_r|exact Hy].
Qed.

Lemma build_items_ok kvs : Forall (fun kv => build_ok (snd kv)) kvs -> forall h h1 vs, build_items kvs h = (h1, vs) ->
  exists ex, h1 = h ++ ex /\ Forall (vref_ge (length h)) (map snd vs) /\ Forall (vref_lt (length h1)) (map snd vs)
             /\ cells_ge (length h) ex /\ cells_lt (length h1) ex
             /\ exists n, mapM (fun kv => option_map (pair (fst kv)) (snap n h1 (snd kv))) vs = Some kvs.
Proof.
  induction 1 as [|[k x] r Hx Hr IH]; intros h h1 vs E; cbn in E.
  - inversion E; subst. exists []. rewrite app_nil_r. repeat split; auto; try constructor. exists 0. reflexivity.
  - destruct (build x h) as [ha v] eqn:Bx. destruct (build_items r ha) as [hb vs'] eqn:Br. inversion E; subst. clear E.
    cbn in Hx. destruct (Hx _ _ _ Bx) as (ex1 & -> & G1 & L1 & C1 & D1 & n1 & S1).
    destruct (IH _ _ _ Br) as (ex2 & -> & G2 & L2 & C2 & D2 & n2 & S2).
    exists (ex1 ++ ex2). rewrite app_assoc. split; [reflexivity|].
    assert (length h <= length (h ++ ex1)) as LE1 by (rewrite !app_length; lia).
    assert (length (h ++ ex1) <= length ((h ++ ex1) ++ ex2)) as LE2 by (rewrite !app_length; lia).
    cbn [map snd].
    split; [constructor; auto; eapply Forall_impl; [|exact G2]; intros a; apply vref_ge_le; exact LE1|].
    split; [constructor; auto; eapply vref_lt_le; eauto|].
    split; [apply Forall_app; split; auto; eapply cells_ge_le; eauto|].
    split; [apply Forall_app; split; auto; eapply cells_lt_le; eauto|].
    exists (Nat.max n1 n2). cbn.
    rewrite (snap_fuel n1 (Nat.max n1 n2) _ _ _ (Nat.le_max_l _ _) (snap_app _ _ ex2 _ _ S1)). cbn.
    erewrite mapM_impl; [reflexivity| |exact S2].
    intros a y _ Hy. cbn in Hy. destruct (snap n2 _ (snd a)) as [t'|] eqn:S; [|discriminate].
    rewrite (snap_fuel n2 (Nat.max n1 n2) _ _ _ (Nat.le_max_r _ _) S). exact Hy.
Qed.

Lemma nth_error_app_last {A} (l : list A) x : nth_error (l ++ [x]) (length l) = Some x.
Proof. rewrite nth_error_app2 by lia. rewrite Nat.sub_diag. reflexivity. Qed.

Lemma build_spec t : build_ok t.
Proof.
  induction t as [|b|z|s|l IH|g kvs IH] using tree_ind'; unfold build_ok; intros h h' v E;
    try (cbn in E; inversion E; subst; exists []; rewrite app_nil_r; repeat split; cbn; auto; try constructor;
         exists 0; reflexivity).
  - rewrite build_TList in E. destruct (build_list l h) as [h1 vs] eqn:B. inversion E; subst. clear E.
    destruct (build_list_ok l IH _ _ _ B) as (ex & -> & G & L & C & D & n & Sm).
    exists (ex ++ [CList vs]). rewrite app_assoc. split; [reflexivity|].
    split; [cbn; rewrite app_length; lia|]. split; [cbn; rewrite !app_length; cbn; lia|].
    split; [apply Forall_app; split; auto; constructor; auto|].
    split; [apply Forall_app; split; [eapply cells_lt_le; [|exact D]; rewrite !app_length; lia|];
            constructor; [|constructor]; eapply Forall_impl; [|exact L]; intros a; apply vref_lt_le; rewrite !app_length; lia|].
    exists (S n). cbn. rewrite nth_error_app_last.
    erewrite mapM_impl; [reflexivity| |exact Sm]. intros a y _ Hy. apply snap_app. exact Hy.
  - rewrite build_TMap in E. destruct (build_items kvs h) as [h1 vs] eqn:B. inversion E; subst. clear E.
    destruct (build_items_ok kvs IH _ _ _ B) as (ex & -> & G & L & C & D & n & Sm).
    exists (ex ++ [CMap g vs]). rewrite app_assoc. split; [reflexivity|].
    split; [cbn; rewrite app_length; lia|]. split; [cbn; rewrite !app_length; cbn; lia|].
    split; [apply Forall_app; split; auto; constructor; auto|].
    split; [apply Forall_app; split; [eapply cells_lt_le; [|exact D]; rewrite !app_length; lia|];
            constructor; [|constructor]; eapply Forall_impl; [|exact L]; intros a; apply vref_lt_le; rewrite !app_length; lia|].
    exists (S n). cbn. rewrite nth_error_app_last.
    erewrite mapM_impl; [reflexivity| |exact Sm]. intros a y _ Hy. cbn in Hy.
    destruct (snap n _ (snd a)) as [t'|] eqn:Sa; [|discriminate]. rewrite (snap_app _ _ _ _ _ Sa). exact Hy.
Qed.

(* ---- well-formed heaps: no dangling references ---- *)
Definition heap_ok (h : heap) : Prop := Forall (fun c => Forall (vref_lt (length h)) (cell_vals c)) h.

Lemma reach_old h ex v l : heap_ok h -> vref_lt (length h) v -> Reach (h ++ ex) v l -> l < length h.
Proof.
  intros OK Lv R. induction R as [l0|l0 c x l' E Hin R IH].
  - exact Lv.
  - cbn in Lv. apply IH. rewrite nth_error_app1 in E by exact Lv.
    unfold heap_ok in OK. rewrite Forall_forall in OK. specialize (OK c (nth_error_In _ _ E)).
    rewrite Forall_forall in OK. apply OK. exact Hin.
Qed.
Lemma reach_new h ex v l : cells_ge (length h) ex -> vref_ge (length h) v -> Reach (h ++ ex) v l -> length h <= l.
Proof.
  intros C Gv R. induction R as [l0|l0 c x l' E Hin R IH].
  - exact Gv.
  - cbn in Gv. apply IH. rewrite nth_error_app2 in E by exact Gv.
    unfold cells_ge in C. rewrite Forall_forall in C. specialize (C c (nth_error_In _ _ E)).
    rewrite Forall_forall in C. apply C. exact Hin.
Qed.

(* P1 deepcopy_disjoint: y = x.copy() is structurally equal to x, x is unchanged, the old cells are untouched,
   and the cells reachable from x and from y are disjoint *)
Theorem deepcopy_disjoint n h x h' y : heap_ok h -> vref_lt (length h) x -> deepcopy n h x = Some (h', y) ->
  exists t ex, h' = h ++ ex /\ snap n h x = Some t /\ snap n h' x = Some t /\ (exists m, snap m h' y = Some t) /\
    (forall l, Reach h' x l -> l < length h) /\ (forall l, Reach h' y l -> length h <= l).
Proof.
  intros OK Lx D. unfold deepcopy in D. destruct (snap n h x) as [t|] eqn:S; [|discriminate]. inversion D as [B]. clear D.
  destruct (build_spec t _ _ _ B) as (ex & -> & G & L & C & _ & m & Sy).
  exists t, ex. split; [reflexivity|]. split; [reflexivity|]. split; [apply snap_app; exact S|]. split; [exists m; exact Sy|].
  split; intros l R; [eapply reach_old; eauto|eapply reach_new; eauto].
Qed.

(* corollary copy_isolation, both directions: after y = x.copy(), ANY sequence of writes to cells reachable from one of
   the two objects (or to cells allocated later) leaves every deep read of the other one unchanged *)
Theorem copy_isolation n h x h' y ws k : heap_ok h -> vref_lt (length h) x -> deepcopy n h x = Some (h', y) ->
  let h'' := fold_left (fun h w => hwrite h (fst w) (snd w)) ws h' in
  ((forall l, In l (map fst ws) -> length h <= l) -> snap k h'' x = snap k h' x) /\
  ((forall l, In l (map fst ws) -> l < length h) -> snap k h'' y = snap k h' y).
Proof.
  intros OK Lx D. destruct (deepcopy_disjoint _ _ _ _ _ OK Lx D) as (t & ex & -> & _ & _ & _ & Rx & Ry).
  cbn zeta. split; intros W; apply frame_writes; intros l R Hin.
  - specialize (Rx l R). specialize (W l Hin). lia.
  - specialize (Ry l R). specialize (W l Hin). lia.
Qed.

(* operations that only allocate (x.copy(), Meta(x), building literals) are not in-place: every existing cell, hence
   every deep read of every existing object, is unchanged *)
Lemma alloc_pure n h ex v t : snap n h v = Some t -> snap n (h ++ ex) v = Some t.
Proof. apply snap_app. Qed.

(* heap_ok is preserved by allocation of cells without dangling references and by writes of such cells *)
Lemma heap_ok_app h ex : heap_ok h -> Forall (fun c => Forall (vref_lt (length (h ++ ex))) (cell_vals c)) ex -> heap_ok (h ++ ex).
Proof.
  intros OK H. unfold heap_ok. apply Forall_app. split; [|exact H].
  eapply Forall_impl; [|exact OK]. intros c Hc. eapply Forall_impl; [|exact Hc]. intros v. apply vref_lt_le.
  rewrite app_length. lia.
Qed.
Lemma Forall_set_nth {A} (P : A -> Prop) (l : list A) : forall n x, Forall P l -> P x -> Forall P (set_nth l n x).
Proof.
  induction l as [|y r IH]; intros n x H Px; cbn; [destruct n; constructor|].
  inversion H; subst. destruct n; constructor; auto.
Qed.
Lemma heap_ok_write h l c : heap_ok h -> Forall (vref_lt (length h)) (cell_vals c) -> heap_ok (hwrite h l c).
Proof.
  intros OK H. unfold heap_ok, hwrite. rewrite length_set_nth. apply Forall_set_nth; auto.
Qed.

(* non-vacuity: a concrete program.  r0 = Meta({'a': {'b': 1}, 'l': [{}]}); r1 = r0.copy(); r2 = Meta(r0);
   r1.a.b = 2 (copy: r0 unchanged); r2.a.b = 3 (re-wrap shares the nested Attr: r0 changes) *)
Definition demo_prog : list hop :=
  [HNew 0 (TMap TgDict [(bs "a"%bs, TMap TgDict [(bs "b"%bs, TInt 1)]); (bs "l"%bs, TList [TMap TgDict []])]);
   HCopy 1 0; HWrap 2 0 [];
   HSetLit 1 [PK (bs "a"%bs)] (bs "b"%bs) (TInt 2);
   HIs 0 [PK (bs "a"%bs)] 1 [PK (bs "a"%bs)];
   HIs 0 [PK (bs "a"%bs)] 2 [PK (bs "a"%bs)]].
Lemma demo_run :
  wf_C18_heap demo_prog = true /\
  let '(_, res, s) := run_hops demo_prog init_state true [] in
  res = [VNone; VNone; VNone; VNone; VB false; VB true] /\
  snap 9 (fst s) (reg s 0) = Some (TMap TgMeta [(bs "a"%bs, TMap TgAttr [(bs "b"%bs, TInt 1)]); (bs "l"%bs, TList [TMap TgDict []])]) /\
  snap 9 (fst s) (reg s 1) = Some (TMap TgMeta [(bs "a"%bs, TMap TgAttr [(bs "b"%bs, TInt 2)]); (bs "l"%bs, TList [TMap TgDict []])]).
Proof. vm_compute. repeat split; reflexivity. Qed.

Definition demo_heap : heap :=
  [CMap TgAttr [(bs "b"%bs, HInt 1)]; CMap TgDict []; CList [HRef 1];
   CMap TgMeta [(bs "a"%bs, HRef 0); (bs "l"%bs, HRef 2)]].
Lemma demo_heap_is : build (attr_init TgMeta [(bs "a"%bs, TMap TgDict [(bs "b"%bs, TInt 1)]); (bs "l"%bs, TList [TMap TgDict []])]) []
                     = (demo_heap, HRef 3).
Proof. vm_compute. reflexivity. Qed.
Lemma demo_heap_ok : heap_ok demo_heap /\ vref_lt (length demo_heap) (HRef 3) /\
  exists h' y, deepcopy 5 demo_heap (HRef 3) = Some (h', y) /\ y = HRef 7 /\ length h' = 8.
Proof.
  split; [|split].
  - unfold heap_ok, demo_heap. repeat constructor.
  - cbn. lia.
  - eexists. eexists. split; [vm_compute; reflexivity|]. split; reflexivity.
Qed.
