(* C18 proofs, object model: y = x.copy() is ISOMORPHIC to x -- the canonical dump (classes, slots, elements, scalars and the
   identity structure incl. internal sharing and cycles) of the copy equals the dump of the original, for every fuel. *)
From Coq Require Import List ZArith NArith Bool Lia.
From Coq.Strings Require Import Byte.
Import ListNotations.
From SV Require Import Text G_attr G_codes C18_Model C18_Heap C18_Lemmas C18_HeapLemmas C18_HeapOps C18_Obj C18_ObjLemmas.

Definition gview (n : nat) (h : oheap) (v : hval) : val :=
  match option_map (@rev nat) (dfs n h (vrefs [v]) []) with
  | Some order =>
      VL [render_v order v;
          VL (map (fun a => match nth_error h a with Some c => render_cell order c | None => VNone end) order)]
  | None => VE (bs "OutOfDomain"%bs)
  end.
Lemma view_gview n s k : view n s k = gview n (fst s) (oreg s k).
Proof. reflexivity. Qed.

Section Iso.
Variables (R : list nat) (n0 : nat).
Definition rho (a : nat) : nat := match index_of a R with Some i => n0 + i | None => a end.

Lemma index_of_In a : In a R -> exists i, index_of a R = Some i.
Proof.
  induction R as [|y r IH]; cbn; intros H; [contradiction|].
  destruct (Nat.eqb y a) eqn:E; [eauto|]. destruct H as [->|H]; [rewrite Nat.eqb_refl in E; discriminate|].
  destruct (IH H) as [i ->]. cbn. eauto.
Qed.
Lemma index_of_Some_In a : forall i, index_of a R = Some i -> In a R.
Proof.
  induction R as [|y r IH]; cbn; intros i H; [discriminate|].
  destruct (Nat.eqb y a) eqn:E; [left; apply Nat.eqb_eq; exact E|].
  destruct (index_of a r) as [j|]; cbn in H; [|discriminate]. right. eapply IH. reflexivity.
Qed.
Lemma index_of_inj a b : forall i, index_of a R = Some i -> index_of b R = Some i -> a = b.
Proof.
  induction R as [|y r IH]; cbn; intros i Ha Hb; [discriminate|].
  destruct (Nat.eqb y a) eqn:Ea, (Nat.eqb y b) eqn:Eb.
  - apply Nat.eqb_eq in Ea. apply Nat.eqb_eq in Eb. congruence.
  - destruct (index_of b r); cbn in Hb; [|discriminate]. inversion Ha; subst. discriminate.
  - destruct (index_of a r); cbn in Ha; [|discriminate]. inversion Hb; subst. discriminate.
  - destruct (index_of a r) as [ia|]; cbn in Ha; [|discriminate]. destruct (index_of b r) as [ib|]; cbn in Hb; [|discriminate].
    inversion Ha; inversion Hb; subst. eapply IH; eauto.
Qed.
Lemma rho_inj a b : In a R -> In b R -> rho a = rho b -> a = b.
Proof.
  intros Ha Hb. unfold rho. destruct (index_of_In a Ha) as [i Ei], (index_of_In b Hb) as [j Ej]. rewrite Ei, Ej.
  intros E. assert (i = j) by lia. subst. eapply index_of_inj; eauto.
Qed.
Lemma memb_rho a l : In a R -> (forall x, In x l -> In x R) -> memb (rho a) (map rho l) = memb a l.
Proof.
  intros Ha Hl. destruct (memb a l) eqn:M.
  - apply memb_In. apply in_map. apply memb_In. exact M.
  - destruct (memb (rho a) (map rho l)) eqn:M'; [|reflexivity]. apply memb_In in M'. apply in_map_iff in M'.
    destruct M' as [b [E Hb]]. apply rho_inj in E; auto. subst. apply memb_In in Hb. congruence.
Qed.
Lemma index_of_rho a l : In a R -> (forall x, In x l -> In x R) -> index_of (rho a) (map rho l) = index_of a l.
Proof.
  intros Ha. induction l as [|y r IH]; intros Hl; cbn; [reflexivity|].
  destruct (Nat.eqb y a) eqn:E.
  - apply Nat.eqb_eq in E. subst. rewrite Nat.eqb_refl. reflexivity.
  - destruct (Nat.eqb (rho y) (rho a)) eqn:E'.
    + apply Nat.eqb_eq in E'. apply rho_inj in E'; auto; [|apply Hl; left; reflexivity]. subst. rewrite Nat.eqb_refl in E. discriminate.
    + rewrite IH; [reflexivity|]. intros x Hx. apply Hl. right. exact Hx.
Qed.

Definition rho_v (v : hval) : hval := match v with HRef a => HRef (rho a) | _ => v end.
Lemma rename_rho v v' : rename R n0 v = Some v' -> v' = rho_v v /\ (forall a, v = HRef a -> In a R).
Proof.
  destruct v; cbn; intros H; try (inversion H; split; [reflexivity|intros; discriminate]).
  destruct (index_of l R) as [i|] eqn:E; cbn in H; [|discriminate]. inversion H. unfold rho. rewrite E. split; [reflexivity|].
  intros a Ha. inversion Ha; subst. eapply index_of_Some_In; eauto.
Qed.
Lemma mapM_rename vs vs' : mapM (rename R n0) vs = Some vs' -> vs' = map rho_v vs /\ (forall a, In (HRef a) vs -> In a R).
Proof.
  revert vs'. induction vs as [|v r IH]; cbn; intros vs' H.
  - inversion H. split; [reflexivity|intros a []].
  - destruct (rename R n0 v) as [v'|] eqn:E; [|discriminate]. destruct (mapM _ r) as [r'|]; [|discriminate]. inversion H.
    destruct (rename_rho _ _ E) as [-> In1]. destruct (IH r' eq_refl) as [-> In2]. split; [reflexivity|].
    intros a [Ha|Ha]; [apply In1; exact Ha|apply In2; exact Ha].
Qed.
Lemma mapM_rename_fs fs fs' : mapM (fun kv : str * hval => option_map (pair (fst kv)) (rename R n0 (snd kv))) fs = Some fs' ->
  fs' = map (fun kv => (fst kv, rho_v (snd kv))) fs /\ (forall a, In (HRef a) (map snd fs) -> In a R).
Proof.
  revert fs'. induction fs as [|[k v] r IH]; cbn; intros fs' H.
  - inversion H. split; [reflexivity|intros a []].
  - destruct (rename R n0 v) as [v'|] eqn:E; cbn in H; [|discriminate]. destruct (mapM _ r) as [r'|]; [|discriminate]. inversion H.
    destruct (rename_rho _ _ E) as [-> In1]. destruct (IH r' eq_refl) as [-> In2]. split; [reflexivity|].
    intros a [Ha|Ha]; [apply In1; exact Ha|apply In2; exact Ha].
Qed.
Lemma vrefs_rho vs : vrefs (map rho_v vs) = map rho (vrefs vs).
Proof. induction vs as [|v r IH]; [reflexivity|]. change (vrefs (map rho_v (v :: r))) with ((match rho_v v with HRef l => [l] | _ => [] end) ++ vrefs (map rho_v r)).
  change (vrefs (v :: r)) with ((match v with HRef l => [l] | _ => [] end) ++ vrefs r). rewrite IH, map_app. destruct v; reflexivity. Qed.
Lemma rename_cell_rho c c' : rename_cell R n0 c = Some c' ->
  c' = OC (ocls c) (map (fun kv => (fst kv, rho_v (snd kv))) (ofs c)) (map rho_v (oes c)) /\
  ocell_refs c' = map rho (ocell_refs c) /\ (forall a, In a (ocell_refs c) -> In a R).
Proof.
  unfold rename_cell. destruct (mapM _ (ofs c)) as [fs|] eqn:E1; [|discriminate]. destruct (mapM _ (oes c)) as [es|] eqn:E2; [|discriminate].
  intros H. inversion H. destruct (mapM_rename_fs _ _ E1) as [-> I1]. destruct (mapM_rename _ _ E2) as [-> I2].
  split; [reflexivity|]. split.
  - unfold ocell_refs, ocell_vals. cbn. rewrite map_map. cbn.
    replace (map (fun x : str * hval => rho_v (snd x)) (ofs c)) with (map rho_v (map snd (ofs c))) by (rewrite map_map; reflexivity).
    rewrite <- map_app. apply vrefs_rho.
  - intros a Ha. unfold ocell_refs, ocell_vals in Ha. apply In_vrefs in Ha. apply in_app_or in Ha. destruct Ha; [apply I1|apply I2]; assumption.
Qed.

Lemma mapM_nth {A B} (f : A -> option B) l ys : mapM f l = Some ys -> forall i x, nth_error l i = Some x ->
  exists y, f x = Some y /\ nth_error ys i = Some y.
Proof.
  revert ys. induction l as [|a r IH]; cbn; intros ys H i x Hx; [destruct i; discriminate|].
  destruct (f a) as [b|] eqn:E; [|discriminate]. destruct (mapM f r) as [zs|]; [|discriminate]. inversion H; subst.
  destruct i; cbn in *; [inversion Hx; subst; eauto|]. eapply IH; eauto.
Qed.
Lemma index_of_nth a : forall i, index_of a R = Some i -> nth_error R i = Some a.
Proof.
  induction R as [|y r IH]; cbn; intros i H; [discriminate|].
  destruct (Nat.eqb y a) eqn:E; [inversion H; apply Nat.eqb_eq in E; subst; reflexivity|].
  destruct (index_of a r) as [j|]; cbn in H; [|discriminate]. inversion H. cbn. apply IH. reflexivity.
Qed.
Variables (h : oheap) (cells : list ocell).
Hypothesis Hn0 : n0 = length h.
Hypothesis Hcells : mapM (fun a => match nth_error h a with Some c => rename_cell R n0 c | None => None end) R = Some cells.

Lemma copied_cell a : In a R -> exists c c', nth_error h a = Some c /\ rename_cell R n0 c = Some c' /\ nth_error (h ++ cells) (rho a) = Some c'.
Proof.
  intros Ha. destruct (index_of_In a Ha) as [i Ei]. pose proof (index_of_nth a i Ei) as N.
  destruct (mapM_nth _ _ _ Hcells i a N) as [c' [F Nc]]. destruct (nth_error h a) as [c|]; [|discriminate].
  exists c, c'. split; [reflexivity|]. split; [exact F|]. unfold rho. rewrite Ei. rewrite nth_error_app2 by lia.
  replace (n0 + i - length h) with i by lia. exact Nc.
Qed.

Lemma dfs_iso : forall n st seen, (forall x, In x st -> In x R) -> (forall x, In x seen -> In x R) ->
  dfs n (h ++ cells) (map rho st) (map rho seen) = option_map (map rho) (dfs n h st seen).
Proof.
  induction n as [|n IH]; intros st seen Hst Hseen; cbn [dfs]; [reflexivity|].
  destruct st as [|l st]; [reflexivity|]. cbn [map].
  assert (In l R) as Hl by (apply Hst; left; reflexivity).
  assert (forall x, In x st -> In x R) as Hst' by (intros x Hx; apply Hst; right; exact Hx).
  rewrite memb_rho by assumption. destruct (memb l seen); [apply IH; assumption|].
  destruct (copied_cell l Hl) as (c & c' & N & Rn & N'). rewrite N, N'.
  destruct (rename_cell_rho _ _ Rn) as (_ & Rf & Cl). rewrite Rf, <- map_app.
  change (rho l :: map rho seen) with (map rho (l :: seen)). apply IH.
  - intros x Hx. apply in_app_or in Hx. destruct Hx; [apply Cl|apply Hst']; assumption.
  - intros x [<-|Hx]; [exact Hl|apply Hseen; exact Hx].
Qed.
Lemma dfs_in_R : forall n st seen r, (forall x, In x st -> In x R) -> (forall x, In x seen -> In x R) ->
  dfs n h st seen = Some r -> forall x, In x r -> In x R.
Proof.
  induction n as [|n IH]; intros st seen r Hst Hseen E; cbn [dfs] in E; [discriminate|].
  destruct st as [|l st]; [inversion E; subst; exact Hseen|].
  assert (In l R) as Hl by (apply Hst; left; reflexivity).
  assert (forall x, In x st -> In x R) as Hst' by (intros x Hx; apply Hst; right; exact Hx).
  destruct (memb l seen); [apply (IH st seen r); assumption|].
  destruct (copied_cell l Hl) as (c & c' & N & Rn & N'). rewrite N in E.
  destruct (rename_cell_rho _ _ Rn) as (_ & Rf & Cl). apply (IH (ocell_refs c ++ st) (l :: seen) r); [| |exact E].
  - intros x Hx. apply in_app_or in Hx. destruct Hx; [apply Cl|apply Hst']; assumption.
  - intros x [<-|Hx]; [exact Hl|apply Hseen; exact Hx].
Qed.

Lemma render_v_rho order v : (forall x, In x order -> In x R) -> (forall a, v = HRef a -> In a R) ->
  render_v (map rho order) (rho_v v) = render_v order v.
Proof.
  intros Ho Hv. destruct v; cbn; try reflexivity. rewrite index_of_rho; auto.
Qed.
Lemma render_cell_rho order c c' : (forall x, In x order -> In x R) -> rename_cell R n0 c = Some c' ->
  render_cell (map rho order) c' = render_cell order c.
Proof.
  intros Ho Rn. destruct (rename_cell_rho _ _ Rn) as (-> & _ & Cl). unfold render_cell. cbn [ocls ofs oes].
  f_equal. f_equal. f_equal.
  - f_equal. rewrite map_map. apply map_ext_in. intros [k v] Hkv. cbn. f_equal. f_equal. f_equal. apply render_v_rho; auto.
    intros a ->. apply Cl. unfold ocell_refs, ocell_vals. apply In_vrefs. apply in_or_app. left.
    change (HRef a) with (snd (k, HRef a)). apply in_map. exact Hkv.
  - f_equal. f_equal. rewrite map_map. apply map_ext_in. intros v Hv. apply render_v_rho; auto.
    intros a ->. apply Cl. unfold ocell_refs, ocell_vals. apply In_vrefs. apply in_or_app. right. exact Hv.
Qed.

Lemma gview_iso n l : In l R -> gview n (h ++ cells) (HRef (rho l)) = gview n h (HRef l).
Proof.
  intros Hl. unfold gview. cbn [vrefs flat_map app].
  pose proof (dfs_iso n [l] [] (fun x H => match H with or_introl e => eq_ind _ (fun y => In y R) Hl _ e | or_intror f => match f with end end)
                (fun x (H : In x []) => match H with end)) as D.
  cbn [map] in D. rewrite D. destruct (dfs n h [l] []) as [r|] eqn:E; cbn [option_map]; [|reflexivity].
  assert (forall x, In x r -> In x R) as Hr.
  { eapply dfs_in_R; [| |exact E]; [intros x [<-|[]]; exact Hl|intros x []]. }
  assert (forall x, In x (rev r) -> In x R) as Hr' by (intros x Hx; apply Hr; apply in_rev; exact Hx).
  rewrite <- map_rev. f_equal. f_equal.
  - change (HRef (rho l)) with (rho_v (HRef l)). apply render_v_rho; auto. intros a Ha. inversion Ha; subst. exact Hl.
  - f_equal. f_equal. rewrite map_map. apply map_ext_in. intros a Ha.
    destruct (copied_cell a (Hr' a Ha)) as (c & c' & N & Rn & N'). rewrite N, N'. apply render_cell_rho; auto.
Qed.
End Iso.

Theorem graph_copy_iso h l h' l' n : graph_copy h l = Some (h', l') -> gview n h' (HRef l') = gview n h (HRef l).
Proof.
  unfold graph_copy. destruct (reach_order h [l]) as [R|]; [|discriminate].
  destruct (mapM _ R) as [cells|] eqn:E; [|discriminate]. destruct (index_of l R) as [i|] eqn:Ei; [|discriminate].
  intros H. inversion H; subst.
  replace (length h + i) with (rho R (length h) l) by (unfold rho; rewrite Ei; reflexivity).
  apply gview_iso with (n0 := length h); auto. eapply index_of_Some_In; eauto.
Qed.

(* y = x.copy(): the observation through y equals the observation through the copied object (and, by pure_not_inplace, the
   original is untouched) *)
Theorem copy_is_isomorphic i j q s s1 r n : i < length (snd s) -> ostep (OPure i PCopy j q) s = inl (s1, r) ->
  exists l, onav_pure (fst s) (oreg s j) q = Some (HRef l) /\ view n s1 i = gview n (fst s) (HRef l).
Proof.
  intros Li E. destruct (copy_effect _ _ _ _ _ _ E) as (l & l' & P & G & _ & Rs). exists l. split; [exact P|].
  rewrite view_gview. unfold oreg. rewrite Rs, nth_set_nth, Nat.eqb_refl.
  replace (Nat.ltb i (length (snd s))) with true by (symmetry; apply Nat.ltb_lt; exact Li). cbn [andb].
  eapply graph_copy_iso. exact G.
Qed.
