(* C08 proofs, part 4: composition laws of FeatureList.slice and FeatureList.rc (unbounded, list induction + lia):
   slice after slice is one slice with the intersected window and the summed shift; rc after slice is slice after rc with the
   mirrored window (exact on stranded features, up to the order of locations on unstranded ones: same root as F31). *)
From Coq Require Import List ZArith NArith Bool Lia Permutation.
From Coq.Strings Require Import Byte.
Import ListNotations.
From SV Require Import Text G_flags C08_Model C08_Lemmas C08_Geom.
Local Open Scope Z_scope.

(* ------------------------------------------------------------------ generic list facts *)
Lemma filter_map_filter {A B} (p1 : A -> bool) (p2 : B -> bool) (f : A -> B) l :
  filter p2 (map f (filter p1 l)) = map f (filter (fun x => p1 x && p2 (f x)) l).
Proof.
  induction l as [|x l IH]; [reflexivity|]. cbn [filter]. destruct (p1 x); cbn [andb map filter]; [|exact IH].
  destruct (p2 (f x)); cbn [map]; rewrite IH; reflexivity.
Qed.
Lemma filter_ext_all {A} (p q : A -> bool) l : (forall x, p x = q x) -> filter p l = filter q l.
Proof. intros H. induction l as [|x l IH]; [reflexivity|]. cbn [filter]. rewrite H, IH. reflexivity. Qed.
Lemma filter_map_comm {A B} (p : B -> bool) (f : A -> B) l : filter p (map f l) = map f (filter (fun x => p (f x)) l).
Proof. induction l as [|x l IH]; [reflexivity|]. cbn [map filter]. destruct (p (f x)); cbn [map]; rewrite IH; reflexivity. Qed.
Lemma flat_map_flat_map {A B C} (g : B -> list C) (h : A -> list B) l :
  flat_map g (flat_map h l) = flat_map (fun x => flat_map g (h x)) l.
Proof. induction l as [|x l IH]; [reflexivity|]. cbn [flat_map]. rewrite flat_map_app, IH. reflexivity. Qed.
Lemma flat_map_ext_all {A B} (g h : A -> list B) l : (forall x, In x l -> g x = h x) -> flat_map g l = flat_map h l.
Proof.
  induction l as [|x l IH]; intros H; [reflexivity|]. cbn [flat_map]. rewrite (H x (or_introl eq_refl)), IH; [reflexivity|].
  intros y Hy. apply H. right. exact Hy.
Qed.
Lemma flat_map_map {A B C} (g : B -> list C) (f : A -> B) l : flat_map g (map f l) = flat_map (fun x => g (f x)) l.
Proof. induction l as [|x l IH]; [reflexivity|]. cbn [map flat_map]. rewrite IH. reflexivity. Qed.
Lemma map_flat_map {A B C} (f : B -> C) (g : A -> list B) l : map f (flat_map g l) = flat_map (fun x => map f (g x)) l.
Proof. induction l as [|x l IH]; [reflexivity|]. cbn [flat_map]. rewrite map_app, IH. reflexivity. Qed.
Lemma filter_perm {A} (p : A -> bool) l l' : Permutation l l' -> Permutation (filter p l) (filter p l').
Proof.
  intros P. induction P as [|x l l' _ IH|x y l|l l' l'' _ IH1 _ IH2].
  - constructor.
  - cbn [filter]. destruct (p x); [apply perm_skip|]; exact IH.
  - cbn [filter]. destruct (p x), (p y); try apply Permutation_refl. apply perm_swap.
  - eapply Permutation_trans; eassumption.
Qed.

(* ------------------------------------------------------------------ slice after slice *)
(* win_lo / win_hi: C08_Model.v *)
Lemma overlaps_clip a1 b1 r1 a2 b2 l :
  overlaps_win a1 b1 l && overlaps_win a2 b2 (clip a1 b1 r1 l) = overlaps_win (win_lo a1 a2 r1) (win_hi b1 b2 r1) l.
Proof. unfold overlaps_win, clip, win_lo, win_hi. cbn [lstart lstop]. lia. Qed.
Lemma lor3 d p q : N.lor (N.lor d p) q = N.lor (N.lor d q) p.
Proof. rewrite <- !N.lor_assoc. f_equal. apply N.lor_comm. Qed.
Lemma lor_idem_r d p : N.lor (N.lor d p) p = N.lor d p.
Proof. rewrite <- N.lor_assoc, N.lor_diag. reflexivity. Qed.
Lemma clip_clip a1 b1 r1 a2 b2 r2 l :
  clip a2 b2 r2 (clip a1 b1 r1 l) = clip (win_lo a1 a2 r1) (win_hi b1 b2 r1) (r1 + r2) l.
Proof.
  unfold clip, win_lo, win_hi. cbn [lstart lstop lstrand ldefect lmeta]. f_equal; try lia.
  assert (EA : (lstart l <? Z.max a1 (a2 + r1)) = (lstart l <? a1) || (Z.max a1 (lstart l) - r1 <? a2)) by lia.
  assert (EB : (lstop l >? Z.min b1 (b2 + r1)) = (lstop l >? b1) || (Z.min b1 (lstop l) - r1 >? b2)) by lia.
  rewrite EA, EB.
  destruct (lstart l <? a1), (lstop l >? b1), (Z.max a1 (lstart l) - r1 <? a2), (Z.min b1 (lstop l) - r1 >? b2);
    cbn [orb]; rewrite ?N.lor_0_r; try reflexivity;
    apply N.bits_inj; intros i; rewrite ?N.lor_spec;
    destruct (N.testbit (ldefect l) i), (N.testbit D_MISS_LEFT i), (N.testbit D_MISS_RIGHT i); reflexivity.
Qed.
Lemma spec_slice_ft_twice a1 b1 r1 a2 b2 r2 f :
  flat_map (spec_slice_ft a2 b2 r2) (spec_slice_ft a1 b1 r1 f) = spec_slice_ft (win_lo a1 a2 r1) (win_hi b1 b2 r1) (r1 + r2) f.
Proof.
  unfold spec_slice_ft at 2 3.
  rewrite <- (filter_ext_all _ _ (flocs f) (fun l => overlaps_clip a1 b1 r1 a2 b2 l)).
  pose proof (filter_map_filter (overlaps_win a1 b1) (overlaps_win a2 b2) (clip a1 b1 r1) (flocs f)) as E.
  destruct (filter (overlaps_win a1 b1) (flocs f)) as [|k0 k] eqn:E1.
  - cbn [map filter] in E. symmetry in E. apply map_eq_nil in E. rewrite E. reflexivity.
  - cbn [flat_map]. rewrite app_nil_r. unfold spec_slice_ft. cbn [flocs fmeta]. rewrite E.
    destruct (filter (fun x => overlaps_win a1 b1 x && overlaps_win a2 b2 (clip a1 b1 r1 x)) (flocs f)) as [|j0 j]; [reflexivity|].
    cbn [map]. do 2 f_equal. f_equal; [apply clip_clip|].
    rewrite map_map. apply map_ext. intros l. apply clip_clip.
Qed.
(* the declarative slice composes: window intersected (the second window read in the first result's coordinates), shifts added *)
Lemma spec_slice_twice a1 b1 r1 a2 b2 r2 fts :
  spec_slice a2 b2 r2 (spec_slice a1 b1 r1 fts) = spec_slice (win_lo a1 a2 r1) (win_hi b1 b2 r1) (r1 + r2) fts.
Proof.
  unfold spec_slice. rewrite flat_map_flat_map. apply flat_map_ext_all. intros f _. apply spec_slice_ft_twice.
Qed.
Lemma spec_slice_wf a b r fts : wf_fts fts = true -> wf_fts (spec_slice a b r fts) = true.
Proof.
  intros H. pose proof (fts_slice_exact a b r fts H) as E. apply fts_slice_wf in E.
  unfold wf_fts. apply forallb_forall. rewrite Forall_forall in E. exact E.
Qed.
(* ... and so does FeatureList.slice itself, for every well-formed list and all (also open, empty, inverted) windows *)
Lemma slice_slice s1 e1 r1 s2 e2 r2 fts k : wf_fts fts = true ->
  slice s1 e1 r1 fts = Some k ->
  slice s2 e2 r2 k =
  slice (Some (win_lo (bound s1 (- maxsize)) (bound s2 (- maxsize)) r1)) (Some (win_hi (bound e1 maxsize) (bound e2 maxsize) r1)) (r1 + r2) fts.
Proof.
  intros H E. unfold slice in *. rewrite (fts_slice_exact _ _ _ fts H) in E. inversion E; subst k.
  rewrite (fts_slice_exact _ _ _ _ (spec_slice_wf _ _ _ fts H)). cbn [bound].
  rewrite (fts_slice_exact _ _ _ fts H). f_equal. apply spec_slice_twice.
Qed.

(* ------------------------------------------------------------------ Defect._reverse is a permutation of bit positions *)
Definition swapbit (i : N) : N := if (i <? 6)%N then N.lxor i 1 else i.
Definition dr_bits_ok (n : N) : bool :=
  forallb (fun i => Bool.eqb (N.testbit (defect_reverse n) i) (N.testbit n (swapbit i))) [0; 1; 2; 3; 4; 5; 6; 7]%N.
Lemma dr_bits_all : forallb dr_bits_ok all_defects = true.
Proof. vm_compute. reflexivity. Qed.
Lemma testbit_255_low i : (i < 8)%N -> N.testbit 255 i = true.
Proof. intros H. change 255%N with (N.ones 8). apply N.ones_spec_low. lia. Qed.
Lemma swapbit_low i : (i < 8)%N -> (swapbit i < 8)%N.
Proof.
  intros H. assert (C : (i = 0 \/ i = 1 \/ i = 2 \/ i = 3 \/ i = 4 \/ i = 5 \/ i = 6 \/ i = 7)%N) by lia.
  destruct C as [->|[->|[->|[->|[->|[->|[->| ->]]]]]]]; vm_compute; reflexivity.
Qed.
Lemma testbit_defect_reverse d i : N.testbit (defect_reverse d) i = N.testbit d (swapbit i).
Proof.
  destruct (N.ltb_spec i 8) as [Hi|Hi].
  - assert (E1 : N.testbit (defect_reverse d) i = N.testbit (defect_reverse (low d)) i).
    { rewrite <- low_defect_reverse. unfold low. rewrite N.land_spec, (testbit_255_low i Hi), andb_true_r. reflexivity. }
    assert (E2 : N.testbit d (swapbit i) = N.testbit (low d) (swapbit i)).
    { unfold low. rewrite N.land_spec, (testbit_255_low _ (swapbit_low i Hi)), andb_true_r. reflexivity. }
    rewrite E1, E2.
    pose proof dr_bits_all as A. rewrite forallb_forall in A. specialize (A (low d) (in_all_defects _ (low_lt d))).
    unfold dr_bits_ok in A. rewrite forallb_forall in A. apply eqb_prop. apply A.
    assert (C : (i = 0 \/ i = 1 \/ i = 2 \/ i = 3 \/ i = 4 \/ i = 5 \/ i = 6 \/ i = 7)%N) by lia.
    cbn [In]. intuition.
  - assert (S : swapbit i = i). { unfold swapbit. destruct (N.ltb_spec i 6); [lia|reflexivity]. } rewrite S.
    replace i with ((i - 8) + 8)%N by lia. rewrite <- !N.shiftr_spec by lia. rewrite defect_reverse_high. reflexivity.
Qed.
Lemma defect_reverse_lor p q : defect_reverse (N.lor p q) = N.lor (defect_reverse p) (defect_reverse q).
Proof. apply N.bits_inj. intros i. rewrite N.lor_spec, !testbit_defect_reverse, N.lor_spec. reflexivity. Qed.
Lemma defect_reverse_miss : defect_reverse D_MISS_LEFT = D_MISS_RIGHT /\ defect_reverse D_MISS_RIGHT = D_MISS_LEFT /\ defect_reverse 0 = 0%N.
Proof. repeat split. Qed.

(* ------------------------------------------------------------------ rc after slice = slice after rc *)
(* window and shift seen from the other strand of a sequence of length L, when the piece has length L' *)
Lemma mirror_clip L L' a b r l :
  mirror L' (clip a b r l) = clip (L - b) (L - a) (L - L' - r) (mirror L l).
Proof.
  destruct defect_reverse_miss as (M1 & M2 & M0).
  unfold mirror, clip. cbn [lstart lstop lstrand ldefect lmeta]. f_equal; try lia.
  rewrite !defect_reverse_lor.
  assert (E1 : (L - lstop l <? L - b) = (lstop l >? b)) by lia.
  assert (E2 : (L - lstart l >? L - a) = (lstart l <? a)) by lia.
  rewrite E1, E2. rewrite lor3. f_equal; f_equal.
  - destruct (lstop l >? b); [exact M2|exact M0].
  - destruct (lstart l <? a); [exact M1|exact M0].
Qed.
Lemma overlaps_mirror L a b l : overlaps_win (L - b) (L - a) (mirror L l) = overlaps_win a b l.
Proof. unfold overlaps_win, mirror. cbn [lstart lstop]. lia. Qed.

Definition ft_stranded (f : feature) : bool := stranded (flocs f).
Lemma stranded_hd t : t <> [] -> stranded t = byte_eqb (hd_strand t) cPlus || byte_eqb (hd_strand t) cMinus.
Proof. destruct t; [congruence|reflexivity]. Qed.
(* one stranded feature *)
Lemma rc_slice_ft L L' a b r f : wf_ft f = true -> ft_stranded f = true ->
  map (spec_rc_ft L') (spec_slice_ft a b r f) = spec_slice_ft (L - b) (L - a) (L - L' - r) (spec_rc_ft L f).
Proof.
  intros Hwf S. unfold wf_ft in Hwf. unfold ft_stranded in S.
  destruct (inv_locs_head _ Hwf) as (l0 & r0 & Et & Hs).
  unfold spec_slice_ft, spec_rc_ft. cbn [flocs fmeta].
  rewrite (spec_rc_stranded L _ Hwf S). rewrite filter_map_comm.
  rewrite (filter_ext_all _ (overlaps_win a b) (flocs f) (fun l => overlaps_mirror L a b l)).
  pose proof (inv_s_slice a b r _ _ Hs) as Hk.
  destruct (filter (overlaps_win a b) (flocs f)) as [|k0 k] eqn:E; [reflexivity|].
  set (K := map (clip a b r) (k0 :: k)) in *.
  assert (Kn : K <> []) by (unfold K; discriminate).
  assert (KI : inv_locs K = true) by (apply inv_locs_inv_s; split; [exact Kn|exists (lstrand l0); exact Hk]).
  assert (KS : stranded K = true).
  { rewrite (stranded_hd K Kn), (inv_hd_strand _ K Kn Hk). rewrite Et in S. exact S. }
  cbn [map]. unfold spec_rc_ft. cbn [flocs fmeta]. rewrite (spec_rc_stranded L' K KI KS).
  f_equal. f_equal. unfold K. rewrite !map_map. cbn [map]. f_equal; [apply mirror_clip|]. apply map_ext. intros l. apply mirror_clip.
Qed.
Lemma rc_slice_commute L L' a b r fts : wf_fts fts = true -> forallb ft_stranded fts = true ->
  map (spec_rc_ft L') (spec_slice a b r fts) = spec_slice (L - b) (L - a) (L - L' - r) (map (spec_rc_ft L) fts).
Proof.
  intros H S. unfold spec_slice. rewrite map_flat_map, flat_map_map. apply flat_map_ext_all. intros f Hf.
  unfold wf_fts in H. rewrite forallb_forall in H, S. apply rc_slice_ft; [apply H|apply S]; exact Hf.
Qed.
(* the same about the modelled methods: fts.slice(a, b, rel=r).rc(L') = fts.rc(L).slice(L-b, L-a, rel=L-L'-r) *)
Lemma rc_slice_commute_model L L' s e r fts k : wf_fts fts = true -> forallb ft_stranded fts = true ->
  slice s e r fts = Some k ->
  exists m, fts_rc L fts = Some m /\
    fts_rc L' k = slice (Some (L - bound e maxsize)) (Some (L - bound s (- maxsize))) (L - L' - r) m.
Proof.
  intros H S E. unfold slice in *. rewrite (fts_slice_exact _ _ _ fts H) in E.
  assert (Ek : k = spec_slice (bound s (- maxsize)) (bound e maxsize) r fts) by congruence. subst k. clear E.
  destruct (fts_rc_exact L fts H) as [E1 W1]. exists (map (spec_rc_ft L) fts). split; [exact E1|].
  pose proof (spec_slice_wf (bound s (- maxsize)) (bound e maxsize) r fts H) as W0.
  destruct (fts_rc_exact L' _ W0) as [E2 _]. rewrite E2. cbn [bound].
  rewrite (fts_slice_exact _ _ _ _ W1). f_equal. apply rc_slice_commute; assumption.
Qed.

(* unstranded features: the same locations, possibly in another order (ties after clipping; root of F31) *)
Definition ft_equiv (g h : feature) : Prop := fmeta g = fmeta h /\ Permutation (flocs g) (flocs h).
Lemma rc_slice_ft_perm L L' a b r f :
  Forall2 ft_equiv (map (spec_rc_ft L') (spec_slice_ft a b r f)) (spec_slice_ft (L - b) (L - a) (L - L' - r) (spec_rc_ft L f)).
Proof.
  unfold spec_slice_ft, spec_rc_ft. cbn [flocs fmeta].
  assert (P : Permutation (filter (overlaps_win (L - b) (L - a)) (spec_rc_locs L (flocs f)))
                          (map (mirror L) (filter (overlaps_win a b) (flocs f)))).
  { eapply Permutation_trans; [apply filter_perm; apply spec_rc_perm|]. rewrite filter_map_comm.
    rewrite (filter_ext_all _ (overlaps_win a b) (flocs f) (fun l => overlaps_mirror L a b l)). apply Permutation_refl. }
  destruct (filter (overlaps_win a b) (flocs f)) as [|k0 k] eqn:E.
  - cbn [map] in P. apply Permutation_sym, Permutation_nil in P. rewrite P. constructor.
  - destruct (filter (overlaps_win (L - b) (L - a)) (spec_rc_locs L (flocs f))) as [|j0 j] eqn:EJ.
    + apply Permutation_nil in P. discriminate.
    + cbv beta iota. rewrite (map_cons (spec_rc_ft L')). change (map (spec_rc_ft L') []) with (@nil feature).
      constructor; [|constructor]. split; [reflexivity|]. unfold spec_rc_ft. cbn [flocs].
      eapply Permutation_trans; [apply spec_rc_perm|].
      eapply Permutation_trans; [|apply Permutation_map; apply Permutation_sym; exact P].
      rewrite !map_map. erewrite map_ext; [apply Permutation_refl|]. intros l. cbn beta. apply mirror_clip.
Qed.
Lemma Forall2_flat_map {A B C} (R : B -> C -> Prop) (g : A -> list B) (h : A -> list C) l :
  (forall x, In x l -> Forall2 R (g x) (h x)) -> Forall2 R (flat_map g l) (flat_map h l).
Proof.
  induction l as [|x l IH]; intros H; [constructor|]. cbn [flat_map]. apply Forall2_app.
  - apply H. left. reflexivity.
  - apply IH. intros y Hy. apply H. right. exact Hy.
Qed.
Lemma rc_slice_commute_perm L L' a b r fts :
  Forall2 ft_equiv (map (spec_rc_ft L') (spec_slice a b r fts))
                   (spec_slice (L - b) (L - a) (L - L' - r) (map (spec_rc_ft L) fts)).
Proof.
  unfold spec_slice. rewrite map_flat_map, flat_map_map. apply Forall2_flat_map. intros f _. apply rc_slice_ft_perm.
Qed.
(* exactness cannot be claimed for unstranded features: [0,5) and [1,7) cut at 4 tie after clipping on one route only *)
Definition commute_witness : feature := mkFt [mkLoc 0 5 S_NONE 0 1; mkLoc 1 7 S_NONE 0 2] 0.
Lemma rc_slice_commute_refuted :
  wf_ft commute_witness = true /\ ft_stranded commute_witness = false /\
  map (spec_rc_ft 4) (spec_slice 0 4 0 [commute_witness]) <> spec_slice (10 - 4) (10 - 0) (10 - 4 - 0) (map (spec_rc_ft 10) [commute_witness]).
Proof. split; [reflexivity|]. split; [reflexivity|]. vm_compute. discriminate. Qed.
