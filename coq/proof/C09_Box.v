(* C09 proofs, part 4: complete enumeration of the small box (scanner + extraction + reader, end to end on the model). *)
From Coq Require Import List Arith Lia ZArith NArith Bool.
From Coq.Strings Require Import Byte.
Import ListNotations.
From SV Require Import Text C09_Model.

(* entries the scanner has to produce for a rendered record list: one per record, offset = sum of the preceding record
   texts, line length = 0 unless the residues continue after the first line *)
Fixpoint expected_from (nl : str) (fn pos : nat) (rs : list arec) : list entry :=
  match rs with
  | [] => []
  | r :: rs' => Entry (rid r) fn (if length (rseq r) <=? rw r then 0 else rw r + length nl) pos
                :: expected_from nl fn (pos + length (render_rec nl r)) rs'
  end.
Definition entry_eqb (a b : entry) : bool :=
  str_eqb (e_id a) (e_id b) && (e_fn a =? e_fn b) && (e_linelen a =? e_linelen b) && (e_start a =? e_start b).
Fixpoint list_eqb {A} (eq : A -> A -> bool) (a b : list A) : bool :=
  match a, b with
  | [], [] => true
  | x :: a', y :: b' => eq x y && list_eqb eq a' b'
  | _, _ => false
  end.
Definition scan_ok (crlf final : bool) (rs : list arec) : bool :=
  match scan_file (render_file crlf final rs) 0 with
  | Ok es => list_eqb entry_eqb es (expected_from (nl_of crlf) 0 0 rs)
  | Err _ => false
  end.

(* the box of the correspondence harness (tools/props/c09.py box_case): focus record x of n residues at width w,
   alone / first / in the middle / last, neighbours with other widths and possibly empty sequences *)
Definition box_x (w n : nat) : arec := ARec (bs "x"%bs) [] (firstn n (bs "ACGTNacgtnRY"%bs)) w.
Definition box_p (w n : nat) : arec := ARec (bs "p"%bs) (bs " before"%bs) (firstn ((w + n) mod 8) (bs "TTTTTTT"%bs)) 3.
Definition box_q (w n : nat) : arec := ARec (bs "q1"%bs) [] (if (w + n) mod 3 =? 0 then [] else bs "GGGGG"%bs) 2.
Definition box_recs (w n pos : nat) : list arec :=
  match pos with
  | 0 => [box_x w n]
  | 1 => [box_x w n; box_q w n]
  | 2 => [box_p w n; box_x w n; box_q w n]
  | _ => [box_p w n; box_x w n]
  end.
Record cfg := Cfg { c_w : nat; c_n : nat; c_crlf : bool; c_final : bool; c_pos : nat }.
Definition box_cfgs : list cfg :=
  flat_map (fun w => flat_map (fun n => flat_map (fun crlf => flat_map (fun final =>
    map (fun pos => Cfg w n crlf final pos) (seq 0 4)) [true; false]) [true; false]) (seq 0 12)) (seq 1 5).

Definition val_eqb (a b : val) : bool := str_eqb (show a) (show b).

(* every range 0 <= i < j <= n+3, plus open start / open end, through get on the model index of the rendered file *)
Definition cfg_ok (mode : N) (c : cfg) : bool :=
  let rs := box_recs (c_w c) (c_n c) (c_pos c) in
  let f := render_file (c_crlf c) (c_final c) rs in
  let s := rseq (box_x (c_w c) (c_n c)) in
  let idb := bs "x"%bs in
  scan_ok (c_crlf c) (c_final c) rs &&
  match scan_file f 0 with
  | Err _ => false
  | Ok es =>
      let get q := answer mode [f] es q in
      let want d := VL [VS idb; VS idb; VS (upper d)] in
      forallb (fun i =>
        forallb (fun j => val_eqb (get (Query 0 idb (Some (Some (Z.of_nat i), Some (Z.of_nat j)))))
                                  (want (firstn (j - i) (skipn i s))))
                (seq (i + 1) (c_n c + 3 - i))
        && val_eqb (get (Query 0 idb (Some (Some (Z.of_nat i), None)))) (want (skipn i s))
        && val_eqb (get (Query 0 idb (Some (None, Some (Z.of_nat (S i)))))) (want (firstn (S i) s)))
        (seq 0 (c_n c + 3))
      && val_eqb (get (Query 0 idb None)) (want s)
      && (Nat.eqb (distinct_ids es []) (length rs))
  end.

Lemma box_all_ok : forallb (fun c => cfg_ok MODE_BINARY c && cfg_ok MODE_DB c) box_cfgs = true.
Proof. vm_compute. reflexivity. Qed.

Theorem index_get_box : forall c, In c box_cfgs -> cfg_ok MODE_BINARY c = true /\ cfg_ok MODE_DB c = true.
Proof.
  intros c H. pose proof box_all_ok as A. rewrite forallb_forall in A. specialize (A c H).
  apply andb_prop in A. exact A.
Qed.

Lemma box_size : length box_cfgs = 960.
Proof. vm_compute. reflexivity. Qed.
