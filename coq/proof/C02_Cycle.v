(* C02 proofs, part 4: whole write/read cycles on concrete feature lists (finite facts by computation):
   non-vacuity witnesses of the round trip and the two regions excluded from it (pending fixes). *)
From Coq Require Import List ZArith NArith Bool.
From Coq.Strings Require Import Byte.
Import ListNotations.
From SV Require Import Text G_gff C02_Model.
Local Open Scope Z_scope.

(* w1 = write x, x1 = read w1, w2 = write x1 *)
Definition cycle2 (x : list feat) : option (str * list feat * str) :=
  match write_gff x with
  | Some w1 => match read_gff w1 with
               | Some x1 => match write_gff x1 with Some w2 => Some (w1, x1, w2) | None => None end
               | None => None
               end
  | None => None
  end.
(* the second written text is byte-identical to the first *)
Definition fix2 (x : list feat) : bool :=
  match cycle2 x with Some (w1, _, w2) => str_eqb w1 w2 | None => false end.
(* effective attributes of the i-th location: feature level overridden by the location's own *)
Definition eff_attrs (f : feat) (l : loc) : adict := apop k_type (loc_meta (merged_gff f) l).
Definition same_map (a b : adict) : bool :=
  forallb (fun kv => opt_aval_eqb (aget (fst kv) b) (snd kv)) a && forallb (fun kv => opt_aval_eqb (aget (fst kv) a) (snd kv)) b.
Definition same_loc (f g : feat) (l m : loc) : bool :=
  Z.eqb (lstart l) (lstart m) && Z.eqb (lstop l) (lstop m) && byte_eqb (lstrand l) (lstrand m) && same_map (eff_attrs f l) (eff_attrs g m).
Fixpoint all2 {A} (p : A -> A -> bool) (a b : list A) : bool :=
  match a, b with
  | [], [] => true
  | x :: a', y :: b' => p x y && all2 p a' b'
  | _, _ => false
  end.
Definition same_feat (f g : feat) : bool :=
  match aget k_type (merged_gff f), aget k_type (merged_gff g) with
  | Some a, Some b => aval_eqb a b
  | None, None => true
  | _, _ => false
  end
  && all2 (same_loc f g) (flocs f) (flocs g).
(* reading back gives the same features: type, ordered locations, strand, effective attributes of every location *)
Definition roundtrip_ok (x : list feat) : bool :=
  match cycle2 x with Some (_, x1, _) => all2 same_feat x x1 | None => false end.

(* a minus-strand CDS in three parts with per-location phase and notes, reserved characters everywhere *)
Definition ex_cds : feat :=
  mkFeat [(k_type, AS (bs "CDS"%bs))]
         (Some [(k_ID, AS (bs "cds 1;a=b"%bs)); (bs "Name"%bs, AS (bs "x,y%z&w"%bs)); (k_seqid, AS (bs "chr 1"%bs));
                (bs "Dbxref"%bs, AL [bs "a;b"%bs; bs "c=d"%bs]); (k_phase, AI 0); (k_score, AF (bs "12.25"%bs))])
         [mkLoc 90 100 "-" None;
          mkLoc 50 60 "-" (Some [(k_phase, AI 2); (bs "Note"%bs, AS [x09; "n"%byte])]);
          mkLoc 20 30 "-" (Some [(k_phase, AI 1); (bs "Dbxref"%bs, AL [bs "e"%bs; bs ""%bs])])].
Lemma ex_cds_ok : wf_C02 [ex_cds] = true /\ rt_C02 [ex_cds] = true /\ fix2 [ex_cds] = true /\ roundtrip_ok [ex_cds] = true.
Proof. vm_compute. auto. Qed.

(* OPEN FINDING F39 firstloc_overrides: the 5'-most location has a key of its own; after one cycle the other location
   inherits it (phase 2 appears on the line that had none), so the second text differs from the first *)
Definition ex_firstloc : feat :=
  mkFeat [(k_type, AS (bs "CDS"%bs))] (Some [(k_ID, AS (bs "x"%bs)); (k_seqid, AS (bs "s"%bs))])
         [mkLoc 20 30 "-" (Some [(k_phase, AI 2)]); mkLoc 0 10 "-" None].
Lemma firstloc_refuted : exists x, wf_C02 x = true /\ forallb normalised x = false /\ fix2 x = false /\ roundtrip_ok x = false.
Proof. exists [ex_firstloc]. vm_compute. auto. Qed.
(* the text obtained after one cycle is stable from then on *)
Lemma firstloc_third_write : match cycle2 [ex_firstloc] with Some (_, x1, _) => fix2 x1 | None => false end = true.
Proof. vm_compute. reflexivity. Qed.

(* lines of one feature naming different sources (F38, fixed in 3e14524): every line keeps its own source *)
Definition ex_locsource : feat :=
  mkFeat [(k_type, AS (bs "match"%bs))] (Some [(k_ID, AS (bs "m"%bs)); (k_seqid, AS (bs "s"%bs)); (k_source, AS (bs "A"%bs))])
         [mkLoc 0 10 "+" None; mkLoc 20 30 "+" (Some [(k_source, AS (bs "B"%bs))])].
Definition ex_locsource_text : bstr := "##gff-version 3
s	A	match	1	10	.	+	.	ID=m
s	B	match	21	30	.	+	.	ID=m
"%bs.
Lemma locsource_ok : wf_C02 [ex_locsource] = true /\ rt_C02 [ex_locsource] = true /\ fix2 [ex_locsource] = true /\ roundtrip_ok [ex_locsource] = true /\
  option_map Bstr (write_gff [ex_locsource]) = Some ex_locsource_text.
Proof. vm_compute. auto. Qed.

(* neighbouring features with one (ID, type, seqid) are one feature to the reader (GFF3 semantics of a shared ID) *)
Definition ex_adj : list feat :=
  [mkFeat [(k_type, AS (bs "region"%bs))] (Some [(k_ID, AS (bs "dup"%bs))]) [mkLoc 500 600 "+" None];
   mkFeat [(k_type, AS (bs "region"%bs))] (Some [(k_ID, AS (bs "dup"%bs)); (k_score, AF (bs "0.5"%bs))]) [mkLoc 10 20 "+" None]].
Lemma adjacent_refuted : exists x, wf_C02 x = true /\ forallb normalised x = true /\ adjacent_distinct x = false /\ fix2 x = false /\ roundtrip_ok x = false.
Proof. exists ex_adj. vm_compute. auto. Qed.
