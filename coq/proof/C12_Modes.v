(* C12: the exact specification of every mode (need_start always/once/never x need_stop), its meaning, order and
   exactly-once; ORF features, baskets and the len_* filters. *)
From Coq Require Import List ZArith NArith Bool Lia ZifyBool Sorted.
From Coq.Strings Require Import Byte.
Import ListNotations.
From SV Require Import Text C05_Model C05_Lemmas C12_Model C12_Lemmas C12_Gap.
Local Open Scope Z_scope.

Definition orfs_of (minlen frame L : Z) (ps : list (Z * Z)) : list orf :=
  filter (long_enough minlen) (map (mk_orf frame L) ps).

(* ---- chain modes (once after its first start, never) ------------------------------------------------------------------ *)
Lemma chain_next_stop need_stop last L : forall stops i1, i1 < last ->
  match next_stop i1 stops with
  | Some (e, r) => spec_chain need_stop last L i1 stops = (i1, e) :: spec_chain need_stop last L e r
  | None => spec_chain need_stop last L i1 stops = if need_stop then [] else [(i1, L)]
  end.
Proof.
  induction stops as [|d r IH]; intros i1 Hl; cbn [next_stop spec_chain].
  - assert (E : last <=? i1 = false) by lia. rewrite E. destruct need_stop; reflexivity.
  - assert (E : last <=? i1 = false) by lia. rewrite E.
    destruct (d >? i1) eqn:D.
    + assert (E2 : d <=? i1 = false) by lia. rewrite E2. reflexivity.
    + assert (E2 : d <=? i1 = true) by lia. rewrite E2. apply IH. exact Hl.
Qed.

Lemma chain_past_last need_stop last L i1 stops : last <= i1 -> spec_chain need_stop last L i1 stops = [].
Proof.
  intros H. assert (E : last <=? i1 = true) by lia.
  destruct stops; cbn [spec_chain]; rewrite E; [rewrite orb_true_r|]; reflexivity.
Qed.

Definition chain_mode (ns : nstart) : Prop := ns = NSOnce \/ ns = NSNever.

(* the iterations after the first one: i2 = Some p, i1 = p *)
Lemma chain_loop_spec : forall fuel ns need_stop minlen L frame fs last starts stops p,
  chain_mode ns -> zsorted stops -> Forall (fun e => p < e) stops -> Forall (stop_in L) stops ->
  0 <= p -> last <= L -> (length stops < fuel)%nat ->
  frame_loop fuel ns need_stop minlen L frame fs last starts stops (Some p) =
  ROk (orfs_of minlen frame L (spec_chain need_stop last L p stops)).
Proof.
  induction fuel as [|fuel IH]; intros ns need_stop minlen L frame fs last starts stops p Hm Hs Hp Hb H0 HL Hf; [lia|].
  cbn [frame_loop].
  assert (Ec : loop_cond ns starts (Some p) = true) by (destruct Hm; subst ns; cbn; [apply orb_true_r|reflexivity]).
  assert (Ei : choose_i1 ns fs starts (Some p) = (p, starts)) by (destruct Hm; subst ns; reflexivity).
  rewrite Ec, Ei. cbn [negb fst snd].
  destruct (p >=? last) eqn:Hbreak.
  { rewrite chain_past_last by lia. reflexivity. }
  unfold loop_body. assert (E1 : (p <? p) = false) by lia. rewrite E1.
  destruct stops as [|e r].
  - cbn [next_stop spec_chain]. assert (E2 : last <=? p = false) by lia. rewrite E2, orb_false_r.
    destruct need_stop; [reflexivity|].
    rewrite inds2orf_mk by lia. rewrite Z.eqb_refl. unfold orfs_of, long_enough. cbn [map filter cons_res]. reflexivity.
  - inversion Hp as [|? ? Hpe Hpr]; subst. inversion Hb as [|? ? Hbe Hbr]; subst.
    apply zsorted_tail in Hs. destruct Hs as [Hs1 Hs2]. unfold stop_in in Hbe.
    cbn [next_stop spec_chain]. assert (E2 : e >? p = true) by lia. rewrite E2.
    assert (E3 : last <=? p = false) by lia. assert (E4 : e <=? p = false) by lia. rewrite E3, E4.
    rewrite inds2orf_mk by lia.
    assert (Hrest : (if e =? L then ROk [] else frame_loop fuel ns need_stop minlen L frame fs last starts r (Some e))
                    = ROk (orfs_of minlen frame L (spec_chain need_stop last L e r))).
    { destruct (e =? L) eqn:EL.
      - rewrite chain_past_last by lia. reflexivity.
      - apply IH; auto; [lia|cbn [length] in Hf; lia]. }
    rewrite Hrest. unfold orfs_of, long_enough. cbn [map filter cons_res]. reflexivity.
Qed.

(* the first iteration of a chain mode: i2 = None, i1 = the first start (once) or the frame start (never) *)
Lemma chain_first_spec fuel ns need_stop minlen L frame fs last starts stops i1 starts' :
  chain_mode ns -> loop_cond ns starts None = true -> choose_i1 ns fs starts None = (i1, starts') ->
  zsorted stops -> Forall (stop_in L) stops -> 0 <= i1 -> last <= L -> (length stops <= fuel)%nat ->
  frame_loop (S fuel) ns need_stop minlen L frame fs last starts stops None =
  ROk (orfs_of minlen frame L (spec_chain need_stop last L i1 stops)).
Proof.
  intros Hm Ec Ei Hs Hb H0 HL Hf. cbn [frame_loop]. rewrite Ec, Ei. cbn [negb fst snd].
  destruct (i1 >=? last) eqn:Hbreak.
  { rewrite chain_past_last by lia. reflexivity. }
  unfold loop_body.
  pose proof (chain_next_stop need_stop last L stops i1 ltac:(lia)) as CN.
  destruct (next_stop i1 stops) as [[e r]|] eqn:N.
  - pose proof (next_stop_some _ _ _ _ N) as (N1 & N2 & N3 & N4).
    pose proof (next_stop_sorted _ _ _ _ Hs N) as (R1 & R2).
    assert (Hbr : Forall (stop_in L) r) by (eapply Forall_incl; eauto).
    assert (HeL : stop_in L e) by (rewrite Forall_forall in Hb; auto). unfold stop_in in HeL.
    rewrite inds2orf_mk by lia. rewrite CN.
    assert (Hrest : (if e =? L then ROk [] else frame_loop fuel ns need_stop minlen L frame fs last starts' r (Some e))
                    = ROk (orfs_of minlen frame L (spec_chain need_stop last L e r))).
    { destruct (e =? L) eqn:EL.
      - rewrite chain_past_last by lia. reflexivity.
      - apply chain_loop_spec; auto; lia. }
    rewrite Hrest. unfold orfs_of, long_enough. cbn [map filter cons_res]. reflexivity.
  - rewrite CN. destruct need_stop; [reflexivity|].
    rewrite inds2orf_mk by lia. rewrite Z.eqb_refl. unfold orfs_of, long_enough. cbn [map filter cons_res]. reflexivity.
Qed.

(* ---- always, either need_stop ------------------------------------------------------------------------------------------ *)
Lemma spec_always_true L starts : forall stops prev, spec_always true L starts stops prev = spec_default starts stops prev.
Proof. induction stops as [|e r IH]; intros prev; cbn [spec_always spec_default]; [reflexivity|]. rewrite !IH. reflexivity. Qed.

Lemma spec_always_nil_starts ns L : forall stops prev, spec_always ns L [] stops prev = [].
Proof. induction stops as [|e r IH]; intros prev; cbn; [destruct ns; reflexivity|auto]. Qed.

Lemma always_drop_head ns L a ss : forall stops prev, a < prev -> zsorted stops -> Forall (fun e => prev <= e) stops ->
  spec_always ns L (a :: ss) stops prev = spec_always ns L ss stops prev.
Proof.
  induction stops as [|e r IH]; intros prev Ha Hs Hp; cbn [spec_always find].
  - assert (E : prev <=? a = false) by lia. rewrite E. reflexivity.
  - inversion Hp as [|? ? Hpe Hpr]; subst. apply zsorted_tail in Hs. destruct Hs as [Hs1 Hs2].
    assert (E : (prev <=? a) && (a <? e) = false) by lia. rewrite E.
    assert (IH' : spec_always ns L (a :: ss) r e = spec_always ns L ss r e).
    { apply IH; [lia|assumption|]. eapply Forall_impl; [|exact Hs2]. intros x Hx. cbn in Hx. lia. }
    rewrite IH'. reflexivity.
Qed.

Lemma always_next_stop ns L : forall stops prev a ss, prev <= a -> Forall (fun x => a <= x) ss ->
  match next_stop a stops with
  | Some (e, r) => spec_always ns L (a :: ss) stops prev = (a, e) :: spec_always ns L (a :: ss) r e
  | None => spec_always ns L (a :: ss) stops prev = if ns then [] else [(a, L)]
  end.
Proof.
  induction stops as [|d r IH]; intros prev a ss Hp Hss; cbn [next_stop spec_always].
  - cbn [find]. assert (E : prev <=? a = true) by lia. rewrite E. reflexivity.
  - destruct (d >? a) eqn:D.
    + cbn [find]. assert (E : (prev <=? a) && (a <? d) = true) by lia. rewrite E. reflexivity.
    + assert (E : find (fun x => (prev <=? x) && (x <? d)) (a :: ss) = None).
      { apply find_none. constructor; [lia|]. eapply Forall_impl; [|exact Hss]. intros x Hx. cbn in Hx. lia. }
      rewrite E. apply IH; [lia|assumption].
Qed.

Lemma always_loop_spec_ns : forall fuel ns minlen L frame fs last starts stops i2 prev,
  zsorted starts -> zsorted stops -> Forall (start_in L) starts -> Forall (stop_in L) stops ->
  Forall (fun a => a < last) starts -> last <= L ->
  prev = match i2 with Some p => p | None => 0 end ->
  Forall (fun e => prev <= e) stops ->
  (length starts + length stops < fuel)%nat ->
  frame_loop fuel NSAlways ns minlen L frame fs last starts stops i2 = ROk (orfs_of minlen frame L (spec_always ns L starts stops prev)).
Proof.
  induction fuel as [|fuel IH]; intros ns minlen L frame fs last starts stops i2 prev Hss Hse Hbs Hbe Hlast HL Hprev Hpe Hf; [lia|].
  cbn [frame_loop loop_cond]. destruct starts as [|a ss].
  { cbn. unfold orfs_of. rewrite spec_always_nil_starts. reflexivity. }
  cbn [is_nil negb choose_i1 pop_start fst snd].
  replace (match i2 with Some _ => pop_start (a :: ss) | None => pop_start (a :: ss) end) with (a, ss)
    by (destruct i2; reflexivity).
  cbn [fst snd].
  inversion Hlast as [|? ? Hal Hlast']; subst.
  assert (Hnb : a >=? last = false) by lia. rewrite Hnb.
  unfold loop_body.
  apply zsorted_tail in Hss. destruct Hss as [Hss1 Hss2].
  inversion Hbs as [|? ? Ha Hbss]; subst. unfold start_in in Ha.
  destruct (match i2 with Some p => a <? p | None => false end) eqn:C.
  - destruct i2 as [p|]; [|discriminate].
    rewrite (IH ns minlen L frame fs last ss stops (Some p) p); auto; [|cbn [length] in Hf; lia].
    rewrite always_drop_head; auto. lia.
  - assert (Hpa : match i2 with Some p => p | None => 0 end <= a) by (destruct i2; lia).
    assert (Hge : Forall (fun x => a <= x) ss) by (eapply Forall_impl; [|exact Hss2]; intros x Hx; cbn in Hx; lia).
    pose proof (always_next_stop ns L stops _ a ss Hpa Hge) as SN.
    destruct (next_stop a stops) as [[e r]|] eqn:N.
    + pose proof (next_stop_some _ _ _ _ N) as (N1 & N2 & N3 & N4).
      pose proof (next_stop_sorted _ _ _ _ Hse N) as (R1 & R2).
      rewrite inds2orf_mk by exact N1.
      rewrite SN.
      assert (Hle : Forall (fun x => e <= x) r) by (eapply Forall_impl; [|exact R2]; intros x Hx; cbn in Hx; lia).
      rewrite (always_drop_head ns L a ss r e N1 R1 Hle).
      assert (Hbr : Forall (stop_in L) r) by (eapply Forall_incl; eauto).
      assert (Hrest : (if e =? L then ROk [] else frame_loop fuel NSAlways ns minlen L frame fs last ss r (Some e))
                      = ROk (orfs_of minlen frame L (spec_always ns L ss r e))).
      { destruct (e =? L) eqn:EL.
        - destruct r as [|x r'].
          + cbn [spec_always]. destruct ns; [reflexivity|].
            rewrite find_none; [reflexivity|].
            eapply Forall_impl; [|exact Hlast']. intros x Hx. cbn in Hx. lia.
          + inversion R2; subst. inversion Hbr; subst. unfold stop_in in *. lia.
        - apply IH; auto. cbn [length] in Hf. lia. }
      rewrite Hrest. unfold orfs_of, long_enough. cbn [map filter cons_res]. reflexivity.
    + rewrite SN. destruct ns; [reflexivity|].
      rewrite inds2orf_mk by lia. rewrite Z.eqb_refl. unfold orfs_of, long_enough. cbn [map filter cons_res]. reflexivity.
Qed.

(* ---- one frame, every mode -------------------------------------------------------------------------------------------- *)
Definition frame_fs (s : str) (f : Z) : Z := Z.of_nat (frame_start (strand_data s f) f).
Definition frame_last (s : str) (f : Z) : Z := Z.of_nat (last_res (strand_data s f)).
Definition frame_spec (ns : nstart) (need_stop : bool) (s : str) (f : Z) : list (Z * Z) :=
  spec_mode ns need_stop (frame_fs s f) (frame_last s f) (Z.of_nat (length s)) (frame_starts s f) (frame_stops s f).

Lemma frame_last_le s f : frame_last s f <= Z.of_nat (length s).
Proof.
  unfold frame_last. pose proof (last_res_le (strand_data s f)) as H.
  assert (E : length (strand_data s f) = length s) by (unfold strand_data; destruct (f >=? 0); [reflexivity|apply rev_length]).
  lia.
Qed.

Theorem frame_modes_spec ns need_stop minlen s f :
  frame_orfs ns need_stop minlen s f = ROk (orfs_of minlen f (Z.of_nat (length s)) (frame_spec ns need_stop s f)).
Proof.
  unfold frame_orfs, frame_spec, spec_mode. fold (frame_fs s f). fold (frame_last s f).
  pose proof (frame_last_le s f) as HL.
  destruct ns.
  - apply always_loop_spec_ns; auto.
    + apply frame_starts_sorted.
    + apply frame_stops_sorted.
    + apply frame_starts_bound.
    + apply frame_stops_bound.
    + apply frame_starts_before_last.
    + eapply Forall_impl; [|apply frame_stops_bound]. intros e He. unfold stop_in in He. lia.
    + lia.
  - pose proof (frame_starts_bound s f) as Hb. destruct (frame_starts s f) as [|a ss] eqn:Est.
    + replace (length (@nil Z) + length (frame_stops s f) + 1)%nat with (S (length (frame_stops s f))) by (cbn; lia).
      cbn [frame_loop loop_cond is_nil negb is_some orb]. reflexivity.
    + replace (length (a :: ss) + length (frame_stops s f) + 1)%nat with (S (length (a :: ss) + length (frame_stops s f))) by lia.
      inversion Hb as [|? ? Ha Hbss]; subst. unfold start_in in Ha.
      apply (chain_first_spec _ NSOnce need_stop minlen _ f _ _ (a :: ss) _ a ss); auto.
      * left. reflexivity.
      * apply frame_stops_sorted.
      * apply frame_stops_bound.
      * lia.
      * cbn [length]. lia.
  - replace (length (frame_starts s f) + length (frame_stops s f) + 1)%nat
      with (S (length (frame_starts s f) + length (frame_stops s f))) by lia.
    apply (chain_first_spec _ NSNever need_stop minlen _ f _ _ (frame_starts s f) _ (frame_fs s f) (frame_starts s f)); auto.
    + right. reflexivity.
    + apply frame_stops_sorted.
    + apply frame_stops_bound.
    + unfold frame_fs. lia.
    + lia.
Qed.

(* ---- whole call, every mode -------------------------------------------------------------------------------------------- *)
Definition modes_find_orfs (ns : nstart) (need_stop : bool) (minlen : Z) (s : str) (frames : list Z) : list orf :=
  concat (map (fun f => orfs_of minlen f (Z.of_nat (length s)) (frame_spec ns need_stop s f)) frames).

Lemma orfs_frames_modes ns need_stop minlen s : forall frames,
  orfs_frames ns need_stop minlen s frames = ROk (modes_find_orfs ns need_stop minlen s frames).
Proof.
  induction frames as [|f fr IH]; cbn [orfs_frames]; [reflexivity|].
  rewrite frame_modes_spec, IH. reflexivity.
Qed.

Theorem orf_modes_spec rf ns need_stop minlen s :
  find_orfs rf ns need_stop minlen s = ROk (modes_find_orfs ns need_stop minlen s (frames_of rf)).
Proof. apply orfs_frames_modes. Qed.

(* ---- what the specifications mean ------------------------------------------------------------------------------------- *)
(* e closes an ORF beginning at a: it is the end of the first stop after a, or (need_stop=False) the end of the sequence
   when no stop ends after a *)
Definition closes (need_stop : bool) (L : Z) (stops : list Z) (a e : Z) : Prop :=
  (In e stops /\ a < e /\ forall e', In e' stops -> e' < e -> e' <= a) \/
  (need_stop = false /\ e = L /\ forall e', In e' stops -> e' <= a).

Definition always_member (need_stop : bool) (L : Z) (starts stops : list Z) (prev a e : Z) : Prop :=
  In a starts /\ prev <= a /\
  (forall a', In a' starts -> a' < a -> a' < prev \/ exists e', In e' stops /\ a' < e' /\ e' <= a) /\
  closes need_stop L stops a e.

Definition chain_member (need_stop : bool) (last L : Z) (stops : list Z) (i0 a e : Z) : Prop :=
  a < last /\ (a = i0 \/ (In a stops /\ i0 < a)) /\ closes need_stop L stops a e.

Lemma find_unique (f : Z -> bool) : forall l a, zsorted l -> In a l -> f a = true ->
  (forall a', In a' l -> a' < a -> f a' = false) -> find f l = Some a.
Proof.
  induction l as [|z l IH]; intros a Hs Hin Fa Hlt; [contradiction|]. cbn [find].
  apply zsorted_tail in Hs. destruct Hs as [Hs1 Hs2].
  destruct Hin as [Hin|Hin].
  - subst z. rewrite Fa. reflexivity.
  - rewrite Forall_forall in Hs2. pose proof (Hs2 _ Hin) as Hza.
    rewrite (Hlt z (or_introl eq_refl) Hza). apply IH; auto. intros a' Ha' Hl. apply Hlt; [right; exact Ha'|exact Hl].
Qed.

Lemma always_meaning_gen ns L starts : zsorted starts -> forall stops prev a e,
  zsorted stops -> Forall (fun d => prev <= d) stops ->
  (In (a, e) (spec_always ns L starts stops prev) <-> always_member ns L starts stops prev a e).
Proof.
  intros Hss. induction stops as [|d r IH]; intros prev a e Hs Hp.
  - cbn [spec_always]. destruct ns.
    + split; [contradiction|]. intros (_ & _ & _ & [(H & _)|(H & _)]); [contradiction|discriminate].
    + destruct (find (fun x => prev <=? x) starts) as [x|] eqn:F.
      * split.
        { intros [H|[]]. inversion H; subst x e. pose proof (find_some _ _ F) as [F1 F2].
          split; [exact F1|]. split; [lia|]. split.
          - intros a' Ha' Hlt. left. pose proof (find_first_sorted _ _ _ Hss F a' Ha' Hlt) as K. cbn in K. lia.
          - right. split; [reflexivity|]. split; [reflexivity|]. intros e' []. }
        { intros (Ha & Hpa & Hcut & Hcl). destruct Hcl as [(He & _)|(_ & He & _)]; [contradiction|]. subst e.
          assert (Fa : find (fun x => prev <=? x) starts = Some a).
          { apply find_unique; auto; [lia|]. intros a' Ha' Hlt.
            destruct (Hcut a' Ha' Hlt) as [K|(e' & [] & _)]. lia. }
          rewrite F in Fa. inversion Fa; subst. left; reflexivity. }
      * split; [contradiction|]. intros (Ha & Hpa & _ & _).
        destruct (find_exists (fun x => prev <=? x) starts a Ha) as [y Fy]; [lia|]. rewrite F in Fy. discriminate.
  - apply zsorted_tail in Hs. destruct Hs as [Hs1 Hs2]. inversion Hp as [|? ? Hpd Hpr]; subst.
    assert (Hdr : Forall (fun x => d <= x) r) by (eapply Forall_impl; [|exact Hs2]; intros x Hx; cbn in Hx; lia).
    specialize (IH d a e Hs1 Hdr). rewrite Forall_forall in Hs2.
    assert (A : In (a, e) (spec_always ns L starts r d) -> always_member ns L starts (d :: r) prev a e).
    { intros H. apply IH in H. destruct H as (I1 & I2 & I3 & I4).
      split; [exact I1|]. split; [lia|]. split.
      - intros a' Ha' Hlt. destruct (I3 a' Ha' Hlt) as [K|(e' & K1 & K2 & K3)].
        + destruct (Z.ltb_spec a' prev); [left; assumption|]. right. exists d. split; [left; reflexivity|lia].
        + right. exists e'. split; [right; exact K1|lia].
      - destruct I4 as [(J1 & J2 & J3)|(J1 & J2 & J3)].
        + left. split; [right; exact J1|]. split; [exact J2|]. intros e' [E|E] Hl; [lia|auto].
        + right. split; [exact J1|]. split; [exact J2|]. intros e' [E|E]; [lia|auto]. }
    assert (B : always_member ns L starts (d :: r) prev a e -> d <= a -> In (a, e) (spec_always ns L starts r d)).
    { intros (R1 & R2 & R3 & R4) Hda. apply IH. split; [exact R1|]. split; [exact Hda|]. split.
      - intros a' Ha' Hlt. destruct (R3 a' Ha' Hlt) as [K|(e' & [E|E] & K2 & K3)].
        + left. lia.
        + left. lia.
        + right. exists e'. auto.
      - destruct R4 as [([E|E] & J2 & J3)|(J1 & J2 & J3)].
        + lia.
        + left. split; [exact E|]. split; [exact J2|]. intros e' He' Hl. apply J3; [right; exact He'|exact Hl].
        + right. split; [exact J1|]. split; [exact J2|]. intros e' He'. apply J3. right; exact He'. }
    assert (D : always_member ns L starts (d :: r) prev a e -> a < d ->
                find (fun x => (prev <=? x) && (x <? d)) starts = Some a /\ e = d).
    { intros (R1 & R2 & R3 & R4) Had. split.
      - apply find_unique; auto; [lia|]. intros a' Ha' Hlt.
        destruct (R3 a' Ha' Hlt) as [K|(e' & [E|E] & K2 & K3)]; [lia|lia|]. specialize (Hs2 _ E). lia.
      - destruct R4 as [([E|E] & J2 & J3)|(J1 & J2 & J3)].
        + auto.
        + specialize (J3 d (or_introl eq_refl)). specialize (Hs2 _ E). lia.
        + specialize (J3 d (or_introl eq_refl)). lia. }
    cbn [spec_always]. destruct (find (fun x => (prev <=? x) && (x <? d)) starts) as [x|] eqn:F.
    + split.
      * intros [H|H]; [|apply A; exact H].
        inversion H; subst x e. pose proof (find_some _ _ F) as [F1 F2].
        split; [exact F1|]. split; [lia|]. split.
        { intros a' Ha' Hlt. left. pose proof (find_first_sorted _ _ _ Hss F a' Ha' Hlt) as K. cbn in K. lia. }
        left. split; [left; reflexivity|]. split; [lia|]. intros e' [E|E] Hl; [lia|]. specialize (Hs2 _ E). lia.
      * intros R. destruct (Z.ltb_spec a d) as [Had|Had].
        { destruct (D R Had) as [Fa Ee]. inversion Fa; subst. left; reflexivity. }
        { right. apply B; auto. }
    + split; [apply A|].
      intros R. destruct (Z.ltb_spec a d) as [Had|Had].
      * destruct (D R Had) as [Fa _]. discriminate.
      * apply B; auto.
Qed.

Lemma chain_meaning ns last L : forall stops i0 a e, zsorted stops ->
  (In (a, e) (spec_chain ns last L i0 stops) <-> chain_member ns last L stops i0 a e).
Proof.
  induction stops as [|d r IH]; intros i0 a e Hs.
  - cbn [spec_chain]. destruct ns; cbn [orb].
    + split; [contradiction|]. intros (_ & _ & [(H & _)|(H & _)]); [contradiction|discriminate].
    + destruct (last <=? i0) eqn:E.
      * split; [contradiction|]. intros (H1 & [H2|(H2 & _)] & _); [lia|contradiction].
      * split.
        { intros [H|[]]. inversion H; subst a e. split; [lia|]. split; [left; reflexivity|].
          right. split; [reflexivity|]. split; [reflexivity|]. intros e' []. }
        { intros (H1 & [H2|(H2 & _)] & [(H3 & _)|(_ & H3 & _)]); try contradiction. subst. left; reflexivity. }
  - apply zsorted_tail in Hs. destruct Hs as [Hs1 Hs2]. rewrite Forall_forall in Hs2.
    cbn [spec_chain]. destruct (last <=? i0) eqn:E1.
    { split; [contradiction|]. intros (H1 & [H2|(_ & H2)] & _); lia. }
    destruct (d <=? i0) eqn:E2.
    + rewrite (IH i0 a e Hs1). unfold chain_member. split.
      * intros (H1 & H2 & H3).
        assert (Hia : i0 <= a) by (destruct H2 as [H2|(_ & H2)]; lia).
        split; [exact H1|]. split.
        { destruct H2 as [H2|(H2 & H2')]; [left; exact H2|right; split; [right; exact H2|exact H2']]. }
        destruct H3 as [(J1 & J2 & J3)|(J1 & J2 & J3)].
        { left. split; [right; exact J1|]. split; [exact J2|]. intros e' [X|X] Hl; [lia|auto]. }
        { right. split; [exact J1|]. split; [exact J2|]. intros e' [X|X]; [lia|auto]. }
      * intros (H1 & H2 & H3).
        assert (Hia : i0 <= a) by (destruct H2 as [H2|(_ & H2)]; lia).
        split; [exact H1|]. split.
        { destruct H2 as [H2|([X|X] & H2')]; [left; exact H2|lia|right; split; assumption]. }
        destruct H3 as [([X|X] & J2 & J3)|(J1 & J2 & J3)].
        { lia. }
        { left. split; [exact X|]. split; [exact J2|]. intros e' He' Hl. apply J3; [right; exact He'|exact Hl]. }
        { right. split; [exact J1|]. split; [exact J2|]. intros e' He'. apply J3; right; exact He'. }
    + split.
      * intros [H|H].
        { inversion H; subst a e. split; [lia|]. split; [left; reflexivity|].
          left. split; [left; reflexivity|]. split; [lia|]. intros e' [X|X] Hl; [lia|]. specialize (Hs2 _ X). lia. }
        { apply (IH d a e Hs1) in H. destruct H as (H1 & H2 & H3).
          assert (Hda : d <= a) by (destruct H2 as [H2|(_ & H2)]; lia).
          split; [exact H1|]. split.
          { right. destruct H2 as [H2|(H2 & H2')]; [split; [left; auto|lia]|split; [right; exact H2|lia]]. }
          destruct H3 as [(J1 & J2 & J3)|(J1 & J2 & J3)].
          { left. split; [right; exact J1|]. split; [exact J2|]. intros e' [X|X] Hl; [lia|auto]. }
          { right. split; [exact J1|]. split; [exact J2|]. intros e' [X|X]; [lia|auto]. } }
      * intros (H1 & H2 & H3). destruct H2 as [H2|(H2 & H2')].
        { subst a. left. destruct H3 as [([X|X] & J2 & J3)|(J1 & J2 & J3)].
          - subst; reflexivity.
          - exfalso. specialize (J3 d (or_introl eq_refl)). specialize (Hs2 _ X). lia.
          - exfalso. specialize (J3 d (or_introl eq_refl)). lia. }
        { right. apply (IH d a e Hs1).
          assert (Hda : d <= a) by (destruct H2 as [X|X]; [lia|specialize (Hs2 _ X); lia]).
          split; [exact H1|]. split.
          { destruct H2 as [X|X]; [left; auto|right; split; [exact X|specialize (Hs2 _ X); lia]]. }
          destruct H3 as [([X|X] & J2 & J3)|(J1 & J2 & J3)].
          - lia.
          - left. split; [exact X|]. split; [exact J2|]. intros e' He' Hl. apply J3; [right; exact He'|exact Hl].
          - right. split; [exact J1|]. split; [exact J2|]. intros e' He'. apply J3; right; exact He'. }
Qed.

(* ---- order and exactly-once ------------------------------------------------------------------------------------------ *)
Definition zbefore (p q : Z * Z) : Prop := snd p <= fst q.

Lemma chain_sorted ns last L : last <= L -> forall stops i0, zsorted stops ->
  StronglySorted zbefore (spec_chain ns last L i0 stops) /\
  Forall (fun p => i0 <= fst p /\ fst p < snd p) (spec_chain ns last L i0 stops).
Proof.
  intros HL. induction stops as [|d r IH]; intros i0 Hs; cbn [spec_chain].
  - destruct (ns || (last <=? i0)) eqn:E; [split; constructor|].
    apply orb_false_elim in E. destruct E as [_ E]. split; [repeat constructor|]. constructor; [cbn; lia|constructor].
  - apply zsorted_tail in Hs. destruct Hs as [Hs1 Hs2].
    destruct (last <=? i0) eqn:E1; [split; constructor|].
    destruct (d <=? i0) eqn:E2; [apply IH; exact Hs1|].
    destruct (IH d Hs1) as [S1 S2]. split.
    + constructor; [exact S1|]. eapply Forall_impl; [|exact S2]. intros p [Hp _]. unfold zbefore. cbn. lia.
    + constructor; [cbn; lia|]. eapply Forall_impl; [|exact S2]. intros p [Hp Hq]. lia.
Qed.

Lemma always_sorted ns L starts : Forall (fun a => a < L) starts -> forall stops prev, zsorted stops ->
  Forall (fun d => prev <= d) stops ->
  StronglySorted zbefore (spec_always ns L starts stops prev) /\
  Forall (fun p => prev <= fst p /\ fst p < snd p) (spec_always ns L starts stops prev).
Proof.
  intros HsL. induction stops as [|d r IH]; intros prev Hs Hp; cbn [spec_always].
  - destruct ns; [split; constructor|].
    destruct (find (fun a => prev <=? a) starts) as [x|] eqn:F; [|split; constructor].
    pose proof (find_some _ _ F) as [F1 F2]. rewrite Forall_forall in HsL. specialize (HsL _ F1).
    split; [repeat constructor|]. constructor; [cbn; lia|constructor].
  - apply zsorted_tail in Hs. destruct Hs as [Hs1 Hs2]. inversion Hp as [|? ? Hpd Hpr]; subst.
    assert (Hdr : Forall (fun x => d <= x) r) by (eapply Forall_impl; [|exact Hs2]; intros x Hx; cbn in Hx; lia).
    destruct (IH d Hs1 Hdr) as [S1 S2].
    assert (S2' : Forall (fun p => prev <= fst p /\ fst p < snd p) (spec_always ns L starts r d)).
    { eapply Forall_impl; [|exact S2]. intros p [Hp1 Hp2]. lia. }
    destruct (find (fun a => (prev <=? a) && (a <? d)) starts) as [x|] eqn:F; [|split; assumption].
    pose proof (find_some _ _ F) as [F1 F2]. split.
    + constructor; [exact S1|]. eapply Forall_impl; [|exact S2]. intros p [Hp1 _]. unfold zbefore. cbn. lia.
    + constructor; [cbn; lia|exact S2'].
Qed.

Lemma zbefore_nodup : forall l, StronglySorted zbefore l -> Forall (fun p => fst p < snd p) l -> NoDup l.
Proof.
  induction l as [|p l IH]; intros Hs Hl; [constructor|].
  inversion Hs as [|? ? Hs1 Hs2]; subst. inversion Hl as [|? ? Hp Hl']; subst.
  constructor; [|apply IH; assumption].
  intros Hin. rewrite Forall_forall in Hs2. specialize (Hs2 _ Hin). unfold zbefore in Hs2. lia.
Qed.

Lemma frame_starts_lt_len s f : Forall (fun a => a < Z.of_nat (length s)) (frame_starts s f).
Proof. eapply Forall_impl; [|apply frame_starts_bound]. intros a Ha. unfold start_in in Ha. lia. Qed.

Theorem frame_spec_ordered ns need_stop s f :
  StronglySorted zbefore (frame_spec ns need_stop s f) /\
  Forall (fun p => fst p < snd p) (frame_spec ns need_stop s f) /\
  NoDup (frame_spec ns need_stop s f).
Proof.
  assert (H : StronglySorted zbefore (frame_spec ns need_stop s f) /\
              Forall (fun p => fst p < snd p) (frame_spec ns need_stop s f)).
  { unfold frame_spec, spec_mode. pose proof (frame_last_le s f) as HL. destruct ns.
    - destruct (always_sorted need_stop _ _ (frame_starts_lt_len s f) (frame_stops s f) 0 (frame_stops_sorted s f)) as [S1 S2].
      + eapply Forall_impl; [|apply frame_stops_bound]. intros e He. unfold stop_in in He. lia.
      + split; [exact S1|]. eapply Forall_impl; [|exact S2]. intros p [_ Hp]. exact Hp.
    - destruct (frame_starts s f) as [|a ss]; [split; constructor|].
      destruct (chain_sorted need_stop _ _ HL (frame_stops s f) a (frame_stops_sorted s f)) as [S1 S2].
      split; [exact S1|]. eapply Forall_impl; [|exact S2]. intros p [_ Hp]. exact Hp.
    - destruct (chain_sorted need_stop _ _ HL (frame_stops s f) (frame_fs s f) (frame_stops_sorted s f)) as [S1 S2].
      split; [exact S1|]. eapply Forall_impl; [|exact S2]. intros p [_ Hp]. exact Hp. }
  destruct H as [H1 H2]. split; [exact H1|]. split; [exact H2|]. apply zbefore_nodup; assumption.
Qed.

(* membership in the specification of one frame, mode by mode *)
Theorem frame_spec_meaning ns need_stop s f a e :
  In (a, e) (frame_spec ns need_stop s f) <->
  match ns with
  | NSAlways => always_member need_stop (Z.of_nat (length s)) (frame_starts s f) (frame_stops s f) 0 a e
  | NSOnce => exists a0 rest, frame_starts s f = a0 :: rest /\
                chain_member need_stop (frame_last s f) (Z.of_nat (length s)) (frame_stops s f) a0 a e
  | NSNever => chain_member need_stop (frame_last s f) (Z.of_nat (length s)) (frame_stops s f) (frame_fs s f) a e
  end.
Proof.
  unfold frame_spec, spec_mode. destruct ns.
  - apply always_meaning_gen; [apply frame_starts_sorted|apply frame_stops_sorted|].
    eapply Forall_impl; [|apply frame_stops_bound]. intros d Hd. unfold stop_in in Hd. lia.
  - destruct (frame_starts s f) as [|a0 rest].
    + split; [contradiction|]. intros (a1 & r1 & E & _). discriminate.
    + rewrite chain_meaning by apply frame_stops_sorted. split.
      * intros H. exists a0, rest. split; [reflexivity|exact H].
      * intros (a1 & r1 & E & H). inversion E; subst. exact H.
  - apply chain_meaning. apply frame_stops_sorted.
Qed.

(* with minlen = 0 nothing is filtered: the reported list of a frame is the specification itself *)
Lemma orfs_of_min0 f L ps : Forall (fun p => fst p < snd p) ps -> orfs_of 0 f L ps = map (mk_orf f L) ps.
Proof.
  intros H. unfold orfs_of. apply filter_all. intros o Ho. apply in_map_iff in Ho. destruct Ho as [p [E Hp]]. subst o.
  rewrite Forall_forall in H. specialize (H _ Hp). unfold long_enough, mk_orf. destruct (f >=? 0); cbn; lia.
Qed.

Theorem frame_modes_min0 ns need_stop s f :
  frame_orfs ns need_stop 0 s f = ROk (map (mk_orf f (Z.of_nat (length s))) (frame_spec ns need_stop s f)).
Proof.
  rewrite frame_modes_spec. rewrite orfs_of_min0; [reflexivity|]. apply frame_spec_ordered.
Qed.

(* ---- ORF features, baskets, len_* filters -------------------------------------------------------------------------------- *)
Definition orfs_list (rf : rfspec) (ns : nstart) (need_stop : bool) (minlen : Z) (s : str) : list orf :=
  match find_orfs rf ns need_stop minlen s with ROk l => l | _ => [] end.

Lemma find_orfs_total rf ns need_stop minlen s :
  find_orfs rf ns need_stop minlen s = ROk (orfs_list rf ns need_stop minlen s).
Proof. unfold orfs_list. destruct (orf_invariants rf ns need_stop minlen s) as [l [E _]]. rewrite E. reflexivity. Qed.

Definition seq_feats (ftype : str) (rf : rfspec) (ns : nstart) (need_stop : bool) (minlen : Z) (sq : str * str) : list feat :=
  map (mkfeat ftype (fst sq)) (orfs_list rf ns need_stop minlen (snd sq)).

Lemma seq_find_orfs_feats ftype rf ns need_stop minlen sq :
  seq_find_orfs ftype rf ns need_stop minlen sq = FOk (seq_feats ftype rf ns need_stop minlen sq).
Proof. unfold seq_find_orfs, seq_feats. rewrite find_orfs_total. reflexivity. Qed.

Lemma basket_orfs_map ftype rf ns need_stop minlen : forall seqs,
  basket_orfs ftype rf ns need_stop minlen seqs = FOk (concat (map (seq_feats ftype rf ns need_stop minlen) seqs)).
Proof.
  induction seqs as [|sq r IH]; cbn [basket_orfs map concat]; [reflexivity|].
  rewrite seq_find_orfs_feats, IH. reflexivity.
Qed.

Theorem basket_map ftype rf ns need_stop minlen seqs :
  basket_find_orfs ftype rf ns need_stop minlen seqs =
  match seqs with
  | [] => FErr (bs "TypeError"%bs)
  | _ => FOk (concat (map (seq_feats ftype rf ns need_stop minlen) seqs))
  end.
Proof. unfold basket_find_orfs. destruct seqs as [|sq r]; [reflexivity|]. cbn [is_nil]. apply basket_orfs_map. Qed.

Theorem feature_observables ftype rf ns need_stop minlen seqs ft :
  In ft (concat (map (seq_feats ftype rf ns need_stop minlen) seqs)) ->
  ft_type ft = ftype /\
  exists sq, In sq seqs /\ ft_seqid ft = fst sq /\ In (ft_orf ft) (orfs_list rf ns need_stop minlen (snd sq)) /\
             orf_inv (Z.of_nat (length (snd sq))) minlen (frames_of rf) (ft_orf ft).
Proof.
  intros H. apply in_concat in H. destruct H as [l [Hl Hft]]. apply in_map_iff in Hl. destruct Hl as [sq [E Hsq]]. subst l.
  unfold seq_feats in Hft. apply in_map_iff in Hft. destruct Hft as [o [E Ho]]. subst ft. cbn.
  split; [reflexivity|]. exists sq. split; [exact Hsq|]. split; [reflexivity|]. split; [exact Ho|].
  destruct (orf_invariants rf ns need_stop minlen (snd sq)) as [l [El Fl]].
  unfold orfs_list in Ho. rewrite El in Ho. rewrite Forall_forall in Fl. apply Fl. exact Ho.
Qed.

Lemma orfs_list_minlen rf ns need_stop m s :
  orfs_list rf ns need_stop m s = filter (long_enough m) (orfs_list rf ns need_stop 0 s).
Proof.
  destruct (minlen_filter rf ns need_stop m s) as [l [E0 Em]]. unfold orfs_list. rewrite E0, Em. reflexivity.
Qed.

Lemma filter_concat {A} (p : A -> bool) : forall ll, filter p (concat ll) = concat (map (filter p) ll).
Proof. induction ll as [|l ll IH]; cbn; [reflexivity|]. rewrite filter_app, IH. reflexivity. Qed.

Definition is_ge (op : lenop) : Prop := op = OpGe \/ op = OpMin.

Lemma seq_feats_len_ge ftype rf ns need_stop m op sq : is_ge op ->
  seq_feats ftype rf ns need_stop m sq = filter_len op m (seq_feats ftype rf ns need_stop 0 sq).
Proof.
  intros Hop. unfold seq_feats, filter_len. rewrite orfs_list_minlen.
  symmetry. apply filter_map_comm. intros o _. unfold feat_len, long_enough. cbn.
  destruct Hop; subst op; reflexivity.
Qed.

(* find_orfs(minlen=m) is find_orfs() followed by filter(len_ge=m) (or len_min=m), for sequences and baskets *)
Theorem minlen_is_len_ge ftype rf ns need_stop m op seqs : is_ge op ->
  basket_find_orfs ftype rf ns need_stop m seqs =
  fmap_res (filter_len op m) (basket_find_orfs ftype rf ns need_stop 0 seqs).
Proof.
  intros Hop. rewrite !basket_map. destruct seqs as [|sq r]; [reflexivity|].
  cbn [fmap_res]. f_equal. unfold filter_len at 1. rewrite filter_concat, map_map.
  f_equal. apply map_ext. intros x. apply seq_feats_len_ge. exact Hop.
Qed.

(* a later len_ge filter composes with minlen: only the larger bound counts *)
Theorem len_ge_compose ftype rf ns need_stop m v op seqs : is_ge op ->
  fmap_res (filter_len op v) (basket_find_orfs ftype rf ns need_stop m seqs) =
  basket_find_orfs ftype rf ns need_stop (Z.max m v) seqs.
Proof.
  intros Hop. rewrite (minlen_is_len_ge ftype rf ns need_stop m op seqs Hop).
  rewrite (minlen_is_len_ge ftype rf ns need_stop (Z.max m v) op seqs Hop).
  destruct (basket_find_orfs ftype rf ns need_stop 0 seqs) as [l|e]; [|reflexivity].
  cbn [fmap_res]. f_equal. unfold filter_len.
  induction l as [|x l IH]; [reflexivity|]. cbn [filter].
  assert (E : lenop_test op (feat_len x) (Z.max m v) = lenop_test op (feat_len x) m && lenop_test op (feat_len x) v)
    by (destruct Hop; subst op; cbn; lia).
  rewrite E. destruct (lenop_test op (feat_len x) m); cbn [andb filter]; [|exact IH].
  destruct (lenop_test op (feat_len x) v); [rewrite IH; reflexivity|exact IH].
Qed.

(* every len_* filter keeps exactly the features whose length passes the test, in their order *)
Theorem filter_len_spec op v l ft :
  In ft (filter_len op v l) <-> In ft l /\ lenop_test op (feat_len ft) v = true.
Proof. unfold filter_len. apply filter_In. Qed.

(* the always modes on the codon lists of a frame, without the bookkeeping bound prev = 0 *)
Theorem always_meaning_frame need_stop s f a e :
  In (a, e) (spec_always need_stop (Z.of_nat (length s)) (frame_starts s f) (frame_stops s f) 0) <->
  In a (frame_starts s f) /\
  (forall a', In a' (frame_starts s f) -> a' < a -> exists e', In e' (frame_stops s f) /\ a' < e' /\ e' <= a) /\
  closes need_stop (Z.of_nat (length s)) (frame_stops s f) a e.
Proof.
  pose proof (frame_starts_bound s f) as Hb. rewrite Forall_forall in Hb.
  rewrite always_meaning_gen; [|apply frame_starts_sorted|apply frame_stops_sorted|].
  - unfold always_member. split.
    + intros (H1 & H2 & H3 & H4). split; [exact H1|]. split; [|exact H4].
      intros a' Ha' Hlt. destruct (H3 a' Ha' Hlt) as [K|K]; [|exact K]. specialize (Hb _ Ha'). unfold start_in in Hb. lia.
    + intros (H1 & H3 & H4). split; [exact H1|]. split; [specialize (Hb _ H1); unfold start_in in Hb; lia|].
      split; [|exact H4]. intros a' Ha' Hlt. right. apply H3; assumption.
  - eapply Forall_impl; [|apply frame_stops_bound]. intros d Hd. unfold stop_in in Hd. lia.
Qed.

(* the chain modes tile the frame: the first link begins at the origin, every further link where the previous one ends *)
Fixpoint tiles (i0 : Z) (l : list (Z * Z)) : Prop :=
  match l with [] => True | p :: r => fst p = i0 /\ tiles (snd p) r end.

Lemma chain_tiles ns last L : forall stops i0, tiles i0 (spec_chain ns last L i0 stops).
Proof.
  induction stops as [|d r IH]; intros i0; cbn [spec_chain].
  - destruct (ns || (last <=? i0)); cbn; auto.
  - destruct (last <=? i0); [exact I|]. destruct (d <=? i0); [apply IH|]. cbn [tiles fst snd]. split; [reflexivity|apply IH].
Qed.

Theorem frame_chain_tiles need_stop s f :
  match frame_starts s f with
  | [] => frame_spec NSOnce need_stop s f = []
  | a0 :: _ => tiles a0 (frame_spec NSOnce need_stop s f)
  end /\ tiles (frame_fs s f) (frame_spec NSNever need_stop s f).
Proof.
  unfold frame_spec, spec_mode. split; [|apply chain_tiles].
  destruct (frame_starts s f); [reflexivity|apply chain_tiles].
Qed.
