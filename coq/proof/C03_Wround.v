(* C03 proofs, part 9: what sugar writes into an archive, sugar reads back (any target name that is visible to glob and does
   not look like an archive or gzip file itself, with or without a dot); the tool option. *)
From Coq Require Import List ZArith NArith Bool Lia.
From Coq.Strings Require Import Byte.
Import ListNotations.
From SV Require Import Text G_c03 C03_Model C03_Lemmas C03_Write C03_Resolve.

(* the guard: the archive name is an ordinary local name, the member is not a hidden file and is itself an ordinary name
   (no archive / gzip extension of its own) *)
Definition roundtrip_guard (tmp name ext : str) : bool :=
  plain_name (name ++ dot :: ext) && glob_star (basename name)
  && simple_name [] [] ANone (tmp ++ [slash] ++ basename name)
  && match resolve_g true [] [] (FStr (tmp ++ glob_tail)) ANone with DGlob p => str_eqb p (tmp ++ glob_tail) | _ => false end.

Lemma archive_roundtrip_partial : forall tmp name ext,
  In ext KNOWN_ARCHIVE_EXTS -> roundtrip_guard tmp name ext = true -> readback_ok tmp name ext = true.
Proof.
  intros tmp name ext He G. unfold roundtrip_guard in G.
  apply andb_prop in G. destruct G as [G Hg]. apply andb_prop in G. destruct G as [G Hs]. apply andb_prop in G. destruct G as [Hp Hv].
  destruct (resolve_g true [] [] (FStr (tmp ++ glob_tail)) ANone) as [| | | |p| | |] eqn:Eg; try discriminate Hg.
  apply str_eqb_eq in Hg. subst p.
  unfold readback_ok.
  assert (Hd : resolve_g true [] [] (FStr (name ++ dot :: ext)) ANone = DArchive (name ++ dot :: ext) None).
  { rewrite resolve_g_true. apply (resolve_known_archive [] [] name ext ANone He Hp). }
  assert (Hu : fs_unpack (written_fs tmp name ext) (name ++ dot :: ext) None = Some tmp).
  { cbn [written_fs fs_unpack]. rewrite str_eqb_refl. reflexivity. }
  assert (Hgl : glob_files (written_fs tmp name ext) (tmp ++ glob_tail) = [tmp ++ [slash] ++ basename name]).
  { unfold glob_files. cbn [written_fs fs_glob fs_isdir]. rewrite str_eqb_refl, Hv. reflexivity. }
  rewrite (resolve_run_flat_archive 1 (written_fs tmp name ext) [] [] true (name ++ dot :: ext) ANone (name ++ dot :: ext) None tmp Hd Hu Eg).
  - rewrite Hgl. cbn [map]. apply str_eqb_refl.
  - rewrite Hgl. discriminate.
  - rewrite Hgl. cbn [forallb]. rewrite Hs. reflexivity.
Qed.

(* names without a dot are read back (F50, fixed) *)
Lemma archive_roundtrip_nodot : forall tmp name ext,
  In ext KNOWN_ARCHIVE_EXTS -> roundtrip_guard tmp name ext = true -> contains [dot] (basename name) = false ->
  readback_ok tmp name ext = true.
Proof. intros tmp name ext He G _. apply archive_roundtrip_partial; assumption. Qed.
(* without the guard the statement is still false: a hidden target name (glob skips it), a target named like a gzip file *)
Lemma archive_roundtrip_refuted :
  exists name ext, In ext KNOWN_ARCHIVE_EXTS /\ plain_name (name ++ dot :: ext) = true /\ readback_ok (bs "<T>"%bs) name ext = false.
Proof. exists (bs ".hidden.fa"%bs), (bs "zip"%bs). vm_compute. repeat split; try reflexivity. left. reflexivity. Qed.

Lemma witness_wround :
  roundtrip_guard (bs "<T>"%bs) (bs "dir.d/data.fasta"%bs) (bs "tar.gz"%bs) = true /\
  readback_ok (bs "<T>"%bs) (bs "dir.d/data.fasta"%bs) (bs "tar.gz"%bs) = true /\
  readback_ok (bs "<T>"%bs) (bs "x[1].fa"%bs) (bs "zip"%bs) = false /\
  roundtrip_guard (bs "<T>"%bs) (bs "dir.d/data"%bs) (bs "zip"%bs) = true /\
  readback_ok (bs "<T>"%bs) (bs "data"%bs) (bs "zip"%bs) = true /\
  readback_ok (bs "<T>"%bs) (bs ".hidden.fa"%bs) (bs "zip"%bs) = false /\
  readback_ok (bs "<T>"%bs) (bs "x.fa.gz"%bs) (bs "zip"%bs) = false.
Proof. vm_compute. repeat split; reflexivity. Qed.

(* the tool option: the plugin is used exactly for None and the empty text *)
Lemma tool_choice_spec : forall tool,
  (tool_choice tool = TPlugin <-> tool = None \/ tool = Some []) /\
  (tool_choice tool = TBiopython <-> tool = Some (bs "biopython"%bs)).
Proof.
  intros [t|].
  2:{ cbn. split; split; intros H; try discriminate H; try reflexivity. left. reflexivity. }
  unfold tool_choice, name_is. destruct (str_eqb t (bs "biopython"%bs)) eqn:E.
  - apply str_eqb_eq in E. subst t. split; split; intros H; try discriminate H; try reflexivity. destruct H as [H|H]; discriminate H.
  - assert (N : Some t <> Some (bs "biopython"%bs)). { intros H. inversion H. subst. rewrite str_eqb_refl in E. discriminate E. }
    destruct t as [|c r].
    + split; split; intros H; try discriminate H; try reflexivity; try (right; reflexivity); try (exfalso; exact (N H)).
    + split; split; intros H; try discriminate H; try (exfalso; exact (N H)). destruct H as [H|H]; discriminate H.
Qed.
