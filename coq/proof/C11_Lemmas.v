From Coq Require Import List ZArith NArith Bool Lia.
From Coq.Strings Require Import Byte.
Import ListNotations.
From SV Require Import Text G_tab C11_Model.
Local Open Scope Z_scope.

(* ---------------- finite facts over the regenerated tables ---------------- *)
Lemma tables_consistent : tables_ok = true.
Proof. vm_compute. reflexivity. Qed.

(* ---------------- orientation ---------------- *)
Lemma sgn_mul_neg a b : (sgn a * sgn b <? 0) = ((a >? 0) && (b <? 0) || (a <? 0) && (b >? 0)).
Proof.
  unfold sgn. destruct a, b; cbn; reflexivity.
Qed.
Lemma sgn_mul_pos a b : (sgn a * sgn b >? 0) = ((a >? 0) && (b >? 0) || (a <? 0) && (b <? 0)).
Proof.
  unfold sgn. destruct a, b; cbn; reflexivity.
Qed.

Ltac zb :=
  repeat match goal with
  | |- context [?a >? ?b] => destruct (Z.gtb_spec a b)
  | |- context [?a <? ?b] => destruct (Z.ltb_spec a b)
  | |- context [?a >=? ?b] => destruct (Z.geb_spec a b)
  | |- context [?a =? ?b] => destruct (Z.eqb_spec a b)
  end.

Lemma fin_ok (s e : Z) (st : str) : valid_strand st = true ->
  orient_fin s e st = Ok (Z.min s e - 1, Z.max s e, st).
Proof.
  intros V. unfold orient_fin. destruct (Z.gtb_spec s e) as [H|H].
  - destruct (Z.geb_spec (e - 1) s); [lia|]. rewrite V. f_equal. f_equal. f_equal; lia.
  - destruct (Z.geb_spec (s - 1) e); [lia|]. rewrite V. f_equal. f_equal. f_equal; lia.
Qed.
Lemma fin_bad (s e : Z) (st : str) : valid_strand st = false -> orient_fin s e st = Err eValue.
Proof.
  intros V. unfold orient_fin. destruct (s >? e); destruct (_ >=? _); try reflexivity; rewrite V; reflexivity.
Qed.

Lemma orientation_spec s e qs qe ss : orient s e qs qe ss = orient_spec s e qs qe ss.
Proof.
  unfold orient, orient_spec.
  destruct (aval_is_str ss (bs "N/A"%bs)); [apply fin_ok; reflexivity|].
  rewrite sgn_mul_neg, sgn_mul_pos.
  replace (e - s >? 0) with (s <? e) by (zb; lia).
  replace (e - s <? 0) with (s >? e) by (zb; lia).
  replace (qe - qs >? 0) with (qs <? qe) by (zb; lia).
  replace (qe - qs <? 0) with (qs >? qe) by (zb; lia).
  replace ((s <? e) && (qs >? qe) || (s >? e) && (qs <? qe)) with ((s >? e) && (qs <? qe) || (s <? e) && (qs >? qe))
    by (destruct (s <? e), (qs >? qe), (s >? e), (qs <? qe); reflexivity).
  destruct ((s >? e) && (qs <? qe) || (s <? e) && (qs >? qe)).
  { destruct (sstrand_in ss _ _); [apply fin_ok; reflexivity|reflexivity]. }
  destruct ((s <? e) && (qs <? qe) || (s >? e) && (qs >? qe)).
  { destruct (sstrand_in ss _ _); [apply fin_ok; reflexivity|reflexivity]. }
  destruct ss as [[t| | | |]|]; try reflexivity.
  - destruct (valid_strand (strand_word t)) eqn:V; [apply fin_ok; exact V|apply fin_bad; exact V].
  - apply fin_ok; reflexivity.
Qed.

Lemma orient_interval s e qs qe ss lo hi st :
  orient s e qs qe ss = Ok (lo, hi, st) -> lo = Z.min s e - 1 /\ hi = Z.max s e.
Proof.
  rewrite orientation_spec. unfold orient_spec.
  repeat match goal with
  | |- context [if ?b then _ else _] => destruct b
  | |- context [match ?x with _ => _ end] => destruct x
  end; intros H; inversion H; subst; auto.
Qed.

Lemma orient_strand s e qs qe ss lo hi st :
  s <> e -> qs <> qe -> aval_is_str ss (bs "N/A"%bs) = false ->
  orient s e qs qe ss = Ok (lo, hi, st) ->
  (st = bs "-"%bs <-> sgn (e - s) * sgn (qe - qs) < 0) /\ (st = bs "+"%bs <-> sgn (e - s) * sgn (qe - qs) > 0).
Proof.
  intros Hs Hq HN. rewrite orientation_spec. unfold orient_spec. rewrite HN.
  assert (P : sgn (e - s) * sgn (qe - qs) < 0 \/ sgn (e - s) * sgn (qe - qs) > 0).
  { unfold sgn. destruct (e - s) eqn:E1; [lia| |]; destruct (qe - qs) eqn:E2; try lia; cbn; lia. }
  destruct (Z.ltb_spec (sgn (e - s) * sgn (qe - qs)) 0) as [L|L].
  - destruct (sstrand_in ss _ _); [|discriminate]. intros H; inversion H; subst.
    split; split; intros; try reflexivity; try lia. discriminate.
  - destruct (Z.gtb_spec (sgn (e - s) * sgn (qe - qs)) 0) as [G|G]; [|lia].
    destruct (sstrand_in ss _ _); [|discriminate]. intros H; inversion H; subst.
    split; split; intros; try reflexivity; try lia. discriminate.
Qed.

Lemma orient_na s e qs qe ss : aval_is_str ss (bs "N/A"%bs) = true ->
  orient s e qs qe ss = Ok (Z.min s e - 1, Z.max s e, bs "."%bs).
Proof. intros H. rewrite orientation_spec. unfold orient_spec. rewrite H. reflexivity. Qed.

(* rows without a direction: the strand is what the sstrand column says, BLAST's words mapped to signs *)
Lemma orient_nodir s e qs qe ss : s = e \/ qs = qe -> aval_is_str ss (bs "N/A"%bs) = false ->
  orient s e qs qe ss =
  match ss with
  | None => Ok (Z.min s e - 1, Z.max s e, bs "."%bs)
  | Some (AStr t) => if valid_strand (strand_word t) then Ok (Z.min s e - 1, Z.max s e, strand_word t) else Err eValue
  | Some _ => Err eValue
  end.
Proof.
  intros D HN. rewrite orientation_spec. unfold orient_spec. rewrite HN.
  assert (P : sgn (e - s) * sgn (qe - qs) = 0).
  { unfold sgn. destruct D as [->| ->]; rewrite Z.sub_diag; cbn; lia. }
  rewrite P. reflexivity.
Qed.
Lemma orient_nodir_words s e qs qe : s = e \/ qs = qe ->
  orient s e qs qe (Some (AStr (bs "plus"%bs))) = Ok (Z.min s e - 1, Z.max s e, bs "+"%bs) /\
  orient s e qs qe (Some (AStr (bs "minus"%bs))) = Ok (Z.min s e - 1, Z.max s e, bs "-"%bs) /\
  orient s e qs qe (Some (AStr (bs "+"%bs))) = Ok (Z.min s e - 1, Z.max s e, bs "+"%bs) /\
  orient s e qs qe (Some (AStr (bs "-"%bs))) = Ok (Z.min s e - 1, Z.max s e, bs "-"%bs) /\
  orient s e qs qe None = Ok (Z.min s e - 1, Z.max s e, bs "."%bs).
Proof.
  intros D. repeat split.
  - rewrite (orient_nodir s e qs qe (Some (AStr (bs "plus"%bs))) D eq_refl). reflexivity.
  - rewrite (orient_nodir s e qs qe (Some (AStr (bs "minus"%bs))) D eq_refl). reflexivity.
  - rewrite (orient_nodir s e qs qe (Some (AStr (bs "+"%bs))) D eq_refl). reflexivity.
  - rewrite (orient_nodir s e qs qe (Some (AStr (bs "-"%bs))) D eq_refl). reflexivity.
  - rewrite (orient_nodir s e qs qe None D eq_refl). reflexivity.
Qed.

Lemma orient_err_iff s e qs qe ss : s <> e -> qs <> qe ->
  (orient s e qs qe ss = Err eValue <-> sstrand_contradicts (sgn (e - s) * sgn (qe - qs)) ss = true) /\
  (forall x, orient s e qs qe ss = Err x -> x = eValue).
Proof.
  intros Hs Hq. rewrite orientation_spec. unfold orient_spec, sstrand_contradicts.
  assert (P : sgn (e - s) * sgn (qe - qs) < 0 \/ sgn (e - s) * sgn (qe - qs) > 0).
  { unfold sgn. destruct (e - s) eqn:E1; [lia| |]; destruct (qe - qs) eqn:E2; try lia; cbn; lia. }
  destruct (aval_is_str ss _); cbn [negb andb].
  { split; [split; discriminate|intros x H; discriminate]. }
  destruct (Z.ltb_spec (sgn (e - s) * sgn (qe - qs)) 0) as [L|L].
  - destruct (sstrand_in ss _ _); cbn; split; try (split; intros; (discriminate || reflexivity)); intros x H; inversion H; reflexivity.
  - destruct (Z.gtb_spec (sgn (e - s) * sgn (qe - qs)) 0) as [G|G]; [|lia].
    destruct (sstrand_in ss _ _); cbn; split; try (split; intros; (discriminate || reflexivity)); intros x H; inversion H; reflexivity.
Qed.

(* ---------------- dictionaries ---------------- *)
Definition keys {V} (d : list (str * V)) : list str := map fst d.

Lemma str_eqb_sym a b : str_eqb a b = str_eqb b a.
Proof.
  destruct (str_eqb a b) eqn:E.
  - apply str_eqb_eq in E. subst. symmetry. apply str_eqb_refl.
  - destruct (str_eqb b a) eqn:E2; [|reflexivity]. apply str_eqb_eq in E2. subst. rewrite str_eqb_refl in E. discriminate.
Qed.

Lemma assoc_dict_set_eq {V} k (v : V) d : assoc k (dict_set k v d) = Some v.
Proof.
  induction d as [|[a b] r IH]; cbn.
  - rewrite str_eqb_refl. reflexivity.
  - destruct (str_eqb a k) eqn:E; cbn; rewrite E; [reflexivity|exact IH].
Qed.
Lemma assoc_dict_set_neq {V} k k' (v : V) d : str_eqb k' k = false -> assoc k (dict_set k' v d) = assoc k d.
Proof.
  intros N. induction d as [|[a b] r IH]; cbn.
  - rewrite N. reflexivity.
  - destruct (str_eqb a k') eqn:E; cbn.
    + apply str_eqb_eq in E. subst a. rewrite N. reflexivity.
    + destruct (str_eqb a k); [reflexivity|exact IH].
Qed.
Lemma assoc_none_mem {V} k (d : list (str * V)) : assoc k d = None <-> mem k (keys d) = false.
Proof.
  induction d as [|[a b] r IH]; cbn; [tauto|].
  rewrite (str_eqb_sym k a). destruct (str_eqb a k); cbn; [split; intros X; discriminate X|exact IH].
Qed.
Lemma dict_set_fresh {V} k (v : V) d : mem k (keys d) = false -> dict_set k v d = d ++ [(k, v)].
Proof.
  induction d as [|[a b] r IH]; cbn; [reflexivity|].
  rewrite (str_eqb_sym k a). destruct (str_eqb a k); cbn; [discriminate|]. intros H. rewrite IH by exact H. reflexivity.
Qed.
Lemma assoc_app {V} k (a b : list (str * V)) :
  assoc k (a ++ b) = match assoc k a with Some v => Some v | None => assoc k b end.
Proof. induction a as [|[x y] r IH]; cbn; [reflexivity|]. destruct (str_eqb x k); [reflexivity|exact IH]. Qed.
Lemma mem_app k a b : mem k (a ++ b) = mem k a || mem k b.
Proof. unfold mem. apply existsb_app. Qed.

(* ---------------- a tokenised row ---------------- *)
Definition cell (hv : hdr * str) : str * aval := (hname (fst hv), conv (htype (fst hv)) (snd hv)).

Lemma fill_attrs_fresh hs : forall toks acc,
  nodup_str (map hname hs) = true ->
  forallb (fun h => negb (mem (hname h) (keys acc))) hs = true ->
  fill_attrs hs toks acc = acc ++ map cell (combine hs toks).
Proof.
  induction hs as [|h hs IH]; intros toks acc ND FR; cbn.
  - rewrite app_nil_r. reflexivity.
  - destruct toks as [|v toks]; cbn; [rewrite app_nil_r; reflexivity|].
    cbn in ND, FR. apply andb_prop in ND. destruct ND as [N1 N2]. apply andb_prop in FR. destruct FR as [F1 F2].
    rewrite dict_set_fresh by (destruct (mem (hname h) (keys acc)); [discriminate|reflexivity]).
    rewrite IH; [rewrite <- app_assoc; reflexivity|exact N2|].
    apply forallb_forall. intros x Hx. unfold keys in *. rewrite map_app, mem_app. cbn.
    rewrite forallb_forall in F2. specialize (F2 x Hx). cbn beta in F2. destruct (mem (hname x) (map fst acc)); [discriminate|]. cbn.
    rewrite orb_false_r. destruct (str_eqb (hname x) (hname h)) eqn:E; [|reflexivity].
    apply str_eqb_eq in E. exfalso.
    assert (M : mem (hname h) (map hname hs) = true).
    { unfold mem. apply existsb_exists. exists (hname x). split; [apply in_map; exact Hx|rewrite E; apply str_eqb_refl]. }
    rewrite M in N1. discriminate.
Qed.
Lemma row_attrs_cells hs toks : nodup_str (map hname hs) = true -> row_attrs hs toks = map cell (combine hs toks).
Proof.
  intros ND. unfold row_attrs. rewrite fill_attrs_fresh; [reflexivity|exact ND|].
  apply forallb_forall. intros; reflexivity.
Qed.
Lemma assoc_cells hs : forall toks i h v, nodup_str (map hname hs) = true ->
  nth_error hs i = Some h -> nth_error toks i = Some v ->
  assoc (hname h) (map cell (combine hs toks)) = Some (conv (htype h) v).
Proof.
  induction hs as [|h0 hs IH]; intros toks i h v ND Hh Hv; [destruct i; discriminate|].
  destruct toks as [|v0 toks]; [destruct i; discriminate|].
  cbn in ND. apply andb_prop in ND. destruct ND as [N1 N2].
  destruct i as [|i]; cbn in Hh, Hv.
  - inversion Hh; inversion Hv; subst. cbn. rewrite str_eqb_refl. reflexivity.
  - cbn. destruct (str_eqb (hname h0) (hname h)) eqn:E; [|eapply IH; eauto].
    apply str_eqb_eq in E. exfalso.
    assert (M : mem (hname h0) (map hname hs) = true).
    { unfold mem. apply existsb_exists. exists (hname h). split; [apply in_map; eapply nth_error_In; exact Hh|rewrite E; apply str_eqb_refl]. }
    rewrite M in N1. discriminate.
Qed.
Lemma keys_cells hs : forall toks, length toks = length hs -> keys (map cell (combine hs toks)) = map hname hs.
Proof.
  induction hs as [|h hs IH]; intros [|v toks] L; cbn in *; try discriminate; [reflexivity|].
  f_equal. apply IH. lia.
Qed.

(* pident / fident completion keeps every existing entry and adds at most one key *)
Lemma complete_ident_spec a a' : complete_ident a = Ok a' ->
  (forall k v, assoc k a = Some v -> assoc k a' = Some v) /\
  (exists extra, keys a' = keys a ++ extra /\ incl extra [bs "pident"%bs; bs "fident"%bs]).
Proof.
  unfold complete_ident.
  destruct (assoc (bs "pident"%bs) a) as [p|] eqn:P; destruct (assoc (bs "fident"%bs) a) as [q|] eqn:Q.
  - intros H; inversion H; subst. split; [auto|]. exists []. rewrite app_nil_r. split; [reflexivity|intros x []].
  - destruct p; try discriminate. intros H; inversion H; subst. clear H.
    apply assoc_none_mem in Q. rewrite dict_set_fresh by exact Q. split.
    + intros k v Hk. rewrite assoc_app, Hk. reflexivity.
    + exists [bs "fident"%bs]. unfold keys. rewrite map_app. split; [reflexivity|]. intros x [<-|[]]. right; left; reflexivity.
  - apply assoc_none_mem in P.
    assert (G : forall w, (forall k v, assoc k a = Some v -> assoc k (dict_set (bs "pident"%bs) w a) = Some v) /\
      (exists extra, keys (dict_set (bs "pident"%bs) w a) = keys a ++ extra /\ incl extra [bs "pident"%bs; bs "fident"%bs])).
    { intros w. rewrite dict_set_fresh by exact P. split.
      + intros k v Hk. rewrite assoc_app, Hk. reflexivity.
      + exists [bs "pident"%bs]. unfold keys. rewrite map_app. split; [reflexivity|]. intros x [<-|[]]. left; reflexivity. }
    destruct q; try discriminate; intros H; inversion H; subst; apply G.
  - intros H; inversion H; subst. split; [auto|]. exists []. rewrite app_nil_r. split; [reflexivity|intros x []].
Qed.

(* copyattrs: general in the two tables *)
Lemma copy_attrs_preserves c cp a : forall cm common m,
  mem m (map snd cp) = false -> copy_attrs c cp a cm = Ok common -> assoc m common = assoc m cm.
Proof.
  induction cp as [|[b t] r IH]; intros cm common m M H; cbn in *.
  - inversion H; reflexivity.
  - destruct (str_eqb m t) eqn:E; [discriminate|]. cbn in M.
    destruct (cget c b) as [col|]; [|discriminate].
    destruct (assoc col a) as [v|].
    + rewrite (IH _ _ _ M H). apply assoc_dict_set_neq. rewrite str_eqb_sym. exact E.
    + exact (IH _ _ _ M H).
Qed.
Lemma copy_attrs_spec c cp a : forall cm common,
  nodup_str (map snd cp) = true -> copy_attrs c cp a cm = Ok common ->
  forall b m, In (b, m) cp ->
  exists col, cget c b = Some col /\
    assoc m common = match assoc col a with Some v => Some v | None => assoc m cm end.
Proof.
  induction cp as [|[b0 t0] r IH]; intros cm common ND H b m I; [destruct I|].
  cbn in ND. apply andb_prop in ND. destruct ND as [N1 N2]. cbn in H.
  destruct (cget c b0) as [col0|] eqn:C0; [|discriminate].
  destruct I as [I|I].
  - inversion I; subst. exists col0. split; [exact C0|].
    destruct (assoc col0 a) as [v|].
    + rewrite (copy_attrs_preserves _ _ _ _ _ m) with (2 := H) by (destruct (mem m (map snd r)); [discriminate|reflexivity]).
      apply assoc_dict_set_eq.
    + apply (copy_attrs_preserves _ _ _ _ _ m) with (2 := H). destruct (mem m (map snd r)); [discriminate|reflexivity].
  - assert (NE : str_eqb t0 m = false).
    { destruct (str_eqb t0 m) eqn:E; [|reflexivity]. apply str_eqb_eq in E. subst. exfalso.
      assert (M : mem m (map snd r) = true).
      { unfold mem. apply existsb_exists. exists m. split; [change m with (snd (b, m)); apply in_map; exact I|apply str_eqb_refl]. }
      rewrite M in N1. discriminate. }
    destruct (assoc col0 a) as [v0|].
    + destruct (IH _ _ N2 H b m I) as (col & Cc & A). exists col. split; [exact Cc|].
      rewrite A. rewrite assoc_dict_set_neq by exact NE. reflexivity.
    + exact (IH _ _ N2 H b m I).
Qed.
Lemma copy_attrs_total c cp a : forall cm,
  forallb (fun p => match cget c (fst p) with Some _ => true | None => false end) cp = true ->
  exists common, copy_attrs c cp a cm = Ok common.
Proof.
  induction cp as [|[b t] r IH]; intros cm F; cbn in *; [eauto|].
  apply andb_prop in F. destruct F as [F1 F2]. destruct (cget c b); [|discriminate].
  destruct (assoc s a); apply IH; exact F2.
Qed.

Lemma copyattrs_nodup : nodup_str (map snd copyattrs) = true.
Proof. vm_compute. reflexivity. Qed.
Lemma copyattrs_not_type : forallb (fun p => negb (str_eqb (bs "type"%bs) (snd p))) copyattrs = true.
Proof. vm_compute. reflexivity. Qed.
Lemma copyattrs_resolve d :
  forallb (fun p => match cget (converth_of d) (fst p) with Some _ => true | None => false end) copyattrs = true.
Proof. destruct d; vm_compute; reflexivity. Qed.

Lemma common0_none (ty : option aval) m : str_eqb (bs "type"%bs) m = false ->
  assoc m (match ty with Some v => [(bs "type"%bs, v)] | None => [] end) = None.
Proof. intros H. destruct ty; cbn [assoc]; [rewrite H|]; reflexivity. Qed.

(* the P0 row theorem *)
Lemma row_to_feature d ftype hs toks f :
  nodup_str (map hname hs) = true -> row_feature d ftype hs toks = Ok f ->
  length toks = length hs /\
  (forall i h v, nth_error hs i = Some h -> nth_error toks i = Some v ->
                 assoc (hname h) (f_fmt f) = Some (conv (htype h) v)) /\
  (exists extra, map fst (f_fmt f) = map hname hs ++ extra /\ incl extra [bs "pident"%bs; bs "fident"%bs]) /\
  (forall b m, In (b, m) copyattrs ->
     exists col, cget (converth_of d) b = Some col /\ assoc m (f_common f) = assoc col (f_fmt f)).
Proof.
  intros ND. unfold row_feature.
  destruct (Nat.eqb (length toks) (length hs)) eqn:L; cbn [negb]; [|discriminate].
  apply Nat.eqb_eq in L. rewrite row_attrs_cells by exact ND.
  set (a := map cell (combine hs toks)). unfold feature_of_attrs.
  destruct (cattr d a _) as [v1|]; [|discriminate]. destruct (cattr d a _) as [v2|]; [|discriminate].
  destruct (cattr d a _) as [v3|]; [|discriminate]. destruct (cattr d a _) as [v4|]; [|discriminate].
  destruct (as_int v1); [|discriminate]. destruct (as_int v2); [|discriminate].
  destruct (as_int v3); [|discriminate]. destruct (as_int v4); [|discriminate].
  destruct (orient _ _ _ _ _) as [[[lo hi] st]|]; [|discriminate].
  destruct (complete_ident a) as [a'|] eqn:CI; [|discriminate].
  destruct (copy_attrs _ _ _ _) as [common|] eqn:CA; [|discriminate].
  intros H; inversion H; subst f; cbn [f_fmt f_common]. clear H.
  destruct (complete_ident_spec _ _ CI) as [KEEP (extra & KE & IN)].
  split; [exact L|]. split; [|split].
  - intros i h v Hh Hv. apply KEEP. unfold a. eapply assoc_cells; eauto.
  - exists extra. split; [|exact IN]. fold (keys a'). rewrite KE. unfold a. rewrite keys_cells by exact L. reflexivity.
  - intros b m I. destruct (copy_attrs_spec _ _ _ _ _ copyattrs_nodup CA b m I) as (col & Cc & A).
    exists col. split; [exact Cc|]. rewrite A.
    destruct (assoc col a') as [v|]; [reflexivity|].
    pose proof copyattrs_not_type as NT. rewrite forallb_forall in NT. specialize (NT _ I). cbn [snd] in NT.
    apply common0_none. destruct (str_eqb (bs "type"%bs) m); [discriminate|reflexivity].
Qed.

(* ---------------- location and common metadata are a function of the abstract hit ---------------- *)
Lemma In_copyattrs_gen b m :
  existsb (fun q => str_eqb b (fst q) && str_eqb m (snd q)) copyattrs = true -> In (b, m) copyattrs.
Proof.
  intros H. apply existsb_exists in H. destruct H as ([x y] & I & E). apply andb_prop in E. destruct E as [E1 E2].
  apply str_eqb_eq in E1. apply str_eqb_eq in E2. cbn in E1, E2. subst. exact I.
Qed.

Lemma spec_strand_cases h :
  let p := sgn (h_send h - h_sstart h) * sgn (h_qend h - h_qstart h) in
  spec_strand h = if p <? 0 then bs "-"%bs else if p >? 0 then bs "+"%bs else bs "."%bs.
Proof. reflexivity. Qed.

Lemma hit_row_spec d ftype a h :
  carries d a h -> sstrand_agrees h (assoc (bs "sstrand"%bs) a) = true -> ident_ok a = true ->
  exists f, feature_of_attrs d ftype a = Ok f /\ loc_meta f = spec_loc_meta h.
Proof.
  intros (C1 & C2 & C3 & C4 & C5 & C6 & C7 & C8) SA IO.
  unfold feature_of_attrs. rewrite C1, C2, C3, C4. cbn [as_int].
  rewrite orientation_spec. unfold orient_spec.
  set (p := sgn (h_send h - h_sstart h) * sgn (h_qend h - h_qstart h)) in *.
  assert (OR : (if aval_is_str (assoc (bs "sstrand"%bs) a) (bs "N/A"%bs)
      then Ok (Z.min (h_sstart h) (h_send h) - 1, Z.max (h_sstart h) (h_send h), bs "."%bs)
      else if p <? 0 then if sstrand_in (assoc (bs "sstrand"%bs) a) (bs "-"%bs) (bs "minus"%bs)
             then Ok (Z.min (h_sstart h) (h_send h) - 1, Z.max (h_sstart h) (h_send h), bs "-"%bs) else Err eValue
      else if p >? 0 then if sstrand_in (assoc (bs "sstrand"%bs) a) (bs "+"%bs) (bs "plus"%bs)
             then Ok (Z.min (h_sstart h) (h_send h) - 1, Z.max (h_sstart h) (h_send h), bs "+"%bs) else Err eValue
      else match assoc (bs "sstrand"%bs) a with
           | None => Ok (Z.min (h_sstart h) (h_send h) - 1, Z.max (h_sstart h) (h_send h), bs "."%bs)
           | Some (AStr t) => if valid_strand (strand_word t) then Ok (Z.min (h_sstart h) (h_send h) - 1, Z.max (h_sstart h) (h_send h), strand_word t) else Err eValue
           | Some _ => Err eValue
           end) = Ok (Z.min (h_sstart h) (h_send h) - 1, Z.max (h_sstart h) (h_send h), spec_strand h)).
  { rewrite spec_strand_cases. fold p. unfold sstrand_agrees in SA. fold p in SA.
    destruct (assoc (bs "sstrand"%bs) a) as [v|] eqn:SS.
    - apply andb_prop in SA. destruct SA as [S1 S2].
      destruct (aval_is_str (Some v) (bs "N/A"%bs)); [discriminate|].
      destruct (p <? 0) eqn:PL.
      + assert (PG : (p >? 0) = false) by (apply Z.ltb_lt in PL; destruct (Z.gtb_spec p 0); [lia|reflexivity]).
        rewrite PG in S2. rewrite andb_true_l, andb_false_l, orb_false_r in S2. rewrite S2. reflexivity.
      + rewrite andb_false_l, orb_false_l in S2. destruct (p >? 0); [|discriminate].
        rewrite andb_true_l in S2. rewrite S2. reflexivity.
    - cbn [aval_is_str sstrand_in]. destruct (p <? 0); [reflexivity|]. destruct (p >? 0); reflexivity. }
  cbv zeta. rewrite OR.
  unfold ident_ok in IO. destruct (complete_ident a) as [a'|] eqn:CI; [|discriminate].
  destruct (complete_ident_spec _ _ CI) as [KEEP _].
  cbv beta iota zeta.
  destruct (copy_attrs (converth_of d) copyattrs a' _) as [common|e] eqn:CA.
  2: { exfalso. match type of CA with copy_attrs _ _ _ ?cm = _ =>
         destruct (copy_attrs_total (converth_of d) copyattrs a' cm (copyattrs_resolve d)) as (c & X);
         rewrite X in CA; discriminate end. }
  eexists. split; [reflexivity|].
  unfold loc_meta, spec_loc_meta. cbn [f_start f_stop f_strand f_common].
  assert (G : forall b m v, In (b, m) copyattrs -> cattr d a b = Some v -> assoc m common = Some v).
  { intros b m v I Cb. destruct (copy_attrs_spec _ _ _ _ _ copyattrs_nodup CA b m I) as (col & Cc & A).
    unfold cattr in Cb. rewrite Cc in Cb. apply KEEP in Cb. rewrite A, Cb. reflexivity. }
  rewrite (G _ _ _ (In_copyattrs_gen (bs "sseqid"%bs) (bs "seqid"%bs) eq_refl) C5).
  rewrite (G _ _ _ (In_copyattrs_gen (bs "qseqid"%bs) (bs "name"%bs) eq_refl) C6).
  rewrite (G _ _ _ (In_copyattrs_gen (bs "evalue"%bs) (bs "evalue"%bs) eq_refl) C7).
  rewrite (G _ _ _ (In_copyattrs_gen (bs "bitscore"%bs) (bs "score"%bs) eq_refl) C8).
  reflexivity.
Qed.

Lemma dialect_independent d1 d2 ft1 ft2 a1 a2 h :
  carries d1 a1 h -> carries d2 a2 h ->
  sstrand_agrees h (assoc (bs "sstrand"%bs) a1) = true -> sstrand_agrees h (assoc (bs "sstrand"%bs) a2) = true ->
  ident_ok a1 = true -> ident_ok a2 = true ->
  exists f1 f2, feature_of_attrs d1 ft1 a1 = Ok f1 /\ feature_of_attrs d2 ft2 a2 = Ok f2 /\
                loc_meta f1 = loc_meta f2 /\ loc_meta f1 = spec_loc_meta h.
Proof.
  intros C1 C2 S1 S2 I1 I2.
  destruct (hit_row_spec d1 ft1 a1 h C1 S1 I1) as (f1 & E1 & L1).
  destruct (hit_row_spec d2 ft2 a2 h C2 S2 I2) as (f2 & E2 & L2).
  exists f1, f2. repeat split; try assumption. congruence.
Qed.

(* ---------------- _headers_from_fmtstrings ---------------- *)
Lemma find_hdr_name by_long s hs h : find_hdr by_long s hs = Some h ->
  In h hs /\ (if by_long then hlong h else hname h) = s.
Proof.
  induction hs as [|x r IH]; cbn; [discriminate|].
  destruct (str_eqb (if by_long then hlong x else hname x) s) eqn:E.
  - intros H; inversion H; subst. apply str_eqb_eq in E. auto.
  - intros H. destruct (IH H). auto.
Qed.
Lemma headers_from_spec by_long d : forall names hs, headers_from by_long d names = Ok hs ->
  map (fun h => if by_long then hlong h else hname h) hs = names /\ (forall h, In h hs -> In h (header_of d)).
Proof.
  induction names as [|s r IH]; intros hs H; cbn in H.
  - inversion H; subst. split; [reflexivity|intros h []].
  - destruct (find_hdr by_long s (header_of d)) as [h|] eqn:F; [|discriminate].
    destruct (headers_from by_long d r) as [hs'|]; [|discriminate]. inversion H; subst.
    destruct (IH hs' eq_refl) as [M I]. apply find_hdr_name in F. destruct F as [F1 F2]. cbn. split.
    + rewrite F2, M. reflexivity.
    + intros x [<-|Hx]; auto.
Qed.
Lemma headers_from_err by_long d : forall names e, headers_from by_long d names = Err e ->
  e = eValue /\ exists s, In s names /\ find_hdr by_long s (header_of d) = None.
Proof.
  induction names as [|s r IH]; intros e H; cbn in H; [discriminate|].
  destruct (find_hdr by_long s (header_of d)) as [h|] eqn:F.
  - destruct (headers_from by_long d r) as [hs'|e'] eqn:R; [discriminate|]. inversion H; subst.
    destruct (IH e eq_refl) as [E (s' & I & N)]. split; [exact E|]. exists s'. split; [right; exact I|exact N].
  - inversion H. split; [reflexivity|]. exists s. split; [left; reflexivity|exact F].
Qed.

(* every default column list resolves, with pairwise different names, and carries the columns _CONVERTH needs *)
Definition default_resolves (kv : str * list str) : bool :=
  match headers_from false (dialect_of_key (fst kv)) (snd kv) with
  | Ok hs => nodup_str (map hname hs)
  | Err _ => false
  end.
Lemma defaults_resolve : forallb default_resolves DEFAULT_OUTFMT = true.
Proof. vm_compute. reflexivity. Qed.

(* ---------------- non-vacuity witnesses (computed) ---------------- *)
Lemma witness_three_dialects :
  let expected := Some (true, (9, 20, bs "-"%bs, Some (AStr (bs "s1"%bs)), Some (AStr (bs "q1"%bs)),
                               Some (AFlt (FNum false 1 (-5))), Some (AFlt (FNum false 50 0)))) in
  lm_of (read_content Blast (Some x09) None None false (unhex (bs "71310973310939392e3009313009300930093509360932300931300931652d350935300a"%bs))) = expected /\
  lm_of (read_content Mmseqs (Some x09) None None false (unhex (bs "71756572790974617267657409666964656e7409616c6e6c656e096d69736d61746368096761706f70656e097173746172740971656e64097473746172740974656e64096576616c756509626974730a713109733109302e393909313009300930093509360932300931300931652d350935300a"%bs))) = expected /\
  lm_of (read_content Infernal None None None false (unhex (bs "23746172676574206e616d65202020202020202020616363657373696f6e207175657279206e616d652020202020202020202020616363657373696f6e206d646c206d646c2066726f6d2020206d646c20746f207365712066726f6d20202073657120746f20737472616e64207472756e6320706173732020206763202062696173202073636f7265202020452d76616c756520696e63206465736372697074696f6e206f66207461726765740a232d2d2d2d2d2d2d2d202d2d2d2d202d2d2d2d2d202d2d2d2d2d2d2d2d2d2d202d2d2d2d2d2d2d202d2d2d2d202d2d2d2d2d2d2d2d2d2d2d202d2d2d2d202d2d2d202d2d2d2d2d2d2d2d2d202d2d2d2d2d2d202d2d2d2d2d202d2d2d2d2d2d2d2d202d2d2d2d2d2d2d2d2d2d202d2d2d2d2d2d202d2d2d2d2d2d2d2d202d2d2d2d2d202d2d2d2d2d2d2d2d0a202020202020207331205246303030303520713120202020202020524630303030312020202020686d6d20352020202020202020202020202020362020203230203130202020202020202020202d20202020206e6f2035392020202020202020302e36372020202020202020302e3020353020202020202020202031652d3520202020203f202d202020202020200a230a232050726f6772616d3a202020202020202020636d7365617263680a232056657273696f6e3a202020202020202020312e312e3520285365702032303233290a23204f7074696f6e2073657474696e67733a20636d736561726368202d2d74626c6f7574206f75742e747874202d2d666d7420312074524e41352e632e636d2067656e6f6d652e6661200a23205b6f6b5d0a"%bs))) = expected.
Proof. vm_compute. exact (conj eq_refl (conj eq_refl eq_refl)). Qed.
Lemma witness_carries :
  let h := mkHit (bs "s1"%bs) (bs "q1"%bs) 20 10 5 6 (bs "1e-5"%bs) (bs "50"%bs) in
  let a := row_attrs (match headers_from false Blast [bs "qseqid"%bs; bs "qgi"%bs; bs "qstart"%bs; bs "qend"%bs; bs "sstart"%bs;
                                                      bs "send"%bs; bs "evalue"%bs; bs "bitscore"%bs] with Ok hs => hs | Err _ => [] end)
             [bs "q1"%bs; bs "qgi"%bs; bs "5"%bs; bs "6"%bs; bs "20"%bs; bs "10"%bs; bs "1e-5"%bs; bs "50"%bs] in
  carries Blast (dict_set (bs "sseqid"%bs) (AStr (bs "s1"%bs)) a) h /\
  sstrand_agrees h (assoc (bs "sstrand"%bs) a) = true /\ ident_ok a = true /\ spec_strand h = bs "-"%bs.
Proof. vm_compute. repeat split; reflexivity. Qed.
