(* C02 proofs, part 9: structure of dict updates -- overriding in place, new keys appended -- and the
   idempotence of "keep what differs from the base". *)
From Coq Require Import List ZArith NArith Bool Lia.
From Coq.Strings Require Import Byte.
Import ListNotations.
From SV Require Import Text G_gff C02_Model C02_Lemmas C02_Dict C02_Feat.

Definition ov (E : adict) (kv : str * aval) : str * aval :=
  (fst kv, match aget (fst kv) E with Some v => v | None => snd kv end).
Definition newk (b : adict) (kv : str * aval) : bool := negb (in_keys (fst kv) b).

Lemma in_keys_map_ov E b k : in_keys k (map (ov E) b) = in_keys k b.
Proof. induction b as [|[k' v'] b IH]; [reflexivity|]. cbn [map in_keys existsb ov fst]. fold (in_keys k (map (ov E) b)). fold (in_keys k b). rewrite IH. reflexivity. Qed.

Lemma aset_in k v b : keys_unique b = true -> in_keys k b = true -> aset k v b = map (ov [(k, v)]) b.
Proof.
  induction b as [|[k' v'] b IH]; [discriminate|]. cbn [keys_unique in_keys existsb fst aset map]. intros U H.
  apply andb_prop in U. destruct U as [U1 U2]. apply negb_true_iff in U1.
  destruct (str_eqb k' k) eqn:E.
  - apply str_eqb_eq in E. subst k'. unfold ov at 1. cbn [fst snd aget]. rewrite str_eqb_refl. f_equal.
    clear -U1. change (in_keys k b = false) in U1. induction b as [|[k2 v2] b IH]; [reflexivity|].
    cbn [in_keys existsb fst] in U1. apply orb_false_elim in U1. destruct U1 as [A B]. cbn [map]. unfold ov at 1. cbn [fst snd aget].
    rewrite str_eqb_sym, A. f_equal. apply IH. exact B.
  - cbn [orb] in H. unfold ov at 1. cbn [fst snd aget]. rewrite str_eqb_sym, E. f_equal. apply IH; assumption.
Qed.

(* aupdate b E = (b with the values of E written in place) ++ (entries of E with new keys, in order) *)
Theorem aupdate_struct E : forall b, keys_unique b = true -> keys_unique E = true ->
  aupdate b E = map (ov E) b ++ filter (newk b) E.
Proof.
  induction E as [|[k v] E IH]; intros b Ub Ue.
  - cbn [aupdate fold_left filter]. rewrite app_nil_r. induction b as [|[k' v'] b IHb]; [reflexivity|].
    cbn [map keys_unique] in *. apply andb_prop in Ub. destruct Ub as [_ Ub]. rewrite <- (IHb Ub). reflexivity.
  - rewrite aupdate_cons. cbn [keys_unique] in Ue. apply andb_prop in Ue. destruct Ue as [Uk Ue]. apply negb_true_iff in Uk.
    change (in_keys k E = false) in Uk.
    rewrite (IH _ (keys_unique_aset k v b Ub) Ue). cbn [filter]. unfold newk at 2. cbn [fst].
    assert (forall kv, str_eqb (fst kv) k = false -> ov E kv = ov ((k, v) :: E) kv) as Hov.
    { intros [k2 v2] N. cbn [fst] in N. unfold ov. cbn [fst snd aget]. rewrite (str_eqb_sym k k2), N. reflexivity. }
    destruct (in_keys k b) eqn:Ib; cbn [negb].
    + rewrite (aset_in k v b Ub Ib). rewrite map_map. f_equal.
      * apply map_ext. intros [k2 v2]. unfold ov. cbn [fst snd aget]. destruct (str_eqb k k2) eqn:E2.
        -- apply str_eqb_eq in E2. subst k2. apply aget_none_in_keys in Uk. rewrite Uk. reflexivity.
        -- destruct (aget k2 E); reflexivity.
      * apply filter_ext. intros [k2 v2]. unfold newk. cbn [fst]. rewrite in_keys_map_ov. reflexivity.
    + rewrite (aset_notin k v b Ib). rewrite map_app. cbn [map]. rewrite <- app_assoc. cbn [app]. f_equal.
      * apply map_ext_in. intros kv Hin. apply Hov. apply (in_keys_false_In k b kv Ib Hin).
      * unfold ov at 1. cbn [fst snd]. rewrite (proj2 (aget_none_in_keys k E) Uk). f_equal.
        apply filter_ext_in. intros [k2 v2] Hin. unfold newk. cbn [fst]. rewrite in_keys_app. cbn [in_keys existsb fst].
        pose proof (in_keys_false_In k E (k2, v2) Uk Hin) as N. cbn [fst] in N. rewrite (str_eqb_sym k k2), N. rewrite !orb_false_r. reflexivity.
Qed.
