(* C08 proofs, part 3: loc_range, and the exact region of the open finding F31 (rc twice on unstranded features). *)
From Coq Require Import List ZArith NArith Bool Lia Permutation.
From Coq.Strings Require Import Byte.
Import ListNotations.
From SV Require Import Text G_flags C08_Model C08_Lemmas C08_Geom.
Local Open Scope Z_scope.

(* ------------------------------------------------------------------ FeatureList.loc_range *)
Definition all_locs (fts : list feature) : list loc := flat_map flocs fts.
Definition lr_step (acc : Z * Z) (l : loc) : Z * Z :=
  (if lstart l <? fst acc then lstart l else fst acc, if lstop l >? snd acc then lstop l else snd acc).
Lemma loc_range_flat fts : loc_range fts = fold_left lr_step (all_locs fts) (maxsize, - maxsize).
Proof.
  unfold loc_range, all_locs. generalize (maxsize, - maxsize). induction fts as [|f fts IH]; intros acc; [reflexivity|].
  cbn [fold_left flat_map]. rewrite fold_left_app. rewrite IH. reflexivity.
Qed.
Lemma lr_fold ls acc :
  fold_left lr_step ls acc = (fold_left Z.min (map lstart ls) (fst acc), fold_left Z.max (map lstop ls) (snd acc)).
Proof.
  revert acc. induction ls as [|l ls IH]; intros [a b]; [reflexivity|].
  cbn [fold_left map]. rewrite IH. unfold lr_step. cbn [fst snd].
  destruct (lstart l <? a) eqn:E1, (lstop l >? b) eqn:E2; f_equal; f_equal; lia.
Qed.
(* loc_range = (least start, greatest stop) over all locations of all features, for coordinates within +-sys.maxsize;
   (maxsize, -maxsize) for a list without locations *)
Lemma loc_range_spec fts :
  (all_locs fts = [] -> loc_range fts = (maxsize, - maxsize)) /\
  (all_locs fts <> [] -> (forall l, In l (all_locs fts) -> - maxsize <= lstart l /\ lstop l <= maxsize /\ lstart l < lstop l) ->
     (forall l, In l (all_locs fts) -> fst (loc_range fts) <= lstart l /\ lstop l <= snd (loc_range fts)) /\
     (exists l, In l (all_locs fts) /\ lstart l = fst (loc_range fts)) /\
     (exists l, In l (all_locs fts) /\ lstop l = snd (loc_range fts))).
Proof.
  rewrite loc_range_flat, lr_fold. cbn [fst snd]. split.
  - intros ->. reflexivity.
  - intros Hn Hb.
    destruct (fold_min_spec (map lstart (all_locs fts)) maxsize) as (A1 & A2 & A3).
    destruct (fold_max_spec (map lstop (all_locs fts)) (- maxsize)) as (B1 & B2 & B3).
    destruct (all_locs fts) as [|l0 r] eqn:E; [congruence|]. rewrite <- E in *.
    assert (H0 : In l0 (all_locs fts)) by (rewrite E; left; reflexivity).
    split; [|split].
    + intros l Hl. split; [apply A2|apply B2]; apply in_map; exact Hl.
    + destruct A3 as [A3|A3].
      * exists l0. split; [exact H0|]. pose proof (A2 (lstart l0) (in_map lstart _ _ H0)). destruct (Hb l0 H0) as (X1 & X2 & X3).
        rewrite A3 in *. unfold maxsize in *. lia.
      * apply in_map_iff in A3. destruct A3 as (l & El & Hl). exists l. split; assumption.
    + destruct B3 as [B3|B3].
      * exists l0. split; [exact H0|]. pose proof (B2 (lstop l0) (in_map lstop _ _ H0)). destruct (Hb l0 H0) as (X1 & X2 & X3).
        rewrite B3 in *. unfold maxsize in *. lia.
      * apply in_map_iff in B3. destruct B3 as (l & El & Hl). exists l. split; assumption.
Qed.

(* ------------------------------------------------------------------ the exact F31 region *)
(* stable sort by start of a list in descending-stop order is ordered by (start ascending, stop descending) *)
Lemma lex_total_start x y : le_start x y = false -> le_start_ge_stop y x = true.
Proof. unfold le_start, le_start_ge_stop. lia. Qed.
Lemma insert_lex x v : Forall (fun y => lstop y <= lstop x) v -> sorted_by le_start_ge_stop v = true ->
  sorted_by le_start_ge_stop (insert_by le_start x v) = true.
Proof.
  induction v as [|y v IH]; intros F S; [reflexivity|].
  inversion F as [|? ? Fy Fv]; subst. cbn [insert_by]. destruct (le_start x y) eqn:E.
  - rewrite sorted_cons. cbn [hd_le]. rewrite S, andb_true_r. unfold le_start in E. unfold le_start_ge_stop. lia.
  - rewrite sorted_cons in S. apply andb_prop in S. destruct S as [S1 S2].
    rewrite sorted_cons, (IH Fv S2), andb_true_r.
    destruct v as [|z v]; cbn [insert_by hd_le]; [apply lex_total_start; exact E|].
    destruct (le_start x z); cbn [hd_le]; [apply lex_total_start; exact E|exact S1].
Qed.
Lemma sort_start_of_stop_sorted s : sorted_by ge_stop s = true -> sorted_by le_start_ge_stop (sort_by le_start s) = true.
Proof.
  induction s as [|x r IH]; intros H; [reflexivity|].
  pose proof (sorted_head_all ge_stop ge_stop_trans x r H) as A.
  rewrite sorted_cons in H. apply andb_prop in H. destruct H as [_ H2].
  change (sort_by le_start (x :: r)) with (insert_by le_start x (sort_by le_start r)).
  apply insert_lex; [|apply IH; exact H2].
  eapply Forall_perm; [apply Permutation_sym; apply sort_perm|].
  eapply Forall_impl; [|exact A]. intros y Hy. unfold ge_stop in Hy. lia.
Qed.
(* rc twice restores the locations exactly when the guard holds: tie_ok is the weakest guard *)
Lemma spec_rc_invol_iff L t : inv_locs t = true -> (spec_rc_locs L (spec_rc_locs L t) = t <-> tie_ok t = true).
Proof.
  intros H. split; [|apply spec_rc_invol; exact H].
  intros E. unfold tie_ok. destruct (stranded t) eqn:S; [reflexivity|]. cbn [orb].
  destruct (inv_locs_head _ H) as (l0 & r & Et & Hs).
  assert (Hd : hd_strand t = lstrand l0) by (rewrite Et; reflexivity).
  rewrite Et in S. cbn [stranded] in S. apply orb_false_iff in S. destruct S as [SP SM].
  unfold spec_rc_locs at 1 in E. rewrite (spec_rc_hd_strand L t H), strand_reverse_invol, Hd in E.
  unfold spec_rc_locs in E. rewrite Hd in E. unfold order_of in E. rewrite strand_reverse_minus, SP, SM in E.
  rewrite (sort_map le_start ge_stop (mirror L)) in E by apply mirror_ge_stop.
  rewrite (map_mirror_invol L t) in E. rewrite <- E. apply sort_start_of_stop_sorted. apply sort_sorted. apply ge_stop_total.
Qed.
Lemma feature_rc_invol_iff L f g : wf_ft f = true -> feature_rc L f = Some g ->
  (feature_rc L g = Some f <-> tie_ok (flocs f) = true).
Proof.
  intros Hwf E. destruct (feature_rc_exact L f Hwf) as [E1 W1]. rewrite E1 in E. inversion E; subst g.
  destruct (feature_rc_exact L _ W1) as [E2 _]. rewrite E2. unfold spec_rc_ft. cbn [flocs fmeta].
  rewrite <- (spec_rc_invol_iff L _ Hwf). destruct f as [ls m]. cbn [flocs fmeta]. split.
  - intros X. injection X as Y. exact Y.
  - intros X. rewrite X. reflexivity.
Qed.
(* in every case the multiset of locations is restored: only the order inside a feature can differ *)
Lemma spec_rc_twice_perm L t : Permutation (spec_rc_locs L (spec_rc_locs L t)) t.
Proof.
  eapply Permutation_trans; [apply spec_rc_perm|].
  eapply Permutation_trans; [apply Permutation_map; apply spec_rc_perm|]. rewrite map_mirror_invol. apply Permutation_refl.
Qed.

(* which tie patterns are reordered: two neighbours with the same start and increasing stop *)
Lemma sorted_false_split le t : sorted_by le t = false <-> exists l1 x y l2, t = l1 ++ x :: y :: l2 /\ le x y = false.
Proof.
  split.
  - induction t as [|x t IH]; [discriminate|]. rewrite sorted_cons. intros H. apply andb_false_iff in H. destruct H as [H|H].
    + destruct t as [|y t]; [discriminate|]. exists [], x, y, t. split; [reflexivity|exact H].
    + destruct (IH H) as (l1 & a & b & l2 & E & F). exists (x :: l1), a, b, l2. rewrite E. split; [reflexivity|exact F].
  - intros (l1 & x & y & l2 & -> & F). induction l1 as [|z l1 IH].
    + cbn [app]. rewrite sorted_cons. cbn [hd_le]. rewrite F. reflexivity.
    + cbn [app]. rewrite sorted_cons. rewrite IH. apply andb_false_r.
Qed.
Lemma sorted_app_mid le l1 x y l2 : sorted_by le (l1 ++ x :: y :: l2) = true -> le x y = true.
Proof.
  induction l1 as [|z l1 IH]; cbn [app]; rewrite sorted_cons; intros H; apply andb_prop in H; destruct H as [H1 H2].
  - exact H1.
  - apply IH. exact H2.
Qed.
Lemma tie_region_iff t : inv_locs t = true -> stranded t = false ->
  (tie_ok t = false <-> exists l1 x y l2, t = l1 ++ x :: y :: l2 /\ lstart x = lstart y /\ lstop x < lstop y).
Proof.
  intros H S. unfold tie_ok. rewrite S. cbn [orb]. rewrite sorted_false_split.
  assert (Hs : sorted_by le_start t = true).
  { destruct (inv_locs_head _ H) as (l0 & r & Et & Hi). apply inv_s_parts in Hi. destruct Hi as (_ & _ & H3).
    rewrite Et in S. cbn [stranded] in S. apply orb_false_iff in S. destruct S as [_ SM].
    unfold order_of in H3. rewrite SM in H3. exact H3. }
  split; intros (l1 & x & y & l2 & E & F); exists l1, x, y, l2; (split; [exact E|]).
  - rewrite E in Hs. apply sorted_app_mid in Hs. unfold le_start in Hs. unfold le_start_ge_stop in F. lia.
  - unfold le_start_ge_stop. lia.
Qed.

(* ------------------------------------------------------------------ Location constructor *)
Lemma location_constructor a b s d m :
  (mk_location a b s d m = None <-> (a >= b \/ is_strand s = false)) /\
  (forall l, mk_location a b s d m = Some l -> l = mkLoc a b s d m /\ loc_ok l = true).
Proof.
  split.
  - unfold mk_location. destruct (a >=? b) eqn:E; [split; [intros _; left; lia|reflexivity]|].
    destruct (is_strand s) eqn:F; split; try discriminate; try reflexivity.
    + intros [C|C]; [lia|discriminate].
    + intros _. right. reflexivity.
  - intros l H. split; [apply (mk_location_some _ _ _ _ _ _ H)|eapply mk_location_loc_ok; exact H].
Qed.
Lemma is_strand_members c : is_strand c = true <-> In c [S_FORWARD; S_REVERSE; S_NONE; S_UNKNOWN].
Proof.
  unfold is_strand. rewrite !orb_true_iff, !byte_eqb_eq. cbn [In]. split.
  - intros [[[H|H]|H]|H]; subst; auto.
  - intros [H|[H|[H|[H|[]]]]]; subst; auto.
Qed.
