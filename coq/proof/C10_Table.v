(* C10, general (unbounded) statement for the location part of the feature table: the lines render_feat writes for a feature's
   key and (wrapped) location, fed to the reader's feature-table step function and followed by the flush that the next key line
   triggers, append exactly the feature with the meaning of the location, ordered along its strand. *)
From Coq Require Import List ZArith NArith Bool Lia.
From Coq.Strings Require Import Byte.
Import ListNotations.
From SV Require Import Text G_flags C10_Model C10_Lemmas.


Lemma lstrip_spaces n x : lstrip (spaces n ++ x) = lstrip x.
Proof. induction n; [reflexivity|]. cbn [spaces repeat app lstrip]. exact IHn. Qed.
Lemma lstrip_head c r : is_ws c = false -> lstrip (c :: r) = c :: r.
Proof. intros H. cbn [lstrip]. now rewrite H. Qed.
Lemma nows_head s : s <> [] -> nows s = true -> exists c r, s = c :: r /\ is_ws c = false.
Proof.
  destruct s as [|c r]; [congruence|]. intros _ H. cbn in H. apply andb_prop in H. destruct H as [H _].
  apply negb_true_iff in H. eauto.
Qed.
Lemma rstrip_spaces n : rstrip (spaces n) = [].
Proof. induction n; [reflexivity|]. cbn [spaces repeat rstrip]. fold (spaces n). now rewrite IHn. Qed.
Lemma rstrip_app_spaces s n : rstrip (s ++ spaces n) = rstrip s.
Proof.
  induction s as [|c r IH]; cbn [app]; [apply rstrip_spaces|]. cbn [rstrip]. now rewrite IH.
Qed.
Lemma rstrip_app_nows a b : b <> [] -> nows b = true -> rstrip (a ++ b) = a ++ b.
Proof.
  intros Hb Hn. induction a as [|x a IH]; cbn [app]; [apply rstrip_no_ws; exact Hn|].
  cbn [rstrip]. rewrite IH. destruct (a ++ b) eqn:E; [|reflexivity]. destruct a; [cbn in E; congruence|discriminate].
Qed.
Lemma take_word_app w rest : nows w = true -> (match rest with [] => true | c :: _ => is_ws c end) = true ->
  take_word (w ++ rest) = w /\ drop_word (w ++ rest) = rest.
Proof.
  intros Hw Hr. induction w as [|c w IH]; cbn [app].
  - destruct rest as [|c r]; [split; reflexivity|]. cbn [take_word drop_word]. rewrite Hr. split; reflexivity.
  - cbn in Hw. apply andb_prop in Hw. destruct Hw as [Hc Hw]. apply negb_true_iff in Hc.
    cbn [take_word drop_word]. rewrite Hc. destruct (IH Hw) as [E1 E2]. now rewrite E1, E2.
Qed.
Lemma spaces_succ n : spaces (S n) = spaces n ++ [sp].
Proof. unfold spaces. induction n; [reflexivity|]. cbn [repeat app]. now rewrite <- IHn. Qed.
Lemma spaces_length n : length (spaces n) = n.
Proof. apply repeat_length. Qed.

(* the key line of a feature *)
Section key_line.
  Variables (key c0 : str).
  Hypothesis Hk1 : key <> [].
  Hypothesis Hk2 : nows key = true.
  Hypothesis Hk3 : (length key <= 15)%nat.
  Hypothesis Hc1 : c0 <> [].
  Hypothesis Hc2 : nows c0 = true.
  Let A := spaces 5 ++ key ++ spaces (15 - length key).
  Let L0 := spaces 5 ++ pad_right 16 key ++ c0.
  Lemma L0_split : L0 = A ++ sp :: c0.
  Proof.
    unfold L0, A, pad_right. replace (16 - length key)%nat with (S (15 - length key)) by lia.
    rewrite (spaces_succ (15 - length key)). rewrite <- !app_assoc. reflexivity.
  Qed.
  Lemma A_length : length A = 20%nat.
  Proof. unfold A. rewrite !app_length, !spaces_length. lia. Qed.
  Lemma firstn20_L0 : firstn 20 L0 = A.
  Proof. rewrite L0_split. rewrite <- A_length. apply firstn_length_app. Qed.
  Lemma lstrip_key x : lstrip (key ++ x) = key ++ x.
  Proof. destruct (nows_head key Hk1 Hk2) as (c & r & E & Hc). rewrite E. cbn [app]. apply lstrip_head. exact Hc. Qed.
  Lemma strip_A : strip A = key.
  Proof.
    unfold strip, A. rewrite lstrip_spaces, lstrip_key, rstrip_app_spaces. apply rstrip_no_ws. exact Hk2.
  Qed.
  Lemma blank_A : is_blank A = false.
  Proof.
    unfold is_blank, A. rewrite lstrip_spaces, lstrip_key. destruct key; [congruence|reflexivity].
  Qed.
  Lemma first_word_key : first_word key = Some key.
  Proof.
    unfold first_word. rewrite <- (app_nil_r key) at 1. rewrite lstrip_key.
    destruct (take_word_app key [] Hk2 eq_refl) as [E _]. rewrite E. destruct key; [congruence|reflexivity].
  Qed.
  Lemma strip_L0 : strip L0 = key ++ spaces (16 - length key) ++ c0.
  Proof.
    unfold strip, L0, pad_right. rewrite lstrip_spaces. rewrite <- app_assoc. rewrite lstrip_key.
    rewrite app_assoc. rewrite rstrip_app_nows by assumption. now rewrite <- app_assoc.
  Qed.
  Lemma rest_L0 : rest_after_first (strip L0) = Some c0.
  Proof.
    rewrite strip_L0. unfold rest_after_first. rewrite lstrip_key.
    assert (Hs : (match spaces (16 - length key) ++ c0 with [] => true | c :: _ => is_ws c end) = true).
    { replace (16 - length key)%nat with (S (15 - length key)) by lia. reflexivity. }
    destruct (take_word_app key _ Hk2 Hs) as [_ E]. rewrite E. rewrite lstrip_spaces.
    destruct (nows_head c0 Hc1 Hc2) as (c & r & Ec & Hc). rewrite Ec. rewrite lstrip_head by exact Hc. reflexivity.
  Qed.

  Lemma step_key_line excl s : mem k_fts excl = false -> fttype s = None -> str_eqb (lower key) k_origin = false ->
    step_fts excl s L0 = ROk (set_ft s (fts s) (Some key) (Some []) (Some None) (Some c0)).
  Proof.
    intros He Hf Ho. unfold step_fts. rewrite He. rewrite firstn20_L0, blank_A. cbn [negb].
    unfold flush. rewrite Hf. rewrite strip_A, first_word_key, Ho, rest_L0. reflexivity.
  Qed.
End key_line.

(* a continuation line of the location *)
Lemma firstn20_cont c : firstn 20 (spaces 21 ++ c) = spaces 20.
Proof.
  change (spaces 21) with (spaces 20 ++ [sp]). rewrite <- app_assoc.
  change 20%nat with (length (spaces 20)) at 1. apply firstn_length_app.
Qed.
Lemma strip_cont c : c <> [] -> nows c = true -> strip (spaces 21 ++ c) = c.
Proof.
  intros H1 H2. unfold strip. rewrite lstrip_spaces.
  destruct (nows_head c H1 H2) as (x & r & E & Hx). rewrite E at 1. rewrite lstrip_head by exact Hx. rewrite <- E.
  apply rstrip_no_ws. exact H2.
Qed.
Lemma step_cont_line excl s lc c : mem k_fts excl = false -> key2 s = Some None -> locs s = Some lc -> good_chunk c = true ->
  step_fts excl s (spaces 21 ++ c) = ROk (set_ft s (fts s) (fttype s) (ftmeta s) (key2 s) (Some (lc ++ c))).
Proof.
  intros He Hk Hl Hg. unfold good_chunk in Hg. apply andb_prop in Hg. destruct Hg as [Hg H3]. apply andb_prop in Hg. destruct Hg as [H1 H2].
  assert (Hne : c <> []) by (destruct c; [discriminate|discriminate]).
  unfold step_fts. rewrite He. rewrite firstn20_cont. change (is_blank (spaces 20)) with true. cbn [negb].
  rewrite strip_cont by assumption. destruct c as [|x r]; [congruence|]. apply negb_true_iff in H3. rewrite H3.
  rewrite Hk, Hl. reflexivity.
Qed.


Lemma steps_cont excl cs : mem k_fts excl = false -> forallb good_chunk cs = true ->
  forall s lc, key2 s = Some None -> locs s = Some lc ->
  steps excl s (map (fun x => spaces 21 ++ x) cs) = ROk (set_ft s (fts s) (fttype s) (ftmeta s) (key2 s) (Some (lc ++ concat cs))).
Proof.
  intros He. induction cs as [|c r IH]; cbn [forallb map steps concat]; intros Hg s lc Hk Hl.
  - rewrite app_nil_r. destruct s; cbn in *. subst. reflexivity.
  - apply andb_prop in Hg. destruct Hg as [Hc Hr]. rewrite (step_cont_line excl s lc c He Hk Hl Hc).
    rewrite (IH Hr _ (lc ++ c)) by (cbn; (exact Hk || reflexivity)). cbn. now rewrite <- app_assoc.
Qed.

(* the feature-table part for key + location: general statement, any number of wrapped lines *)
Lemma feature_loc_lines excl s key e cs :
  mem k_fts excl = false -> fttype s = None ->
  key <> [] -> nows key = true -> (length key <= 15)%nat -> str_eqb (lower key) k_origin = false ->
  wf_lexp e = true -> one_strand (sem e) = true ->
  forallb good_chunk cs = true -> concat cs = print e ->
  exists s1 s2, steps excl s (loc_lines key cs) = ROk s1 /\ flush s1 = ROk s2
    /\ fts s2 = fts s ++ [mkfeat key (sort_locs (sem e)) [] None] /\ fttype s2 = None /\ mode s2 = mode s.
Proof.
  intros He Hf Hk1 Hk2 Hk3 Ho W Hs Hg Hc.
  destruct cs as [|c0 r].
  - exfalso. cbn in Hc. pose proof (parse_print_loc_str e W) as P. rewrite <- Hc in P. vm_compute in P. discriminate P.
  - cbn [forallb] in Hg. apply andb_prop in Hg. destruct Hg as [Hg0 Hgr].
    pose proof Hg0 as Hg0'. unfold good_chunk in Hg0'. apply andb_prop in Hg0'. destruct Hg0' as [Hg0' _]. apply andb_prop in Hg0'.
    destruct Hg0' as [Hn0 Hw0]. assert (Hc0 : c0 <> []) by (destruct c0; [discriminate|discriminate]).
    cbn [loc_lines steps]. rewrite (step_key_line key c0 Hk1 Hk2 Hk3 Hc0 Hw0 excl s He Hf Ho).
    rewrite (steps_cont excl r He Hgr _ c0) by reflexivity.
    cbn [concat] in Hc. rewrite Hc.
    eexists. eexists. split; [reflexivity|]. unfold flush. cbn [fttype locs set_ft].
    rewrite (parse_print_loc_str e W), (mk_loctuple_sem _ Hs). split; [reflexivity|]. cbn. repeat split; reflexivity.
Qed.

(* the pieces wrap_at cuts a printed location into are good chunks *)
Lemma forallb_cons_head {P : byte -> bool} c l : l <> [] -> forallb (forallb P) (cons_head c l) = P c && forallb (forallb P) l.
Proof. destruct l as [|h t]; [congruence|]. intros _. cbn. now rewrite andb_assoc. Qed.
Lemma forallb_firstn {A} (P : A -> bool) n l : forallb P l = true -> forallb P (firstn n l) = true.
Proof. revert l; induction n as [|n IH]; intros [|x l]; cbn; try reflexivity. intros H. apply andb_prop in H. destruct H as [H1 H2]. now rewrite H1, IH. Qed.
Lemma forallb_skipn {A} (P : A -> bool) n l : forallb P l = true -> forallb P (skipn n l) = true.
Proof. revert l; induction n as [|n IH]; intros [|x l]; cbn; try reflexivity; [tauto|]. intros H. apply andb_prop in H. destruct H as [H1 H2]. now apply IH. Qed.
Lemma wrap_at_forallb (P : byte -> bool) s w : forallb P s = true -> forallb (forallb P) (wrap_at s w) = true.
Proof.
  revert s. induction w as [|n w IH]; intros s H; cbn [wrap_at]; [cbn; now rewrite H|].
  destruct ((n =? 0)%nat || (length s <=? n)%nat); [cbn; now rewrite H|].
  cbn [forallb]. rewrite forallb_firstn by exact H. apply IH. apply forallb_skipn. exact H.
Qed.
Lemma cons_head_nonempty_all c l : l <> [] -> forallb nonempty l = true -> forallb nonempty (cons_head c l) = true.
Proof.
  destruct l as [|h t]; [congruence|]. intros _ H. cbn [forallb] in H. apply andb_prop in H. destruct H as [_ H].
  cbn [cons_head forallb nonempty andb]. exact H.
Qed.
(* every piece is non-empty (break points lie strictly inside the text) *)
Lemma wrap_at_nonempty_chunks s w : s <> [] -> forallb nonempty (wrap_at s w) = true.
Proof.
  revert s. induction w as [|n w IH]; intros s Hs; cbn [wrap_at].
  - destruct s; [congruence|reflexivity].
  - destruct ((n =? 0)%nat || (length s <=? n)%nat) eqn:E; [destruct s; [congruence|reflexivity]|].
    apply orb_false_iff in E. destruct E as [E1 E2]. apply Nat.eqb_neq in E1. apply Nat.leb_gt in E2.
    cbn [forallb]. rewrite IH.
    + destruct n; [lia|]. destruct s; [cbn in E2; lia|reflexivity].
    + intros E. apply (f_equal (@length byte)) in E. rewrite skipn_length in E. cbn in E. lia.
Qed.

Lemma digits_last n : all_digits n = true -> exists s c, n = s ++ [c] /\ c <> ","%byte.
Proof.
  intros H. destruct (all_digits_forall n H) as [Hd Hn].
  exists (removelast n), (last n "0"%byte). split; [apply app_removelast_last; exact Hn|].
  intros E. assert (Hin : In (last n "0"%byte) n).
  { rewrite (app_removelast_last "0"%byte Hn) at 2. apply in_or_app. right. left. reflexivity. }
  rewrite forallb_forall in Hd. specialize (Hd _ Hin). rewrite E in Hd. discriminate Hd.
Qed.
Lemma ends_app (x n : str) : (exists s c, n = s ++ [c] /\ c <> ","%byte) -> exists s c, x ++ n = s ++ [c] /\ c <> ","%byte.
Proof. intros (s & c & E & H). exists (x ++ s), c. split; [rewrite E; now rewrite app_assoc|exact H]. Qed.
Lemma print_last e : wf_lexp e = true -> exists s c, print e = s ++ [c] /\ c <> ","%byte.
Proof.
  destruct e as [lt gt n|lt a gt b|a b|a b|e|es|es]; cbn [wf_lexp print]; intros W.
  - repeat (apply andb_prop in W; destruct W as [W ?]). rewrite app_assoc. apply ends_app, digits_last. assumption.
  - repeat (apply andb_prop in W; destruct W as [W ?]). rewrite !app_assoc. apply ends_app, digits_last. assumption.
  - repeat (apply andb_prop in W; destruct W as [W ?]). rewrite !app_assoc. apply ends_app, digits_last. assumption.
  - repeat (apply andb_prop in W; destruct W as [W ?]). rewrite !app_assoc. apply ends_app, digits_last. assumption.
  - exists (kw_complement ++ "("%byte :: print e), ")"%byte. split; [now rewrite <- app_assoc|discriminate].
  - exists (kw_join ++ "("%byte :: join comma (map print es)), ")"%byte. split; [now rewrite <- app_assoc|discriminate].
  - exists (kw_order ++ "("%byte :: join comma (map print es)), ")"%byte. split; [now rewrite <- app_assoc|discriminate].
Qed.

Lemma forallb_and {A} (f g : A -> bool) l : forallb f l = true -> forallb g l = true -> forallb (fun x => f x && g x) l = true.
Proof. induction l; cbn; [reflexivity|]. intros H1 H2. apply andb_prop in H1. apply andb_prop in H2. destruct H1, H2. now rewrite H, H1, IHl. Qed.

Lemma wrapped_chunks_good e w : wf_lexp e = true -> forallb good_chunk (wrap_at (print e) w) = true.
Proof.
  intros W.
  assert (H1 : forallb nonempty (wrap_at (print e) w) = true).
  { destruct (print_last e W) as (s & c & E & Hc). apply wrap_at_nonempty_chunks.
    rewrite E. destruct s; discriminate. }
  assert (H2 : forallb (forallb (fun c => negb (is_ws c) && negb (byte_eqb "/" c))) (wrap_at (print e) w) = true).
  { apply wrap_at_forallb. apply print_forallb; [|reflexivity|exact W]. intros c Hc. rewrite digit_not_ws by exact Hc.
    destruct c; try reflexivity; vm_compute in Hc; discriminate Hc. }
  revert H1 H2. generalize (wrap_at (print e) w). intros l. induction l as [|c r IH]; cbn [forallb]; [reflexivity|].
  intros H1 H2. apply andb_prop in H1. apply andb_prop in H2. destruct H1 as [Hn H1], H2 as [Hp H2]. rewrite (IH H1 H2), andb_true_r.
  unfold good_chunk. rewrite Hn. cbn [andb].
  assert (nows c = true) as ->.
  { unfold nows. eapply forallb_impl; [|exact Hp]. intros x Hx. apply andb_prop in Hx. tauto. }
  cbn [andb]. destruct c as [|x c']; [reflexivity|]. cbn [forallb] in Hp. apply andb_prop in Hp. destruct Hp as [Hx _].
  apply andb_prop in Hx. tauto.
Qed.

Lemma render_feat_split f :
  render_feat f = loc_lines (akey f) (wrap_at (print (aloc f)) (awrap f)) ++ flat_map render_qual (aquals f).
Proof. reflexivity. Qed.

(* the general statement for the key + location lines that render_feat writes, wrapped at any commas *)
Lemma feature_table_locs excl s key e w :
  mem k_fts excl = false -> fttype s = None ->
  key <> [] -> nows key = true -> (length key <= 15)%nat -> str_eqb (lower key) k_origin = false ->
  wf_lexp e = true -> one_strand (sem e) = true ->
  exists s1 s2, steps excl s (loc_lines key (wrap_at (print e) w)) = ROk s1 /\ flush s1 = ROk s2
    /\ fts s2 = fts s ++ [mkfeat key (sort_locs (sem e)) [] None] /\ fttype s2 = None /\ mode s2 = mode s.
Proof.
  intros. apply feature_loc_lines; try assumption; [apply wrapped_chunks_good; assumption|apply wrap_concat].
Qed.
