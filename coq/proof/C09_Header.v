(* C09 proofs, part 10: header persistence.  The header written by FastaIndex.add and parsed by _read_header when an
   index is opened again gives back the path and the file list IN REGISTRATION ORDER, in both modes. *)
From Coq Require Import List Arith Lia ZArith NArith Bool.
From Coq.Strings Require Import Byte.
Import ListNotations.
From SV Require Import Text C09_Model C09_Lemmas C09_Extract C09_Record C09_Parse.

Lemma split_aux_none c : forall x cur, no_byte c x = true -> split_on_aux c cur x = [rev cur ++ x].
Proof.
  induction x as [|a x IH]; intros cur H; [cbn; rewrite app_nil_r; reflexivity|].
  cbn [no_byte forallb] in H. apply andb_prop in H. destruct H as [Ha Hx]. cbn [split_on_aux].
  destruct (byte_eqb a c); [discriminate|]. rewrite (IH (a :: cur) Hx). cbn [rev]. rewrite <- app_assoc. reflexivity.
Qed.
Lemma split_aux_sep c : forall x cur rest, no_byte c x = true ->
  split_on_aux c cur (x ++ c :: rest) = (rev cur ++ x) :: split_on_aux c [] rest.
Proof.
  induction x as [|a x IH]; intros cur rest H.
  - cbn [app split_on_aux]. rewrite byte_eqb_refl, app_nil_r. reflexivity.
  - cbn [no_byte forallb] in H. apply andb_prop in H. destruct H as [Ha Hx]. cbn [app split_on_aux].
    destruct (byte_eqb a c); [discriminate|]. rewrite (IH (a :: cur) rest Hx). cbn [rev]. rewrite <- app_assoc. reflexivity.
Qed.

(* str.split undoes str.join when no part contains the separator *)
Theorem split_join c : forall xs, xs <> [] -> forallb (no_byte c) xs = true -> split_on c (join_with c xs) = xs.
Proof.
  induction xs as [|x xs IH]; intros Hne H; [congruence|].
  cbn [forallb] in H. apply andb_prop in H. destruct H as [Hx Hxs]. unfold split_on in *.
  destruct xs as [|y ys].
  - cbn [join_with]. rewrite (split_aux_none c x [] Hx). reflexivity.
  - change (join_with c (x :: y :: ys)) with (x ++ c :: join_with c (y :: ys)).
    rewrite (split_aux_sep c x [] _ Hx). cbn [rev app]. rewrite IH by (try discriminate; exact Hxs). reflexivity.
Qed.

Lemma no_byte_app c a b : no_byte c (a ++ b) = no_byte c a && no_byte c b.
Proof. apply forallb_app. Qed.
Lemma no_byte_join c d : byte_eqb d c = false -> forall xs, forallb (no_byte c) xs = true -> no_byte c (join_with d xs) = true.
Proof.
  intros Hd. induction xs as [|x xs IH]; intros H; [reflexivity|].
  cbn [forallb] in H. apply andb_prop in H. destruct H as [Hx Hxs]. destruct xs as [|y ys]; [exact Hx|].
  change (join_with d (x :: y :: ys)) with (x ++ d :: join_with d (y :: ys)).
  rewrite no_byte_app, Hx. cbn [no_byte forallb]. rewrite Hd. cbn [negb andb]. apply IH. exact Hxs.
Qed.

(* white space appended to a string does not survive str.strip *)
Lemma strip_ws_pad p w : forallb is_ws_str w = true -> strip_ws (p ++ w) = strip_ws p.
Proof.
  intros Hw. unfold strip_ws. rewrite lstrip_ws_app. destruct (lstrip_ws p) as [|a l] eqn:E.
  - rewrite (lstrip_ws_allws w Hw). reflexivity.
  - rewrite rev_app_distr, lstrip_ws_app, (lstrip_ws_allws (rev w)) by (apply forallb_rev; exact Hw). reflexivity.
Qed.

Lemma wf_name_parts s : wf_name s = true -> no_byte COMMA s = true /\ no_byte LF s = true /\ strip_ws s = s.
Proof.
  unfold wf_name. intros H. apply andb_prop in H. destruct H as [H H3]. apply andb_prop in H. destruct H as [H1 H2].
  apply str_eqb_eq in H3. auto.
Qed.

Lemma forallb_map_id (f : str -> str) l : (forall x, In x l -> f x = x) -> map f l = l.
Proof. induction l as [|a l IH]; intros H; [reflexivity|]. cbn [map]. rewrite (H a (or_introl eq_refl)), IH; [reflexivity|]. intros x Hx. apply H. right. exact Hx. Qed.

(* "also after the index is reopened": the file list a reopened index works with is the registration list of the index
   that wrote the header, and the path is the same, in both modes *)
Theorem header_roundtrip mode headerstart path files : wf_header mode headerstart path files = true ->
  read_header mode (stored_header mode headerstart path files) = Some (path, files).
Proof.
  unfold wf_header. intros H. apply andb_prop in H. destruct H as [H _]. apply andb_prop in H. destruct H as [H Hhs]. apply andb_prop in H. destruct H as [H Hfs].
  apply andb_prop in H. destruct H as [Hm Hp].
  destruct (wf_name_parts _ Hp) as [P1 [P2 P3]].
  assert (F1: forallb (no_byte COMMA) files = true /\ forallb (no_byte LF) files = true /\ forall x, In x files -> strip_ws x = x).
  { rewrite forallb_forall in Hfs. repeat split; try (rewrite forallb_forall; intros x Hx); try intros x Hx; apply (wf_name_parts x (Hfs x Hx)). }
  destruct F1 as [F1 [F2 F3]].
  unfold read_header, stored_header, header_bytes.
  destruct (N.eqb mode MODE_BINARY) eqn:Em.
  - (* binary: headerstart = hs0 ++ [LF] *)
    destruct (rev headerstart) as [|x r] eqn:Er; [discriminate|]. apply andb_prop in Hhs. destruct Hhs as [Hx Hr].
    apply byte_eqb_eq in Hx. subst x.
    assert (Ehs: headerstart = rev r ++ [LF]) by (rewrite <- (rev_involutive headerstart), Er; reflexivity).
    assert (Hr': no_byte LF (rev r) = true) by (apply forallb_rev; exact Hr).
    set (hb := join_with COMMA ((path ++ spaces50) :: files)).
    assert (Hhb: no_byte LF hb = true).
    { apply no_byte_join; [reflexivity|]. cbn [forallb]. rewrite no_byte_app, P2, F2. reflexivity. }
    rewrite Ehs, <- app_assoc. change ([LF] ++ hb) with (LF :: hb).
    pose proof (split_join LF [rev r; hb] ltac:(discriminate)) as SJ. cbn [join_with forallb] in SJ.
    rewrite SJ by (rewrite Hr', Hhb; reflexivity).
    unfold hb. rewrite split_join; [|discriminate|cbn [forallb]; rewrite no_byte_app, P1, F1; reflexivity].
    cbn [map]. rewrite strip_ws_pad by reflexivity. rewrite P3, (forallb_map_id strip_ws files F3). reflexivity.
  - rewrite split_join; [reflexivity|discriminate|cbn [forallb]; rewrite P1, F1; reflexivity].
Qed.
