(* C18 proofs, object model: what the in-place operations on a basket do to the ELEMENT OBJECTS and to the metadata object:
   element-wise transformations keep the same objects in the same order, sort gives a permutation, filter(inplace) a selection
   in order, += the old elements followed by the operand's; the metadata object is kept. *)
From Coq Require Import List ZArith NArith Bool Lia Permutation.
From Coq.Strings Require Import Byte.
Import ListNotations.
From SV Require Import Text G_attr G_codes C18_Model C18_Heap C18_Lemmas C18_HeapLemmas C18_HeapOps C18_Obj C18_ObjLemmas.

Inductive sublist {A} : list A -> list A -> Prop :=
| sl_nil : sublist [] []
| sl_skip x l1 l2 : sublist l1 l2 -> sublist l1 (x :: l2)
| sl_keep x l1 l2 : sublist l1 l2 -> sublist (x :: l1) (x :: l2).
Lemma sublist_filter_map {A B} (f : A -> B) p (l : list A) : sublist (map f (filter p l)) (map f l).
Proof. induction l as [|x r IH]; cbn; [constructor|]. destruct (p x); cbn; constructor; exact IH. Qed.

Lemma insert_by_perm {A} (key : A -> Z) x l : Permutation (insert_by key x l) (x :: l).
Proof.
  induction l as [|y r IH]; cbn; [apply Permutation_refl|]. destruct (Z.ltb (key x) (key y)); [apply Permutation_refl|].
  eapply perm_trans; [apply perm_skip; exact IH|apply perm_swap].
Qed.
Lemma sort_by_perm {A} (key : A -> Z) (l : list A) : Permutation (sort_by key l) l.
Proof.
  unfold sort_by. assert (forall acc, Permutation (fold_left (fun acc x => insert_by key x acc) l acc) (acc ++ l)) as H.
  { induction l as [|x r IH]; intros acc; cbn; [rewrite app_nil_r; apply Permutation_refl|].
    eapply perm_trans; [apply IH|]. eapply perm_trans; [apply Permutation_app_tail; apply insert_by_perm|].
    cbn. apply Permutation_middle. }
  apply (H []).
Qed.

(* reading changes nothing and hands the program the cells behind the values, in order *)
Lemma interp_read_all k : forall vs acc kn h res, interp (read_all vs acc k) kn h = inl res ->
  exists cs kn', map fst cs = vs /\ interp (k (rev acc ++ cs)) kn' h = inl res.
Proof.
  induction vs as [|v r IH]; intros acc kn h res E; cbn [read_all] in E.
  - exists [], kn. rewrite app_nil_r. auto.
  - apply interp_rd in E. destruct E as (l & c & -> & N & Hl & E). apply IH in E. destruct E as (cs & kn' & M & E).
    exists ((HRef l, c) :: cs), kn'. split; [cbn; f_equal; exact M|]. cbn [rev] in E. rewrite <- app_assoc in E. exact E.
Qed.
Lemma interp_write_ret l c v kn h h' r : interp (Write l c (Ret v)) kn h = inl (h', r) -> h' = set_nth h l c /\ l < length h /\ r = v.
Proof.
  cbn [interp]. destruct (memb l kn && subsetb (ocell_refs c) kn && Nat.ltb l (length h)) eqn:G; [|discriminate].
  apply andb_prop in G. destruct G as [_ L]. apply Nat.ltb_lt in L. destruct (val_known kn v); [|discriminate].
  intros E. inversion E. auto.
Qed.
(* an element-wise loop over sequences writes sequence cells only *)
Lemma interp_foreach_seq g v : forall vs kn h h' r, interp (foreach vs (seq_map g) (Ret v)) kn h = inl (h', r) ->
  forall l c, nth_error h l = Some c -> ocls c <> KSeq -> nth_error h' l = Some c.
Proof.
  induction vs as [|x vs IH]; intros kn h h' r E l c N NS; cbn [foreach] in E.
  - cbn [interp] in E. destruct (val_known kn v); [|discriminate]. inversion E; subst. exact N.
  - apply interp_rd in E. destruct E as (l0 & c0 & -> & N0 & Hl & E).
    destruct (seq_map g c0) as [c0'|] eqn:SM; [|discriminate]. cbn [interp] in E.
    destruct (_ && _); [|discriminate]. eapply IH; [exact E| |exact NS].
    rewrite nth_error_set_nth_other; [exact N|]. intros ->. rewrite N0 in N. inversion N; subst.
    unfold seq_map, seq_data in SM. destruct (ocls c) eqn:K; try discriminate. apply NS. reflexivity.
Qed.

Definition elems_rel (f : ifn) (new old : list hval) : Prop :=
  match f with
  | FReverse | FLower | FUpper | FComplement | FRc => new = old
  | FSortLen => Permutation new old
  | FFilterLen _ => sublist new old
  | FIaddLit _ => False
  end.

Theorem inplace_elements d f j q s s' r l c : ostep (OInpl d f j q) s = inl (s', r) ->
  onav_pure (fst s) (oreg s j) q = Some (HRef l) -> nth_error (fst s) l = Some c -> ocls c = KBasket ->
  exists c', nth_error (fst s') l = Some c' /\ ocls c' = KBasket /\ ofs c' = ofs c /\ elems_rel f (oes c') (oes c).
Proof.
  unfold ostep. cbn [op_regs op_cmd op_dst map nth]. destruct (interp _ _ _) as [[h' r']|e] eqn:E; [|discriminate].
  intros X P N K. inversion X; subst. clear X. cbn [fst]. apply interp_onav in E. destruct E as (v' & kn' & P' & E & _).
  rewrite P in P'. inversion P'; subst v'. clear P'. apply interp_rd in E. destruct E as (l0 & c0 & L0 & N0 & Hl & E).
  inversion L0; subst l0. rewrite N in N0. inversion N0; subst c0. clear L0 N0.
  unfold inplace_cmd in E. rewrite K in E. destruct f; cbn [seq_fn] in E.
  - exists c. split; [eapply interp_foreach_seq; [exact E|exact N|congruence]|]. cbn. auto.
  - exists c. split; [eapply interp_foreach_seq; [exact E|exact N|congruence]|]. cbn. auto.
  - exists c. split; [eapply interp_foreach_seq; [exact E|exact N|congruence]|]. cbn. auto.
  - exists c. split; [eapply interp_foreach_seq; [exact E|exact N|congruence]|]. cbn. auto.
  - exists c. split; [eapply interp_foreach_seq; [exact E|exact N|congruence]|]. cbn. auto.
  - discriminate.
  - apply interp_read_all in E. destruct E as (cs & kn2 & M & E). cbn [rev app] in E.
    destruct (all_some len_of cs); [|discriminate]. apply interp_write_ret in E. destruct E as (-> & L & _).
    eexists. split; [apply nth_error_set_nth_same; exact L|]. cbn [set_elems ocls ofs oes]. repeat split; auto.
    cbn. rewrite <- M. apply Permutation_map. apply sort_by_perm.
  - apply interp_read_all in E. destruct E as (cs & kn2 & M & E). cbn [rev app] in E.
    destruct (all_some len_of cs); [|discriminate]. apply interp_write_ret in E. destruct E as (-> & L & _).
    eexists. split; [apply nth_error_set_nth_same; exact L|]. cbn [set_elems ocls ofs oes]. repeat split; auto.
    cbn. rewrite <- M. apply sublist_filter_map.
Qed.

(* container += other: the old element objects followed by the operand's element objects; returns the receiver *)
Theorem extend_elements d j q j2 q2 s s' r : ostep (OBin d BExtend j q j2 q2) s = inl (s', r) ->
  exists l l2 c c2, onav_pure (fst s) (oreg s j) q = Some (HRef l) /\ onav_pure (fst s) (oreg s j2) q2 = Some (HRef l2) /\
    nth_error (fst s) l = Some c /\ nth_error (fst s) l2 = Some c2 /\ r = HRef l /\
    nth_error (fst s') l = Some (set_elems c (oes c ++ oes c2)).
Proof.
  unfold ostep. cbn [op_regs op_cmd op_dst map nth]. destruct (interp _ _ _) as [[h' r']|e] eqn:E; [|discriminate].
  intros X. inversion X; subst. clear X. cbn [fst]. apply interp_onav in E. destruct E as (a & kn1 & P1 & E & _).
  apply interp_onav in E. destruct E as (b & kn2 & P2 & E & _). cbn [bin_cmd] in E.
  apply interp_rd in E. destruct E as (l & c & -> & N & _ & E). apply interp_rd in E. destruct E as (l2 & c2 & -> & N2 & _ & E).
  exists l, l2, c, c2. repeat (split; [assumption|]).
  destruct (ocls c), (ocls c2); try discriminate; apply interp_write_ret in E; destruct E as (-> & L & ->);
    (split; [reflexivity|apply nth_error_set_nth_same; exact L]).
Qed.

(* non-vacuity: sort really permutes the element objects of the receiver *)
Lemma demo_sort : let s := oexec [ONew 0 demo_basket] oinit in
  exists s' l c c', ostep (OInpl None FSortLen 0 []) s = inl (s', HRef l) /\ oreg s 0 = HRef l /\ nth_error (fst s) l = Some c /\
    ocls c = KBasket /\ nth_error (fst s') l = Some c' /\ oes c' = rev (oes c) /\ length (oes c) = 2.
Proof. cbn zeta. do 4 eexists. split; [vm_compute; reflexivity|]. split; [vm_compute; reflexivity|]. split; [vm_compute; reflexivity|].
  split; [reflexivity|]. split; [vm_compute; reflexivity|]. split; vm_compute; reflexivity. Qed.
