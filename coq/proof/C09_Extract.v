(* C09 proofs, part 2: _extract_seqdata on a file  pre ++ header line ++ body ++ post. *)
From Coq Require Import List Arith Lia ZArith NArith Bool.
From Coq.Strings Require Import Byte.
Import ListNotations.
From SV Require Import Text C09_Model C09_Lemmas.

Definition notGT (c : byte) : bool := negb (byte_eqb c GT).
Definition notLF (c : byte) : bool := negb (byte_eqb c LF).
Definition isnl (c : byte) : bool := byte_eqb c LF || byte_eqb c CR.
Definition nonnl (c : byte) : bool := negb (isnl c).

(* ------------------------------------------------------------------ small list facts *)
Lemma skipn_app_plus {A} (a b : list A) k : skipn (length a + k) (a ++ b) = skipn k b.
Proof.
  rewrite skipn_app. rewrite skipn_all2 by lia. cbn [app]. f_equal. lia.
Qed.
Lemma skipn_app_len {A} (a b : list A) : skipn (length a) (a ++ b) = b.
Proof. rewrite <- (Nat.add_0_r (length a)). rewrite skipn_app_plus. reflexivity. Qed.

Lemma forallb_skipn {A} (p : A -> bool) l k : forallb p l = true -> forallb p (skipn k l) = true.
Proof.
  intros H. rewrite forallb_forall in *. intros x Hx. apply H.
  rewrite <- (firstn_skipn k l). apply in_or_app. right. exact Hx.
Qed.
Lemma forallb_firstn {A} (p : A -> bool) l k : forallb p l = true -> forallb p (firstn k l) = true.
Proof.
  intros H. rewrite forallb_forall in *. intros x Hx. apply H.
  rewrite <- (firstn_skipn k l). apply in_or_app. left. exact Hx.
Qed.

Lemma firstn_split {A} (l : list A) a b : a <= b -> firstn b l = firstn a l ++ firstn (b - a) (skipn a l).
Proof.
  intros H. destruct (le_lt_dec a (length l)) as [Ha|Ha].
  - rewrite <- (firstn_skipn a l) at 1. rewrite firstn_app.
    rewrite firstn_length_le by lia. f_equal. apply firstn_all2. rewrite firstn_length_le; lia.
  - rewrite (skipn_all2 l) by lia. rewrite firstn_nil, app_nil_r. rewrite !firstn_all2 by lia. reflexivity.
Qed.

Lemma take_line_app t rest : forallb notLF t = true -> take_line (t ++ LF :: rest) = t ++ [LF].
Proof.
  induction t as [|c t IH]; intros H.
  - reflexivity.
  - simpl in *. apply andb_prop in H. destruct H as [Hc Ht]. unfold notLF in Hc.
    destruct (byte_eqb c LF); [discriminate|]. rewrite IH by assumption. reflexivity.
Qed.
Lemma take_line_nolf t : forallb notLF t = true -> take_line t = t.
Proof.
  induction t as [|c t IH]; intros H; [reflexivity|].
  simpl in *. apply andb_prop in H. destruct H as [Hc Ht]. unfold notLF in Hc.
  destruct (byte_eqb c LF); [discriminate|]. rewrite IH by assumption. reflexivity.
Qed.

Lemma find_b_none t : forallb notGT t = true -> find_b GT t = None.
Proof.
  induction t as [|c t IH]; intros H; [reflexivity|].
  simpl in *. apply andb_prop in H. destruct H as [Hc Ht]. unfold notGT in Hc.
  destruct (byte_eqb c GT); [discriminate|]. rewrite IH by assumption. reflexivity.
Qed.
Lemma find_b_app t u : forallb notGT t = true ->
  find_b GT (t ++ u) = option_map (Nat.add (length t)) (find_b GT u).
Proof.
  induction t as [|c t IH]; intros H.
  - simpl. destruct (find_b GT u); reflexivity.
  - simpl in *. apply andb_prop in H. destruct H as [Hc Ht]. unfold notGT in Hc.
    destruct (byte_eqb c GT); [discriminate|]. rewrite IH by assumption.
    destruct (find_b GT u); reflexivity.
Qed.

(* ------------------------------------------------------------------ the file around one record *)
Section Around.
Variables pre hrest nl W post : str.
Hypothesis nl_cases : nl = [LF] \/ nl = [CR; LF].
Hypothesis hrest_ok : forallb nonnl hrest = true.
Hypothesis W_noGT : forallb notGT W = true.
Hypothesis post_ok : post = [] \/ exists p, post = GT :: p.

Definition hl : str := GT :: hrest ++ nl.
Definition file : str := pre ++ hl ++ W ++ post.
Definition start : nat := length pre.
Definition offset : nat := start + length hl.
Definition nextpos : option nat := match post with [] => None | _ => Some (offset + length W) end.

Lemma nonnl_notLF t : forallb nonnl t = true -> forallb notLF t = true.
Proof.
  intros H. rewrite forallb_forall in *. intros x Hx. specialize (H x Hx).
  unfold nonnl, isnl, notLF in *. destruct (byte_eqb x LF); [discriminate|reflexivity].
Qed.

Lemma readline_start : readline_at file start = hl.
Proof.
  unfold readline_at, file, start. rewrite skipn_app_len. unfold hl.
  pose proof (nonnl_notLF _ hrest_ok) as Hh.
  destruct nl_cases as [-> | ->].
  - replace ((GT :: hrest ++ [LF]) ++ W ++ post) with ((GT :: hrest) ++ LF :: (W ++ post))
      by (cbn [app]; rewrite <- app_assoc; reflexivity).
    rewrite take_line_app; [reflexivity|]. simpl. exact Hh.
  - replace ((GT :: hrest ++ [CR; LF]) ++ W ++ post) with ((GT :: hrest ++ [CR]) ++ LF :: (W ++ post)).
    + rewrite take_line_app.
      * cbn [app]. rewrite <- app_assoc. reflexivity.
      * cbn [forallb]. rewrite forallb_app, Hh. reflexivity.
    + cbn [app]. rewrite <- !app_assoc. reflexivity.
Qed.

Lemma ends_crlf_hl : (if ends_crlf hl then 2 else 1) = length nl.
Proof.
  unfold hl, ends_crlf. destruct nl_cases as [-> | ->].
  - change (GT :: hrest ++ [LF]) with ((GT :: hrest) ++ [LF]). rewrite rev_app_distr.
    remember (GT :: hrest) as h eqn:Eh. cbn [rev app].
    destruct (rev h) as [|b r] eqn:E.
    + reflexivity.
    + assert (Hb: In b (GT :: hrest)) by (rewrite <- Eh; apply in_rev; rewrite E; left; reflexivity).
      assert (byte_eqb b CR = false) as Hcr.
      { destruct Hb as [<-|Hb]; [reflexivity|].
        rewrite forallb_forall in hrest_ok. specialize (hrest_ok b Hb). unfold nonnl, isnl in hrest_ok.
        destruct (byte_eqb b CR); [rewrite orb_true_r in hrest_ok; discriminate|reflexivity]. }
      rewrite byte_eqb_refl, Hcr. reflexivity.
  - replace (GT :: hrest ++ [CR; LF]) with ((GT :: hrest) ++ [CR; LF]) by reflexivity.
    rewrite rev_app_distr. remember (GT :: hrest) as h eqn:Eh. cbn [rev app]. reflexivity.
Qed.

Lemma skipn_offset a : a <= length W -> skipn (offset + a) file = skipn a W ++ post.
Proof.
  intros Ha. unfold offset, start, file.
  rewrite <- Nat.add_assoc, skipn_app_plus, skipn_app_plus.
  rewrite skipn_app. replace (a - length W) with 0 by lia. reflexivity.
Qed.

Lemma find_post : find_b GT post = match post with [] => None | _ => Some 0 end.
Proof.
  destruct post_ok as [-> | [p ->]]; reflexivity.
Qed.

Lemma mfind_open a : a <= length W -> mfind GT file (offset + a) None = nextpos.
Proof.
  intros Ha. unfold mfind. rewrite skipn_offset by assumption.
  rewrite find_b_app by (apply forallb_skipn; exact W_noGT).
  rewrite find_post, skipn_length. unfold nextpos.
  destruct post; cbn [option_map]; [reflexivity|]. f_equal. lia.
Qed.

Lemma nextpos_nil : post = [] -> nextpos = None.
Proof. intros E. unfold nextpos. rewrite E. reflexivity. Qed.
Lemma nextpos_cons p : post = GT :: p -> nextpos = Some (offset + length W).
Proof. intros E. unfold nextpos. rewrite E. reflexivity. Qed.

Lemma recend_W : opt_or (mfind GT file offset None) (length file) - offset = length W.
Proof.
  rewrite <- (Nat.add_0_r offset) at 1. rewrite mfind_open by lia.
  destruct post_ok as [E | [p E]].
  - rewrite (nextpos_nil E). cbn [opt_or]. unfold file, offset, start. rewrite E, !app_length. simpl. lia.
  - rewrite (nextpos_cons p E). cbn [opt_or]. lia.
Qed.

Lemma read_open a : a <= length W ->
  read_at file (offset + a) (option_map (fun k => k - offset - a) nextpos) = skipn a W.
Proof.
  intros Ha. unfold read_at. rewrite skipn_offset by assumption.
  destruct post_ok as [E | [p E]].
  - rewrite (nextpos_nil E), E. cbn [option_map]. apply app_nil_r.
  - rewrite (nextpos_cons p E). cbn [option_map]. rewrite firstn_app. rewrite skipn_length.
    replace (offset + length W - offset - a - (length W - a)) with 0 by lia.
    rewrite firstn_O, app_nil_r. apply firstn_all2. rewrite skipn_length. lia.
Qed.

Lemma read_closed a j1 : a <= length W -> a <= j1 ->
  read_at file (offset + a)
    (let j2 := match mfind GT file (offset + a) (Some (offset + j1)) with Some k => k - offset | None => j1 end in
     if j2 <? a then None else Some (j2 - a))
  = firstn (j1 - a) (skipn a W).
Proof.
  intros Ha Hj. cbv zeta. unfold mfind, read_at. rewrite skipn_offset by assumption.
  replace (offset + j1 - (offset + a)) with (j1 - a) by lia.
  set (V := skipn a W). assert (HV: forallb notGT V = true) by (apply forallb_skipn; exact W_noGT).
  assert (LV: length V = length W - a) by (unfold V; apply skipn_length).
  destruct (le_lt_dec (j1 - a) (length V)) as [Hm|Hm].
  - rewrite firstn_app. replace (j1 - a - length V) with 0 by lia. rewrite firstn_O, app_nil_r.
    rewrite find_b_none by (apply forallb_firstn; exact HV). cbn [option_map].
    destruct (j1 <? a) eqn:E; [apply Nat.ltb_lt in E; lia|].
    rewrite firstn_app. replace (j1 - a - length V) with 0 by lia. rewrite firstn_O, app_nil_r. reflexivity.
  - rewrite firstn_app. rewrite (firstn_all2 V) by lia.
    rewrite find_b_app by exact HV.
    destruct post_ok as [E | [p E]]; rewrite E.
    + rewrite firstn_nil. cbn [find_b option_map].
      destruct (j1 <? a) eqn:E2; [apply Nat.ltb_lt in E2; lia|].
      rewrite ?app_nil_r. rewrite ?(firstn_all2 V) by lia. reflexivity.
    + destruct (j1 - a - length V) as [|m] eqn:Em; [lia|].
      cbn [firstn find_b]. rewrite byte_eqb_refl. cbn [option_map].
      destruct (offset + a + (length V + 0) - offset <? a) eqn:E2; [apply Nat.ltb_lt in E2; lia|].
      replace (offset + a + (length V + 0) - offset - a) with (length V) by lia.
      rewrite firstn_app, Nat.sub_diag, firstn_O, app_nil_r.
      rewrite firstn_all. rewrite ?(firstn_all2 V) by lia. reflexivity.
Qed.

(* header-only and whole-record queries *)
Lemma extract_header linelen : extract file linelen start QHeader = Ok hl.
Proof. unfold extract. rewrite readline_start. reflexivity. Qed.

Hypothesis hrest_noGT : forallb notGT hrest = true.
Hypothesis nl_noGT : forallb notGT nl = true.
Lemma extract_full linelen : extract file linelen start QFull = Ok (hl ++ W).
Proof.
  assert (Hf: file = pre ++ GT :: (hrest ++ nl ++ W) ++ post).
  { unfold file, hl. cbn [app]. rewrite <- !app_assoc. reflexivity. }
  assert (Hr: hl ++ W = GT :: (hrest ++ nl ++ W)) by (unfold hl; cbn [app]; rewrite <- app_assoc; reflexivity).
  rewrite Hr. set (B := hrest ++ nl ++ W) in *.
  assert (HB : forallb notGT B = true) by (unfold B; rewrite !forallb_app, hrest_noGT, nl_noGT, W_noGT; reflexivity).
  unfold extract, mfind, read_at, start. rewrite Hf.
  rewrite skipn_app_len, skipn_app_plus. cbn [skipn].
  rewrite find_b_app by exact HB. rewrite find_post.
  destruct post_ok as [E | [p E]]; rewrite E; cbn [option_map].
  - rewrite app_nil_r. reflexivity.
  - f_equal. replace (length pre + 1 + (length B + 0) - length pre) with (length (GT :: B)) by (cbn [length]; lia).
    change (GT :: B ++ GT :: p) with ((GT :: B) ++ GT :: p).
    rewrite firstn_app, Nat.sub_diag, firstn_O, app_nil_r, firstn_all. reflexivity.
Qed.

(* ---- range queries: [W] is the record's byte region, [s] its residues, [cmp] the newline compensation ---- *)
Variable s : str.
Variable tl : str.
Variable linelen : nat.
Hypothesis Htl : filter nonnl tl = [].
Hypothesis HW : filter nonnl W = s.
Hypothesis Hll : linelen = 0 \/ length nl < linelen.
Definition cmp (x : nat) : nat := if linelen =? 0 then x else x + x / (linelen - length nl) * length nl.
Hypothesis Hcnt : forall x, x <= length s -> filter nonnl (firstn (cmp x) (W ++ tl)) = firstn x s.

Lemma cmp_mono x y : x <= y -> cmp x <= cmp y.
Proof.
  intros H. unfold cmp. destruct (linelen =? 0); [exact H|].
  assert (x / (linelen - length nl) <= y / (linelen - length nl)).
  { destruct (linelen - length nl) eqn:E; [simpl; lia|]. apply Nat.div_le_mono; lia. }
  nia.
Qed.

Lemma filter_firstn_nil (l : str) k : filter nonnl l = [] -> filter nonnl (firstn k l) = [].
Proof.
  revert k. induction l as [|c l IH]; intros k H; destruct k; try reflexivity.
  simpl in *. destruct (nonnl c); [discriminate|]. apply IH. exact H.
Qed.

Lemma cnt_tl c : filter nonnl (firstn c W) = filter nonnl (firstn c (W ++ tl)).
Proof. rewrite firstn_app, filter_app, (filter_firstn_nil tl) by exact Htl. rewrite app_nil_r. reflexivity. Qed.

Lemma cnt_all x : filter nonnl (firstn (cmp x) W) = firstn x s.
Proof.
  destruct (le_lt_dec x (length s)) as [Hx|Hx].
  - rewrite cnt_tl. apply Hcnt. exact Hx.
  - rewrite (firstn_all2 s) by lia.
    pose proof (cmp_mono (length s) x ltac:(lia)) as Hm.
    rewrite (firstn_split W _ _ Hm), filter_app, cnt_tl, Hcnt, firstn_all by lia.
    set (Y := filter nonnl (firstn (cmp x - cmp (length s)) (skipn (cmp (length s)) W))).
    assert (E: s = (s ++ Y) ++ filter nonnl (skipn (cmp x) W)).
    { rewrite <- HW at 1. rewrite <- (firstn_skipn (cmp x) W) at 1. rewrite filter_app. f_equal.
      rewrite (firstn_split W _ _ Hm), filter_app, cnt_tl, Hcnt, firstn_all by lia. reflexivity. }
    apply (f_equal (@length byte)) in E. rewrite !app_length in E.
    destruct Y; [apply app_nil_r|simpl in E; lia].
Qed.

Lemma fin_closed a i0 j : filter nonnl (firstn a W) = firstn i0 s -> i0 <= j -> a <= cmp j ->
  filter nonnl (firstn (cmp j - a) (skipn a W)) = firstn (j - i0) (skipn i0 s).
Proof.
  intros Ha Hij Haj.
  pose proof (cnt_all j) as Hj. rewrite (firstn_split W _ _ Haj), filter_app, Ha in Hj.
  set (X := filter nonnl (firstn (cmp j - a) (skipn a W))) in *.
  assert (EX: X = skipn (length (firstn i0 s)) (firstn j s)) by (rewrite <- Hj; symmetry; apply skipn_app_len).
  rewrite EX. destruct (le_lt_dec i0 (length s)) as [Hi|Hi].
  - rewrite firstn_length_le by lia. apply skipn_firstn_comm.
  - rewrite (firstn_all2 s) by lia. rewrite (firstn_all2 s) by lia. rewrite skipn_all.
    rewrite (skipn_all2 s) by lia. rewrite firstn_nil. reflexivity.
Qed.

Lemma fin_open a i0 : filter nonnl (firstn a W) = firstn i0 s -> filter nonnl (skipn a W) = skipn i0 s.
Proof.
  intros Ha. apply (app_inv_head (firstn i0 s)). rewrite firstn_skipn, <- Ha, <- filter_app, firstn_skipn. exact HW.
Qed.

Definition slice (oi oj : option nat) : str :=
  let i := opt_or oi 0 in
  match oj with Some j => firstn (j - i) (skipn i s) | None => skipn i s end.

Lemma bad_false : negb (linelen =? 0) && (linelen <=? length nl) = false.
Proof.
  destruct Hll as [-> | H]; [reflexivity|].
  destruct (linelen <=? length nl) eqn:E; [apply Nat.leb_le in E; lia|]. apply andb_false_r.
Qed.

(* the clipped start position still counts the same residues *)
Lemma clip_start i1 i0 : filter nonnl (firstn i1 W) = firstn i0 s ->
  let a := if length W <? i1 then length W else i1 in
  a <= length W /\ a <= i1 /\ filter nonnl (firstn a W) = firstn i0 s.
Proof.
  intros H. cbv zeta. destruct (length W <? i1) eqn:E.
  - apply Nat.ltb_lt in E. repeat split; try lia. rewrite firstn_all. rewrite <- H. rewrite firstn_all2 by lia. reflexivity.
  - apply Nat.ltb_ge in E. repeat split; try lia. exact H.
Qed.

Theorem extract_range_slice (oi oj : option nat) :
  (match oi, oj with Some i, Some j => i <= j | _, _ => True end) ->
  exists data,
    extract file linelen start (QRange (option_map Z.of_nat oi) (option_map Z.of_nat oj)) = Ok (hl ++ data)
    /\ filter nonnl data = slice oi oj
    /\ exists a n, data = firstn n (skipn a W).
Proof.
  intros Hij. unfold extract. rewrite readline_start. fold offset. cbv zeta.
  rewrite ends_crlf_hl, bad_false, recend_W. fold cmp.
  set (i0 := opt_or oi 0).
  assert (Hi1: exists i1, (match option_map Z.of_nat oi with
                           | None => Ok 0
                           | Some z => if (z <? 0)%Z then Ok 0 else if false then Err (bs "ZeroDivisionError"%bs)
                                       else Ok ((fun x => if linelen =? 0 then x else x + x / (linelen - length nl) * length nl) (Z.to_nat z))
                           end) = Ok i1 /\ filter nonnl (firstn i1 W) = firstn i0 s /\ i1 <= cmp i0).
  { destruct oi as [i|]; cbn [option_map].
    - exists (cmp i). assert ((Z.of_nat i <? 0)%Z = false) as -> by (apply Z.ltb_ge; lia). rewrite Nat2Z.id.
      split; [reflexivity|]. split; [apply cnt_all|]. unfold i0. cbn [opt_or]. lia.
    - exists 0. split; [reflexivity|]. split; [reflexivity|]. lia. }
  destruct Hi1 as [i1 [-> [Hf1 Hle1]]].
  destruct (clip_start i1 i0 Hf1) as [Ha1 [Ha2 Ha3]].
  set (a := if length W <? i1 then length W else i1) in *.
  destruct oj as [j|]; cbn [option_map].
  - assert ((Z.of_nat j <? 0)%Z = false) as -> by (apply Z.ltb_ge; lia). rewrite Nat2Z.id.
    assert (Hi0j: i0 <= j) by (unfold i0; destruct oi; cbn [opt_or]; lia).
    assert (Haj: a <= cmp j) by (pose proof (cmp_mono i0 j Hi0j); lia).
    exists (firstn (cmp j - a) (skipn a W)). split; [|split].
    + rewrite <- (read_closed a (cmp j) Ha1 Haj). reflexivity.
    + unfold slice. fold i0. apply fin_closed; assumption.
    + exists a, (cmp j - a). reflexivity.
  - exists (skipn a W). split; [|split].
    + rewrite mfind_open by exact Ha1. rewrite (read_open a Ha1). reflexivity.
    + unfold slice. fold i0. apply fin_open. exact Ha3.
    + exists a, (length (skipn a W)). symmetry. apply firstn_all.
Qed.

Theorem extract_range (oi oj : option nat) :
  (match oi, oj with Some i, Some j => i <= j | _, _ => True end) ->
  exists data,
    extract file linelen start (QRange (option_map Z.of_nat oi) (option_map Z.of_nat oj)) = Ok (hl ++ data)
    /\ filter nonnl data = slice oi oj.
Proof.
  intros H. destruct (extract_range_slice oi oj H) as [data [E [F _]]]. exists data. split; assumption.
Qed.
End Around.
