(* Proofs for C04 (statements are collected in props/C04_Props.v). *)
From Coq Require Import List ZArith NArith Bool Lia.
From Coq.Strings Require Import Byte.
Import ListNotations.
From SV Require Import Text C04_PySlice C04_Model.
Local Open Scope Z_scope.

(* ---------------- characters ---------------- *)
Lemma upper_not_lower c : is_lower (ascii_upper c) = false.
Proof. destruct c; vm_compute; reflexivity. Qed.
Lemma upper_id c : is_lower c = false -> ascii_upper c = c.
Proof. unfold ascii_upper. intros ->. reflexivity. Qed.

Lemma py_upper_no_lower d : no_lower (py_upper d) = true.
Proof.
  unfold no_lower, py_upper. apply forallb_forall. intros x Hx. apply in_map_iff in Hx.
  destruct Hx as (c & <- & _). rewrite upper_not_lower. reflexivity.
Qed.
Lemma py_upper_id d : no_lower d = true -> py_upper d = d.
Proof.
  unfold no_lower, py_upper. induction d as [|c d IH]; [reflexivity|].
  cbn [forallb map]. intros H. apply andb_prop in H. destruct H as [H1 H2].
  rewrite IH by exact H2. rewrite upper_id; [reflexivity|]. destruct (is_lower c); [discriminate|reflexivity].
Qed.
Lemma py_upper_idem d : py_upper (py_upper d) = py_upper d.
Proof. apply py_upper_id, py_upper_no_lower. Qed.
Lemma py_upper_length d : length (py_upper d) = length d.
Proof. apply map_length. Qed.
Lemma new_seq_no_lower d i : no_lower (data (new_seq d i)) = true.
Proof. apply py_upper_no_lower. Qed.

(* ---------------- subscripting keeps elements of the source ---------------- *)
Lemma getslice_incl {A} (l r : list A) s : getslice l s = Ok r -> incl r l.
Proof.
  intros H x Hx.
  destruct (slice_indices (Z.of_nat (length l)) s) as [[[[a b] c] n]|] eqn:E.
  - destruct (getslice_spec l s a b c n E) as (r' & Hr & Hlen & Hnth).
    rewrite H in Hr. inversion Hr; subst r'.
    apply In_nth_error in Hx. destruct Hx as [k Hk].
    assert (Hkl : (k < length r)%nat) by (apply nth_error_Some; congruence).
    rewrite Hnth in Hk by lia. apply nth_error_In in Hk. exact Hk.
  - unfold getslice in H. rewrite E in H. discriminate.
Qed.
Lemma getitem_In {A} (l : list A) i x : getitem l i = Ok x -> In x l.
Proof.
  unfold getitem. destruct (_ || _); [discriminate|].
  destruct (nth_error l _) eqn:E; [|discriminate]. intros H; inversion H; subst. eapply nth_error_In; eauto.
Qed.
Lemma pyget_incl {A} (l r : list A) ix : pyget l ix = Ok r -> incl r l.
Proof.
  destruct ix as [i|s]; cbn [pyget].
  - destruct (getitem l i) eqn:E; [|discriminate]. intros H; inversion H; subst.
    intros y [<-|[]]. eapply getitem_In; eauto.
  - apply getslice_incl.
Qed.
Lemma no_lower_incl r d : incl r d -> no_lower d = true -> no_lower r = true.
Proof.
  unfold no_lower. intros Hi H. rewrite forallb_forall in *. intros x Hx. apply H, Hi, Hx.
Qed.

(* ---------------- P0 bioseq_like_str ---------------- *)
(* indexing without gap is str indexing followed by the constructor *)
Lemma seq_getitem_general s ix :
  seq_getitem None s ix = match pyget (data s) ix with Ok d => Ok (mkseq (py_upper d) (sid s)) | Err e => Err e end.
Proof. reflexivity. Qed.

Lemma seq_getitem_like_str s ix : no_lower (data s) = true ->
  seq_getitem None s ix = match pyget (data s) ix with Ok d => Ok (mkseq d (sid s)) | Err e => Err e end.
Proof.
  intros H. rewrite seq_getitem_general. destruct (pyget (data s) ix) as [d|e] eqn:E; [|reflexivity].
  rewrite py_upper_id; [reflexivity|]. eapply no_lower_incl; [eapply pyget_incl; eauto|exact H].
Qed.

Lemma seq_len_spec s : seq_len s = Z.of_nat (length (data s)).
Proof. reflexivity. Qed.
Lemma seq_eq_str_spec s t : seq_eq_str s t = true <-> data s = t.
Proof. apply str_eqb_eq. Qed.
Lemma seq_eq_seq_spec s t : seq_eq_seq s t = true <-> s = t.
Proof.
  unfold seq_eq_seq. destruct s as [d1 i1], t as [d2 i2]. cbn [data sid]. split.
  - intros H. apply andb_prop in H. destruct H as [H1 H2]. apply str_eqb_eq in H1, H2. congruence.
  - intros H. inversion H; subst. rewrite !str_eqb_refl. reflexivity.
Qed.

Lemma no_lower_app a b : no_lower (a ++ b) = no_lower a && no_lower b.
Proof. apply forallb_app. Qed.

Lemma seq_add_spec s t :
  seq_add s t = mkseq (py_upper (data s ++ t)) (sid s) /\
  (no_lower (data s) = true -> no_lower t = true -> seq_add s t = mkseq (data s ++ t) (sid s)).
Proof.
  split; [reflexivity|]. intros H1 H2. unfold seq_add, new_seq. rewrite py_upper_id; [reflexivity|].
  rewrite no_lower_app, H1, H2. reflexivity.
Qed.
Lemma seq_radd_spec s t :
  seq_radd s t = mkseq (py_upper (t ++ data s)) (sid s) /\
  (no_lower (data s) = true -> no_lower t = true -> seq_radd s t = mkseq (t ++ data s) (sid s)).
Proof.
  split; [reflexivity|]. intros H1 H2. unfold seq_radd, new_seq. rewrite py_upper_id; [reflexivity|].
  rewrite no_lower_app, H1, H2. reflexivity.
Qed.
Lemma seq_iadd_spec s t : seq_iadd s t = mkseq (data s ++ t) (sid s).
Proof. reflexivity. Qed.

(* ---------------- item assignment ---------------- *)
Lemma concat_chars d : concat (chars d) = d.
Proof. unfold chars. induction d as [|c d IH]; [reflexivity|]. cbn. rewrite IH. reflexivity. Qed.
Lemma chars_length d : length (chars d) = length d.
Proof. apply map_length. Qed.
Lemma chars_firstn n d : firstn n (chars d) = chars (firstn n d).
Proof. unfold chars. apply firstn_map. Qed.
Lemma chars_skipn n d : skipn n (chars d) = chars (skipn n d).
Proof. unfold chars. revert d. induction n as [|n IH]; intros [|c d]; cbn; auto. Qed.
Lemma chars_app a b : chars (a ++ b) = chars a ++ chars b.
Proof. apply map_app. Qed.

(* s[i] = v splices v in place of the i-th residue; IndexError exactly when str indexing raises it *)
Lemma seq_setitem_int s i v :
  match getitem (data s) i with
  | Ok x => exists d1 d2, data s = d1 ++ x :: d2 /\
            Z.of_nat (length d1) = (if i <? 0 then i + Z.of_nat (length (data s)) else i) /\
            seq_setitem s (IInt i) v = Ok (mkseq (d1 ++ v ++ d2) (sid s))
  | Err e => seq_setitem s (IInt i) v = Err e
  end.
Proof.
  destruct (getitem (data s) i) as [x|e] eqn:E.
  - assert (E' : getitem (chars (data s)) i = Ok [x]).
    { unfold getitem in *. rewrite chars_length. destruct (_ || _); [discriminate|].
      unfold chars. rewrite nth_error_map. destruct (nth_error (data s) _); [|discriminate].
      inversion E; subst. reflexivity. }
    destruct (setitem_int_spec (chars (data s)) i v [x] E') as (l1 & l2 & Hl & Hs & Hlen).
    exists (concat l1), (concat l2).
    assert (Hd : data s = concat l1 ++ x :: concat l2).
    { rewrite <- (concat_chars (data s)), Hl, concat_app. reflexivity. }
    split; [exact Hd|]. split.
    + rewrite chars_length in Hlen. rewrite <- Hlen.
      assert (Hl1 : l1 = firstn (length l1) (chars (data s))).
      { rewrite Hl. rewrite firstn_app, Nat.sub_diag, firstn_all. cbn [firstn]. rewrite app_nil_r. reflexivity. }
      rewrite Hl1 at 1. rewrite chars_firstn, concat_chars. rewrite firstn_length.
      assert (length l1 <= length (data s))%nat.
      { rewrite <- chars_length, Hl, app_length. lia. }
      lia.
    + unfold seq_setitem. rewrite Hs. unfold set_data. rewrite concat_app. cbn [concat]. reflexivity.
  - unfold seq_setitem, setitem_int. unfold getitem in E. rewrite chars_length.
    set (n := Z.of_nat (length (data s))) in *. set (i' := if i <? 0 then i + n else i) in *.
    destruct ((i' <? 0) || (i' >=? n)) eqn:Eb; [inversion E; reflexivity|].
    destruct (nth_error (data s) (Z.to_nat i')) eqn:E2; [discriminate|].
    apply nth_error_None in E2. unfold n in Eb. lia.
Qed.

(* s[a:b] = v (contiguous): splice v between the clamped bounds *)
Lemma seq_setitem_slice s sl v : contiguous sl = true ->
  let len := Z.of_nat (length (data s)) in
  let lo := lo_of len (sl_start sl) in let hi := hi_of len (sl_stop sl) in
  seq_setitem s (ISlice sl) v =
    Ok (mkseq (firstn (Z.to_nat lo) (data s) ++ v ++ skipn (Z.to_nat (Z.max hi lo)) (data s)) (sid s)).
Proof.
  intros Hc len lo hi. unfold seq_setitem. rewrite setslice_contig by exact Hc.
  rewrite chars_length. fold len. fold lo. fold hi.
  rewrite chars_firstn, chars_skipn. unfold set_data. rewrite !concat_app, !concat_chars. reflexivity.
Qed.

(* ---------------- the .str namespace ---------------- *)
Section StrNs.
  Variables Arg R : Type.
  Variable m_t : str -> Arg -> str.
  Variable m_q : str -> Arg -> R.
  Lemma str_transform_spec s a :
    data (str_transform Arg m_t s a) = m_t (data s) a /\ sid (str_transform Arg m_t s a) = sid s.
  Proof. split; reflexivity. Qed.
  Lemma str_query_spec s a : str_query Arg R m_q s a = m_q (data s) a.
  Proof. reflexivity. Qed.
  Lemma basket_str_transform_spec b a :
    map data (basket_str_transform Arg m_t b a) = map (fun s => m_t (data s) a) b /\
    map sid (basket_str_transform Arg m_t b a) = map sid b /\
    length (basket_str_transform Arg m_t b a) = length b.
  Proof.
    unfold basket_str_transform. rewrite !map_map, map_length. repeat split.
  Qed.
  Lemma basket_str_query_spec b a : basket_str_query Arg R m_q b a = map (fun s => m_q (data s) a) b.
  Proof. reflexivity. Qed.
End StrNs.

(* ---------------- gap-aware slicing ---------------- *)
(* column of the k-th residue (0-based); the length when there are at most k residues *)
Fixpoint pos (g d : str) (k : nat) : nat :=
  match d with
  | [] => O
  | c :: r => if in_gap g c then S (pos g r k) else match k with O => O | S k' => S (pos g r k') end
  end.

Lemma pos_le g d : forall k, (pos g d k <= length d)%nat.
Proof. induction d as [|c d IH]; intros k; cbn [pos length]; [lia|]. destruct (in_gap g c); [specialize (IH k); lia|]. destruct k; [lia|specialize (IH k); lia]. Qed.

Lemma pos_mono g d : forall k1 k2, (k1 <= k2)%nat -> (pos g d k1 <= pos g d k2)%nat.
Proof.
  induction d as [|c d IH]; intros k1 k2 H; cbn [pos]; [lia|].
  destruct (in_gap g c); [specialize (IH k1 k2 H); lia|].
  destruct k1, k2; try lia. specialize (IH k1 k2). lia.
Qed.

Lemma pos_ge g d : forall k, (length (degap g d) <= k)%nat -> pos g d k = length d.
Proof.
  induction d as [|c d IH]; intros k H; cbn [pos length]; [reflexivity|].
  unfold degap in *. cbn [filter] in H. destruct (in_gap g c); cbn [negb] in H.
  - rewrite IH by exact H. reflexivity.
  - cbn [length] in H. destruct k; [lia|]. rewrite IH by lia. reflexivity.
Qed.

Lemma degap_firstn_pos g d : forall k, degap g (firstn (pos g d k) d) = firstn k (degap g d).
Proof.
  unfold degap. induction d as [|c d IH]; intros k; cbn [pos]; [destruct k; reflexivity|].
  destruct (in_gap g c) eqn:E.
  - cbn [firstn filter]. rewrite E. cbn [negb]. apply IH.
  - destruct k; [cbn [firstn filter]; reflexivity|].
    cbn [firstn filter]. rewrite E. cbn [negb firstn]. rewrite IH. reflexivity.
Qed.
Lemma degap_skipn_pos g d : forall k, degap g (skipn (pos g d k) d) = skipn k (degap g d).
Proof.
  unfold degap. induction d as [|c d IH]; intros k; cbn [pos]; [destruct k; reflexivity|].
  destruct (in_gap g c) eqn:E.
  - cbn [skipn filter]. rewrite E. cbn [negb]. apply IH.
  - destruct k; [cbn [skipn filter]; rewrite E; reflexivity|].
    cbn [skipn filter]. rewrite E. cbn [negb skipn]. apply IH.
Qed.

Lemma nogaps_length g d : forall off, length (nogaps_from g off d) = length (degap g d).
Proof.
  unfold degap. induction d as [|c d IH]; intros off; cbn [nogaps_from filter]; [reflexivity|].
  destruct (in_gap g c); cbn [negb length]; rewrite IH; reflexivity.
Qed.
Lemma nogaps_nth g d : forall off k dflt, (k < length (degap g d))%nat ->
  nth k (nogaps_from g off d) dflt = off + Z.of_nat (pos g d k).
Proof.
  unfold degap. induction d as [|c d IH]; intros off k dflt H; cbn [nogaps_from filter pos] in *; [cbn in H; lia|].
  destruct (in_gap g c); cbn [negb] in H.
  - rewrite IH by exact H. lia.
  - cbn [length] in H. destruct k; [cbn [nth]; lia|]. cbn [nth]. rewrite IH by lia. lia.
Qed.

(* adj of the code is [pos] of the normalised residue index *)
Lemma adj_pos g d i :
  adj (nogaps g d) (Z.of_nat (length d)) (Some i) =
  Some (Z.of_nat (pos g d (Z.to_nat (norm (Z.of_nat (length (degap g d))) i)))).
Proof.
  set (n := Z.of_nat (length (degap g d))). unfold adj, nogaps. rewrite nogaps_length. fold n.
  set (i' := if i <? 0 then Z.max (i + n) 0 else i).
  assert (Hn : 0 <= n) by (unfold n; lia).
  assert (Hi' : 0 <= i' \/ (i' < 0 /\ i' = i /\ False)).
  { left. unfold i'. destruct (i <? 0) eqn:E; lia. }
  destruct Hi' as [Hi'|[_ [_ []]]].
  assert (Hnorm : norm n i = Z.min i' n).
  { unfold norm, i'. destruct (i <? 0) eqn:E; lia. }
  rewrite Hnorm. f_equal.
  destruct (i' <? n) eqn:E.
  - rewrite nogaps_nth by (fold n; lia). replace (Z.min i' n) with i' by lia. lia.
  - rewrite pos_ge; [reflexivity|]. unfold n in *. lia.
Qed.

Lemma norm_id len z : 0 <= z <= len -> norm len z = z.
Proof. intros H. unfold norm. destruct (z <? 0) eqn:E; lia. Qed.

Lemma firstn_split {A} (d : list A) : forall p1 p2, (p1 <= p2)%nat ->
  firstn p2 d = firstn p1 d ++ firstn (p2 - p1) (skipn p1 d).
Proof.
  induction d as [|c d IH]; intros p1 p2 H.
  - rewrite !firstn_nil, skipn_nil, firstn_nil. reflexivity.
  - destruct p1; [cbn [firstn skipn app]; rewrite Nat.sub_0_r; reflexivity|].
    destruct p2; [lia|]. cbn [firstn skipn Nat.sub app]. rewrite (IH p1 p2) by lia. reflexivity.
Qed.

Lemma degap_app g a b : degap g (a ++ b) = degap g a ++ degap g b.
Proof. apply filter_app. Qed.

(* a cut: column p separates the first k residues from the rest *)
Definition cut (g d : str) (p k : nat) : Prop :=
  (p <= length d)%nat /\ degap g (firstn p d) = firstn k (degap g d) /\ (k <= length (degap g d))%nat.

Lemma cut_pos g d k : (k <= length (degap g d))%nat -> cut g d (pos g d k) k.
Proof. intros H. split; [apply pos_le|]. split; [apply degap_firstn_pos|exact H]. Qed.
Lemma cut_0 g d : cut g d 0 0.
Proof. split; [lia|]. split; [reflexivity|lia]. Qed.
Lemma cut_end g d : cut g d (length d) (length (degap g d)).
Proof. split; [lia|]. split; [rewrite !firstn_all; reflexivity|lia]. Qed.

Lemma cut_between g d p1 k1 p2 k2 : cut g d p1 k1 -> cut g d p2 k2 ->
  ((k1 <= k2)%nat -> (p1 <= p2)%nat) -> ((k2 < k1)%nat -> (p2 <= p1)%nat) ->
  degap g (firstn (p2 - p1) (skipn p1 d)) = firstn (k2 - k1) (skipn k1 (degap g d)).
Proof.
  intros (Hp1 & C1 & Hk1) (Hp2 & C2 & Hk2) Hle Hgt.
  destruct (Nat.le_gt_cases k1 k2) as [H|H].
  - specialize (Hle H).
    pose proof (firstn_split d p1 p2 Hle) as S1.
    pose proof (firstn_split (degap g d) k1 k2 H) as S2.
    rewrite S1, degap_app, C1 in C2. rewrite S2 in C2. apply app_inv_head in C2. exact C2.
  - specialize (Hgt H). replace (p2 - p1)%nat with 0%nat by lia. replace (k2 - k1)%nat with 0%nat by lia. reflexivity.
Qed.

Definition opt_cut_lo (g d : str) (o : option Z) : nat * nat :=
  match o with
  | None => (0%nat, 0%nat)
  | Some i => let k := Z.to_nat (norm (Z.of_nat (length (degap g d))) i) in (pos g d k, k)
  end.
Definition opt_cut_hi (g d : str) (o : option Z) : nat * nat :=
  match o with
  | None => (length d, length (degap g d))
  | Some i => let k := Z.to_nat (norm (Z.of_nat (length (degap g d))) i) in (pos g d k, k)
  end.

(* P1 gap_slice, on residue strings *)
Lemma gap_slice_str g d sl : contiguous sl = true ->
  let len := Z.of_nat (length d) in
  exists r, getslice d (mkslice (adj (nogaps g d) len (sl_start sl)) (adj (nogaps g d) len (sl_stop sl)) (sl_step sl)) = Ok r /\
            getslice (degap g d) sl = Ok (degap g r).
Proof.
  intros Hc len.
  set (sl' := mkslice _ _ _).
  assert (Hc' : contiguous sl' = true) by exact Hc.
  rewrite (getslice_contig d sl' Hc'), (getslice_contig (degap g d) sl Hc).
  eexists. split; [reflexivity|]. f_equal.
  set (n := Z.of_nat (length (degap g d))).
  assert (Hn : 0 <= n) by (unfold n; lia).
  cbn [sl' sl_start sl_stop]. fold len.
  (* the four bounds as cuts *)
  assert (Hlo : exists p k, cut g d p k /\ lo_of len (adj (nogaps g d) len (sl_start sl)) = Z.of_nat p /\
                 lo_of n (sl_start sl) = Z.of_nat k /\ (p, k) = opt_cut_lo g d (sl_start sl)).
  { destruct (sl_start sl) as [i|].
    - unfold len. rewrite adj_pos. fold n. cbn [lo_of opt_cut_lo]. fold n.
      pose proof (norm_range n i Hn) as Hr.
      exists (pos g d (Z.to_nat (norm n i))), (Z.to_nat (norm n i)).
      split; [apply cut_pos; unfold n in *; lia|]. split; [|split; [lia|reflexivity]].
      apply norm_id. pose proof (pos_le g d (Z.to_nat (norm n i))). lia.
    - exists 0%nat, 0%nat. split; [apply cut_0|]. repeat split; reflexivity. }
  assert (Hhi : exists p k, cut g d p k /\ hi_of len (adj (nogaps g d) len (sl_stop sl)) = Z.of_nat p /\
                 hi_of n (sl_stop sl) = Z.of_nat k /\ (p, k) = opt_cut_hi g d (sl_stop sl)).
  { destruct (sl_stop sl) as [i|].
    - unfold len. rewrite adj_pos. fold n. cbn [hi_of opt_cut_hi]. fold n.
      pose proof (norm_range n i Hn) as Hr.
      exists (pos g d (Z.to_nat (norm n i))), (Z.to_nat (norm n i)).
      split; [apply cut_pos; unfold n in *; lia|]. split; [|split; [lia|reflexivity]].
      apply norm_id. pose proof (pos_le g d (Z.to_nat (norm n i))). lia.
    - exists (length d), (length (degap g d)). split; [apply cut_end|]. repeat split; reflexivity. }
  destruct Hlo as (p1 & k1 & C1 & -> & -> & E1). destruct Hhi as (p2 & k2 & C2 & -> & -> & E2).
  replace (Z.to_nat (Z.of_nat p2 - Z.of_nat p1)) with (p2 - p1)%nat by lia.
  replace (Z.to_nat (Z.of_nat k2 - Z.of_nat k1)) with (k2 - k1)%nat by lia.
  rewrite !Nat2Z.id. symmetry. apply cut_between; [exact C1|exact C2| |].
  - intros H. destruct (sl_start sl), (sl_stop sl); cbn in E1, E2; inversion E1; inversion E2; subst;
      try lia; try apply pos_mono; try apply pos_le; lia.
  - intros H. destruct C1 as (? & ? & ?), C2 as (? & ? & ?).
    destruct (sl_start sl), (sl_stop sl); cbn in E1, E2; inversion E1; inversion E2; subst;
      try lia; try (apply pos_mono; lia).
Qed.

Lemma getslice_contiguous_part {A} (d r : list A) sl : contiguous sl = true -> getslice d sl = Ok r ->
  exists lo n, r = firstn n (skipn lo d).
Proof. intros Hc H. rewrite getslice_contig in H by exact Hc. inversion H. eauto. Qed.

(* P1 gap_slice at the BioSeq level *)
Lemma seq_getitem_gap_slice g s sl : contiguous sl = true -> no_lower (data s) = true ->
  exists r, seq_getitem (Some g) s (ISlice sl) = Ok (mkseq r (sid s)) /\
            pyget (degap g (data s)) (ISlice sl) = Ok (degap g r) /\
            exists lo n, r = firstn n (skipn lo (data s)).
Proof.
  intros Hc Hl. destruct (gap_slice_str g (data s) sl Hc) as (r & Hr & Hd).
  exists r. unfold seq_getitem, adjust_index. cbn [pyget]. rewrite Hr. split.
  - unfold new_seq. rewrite py_upper_id; [reflexivity|].
    eapply no_lower_incl; [eapply getslice_incl; eauto|exact Hl].
  - split; [exact Hd|]. eapply getslice_contiguous_part; [|exact Hr]. exact Hc.
Qed.

Lemma nogaps_nth_error g d : forall off k p, nth_error (nogaps_from g off d) k = Some p ->
  exists x, nth_error d (Z.to_nat (p - off)) = Some x /\ nth_error (degap g d) k = Some x /\
            off <= p < off + Z.of_nat (length d).
Proof.
  unfold degap. induction d as [|c d IH]; intros off k p H; cbn [nogaps_from filter] in *.
  - destruct k; discriminate.
  - destruct (in_gap g c); cbn [negb].
    + destruct (IH (off + 1) k p H) as (x & H1 & H2 & H3). exists x.
      replace (Z.to_nat (p - off)) with (S (Z.to_nat (p - (off + 1)))) by lia.
      cbn [nth_error length]. repeat split; auto; lia.
    + destruct k as [|k].
      * cbn [nth_error] in *. inversion H; subst p. exists c. rewrite Z.sub_diag. cbn [Z.to_nat nth_error length].
        repeat split; auto; lia.
      * cbn [nth_error] in *. destruct (IH (off + 1) k p H) as (x & H1 & H2 & H3). exists x.
        replace (Z.to_nat (p - off)) with (S (Z.to_nat (p - (off + 1)))) by lia.
        cbn [nth_error length]. repeat split; auto; lia.
Qed.

(* seq.sl(gap=g)[i] is the i-th residue of the degapped string, IndexError exactly when that raises *)
Lemma seq_getitem_gap_int g s i :
  seq_getitem (Some g) s (IInt i) =
  match getitem (degap g (data s)) i with Ok x => Ok (new_seq [x] (sid s)) | Err e => Err e end.
Proof.
  unfold seq_getitem, adjust_index, nogaps. unfold getitem at 1 2. rewrite nogaps_length.
  set (n := Z.of_nat (length (degap g (data s)))). set (i' := if i <? 0 then i + n else i).
  destruct ((i' <? 0) || (i' >=? n)) eqn:Eb; [reflexivity|].
  destruct (nth_error (nogaps_from g 0 (data s)) (Z.to_nat i')) as [p|] eqn:E.
  - destruct (nogaps_nth_error g (data s) 0 _ p E) as (x & H1 & H2 & H3). rewrite H2.
    cbn [pyget]. unfold getitem. rewrite Z.sub_0_r in H1.
    destruct (p <? 0) eqn:Ep; [lia|].
    destruct ((p <? 0) || (p >=? Z.of_nat (length (data s)))) eqn:Eb2; [lia|]. rewrite H1. reflexivity.
  - apply nth_error_None in E. rewrite nogaps_length in E. unfold n in Eb. lia.
Qed.

(* ---------------- basket ---------------- *)
Lemma mapM_Forall2 {A B} (f : A -> res B) : forall l r, mapM f l = Ok r -> Forall2 (fun x y => f x = Ok y) l r.
Proof.
  induction l as [|x l IH]; intros r H; cbn [mapM] in H.
  - inversion H. constructor.
  - destruct (f x) as [y|e] eqn:E; [|discriminate]. destruct (mapM f l) as [ys|e]; [|discriminate].
    inversion H; subst. constructor; [exact E|apply IH; reflexivity].
Qed.
Lemma mapM_Err {A B} (f : A -> res B) : forall l e, mapM f l = Err e -> exists x, In x l /\ f x = Err e.
Proof.
  induction l as [|x l IH]; intros e H; cbn [mapM] in H; [discriminate|].
  destruct (f x) as [y|e'] eqn:E.
  - destruct (mapM f l) as [ys|e'']; [discriminate|]. inversion H; subst.
    destruct (IH e eq_refl) as (z & Hz & Hf). exists z. split; [right; exact Hz|exact Hf].
  - inversion H; subst. exists x. split; [left; reflexivity|exact E].
Qed.

Lemma basket_get_ij_spec gap b i j :
  basket_get_ij gap b i j = match basket_get_int b i with Ok s => seq_getitem gap s j | Err e => Err e end.
Proof. reflexivity. Qed.
Lemma basket_get_slj_spec gap b sl j :
  basket_get_slj gap b sl j =
  match basket_get_slice b sl with Ok ss => mapM (fun s => seq_getitem gap s j) ss | Err e => Err e end.
Proof. reflexivity. Qed.
Lemma basket_get_slj_elements gap b sl j r : basket_get_slj gap b sl j = Ok r ->
  exists ss, basket_get_slice b sl = Ok ss /\ Forall2 (fun s y => seq_getitem gap s j = Ok y) ss r.
Proof.
  unfold basket_get_slj, basket_get_slice. destruct (getslice b sl) as [ss|e]; [|discriminate].
  intros H. exists ss. split; [reflexivity|apply mapM_Forall2; exact H].
Qed.

Lemma set_nth_app {A} (a b : list A) x y : set_nth (a ++ x :: b) (length a) y = a ++ y :: b.
Proof.
  unfold set_nth. rewrite skipn_app, skipn_all, Nat.sub_diag. cbn [skipn app].
  rewrite firstn_app, Nat.sub_diag, firstn_all. cbn [firstn]. rewrite app_nil_r. reflexivity.
Qed.

Lemma upd_positions_all j v : forall rest done,
  upd_positions (done ++ rest) (seq (length done) (length rest)) j v =
  match mapM (fun s => seq_setitem s j v) rest with Ok r => Ok (done ++ r) | Err e => Err e end.
Proof.
  induction rest as [|x rest IH]; intros done.
  - cbn. rewrite app_nil_r. reflexivity.
  - cbn [length seq upd_positions mapM].
    rewrite nth_error_app2 by lia. rewrite Nat.sub_diag. cbn [nth_error].
    destruct (seq_setitem x j v) as [x'|e]; [|reflexivity].
    rewrite set_nth_app.
    replace (done ++ x' :: rest) with ((done ++ [x']) ++ rest) by (rewrite <- app_assoc; reflexivity).
    replace (S (length done)) with (length (done ++ [x'])) by (rewrite app_length; cbn; lia).
    rewrite IH. destruct (mapM _ rest) as [r|e]; [|reflexivity]. rewrite <- app_assoc. reflexivity.
Qed.

(* seqs[:, j] = x assigns on every sequence *)
Lemma basket_set_all b j v :
  basket_set_slj b (mkslice None None None) j v = mapM (fun s => seq_setitem s j v) b.
Proof.
  unfold basket_set_slj. rewrite getslice_full.
  pose proof (upd_positions_all j v b []) as H. cbn [app length] in H. rewrite H.
  destruct (mapM _ b); reflexivity.
Qed.

(* ---------------- counts ---------------- *)
Lemma count_app c a b : count c (a ++ b) = (count c a + count c b)%nat.
Proof. unfold count. rewrite filter_app, app_length. reflexivity. Qed.

Lemma fold_counter c : forall l k0,
  fold_left counter_add (map counter_of l) k0 c = (k0 c + count c (concat l))%nat.
Proof.
  induction l as [|s l IH]; intros k0; cbn [map fold_left concat].
  - unfold count. cbn. lia.
  - rewrite IH. unfold counter_add, counter_of. rewrite count_app. lia.
Qed.

Lemma countall_spec b : b <> [] ->
  exists k, countall b = Ok k /\ forall c, k c = count c (concat (map data b)).
Proof.
  destruct b as [|s r]; [congruence|]. intros _. eexists. split; [reflexivity|].
  intros c. rewrite <- (map_map data counter_of). rewrite fold_counter. cbn [map concat].
  rewrite count_app. reflexivity.
Qed.
Lemma countall_empty : countall [] = Err TypeError.
Proof. reflexivity. Qed.

Lemma fold_add_sum : forall l a, fold_left Nat.add l a = (a + list_sum l)%nat.
Proof.
  induction l as [|x l IH]; intros a; cbn [fold_left]; [cbn; lia|].
  rewrite IH. change (list_sum (x :: l)) with (x + list_sum l)%nat. lia.
Qed.

Lemma sum_filter_nz (l : list (byte * nat)) :
  list_sum (map snd (filter (fun p => negb (Nat.eqb (snd p) 0)) l)) = list_sum (map snd l).
Proof.
  unfold list_sum. induction l as [|[c n] l IH]; [reflexivity|]. cbn [filter snd].
  destruct (Nat.eqb n 0) eqn:E; cbn [negb map snd fold_right].
  - apply Nat.eqb_eq in E. subst. rewrite IH. reflexivity.
  - rewrite IH. reflexivity.
Qed.

Lemma indicator_sum x : list_sum (map (fun c => if byte_eqb c x then 1%nat else 0%nat) all_bytes) = 1%nat.
Proof. destruct x; vm_compute; reflexivity. Qed.

Lemma list_sum_map_add {A} (f g : A -> nat) l :
  list_sum (map (fun c => (f c + g c)%nat) l) = (list_sum (map f l) + list_sum (map g l))%nat.
Proof. unfold list_sum. induction l as [|x l IH]; [reflexivity|]. cbn [map fold_right]. rewrite IH. lia. Qed.

Lemma sum_counts s : list_sum (map (fun c => count c s) all_bytes) = length s.
Proof.
  induction s as [|x s IH].
  - unfold count. cbn [filter length]. induction all_bytes; [reflexivity|cbn in *; auto].
  - rewrite (map_ext _ (fun c => ((if byte_eqb c x then 1 else 0) + count c s)%nat)).
    + rewrite list_sum_map_add, indicator_sum, IH. reflexivity.
    + intros c. unfold count. cbn [filter]. destruct (byte_eqb c x); reflexivity.
Qed.

Lemma counter_total_spec s : counter_total (counter_of s) = length s.
Proof.
  unfold counter_total, counter_items. rewrite fold_add_sum, sum_filter_nz, map_map. cbn [snd].
  apply sum_counts.
Qed.

Lemma counter_total_ext k k' : (forall c, k c = k' c) -> counter_total k = counter_total k'.
Proof.
  intros H. unfold counter_total, counter_items.
  rewrite (map_ext (fun c => (c, k c)) (fun c => (c, k' c))); [reflexivity|]. intros c. rewrite H. reflexivity.
Qed.

Lemma all_bytes_complete c : In c all_bytes.
Proof.
  assert (H : existsb (byte_eqb c) all_bytes = true) by (destruct c; vm_compute; reflexivity).
  apply existsb_exists in H. destruct H as (x & Hx & E). apply byte_eqb_eq in E. subst. exact Hx.
Qed.

Lemma countall_total b k : countall b = Ok k ->
  counter_total k = length (concat (map data b)) /\
  forall c, In (c, k c) (counter_items k) <-> k c <> 0%nat.
Proof.
  intros H. assert (Hb : b <> []) by (intros ->; discriminate).
  destruct (countall_spec b Hb) as (k' & Hk' & Hc). rewrite H in Hk'. inversion Hk'; subst k'. split.
  - rewrite (counter_total_ext k (counter_of (concat (map data b)))) by exact Hc. apply counter_total_spec.
  - intros c. unfold counter_items. rewrite filter_In. cbn [snd]. split.
    + intros [_ Hn] E. rewrite E in Hn. discriminate.
    + intros Hn. split.
      * apply in_map_iff. exists c. split; [reflexivity|]. apply all_bytes_complete.
      * destruct (Nat.eqb (k c) 0) eqn:E; [apply Nat.eqb_eq in E; contradiction|reflexivity].
Qed.

Lemma gc_counts_spec s :
  fst (gc_counts s) = (count "G"%byte s + count "C"%byte s)%nat /\
  snd (gc_counts s) = (fst (gc_counts s) + (count "A"%byte s + count "T"%byte s + count "U"%byte s))%nat /\
  (snd (gc_counts s) <= length s)%nat.
Proof.
  split; [reflexivity|]. split; [reflexivity|].
  unfold gc_counts. cbn [snd]. unfold count.
  induction s as [|c s IH]; [cbn; lia|].
  cbn [filter length]. destruct c; cbn [byte_eqb Byte.eqb]; cbn; lia.
Qed.

(* seqs[i, j] = x: assignment on sequence i only; errors of the first axis, then of the second *)
Lemma basket_set_ij_spec b i j v :
  match getitem b i with
  | Err e => basket_set_ij b i j v = Err e
  | Ok s => match seq_setitem s j v with
            | Err e => basket_set_ij b i j v = Err e
            | Ok s' => exists b1 b2, b = b1 ++ s :: b2 /\
                         Z.of_nat (length b1) = (if i <? 0 then i + Z.of_nat (length b) else i) /\
                         basket_set_ij b i j v = Ok (b1 ++ s' :: b2)
            end
  end.
Proof.
  unfold basket_set_ij. destruct (getitem b i) as [s|e] eqn:E; [|reflexivity].
  destruct (seq_setitem s j v) as [s'|e]; [|reflexivity].
  destruct (setitem_int_spec b i s' s E) as (b1 & b2 & Hb & Hs & Hl). exists b1, b2. auto.
Qed.

(* first-axis contiguous slices: seqs[a:b, j] = x assigns on exactly the selected sequences *)
Lemma upd_positions_mid j v tail : forall rest done,
  upd_positions (done ++ rest ++ tail) (seq (length done) (length rest)) j v =
  match mapM (fun s => seq_setitem s j v) rest with Ok r => Ok (done ++ r ++ tail) | Err e => Err e end.
Proof.
  induction rest as [|x rest IH]; intros done.
  - reflexivity.
  - cbn [length seq upd_positions mapM app].
    rewrite nth_error_app2 by lia. rewrite Nat.sub_diag. cbn [nth_error].
    destruct (seq_setitem x j v) as [x'|e]; [|reflexivity].
    rewrite set_nth_app.
    replace (done ++ x' :: rest ++ tail) with ((done ++ [x']) ++ rest ++ tail) by (rewrite <- app_assoc; reflexivity).
    replace (S (length done)) with (length (done ++ [x'])) by (rewrite app_length; cbn; lia).
    rewrite IH. destruct (mapM _ rest) as [r|e]; [|reflexivity]. rewrite <- app_assoc. reflexivity.
Qed.

Lemma skipn_seq_ a : forall s n, skipn a (seq s n) = seq (s + a) (n - a).
Proof.
  induction a as [|a IH]; intros s n; [rewrite Nat.add_0_r, Nat.sub_0_r; reflexivity|].
  destruct n as [|n]; [reflexivity|]. cbn [seq skipn]. rewrite IH. f_equal; lia.
Qed.
Lemma firstn_seq_ k : forall s n, firstn k (seq s n) = seq s (Nat.min k n).
Proof.
  induction k as [|k IH]; intros s n; [reflexivity|].
  destruct n as [|n]; [reflexivity|]. cbn [seq firstn Nat.min]. rewrite IH. reflexivity.
Qed.

Lemma basket_set_slj_contig b sl j v : contiguous sl = true ->
  let len := Z.of_nat (length b) in
  let lo := Z.to_nat (lo_of len (sl_start sl)) in
  let k := Z.to_nat (hi_of len (sl_stop sl) - lo_of len (sl_start sl)) in
  getslice b sl = Ok (firstn k (skipn lo b)) /\
  basket_set_slj b sl j v =
  match mapM (fun s => seq_setitem s j v) (firstn k (skipn lo b)) with
  | Ok r => Ok (firstn lo b ++ r ++ skipn k (skipn lo b))
  | Err e => Err e
  end.
Proof.
  intros Hc len lo k. split; [apply getslice_contig; exact Hc|].
  unfold basket_set_slj. rewrite getslice_contig by exact Hc. rewrite seq_length. fold len. fold lo. fold k.
  assert (Hlen : 0 <= len) by (unfold len; lia).
  assert (Hlo : (lo <= length b)%nat).
  { unfold lo. destruct (sl_start sl); cbn [lo_of]; [pose proof (norm_range len z Hlen)|]; unfold len in *; lia. }
  rewrite skipn_seq_, firstn_seq_. cbn [Nat.add].
  set (mid := firstn k (skipn lo b)).
  assert (Hmid : length mid = Nat.min k (length b - lo)).
  { unfold mid. rewrite firstn_length, skipn_length. reflexivity. }
  rewrite <- Hmid.
  assert (Hb : b = firstn lo b ++ mid ++ skipn k (skipn lo b)).
  { unfold mid. rewrite firstn_skipn, firstn_skipn. reflexivity. }
  assert (Hl : length (firstn lo b) = lo) by (rewrite firstn_length; lia).
  pose proof (upd_positions_mid j v (skipn k (skipn lo b)) mid (firstn lo b)) as H.
  rewrite Hl in H. rewrite <- Hb in H. exact H.
Qed.

(* ---------------- depth round: assignment as the list operation, extended slices, basket first axis ---------------- *)
(* seq[a:b:c] = v is exactly list assignment on the residue list, for every slice *)
Lemma seq_setitem_is_list_assign s sl v :
  seq_setitem s (ISlice sl) v = match setslice (data s) sl v with Ok r => Ok (set_data s r) | Err e => Err e end.
Proof.
  unfold seq_setitem, chars. rewrite setslice_map. destruct (setslice (data s) sl v) as [r|e]; [|reflexivity].
  fold (chars r). rewrite concat_chars. reflexivity.
Qed.

Lemma seq_setitem_extended s sl v start stop step n :
  slice_indices (Z.of_nat (length (data s))) sl = Some (start, stop, step, n) -> step <> 1 ->
  (Z.of_nat (length v) <> n -> seq_setitem s (ISlice sl) v = Err ValueError) /\
  (Z.of_nat (length v) = n -> exists r, seq_setitem s (ISlice sl) v = Ok (mkseq r (sid s)) /\ length r = length (data s) /\
     (forall k, (k < length v)%nat -> nth_error r (Z.to_nat (start + Z.of_nat k * step)) = nth_error v k) /\
     (forall p, (forall k, (k < length v)%nat -> p <> Z.to_nat (start + Z.of_nat k * step)) -> nth_error r p = nth_error (data s) p)).
Proof.
  intros Hsi H1. rewrite seq_setitem_is_list_assign.
  destruct (setslice_extended (data s) v sl start stop step n Hsi H1) as [HE HO]. split.
  - intros Hv. rewrite (HE Hv). reflexivity.
  - intros Hv. destruct (HO Hv) as (r & Hr & Hrest). exists r. rewrite Hr. split; [reflexivity|exact Hrest].
Qed.

(* basket[i] = x: a new BioSeq (constructor-normalised, empty id for a str value) replaces element i *)
Lemma basket_set_int_spec b i v :
  match getitem b i with
  | Ok s => exists b1 b2, b = b1 ++ s :: b2 /\
            Z.of_nat (length b1) = (if i <? 0 then i + Z.of_nat (length b) else i) /\
            basket_set_int b i v = Ok (b1 ++ new_seq v [] :: b2)
  | Err e => basket_set_int b i v = Err e
  end.
Proof.
  unfold basket_set_int. destruct (getitem b i) as [s|e] eqn:E.
  - destruct (setitem_int_spec b i (new_seq v []) s E) as (b1 & b2 & H1 & H2 & H3). exists b1, b2. auto.
  - apply setitem_int_err. exact E.
Qed.

(* basket[a:b] = xs (contiguous): splice; basket[a:b:c] = xs: ValueError unless sizes match, else element-wise *)
Lemma basket_set_slice_contig b sl vs : contiguous sl = true ->
  let len := Z.of_nat (length b) in
  let lo := lo_of len (sl_start sl) in let hi := hi_of len (sl_stop sl) in
  basket_set_slice b sl vs =
    Ok (firstn (Z.to_nat lo) b ++ map (fun v => new_seq v []) vs ++ skipn (Z.to_nat (Z.max hi lo)) b).
Proof. intros Hc. unfold basket_set_slice. apply setslice_contig. exact Hc. Qed.

Lemma basket_set_slice_extended b sl vs start stop step n :
  slice_indices (Z.of_nat (length b)) sl = Some (start, stop, step, n) -> step <> 1 ->
  (Z.of_nat (length vs) <> n -> basket_set_slice b sl vs = Err ValueError) /\
  (Z.of_nat (length vs) = n -> exists r, basket_set_slice b sl vs = Ok r /\ length r = length b /\
     (forall k, (k < length vs)%nat ->
        nth_error r (Z.to_nat (start + Z.of_nat k * step)) = option_map (fun v => new_seq v []) (nth_error vs k)) /\
     (forall p, (forall k, (k < length vs)%nat -> p <> Z.to_nat (start + Z.of_nat k * step)) -> nth_error r p = nth_error b p)).
Proof.
  intros Hsi H1. unfold basket_set_slice.
  destruct (setslice_extended b (map (fun v => new_seq v []) vs) sl start stop step n Hsi H1) as [HE HO].
  rewrite map_length in *. split; [exact HE|].
  intros Hv. destruct (HO Hv) as (r & Hr & HL & HN & HP). exists r. split; [exact Hr|]. split; [exact HL|]. split.
  - intros k Hk. rewrite HN by exact Hk. apply nth_error_map.
  - exact HP.
Qed.

(* the partial-update variant used by histories agrees with upd_positions when nothing raises *)
Lemma upd_positions_st_agree j v : forall ps b,
  upd_positions b ps j v = match upd_positions_st b ps j v with (b', None) => Ok b' | (_, Some e) => Err e end.
Proof.
  induction ps as [|p ps IH]; intros b; cbn [upd_positions upd_positions_st]; [reflexivity|].
  destruct (nth_error b p) as [s|]; [|reflexivity].
  destruct (seq_setitem s j v) as [s'|e]; [apply IH|reflexivity].
Qed.

(* seqs[a:b:c, j] = x for EVERY first-axis slice: exactly the selected positions are assigned *)
Lemma getslice_seq_positions n sl ps : getslice (seq 0 n) sl = Ok ps ->
  NoDup ps /\ (forall p, In p ps -> (p < n)%nat).
Proof.
  intros H. split.
  - destruct (slice_indices (Z.of_nat (length (seq 0 n))) sl) as [[[[a b] c] m]|] eqn:E.
    + destruct (getslice_spec (seq 0 n) sl a b c m E) as (r & Hr & Hlen & Hnth).
      rewrite H in Hr. inversion Hr; subst r.
      destruct (slice_indices_range _ sl a b c m (Nat2Z.is_nonneg _) E) as (Hc & Hm & Hrange).
      rewrite seq_length in Hrange.
      apply NoDup_nth_error. intros i k Hi Hik.
      assert (Hk : (k < length ps)%nat).
      { apply nth_error_Some. rewrite <- Hik. apply nth_error_Some. exact Hi. }
      rewrite (Hnth i) in Hik by lia. rewrite (Hnth k) in Hik by lia.
      pose proof (Hrange (Z.of_nat i) ltac:(lia)) as Ri. pose proof (Hrange (Z.of_nat k) ltac:(lia)) as Rk.
      rewrite !nth_error_nth' with (d := 0%nat) in Hik by (rewrite seq_length; lia).
      rewrite !seq_nth in Hik by lia. inversion Hik as [Heq].
      assert (Z.of_nat i * c = Z.of_nat k * c) by lia.
      assert (Z.of_nat i = Z.of_nat k) by nia. lia.
    + unfold getslice in H. rewrite E in H. discriminate.
  - intros p Hp. apply getslice_incl in H. apply H in Hp. apply in_seq in Hp. lia.
Qed.

Lemma upd_positions_spec j v : forall ps b r, NoDup ps -> (forall p, In p ps -> (p < length b)%nat) ->
  upd_positions b ps j v = Ok r ->
  length r = length b /\
  (forall p, In p ps -> exists s s', nth_error b p = Some s /\ seq_setitem s j v = Ok s' /\ nth_error r p = Some s') /\
  (forall p, ~ In p ps -> nth_error r p = nth_error b p).
Proof.
  induction ps as [|q ps IH]; intros b r Hnd Hlt H; cbn [upd_positions] in H.
  - inversion H; subst. split; [reflexivity|]. split; [intros p []|reflexivity].
  - inversion Hnd as [|? ? Hq Hnd']; subst.
    destruct (nth_error b q) as [s|] eqn:Eq; [|discriminate].
    destruct (seq_setitem s j v) as [s'|e] eqn:Es; [|discriminate].
    set (b' := set_nth b q s') in *.
    assert (Hl' : length b' = length b) by apply set_nth_length.
    assert (Hlt' : forall p, In p ps -> (p < length b')%nat) by (intros p Hp; rewrite Hl'; apply Hlt; right; exact Hp).
    destruct (IH b' r Hnd' Hlt' H) as (IL & II & IO).
    split; [lia|]. split.
    + intros p [->|Hp].
      * exists s, s'. split; [exact Eq|]. split; [exact Es|].
        rewrite IO by exact Hq. apply set_nth_same. apply Hlt. left; reflexivity.
      * destruct (II p Hp) as (t & t' & H1 & H2 & H3). exists t, t'.
        split; [|split; assumption].
        rewrite <- H1. symmetry. apply set_nth_other. intros ->. contradiction.
    + intros p Hp. rewrite IO by (intros Hin; apply Hp; right; exact Hin).
      apply set_nth_other. intros ->. apply Hp. left; reflexivity.
Qed.

Lemma getslice_map {A B} (f : A -> B) (l : list A) sl :
  getslice (map f l) sl = match getslice l sl with Ok r => Ok (map f r) | Err e => Err e end.
Proof.
  unfold getslice. rewrite map_length.
  destruct (slice_indices (Z.of_nat (length l)) sl) as [[[[a b] c] n]|]; [|reflexivity].
  destruct (n <=? 0); [reflexivity|]. destruct (c =? 1).
  - rewrite skipn_map, firstn_map. reflexivity.
  - f_equal. generalize (Z.to_nat n) as m. intros m. revert a.
    induction m as [|m IH]; intros a; [reflexivity|]. cbn [take_step].
    rewrite nth_error_map. destruct (nth_error l (Z.to_nat a)); [|reflexivity]. cbn [option_map map]. rewrite IH. reflexivity.
Qed.

Lemma basket_set_slj_any b sl j v r : basket_set_slj b sl j v = Ok r ->
  exists ps, getslice (seq 0 (length b)) sl = Ok ps /\
    getslice b sl = Ok (map (fun p => nth p b (mkseq [] [])) ps) /\
    length r = length b /\
    (forall p, In p ps -> exists s s', nth_error b p = Some s /\ seq_setitem s j v = Ok s' /\ nth_error r p = Some s') /\
    (forall p, ~ In p ps -> nth_error r p = nth_error b p).
Proof.
  unfold basket_set_slj. destruct (getslice (seq 0 (length b)) sl) as [ps|e] eqn:E; [|discriminate].
  intros H. exists ps. split; [reflexivity|].
  destruct (getslice_seq_positions _ _ _ E) as [Hnd Hlt]. split.
  - assert (Hb : b = map (fun p => nth p b (mkseq [] [])) (seq 0 (length b))).
    { clear. induction b as [|x b IH] using rev_ind; [reflexivity|].
      rewrite app_length, Nat.add_comm. cbn [length Nat.add]. rewrite seq_S, map_app. cbn [map Nat.add].
      rewrite app_nth2 by lia. rewrite Nat.sub_diag. cbn [nth]. f_equal.
      rewrite IH at 1. apply map_ext_in. intros p Hp. apply in_seq in Hp. rewrite app_nth1 by lia. reflexivity. }
    rewrite Hb at 1. rewrite getslice_map, E. reflexivity.
  - apply (upd_positions_spec j v ps b r Hnd Hlt H).
Qed.

(* ---------------- equality against arbitrary operands ---------------- *)
Lemma seq_eq_val_iff s o : seq_eq_val s o = true <-> o = VS (data s).
Proof.
  unfold seq_eq_val. destruct o; try (split; [discriminate|intros H; discriminate H]).
  rewrite str_eqb_eq. split; [intros ->; reflexivity|intros H; inversion H; reflexivity].
Qed.
Lemma basket_contains_iff b o : basket_contains b o = true <-> exists s, In s b /\ o = VS (data s).
Proof.
  unfold basket_contains. rewrite existsb_exists. split; intros (s & Hs & H); exists s; (split; [exact Hs|]); apply seq_eq_val_iff; exact H.
Qed.
Lemma basket_index_spec o : forall b k,
  match basket_index b o k with
  | Some i => exists b1 s b2, b = b1 ++ s :: b2 /\ i = k + Z.of_nat (length b1) /\ o = VS (data s) /\
                              forall x, In x b1 -> seq_eq_val x o = false
  | None => basket_contains b o = false
  end.
Proof.
  induction b as [|s b IH]; intros k; cbn [basket_index]; [reflexivity|].
  destruct (seq_eq_val s o) eqn:E.
  - exists [], s, b. split; [reflexivity|]. split; [cbn; lia|]. split; [apply seq_eq_val_iff; exact E|intros x []].
  - specialize (IH (k + 1)). destruct (basket_index b o (k + 1)) as [i|].
    + destruct IH as (b1 & t & b2 & -> & -> & Ho & Hn). exists (s :: b1), t, b2.
      split; [reflexivity|]. split; [cbn [length]; lia|]. split; [exact Ho|].
      intros x [<-|Hx]; [exact E|apply Hn; exact Hx].
    + unfold basket_contains in *. cbn [existsb]. rewrite E, IH. reflexivity.
Qed.
Lemma basket_eq_list_iff : forall b os, basket_eq_list b os = true <-> os = map (fun s => VS (data s)) b.
Proof.
  induction b as [|s b IH]; intros [|o os]; cbn [basket_eq_list map]; split; try discriminate; try reflexivity.
  - intros H. apply andb_prop in H. destruct H as [H1 H2]. apply seq_eq_val_iff in H1. apply IH in H2. congruence.
  - intros H. inversion H; subst. apply andb_true_intro. split; [apply seq_eq_val_iff; reflexivity|apply IH; reflexivity].
Qed.

(* ---------------- exact rationals ---------------- *)
From Coq Require Import QArith.
Local Open Scope Q_scope.

Lemma Qsum_common (f : byte -> nat) (t : positive) (l : list byte) :
  fold_right Qplus 0 (map (fun c => Z.of_nat (f c) # t) l) == Z.of_nat (list_sum (map f l)) # t.
Proof.
  induction l as [|c l IH]; [reflexivity|].
  cbn [map fold_right]. rewrite IH. rewrite Qinv_plus_distr.
  change (list_sum (f c :: map f l)) with (f c + list_sum (map f l))%nat. rewrite Nat2Z.inj_add. reflexivity.
Qed.

Lemma counter_total_sum k : counter_total k = list_sum (map k all_bytes).
Proof.
  unfold counter_total, counter_items. rewrite fold_add_sum, sum_filter_nz, map_map. reflexivity.
Qed.

Lemma Qself n : (0 < n)%nat -> Z.of_nat n # Pos.of_nat n == 1.
Proof. intros H. unfold Qeq. cbn [Qnum Qden]. rewrite Nat2Pos.inj_compare || idtac. lia. Qed.

(* probabilities: each is count/total, they sum to 1 *)
Lemma prob_spec b k : countall b = Ok k -> (0 < length (concat (map data b)))%nat ->
  (forall c, prob_of k c == Z.of_nat (count c (concat (map data b))) # Pos.of_nat (length (concat (map data b)))) /\
  fold_right Qplus 0 (map (prob_of k) all_bytes) == 1.
Proof.
  intros H Hpos. assert (Hb : b <> []) by (intros ->; discriminate).
  destruct (countall_spec b Hb) as (k' & Hk' & Hc). rewrite H in Hk'. inversion Hk'; subst k'.
  destruct (countall_total b k H) as [Ht _]. split.
  - intros c. unfold prob_of. rewrite Ht, Hc. reflexivity.
  - unfold prob_of. rewrite Qsum_common. rewrite <- counter_total_sum, Ht. apply Qself. exact Hpos.
Qed.

Lemma gc_fraction_spec s :
  let gcn := (count "G"%byte s + count "C"%byte s)%nat in
  let atn := (count "A"%byte s + count "T"%byte s + count "U"%byte s)%nat in
  ((gcn + atn = 0)%nat -> gc_fraction s == 0) /\
  ((0 < gcn + atn)%nat -> gc_fraction s == Z.of_nat gcn # Pos.of_nat (gcn + atn)) /\
  0 <= gc_fraction s <= 1.
Proof.
  intros gcn atn. unfold gc_fraction, gc_counts. cbn [fst snd]. fold gcn. fold atn.
  destruct (Nat.eqb (gcn + atn) 0) eqn:E.
  - apply Nat.eqb_eq in E. split; [intros _; reflexivity|]. split; [intros H; lia|].
    split; unfold Qle; cbn; lia.
  - apply Nat.eqb_neq in E. split; [intros H; lia|]. split; [intros _; reflexivity|].
    split; unfold Qle; cbn [Qnum Qden]; lia.
Qed.
