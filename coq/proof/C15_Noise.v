(* C15 proofs, round 6: lines that carry nothing (blank lines, comments, repeated headers) may stand anywhere; a file
   without the terminator, or without the header line, reads to the same alignment. *)
From Coq Require Import List ZArith NArith Bool Arith Lia.
From Coq.Strings Require Import Byte.
Import ListNotations.
From SV Require Import Text G_flags C15_Model C15_Lemmas C15_Read C15_Fold.

(* items the reader's loop passes over: '' / '# STOCKHOLM...' lines and other comments (stockholm.py:120-121, 135-137) *)
Definition keeps (it : item) : bool := match it with IBlank | IComment _ => false | _ => true end.

Lemma step_noise s it : keeps it = false -> step s it = s.
Proof. destruct it; try discriminate; reflexivity. Qed.

Lemma fold_noise its : forall s, fold_left step (filter keeps its) s = fold_left step its s.
Proof.
  induction its as [|it its IH]; intros s; [reflexivity|]. cbn [filter fold_left].
  destruct (keeps it) eqn:E; cbn [fold_left]; [apply IH|]. rewrite (step_noise s it E). apply IH.
Qed.

Lemma run_items_noise {A} (parse : A -> item) ls : forall s,
  run_items parse (filter (fun l => keeps (parse l)) ls) s
  = (fst (run_items parse ls s), filter (fun l => keeps (parse l)) (snd (run_items parse ls s))).
Proof.
  induction ls as [|l ls IH]; intros s; [reflexivity|]. cbn [filter run_items].
  destruct (parse l) eqn:E; cbn [keeps run_items]; rewrite ?E; try (rewrite IH; reflexivity); reflexivity.
Qed.

(* the alignment read from a list of lines is the alignment read from its lines that are neither blank nor comments *)
Theorem read_lines_noise ls :
  fst (run_items parse_line (filter (fun l => keeps (parse_line l)) ls) st0) = fst (run_items parse_line ls st0).
Proof. rewrite run_items_noise. reflexivity. Qed.

Lemma run_items_all_good {A} (parse : A -> item) ls : forall s, forallb good (map parse ls) = true ->
  run_items parse ls s = (Some (fold_left step (map parse ls) s), []).
Proof.
  induction ls as [|l ls IH]; intros s H; [reflexivity|]. cbn [map forallb] in H. apply andb_prop in H. destruct H as [H1 H2].
  cbn [run_items map fold_left]. rewrite <- (IH (step s (parse l)) H2). destruct (parse l); try discriminate; reflexivity.
Qed.

(* a file that ends without the "//" line is read completely *)
Theorem read_unterminated a : wf_aln a = true -> read_text (concat (map addnl (content_lines a))) = (Some a, []).
Proof.
  intros Hwf. pose proof (wf_aln_ok a Hwf) as Hok. unfold read_text.
  rewrite <- (app_nil_r (concat (map addnl (content_lines a)))). rewrite (py_lines_lines _ [] (lines_no_nl a Hok)).
  cbn [py_lines]. rewrite app_nil_r.
  pose proof (run_items_all_good parse_line (map addnl (content_lines a)) st0) as R.
  pose proof (lines_items a Hok) as L. unfold pl, str in *. rewrite map_map in R. rewrite L in R.
  rewrite (R (items_good a)). cbn [option_map concat]. rewrite (fold_items a Hok). reflexivity.
Qed.

(* the header line is not needed when the format is given (it is what detection looks at) *)
Theorem read_headerless a rest : wf_aln a = true ->
  read_text (concat (map addnl (tl (content_lines a))) ++ ENDL ++ rest) = (Some a, rest).
Proof.
  intros Hwf. pose proof (wf_aln_ok a Hwf) as Hok. unfold read_text.
  assert (Hn : Forall no_nl (tl (content_lines a))) by (pose proof (lines_no_nl a Hok) as F; inversion F; assumption).
  rewrite (py_lines_lines _ _ Hn). unfold ENDL. rewrite <- app_assoc. cbn [app].
  rewrite (py_lines_line (bs "//"%bs) rest eq_refl).
  assert (LT : map pl (tl (content_lines a)) = tl (items_of a))
    by (rewrite <- (lines_items a Hok); unfold content_lines; reflexivity).
  assert (HI : items_of a = IBlank :: tl (items_of a)) by reflexivity.
  pose proof (run_items_app parse_line (map addnl (tl (content_lines a))) (bs "//"%bs ++ [NL]) (py_lines rest) st0) as R.
  rewrite map_map in R. change (fun x : str => parse_line (addnl x)) with pl in R. unfold str in *. rewrite LT in R. rewrite R; clear R.
  - cbn [option_map]. pose proof (fold_items a Hok) as F. rewrite HI in F. cbn [fold_left step] in F. rewrite F, concat_py_lines. reflexivity.
  - pose proof (items_good a) as G. rewrite HI in G. cbn [forallb good andb] in G. exact G.
  - reflexivity.
Qed.

(* ------------------------------------------------------------------ the same on the text of a file *)
Inductive lwf : list str -> Prop :=
| lwf_nil : lwf []
| lwf_last x : x <> [] -> no_nl x -> lwf [x]
| lwf_cons b r : no_nl b -> lwf r -> lwf ((b ++ [NL]) :: r).

Lemma py_lines_lwf t : lwf (py_lines t).
Proof.
  induction t as [|c t IH]; [constructor|]. cbn [py_lines]. destruct (byte_eqb c NL) eqn:E.
  - apply byte_eqb_eq in E. subst c. apply (lwf_cons [] _ eq_refl IH).
  - inversion IH as [Hn|x Hx Hnl Hn|b r Hb Hr Hn].
    + apply lwf_last; [discriminate|]. apply no_nl_cons; [exact E|reflexivity].
    + apply lwf_last; [discriminate|]. apply no_nl_cons; assumption.
    + apply (lwf_cons (c :: b) r); [apply no_nl_cons; assumption|exact Hr].
Qed.
Lemma py_lines_no_nl x : x <> [] -> no_nl x -> py_lines x = [x].
Proof.
  induction x as [|c x IH]; [congruence|]. intros _ H. unfold no_nl in H. cbn [forallb] in H. apply andb_prop in H. destruct H as [H1 H2].
  apply negb_true_iff in H1. cbn [py_lines]. rewrite H1. destruct x as [|d x]; [reflexivity|]. rewrite IH; [reflexivity|discriminate|exact H2].
Qed.
Lemma lwf_concat ls : lwf ls -> py_lines (concat ls) = ls.
Proof.
  induction 1 as [|x Hx Hn|b r Hb Hr IH]; [reflexivity| |].
  - cbn [concat]. rewrite app_nil_r. apply py_lines_no_nl; assumption.
  - cbn [concat]. rewrite <- app_assoc. cbn [app]. rewrite (py_lines_line b _ Hb), IH. reflexivity.
Qed.
Lemma lwf_filter p ls : lwf ls -> lwf (filter p ls).
Proof.
  induction 1 as [|x Hx Hn|b r Hb Hr IH]; cbn [filter]; [constructor| |].
  - destruct (p x); [apply lwf_last; assumption|constructor].
  - destruct (p (b ++ [NL])); [apply lwf_cons; assumption|exact IH].
Qed.

Definition keepl (l : str) : bool := keeps (parse_line l).
(* deleting every blank line, comment line and header line from a file does not change the alignment that is read *)
Theorem read_text_noise t : fst (read_text (concat (filter keepl (py_lines t)))) = fst (read_text t).
Proof.
  unfold read_text. rewrite (lwf_concat _ (lwf_filter keepl _ (py_lines_lwf t))). unfold keepl.
  rewrite run_items_noise. destruct (run_items parse_line (py_lines t) st0) as [o r]. reflexivity.
Qed.
