(* C07 proofs, part 6: the BioSeq / BioBasket wrappers. *)
From Coq Require Import List ZArith NArith Bool Lia Arith.
From Coq.Strings Require Import Byte.
Import ListNotations.
From SV Require Import Text C05_Model G_gc_ids G_c07_tabs C07_Model.

(* BioSeq.translate: data becomes the translation, type becomes aa; on an error nothing is returned *)
Lemma bioseq_translate_spec t o q :
  (forall q', bioseq_translate t o q = inl q' <-> (translate t o (b_data q) = Ok (b_data q') /\ b_type q' = AA)) /\
  (forall e, bioseq_translate t o q = inr e <-> translate t o (b_data q) = Err e).
Proof.
  unfold bioseq_translate. destruct (translate t o (b_data q)) as [a|e'].
  - split.
    + intros [d y]. cbn [b_data b_type]. split.
      * intros H. inversion H. split; reflexivity.
      * intros [H1 H2]. inversion H1. subst. reflexivity.
    + intros e. split; discriminate.
  - split.
    + intros q'. split; [discriminate|]. intros [H _]. discriminate.
    + intros e. split; intros H; inversion H; reflexivity.
Qed.

(* BioBasket.translate: same length; without error every sequence is translated; with an error the sequences before the
   failing one are translated and the failing one and everything after it are unchanged *)
Lemma basket_translate_spec t o : forall b,
  length (fst (basket_translate t o b)) = length b /\
  match snd (basket_translate t o b) with
  | None => Forall2 (fun q q' => bioseq_translate t o q = inl q') b (fst (basket_translate t o b))
  | Some e => exists p p' q rest, b = p ++ q :: rest /\ fst (basket_translate t o b) = p' ++ q :: rest /\
                Forall2 (fun x x' => bioseq_translate t o x = inl x') p p' /\ bioseq_translate t o q = inr e
  end.
Proof.
  induction b as [|q r (IHl & IH)]; cbn [basket_translate].
  - split; [reflexivity|constructor].
  - destruct (bioseq_translate t o q) as [q'|e] eqn:E.
    + destruct (basket_translate t o r) as [r' e']. cbn [fst snd] in *. split; [simpl; lia|].
      destruct e' as [e'|].
      * destruct IH as (p & p' & x & rest & H1 & H2 & H3 & H4).
        exists (q :: p), (q' :: p'), x, rest. subst. repeat split; try assumption. constructor; assumption.
      * constructor; assumption.
    + cbn [fst snd]. split; [reflexivity|]. exists [], [], q, r. repeat split; [constructor|exact E].
Qed.

Lemma upper1_idem b : upper1 (upper1 b) = upper1 b.
Proof. destruct b; vm_compute; reflexivity. Qed.
