(* C02 proofs, part 19: tables inside streams - what is read from a position behind earlier content. *)
From Coq Require Import List ZArith NArith Bool Lia.
From Coq.Strings Require Import Byte.
Import ListNotations.
From SV Require Import Text G_gff C02_Model C02_Lemmas C02_Order C02_Line C02_Score C02_Dict C02_Feat C02_Read C02_Lenient C02_Cycle.

Lemma skipn_length_app {A} (pre t : list A) : skipn (length pre) (pre ++ t) = t.
Proof. induction pre as [|a pre IH]; [reflexivity|exact IH]. Qed.
Lemma rest_seek pre t : stream_rest (PSeek (length pre)) (pre ++ t) = t.
Proof. exact (skipn_length_app pre t). Qed.
Lemma readline_line l t : has x0a l = false -> stream_readline (l ++ x0a :: t) = t.
Proof.
  induction l as [|b l IH]; intros H; [reflexivity|]. unfold has in H. cbn [existsb] in H. apply orb_false_elim in H. destruct H as [H1 H2].
  cbn [app stream_readline]. destruct (byte_eqb b x0a) eqn:E.
  - apply byte_eqb_eq in E. subst b. cbn in H1. discriminate.
  - exact (IH H2).
Qed.
Lemma iter_shift {A} (f : A -> A) n x : Nat.iter (S n) f x = Nat.iter n f (f x).
Proof. induction n as [|n IH]; [reflexivity|]. change (Nat.iter (S (S n)) f x) with (f (Nat.iter (S n) f x)). rewrite IH. reflexivity. Qed.
Lemma iter_readline ls t : Forall (fun l => has x0a l = false) ls ->
  Nat.iter (length ls) stream_readline (concat (map (fun l => l ++ nl) ls) ++ t) = t.
Proof.
  induction ls as [|l ls IH]; intros H; [reflexivity|]. inversion H as [|? ? Hl Hr]; subst.
  cbn [length map concat]. rewrite iter_shift, <- !app_assoc. unfold nl at 1. cbn [app].
  rewrite (readline_line l _ Hl). exact (IH Hr).
Qed.
Lemma rest_lines ls t : Forall (fun l => has x0a l = false) ls ->
  stream_rest (PLines (length ls)) (concat (map (fun l => l ++ nl) ls) ++ t) = t.
Proof. exact (iter_readline ls t). Qed.

(* a table read from the offset behind ANY earlier content is the table *)
Theorem read_at_offset pre t sep ft :
  run_C02_text_at (PSeek (length pre)) (pre ++ t) = run_C02_text t /\
  run_C02_xsvr_at sep ft (PSeek (length pre)) (pre ++ t) = run_C02_xsvr sep ft t.
Proof. unfold run_C02_text_at, run_C02_xsvr_at. rewrite rest_seek. split; reflexivity. Qed.
(* a table read behind title lines the caller skipped with readline() is the table *)
Theorem read_behind_titles ls t sep ft : Forall (fun l => has x0a l = false) ls ->
  run_C02_text_at (PLines (length ls)) (concat (map (fun l => l ++ nl) ls) ++ t) = run_C02_text t /\
  run_C02_xsvr_at sep ft (PLines (length ls)) (concat (map (fun l => l ++ nl) ls) ++ t) = run_C02_xsvr sep ft t.
Proof. intros H. unfold run_C02_text_at, run_C02_xsvr_at. rewrite (rest_lines ls t H). split; reflexivity. Qed.
(* two tables written one after the other into one stream: from the offset tell() gave in between, the second one is read *)
Theorem two_tables_offset a b ta tb : write_gff a = Some ta -> write_gff b = Some tb ->
  read_gff (stream_rest (PSeek (length ta)) (ta ++ tb)) = read_gff tb.
Proof. intros _ _. rewrite rest_seek. reflexivity. Qed.
Theorem two_tables_offset_xsv sep ft names names' a b :
  read_xsv sep ft (stream_rest (PSeek (length (write_xsv sep names' a))) (write_xsv sep names' a ++ write_xsv sep names b)) = read_xsv sep ft (write_xsv sep names b).
Proof. rewrite rest_seek. reflexivity. Qed.

(* ------------------------------------------------------------------ the same stream read from its start: the joined list *)
Definition ltext (ls : list str) : str := concat (map (fun t => t ++ nl) ls).
Lemma good_tss x : Forall good x ->
  exists tss, Forall2 (fun f ts => write_feat f = Some (ltext ts) /\ Forall (fun t => has x0a t = false) ts) x tss.
Proof.
  induction 1 as [|f x G _ [tss IH]]; [exists []; constructor|].
  destruct (good_lines f G) as [l0 [rest [texts [_ [Wf Fl]]]]]. exists (texts :: tss). constructor; [|exact IH]. split; [exact Wf|].
  clear -Fl. induction Fl as [|t gl ts gls [_ [_ [S _]]] _ IH']; constructor; assumption.
Qed.
Lemma write_gff_lines x tss :
  Forall2 (fun f ts => write_feat f = Some (ltext ts) /\ Forall (fun t => has x0a t = false) ts) x tss ->
  write_gff x = Some (ltext (header_line :: concat tss)) /\ Forall (fun t => has x0a t = false) (header_line :: concat tss).
Proof.
  intros F. destruct (concat_opt_feats x tss F) as [C N]. unfold write_gff. rewrite C. cbn [option_map]. split; [|constructor; [reflexivity|exact N]].
  rewrite header_eq. reflexivity.
Qed.
Lemma filter_skip_header A B :
  filter (fun l => negb (skippable l)) (header_line :: A ++ header_line :: B) = filter (fun l => negb (skippable l)) (header_line :: A ++ B).
Proof.
  change (header_line :: A ++ header_line :: B) with ((header_line :: A) ++ [header_line] ++ B).
  change (header_line :: A ++ B) with ((header_line :: A) ++ B). rewrite !filter_app. reflexivity.
Qed.
(* two tables written one after the other into one stream, read from the start of the stream: the table of the joined list
   (the version line of the second table is a comment to the reader) *)
Theorem two_tables_joined a b ta tb : Forall good a -> Forall good b -> write_gff a = Some ta -> write_gff b = Some tb ->
  exists tab, write_gff (a ++ b) = Some tab /\ read_gff (stream_rest (PSeek 0) (ta ++ tb)) = read_gff tab.
Proof.
  intros Ga Gb Wa Wb. destruct (good_tss a Ga) as [tsa Fa]. destruct (good_tss b Gb) as [tsb Fb].
  destruct (write_gff_lines a tsa Fa) as [Ea Na]. destruct (write_gff_lines b tsb Fb) as [Eb Nb].
  destruct (write_gff_lines (a ++ b) (tsa ++ tsb) (Forall2_app Fa Fb)) as [Eab Nab].
  rewrite Ea in Wa. rewrite Eb in Wb. inversion Wa; inversion Wb; subst ta tb. clear Wa Wb.
  eexists. split; [exact Eab|]. cbn [stream_rest skipn]. unfold read_gff. f_equal.
  unfold ltext. rewrite <- concat_app, <- map_app.
  rewrite !file_lines_concat by (try apply Forall_app; auto).
  rewrite concat_app. cbn [app].
  rewrite <- (read_ignores_comments (header_line :: concat tsa ++ header_line :: concat tsb)).
  rewrite <- (read_ignores_comments (header_line :: concat tsa ++ concat tsb)).
  rewrite filter_skip_header. reflexivity.
Qed.

Definition ex_title : list str := [bs "exported by some tool; the table starts in the next line"%bs; bs "start,stop,len"%bs].
Lemma ex_title_ok : Forall (fun l => has x0a l = false) ex_title /\
  stream_rest (PLines 2) (concat (map (fun l => l ++ nl) ex_title) ++ bs "##gff-version 3"%bs) = bs "##gff-version 3"%bs.
Proof. split; [repeat constructor|reflexivity]. Qed.
Lemma ex_two_tables_ok : Forall good [ex_cds] /\ Forall good [ex_cds; ex_cds] /\
  match write_gff [ex_cds], write_gff [ex_cds; ex_cds] with
  | Some t, Some t2 => match read_gff (t ++ t), read_gff t2 with Some r, Some r' => Nat.eqb (length r) (length r') && negb (Nat.eqb (length r) 0) | _, _ => false end
  | _, _ => false
  end = true.
Proof.
  assert (good ex_cds) as G by (split; [vm_compute; reflexivity|split; vm_compute; reflexivity]).
  split; [repeat constructor; exact G|]. split; [repeat constructor; exact G|]. vm_compute. reflexivity.
Qed.
