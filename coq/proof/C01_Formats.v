(* C01 proofs, part 2: fixpoint of the FASTA cycle, append, re-wrapping, header line, Stockholm, GFF, SJSON. *)
From Coq Require Import List ZArith NArith Bool Lia.
From Coq.Strings Require Import Byte.
Import ListNotations.
From SV Require Import Text C01_Lines G_codes G_c01_io C01_Model C01_Lemmas.

(* ---------------------------------------------------------------- FASTA: the object read back is a fixed point *)
Lemma header_suffix_norm f s : header_suffix (id_or_empty s) (norm_fasta f s) = header_suffix (id_or_empty s) s.
Proof.
  rewrite !header_suffix_eq. cbn [norm_fasta b_header]. rewrite header_suffix_eq.
  destruct (b_header s) as [h|]; [apply suffix_idem|].
  rewrite app_nil_r. unfold suffix_of. rewrite <- (app_nil_r (id_or_empty s)) at 2. rewrite removeprefix_app. reflexivity.
Qed.
Lemma id_or_empty_norm f s : id_or_empty (norm_fasta f s) = id_or_empty s.
Proof. reflexivity. Qed.
Lemma header_line_norm f s : fasta_header_line (norm_fasta f s) = fasta_header_line s.
Proof. unfold fasta_header_line. rewrite id_or_empty_norm, header_suffix_norm. reflexivity. Qed.
Lemma write_lines_norm f b : write_fasta_lines (map (norm_fasta f) b) = write_fasta_lines b.
Proof.
  unfold write_fasta_lines. rewrite map_map. f_equal. apply map_ext. intros s.
  unfold append_fasta_lines. rewrite header_line_norm. reflexivity.
Qed.
Lemma norm_fasta_idem f s : norm_fasta f (norm_fasta f s) = norm_fasta f s.
Proof.
  unfold norm_fasta at 1. rewrite id_or_empty_norm, header_suffix_norm. reflexivity.
Qed.

(* write -> read -> write gives the first text again, read gives the same objects again: every later cycle repeats *)
Theorem fasta_cycle b : forallb wfb_fasta b = true ->
  exists t, write_w Fasta b = Ok t /\ read_content Fasta t = Ok (map (norm_fasta Fasta) b)
            /\ write_w Fasta (map (norm_fasta Fasta) b) = Ok t.
Proof.
  intros H. destruct (fasta_roundtrip b H) as (t & Hw & Hr). exists t. split; [exact Hw|]. split; [exact Hr|].
  rewrite write_w_fasta in *. rewrite write_lines_norm. exact Hw.
Qed.

(* ---------------------------------------------------------------- mode 'a' *)
Theorem fasta_append b1 b2 :
  bind (write_w Fasta b1) (fun c1 => write_file Fasta true c1 b2) = write_w Fasta (b1 ++ b2)
  /\ write_dispatch Fasta true false b2 = Ok (CText (concat (map append_fasta b2))).
Proof.
  split; [|reflexivity].
  unfold write_w, write_file, write_dispatch. cbn. rewrite map_app, concat_app. reflexivity.
Qed.

(* ---------------------------------------------------------------- re-wrapping, blank lines, comment lines, case *)
Lemma payload_app a b : payload (a ++ b) = payload a ++ payload b.
Proof. unfold payload. rewrite filter_app, map_app, concat_app. reflexivity. Qed.

Lemma iter_body body : forall i h d rest, forallb is_body_line body = true ->
  iter_fasta (Some (i, h, d)) (body ++ rest) = iter_fasta (Some (i, h, d ++ payload body)) rest.
Proof.
  induction body as [|l body IH]; intros i h d rest H.
  - cbn. rewrite app_nil_r. reflexivity.
  - cbn [forallb] in H. apply andb_prop in H. destruct H as [Hl Hb].
    unfold is_body_line in Hl. apply negb_true_iff in Hl.
    cbn [app iter_fasta]. rewrite Hl.
    change (l :: body) with ([l] ++ body). rewrite payload_app.
    unfold payload at 1. cbn [filter]. destruct (head_is SEMI l) eqn:Es; cbn [negb map concat app].
    + apply IH. exact Hb.
    + rewrite IH by exact Hb. rewrite app_nil_r, app_assoc. reflexivity.
Qed.

Lemma iter_upper ls : forall i h d1 d2, upper d1 = upper d2 ->
  iter_fasta (Some (i, h, d1)) ls = iter_fasta (Some (i, h, d2)) ls.
Proof.
  induction ls as [|l ls IH]; intros i h d1 d2 E.
  - cbn. unfold bioseq. rewrite E. reflexivity.
  - cbn [iter_fasta]. destruct (head_is GT l).
    + cbn [flush create_bioseq]. unfold bioseq. rewrite E. reflexivity.
    + destruct (head_is SEMI l); [apply IH; exact E|].
      apply IH. rewrite !upper_app, E. reflexivity.
Qed.

(* two record bodies with the same residues up to case are read identically, whatever precedes and follows *)
Theorem fasta_rewrap body1 body2 hl rest st :
  forallb is_body_line body1 = true -> forallb is_body_line body2 = true ->
  head_is GT hl = true -> upper (payload body1) = upper (payload body2) ->
  iter_fasta st (hl :: body1 ++ rest) = iter_fasta st (hl :: body2 ++ rest).
Proof.
  intros H1 H2 Hh E. cbn [iter_fasta]. rewrite Hh.
  rewrite (iter_body body1 _ _ _ rest H1), (iter_body body2 _ _ _ rest H2).
  cbn [app]. rewrite (iter_upper rest _ _ _ _ E). reflexivity.
Qed.

(* instances: chunks of any width, blank lines, comment lines *)
Lemma forallb_firstn {A} (p : A -> bool) n l : forallb p l = true -> forallb p (firstn n l) = true.
Proof.
  revert l. induction n as [|n IH]; intros [|x l] H; try reflexivity. cbn in *. apply andb_prop in H. destruct H as [Hx Hl].
  rewrite Hx. apply IH. exact Hl.
Qed.
Lemma forallb_skipn {A} (p : A -> bool) n l : forallb p l = true -> forallb p (skipn n l) = true.
Proof.
  revert l. induction n as [|n IH]; intros [|x l] H; try reflexivity; try exact H. cbn in *. apply andb_prop in H. destruct H as [Hx Hl].
  apply IH. exact Hl.
Qed.

Lemma chunks_concat fuel : forall w s, w <> 0 -> length s <= fuel -> concat (chunks fuel w s) = s.
Proof.
  induction fuel as [|k IH]; intros w s Hw Hl.
  - destruct s; [reflexivity|cbn in Hl; lia].
  - destruct s as [|x s]; [reflexivity|]. cbn [chunks concat].
    rewrite IH; [apply firstn_skipn|exact Hw|].
    rewrite skipn_length. cbn [length] in *. lia.
Qed.
Lemma chunks_all fuel (p : str -> bool) (q : byte -> bool) :
  (forall c, c <> [] -> forallb q c = true -> p c = true) ->
  forall w s, w <> 0 -> forallb q s = true -> forallb p (chunks fuel w s) = true.
Proof.
  intros Hpq. induction fuel as [|k IH]; intros w s Hw Hs; [reflexivity|].
  destruct s as [|x s]; [reflexivity|]. cbn [chunks forallb].
  rewrite IH; [|exact Hw|apply forallb_skipn; exact Hs]. rewrite andb_true_r.
  apply Hpq; [destruct w; [contradiction|discriminate]|apply forallb_firstn; exact Hs].
Qed.

Lemma payload_clean body : forallb (fun l => negb (head_is SEMI l) && all_non_ws l) body = true -> payload body = concat body.
Proof.
  induction body as [|l body IH]; intros H; [reflexivity|].
  cbn [forallb] in H. apply andb_prop in H. destruct H as [Hl Hb]. apply andb_prop in Hl. destruct Hl as [H1 H2].
  change (l :: body) with ([l] ++ body). rewrite payload_app, (IH Hb).
  unfold payload. cbn [filter]. rewrite H1. cbn. rewrite app_nil_r. rewrite (strip_all_non_ws l H2). reflexivity.
Qed.

Theorem wrap_payload w s : w <> 0 -> residues_ok s = true ->
  payload (wrap w s) = s /\ forallb is_body_line (wrap w s) = true.
Proof.
  intros Hw Hs. unfold wrap. split.
  - rewrite payload_clean; [apply chunks_concat; [exact Hw|lia]|].
    apply (chunks_all _ _ is_residue); [|exact Hw|exact Hs].
    intros c Hc Hr. rewrite (head_is_residues SEMI c Hr (or_intror eq_refl)). cbn. apply residues_non_ws. exact Hr.
  - apply (chunks_all _ _ is_residue); [|exact Hw|exact Hs].
    intros c Hc Hr. unfold is_body_line. rewrite (head_is_residues GT c Hr (or_introl eq_refl)). reflexivity.
Qed.

Lemma payload_skip l : head_is SEMI l = true \/ strip l = [] -> payload [l] = [].
Proof.
  intros [H|H]; unfold payload; cbn [filter]; [rewrite H; reflexivity|].
  destruct (head_is SEMI l); cbn; [reflexivity|]. rewrite H. reflexivity.
Qed.
(* inserting a comment line or a blank line anywhere in a body does not change what is read *)
Theorem payload_insert a l b : head_is SEMI l = true \/ strip l = [] -> payload (a ++ l :: b) = payload (a ++ b).
Proof.
  intros H. change (l :: b) with ([l] ++ b). rewrite !payload_app, (payload_skip l H). reflexivity.
Qed.

(* blank lines and comment lines before the first header are skipped (fasta.py:74-80) *)
Definition is_skip_line (l : str) : bool := head_is SEMI l || match strip l with [] => true | _ => false end.
Lemma blank_not_gt l : strip l = [] -> head_is GT l = false.
Proof.
  destruct l as [|c l]; [reflexivity|]. cbn [head_is]. unfold strip. cbn [lstrip].
  destruct (is_ws c) eqn:W; [intros _; destruct c; try reflexivity; discriminate|].
  intros H. exfalso. revert H. apply rstrip_non_ws_head_ne. exact W.
Qed.
Theorem fasta_leading_skip pre rest : forallb is_skip_line pre = true ->
  iter_fasta None (pre ++ rest) = iter_fasta None rest.
Proof.
  induction pre as [|l pre IH]; intros H; [reflexivity|].
  cbn [forallb] in H. apply andb_prop in H. destruct H as [Hl Hp]. specialize (IH Hp).
  cbn [app iter_fasta]. unfold is_skip_line in Hl.
  destruct (head_is SEMI l) eqn:Es.
  - assert (Hg : head_is GT l = false).
    { destruct l as [|c l]; [reflexivity|]. cbn [head_is] in *. apply byte_eqb_eq in Es. subst. reflexivity. }
    rewrite Hg. exact IH.
  - cbn [orb] in Hl. destruct (strip l) eqn:Eb; [|discriminate]. rewrite (blank_not_gt l Eb). exact IH.
Qed.

(* ---------------------------------------------------------------- 'id description' header lines are kept verbatim *)
Theorem fasta_header_verbatim i d s : id_fasta_ok i = true -> d <> [] -> strip d = d -> residues_ok s = true ->
  exists r, read_fasta_lines [GT :: i ++ SP :: d; s] = Ok [r] /\ b_id r = Some i /\ b_data r = upper s
            /\ fasta_header_line r = GT :: i ++ SP :: d.
Proof.
  intros Hi Hd Hs Hres. destruct (id_fasta_ok_facts i Hi) as (Hne & Hg & Hchs & Hgt & Hid).
  destruct d as [|c r]; [contradiction|].
  assert (W : is_ws c = false) by (eapply strip_head_non_ws; exact Hs).
  assert (R : rstrip (c :: r) = c :: r).
  { unfold strip in Hs. rewrite (lstrip_non_ws c r W) in Hs. exact Hs. }
  assert (Hshape : SP :: c :: r = [] \/ exists c0 r0, SP :: c :: r = SP :: c0 :: r0 /\ is_ws c0 = false /\ rstrip (c0 :: r0) = c0 :: r0).
  { right. exists c, r. auto. }
  eexists. split.
  - unfold read_fasta_lines. cbn [iter_fasta head_is]. rewrite byte_eqb_refl.
    cbn [lstrip_ch]. rewrite byte_eqb_refl.
    assert (Hhd : head_is GT (i ++ SP :: c :: r) = false) by (rewrite head_is_app by exact Hne; exact Hgt).
    rewrite (lstrip_ch_no_head GT _ Hhd).
    rewrite (strip_id_suffix i _ Hne (graph_non_ws i Hg) Hshape).
    rewrite (id_from_header_prefix i _ Hne Hchs (or_intror (ex_intro _ _ eq_refl))). rewrite Hid.
    rewrite (head_is_residues GT _ Hres (or_introl eq_refl)). rewrite (head_is_residues SEMI _ Hres (or_intror eq_refl)).
    cbn [app bind flush]. rewrite (strip_all_non_ws _ (residues_non_ws _ Hres)). reflexivity.
  - cbn. split; [reflexivity|]. split; [reflexivity|].
    unfold fasta_header_line, header_suffix, id_or_empty. cbn [b_id b_header create_bioseq set_header bioseq].
    rewrite removeprefix_app. change (lstrip (SP :: c :: r)) with (lstrip (c :: r)). rewrite (lstrip_non_ws c r W).
    rewrite rstrip_cons_nonblank by (rewrite R; discriminate). rewrite R. reflexivity.
Qed.

(* ---------------------------------------------------------------- SJSON (tree level) *)
Lemma dec_enc_seq s : dec_seq (enc_seq s) = Ok (mk_bseq (upper (b_data s)) (b_id s) (b_nt s) None (b_fmt s)).
Proof.
  destruct s as [d i nt h f]. destruct i, h, f, nt; reflexivity.
Qed.
Lemma mapres_dec_enc b :
  mapres dec_seq (map enc_seq b) = Ok (map (fun s => mk_bseq (upper (b_data s)) (b_id s) (b_nt s) None (b_fmt s)) b).
Proof.
  induction b as [|s b IH]; [reflexivity|]. cbn [map mapres]. rewrite dec_enc_seq, IH. reflexivity.
Qed.

Theorem sjson_seq_roundtrip b : forallb data_upper b = true ->
  exists t, write_w Sjson b = Ok t /\ read_content Sjson t = Ok (map (norm_plain Sjson) b)
            /\ exists t2, write_w Sjson (map (norm_plain Sjson) b) = Ok t2
                          /\ read_content Sjson t2 = Ok (map (norm_plain Sjson) b).
Proof.
  intros H.
  assert (R : forall b0, forallb data_upper b0 = true ->
              read_content Sjson (CTree [enc_basket b0]) = Ok (map (norm_plain Sjson) b0)).
  { intros b0 H0. unfold read_content, dec_basket, enc_basket.
    change (keep_items
             [(FMTCOMMENT, TStr SJSON_COMMENT); (bs "data"%bs, TList (map enc_seq b0)); (bs "meta"%bs, enc_meta [])] ++
           [(CLS, TStr (bs "BioBasket"%bs))])
      with [(FMTCOMMENT, TStr SJSON_COMMENT); (bs "data"%bs, TList (map enc_seq b0)); (bs "meta"%bs, enc_meta []);
            (CLS, TStr (bs "BioBasket"%bs))].
    cbn [lookup]. change (str_eqb FMTCOMMENT CLS) with false. change (str_eqb (bs "data"%bs) CLS) with false.
    change (str_eqb (bs "meta"%bs) CLS) with false. change (str_eqb CLS CLS) with true. cbv iota.
    change (str_eqb FMTCOMMENT (bs "data"%bs)) with false. change (str_eqb (bs "data"%bs) (bs "data"%bs)) with true. cbv iota.
    change (str_eqb (bs "BioBasket"%bs) (bs "BioBasket"%bs) && _) with true. cbv iota.
    rewrite mapres_dec_enc. cbn [bind]. f_equal. rewrite map_map. apply map_ext_in. intros s Hs.
    rewrite forallb_forall in H0. specialize (H0 s Hs). unfold data_upper in H0. apply str_eqb_eq in H0.
    unfold set_fmt, norm_plain. cbn. rewrite H0. reflexivity. }
  exists (CTree [enc_basket b]). split; [reflexivity|]. split; [apply R; exact H|].
  exists (CTree [enc_basket (map (norm_plain Sjson) b)]). split; [reflexivity|].
  rewrite R.
  - f_equal. rewrite map_map. apply map_ext. intros s. reflexivity.
  - rewrite forallb_forall in *. intros s Hs. apply in_map_iff in Hs. destruct Hs as (s0 & E & Hs0). subst.
    unfold data_upper, norm_plain. cbn. apply H. exact Hs0.
Qed.

(* ---------------------------------------------------------------- header verbatim, in any position and with any body *)
Lemma desc_shape d : d <> [] -> strip d = d ->
  exists c r, d = c :: r /\ is_ws c = false /\ rstrip (c :: r) = c :: r.
Proof.
  intros Hd Hs. destruct d as [|c r]; [contradiction|].
  assert (W : is_ws c = false) by (eapply strip_head_non_ws; exact Hs).
  exists c, r. split; [reflexivity|]. split; [exact W|].
  unfold strip in Hs. rewrite (lstrip_non_ws c r W) in Hs. exact Hs.
Qed.

(* a '>id description' line opens a record with that id and header, whatever record precedes it; the body contributes its
   payload; and the header line written for the record is the line that was read *)
Theorem fasta_header_verbatim_general i d body rest st : id_fasta_ok i = true -> d <> [] -> strip d = d ->
  forallb is_body_line body = true ->
  iter_fasta st ((GT :: i ++ SP :: d) :: body ++ rest)
  = bind (iter_fasta (Some (Some i, i ++ SP :: d, payload body)) rest) (fun r => Ok (flush st ++ r))
  /\ forall x, fasta_header_line (create_bioseq (Some i, i ++ SP :: d, x)) = GT :: i ++ SP :: d.
Proof.
  intros Hi Hd Hs Hb. destruct (id_fasta_ok_facts i Hi) as (Hne & Hg & Hchs & Hgt & Hid).
  destruct (desc_shape d Hd Hs) as (c & r & Ed & W & R). subst d.
  split.
  - cbn [iter_fasta head_is]. rewrite byte_eqb_refl. cbn [lstrip_ch]. rewrite byte_eqb_refl.
    assert (Hhd : head_is GT (i ++ SP :: c :: r) = false) by (rewrite head_is_app by exact Hne; exact Hgt).
    rewrite (lstrip_ch_no_head GT _ Hhd).
    rewrite (strip_id_suffix i (SP :: c :: r) Hne (graph_non_ws i Hg)) by (right; exists c, r; auto).
    rewrite (id_from_header_prefix i _ Hne Hchs (or_intror (ex_intro _ _ eq_refl))). rewrite Hid.
    rewrite (iter_body body _ _ _ rest Hb). reflexivity.
  - intros x. unfold fasta_header_line, header_suffix, id_or_empty. cbn [b_id b_header create_bioseq set_header bioseq].
    rewrite removeprefix_app. change (lstrip (SP :: c :: r)) with (lstrip (c :: r)). rewrite (lstrip_non_ws c r W).
    rewrite rstrip_cons_nonblank by (rewrite R; discriminate). rewrite R. reflexivity.
Qed.
