(* C02 proofs, part 1: decimal round trip, quote/unquote, strip/split algebra. *)
From Coq Require Import List ZArith NArith Bool Lia Permutation Sorted.
From Coq.Strings Require Import Byte.
From Coq Require Decimal DecimalZ DecimalPos.
Import ListNotations.
From SV Require Import Text G_gff C02_Model.
Local Open Scope Z_scope.

(* ------------------------------------------------------------------ decimal numerals *)
Lemma digits_acc_pos : forall u p,
  digits_acc (uint_bytes u) (Zpos p) = Some (Zpos (Pos.of_uint_acc u p)).
Proof.
  induction u as [|u IH|u IH|u IH|u IH|u IH|u IH|u IH|u IH|u IH|u IH]; intros p;
    cbn [uint_bytes digits_acc digit_val Pos.of_uint_acc]; try reflexivity.
  - replace (Zpos p * 10 + 0) with (Zpos (Pos.mul 10 p)) by lia. apply IH.
  - replace (Zpos p * 10 + 1) with (Zpos (Pos.add 1 (Pos.mul 10 p))) by lia. apply IH.
  - replace (Zpos p * 10 + 2) with (Zpos (Pos.add 2 (Pos.mul 10 p))) by lia. apply IH.
  - replace (Zpos p * 10 + 3) with (Zpos (Pos.add 3 (Pos.mul 10 p))) by lia. apply IH.
  - replace (Zpos p * 10 + 4) with (Zpos (Pos.add 4 (Pos.mul 10 p))) by lia. apply IH.
  - replace (Zpos p * 10 + 5) with (Zpos (Pos.add 5 (Pos.mul 10 p))) by lia. apply IH.
  - replace (Zpos p * 10 + 6) with (Zpos (Pos.add 6 (Pos.mul 10 p))) by lia. apply IH.
  - replace (Zpos p * 10 + 7) with (Zpos (Pos.add 7 (Pos.mul 10 p))) by lia. apply IH.
  - replace (Zpos p * 10 + 8) with (Zpos (Pos.add 8 (Pos.mul 10 p))) by lia. apply IH.
  - replace (Zpos p * 10 + 9) with (Zpos (Pos.add 9 (Pos.mul 10 p))) by lia. apply IH.
Qed.

Lemma digits_acc_zero : forall u, digits_acc (uint_bytes u) 0 = Some (Z.of_N (Pos.of_uint u)).
Proof.
  induction u as [|u IH|u IH|u IH|u IH|u IH|u IH|u IH|u IH|u IH|u IH];
    cbn [uint_bytes digits_acc digit_val Pos.of_uint]; try reflexivity;
    try (change (0 * 10 + 0) with 0; exact IH);
    match goal with |- digits_acc _ ?a = _ => let v := eval vm_compute in a in change a with v end;
    rewrite digits_acc_pos; reflexivity.
Qed.

Lemma uint_bytes_nil : forall u, uint_bytes u = [] -> u = Decimal.Nil.
Proof. destruct u; cbn; intros H; try discriminate; reflexivity. Qed.

Lemma nat_of_dec_pos : forall p, nat_of_dec (uint_bytes (Pos.to_uint p)) = Some (Zpos p).
Proof.
  intros p. unfold nat_of_dec.
  destruct (uint_bytes (Pos.to_uint p)) eqn:E.
  - apply uint_bytes_nil in E. pose proof (DecimalPos.Unsigned.of_to p) as H. rewrite E in H. discriminate.
  - rewrite <- E. rewrite digits_acc_zero, DecimalPos.Unsigned.of_to. reflexivity.
Qed.

Definition is_digit_byte (c : byte) : bool := match digit_val c with Some _ => true | None => false end.
Lemma uint_bytes_digits : forall u, forallb is_digit_byte (uint_bytes u) = true.
Proof. induction u; cbn; auto. Qed.

Lemma Z_of_dec_digits : forall s, forallb is_digit_byte s = true -> Z_of_dec s = nat_of_dec s.
Proof.
  intros [|c r] H; [reflexivity|]. cbn in H. apply andb_prop in H. destruct H as [H _].
  destruct c; try discriminate H; reflexivity.
Qed.

Theorem Z_of_dec_of_Z : forall z, Z_of_dec (dec_of_Z z) = Some z.
Proof.
  intros [|p|p]; unfold dec_of_Z; cbn [Z.to_int].
  - reflexivity.
  - rewrite Z_of_dec_digits by apply uint_bytes_digits. apply nat_of_dec_pos.
  - cbn [Z_of_dec]. rewrite nat_of_dec_pos. reflexivity.
Qed.

(* ------------------------------------------------------------------ strip *)
Definition starts_ok (s : str) : bool := match s with c :: _ => nws c | [] => true end.
Definition ends_ok (s : str) : bool := starts_ok (rev s).
Lemma lstrip_id : forall s, starts_ok s = true -> lstrip s = s.
Proof. intros [|c r] H; [reflexivity|]. cbn in *. unfold nws in H. destruct (is_ws c); [discriminate|reflexivity]. Qed.
Lemma strip_id : forall s, starts_ok s = true -> ends_ok s = true -> strip s = s.
Proof.
  intros s H1 H2. unfold strip, rstrip. rewrite (lstrip_id s H1). rewrite (lstrip_id (rev s) H2). apply rev_involutive.
Qed.
Lemma forallb_rev {A} (f : A -> bool) l : forallb f (rev l) = forallb f l.
Proof.
  induction l as [|x l IH]; [reflexivity|]. cbn. rewrite forallb_app, IH. cbn. rewrite andb_true_r. apply andb_comm.
Qed.
Lemma starts_ok_all : forall s, forallb nws s = true -> starts_ok s = true.
Proof. intros [|c r] H; [reflexivity|]. cbn in *. apply andb_prop in H. tauto. Qed.
Lemma strip_nows : forall s, forallb nws s = true -> strip s = s.
Proof.
  intros s H. apply strip_id; [apply starts_ok_all; exact H|].
  unfold ends_ok. apply starts_ok_all. rewrite forallb_rev. exact H.
Qed.
Lemma forallb_impl {A} (f g : A -> bool) l : (forall x, f x = true -> g x = true) -> forallb f l = true -> forallb g l = true.
Proof. intros H. induction l as [|x l IH]; cbn; [auto|]. intros E. apply andb_prop in E. destruct E as [E1 E2]. rewrite (H _ E1), (IH E2). reflexivity. Qed.

Lemma digit_nws : forall c, is_digit_byte c = true -> nws c = true.
Proof. intros c; destruct c; cbn; intros H; try discriminate H; reflexivity. Qed.
Lemma dec_nows : forall z, forallb nws (dec_of_Z z) = true.
Proof.
  intros [|p|p]; unfold dec_of_Z; cbn [Z.to_int]; [reflexivity| |cbn [forallb]; rewrite andb_true_iff; split; [reflexivity|]];
    apply (forallb_impl is_digit_byte); auto using digit_nws, uint_bytes_digits.
Qed.
Theorem py_int_dec : forall z, py_int (dec_of_Z z) = Some z.
Proof. intros z. unfold py_int. rewrite strip_nows by apply dec_nows. apply Z_of_dec_of_Z. Qed.

(* ------------------------------------------------------------------ quote / unquote *)
Lemma unq3_hex : forall c, unq3 (hexdigitU (N.div (bcode c) 16)) (hexdigitU (N.modulo (bcode c) 16)) = Some c.
Proof. intros c; destruct c; vm_compute; reflexivity. Qed.
Lemma unres_not_pct : forall c, is_unreserved c = true -> byte_eqb c "%"%byte = false.
Proof. intros c; destruct c; vm_compute; intros H; try reflexivity; discriminate H. Qed.
Lemma quote_cons c s : quote (c :: s) = quote1 c ++ quote s.
Proof. reflexivity. Qed.
Lemma quote_app a b : quote (a ++ b) = quote a ++ quote b.
Proof. unfold quote. apply flat_map_app. Qed.

Theorem unquote_quote : forall s, unquote (quote s) = s.
Proof.
  induction s as [|c s IH]; [reflexivity|].
  rewrite quote_cons. unfold quote1. destruct (is_unreserved c) eqn:E.
  - cbn [app unquote]. rewrite (unres_not_pct c E). rewrite IH. reflexivity.
  - cbn [app unquote]. change (byte_eqb "%"%byte "%"%byte) with true. cbv iota.
    rewrite unq3_hex. rewrite IH. reflexivity.
Qed.

Lemma quote1_chars : forall c, forallb qchar_ok (quote1 c) = true.
Proof. intros c; destruct c; vm_compute; reflexivity. Qed.
Theorem quote_chars : forall s, forallb qchar_ok (quote s) = true.
Proof.
  induction s as [|c s IH]; [reflexivity|]. rewrite quote_cons, forallb_app, quote1_chars, IH. reflexivity.
Qed.
Lemma qchar_not_sep : forall c, qchar_ok c = true -> has c sep_chars = false /\ is_ws c = false.
Proof. intros c; destruct c; vm_compute; intros H; try discriminate H; split; reflexivity. Qed.
Theorem quote_safe : forall s c, In c (quote s) -> has c sep_chars = false /\ is_ws c = false.
Proof.
  intros s c H. apply qchar_not_sep. pose proof (quote_chars s) as Q. rewrite forallb_forall in Q. apply Q. exact H.
Qed.
(* the always-safe set regenerated from urllib is the documented one *)
Theorem safe_set_pinned : quote_safe_chars = bs "-./0123456789ABCDEFGHIJKLMNOPQRSTUVWXYZ_abcdefghijklmnopqrstuvwxyz~"%bs.
Proof. reflexivity. Qed.

Lemma has_false_forall c s : has c s = false <-> (forall x, In x s -> x <> c).
Proof.
  unfold has. split.
  - intros H x Hx E. subst x. assert (existsb (byte_eqb c) s = true) as T by (apply existsb_exists; exists c; split; [exact Hx|apply byte_eqb_refl]). congruence.
  - intros H. destruct (existsb (byte_eqb c) s) eqn:E; [|reflexivity]. apply existsb_exists in E. destruct E as [x [Hx E]].
    apply byte_eqb_eq in E. subst x. exfalso. apply (H c Hx). reflexivity.
Qed.
Lemma has_app c a b : has c (a ++ b) = has c a || has c b.
Proof. unfold has. apply existsb_app. Qed.
Lemma qchars_no c s : forallb qchar_ok s = true -> qchar_ok c = false -> has c s = false.
Proof.
  intros H Hc. apply has_false_forall. intros x Hx E. subst x. rewrite forallb_forall in H. rewrite (H c Hx) in Hc. discriminate.
Qed.
Lemma quote_no c s : qchar_ok c = false -> has c (quote s) = false.
Proof. intros Hc. apply qchars_no; [apply quote_chars|exact Hc]. Qed.
Lemma qchars_nws s : forallb qchar_ok s = true -> forallb nws s = true.
Proof. apply forallb_impl. intros x H. unfold nws. destruct (qchar_not_sep x H) as [_ E]. rewrite E. reflexivity. Qed.

(* ------------------------------------------------------------------ split / join *)
Lemma byte_eqb_sym a b : byte_eqb a b = byte_eqb b a.
Proof.
  destruct (byte_eqb a b) eqn:E1, (byte_eqb b a) eqn:E2; try reflexivity.
  - apply byte_eqb_eq in E1. subst. rewrite byte_eqb_refl in E2. discriminate.
  - apply byte_eqb_eq in E2. subst. rewrite byte_eqb_refl in E1. discriminate.
Qed.
Lemma has_cons_false c x p : has c (x :: p) = false -> byte_eqb x c = false /\ has c p = false.
Proof. cbn. intros H. apply orb_false_elim in H. destruct H as [H1 H2]. rewrite byte_eqb_sym. auto. Qed.

Lemma split_on_nosep c p : has c p = false -> split_on c p = [p].
Proof.
  induction p as [|x p IH]; intros H; [reflexivity|].
  apply has_cons_false in H. destruct H as [H1 H2].
  cbn [split_on]. rewrite H1, (IH H2). reflexivity.
Qed.
Lemma split_on_app c p r : has c p = false -> split_on c (p ++ c :: r) = p :: split_on c r.
Proof.
  induction p as [|x p IH]; intros H.
  - cbn [app split_on]. rewrite byte_eqb_refl. reflexivity.
  - apply has_cons_false in H. destruct H as [H1 H2].
    cbn [app split_on]. rewrite H1, (IH H2). reflexivity.
Qed.
Lemma split1_app c p r : has c p = false -> split1 c (p ++ c :: r) = Some (p, r).
Proof.
  induction p as [|x p IH]; intros H.
  - cbn [app split1]. rewrite byte_eqb_refl. reflexivity.
  - apply has_cons_false in H. destruct H as [H1 H2].
    cbn [app split1]. rewrite H1, (IH H2). reflexivity.
Qed.
Lemma join_cons2 sep x y l : join sep (x :: y :: l) = x ++ sep ++ join sep (y :: l).
Proof. reflexivity. Qed.
Theorem split_join : forall c l, l <> [] -> forallb (fun p => negb (has c p)) l = true -> split_on c (join [c] l) = l.
Proof.
  intros c l. induction l as [|x l IH]; intros Hne H; [congruence|].
  cbn [forallb] in H. apply andb_prop in H. destruct H as [Hx Hl]. apply negb_true_iff in Hx.
  destruct l as [|y l].
  - cbn [join]. apply split_on_nosep. exact Hx.
  - rewrite join_cons2. cbn [app]. rewrite split_on_app by exact Hx. rewrite IH; [reflexivity|discriminate|exact Hl].
Qed.

(* ------------------------------------------------------------------ column 9: key=value items *)
Definition ichar (c : byte) : bool := qchar_ok c || byte_eqb c "="%byte || byte_eqb c ","%byte.
Lemma ichar_nws : forall c, ichar c = true -> nws c = true.
Proof. intros c; destruct c; vm_compute; intros H; try discriminate H; reflexivity. Qed.
Lemma ichar_not_semi : forall c, ichar c = true -> byte_eqb c ";"%byte = false.
Proof. intros c; destruct c; vm_compute; intros H; try discriminate H; reflexivity. Qed.
Lemma qchar_ichar : forall c, qchar_ok c = true -> ichar c = true.
Proof. intros c H. unfold ichar. rewrite H. reflexivity. Qed.
Lemma forallb_join {P : byte -> bool} sep l :
  forallb P sep = true -> forallb (forallb P) l = true -> forallb P (join sep l) = true.
Proof.
  intros Hs. induction l as [|x l IH]; intros H; [reflexivity|].
  cbn [forallb] in H. apply andb_prop in H. destruct H as [Hx Hl].
  destruct l as [|y l]; [exact Hx|]. specialize (IH Hl). rewrite join_cons2, !forallb_app, Hx, Hs. cbn [andb]. exact IH.
Qed.
Lemma quotes_chars l : forallb (forallb qchar_ok) (map quote l) = true.
Proof. induction l as [|x l IH]; cbn; [reflexivity|]. rewrite quote_chars, IH. reflexivity. Qed.

Lemma quote_val_chars v q : quote_val v = Some q -> plain_val_ok v = true -> forallb ichar q = true.
Proof.
  destruct v as [s|l|t|z]; cbn; intros H P; try discriminate P; inversion H; subst.
  - apply (forallb_impl qchar_ok); [apply qchar_ichar|apply quote_chars].
  - apply forallb_join; [reflexivity|]. pose proof (quotes_chars l) as Q.
    revert Q. generalize (map quote l). intros m. induction m as [|x m IH]; cbn; [auto|].
    intros Q. apply andb_prop in Q. destruct Q as [Q1 Q2]. rewrite (forallb_impl qchar_ok ichar x qchar_ichar Q1), (IH Q2). reflexivity.
Qed.

Lemma map_unq_quote l : map (fun vv => unquote (strip vv)) (map quote l) = l.
Proof.
  induction l as [|x l IH]; [reflexivity|]. cbn [map]. rewrite IH.
  rewrite strip_nows by (apply qchars_nws, quote_chars). rewrite unquote_quote. reflexivity.
Qed.
Lemma has_join_two c x y l : has c (join [c] (x :: y :: l)) = true.
Proof. rewrite join_cons2, !has_app. cbn [has existsb]. rewrite byte_eqb_refl. cbn. rewrite orb_true_r. reflexivity. Qed.
Lemma nohas_quotes c l : qchar_ok c = false -> forallb (fun p => negb (has c p)) (map quote l) = true.
Proof. intros H. induction l as [|x l IH]; cbn; [reflexivity|]. rewrite (quote_no c x H), IH. reflexivity. Qed.

Theorem parse_kv_item : forall k v, plain_val_ok v = true -> parse_kv (item_text (k, v)) = Some (k, v).
Proof.
  intros k v P. unfold item_text. cbn [fst snd].
  destruct (quote_val v) as [q|] eqn:Q; [|destruct v; cbn in *; discriminate].
  pose proof (quote_val_chars v q Q P) as Cq.
  assert (forallb ichar (quote k ++ bs "="%bs ++ q) = true) as Call.
  { rewrite !forallb_app, Cq. rewrite (forallb_impl qchar_ok ichar _ qchar_ichar (quote_chars k)). reflexivity. }
  unfold parse_kv. rewrite strip_nows by (apply (forallb_impl ichar nws _ ichar_nws Call)).
  change (quote k ++ bs "="%bs ++ q) with (quote k ++ "="%byte :: q).
  rewrite split1_app by (apply quote_no; reflexivity).
  rewrite (strip_nows (quote k)) by (apply qchars_nws, quote_chars). rewrite unquote_quote.
  destruct v as [s|l|t|z]; cbn in P; try discriminate P; cbn in Q; inversion Q; subst q; clear Q.
  - rewrite (quote_no ","%byte s) by reflexivity.
    rewrite strip_nows by (apply qchars_nws, quote_chars). rewrite unquote_quote. reflexivity.
  - apply andb_prop in P. destruct P as [P _]. destruct l as [|x [|y l]]; try discriminate P.
    change (bs ","%bs) with [","%byte]. cbn [map]. rewrite has_join_two.
    rewrite (strip_nows (join _ _)) by (apply (forallb_impl ichar nws _ ichar_nws Cq)).
    change (quote x :: quote y :: map quote l) with (map quote (x :: y :: l)).
    rewrite split_join; [|discriminate|apply nohas_quotes; reflexivity].
    rewrite map_unq_quote. reflexivity.
Qed.

(* dict algebra *)
Lemma in_keys_false k d : in_keys k d = false <-> ~ In k (map fst d).
Proof.
  induction d as [|[k' v] d IH]; cbn; [tauto|]. split.
  - intros H. apply orb_false_elim in H. destruct H as [H1 H2]. intros [E|E].
    + subst. rewrite str_eqb_refl in H1. discriminate.
    + apply IH in H2. contradiction.
  - intros H. apply orb_false_intro.
    + destruct (str_eqb k' k) eqn:E; [|reflexivity]. apply str_eqb_eq in E. exfalso. apply H. left. exact E.
    + apply IH. intros E. apply H. right. exact E.
Qed.
Lemma aset_notin k v d : in_keys k d = false -> aset k v d = d ++ [(k, v)].
Proof.
  induction d as [|[k' v'] d IH]; cbn; [reflexivity|]. intros H. apply orb_false_elim in H. destruct H as [H1 H2].
  rewrite H1, (IH H2). reflexivity.
Qed.
Lemma in_keys_app k a b : in_keys k (a ++ b) = in_keys k a || in_keys k b.
Proof. unfold in_keys. apply existsb_app. Qed.
Lemma str_eqb_sym a b : str_eqb a b = str_eqb b a.
Proof.
  destruct (str_eqb a b) eqn:E1, (str_eqb b a) eqn:E2; try reflexivity.
  - apply str_eqb_eq in E1. subst. rewrite str_eqb_refl in E2. discriminate.
  - apply str_eqb_eq in E2. subst. rewrite str_eqb_refl in E1. discriminate.
Qed.

Lemma parse_kvs_items : forall d acc,
  plain_entries d = true -> keys_unique d = true -> (forall kv, In kv d -> in_keys (fst kv) acc = false) ->
  parse_kvs (map item_text d) acc = Some (acc ++ d).
Proof.
  induction d as [|[k v] d IH]; intros acc P U D; [cbn; rewrite app_nil_r; reflexivity|].
  cbn [plain_entries forallb snd] in P. apply andb_prop in P. destruct P as [Pv Pd].
  cbn [keys_unique] in U. apply andb_prop in U. destruct U as [Uk Ud]. apply negb_true_iff in Uk.
  cbn [map parse_kvs]. rewrite (parse_kv_item k v Pv).
  rewrite aset_notin by (apply (D (k, v)); left; reflexivity).
  rewrite IH; [rewrite <- app_assoc; reflexivity|exact Pd|exact Ud|].
  intros kv Hkv. rewrite in_keys_app. rewrite (D kv (or_intror Hkv)). cbn.
  rewrite orb_false_r. rewrite str_eqb_sym.
  change (in_keys k d = false) in Uk. unfold in_keys in Uk.
  destruct (str_eqb (fst kv) k) eqn:E; [|reflexivity].
  assert (existsb (fun kv0 => str_eqb (fst kv0) k) d = true) as T by (apply existsb_exists; exists kv; auto). congruence.
Qed.

Lemma render_attrs_plain d : plain_entries d = true -> render_attrs d = Some (map item_text d).
Proof.
  induction d as [|[k v] d IH]; intros P; [reflexivity|].
  cbn [plain_entries forallb snd] in P. apply andb_prop in P. destruct P as [Pv Pd].
  cbn [render_attrs map]. rewrite (IH Pd). unfold item_text. cbn [fst snd].
  destruct v as [s|l|t|z]; cbn in Pv; try discriminate Pv; reflexivity.
Qed.
Lemma item_chars kv : plain_val_ok (snd kv) = true -> forallb ichar (item_text kv) = true.
Proof.
  intros P. unfold item_text. destruct (quote_val (snd kv)) as [q|] eqn:Q.
  - rewrite !forallb_app, (quote_val_chars _ _ Q P), (forallb_impl qchar_ok ichar _ qchar_ichar (quote_chars (fst kv))). reflexivity.
  - rewrite !forallb_app, (forallb_impl qchar_ok ichar _ qchar_ichar (quote_chars (fst kv))). reflexivity.
Qed.
Lemma ichars_no_semi s : forallb ichar s = true -> has ";"%byte s = false.
Proof.
  intros H. apply has_false_forall. intros x Hx E. subst x. rewrite forallb_forall in H. specialize (H _ Hx). discriminate H.
Qed.

(* the attribute column written for a non-empty dict of plain values is read back as the same ordered dict *)
Theorem attrs_roundtrip : forall d, plain_entries d = true -> keys_unique d = true ->
  exists a, attrstr d = Some a /\ parse_attrs a = Some d.
Proof.
  intros d P U. destruct d as [|kv d].
  - exists dot. split; reflexivity.
  - unfold attrstr. rewrite (render_attrs_plain _ P). cbn [option_map]. eexists. split; [reflexivity|].
    unfold parse_attrs.
    assert (has "="%byte (join (bs ";"%bs) (map item_text (kv :: d))) = true) as Heq.
    { cbn [map]. destruct (map item_text d) as [|y m]; [cbn [join]|rewrite join_cons2, has_app];
        unfold item_text; rewrite !has_app; cbn; rewrite ?orb_true_r; reflexivity. }
    destruct (str_eqb _ dot) eqn:E.
    + apply str_eqb_eq in E. rewrite E in Heq. discriminate Heq.
    + change (bs ";"%bs) with [";"%byte]. rewrite split_join.
      * rewrite parse_kvs_items; [reflexivity|exact P|exact U|intros; reflexivity].
      * discriminate.
      * clear -P. revert P. generalize (kv :: d). intros l. induction l as [|x l IH]; cbn; [auto|].
        intros P. apply andb_prop in P. destruct P as [P1 P2]. rewrite (ichars_no_semi _ (item_chars x P1)), (IH P2). reflexivity.
Qed.
