(* C06 proofs: slicing / mirroring lemmas (DESIGN appendix E), FeatureList.slice and rc characterisations,
   extraction by locations, dispatch. *)
From Coq Require Import List ZArith NArith Bool Lia ZifyBool Permutation.
From Coq.Strings Require Import Byte.
Import ListNotations.
From SV Require Import Text G_codes G_flags C05_Model C05_Lemmas C06_Model.
Local Open Scope Z_scope.

Ltac bytes c := destruct c; vm_compute; try reflexivity; try discriminate; auto.

(* ------------------------------------------------------------------ lists *)
Section Lists.
Context {A : Type}.
Lemma skipn_skipn' (l : list A) : forall n m, skipn n (skipn m l) = skipn (m + n) l.
Proof.
  induction l as [|a l IH]; intros n m.
  - rewrite !skipn_nil. reflexivity.
  - destruct m as [|m]; simpl; [reflexivity|]. apply IH.
Qed.

(* a location inside the window addresses the same residues (appendix E) *)
Lemma sub_sub (s : list A) (lo hi x y : nat) : (lo <= x)%nat -> (x <= y)%nat -> (y <= hi)%nat ->
  sub (sub s lo hi) (x - lo) (y - lo) = sub s x y.
Proof.
  intros H1 H2 H3. unfold sub.
  rewrite skipn_firstn_comm, skipn_skipn', firstn_firstn.
  replace (lo + (x - lo))%nat with x by lia.
  f_equal. lia.
Qed.

Lemma sub_length (s : list A) x y : (x <= y)%nat -> (y <= length s)%nat -> length (sub s x y) = (y - x)%nat.
Proof. intros H1 H2. unfold sub. rewrite firstn_length, skipn_length. lia. Qed.

Lemma sub_full (s : list A) : sub s 0 (length s) = s.
Proof. unfold sub. simpl. rewrite Nat.sub_0_r. apply firstn_all. Qed.

Lemma sub_map {B} (f : A -> B) (s : list A) x y : sub (map f s) x y = map f (sub s x y).
Proof. unfold sub. rewrite skipn_map, firstn_map. reflexivity. Qed.

(* the mirrored location addresses the reversed residues (appendix E) *)
Lemma sub_rev (s : list A) x y : (x <= y)%nat -> (y <= length s)%nat ->
  sub (rev s) (length s - y) (length s - x) = rev (sub s x y).
Proof.
  intros Hxy Hy. unfold sub.
  rewrite skipn_rev.
  rewrite firstn_rev, firstn_length.
  f_equal.
  replace (length s - (length s - y))%nat with y by lia.
  replace (Nat.min y (length s)) with y by lia.
  replace (y - (length s - x - (length s - y)))%nat with x by lia.
  rewrite skipn_firstn_comm. reflexivity.
Qed.

Lemma In_firstn (l : list A) : forall n a, In a (firstn n l) -> In a l.
Proof.
  induction l as [|b l IH]; intros [|n] a H; simpl in *; try contradiction.
  destruct H as [H|H]; [left; exact H|right; eapply IH; exact H].
Qed.
Lemma In_skipn (l : list A) : forall n a, In a (skipn n l) -> In a l.
Proof.
  induction l as [|b l IH]; intros [|n] a H; simpl in *; try contradiction; try exact H.
  right. eapply IH; exact H.
Qed.
Lemma forallb_sub (p : A -> bool) (s : list A) x y : forallb p s = true -> forallb p (sub s x y) = true.
Proof.
  intros H. rewrite forallb_forall in *. intros a Ha. apply H.
  unfold sub in Ha. apply In_firstn in Ha. apply In_skipn in Ha. exact Ha.
Qed.
End Lists.

(* ------------------------------------------------------------------ str: upper, slices *)
Lemma upper1_idem c : upper1 (upper1 c) = upper1 c.
Proof. bytes c. Qed.
Lemma upper_idem s : upper (upper s) = upper s.
Proof. unfold upper. rewrite map_map. apply map_ext. exact upper1_idem. Qed.
Lemma upper_length s : length (upper s) = length s.
Proof. apply map_length. Qed.
Lemma alpha_upper1 c : in_alpha c = true -> upper1 c = c.
Proof. bytes c. Qed.
Lemma alpha_upper s : forallb in_alpha s = true -> upper s = s.
Proof.
  induction s as [|c s IH]; simpl; intros H; [reflexivity|].
  apply andb_prop in H. destruct H as [H1 H2]. rewrite alpha_upper1, IH; auto.
Qed.
Lemma upper_sub s x y : upper (sub s x y) = sub (upper s) x y.
Proof. unfold upper. symmetry. apply sub_map. Qed.

Lemma py_slice_in {A} (s : list A) x y : 0 <= x <= Z.of_nat (length s) -> 0 <= y <= Z.of_nat (length s) ->
  py_slice s (Some x) (Some y) = sub s (Z.to_nat x) (Z.to_nat y).
Proof.
  intros Hx Hy. unfold py_slice, slice_bounds, clampZ.
  destruct (x <? 0) eqn:E1; [lia|]. destruct (y <? 0) eqn:E2; [lia|].
  rewrite !Z.min_l by lia. reflexivity.
Qed.
Lemma py_slice_bounds {A} (s : list A) a b :
  py_slice s a b = sub s (Z.to_nat (fst (slice_bounds (Z.of_nat (length s)) a b)))
                         (Z.to_nat (snd (slice_bounds (Z.of_nat (length s)) a b))).
Proof. reflexivity. Qed.
Lemma slice_bounds_range len a b : 0 <= len ->
  0 <= fst (slice_bounds len a b) <= len /\ 0 <= snd (slice_bounds len a b) <= len.
Proof.
  intros H. unfold slice_bounds, clampZ; simpl.
  split.
  - destruct a as [i|]; [destruct (i <? 0) eqn:E; lia|lia].
  - destruct b as [i|]; [destruct (i <? 0) eqn:E; lia|lia].
Qed.
Lemma zsub_length s x y : 0 <= x <= y -> y <= Z.of_nat (length s) -> Z.of_nat (length (zsub s x y)) = y - x.
Proof. intros H1 H2. unfold zsub. rewrite sub_length; lia. Qed.

(* ------------------------------------------------------------------ rc on the nucleotide alphabet *)
Lemma rc_alpha_map s : forallb in_alpha s = true -> rc s = rev (map trans1 s).
Proof.
  intros H. destruct (rc_defs s) as [_ E]. rewrite E.
  rewrite complement_pointwise; [reflexivity|apply alpha_no_U; exact H].
Qed.
Lemma rc_alpha s : forallb in_alpha s = true -> forallb in_alpha (rc s) = true.
Proof.
  intros H. destruct (rc_defs s) as [E _]. rewrite E. apply complement_alpha. apply rev_alpha. exact H.
Qed.
(* appendix E, second lemma, for sugar's rc *)
Lemma sub_rc s x y : forallb in_alpha s = true -> (x <= y)%nat -> (y <= length s)%nat ->
  sub (rc s) (length s - y) (length s - x) = rc (sub s x y).
Proof.
  intros Ha Hxy Hy.
  rewrite rc_alpha_map by exact Ha.
  rewrite rc_alpha_map by (apply forallb_sub; exact Ha).
  rewrite <- sub_map.
  rewrite <- (map_length trans1 s).
  apply sub_rev; [assumption|rewrite map_length; assumption].
Qed.

(* ------------------------------------------------------------------ strands and defects *)
Lemma strand_reverse_invol c : strand_reverse (strand_reverse c) = c.
Proof. bytes c. Qed.
Lemma strand_reverse_valid c : valid_strand (strand_reverse c) = valid_strand c.
Proof. bytes c. Qed.
Lemma strand_reverse_pm c : is_pm c = true -> is_pm (strand_reverse c) = true /\ strand_reverse c <> c.
Proof. bytes c; split; try reflexivity; discriminate. Qed.
Lemma strand_reverse_other c : is_pm c = false -> strand_reverse c = c.
Proof. bytes c. Qed.
Lemma minus_reverse c : is_pm c = true -> byte_eqb (strand_reverse c) S_REVERSE = negb (byte_eqb c S_REVERSE).
Proof. bytes c. Qed.

Definition defects256 : list N := map N.of_nat (seq 0 256).
Lemma defects256_In d : (d < 256)%N -> In d defects256.
Proof.
  intros H. unfold defects256. apply in_map_iff. exists (N.to_nat d). split; [apply N2Nat.id|].
  apply in_seq. lia.
Qed.
(* mirror image of a defect bit: LEFT <-> RIGHT inside each of the three pairs, other bits fixed *)
Definition mirror_bit (i : N) : N :=
  match i with 0 => 1 | 1 => 0 | 2 => 3 | 3 => 2 | 4 => 5 | 5 => 4 | j => j end%N.
Definition defect_reverse_ok (d : N) : bool :=
  N.eqb (defect_reverse (defect_reverse d)) d && N.ltb (defect_reverse d) 256 &&
  forallb (fun i => Bool.eqb (N.testbit (defect_reverse d) i) (N.testbit d (mirror_bit i))) [0;1;2;3;4;5;6;7]%N.
Lemma defect_reverse_all : forallb defect_reverse_ok defects256 = true.
Proof. vm_compute. reflexivity. Qed.
Lemma defect_reverse_spec d : (d < 256)%N ->
  defect_reverse (defect_reverse d) = d /\ (defect_reverse d < 256)%N /\
  forall i, (i < 8)%N -> N.testbit (defect_reverse d) i = N.testbit d (mirror_bit i).
Proof.
  intros H. pose proof defect_reverse_all as A. rewrite forallb_forall in A.
  specialize (A d (defects256_In d H)). unfold defect_reverse_ok in A.
  apply andb_prop in A. destruct A as [A A3]. apply andb_prop in A. destruct A as [A1 A2].
  split; [apply N.eqb_eq; exact A1|]. split; [apply N.ltb_lt; exact A2|].
  intros i Hi. rewrite forallb_forall in A3. apply eqb_prop. apply A3.
  assert (E : (i = 0 \/ i = 1 \/ i = 2 \/ i = 3 \/ i = 4 \/ i = 5 \/ i = 6 \/ i = 7)%N) by lia.
  simpl. intuition.
Qed.

Lemma cut_defect_spec lo hi l :
  cut_defect lo hi l = N.lor (N.lor (ldefect l) (if lstart l <? lo then D_MISS_LEFT else 0%N))
                             (if hi <? lstop l then D_MISS_RIGHT else 0%N).
Proof.
  unfold cut_defect. destruct (lstart l <? lo), (hi <? lstop l); rewrite ?N.lor_0_r; reflexivity.
Qed.
(* MISS_LEFT / MISS_RIGHT are set exactly when the location is cut (or were set before); other bits are kept *)
Lemma cut_defect_bits lo hi l :
  N.testbit (cut_defect lo hi l) 0 = N.testbit (ldefect l) 0 || (lstart l <? lo) /\
  N.testbit (cut_defect lo hi l) 1 = N.testbit (ldefect l) 1 || (hi <? lstop l) /\
  forall i, (2 <= i)%N -> N.testbit (cut_defect lo hi l) i = N.testbit (ldefect l) i.
Proof.
  rewrite cut_defect_spec. repeat split.
  - rewrite !N.lor_spec. destruct (lstart l <? lo), (hi <? lstop l); cbn; rewrite ?orb_false_r; reflexivity.
  - rewrite !N.lor_spec. destruct (lstart l <? lo), (hi <? lstop l); cbn; rewrite ?orb_false_r; reflexivity.
  - intros i Hi. rewrite !N.lor_spec.
    assert (E1 : N.testbit D_MISS_LEFT i = false).
    { change D_MISS_LEFT with (2 ^ 0)%N. apply N.pow2_bits_false. lia. }
    assert (E2 : N.testbit D_MISS_RIGHT i = false).
    { change D_MISS_RIGHT with (2 ^ 1)%N. rewrite N.pow2_bits_false; [reflexivity|]. 
      destruct (N.eq_dec i 1); [|lia]. subst. exfalso. revert Hi. 
      (* i = 1 is excluded only for MISS_RIGHT when 2 <= i *) lia. }
    destruct (lstart l <? lo), (hi <? lstop l); rewrite ?E1, ?E2, ?N.bits_0, ?orb_false_r; reflexivity.
Qed.

(* ------------------------------------------------------------------ residues addressed by a location *)
Lemma piece_in s l : 0 <= lstart l -> lstart l <= lstop l -> lstop l <= Z.of_nat (length s) ->
  piece s l = spiece s (lstart l) (lstop l) (is_minus l).
Proof.
  intros H1 H2 H3. unfold piece, spiece, zsub. rewrite py_slice_in by lia. reflexivity.
Qed.

(* window_tracking core: inside the window [lo, hi) the shifted location addresses the same residues *)
Lemma piece_window s lo hi x y c d : 0 <= lo -> lo <= x -> x <= y -> y <= hi -> hi <= Z.of_nat (length s) ->
  piece (zsub s lo hi) (mkLoc (x - lo) (y - lo) c d) = spiece s x y (byte_eqb c S_REVERSE).
Proof.
  intros H0 H1 H2 H3 H4.
  assert (L : Z.of_nat (length (zsub s lo hi)) = hi - lo) by (apply zsub_length; lia).
  rewrite piece_in by (simpl; lia).
  unfold spiece, is_minus; simpl.
  assert (E : zsub (zsub s lo hi) (x - lo) (y - lo) = zsub s x y).
  { unfold zsub.
    replace (Z.to_nat (x - lo)) with (Z.to_nat x - Z.to_nat lo)%nat by lia.
    replace (Z.to_nat (y - lo)) with (Z.to_nat y - Z.to_nat lo)%nat by lia.
    apply sub_sub; lia. }
  rewrite E. reflexivity.
Qed.

(* rc_tracking core: the mirrored location on the flipped strand addresses the same residues of rc(s) *)
Lemma piece_rc s l : forallb in_alpha s = true ->
  0 <= lstart l -> lstart l <= lstop l -> lstop l <= Z.of_nat (length s) -> is_pm (lstrand l) = true ->
  piece (rc s) (loc_reverse (Z.of_nat (length s)) l) = piece s l.
Proof.
  intros Ha H1 H2 H3 Hpm.
  assert (Lr : length (rc s) = length s) by apply rc_length.
  rewrite (piece_in (rc s)) by (simpl; rewrite ?Lr; lia).
  rewrite (piece_in s) by lia.
  unfold spiece, is_minus. cbn [loc_reverse lstart lstop lstrand].
  rewrite minus_reverse by exact Hpm.
  assert (E : zsub (rc s) (Z.of_nat (length s) - lstop l) (Z.of_nat (length s) - lstart l)
              = rc (zsub s (lstart l) (lstop l))).
  { unfold zsub.
    replace (Z.to_nat (Z.of_nat (length s) - lstop l)) with (length s - Z.to_nat (lstop l))%nat by lia.
    replace (Z.to_nat (Z.of_nat (length s) - lstart l)) with (length s - Z.to_nat (lstart l))%nat by lia.
    apply sub_rc; [exact Ha|lia|lia]. }
  rewrite E.
  destruct (byte_eqb (lstrand l) S_REVERSE); cbn [negb]; [reflexivity|].
  apply rc_involutive. unfold zsub. apply forallb_sub. exact Ha.
Qed.

(* ------------------------------------------------------------------ LocationTuple *)
Definition all_strand (c : byte) (ls : list loc) : bool := forallb (fun l => byte_eqb (lstrand l) c) ls.
Lemma same_strand_all ls : same_strand ls = true -> exists c, all_strand c ls = true.
Proof.
  destruct ls as [|l0 r]; intros H; [exists S_FORWARD; reflexivity|].
  exists (lstrand l0). simpl. rewrite byte_eqb_refl. exact H.
Qed.
Lemma all_same_strand c ls : all_strand c ls = true -> same_strand ls = true.
Proof.
  destruct ls as [|l0 r]; intros H; [reflexivity|].
  simpl in *. apply andb_prop in H. destruct H as [H0 H]. apply byte_eqb_eq in H0. subst c. exact H.
Qed.
Lemma all_strand_filter c p ls : all_strand c ls = true -> all_strand c (filter p ls) = true.
Proof.
  unfold all_strand. rewrite !forallb_forall. intros H l Hl. apply filter_In in Hl. apply H. tauto.
Qed.
Lemma all_strand_map c (f : loc -> loc) ls : (forall l, lstrand (f l) = lstrand l) ->
  all_strand c ls = true -> all_strand c (map f ls) = true.
Proof.
  unfold all_strand. rewrite !forallb_forall. intros Hf H l Hl. apply in_map_iff in Hl.
  destruct Hl as (l0 & E & Hl0). subst l. rewrite Hf. apply H. exact Hl0.
Qed.
Lemma mk_loctuple_ok ls : ls <> [] -> same_strand ls = true -> mk_loctuple ls = Ok (sort_locs ls).
Proof. intros Hn Hs. unfold mk_loctuple. destruct ls; [congruence|]. rewrite Hs. reflexivity. Qed.

(* ------------------------------------------------------------------ FeatureList.slice *)
Definition loc_ok (l : loc) : bool := (lstart l <? lstop l) && valid_strand (lstrand l).
Definition ft_ok (f : feature) : bool := forallb loc_ok (flocs f) && same_strand (flocs f).

Lemma cut_loc_ok lo hi rel l : loc_ok l = true -> overlaps lo hi l = true ->
  cut_loc lo hi rel l = Ok (cut_spec lo hi rel l).
Proof.
  intros Hl Ho. unfold loc_ok in Hl. unfold overlaps in Ho.
  apply andb_prop in Hl. destruct Hl as [Hl Hv].
  unfold cut_loc, mk_loc. rewrite Hv.
  destruct (Z.min hi (lstop l) - rel <=? Z.max lo (lstart l) - rel) eqn:E; [lia|reflexivity].
Qed.
Lemma cut_locs_ok lo hi rel ls : forallb loc_ok ls = true ->
  cut_locs lo hi rel ls = Ok (map (cut_spec lo hi rel) (filter (overlaps lo hi) ls)).
Proof.
  induction ls as [|l r IH]; intros Hok; [reflexivity|].
  simpl in Hok. apply andb_prop in Hok. destruct Hok as [Hl Hr].
  cbn [cut_locs filter]. destruct (overlaps lo hi l) eqn:Eo.
  - rewrite cut_loc_ok; [|exact Hl|exact Eo].
    cbn [bind]. rewrite IH; [reflexivity|exact Hr].
  - apply IH. exact Hr.
Qed.
Lemma cut_same_strand lo hi rel ls : same_strand ls = true ->
  same_strand (map (cut_spec lo hi rel) (filter (overlaps lo hi) ls)) = true.
Proof.
  intros H. apply same_strand_all in H. destruct H as [c H].
  apply (all_same_strand c). apply all_strand_map; [reflexivity|]. apply all_strand_filter. exact H.
Qed.
Lemma fts_slice_ok lo hi rel fts : forallb ft_ok fts = true ->
  fts_slice lo hi rel fts = Ok (slice_spec lo hi rel fts).
Proof.
  induction fts as [|f r IH]; intros Hok; [reflexivity|].
  simpl in Hok. apply andb_prop in Hok. destruct Hok as [Hf Hr].
  unfold ft_ok in Hf. apply andb_prop in Hf. destruct Hf as [Hl Hs].
  specialize (IH Hr).
  cbn [fts_slice slice_spec flat_map].
  rewrite cut_locs_ok by exact Hl.
  cbn [bind]. unfold slice_ft_spec.
  pose proof (cut_same_strand lo hi rel (flocs f) Hs) as Hs'.
  destruct (map (cut_spec lo hi rel) (filter (overlaps lo hi) (flocs f))) as [|l0 ls] eqn:E.
  - exact IH.
  - rewrite mk_loctuple_ok; [|discriminate|exact Hs']. cbn [bind]. rewrite IH. reflexivity.
Qed.

(* ------------------------------------------------------------------ domain predicate consequences *)
Lemma loc_in_ok len l : loc_in len l = true -> loc_ok l = true.
Proof. unfold loc_in, loc_ok. intros H. lia. Qed.
Lemma loc_in_range len l : loc_in len l = true -> 0 <= lstart l /\ lstart l < lstop l /\ lstop l <= len.
Proof. unfold loc_in. intros H. lia. Qed.
Lemma ft_in_ok len f : ft_in len f = true -> ft_ok f = true.
Proof.
  unfold ft_in, ft_ok. intros H.
  apply andb_prop in H. destruct H as [H _]. apply andb_prop in H. destruct H as [H Hs].
  apply andb_prop in H. destruct H as [_ Hl]. rewrite Hs, andb_true_r.
  rewrite forallb_forall in *. intros l Hi. eapply loc_in_ok. apply Hl. exact Hi.
Qed.
Lemma fts_in_ok len fts : forallb (ft_in len) fts = true -> forallb ft_ok fts = true.
Proof. rewrite !forallb_forall. intros H f Hf. eapply ft_in_ok. apply H. exact Hf. Qed.
Lemma fts_in_loc len fts f l : forallb (ft_in len) fts = true -> In f fts -> In l (flocs f) -> loc_in len l = true.
Proof.
  intros H Hf Hl. rewrite forallb_forall in H. specialize (H f Hf). unfold ft_in in H.
  apply andb_prop in H. destruct H as [H _]. apply andb_prop in H. destruct H as [H _].
  apply andb_prop in H. destruct H as [_ H]. rewrite forallb_forall in H. apply H. exact Hl.
Qed.
Lemma new_seq_upper data fts : upper (sdata (new_seq data fts)) = sdata (new_seq data fts).
Proof. apply upper_idem. Qed.

Lemma piece_alpha s l : forallb in_alpha s = true -> forallb in_alpha (piece s l) = true.
Proof.
  intros H. unfold piece. rewrite py_slice_bounds.
  destruct (is_minus l); [apply rc_alpha|]; apply forallb_sub; exact H.
Qed.

(* ------------------------------------------------------------------ P0 window_tracking: seq.sl(update_fts=True)[a:b] *)
(* an empty window keeps nothing *)
Lemma slice_spec_empty lo hi rel fts : hi <= lo -> slice_spec lo hi rel fts = [].
Proof.
  intros He. unfold slice_spec. induction fts as [|f r IH]; [reflexivity|].
  cbn [flat_map]. rewrite IH, app_nil_r. unfold slice_ft_spec.
  assert (E : filter (overlaps lo hi) (flocs f) = []).
  { induction (flocs f) as [|l t IHt]; [reflexivity|]. cbn [filter].
    assert (O : overlaps lo hi l = false) by (unfold overlaps; lia). rewrite O. exact IHt. }
  rewrite E. reflexivity.
Qed.
Lemma window_piece s len lo hi l : len = Z.of_nat (length s) -> 0 <= lo -> hi <= len -> loc_in len l = true ->
  overlaps lo hi l = true ->
  piece (zsub s lo hi) (cut_spec lo hi lo l) = spiece s (Z.max lo (lstart l)) (Z.min hi (lstop l)) (is_minus l).
Proof.
  intros -> H0 H1 Hin Ho. apply loc_in_range in Hin. unfold overlaps in Ho.
  unfold cut_spec. unfold is_minus. apply piece_window; lia.
Qed.

Theorem window_tracking q a b step sp fi :
  let len := Z.of_nat (length (sdata q)) in
  let lo := fst (slice_bounds len a b) in
  let hi := snd (slice_bounds len a b) in
  upper (sdata q) = sdata q -> (step = None \/ step = Some 1) ->
  forallb (ft_in len) (sfts q) = true ->
  getitem q (WSlice a b step) true sp fi = Ok (mkSeq (zsub (sdata q) lo hi) (slice_spec lo hi lo (sfts q))) /\
  0 <= lo <= len /\ 0 <= hi <= len /\
  (hi <= lo -> slice_spec lo hi lo (sfts q) = []) /\
  forall f l, In f (sfts q) -> In l (flocs f) -> overlaps lo hi l = true ->
    lo < hi /\
    piece (zsub (sdata q) lo hi) (cut_spec lo hi lo l)
      = spiece (sdata q) (Z.max lo (lstart l)) (Z.min hi (lstop l)) (is_minus l).
Proof.
  intros len lo hi Hup Hstep Hin.
  pose proof (slice_bounds_range len a b ltac:(unfold len; lia)) as [Hlo Hhi]. fold lo in Hlo. fold hi in Hhi.
  split; [|split; [exact Hlo|split; [exact Hhi|split]]].
  - assert (E : getitem q (WSlice a b step) true sp fi =
                bind (fts_slice lo hi lo (sfts q)) (fun fts => Ok (mkSeq (upper (py_slice (sdata q) a b)) fts))).
    { unfold getitem. fold len. unfold lo, hi. destruct (slice_bounds len a b) as [x y]. simpl fst. simpl snd.
      destruct Hstep as [-> | ->]; reflexivity. }
    rewrite E. rewrite fts_slice_ok by (eapply fts_in_ok; exact Hin).
    cbn [bind]. rewrite py_slice_bounds. fold len. fold lo. fold hi.
    rewrite upper_sub, Hup. reflexivity.
  - intros He. apply slice_spec_empty. exact He.
  - intros f l Hf Hl Ho. split; [unfold overlaps in Ho; lia|].
    eapply window_piece; try reflexivity; try lia; try exact Ho.
    eapply fts_in_loc; eauto.
Qed.

(* int window: seq.sl(update_fts=True)[i] is the window [k, k+1) *)
Theorem int_window_tracking q i sp fi :
  let len := Z.of_nat (length (sdata q)) in
  let k := if i <? 0 then i + len else i in
  upper (sdata q) = sdata q -> forallb (ft_in len) (sfts q) = true -> 0 <= k < len ->
  getitem q (WInt i) true sp fi = Ok (mkSeq (zsub (sdata q) k (k + 1)) (slice_spec k (k + 1) k (sfts q))) /\
  forall f l, In f (sfts q) -> In l (flocs f) -> overlaps k (k + 1) l = true ->
    piece (zsub (sdata q) k (k + 1)) (cut_spec k (k + 1) k l)
      = spiece (sdata q) (Z.max k (lstart l)) (Z.min (k + 1) (lstop l)) (is_minus l).
Proof.
  intros len k Hup Hin Hk. split.
  - unfold getitem. fold len. fold k.
    destruct ((k <? 0) || (len <=? k)) eqn:E; [lia|].
    rewrite fts_slice_ok by (eapply fts_in_ok; exact Hin).
    cbn [bind]. rewrite upper_sub, Hup. reflexivity.
  - intros f l Hf Hl Ho. eapply window_piece; try reflexivity; try lia; try exact Ho.
    eapply fts_in_loc; eauto.
Qed.

(* ------------------------------------------------------------------ P0 rc_tracking: seq.rc(update_fts=True) *)
Theorem rc_tracking q :
  let len := Z.of_nat (length (sdata q)) in
  forallb in_alpha (sdata q) = true -> forallb (ft_in len) (sfts q) = true ->
  seq_rc q true = mkSeq (rc (sdata q)) (map (feature_rc len) (sfts q)) /\
  forall f l, In f (sfts q) -> In l (flocs f) ->
    let l' := loc_reverse len l in
    lstart l' = len - lstop l /\ lstop l' = len - lstart l /\ lstrand l' = strand_reverse (lstrand l) /\
    (is_pm (lstrand l) = true -> lstrand l' <> lstrand l /\ piece (rc (sdata q)) l' = piece (sdata q) l).
Proof.
  intros len Ha Hin. split.
  - unfold seq_rc, fts_rc. rewrite rc_length. reflexivity.
  - intros f l Hf Hl l'. split; [reflexivity|split; [reflexivity|split; [reflexivity|]]].
    intros Hpm. split.
    + apply strand_reverse_pm in Hpm. tauto.
    + pose proof (fts_in_loc _ _ _ _ Hin Hf Hl) as Hr. apply loc_in_range in Hr.
      apply piece_rc; try assumption; lia.
Qed.

(* ------------------------------------------------------------------ extraction by locations (_slice_locs) *)
Lemma join_locs_some s fi sp : forall ls p,
  join_locs s fi sp (Some p) ls =
  flat_map (fun pl => sep_spec fi sp (fst pl) (snd pl) ++ [piece s (snd pl)]) (combine (p :: ls) ls).
Proof.
  induction ls as [|l r IH]; intros p; [reflexivity|].
  cbn [join_locs combine flat_map fst snd]. rewrite IH. unfold sep_spec.
  destruct fi, sp; rewrite <- ?app_assoc; reflexivity.
Qed.
Lemma join_locs_spec s fi sp ls : join_locs s fi sp None ls = extract_spec s fi sp ls.
Proof.
  destruct ls as [|l0 r]; [reflexivity|].
  cbn [join_locs extract_spec]. rewrite join_locs_some.
  destruct fi, sp; reflexivity.
Qed.

(* P0 extract_spec: without update_fts the result is the 5'->3' concatenation of the pieces, features untouched *)
Theorem extract_locs q ls sp fi :
  slice_locs q ls sp fi false = Ok (mkSeq (upper (concat (extract_spec (sdata q) fi sp ls))) (sfts q)).
Proof. unfold slice_locs. rewrite join_locs_spec. reflexivity. Qed.

Lemma extract_plain_list s ls : extract_spec s None None ls = map (piece s) ls.
Proof.
  destruct ls as [|l0 r]; [reflexivity|]. unfold extract_spec. f_equal.
  revert l0. induction r as [|l r IH]; intros l0; [reflexivity|].
  cbn [combine flat_map map sep_spec fst snd app]. f_equal. apply IH.
Qed.
Lemma concat_alpha (xs : list str) : (forall x, In x xs -> forallb in_alpha x = true) -> forallb in_alpha (concat xs) = true.
Proof.
  induction xs as [|x r IH]; intros H; [reflexivity|].
  simpl. rewrite forallb_app. rewrite (H x) by (left; reflexivity). apply IH. intros y Hy. apply H. right. exact Hy.
Qed.
(* no filler / splitter: exactly the concatenation of the pieces *)
Theorem extract_plain q ls : forallb in_alpha (sdata q) = true ->
  slice_locs q ls None None false = Ok (mkSeq (concat (map (piece (sdata q)) ls)) (sfts q)).
Proof.
  intros Ha. rewrite extract_locs, extract_plain_list. rewrite alpha_upper; [reflexivity|].
  apply concat_alpha. intros x Hx. apply in_map_iff in Hx. destruct Hx as (l & <- & _). apply piece_alpha. exact Ha.
Qed.
(* splitter only: str.join of the pieces *)
Theorem extract_splitter s x ls : concat (extract_spec s None (Some x) ls) = py_join x (map (piece s) ls).
Proof.
  destruct ls as [|l0 r]; [reflexivity|]. unfold extract_spec. cbn [map].
  revert l0. induction r as [|l r IH]; intros l0.
  - simpl. apply app_nil_r.
  - cbn [combine flat_map fst snd sep_spec map].
    change (py_join x (piece s l0 :: piece s l :: map (piece s) r))
      with (piece s l0 ++ x ++ py_join x (piece s l :: map (piece s) r)).
    rewrite <- IH. cbn [app concat]. reflexivity.
Qed.

(* ------------------------------------------------------------------ dispatch *)
Lemma fts_get_find name fts : fts_get name fts = find (type_matches name) fts.
Proof.
  induction fts as [|f r IH]; [reflexivity|]. simpl. unfold type_matches at 1.
  destruct (ftype f) as [t|]; [destruct (str_eqb (lower t) (lower name)); [reflexivity|exact IH]|exact IH].
Qed.
(* indexing by a bare Location = by [loc]; by a Feature = by its locations; by a type name = by the first feature
   whose type matches case-insensitively (ValueError if there is none) *)
Theorem getitem_dispatch q u sp fi :
  (forall l, getitem q (WLoc l) u sp fi = slice_locs q [l] sp fi u) /\
  (forall ls, getitem q (WFeat ls) u sp fi = slice_locs q ls sp fi u) /\
  (forall name, getitem q (WType name) u sp fi =
     match find (type_matches name) (sfts q) with
     | Some f => slice_locs q (flocs f) sp fi u
     | None => Err E_Value
     end).
Proof.
  repeat split. intros name. unfold getitem. rewrite fts_get_find. reflexivity.
Qed.

(* ------------------------------------------------------------------ P0 no_update_keeps_fts *)
Theorem no_update_keeps_fts q w sp fi r : getitem q w false sp fi = Ok r -> sfts r = sfts q.
Proof.
  unfold getitem. destruct w as [i|a b step|l|ls|name|idx|].
  - destruct (_ || _); [discriminate|]. intros H. inversion H. reflexivity.
  - destruct step as [[|p|p]|]; try discriminate; intros H; inversion H; reflexivity.
  - rewrite extract_locs. intros H. inversion H. reflexivity.
  - rewrite extract_locs. intros H. inversion H. reflexivity.
  - destruct (fts_get name (sfts q)); [|discriminate]. rewrite extract_locs. intros H. inversion H. reflexivity.
  - destruct (nth_error _ _); [|discriminate]. rewrite extract_locs. intros H. inversion H. reflexivity.
  - discriminate.
Qed.
Lemma no_update_keeps_fts_rc q : sfts (seq_rc q false) = sfts q.
Proof. reflexivity. Qed.

(* ------------------------------------------------------------------ P0 feature_window_tracking:
   seq.sl(update_fts=True)[Location] / [single-location Feature], both strands *)
Lemma join_locs_single s fi sp l : join_locs s fi sp None [l] = [piece s l].
Proof. rewrite join_locs_spec. reflexivity. Qed.

Lemma cut_spec_range lo hi len l : loc_in len l = true -> overlaps lo hi l = true ->
  0 <= lstart (cut_spec lo hi lo l) /\ lstart (cut_spec lo hi lo l) < lstop (cut_spec lo hi lo l) /\
  lstop (cut_spec lo hi lo l) <= hi - lo.
Proof. intros Hin Ho. apply loc_in_range in Hin. unfold overlaps in Ho. simpl. lia. Qed.

Theorem feature_window_tracking q w sp fi :
  let len := Z.of_nat (length (sdata q)) in
  let lo := lstart w in
  let hi := lstop w in
  forallb in_alpha (sdata q) = true -> loc_in len w = true -> forallb (ft_in len) (sfts q) = true ->
  getitem q (WLoc w) true sp fi =
    Ok (mkSeq (piece (sdata q) w)
              (if is_minus w then fts_rc (hi - lo) (slice_spec lo hi lo (sfts q)) else slice_spec lo hi lo (sfts q))) /\
  piece (sdata q) w = spiece (sdata q) lo hi (is_minus w) /\
  forall f l, In f (sfts q) -> In l (flocs f) -> overlaps lo hi l = true -> is_pm (lstrand l) = true ->
    let c := cut_spec lo hi lo l in
    let l' := if is_minus w then loc_reverse (hi - lo) c else c in
    piece (piece (sdata q) w) l' = spiece (sdata q) (Z.max lo (lstart l)) (Z.min hi (lstop l)) (is_minus l).
Proof.
  intros len lo hi Ha Hw Hin.
  pose proof (loc_in_range _ _ Hw) as Hr. fold lo in Hr. fold hi in Hr.
  assert (Hp : piece (sdata q) w = spiece (sdata q) lo hi (is_minus w)) by (apply piece_in; unfold len in *; lia).
  split; [|split; [exact Hp|]].
  - unfold getitem, slice_locs.
    replace (1 <? Z.of_nat (length [w])) with false by reflexivity.
    cbn [range_start range_stop fold_left slice_each]. fold lo. fold hi.
    rewrite fts_slice_ok by (eapply fts_in_ok; exact Hin).
    cbn [bind]. rewrite app_nil_r.
    rewrite join_locs_single. cbn [concat]. rewrite app_nil_r.
    rewrite alpha_upper by (apply piece_alpha; exact Ha). reflexivity.
  - intros f l Hf Hl Ho Hpm c l'.
    pose proof (fts_in_loc _ _ _ _ Hin Hf Hl) as Hli.
    pose proof (cut_spec_range lo hi len l Hli Ho) as Hc. fold c in Hc.
    assert (Hu : piece (zsub (sdata q) lo hi) c
                 = spiece (sdata q) (Z.max lo (lstart l)) (Z.min hi (lstop l)) (is_minus l)).
    { eapply window_piece; try reflexivity; try exact Ho; try exact Hli; unfold len in *; lia. }
    assert (Lu : Z.of_nat (length (zsub (sdata q) lo hi)) = hi - lo) by (apply zsub_length; unfold len in *; lia).
    rewrite Hp. unfold spiece at 1. unfold l'. destruct (is_minus w).
    + rewrite <- Hu. rewrite <- Lu. apply piece_rc.
      * unfold zsub. apply forallb_sub. exact Ha.
      * lia.
      * lia.
      * lia.
      * exact Hpm.
    + exact Hu.
Qed.

(* ------------------------------------------------------------------ the 5'->3' sort: permutation, identity on ordered input *)
Lemma insert_by_perm lt x l : Permutation (insert_by lt x l) (x :: l).
Proof.
  induction l as [|y t IH]; [apply Permutation_refl|].
  simpl. destruct (lt y x); [|apply Permutation_refl].
  eapply perm_trans; [apply perm_skip; exact IH|apply perm_swap].
Qed.
Lemma sort_by_perm lt l : Permutation (sort_by lt l) l.
Proof.
  induction l as [|x t IH]; [apply perm_nil|].
  simpl. eapply perm_trans; [apply insert_by_perm|apply perm_skip; exact IH].
Qed.
Lemma sort_locs_perm ls : Permutation (sort_locs ls) ls.
Proof. unfold sort_locs. destruct ls as [|l0 r]; [apply perm_nil|]. destruct (is_minus l0); apply sort_by_perm. Qed.
Lemma sort_locs_In ls l : In l (sort_locs ls) <-> In l ls.
Proof.
  split; intros H.
  - eapply Permutation_in; [apply sort_locs_perm|exact H].
  - eapply Permutation_in; [apply Permutation_sym; apply sort_locs_perm|exact H].
Qed.
Lemma sort_by_ordered lt l : ordered lt l = true -> sort_by lt l = l.
Proof.
  induction l as [|x t IH]; [reflexivity|]. intros H. cbn [sort_by fold_right].
  change (fold_right (insert_by lt) [] t) with (sort_by lt t).
  destruct t as [|y t']; [reflexivity|].
  cbn [ordered] in H. apply andb_prop in H. destruct H as [H1 H2].
  rewrite IH by exact H2. cbn [insert_by]. apply negb_true_iff in H1. rewrite H1. reflexivity.
Qed.

(* survivors of a window: which locations, which features (order inside a feature: 5'->3', see sort_locs) *)
Theorem slice_spec_In lo hi rel fts f' : In f' (slice_spec lo hi rel fts) <->
  exists f, In f fts /\ existsb (overlaps lo hi) (flocs f) = true /\
            f' = mkFt (ftype f) (sort_locs (map (cut_spec lo hi rel) (filter (overlaps lo hi) (flocs f)))).
Proof.
  unfold slice_spec. rewrite in_flat_map. split.
  - intros (f & Hf & H). exists f. split; [exact Hf|]. unfold slice_ft_spec in H.
    destruct (filter (overlaps lo hi) (flocs f)) as [|l0 r] eqn:E; [contradiction|].
    cbn [map] in H. destruct H as [H|[]]. split; [|symmetry; exact H].
    apply existsb_exists. exists l0. apply filter_In. rewrite E. left. reflexivity.
  - intros (f & Hf & He & ->). exists f. split; [exact Hf|]. unfold slice_ft_spec.
    apply existsb_exists in He. destruct He as (l & Hl & Ho).
    assert (Hi : In l (filter (overlaps lo hi) (flocs f))) by (apply filter_In; tauto).
    destruct (filter (overlaps lo hi) (flocs f)) as [|l0 r]; [contradiction|].
    cbn [map]. left. reflexivity.
Qed.
Theorem slice_locs_In lo hi rel f l' :
  In l' (sort_locs (map (cut_spec lo hi rel) (filter (overlaps lo hi) (flocs f)))) <->
  exists l, In l (flocs f) /\ overlaps lo hi l = true /\ l' = cut_spec lo hi rel l.
Proof.
  rewrite sort_locs_In, in_map_iff. split.
  - intros (l & E & H). apply filter_In in H. exists l. split; [tauto|]. split; [tauto|]. symmetry; exact E.
  - intros (l & H1 & H2 & E). exists l. split; [symmetry; exact E|]. apply filter_In. tauto.
Qed.
(* mirrored locations of a feature under rc *)
Theorem feature_rc_In len f l' :
  In l' (flocs (feature_rc len f)) <-> exists l, In l (flocs f) /\ l' = loc_reverse len l.
Proof.
  unfold feature_rc. cbn [flocs]. rewrite sort_locs_In, in_map_iff. split.
  - intros (l & E & H). exists l. split; [exact H|symmetry; exact E].
  - intros (l & H & E). exists l. split; [symmetry; exact E|exact H].
Qed.

(* ------------------------------------------------------------------ P1: the 5'->3' order is kept by windows and by rc *)
(* every later element is not smaller than every earlier one *)
Fixpoint sordered (lt : loc -> loc -> bool) (l : list loc) : bool :=
  match l with
  | [] => true
  | x :: t => forallb (fun y => negb (lt y x)) t && sordered lt t
  end.
(* LocationTuple order: ascending start, or descending stop on the minus strand *)
Definition sorted53 (ls : list loc) : bool :=
  match ls with
  | [] => true
  | l0 :: _ => if is_minus l0 then sordered gt_stop ls else sordered lt_start ls
  end.

Lemma sordered_ordered lt l : sordered lt l = true -> ordered lt l = true.
Proof.
  induction l as [|x t IH]; [reflexivity|]. intros H. cbn [sordered] in H.
  apply andb_prop in H. destruct H as [H1 H2]. destruct t as [|y t']; [reflexivity|].
  change (ordered lt (x :: y :: t')) with (negb (lt y x) && ordered lt (y :: t')).
  rewrite IH by exact H2. cbn [forallb] in H1. apply andb_prop in H1. destruct H1 as [H1 _].
  rewrite H1. reflexivity.
Qed.
Lemma sort_by_sordered lt l : sordered lt l = true -> sort_by lt l = l.
Proof. intros H. apply sort_by_ordered. apply sordered_ordered. exact H. Qed.

Section SortSorted.
Variable lt : loc -> loc -> bool.
Hypothesis asym : forall a b, lt a b = true -> lt b a = false.
Hypothesis trans : forall a b c, lt b a = false -> lt c b = false -> lt c a = false.
Lemma insert_by_forall (p : loc -> bool) x l : p x = true -> forallb p l = true -> forallb p (insert_by lt x l) = true.
Proof.
  intros Hx. induction l as [|y t IH]; intros H; simpl; [rewrite Hx; reflexivity|].
  simpl in H. apply andb_prop in H. destruct H as [Hy Ht].
  destruct (lt y x); simpl; [rewrite Hy, IH by exact Ht; reflexivity|rewrite Hx, Hy, Ht; reflexivity].
Qed.
Lemma insert_by_sordered x l : sordered lt l = true -> sordered lt (insert_by lt x l) = true.
Proof.
  induction l as [|y t IH]; intros H; [reflexivity|].
  cbn [sordered] in H. apply andb_prop in H. destruct H as [H1 H2].
  cbn [insert_by]. destruct (lt y x) eqn:E.
  - cbn [sordered]. rewrite IH by exact H2. rewrite andb_true_r.
    apply insert_by_forall; [rewrite (asym _ _ E); reflexivity|exact H1].
  - cbn [sordered forallb]. rewrite E, H1, H2. cbn [negb andb]. rewrite andb_true_r.
    rewrite forallb_forall in *. intros z Hz. specialize (H1 z Hz). apply negb_true_iff in H1.
    apply negb_true_iff. eapply trans; [exact E|exact H1].
Qed.
Lemma sort_by_is_sordered l : sordered lt (sort_by lt l) = true.
Proof.
  induction l as [|x t IH]; [reflexivity|]. cbn [sort_by fold_right]. apply insert_by_sordered. exact IH.
Qed.
End SortSorted.

Lemma lt_start_asym a b : lt_start a b = true -> lt_start b a = false.
Proof. unfold lt_start. lia. Qed.
Lemma lt_start_trans a b c : lt_start b a = false -> lt_start c b = false -> lt_start c a = false.
Proof. unfold lt_start. lia. Qed.
Lemma gt_stop_asym a b : gt_stop a b = true -> gt_stop b a = false.
Proof. unfold gt_stop. lia. Qed.
Lemma gt_stop_trans a b c : gt_stop b a = false -> gt_stop c b = false -> gt_stop c a = false.
Proof. unfold gt_stop. lia. Qed.

(* LocationTuple.__new__ delivers the 5'->3' order *)
Lemma mk_loctuple_inv ls ls' : mk_loctuple ls = Ok ls' -> ls' = sort_locs ls /\ same_strand ls = true /\ ls <> [].
Proof.
  unfold mk_loctuple. destruct ls as [|l0 r]; [discriminate|].
  destruct (same_strand (l0 :: r)) eqn:Es; [|discriminate]. intros H.
  split; [congruence|]. split; [reflexivity|discriminate].
Qed.
Lemma sort_locs_sorted53 ls : same_strand ls = true -> sorted53 (sort_locs ls) = true.
Proof.
  intros Es. pose proof (same_strand_all _ Es) as [c Hc].
  assert (Hc' : all_strand c (sort_locs ls) = true).
  { unfold all_strand in *. rewrite forallb_forall in *. intros l Hl. apply Hc. apply sort_locs_In. exact Hl. }
  assert (G : forall ls0, all_strand c ls0 = true ->
              sorted53 ls0 = if byte_eqb c S_REVERSE then sordered gt_stop ls0 else sordered lt_start ls0).
  { intros [|h t] H; [destruct (byte_eqb c S_REVERSE); reflexivity|].
    unfold sorted53, is_minus. simpl in H. apply andb_prop in H. destruct H as [H _]. apply byte_eqb_eq in H.
    rewrite H. reflexivity. }
  rewrite (G _ Hc').
  assert (S : sort_locs ls = if byte_eqb c S_REVERSE then sort_by gt_stop ls else sort_by lt_start ls).
  { destruct ls as [|l0 r]; [destruct (byte_eqb c S_REVERSE); reflexivity|].
    unfold sort_locs, is_minus. simpl in Hc. apply andb_prop in Hc. destruct Hc as [Hc _]. apply byte_eqb_eq in Hc.
    rewrite Hc. reflexivity. }
  rewrite S. destruct (byte_eqb c S_REVERSE).
  - apply sort_by_is_sordered; [exact gt_stop_asym|exact gt_stop_trans].
  - apply sort_by_is_sordered; [exact lt_start_asym|exact lt_start_trans].
Qed.
Theorem loctuple_sorted ls ls' : mk_loctuple ls = Ok ls' -> sorted53 ls' = true /\ Permutation ls' ls /\ same_strand ls = true.
Proof.
  intros H. apply mk_loctuple_inv in H. destruct H as (-> & Hs & _).
  split; [apply sort_locs_sorted53; exact Hs|]. split; [apply sort_locs_perm|exact Hs].
Qed.

Lemma sordered_filter lt p l : sordered lt l = true -> sordered lt (filter p l) = true.
Proof.
  induction l as [|x t IH]; intros H; [reflexivity|].
  cbn [sordered] in H. apply andb_prop in H. destruct H as [H1 H2].
  cbn [filter]. destruct (p x); [|apply IH; exact H2].
  cbn [sordered]. rewrite IH by exact H2. rewrite andb_true_r.
  rewrite forallb_forall in *. intros y Hy. apply filter_In in Hy. apply H1. tauto.
Qed.
Lemma sordered_map lt lt' (f : loc -> loc) l : (forall x y, lt y x = false -> lt' (f y) (f x) = false) ->
  sordered lt l = true -> sordered lt' (map f l) = true.
Proof.
  intros Hf. induction l as [|x t IH]; intros H; [reflexivity|].
  cbn [sordered] in H. apply andb_prop in H. destruct H as [H1 H2].
  cbn [map sordered]. rewrite IH by exact H2. rewrite andb_true_r.
  rewrite forallb_forall in *. intros y' Hy'. apply in_map_iff in Hy'. destruct Hy' as (y & <- & Hy).
  specialize (H1 y Hy). apply negb_true_iff in H1. apply negb_true_iff. apply Hf. exact H1.
Qed.
Lemma sort_locs_strand c ls : all_strand c ls = true ->
  sort_locs ls = if byte_eqb c S_REVERSE then sort_by gt_stop ls else sort_by lt_start ls.
Proof.
  destruct ls as [|l0 r]; intros H; [destruct (byte_eqb c S_REVERSE); reflexivity|].
  unfold sort_locs, is_minus. simpl in H. apply andb_prop in H. destruct H as [H _]. apply byte_eqb_eq in H.
  rewrite H. reflexivity.
Qed.
Lemma sorted53_strand c ls : all_strand c ls = true ->
  sorted53 ls = if byte_eqb c S_REVERSE then sordered gt_stop ls else sordered lt_start ls.
Proof.
  destruct ls as [|l0 r]; intros H; [destruct (byte_eqb c S_REVERSE); reflexivity|].
  unfold sorted53, is_minus. simpl in H. apply andb_prop in H. destruct H as [H _]. apply byte_eqb_eq in H.
  rewrite H. reflexivity.
Qed.

(* cutting to a window keeps the order of the surviving locations: the re-sort in Feature() is the identity *)
Theorem window_keeps_order lo hi rel ls : same_strand ls = true -> sorted53 ls = true ->
  sort_locs (map (cut_spec lo hi rel) (filter (overlaps lo hi) ls)) = map (cut_spec lo hi rel) (filter (overlaps lo hi) ls).
Proof.
  intros Hs Ho. apply same_strand_all in Hs. destruct Hs as [c Hc].
  rewrite (sorted53_strand c) in Ho by exact Hc.
  assert (Hc' : all_strand c (map (cut_spec lo hi rel) (filter (overlaps lo hi) ls)) = true).
  { apply all_strand_map; [reflexivity|]. apply all_strand_filter. exact Hc. }
  rewrite (sort_locs_strand c) by exact Hc'.
  destruct (byte_eqb c S_REVERSE); apply sort_by_sordered.
  - apply (sordered_map gt_stop); [|apply sordered_filter; exact Ho].
    intros x y. unfold gt_stop, cut_spec. cbn [lstop]. lia.
  - apply (sordered_map lt_start); [|apply sordered_filter; exact Ho].
    intros x y. unfold lt_start, cut_spec. cbn [lstart]. lia.
Qed.
(* mirroring a + or - feature keeps the 5'->3' order: the re-sort in Feature.rc is the identity *)
Theorem rc_keeps_order len ls c : all_strand c ls = true -> is_pm c = true -> sorted53 ls = true ->
  sort_locs (map (loc_reverse len) ls) = map (loc_reverse len) ls.
Proof.
  intros Hc Hpm Ho. rewrite (sorted53_strand c) in Ho by exact Hc.
  assert (Hc' : all_strand (strand_reverse c) (map (loc_reverse len) ls) = true).
  { unfold all_strand in *. rewrite forallb_forall in *. intros l' Hl'. apply in_map_iff in Hl'.
    destruct Hl' as (l & <- & Hl). specialize (Hc l Hl). apply byte_eqb_eq in Hc. cbn [loc_reverse lstrand].
    rewrite Hc. apply byte_eqb_refl. }
  rewrite (sort_locs_strand _ _ Hc'). rewrite minus_reverse by exact Hpm.
  destruct (byte_eqb c S_REVERSE); cbn [negb]; apply sort_by_sordered.
  - apply (sordered_map gt_stop); [|exact Ho].
    intros x y. unfold gt_stop, lt_start, loc_reverse. cbn [lstart lstop]. lia.
  - apply (sordered_map lt_start); [|exact Ho].
    intros x y. unfold gt_stop, lt_start, loc_reverse. cbn [lstart lstop]. lia.
Qed.

(* features as the driver builds them (Feature(type, locs=[Location(...)...])) are in LocationTuple order, one strand *)
Lemma same_strand_sort ls : same_strand ls = true -> same_strand (sort_locs ls) = true.
Proof.
  intros H. apply same_strand_all in H. destruct H as [c Hc]. apply (all_same_strand c).
  unfold all_strand in *. rewrite forallb_forall in *. intros l Hl. apply Hc. apply sort_locs_In. exact Hl.
Qed.
Theorem build_fts_sorted rs fs : build_fts rs = Ok fs ->
  forall f, In f fs -> sorted53 (flocs f) = true /\ same_strand (flocs f) = true /\ flocs f <> [].
Proof.
  revert fs. induction rs as [|r t IH]; intros fs H f Hf.
  - inversion H; subst. contradiction.
  - cbn [build_fts] in H. unfold build_ft in H.
    destruct (build_locs (snd r)) as [ls|e] eqn:E1; [|discriminate]. cbn [bind] in H.
    destruct (mk_loctuple ls) as [ls'|e] eqn:E2; [|discriminate]. cbn [bind] in H.
    destruct (build_fts t) as [fs'|e] eqn:E3; [|discriminate]. cbn [bind] in H.
    inversion H; subst fs. clear H. destruct Hf as [<-|Hf]; [|eapply IH; [reflexivity|exact Hf]].
    cbn [flocs]. apply mk_loctuple_inv in E2. destruct E2 as (-> & Hs & Hn).
    split; [apply sort_locs_sorted53; exact Hs|]. split; [apply same_strand_sort; exact Hs|].
    intros E. apply Hn. apply Permutation_nil. rewrite <- E. exact (sort_locs_perm ls).
Qed.

(* ------------------------------------------------------------------ gap=None: the gap-aware model is the plain one *)
Lemma join_locs_g_None s fi sp : forall ls prev, join_locs_g None s fi sp prev ls = join_locs s fi sp prev ls.
Proof. induction ls as [|l r IH]; intros prev; [reflexivity|]. cbn [join_locs_g join_locs]. rewrite IH. reflexivity. Qed.
Lemma slice_locs_g_None q ls sp fi u : slice_locs_g None q ls sp fi u = slice_locs q ls sp fi u.
Proof. unfold slice_locs_g, slice_locs. rewrite join_locs_g_None. reflexivity. Qed.
Theorem getitem_g_None q w u sp fi : getitem_g q w u sp fi None = getitem q w u sp fi.
Proof.
  destruct w as [i|a b step|l|ls|name|idx|]; unfold getitem_g, getitem.
  - reflexivity.
  - reflexivity.
  - apply slice_locs_g_None.
  - apply slice_locs_g_None.
  - destruct (fts_get name (sfts q)); [apply slice_locs_g_None|reflexivity].
  - destruct (nth_error _ _); [apply slice_locs_g_None|reflexivity].
  - reflexivity.
Qed.

(* ------------------------------------------------------------------ the harness domain predicate implies the hypotheses above *)
Theorem wf_C06_sound data fts w u sp fi : wf_C06 data fts w u sp fi None = true ->
  exists fs ow, build_fts fts = Ok fs /\ build_win w = Ok ow /\
    let q := new_seq data fs in
    upper (sdata q) = sdata q /\ forallb in_alpha (sdata q) = true /\
    forallb (ft_in (Z.of_nat (length (sdata q)))) (sfts q) = true /\
    match ow with Some win => win_ok q win u = true | None => True end.
Proof.
  unfold wf_C06. intros H.
  destruct (build_fts fts) as [fs|e]; [|rewrite andb_false_r in H; discriminate].
  destruct (build_win w) as [ow|e]; [|rewrite andb_false_r in H; discriminate].
  exists fs, ow. split; [reflexivity|]. split; [reflexivity|].
  apply andb_prop in H. destruct H as [H H5]. apply andb_prop in H. destruct H as [H _].
  apply andb_prop in H. destruct H as [H _]. apply andb_prop in H. destruct H as [H _].
  apply andb_prop in H. destruct H as [_ Ha].
  apply andb_prop in H5. destruct H5 as [Hf Hw].
  cbn zeta. split; [apply new_seq_upper|]. split; [exact Ha|]. split; [exact Hf|].
  destruct ow; [exact Hw|exact I].
Qed.
Lemma win_ok_slice q a b step u : win_ok q (WSlice a b step) u = true -> step = None \/ step = Some 1.
Proof.
  unfold win_ok, win_ok_len. intros Hs. destruct step as [[|[p|p|]|p]|]; try discriminate; auto.
Qed.
(* end to end, from the raw constructor arguments of a generated case: tracked slice and tracked rc *)
Theorem run_slice_tracked data fts a b step sp fi : wf_C06 data fts (RSlice a b step) true sp fi None = true ->
  exists fs, build_fts fts = Ok fs /\
    let len := Z.of_nat (length data) in
    let lo := fst (slice_bounds len a b) in
    let hi := snd (slice_bounds len a b) in
    run_op data fts (RSlice a b step) true sp fi None = Ok (mkSeq (zsub (upper data) lo hi) (slice_spec lo hi lo fs)).
Proof.
  intros H. apply wf_C06_sound in H. destruct H as (fs & ow & E1 & E2 & Hup & Ha & Hf & Hw).
  cbn [build_win] in E2. inversion E2; subst ow. clear E2.
  exists fs. split; [exact E1|]. cbn zeta.
  apply win_ok_slice in Hw. rename Hw into Hst.
  unfold run_op. rewrite E1. cbn [bind build_win]. rewrite getitem_g_None.
  pose proof (window_tracking (new_seq data fs) a b step sp fi Hup Hst Hf) as [G _].
  rewrite G. cbn [new_seq sdata sfts]. rewrite upper_length. reflexivity.
Qed.
Theorem run_rc_tracked data fts sp fi : wf_C06 data fts RRc true sp fi None = true ->
  exists fs, build_fts fts = Ok fs /\
    run_op data fts RRc true sp fi None = Ok (mkSeq (rc (upper data)) (map (feature_rc (Z.of_nat (length data))) fs)).
Proof.
  intros H. apply wf_C06_sound in H. destruct H as (fs & ow & E1 & E2 & Hup & Ha & Hf & _).
  cbn [build_win] in E2. inversion E2; subst ow. clear E2.
  exists fs. split; [exact E1|]. unfold run_op. rewrite E1. cbn [bind build_win].
  pose proof (rc_tracking (new_seq data fs) Ha Hf) as [G _]. rewrite G.
  cbn [new_seq sdata sfts]. rewrite upper_length. reflexivity.
Qed.

(* the former empty_window defect (fixed in /repo, commit f654eb3): an empty window inside a location is in the domain
   and yields the empty sequence without features *)
Lemma empty_window_ok :
  let data := bs "ACGTACGT"%bs in
  let fts := [(Some (bs "cds"%bs), [(0, 8, 43, 0)])] in
  wf_C06 data fts (RSlice (Some 3) (Some 3) None) true None None None = true /\
  run_op data fts (RSlice (Some 3) (Some 3) None) true None None None = Ok (mkSeq [] []) /\
  wf_C06 data fts (RSlice (Some 5) (Some 2) None) true None None None = true /\
  run_op data fts (RSlice (Some 5) (Some 2) None) true None None None = Ok (mkSeq [] []).
Proof. vm_compute. repeat split; reflexivity. Qed.

(* the constructor forms: with Location objects (mode 0) the modes coincide; a successful tuple construction (mode 1) too *)
Lemma build_fts_m_0 rs : build_fts_m 0 rs = build_fts rs.
Proof.
  induction rs as [|r t IH]; [reflexivity|]. cbn [build_fts_m build_fts]. change (0 =? 2) with false. cbv iota.
  rewrite IH. unfold build_ft_m, build_ft. change (0 =? 1) with false. destruct (build_locs (snd r)); reflexivity.
Qed.
Lemma build_fts_m_1 rs fs : build_fts rs = Ok fs -> build_fts_m 1 rs = Ok fs.
Proof.
  revert fs. induction rs as [|r t IH]; intros fs H; [exact H|]. cbn [build_fts_m build_fts] in *. change (1 =? 2) with false. cbv iota.
  unfold build_ft_m, build_ft in *. destruct (build_locs (snd r)) as [ls|e]; [|discriminate]. cbn [bind] in *.
  destruct (mk_loctuple ls) as [ls'|e]; [|discriminate]. cbn [bind] in *.
  destruct (build_fts t) as [fs'|e]; [|discriminate]. rewrite (IH fs' eq_refl). exact H.
Qed.
Theorem run_op_modes mode data fts w u sp fi gap : wf_C06 data fts w u sp fi gap = true -> (mode = 0 \/ mode = 1) ->
  run_op_m mode data fts w u sp fi gap = run_op data fts w u sp fi gap.
Proof.
  intros H Hm. unfold run_op_m, run_op. destruct Hm as [-> | ->]; [rewrite build_fts_m_0; reflexivity|].
  unfold wf_C06 in H. destruct (build_fts fts) as [fs|e] eqn:E; [|rewrite andb_false_r in H; discriminate].
  rewrite (build_fts_m_1 _ _ E). reflexivity.
Qed.

(* ------------------------------------------------------------------ depth round: cheap clauses *)
(* update_fts with more than one location is rejected (by design), whatever the other options *)
Theorem multi_update_error gap q ls sp fi : (1 < length ls)%nat -> slice_locs_g gap q ls sp fi true = Err E_Value.
Proof.
  intros H. unfold slice_locs_g. destruct (1 <? Z.of_nat (length ls)) eqn:E; [reflexivity|lia].
Qed.
(* with a single location filler and splitter have nothing to separate *)
Theorem single_options_irrelevant gap q l sp fi u : slice_locs_g gap q [l] sp fi u = slice_locs_g gap q [l] None None u.
Proof. unfold slice_locs_g. destruct fi, sp; reflexivity. Qed.
(* an int index outside [-len, len) raises IndexError, like str *)
Theorem int_index_error q i u sp fi :
  let len := Z.of_nat (length (sdata q)) in
  (i < - len \/ len <= i) -> getitem q (WInt i) u sp fi = Err E_Index.
Proof.
  intros len H. unfold getitem. fold len.
  destruct (((if i <? 0 then i + len else i) <? 0) || (len <=? (if i <? 0 then i + len else i))) eqn:E; [reflexivity|].
  destruct (i <? 0) eqn:E0; lia.
Qed.
(* without update_fts the features are those of the receiver, for every option (gap included) *)
Theorem no_update_keeps_fts_g q w sp fi gap r : getitem_g q w false sp fi gap = Ok r -> sfts r = sfts q.
Proof.
  destruct gap as [g|]; [|rewrite getitem_g_None; apply no_update_keeps_fts].
  unfold getitem_g. destruct w as [i|a b step|l|ls|name|idx|].
  - destruct (_ || _); [discriminate|]. intros H. inversion H. reflexivity.
  - apply no_update_keeps_fts.
  - unfold slice_locs_g. intros H. inversion H. reflexivity.
  - unfold slice_locs_g. intros H. inversion H. reflexivity.
  - destruct (fts_get name (sfts q)); [|discriminate]. unfold slice_locs_g. intros H. inversion H. reflexivity.
  - destruct (nth_error _ _); [|discriminate]. unfold slice_locs_g. intros H. inversion H. reflexivity.
  - discriminate.
Qed.

(* ------------------------------------------------------------------ unstranded features ('.' and '?'): coordinate-wise tracking *)
(* under rc the location is mirrored, the strand value is kept, and the mirrored location addresses the reverse
   complement of the residues the original addressed (there is no strand to flip) *)
Theorem rc_tracking_unstranded s l : forallb in_alpha s = true ->
  0 <= lstart l -> lstart l <= lstop l -> lstop l <= Z.of_nat (length s) -> is_pm (lstrand l) = false ->
  let l' := loc_reverse (Z.of_nat (length s)) l in
  lstart l' = Z.of_nat (length s) - lstop l /\ lstop l' = Z.of_nat (length s) - lstart l /\ lstrand l' = lstrand l /\
  piece (rc s) l' = rc (piece s l).
Proof.
  intros Ha H1 H2 H3 Hpm l'. split; [reflexivity|]. split; [reflexivity|].
  assert (Es : lstrand l' = lstrand l) by (apply strand_reverse_other; exact Hpm).
  split; [exact Es|].
  assert (Hm : is_minus l = false).
  { unfold is_minus. unfold is_pm in Hpm. apply orb_false_iff in Hpm. tauto. }
  assert (Hm' : is_minus l' = false) by (unfold is_minus in *; rewrite Es; exact Hm).
  assert (Lr : length (rc s) = length s) by apply rc_length.
  rewrite (piece_in (rc s)) by (simpl; rewrite ?Lr; lia).
  rewrite (piece_in s) by lia.
  unfold spiece. rewrite Hm, Hm'. cbn [l' loc_reverse lstart lstop]. unfold zsub.
  replace (Z.to_nat (Z.of_nat (length s) - lstop l)) with (length s - Z.to_nat (lstop l))%nat by lia.
  replace (Z.to_nat (Z.of_nat (length s) - lstart l)) with (length s - Z.to_nat (lstart l))%nat by lia.
  apply sub_rc; [exact Ha|lia|lia].
Qed.
(* in a window an unstranded location is tracked like a plus-strand one (window_tracking holds for every strand value);
   in a minus-strand Location window it is mirrored coordinate-wise and addresses the reverse complement *)
Theorem feature_window_unstranded s w l : forallb in_alpha s = true ->
  let len := Z.of_nat (length s) in
  let lo := lstart w in
  let hi := lstop w in
  loc_in len w = true -> loc_in len l = true -> overlaps lo hi l = true -> is_pm (lstrand l) = false ->
  let c := cut_spec lo hi lo l in
  piece (zsub s lo hi) c = zsub s (Z.max lo (lstart l)) (Z.min hi (lstop l)) /\
  piece (rc (zsub s lo hi)) (loc_reverse (hi - lo) c) = rc (zsub s (Z.max lo (lstart l)) (Z.min hi (lstop l))).
Proof.
  intros Ha len lo hi Hw Hl Ho Hpm c.
  pose proof (loc_in_range _ _ Hw) as Hr. fold lo in Hr. fold hi in Hr.
  assert (Hm : is_minus l = false).
  { unfold is_minus. unfold is_pm in Hpm. apply orb_false_iff in Hpm. tauto. }
  assert (Hu : piece (zsub s lo hi) c = zsub s (Z.max lo (lstart l)) (Z.min hi (lstop l))).
  { unfold c. erewrite window_piece; try reflexivity; try exact Ho; try exact Hl; unfold len in *; try lia.
    unfold spiece. rewrite Hm. reflexivity. }
  split; [exact Hu|].
  pose proof (cut_spec_range lo hi len l Hl Ho) as Hc. fold c in Hc.
  assert (Lu : Z.of_nat (length (zsub s lo hi)) = hi - lo) by (apply zsub_length; unfold len in *; lia).
  rewrite <- Hu. rewrite <- Lu.
  apply rc_tracking_unstranded; try lia.
  - unfold zsub. apply forallb_sub. exact Ha.
  - exact Hpm.
Qed.

(* ------------------------------------------------------------------ rc_tracking for RNA, in the sense of C05 (up to writing U for T) *)
Lemma u2t_sub s x y : u2t (sub s x y) = sub (u2t s) x y.
Proof. unfold u2t, replace1. symmetry. apply sub_map. Qed.
Lemma u2t_length s : length (u2t s) = length s.
Proof. unfold u2t, replace1. apply map_length. Qed.
(* sugar complements a piece by itself ('U' in piece decides between T and U), so residues of an RNA sequence are tracked
   up to u2t -- exactly the statement C05 proves for rc on RNA *)
Theorem piece_rc_rna s l : forallb in_alpha_rna s = true ->
  0 <= lstart l -> lstart l <= lstop l -> lstop l <= Z.of_nat (length s) -> is_pm (lstrand l) = true ->
  u2t (piece (rc s) (loc_reverse (Z.of_nat (length s)) l)) = u2t (piece s l).
Proof.
  intros Ha H1 H2 H3 Hpm.
  assert (Lr : length (rc s) = length s) by apply rc_length.
  rewrite (piece_in (rc s)) by (simpl; rewrite ?Lr; lia).
  rewrite (piece_in s) by lia.
  unfold spiece, is_minus. cbn [loc_reverse lstart lstop lstrand].
  rewrite minus_reverse by exact Hpm.
  pose proof (u2t_alpha s Ha) as Hat.
  assert (E : u2t (zsub (rc s) (Z.of_nat (length s) - lstop l) (Z.of_nat (length s) - lstart l))
              = rc (u2t (zsub s (lstart l) (lstop l)))).
  { unfold zsub. rewrite !u2t_sub. rewrite rna_rc.
    replace (Z.to_nat (Z.of_nat (length s) - lstop l)) with (length (u2t s) - Z.to_nat (lstop l))%nat by (rewrite u2t_length; lia).
    replace (Z.to_nat (Z.of_nat (length s) - lstart l)) with (length (u2t s) - Z.to_nat (lstart l))%nat by (rewrite u2t_length; lia).
    apply sub_rc; [exact Hat|lia|rewrite u2t_length; lia]. }
  destruct (byte_eqb (lstrand l) S_REVERSE); cbn [negb].
  - rewrite E. symmetry. apply rna_rc.
  - rewrite rna_rc, E. apply rc_involutive. unfold zsub. rewrite u2t_sub. apply forallb_sub. exact Hat.
Qed.

(* ------------------------------------------------------------------ the gap option: windows count residues *)
(* the sequence without its gap columns *)
Definition degap (g s : str) : str := filter (fun c => negb (has c g)) s.
(* column of residue number i (the length of s when there are not that many residues) *)
Fixpoint col_of (g s : str) (i : nat) : nat :=
  match s with
  | [] => O
  | c :: r => if has c g then S (col_of g r i) else match i with O => O | S k => S (col_of g r k) end
  end.

Lemma nogaps_from_length g s : forall k, length (nogaps_from k g s) = length (degap g s).
Proof.
  unfold degap. induction s as [|c r IH]; intros k; [reflexivity|]. cbn [nogaps_from filter].
  destruct (has c g); cbn [negb]; [apply IH|cbn [length]; f_equal; apply IH].
Qed.
Lemma nogaps_from_nth g s : forall k i, (i < length (degap g s))%nat ->
  nth i (nogaps_from k g s) 0 = k + Z.of_nat (col_of g s i).
Proof.
  unfold degap. induction s as [|c r IH]; intros k i Hi; [simpl in Hi; lia|].
  cbn [nogaps_from col_of]. cbn [filter] in Hi. destruct (has c g); cbn [negb] in Hi.
  - rewrite IH by exact Hi. lia.
  - destruct i as [|j]; [cbn [nth]; lia|]. cbn [nth]. cbn [length] in Hi. rewrite IH by lia. lia.
Qed.
Lemma col_of_beyond g s : forall i, (length (degap g s) <= i)%nat -> col_of g s i = length s.
Proof.
  unfold degap. induction s as [|c r IH]; intros i Hi; [reflexivity|].
  cbn [col_of]. cbn [filter] in Hi. destruct (has c g); cbn [negb] in Hi.
  - cbn [length]. f_equal. apply IH. exact Hi.
  - cbn [length] in *. destruct i as [|j]; [lia|]. f_equal. apply IH. lia.
Qed.
Lemma col_of_le g s : forall i, (col_of g s i <= length s)%nat.
Proof.
  induction s as [|c r IH]; intros i; [simpl; lia|]. cbn [col_of length].
  destruct (has c g); [specialize (IH i); lia|destruct i as [|j]; [lia|specialize (IH j); lia]].
Qed.
Lemma col_of_mono g s : forall i j, (i <= j)%nat -> (col_of g s i <= col_of g s j)%nat.
Proof.
  induction s as [|c r IH]; intros i j H; [simpl; lia|]. cbn [col_of].
  destruct (has c g); [specialize (IH i j H); lia|].
  destruct i as [|i']; [lia|]. destruct j as [|j']; [lia|]. specialize (IH i' j'). lia.
Qed.
(* adj(i) for a non-negative residue number is the column of that residue *)
Lemma adj_col g s x : 0 <= x -> adj g s (Some x) = Some (Z.of_nat (col_of g s (Z.to_nat x))).
Proof.
  intros Hx. unfold adj, nogaps. rewrite nogaps_from_length.
  destruct (x <? 0) eqn:E0; [lia|]. f_equal.
  destruct (x <? Z.of_nat (length (degap g s))) eqn:E.
  - rewrite nogaps_from_nth by lia. lia.
  - rewrite col_of_beyond by lia. reflexivity.
Qed.
Lemma degap_firstn g s : forall i, degap g (firstn (col_of g s i) s) = firstn i (degap g s).
Proof.
  unfold degap. induction s as [|c r IH]; intros i; [destruct i; reflexivity|].
  cbn [col_of]. destruct (has c g) eqn:E.
  - cbn [firstn filter]. rewrite E. cbn [negb]. apply IH.
  - destruct i as [|k]; [reflexivity|]. cbn [firstn filter]. rewrite E. cbn [negb firstn]. f_equal. apply IH.
Qed.
Lemma degap_app g a b : degap g (a ++ b) = degap g a ++ degap g b.
Proof. unfold degap. apply filter_app. Qed.
Lemma firstn_split {A} (l : list A) x y : (x <= y)%nat -> firstn y l = firstn x l ++ sub l x y.
Proof.
  intros H. unfold sub. rewrite <- (firstn_skipn x (firstn y l)) at 1. f_equal.
  - rewrite firstn_firstn. f_equal. lia.
  - rewrite skipn_firstn_comm. reflexivity.
Qed.
(* gap-aware window: with the gap columns removed it is the plain window of the ungapped sequence *)
Theorem gap_window_spec g s x y : 0 <= x -> x <= y ->
  degap g (gslice (Some g) s (Some x) (Some y)) = zsub (degap g s) x y.
Proof.
  intros Hx Hxy. unfold gslice. rewrite !adj_col by lia.
  set (cx := col_of g s (Z.to_nat x)). set (cy := col_of g s (Z.to_nat y)).
  assert (Hc : (cx <= cy)%nat) by (apply col_of_mono; lia).
  pose proof (col_of_le g s (Z.to_nat y)) as Hy. fold cy in Hy.
  rewrite py_slice_in by lia. rewrite !Nat2Z.id.
  pose proof (degap_firstn g s (Z.to_nat y)) as Fy. fold cy in Fy.
  pose proof (degap_firstn g s (Z.to_nat x)) as Fx. fold cx in Fx.
  rewrite (firstn_split s cx cy Hc), degap_app, Fx in Fy.
  rewrite (firstn_split (degap g s) (Z.to_nat x) (Z.to_nat y)) in Fy by lia.
  apply app_inv_head in Fy. exact Fy.
Qed.
(* on a sequence without gap characters the option changes nothing *)
Lemma col_of_nogap g s : forallb (fun c => negb (has c g)) s = true -> forall i, col_of g s i = Nat.min i (length s).
Proof.
  induction s as [|c r IH]; intros H i; [simpl; lia|]. simpl in H. apply andb_prop in H. destruct H as [Hc Hr].
  cbn [col_of length]. apply negb_true_iff in Hc. rewrite Hc. destruct i as [|k]; [reflexivity|]. rewrite IH by exact Hr. reflexivity.
Qed.
Theorem gap_neutral g s x y : forallb (fun c => negb (has c g)) s = true -> 0 <= x -> 0 <= y ->
  gslice (Some g) s (Some x) (Some y) = gslice None s (Some x) (Some y).
Proof.
  intros H Hx Hy. unfold gslice. rewrite !adj_col by lia. rewrite !col_of_nogap by exact H.
  unfold py_slice, slice_bounds, clampZ.
  destruct (Z.of_nat (Nat.min (Z.to_nat x) (length s)) <? 0) eqn:E1; [lia|].
  destruct (Z.of_nat (Nat.min (Z.to_nat y) (length s)) <? 0) eqn:E2; [lia|].
  destruct (x <? 0) eqn:E3; [lia|]. destruct (y <? 0) eqn:E4; [lia|].
  f_equal; lia.
Qed.

(* minus-strand windows with gap: gap symbols '-' and '.' are fixed by the complement, so removing gaps commutes with rc *)
Lemma gapsym_trans c : is_gapsym (trans1 c) = is_gapsym c.
Proof. bytes c. Qed.
Lemma gapsym_fixed c : is_gapsym c = true -> trans1 c = c.
Proof. bytes c. Qed.
Lemma has_gapsym g c : forallb is_gapsym g = true -> has c g = true -> is_gapsym c = true.
Proof. intros Hg H. apply has_In in H. rewrite forallb_forall in Hg. apply Hg. exact H. Qed.
Lemma has_trans1 g c : forallb is_gapsym g = true -> has (trans1 c) g = has c g.
Proof.
  intros Hg. destruct (is_gapsym c) eqn:E.
  - rewrite gapsym_fixed by exact E. reflexivity.
  - destruct (has c g) eqn:E1; [apply (has_gapsym g c Hg) in E1; congruence|].
    destruct (has (trans1 c) g) eqn:E2; [|reflexivity].
    apply (has_gapsym g _ Hg) in E2. rewrite gapsym_trans in E2. congruence.
Qed.
Lemma degap_map_trans g s : forallb is_gapsym g = true -> degap g (map trans1 s) = map trans1 (degap g s).
Proof.
  intros Hg. unfold degap. induction s as [|c r IH]; [reflexivity|]. cbn [map filter]. rewrite has_trans1 by exact Hg.
  destruct (has c g); cbn [negb]; [exact IH|cbn [map]; f_equal; exact IH].
Qed.
Lemma degap_rev g s : degap g (rev s) = rev (degap g s).
Proof.
  unfold degap. induction s as [|c r IH]; [reflexivity|]. cbn [rev]. rewrite filter_app, IH. cbn [filter].
  destruct (negb (has c g)); [reflexivity|rewrite app_nil_r; reflexivity].
Qed.
Lemma degap_alpha g s : forallb in_alpha s = true -> forallb in_alpha (degap g s) = true.
Proof. intros H. rewrite forallb_forall in *. intros c Hc. apply H. apply filter_In in Hc. tauto. Qed.
Lemma degap_rc g s : forallb is_gapsym g = true -> forallb in_alpha s = true -> degap g (rc s) = rc (degap g s).
Proof.
  intros Hg Ha. rewrite rc_alpha_map by exact Ha. rewrite rc_alpha_map by (apply degap_alpha; exact Ha).
  rewrite degap_rev, degap_map_trans by exact Hg. reflexivity.
Qed.
(* seq.sl(gap=g)[Location]: with the gap columns removed, the piece is the piece of the ungapped sequence *)
Theorem gap_piece_spec g s l : forallb is_gapsym g = true -> forallb in_alpha s = true ->
  0 <= lstart l -> lstart l <= lstop l ->
  degap g (gpiece (Some g) s l) = spiece (degap g s) (lstart l) (lstop l) (is_minus l).
Proof.
  intros Hg Ha H1 H2. unfold gpiece, spiece. destruct (is_minus l).
  - rewrite degap_rc; [|exact Hg|]. 
    + rewrite gap_window_spec by lia. reflexivity.
    + unfold gslice. rewrite py_slice_bounds. apply forallb_sub. exact Ha.
  - apply gap_window_spec; lia.
Qed.

(* ------------------------------------------------------------------ filler pads the skipped length *)
Lemma repeat_str_length n f : length (repeat_str n f) = (n * length f)%nat.
Proof. induction n as [|k IH]; [reflexivity|]. cbn [repeat_str]. rewrite app_length, IH. lia. Qed.
Lemma piece_length s l : 0 <= lstart l -> lstart l <= lstop l -> lstop l <= Z.of_nat (length s) ->
  Z.of_nat (length (piece s l)) = lstop l - lstart l.
Proof.
  intros H1 H2 H3. rewrite piece_in by lia. unfold spiece.
  destruct (is_minus l); [rewrite rc_length|]; apply zsub_length; lia.
Qed.
(* consecutive plus-strand (or unstranded) locations in ascending order without overlap, inside the sequence *)
Fixpoint chain_ok (len : Z) (p : loc) (r : list loc) : bool :=
  match r with
  | [] => true
  | l :: t => negb (is_minus l) && (lstop p <=? lstart l) && (lstart l <=? lstop l) && (lstop l <=? len) && chain_ok len l t
  end.
Lemma last_cons {A} (t : list A) : forall x d, last (x :: t) d = last t x.
Proof.
  induction t as [|a t IH]; intros x d; [reflexivity|].
  change (last (x :: a :: t) d) with (last (a :: t) d). rewrite (IH a d), (IH a x). reflexivity.
Qed.
Lemma filler_chain s c : forall r p, 0 <= lstop p -> chain_ok (Z.of_nat (length s)) p r = true ->
  Z.of_nat (length (concat (flat_map (fun pl => sep_spec (Some [c]) None (fst pl) (snd pl) ++ [piece s (snd pl)])
                                     (combine (p :: r) r)))) = lstop (last r p) - lstop p.
Proof.
  induction r as [|l t IH]; intros p Hp H; [simpl; lia|].
  cbn [chain_ok] in H. apply andb_prop in H. destruct H as [H H5]. apply andb_prop in H. destruct H as [H H4].
  apply andb_prop in H. destruct H as [H H3]. apply andb_prop in H. destruct H as [H1 H2].
  set (F := fun pl : loc * loc => sep_spec (Some [c]) None (fst pl) (snd pl) ++ [piece s (snd pl)]) in *.
  change (combine (p :: l :: t) (l :: t)) with ((p, l) :: combine (l :: t) t).
  change (flat_map F ((p, l) :: combine (l :: t) t)) with (F (p, l) ++ flat_map F (combine (l :: t) t)).
  rewrite concat_app, app_length, Nat2Z.inj_add.
  rewrite (IH l) by (try exact H5; lia).
  rewrite last_cons.
  assert (Hm : is_minus l = false) by (apply negb_true_iff; exact H1).
  subst F. cbn [fst snd]. unfold sep_spec, fill_num. rewrite Hm. rewrite app_nil_r.
  assert (Pl : Z.of_nat (length (piece s l)) = lstop l - lstart l) by (apply piece_length; lia).
  destruct (0 <? lstart l - lstop p) eqn:E.
  - cbn [app concat]. rewrite !app_length, repeat_str_length. cbn [length]. lia.
  - cbn [app concat]. rewrite ?app_length. cbn [length]. lia.
Qed.
(* seq.sl(filler=c)[feature] on ascending non-overlapping plus-strand locations has the length of the feature's range:
   every skipped stretch is replaced by as many filler characters *)
Theorem filler_pads s c l0 r : negb (is_minus l0) = true ->
  0 <= lstart l0 -> lstart l0 <= lstop l0 -> lstop l0 <= Z.of_nat (length s) -> chain_ok (Z.of_nat (length s)) l0 r = true ->
  Z.of_nat (length (concat (extract_spec s (Some [c]) None (l0 :: r)))) = lstop (last r l0) - lstart l0.
Proof.
  intros Hm H1 H2 H3 Hc. unfold extract_spec. cbn [concat]. rewrite app_length, Nat2Z.inj_add.
  rewrite piece_length by lia. rewrite (filler_chain s c r l0) by (try exact Hc; lia). lia.
Qed.
