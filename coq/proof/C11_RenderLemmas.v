(* C11: rows rendered from an abstract hit with the default column lists carry that hit; read (render H) = spec H *)
From Coq Require Import List ZArith NArith Bool Lia.
From Coq.Strings Require Import Byte.
Import ListNotations.
From SV Require Import Text G_tab C11_Model C11_Lemmas C11_TextLemmas C11_FileLemmas C11_IntLemmas.
Local Open Scope Z_scope.

Definition hsB := default_hs (bs "blast"%bs) Blast.
Definition hsM := default_hs (bs "mmseqs"%bs) Mmseqs.
Definition hsI := default_hs (bs "infernal_1"%bs) Infernal.

(* the dict of a default row, column by column (tokens are variables; both sides normalise to the same term) *)
Lemma blast_cells t0 t1 t2 t3 t4 t5 t6 t7 t8 t9 t10 t11 :
  let a := row_attrs hsB [t0; t1; t2; t3; t4; t5; t6; t7; t8; t9; t10; t11] in
  cattr Blast a (bs "sstart"%bs) = Some (conv TInt t8) /\ cattr Blast a (bs "send"%bs) = Some (conv TInt t9) /\
  cattr Blast a (bs "qstart"%bs) = Some (conv TInt t6) /\ cattr Blast a (bs "qend"%bs) = Some (conv TInt t7) /\
  cattr Blast a (bs "sseqid"%bs) = Some (AStr t1) /\ cattr Blast a (bs "qseqid"%bs) = Some (AStr t0) /\
  cattr Blast a (bs "evalue"%bs) = Some (conv TFloat t10) /\ cattr Blast a (bs "bitscore"%bs) = Some (conv TFloat t11) /\
  assoc (bs "sstrand"%bs) a = None /\ assoc (bs "pident"%bs) a = Some (conv TFloat t2) /\ assoc (bs "fident"%bs) a = None.
Proof. cbv zeta. repeat split; vm_compute; reflexivity. Qed.
Lemma mmseqs_cells t0 t1 t2 t3 t4 t5 t6 t7 t8 t9 t10 t11 :
  let a := row_attrs hsM [t0; t1; t2; t3; t4; t5; t6; t7; t8; t9; t10; t11] in
  cattr Mmseqs a (bs "sstart"%bs) = Some (conv TInt t8) /\ cattr Mmseqs a (bs "send"%bs) = Some (conv TInt t9) /\
  cattr Mmseqs a (bs "qstart"%bs) = Some (conv TInt t6) /\ cattr Mmseqs a (bs "qend"%bs) = Some (conv TInt t7) /\
  cattr Mmseqs a (bs "sseqid"%bs) = Some (AStr t1) /\ cattr Mmseqs a (bs "qseqid"%bs) = Some (AStr t0) /\
  cattr Mmseqs a (bs "evalue"%bs) = Some (conv TFloat t10) /\ cattr Mmseqs a (bs "bitscore"%bs) = Some (conv TFloat t11) /\
  assoc (bs "sstrand"%bs) a = None /\ assoc (bs "pident"%bs) a = None /\ assoc (bs "fident"%bs) a = Some (conv TFloat t2).
Proof. cbv zeta. repeat split; vm_compute; reflexivity. Qed.
Lemma infernal_cells t0 t1 t2 t3 t4 t5 t6 t7 t8 t9 t10 t11 t12 t13 t14 t15 t16 t17 :
  let a := row_attrs hsI [t0; t1; t2; t3; t4; t5; t6; t7; t8; t9; t10; t11; t12; t13; t14; t15; t16; t17] in
  cattr Infernal a (bs "sstart"%bs) = Some (conv TInt t7) /\ cattr Infernal a (bs "send"%bs) = Some (conv TInt t8) /\
  cattr Infernal a (bs "qstart"%bs) = Some (conv TInt t5) /\ cattr Infernal a (bs "qend"%bs) = Some (conv TInt t6) /\
  cattr Infernal a (bs "sseqid"%bs) = Some (AStr t0) /\ cattr Infernal a (bs "qseqid"%bs) = Some (AStr t2) /\
  cattr Infernal a (bs "evalue"%bs) = Some (conv TFloat t15) /\ cattr Infernal a (bs "bitscore"%bs) = Some (conv TFloat t14) /\
  assoc (bs "sstrand"%bs) a = Some (AStr t9) /\ assoc (bs "pident"%bs) a = None /\ assoc (bs "fident"%bs) a = None.
Proof. cbv zeta. repeat split; vm_compute; reflexivity. Qed.

Lemma ident_ok_pident a p : assoc (bs "pident"%bs) a = Some (conv TFloat p) -> assoc (bs "fident"%bs) a = None ->
  py_float p <> None -> ident_ok a = true.
Proof.
  intros P F N. unfold ident_ok, complete_ident. rewrite P, F. unfold conv. destruct (py_float p); [reflexivity|congruence].
Qed.
Lemma ident_ok_fident a p : assoc (bs "pident"%bs) a = None -> assoc (bs "fident"%bs) a = Some (conv TFloat p) ->
  ident_ok a = true.
Proof. intros P F. unfold ident_ok, complete_ident. rewrite P, F. unfold conv. destruct (py_float p); reflexivity. Qed.
Lemma ident_ok_none a : assoc (bs "pident"%bs) a = None -> assoc (bs "fident"%bs) a = None -> ident_ok a = true.
Proof. intros P F. unfold ident_ok, complete_ident. rewrite P, F. reflexivity. Qed.

Lemma blast_row_carries x h : py_float (let '(pid, _, _, _) := x in pid) <> None ->
  row_carries Blast hsB (blast_row x h) h.
Proof.
  destruct x as [[[pid len] mis] gap]. intros PF. unfold blast_row.
  destruct (blast_cells (h_qseqid h) (h_sseqid h) pid len mis gap (dec_of_Z (h_qstart h)) (dec_of_Z (h_qend h))
              (dec_of_Z (h_sstart h)) (dec_of_Z (h_send h)) (h_evalue h) (h_bitscore h))
    as (C1 & C2 & C3 & C4 & C5 & C6 & C7 & C8 & S & P & F).
  rewrite !conv_int_dec in *. split; [reflexivity|]. split; [|split].
  - repeat split; assumption.
  - rewrite S. reflexivity.
  - eapply ident_ok_pident; eauto.
Qed.
Lemma mmseqs_row_carries x h : row_carries Mmseqs hsM (mmseqs_row x h) h.
Proof.
  destruct x as [[[fid len] mis] gap]. unfold mmseqs_row, blast_row.
  destruct (mmseqs_cells (h_qseqid h) (h_sseqid h) fid len mis gap (dec_of_Z (h_qstart h)) (dec_of_Z (h_qend h))
              (dec_of_Z (h_sstart h)) (dec_of_Z (h_send h)) (h_evalue h) (h_bitscore h))
    as (C1 & C2 & C3 & C4 & C5 & C6 & C7 & C8 & S & P & F).
  rewrite !conv_int_dec in *. split; [reflexivity|]. split; [|split].
  - repeat split; assumption.
  - rewrite S. reflexivity.
  - eapply ident_ok_fident; eauto.
Qed.
Lemma infernal1_toks_carries x h : has_direction h = true -> row_carries Infernal hsI (infernal1_toks x h) h.
Proof.
  destruct x as [[[[[[[[acc1 acc2] mdl] trunc] pass] gc] bias] inc] desc]. intros D. unfold infernal1_toks.
  destruct (infernal_cells (h_sseqid h) acc1 (h_qseqid h) acc2 mdl (dec_of_Z (h_qstart h)) (dec_of_Z (h_qend h))
              (dec_of_Z (h_sstart h)) (dec_of_Z (h_send h)) (strand_sign h) trunc pass gc bias (h_bitscore h) (h_evalue h) inc desc)
    as (C1 & C2 & C3 & C4 & C5 & C6 & C7 & C8 & S & P & F).
  rewrite !conv_int_dec in *. split; [reflexivity|]. split; [|split].
  - repeat split; assumption.
  - rewrite S. unfold sstrand_agrees, strand_sign. unfold has_direction in D.
    apply andb_prop in D. destruct D as [D1 D2].
    set (p := sgn (h_send h - h_sstart h) * sgn (h_qend h - h_qstart h)).
    assert (PP : p < 0 \/ p > 0).
    { unfold p, sgn. destruct (Z.eqb_spec (h_sstart h) (h_send h)); [discriminate|].
      destruct (Z.eqb_spec (h_qstart h) (h_qend h)); [discriminate|].
      destruct (h_send h - h_sstart h) eqn:E1; [lia| |]; destruct (h_qend h - h_qstart h) eqn:E2; try lia; cbn; lia. }
    destruct (Z.ltb_spec p 0) as [L|L].
    + reflexivity.
    + destruct (Z.gtb_spec p 0) as [G|G]; [reflexivity|lia].
  - eapply ident_ok_none; eauto.
Qed.

Lemma Forall2_map_l {A B} (P : B -> A -> Prop) (f : A -> B) (l : list A) :
  (forall a, In a l -> P (f a) a) -> Forall2 P (map f l) l.
Proof. induction l as [|a l IH]; intros H; cbn; constructor; [apply H; left; reflexivity|apply IH; intros; apply H; right; assumption]. Qed.

(* ---- read (render H) = spec H ---- *)
(* BLAST outfmt 6 (c = tab) / 10 (c = ','), default columns: the file of rendered hits reads to the specified locations *)
Lemma read_blast6_hits c ftype x hits : hits <> [] -> py_float (let '(pid, _, _, _) := x in pid) <> None ->
  forallb (row_ok Blast c) (map (blast_row x) hits) = true ->
  exists fs, snd (read_content Blast (Some c) None ftype false (unlines (map (join c) (map (blast_row x) hits)))) = Ok fs /\
             map loc_meta fs = map spec_loc_meta hits.
Proof.
  intros NE PF R.
  destruct (rows_features_carry Blast ftype hsB (map (blast_row x) hits) hits) as (fs & E & M).
  { apply Forall2_map_l. intros h _. apply blast_row_carries. exact PF. }
  exists fs. split; [|exact M]. rewrite <- E. unfold read_content. cbn [eff_sep].
  change (unlines (map (join c) (map (blast_row x) hits))) with (concat (map (fun l => l ++ [x0a]) (map (join c) (map (blast_row x) hits)))).
  rewrite map_map. apply (read_rendered_rows Blast c None ftype hsB); [vm_compute; reflexivity| |exact R].
  left. destruct hits; [congruence|discriminate].
Qed.
(* MMseqs2 fmtmode 0, default columns *)
Lemma read_mmseqs0_hits c ftype x hits : hits <> [] ->
  forallb (row_ok Mmseqs c) (map (mmseqs_row x) hits) = true ->
  exists fs, snd (read_content Mmseqs (Some c) None ftype false (unlines (map (join c) (map (mmseqs_row x) hits)))) = Ok fs /\
             map loc_meta fs = map spec_loc_meta hits.
Proof.
  intros NE R.
  destruct (rows_features_carry Mmseqs ftype hsM (map (mmseqs_row x) hits) hits) as (fs & E & M).
  { apply Forall2_map_l. intros h _. apply mmseqs_row_carries. }
  exists fs. split; [|exact M]. rewrite <- E. unfold read_content. cbn [eff_sep].
  change (unlines (map (join c) (map (mmseqs_row x) hits))) with (concat (map (fun l => l ++ [x0a]) (map (join c) (map (mmseqs_row x) hits)))).
  rewrite map_map. apply (read_rendered_rows Mmseqs c None ftype hsM); [vm_compute; reflexivity| |exact R].
  left. destruct hits; [congruence|discriminate].
Qed.
(* BLAST outfmt 7 with the default '# Fields:' line *)
Lemma read_blast7_hits c ftype x pre mid post hits : py_float (let '(pid, _, _, _) := x in pid) <> None ->
  forallb (skip_line Blast true true) pre = true -> forallb (skip_line Blast true true) mid = true ->
  forallb (skip_line Blast true true) post = true -> forallb (row_ok Blast c) (map (blast_row x) hits) = true ->
  exists fs, snd (read_content Blast (Some c) None ftype false
                    (unlines (pre ++ [fields_line hsB] ++ mid ++ map (join c) (map (blast_row x) hits) ++ post))) = Ok fs /\
             map loc_meta fs = map spec_loc_meta hits.
Proof.
  intros PF P M Q R.
  destruct (rows_features_carry Blast ftype hsB (map (blast_row x) hits) hits) as (fs & E & MM).
  { apply Forall2_map_l. intros h _. apply blast_row_carries. exact PF. }
  exists fs. split; [|exact MM]. rewrite <- E.
  apply read_blast7; try assumption; [vm_compute; discriminate|vm_compute; reflexivity|vm_compute; reflexivity].
Qed.
(* MMseqs2 fmtmode 4 with the default name row *)
Lemma read_mmseqs4_hits ftype x pre post hits :
  forallb (skip_line Mmseqs true true) pre = true -> forallb (skip_line Mmseqs true true) post = true ->
  forallb (row_ok Mmseqs x09) (map (mmseqs_row x) hits) = true ->
  exists fs, snd (read_content Mmseqs (Some x09) None ftype false
                    (unlines (pre ++ [names_line x09 hsM] ++ map (join x09) (map (mmseqs_row x) hits) ++ post))) = Ok fs /\
             map loc_meta fs = map spec_loc_meta hits.
Proof.
  intros P Q R.
  destruct (rows_features_carry Mmseqs ftype hsM (map (mmseqs_row x) hits) hits) as (fs & E & MM).
  { apply Forall2_map_l. intros h _. apply mmseqs_row_carries. }
  exists fs. split; [|exact MM]. rewrite <- E.
  apply read_mmseqs4; try assumption; vm_compute; reflexivity.
Qed.
(* Infernal fmt 1: rows given with their spacing (wsrow); the tokens are those of the hits *)
Lemma read_infernal1_hits sep outfmt ftype ruler pre post rows xs hits :
  ruler_ok 18 ruler = true ->
  forallb (skip_line Infernal true true) pre = true -> forallb (skip_line Infernal true false) post = true ->
  forallb (wsrow_ok 18) rows = true -> forallb has_direction hits = true ->
  map wsrow_toks rows = map (fun xh => infernal1_toks (fst xh) (snd xh)) (combine xs hits) -> length xs = length hits ->
  exists fs, snd (read_content Infernal sep outfmt ftype false (unlines (pre ++ [ruler] ++ map wsrow_line rows ++ post))) = Ok fs /\
             map loc_meta fs = map spec_loc_meta hits.
Proof.
  intros RO P Q R D T L.
  destruct (rows_features_carry Infernal ftype hsI (map wsrow_toks rows) hits) as (fs & E & MM).
  { rewrite T. clear T R. revert xs L. induction hits as [|h hits IH]; intros [|x xs] L; cbn in *; try discriminate; constructor.
    - apply andb_prop in D. destruct D as [D1 D2]. apply infernal1_toks_carries. exact D1.
    - apply andb_prop in D. destruct D as [D1 D2]. apply IH; [exact D2|lia]. }
  exists fs. split; [|exact MM]. rewrite <- E.
  apply (read_infernal sep outfmt ftype 18 hsI); try assumption. vm_compute. reflexivity.
Qed.

(* non-vacuity for the read (render H) theorems *)
Definition ex_x : str * str * str * str := (bs "95.408"%bs, bs "196"%bs, bs "7"%bs, bs "2"%bs).
Definition ex_hits : list hit :=
  [mkHit (bs "NC_081844.1"%bs) (bs "exon3-AMCR"%bs) 39923568 39922089 1 1480 (bs "0.0"%bs) (bs "2734"%bs);
   mkHit (bs "NC_081844.1"%bs) (bs "exon3-AMCR"%bs) 39891163 39891358 1262 1455 (bs "3.03e-83"%bs) (bs "311"%bs);
   mkHit (bs "s"%bs) (bs "q"%bs) 20 10 5 5 (bs "1e-5"%bs) (bs "50"%bs)].
Lemma witness_render :
  ex_hits <> [] /\ py_float (let '(pid, _, _, _) := ex_x in pid) <> None /\
  forallb (row_ok Blast x09) (map (blast_row ex_x) ex_hits) = true /\
  forallb (row_ok Blast ","%byte) (map (blast_row ex_x) ex_hits) = true /\
  forallb (row_ok Mmseqs x09) (map (mmseqs_row ex_x) ex_hits) = true /\
  map spec_loc_meta (firstn 1 ex_hits) =
    [(39922088, 39923568, bs "-"%bs, Some (AStr (bs "NC_081844.1"%bs)), Some (AStr (bs "exon3-AMCR"%bs)),
      Some (AFlt (FNum false 0 (-1))), Some (AFlt (FNum false 2734 0)))].
Proof.
  split; [discriminate|]. split; [vm_compute; discriminate|].
  split; [vm_compute; reflexivity|]. split; [vm_compute; reflexivity|]. split; vm_compute; reflexivity.
Qed.
