(* C17: the cache of gcode() as a state machine: reads are stable, a successful call returns the requested table. *)
From Coq Require Import List ZArith NArith Bool Lia.
From Coq.Strings Require Import Byte.
Import ListNotations.
From SV Require Import Text C17_Convert C17_Gcode.

Lemma find_app_some {A} f (l l' : list A) x : find f l = Some x -> find f (l ++ l') = Some x.
Proof. induction l as [|y l IH]; simpl; [discriminate|]. destruct (f y); [exact (fun H => H)|exact IH]. Qed.
Lemma find_app_none {A} f (l l' : list A) : find f l = None -> find f (l ++ l') = find f l'.
Proof. induction l as [|y l IH]; simpl; [reflexivity|]. destruct (f y); [discriminate|exact IH]. Qed.

Lemma ckey_refl c : is_klist (arg c) = false -> ckey_eqb c c = true.
Proof.
  destruct c as [[] k]; unfold ckey_eqb, arg; cbn [c_form c_key]; intros H; [| |reflexivity];
    destruct k; cbn; try reflexivity; try discriminate; try apply Z.eqb_refl; try apply str_eqb_refl.
Qed.

Lemma step_ext ids ch n c : exists ext, fst (gcode_step ids ch n c) = ch ++ ext.
Proof.
  unfold gcode_step. destruct (is_klist (arg c)); [exists []; rewrite app_nil_r; reflexivity|].
  destruct (find (fun e => ckey_eqb c (fst e)) ch); [exists []; rewrite app_nil_r; reflexivity|].
  destruct (load ids (arg c)); [eexists; reflexivity|exists []; rewrite app_nil_r; reflexivity].
Qed.

Lemma run_ext ids : forall cs ch n, exists ext, fst (gcode_run ids ch n cs) = ch ++ ext.
Proof.
  induction cs as [|c r IH]; intros ch n; simpl.
  - exists []. rewrite app_nil_r. reflexivity.
  - destruct (step_ext ids ch n c) as (e1 & E1). destruct (gcode_step ids ch n c) as [ch1 x] eqn:Es. simpl in E1.
    destruct (IH ch1 (S n)) as (e2 & E2). destruct (gcode_run ids ch1 (S n) r) as [ch2 xs] eqn:Er. simpl in E2. simpl.
    exists (e1 ++ e2). rewrite E2, E1, app_assoc. reflexivity.
Qed.

(* once a call has returned an object, the same call returns the same object whatever was loaded in between *)
Lemma step_stable ids ch n c o : snd (gcode_step ids ch n c) = inr o ->
  forall ext m, snd (gcode_step ids (fst (gcode_step ids ch n c) ++ ext) m c) = inr o.
Proof.
  unfold gcode_step. destruct (is_klist (arg c)) eqn:Ek; [discriminate|].
  destruct (find (fun e => ckey_eqb c (fst e)) ch) as [e|] eqn:Ef.
  - cbn [fst snd]. intros H ext m. rewrite (find_app_some _ _ ext _ Ef). exact H.
  - destruct (load ids (arg c)) as [i|]; [|discriminate]. cbn [fst snd]. intros H ext m.
    rewrite <- app_assoc, (find_app_none _ _ _ Ef). cbn [app find fst]. rewrite (ckey_refl _ Ek). exact H.
Qed.

Lemma read_stable ids ch n c o : snd (gcode_step ids ch n c) = inr o ->
  forall cs m m', snd (gcode_step ids (fst (gcode_run ids (fst (gcode_step ids ch n c)) m cs)) m' c) = inr o.
Proof.
  intros H cs m m'. destruct (run_ext ids cs (fst (gcode_step ids ch n c)) m) as (ext & E). rewrite E.
  apply step_stable. exact H.
Qed.

(* an unhashable argument: TypeError, whatever the cache holds *)
Lemma step_unhashable ids ch n c : arg c = KList -> gcode_step ids ch n c = (ch, inl (bs "TypeError"%bs)).
Proof. intros H. unfold gcode_step. rewrite H. reflexivity. Qed.

(* ---- the returned table is the requested one *)
Lemma load_requested ids k i : load ids k = Some i -> In i ids /\ requested k i.
Proof.
  destruct k; simpl; try discriminate; intros H; apply find_some in H; destruct H as [H1 H2]; (split; [exact H1|]).
  - apply Z.eqb_eq in H2. left. simpl. rewrite H2. reflexivity.
  - apply str_eqb_eq in H2. right. rewrite H2. reflexivity.
Qed.

Lemma py_eq_requested k k' i : py_eq k k' = true -> requested k' i -> requested k i.
Proof.
  unfold requested. intros E [H|H].
  - left. destruct k, k'; simpl in *; try discriminate; try (apply Z.eqb_eq in E; rewrite E; exact H).
  - subst k'. destruct k; simpl in E; try discriminate. apply str_eqb_eq in E. subst. right. reflexivity.
Qed.

Lemma ckey_requested c c' i : ckey_eqb c c' = true -> requested (arg c') i -> requested (arg c) i.
Proof.
  destruct c as [f k], c' as [f' k']. unfold ckey_eqb, arg. cbn [c_form c_key].
  destruct f, f'; try discriminate; [|apply py_eq_requested|intros _ H; exact H].
  destruct (fast k || fast k'); [|apply py_eq_requested].
  intros E. destruct k, k'; simpl in E; try discriminate.
  - apply Z.eqb_eq in E. subst. exact (fun H => H).
  - apply str_eqb_eq in E. subst. exact (fun H => H).
Qed.

Lemma step_inv ids ch n c : cache_inv ids ch -> cache_inv ids (fst (gcode_step ids ch n c)).
Proof.
  intros I. unfold gcode_step. destruct (is_klist (arg c)) eqn:Ek; [exact I|].
  destruct (find (fun e => ckey_eqb c (fst e)) ch); [exact I|].
  destruct (load ids (arg c)) as [i|] eqn:El; [|exact I]. cbn [fst].
  intros c0 o Hin. apply in_app_or in Hin. destruct Hin as [Hin|[Hin|[]]]; [exact (I _ _ Hin)|].
  inversion Hin; subst. split; [exact Ek|exact El].
Qed.

Lemma step_result ids ch n c o : cache_inv ids ch -> snd (gcode_step ids ch n c) = inr o ->
  In (snd o) ids /\ requested (arg c) (snd o).
Proof.
  intros I. unfold gcode_step. destruct (is_klist (arg c)); [discriminate|].
  destruct (find (fun e => ckey_eqb c (fst e)) ch) as [[c' o']|] eqn:Ef.
  - cbn [fst snd]. intros H. inversion H; subst. apply find_some in Ef. destruct Ef as [Hin E]. cbn [fst] in E.
    destruct (I _ _ Hin) as [_ L]. apply load_requested in L. destruct L as [L1 L2]. split; [exact L1|].
    exact (ckey_requested _ _ _ E L2).
  - destruct (load ids (arg c)) as [i|] eqn:El; [|discriminate]. cbn [fst snd]. intros H. inversion H; subst.
    cbn [snd]. exact (load_requested _ _ _ El).
Qed.

Lemma run_results ids : forall cs ch n, cache_inv ids ch ->
  forall k c o, nth_error cs k = Some c -> nth_error (snd (gcode_run ids ch n cs)) k = Some (inr o) ->
  In (snd o) ids /\ requested (arg c) (snd o).
Proof.
  induction cs as [|c0 r IH]; intros ch n I k c o Hc Hr; [destruct k; discriminate|].
  simpl in Hr. pose proof (step_inv ids ch n c0 I) as I1. pose proof (step_result ids ch n c0) as R.
  destruct (gcode_step ids ch n c0) as [ch1 x] eqn:Es. cbn [fst snd] in I1, R.
  pose proof (IH ch1 (S n) I1) as IH1. destruct (gcode_run ids ch1 (S n) r) as [ch2 xs] eqn:Er. cbn [snd] in Hr, IH1.
  destruct k as [|k]; simpl in Hc, Hr.
  - inversion Hc; inversion Hr; subst. exact (R o I eq_refl).
  - exact (IH1 k c o Hc Hr).
Qed.

Lemma cache_inv_nil ids : cache_inv ids [].
Proof. intros c o []. Qed.

Lemma gcode_witness :
  snd (gcode_run [1%N; 2%N] [] 0
        [ {| c_form := FKw; c_key := KFloat 1 |}; {| c_form := FKw; c_key := KInt 1 |}; {| c_form := FKw; c_key := KFloat 1 |};
          {| c_form := FPos; c_key := KInt 1 |}; {| c_form := FPos; c_key := KFloat 1 |}; {| c_form := FDefault; c_key := KNone |};
          {| c_form := FPos; c_key := KStr (bs "1"%bs) |}; {| c_form := FPos; c_key := KStr (bs "Standard"%bs) |};
          {| c_form := FPos; c_key := KList |}; {| c_form := FPos; c_key := KInt 1 |} ])
  = [ inl (bs "KeyError"%bs); inr (1%nat, 1%N); inr (1%nat, 1%N); inr (3%nat, 1%N); inl (bs "KeyError"%bs); inr (5%nat, 1%N);
      inr (6%nat, 1%N); inl (bs "KeyError"%bs); inl (bs "TypeError"%bs); inr (3%nat, 1%N) ].
Proof. vm_compute. reflexivity. Qed.

(* a call that raises leaves the cache as it was (lru_cache does not cache exceptions); so does a hit *)
Lemma step_error_keeps ids ch n c e : snd (gcode_step ids ch n c) = inl e -> fst (gcode_step ids ch n c) = ch.
Proof.
  unfold gcode_step. destruct (is_klist (arg c)); [reflexivity|].
  destruct (find (fun e0 => ckey_eqb c (fst e0)) ch); [reflexivity|].
  destruct (load ids (arg c)); [discriminate|reflexivity].
Qed.

(* an unknown id / spelling on a cache that holds no equal key: KeyError *)
Lemma step_unknown ids ch n c : is_klist (arg c) = false -> load ids (arg c) = None ->
  find (fun e => ckey_eqb c (fst e)) ch = None -> gcode_step ids ch n c = (ch, inl (bs "KeyError"%bs)).
Proof. intros H1 H2 H3. unfold gcode_step. rewrite H1, H3, H2. reflexivity. Qed.
