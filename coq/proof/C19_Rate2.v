(* C19 round 7: the limiter when the limit is chosen per call (key switches), sleep as an iff, the keyless-after-key refutation *)
From Coq Require Import List ZArith Lia Bool Arith NArith.
From Coq.Strings Require Import Byte.
Import ListNotations.
From SV Require Import Text G_entrez C19_Model C19_Lemmas.
Open Scope Z_scope.

Lemma desc_cons' t h : desc h -> (forall x, In x h -> x <= t) -> desc (t :: h).
Proof. apply (desc_cons 1 Nat.lt_0_1). Qed.
Lemma desc_tail' a h : desc (a :: h) -> desc h.
Proof. apply (desc_tail 1 Nat.lt_0_1). Qed.

(* what wait does, in the two branches *)
Lemma wait_nopop N W d t e : (length d < N)%nat -> wait N W d t e = (d ++ [t], t, 0).
Proof. intros H. unfold wait. apply Nat.leb_gt in H. rewrite H. reflexivity. Qed.

Lemma wait_pop N W prev rest t e : (N <= length (prev :: rest))%nat -> 0 <= e ->
  exists t' sl, wait N W (prev :: rest) t e = (rest ++ [t'], t', sl) /\ t <= t' /\ prev + W <= t' /\ 0 <= sl /\
                (sl <> 0 <-> t - prev < W).
Proof.
  intros H He. unfold wait. apply Nat.leb_le in H. rewrite H.
  destruct (t - prev <? W) eqn:E.
  - apply Z.ltb_lt in E. eexists _, _. split; [reflexivity|]. repeat split; try lia.
  - apply Z.ltb_ge in E. eexists _, _. split; [reflexivity|]. repeat split; try lia.
Qed.

(* sleep is called exactly when the popleft branch is taken and the popped stamp is younger than the window *)
Theorem wait_sleeps_iff N W d t e : 0 <= e ->
  (snd (wait N W d t e) <> 0 <-> (N <= length d)%nat /\ exists prev rest, d = prev :: rest /\ t - prev < W).
Proof.
  intros He. split; [apply no_needless_sleep|].
  intros (HN & prev & rest & -> & Hlt).
  destruct (wait_pop N W prev rest t e HN He) as (t' & sl & E & _ & _ & _ & Hiff).
  rewrite E. simpl. apply Hiff. exact Hlt.
Qed.

Section Rate2.
Variable W : Z.
Variable M : nat.          (* the largest limit any call may choose *)
Hypothesis W_pos : 0 <= W.

(* the deque is the list of the L most recent starts; every start that is no longer in the deque is at least W old *)
Definition Inv2 (s : st) : Prop :=
  exists L, dq s = rev (firstn L (hist s)) /\ (L <= length (hist s))%nat /\ (L <= M)%nat /\
  (forall x, In x (hist s) -> x <= now s) /\ desc (hist s) /\
  (forall i b, (L <= i)%nat -> nth_error (hist s) i = Some b -> b + W <= now s) /\
  spaced M W (hist s).

Lemma Inv2_init : Inv2 init.
Proof.
  exists 0%nat. unfold init; simpl. repeat split; try lia; try easy.
  - intros i j a b _ H. destruct i; discriminate.
  - intros i b _ H. destruct i; discriminate.
  - intros k a b H. destruct k; discriminate.
Qed.

Lemma Inv2_len s L : dq s = rev (firstn L (hist s)) -> (L <= length (hist s))%nat -> length (dq s) = L.
Proof. intros -> H. rewrite rev_length, firstn_length. lia. Qed.

Lemma step_Inv2 N s c : (0 < N)%nat -> (N <= M)%nat -> call_ok c -> Inv2 s -> Inv2 (step N W s c).
Proof.
  intros HN HNM (Hg & He & Hd) (L & Hdq & HLh & HLM & Hnow & Hde & HJ & Hsp).
  pose proof (Inv2_len s L Hdq HLh) as Hlen.
  unfold step.
  destruct (le_lt_dec N L) as [Full|Short].
  - (* popleft branch *)
    assert (HL: (0 < L)%nat) by lia.
    assert (HfL: (L <= length (firstn L (hist s)))%nat) by (rewrite firstn_length; lia).
    destruct (firstn_rev_cons_full L HL (hist s) 0 HfL) as (prev & rest & E & Hprev & _).
    assert (Hd2: dq s = prev :: rest) by (rewrite Hdq; exact E).
    assert (HNd: (N <= length (prev :: rest))%nat) by (rewrite <- Hd2, Hlen; exact Full).
    destruct (wait_pop N W prev rest (now s + gap c) (eps c) HNd He) as (t' & sl & Ew & Ht & Hp & _ & _).
    rewrite Hd2, Ew.
    assert (Hprev_now: prev <= now s) by (apply Hnow; eapply nth_error_In; eauto).
    exists L. cbn [dq hist now]. split; [|split; [|split; [|split; [|split; [|split]]]]].
    + destruct (firstn_rev_cons_full L HL (hist s) t' HfL) as (p2 & r2 & E2 & _ & E3).
      rewrite E in E2. inversion E2; subst. symmetry; exact E3.
    + simpl. lia.
    + exact HLM.
    + intros x [Hx|Hx]; [subst; lia|specialize (Hnow x Hx); lia].
    + apply desc_cons'; [exact Hde|]. intros x Hx. specialize (Hnow x Hx). lia.
    + intros i b Hi Hb. destruct i as [|i]; [lia|]. simpl in Hb.
      destruct (Nat.eq_dec i (L - 1)) as [->|Hne].
      * rewrite Hprev in Hb. inversion Hb; subst. lia.
      * assert (b + W <= now s) by (apply (HJ i b); [lia|exact Hb]). lia.
    + intros k a b Ha Hb. destruct k as [|k]; simpl in *.
      * inversion Ha; subst a.
        destruct M as [|m] eqn:EM; [lia|]. simpl in Hb.
        assert (b <= prev) by (apply (Hde (L - 1)%nat m prev b); [lia|exact Hprev|exact Hb]). lia.
      * eapply Hsp; eauto.
  - (* append only *)
    rewrite wait_nopop by lia.
    exists (S L). cbn [dq hist now]. split; [|split; [|split; [|split; [|split; [|split]]]]].
    + rewrite Hdq. simpl. reflexivity.
    + simpl. lia.
    + lia.
    + intros x [Hx|Hx]; [subst; lia|specialize (Hnow x Hx); lia].
    + apply desc_cons'; [exact Hde|]. intros x Hx. specialize (Hnow x Hx). lia.
    + intros i b Hi Hb. destruct i as [|i]; [lia|]. simpl in Hb.
      assert (b + W <= now s) by (apply (HJ i b); [lia|exact Hb]). lia.
    + intros k a b Ha Hb. destruct k as [|k]; simpl in *.
      * inversion Ha; subst a.
        destruct M as [|m] eqn:EM; [lia|]. simpl in Hb.
        assert (b + W <= now s) by (apply (HJ m b); [lia|exact Hb]). lia.
      * eapply Hsp; eauto.
Qed.
End Rate2.

(* ---- the shipped limits ---- *)
Lemma limit_le_max key : (limit key <= limit true)%nat.
Proof. destruct key; vm_compute; repeat constructor. Qed.

Lemma rstep_Inv2 s kc : call_ok (snd kc) -> Inv2 window (limit true) s -> Inv2 window (limit true) (rstep s kc).
Proof.
  intros Hc Hs. unfold rstep.
  apply step_Inv2; first [assumption | apply window_nonneg | apply limit_pos | apply limit_le_max].
Qed.

Lemma fold_rstep_Inv2 cs : Forall (fun kc => call_ok (snd kc)) cs -> forall s,
  Inv2 window (limit true) s -> Inv2 window (limit true) (fold_left rstep cs s).
Proof.
  induction 1 as [|kc cs Hc Hcs IH]; intros s Hs; simpl; [exact Hs|]. apply IH. apply rstep_Inv2; assumption.
Qed.

Lemma run2_Inv2 cs : Forall (fun kc => call_ok (snd kc)) cs -> Inv2 window (limit true) (run2 cs).
Proof. intros H. apply fold_rstep_Inv2; [exact H|apply Inv2_init]. Qed.

(* any history, the key free to change at every call: never more than the larger limit in any half-open window *)
Theorem window_limit_mixed cs x : Forall (fun kc => call_ok (snd kc)) cs ->
  (count_in_window window x (hist (run2 cs)) <= limit true)%nat.
Proof.
  intros H. destruct (run2_Inv2 cs H) as (L & _ & _ & _ & _ & Hde & _ & Hsp).
  apply count_window; [apply limit_pos|exact Hsp|exact Hde].
Qed.

(* a history with one key setting throughout is a history of the one-limit machine *)
Lemma fold_rstep_const key cs s :
  fold_left rstep (map (pair key) cs) s = fold_left (step (limit key) window) cs s.
Proof. revert s. induction cs as [|c cs IH]; intros s; simpl; [reflexivity|]. apply IH. Qed.
Lemma run2_const key cs : run2 (map (pair key) cs) = run (limit key) window cs.
Proof. apply fold_rstep_const. Qed.

Lemma fold_rstep_hist cs : forall s, exists new, hist (fold_left rstep cs s) = new ++ hist s /\ length new = length cs.
Proof.
  induction cs as [|kc cs IH]; intros s; simpl; [exists []; auto|].
  destruct (IH (rstep s kc)) as (new & E & Hl). exists (new ++ [hd 0 (hist (rstep s kc))]).
  rewrite E. unfold rstep, step. destruct (wait _ _ _ _ _) as [[d' t'] sl]. simpl.
  rewrite <- app_assoc. simpl. split; [reflexivity|]. rewrite app_length. simpl. lia.
Qed.

(* a key that is added later: the keyless requests are a prefix and obey the small limit, the whole history the large one *)
Theorem key_added_later a b x : Forall call_ok a -> Forall call_ok b ->
  let h1 := hist (run2 (map (pair false) a)) in
  let h := hist (run2 (map (pair false) a ++ map (pair true) b)) in
  (count_in_window window x h1 <= limit false)%nat /\ (count_in_window window x h <= limit true)%nat /\
  exists new, h = new ++ h1 /\ length new = length b.
Proof.
  intros Ha Hb h1 h. split; [|split].
  - unfold h1. rewrite run2_const. apply shipped_window_limit. exact Ha.
  - apply window_limit_mixed. apply Forall_app. split; apply Forall_map; simpl.
    + exact Ha. + exact Hb.
  - unfold h, h1, run2. rewrite fold_left_app.
    destruct (fold_rstep_hist (map (pair true) b) (fold_left rstep (map (pair false) a) init)) as (new & E & Hl).
    exists new. rewrite map_length in Hl. auto.
Qed.

(* ... but a key that is REMOVED: the deque keeps its 10 slots (it never shrinks), each keyless call pops one stamp, and up to
   limit true keyless requests start in one window *)
Definition c0 : call := {| gap := 0; eps := 0; dur := 0 |}.
Theorem key_removed_refuted :
  exists pre post x, forallb call_okb (pre ++ post) = true /\
    let h := hist (run2 (map (pair true) pre ++ map (pair false) post)) in
    (limit false <? count_in_window window x (firstn (length post) h))%nat = true.
Proof.
  exists (repeat c0 10), ({| gap := 1024; eps := 0; dur := 0 |} :: repeat c0 9), 1024.
  split; vm_compute; reflexivity.
Qed.

(* ---- "never sleeps when the window is free", as an iff (one key setting, reachable states) ---- *)
Lemma filter_gt_le c h k a : desc h -> nth_error h k = Some a -> a <= c ->
  (length (filter (fun x => (c <? x)%Z) h) <= k)%nat.
Proof.
  revert k. induction h as [|y h IH]; intros k Hd Hk Ha; [destruct k; discriminate|].
  destruct k as [|k]; simpl in Hk.
  - inversion Hk; subst y. rewrite filter_none; [simpl; lia|].
    intros x Hx. apply Z.ltb_ge.
    destruct (In_nth_error _ _ Hx) as (j & Hj).
    assert (x <= a) by (apply (Hd 0%nat j a x); [lia|reflexivity|exact Hj]). lia.
  - simpl. specialize (IH k (desc_tail' _ _ Hd) Hk Ha). destruct (c <? y); simpl; lia.
Qed.

Theorem sleep_iff_window_full N W cs c : (0 < N)%nat -> 0 <= W -> Forall call_ok cs -> call_ok c ->
  let s := run N W cs in let t := now s + gap c in
  snd (wait N W (dq s) t (eps c)) <> 0 <-> (N <= length (filter (fun x => (t - W <? x)%Z) (hist s)))%nat.
Proof.
  intros HN HW Hcs Hc s t. split.
  - intros Hsl. destruct (sleep_means_window_full N W HN cs c Hcs Hc Hsl) as [H1 _].
    rewrite <- (firstn_skipn N (hist s)), filter_app, app_length. fold s t in H1. lia.
  - intros Hcount.
    destruct (run_Inv N W HN cs Hcs) as (Hdq & Hnow & Hsp & Hde). fold s in Hdq, Hnow, Hsp, Hde.
    pose proof (filter_len_le 1 Nat.lt_0_1 (fun x => t - W <? x) (hist s)) as Hle.
    assert (HfL: (N <= length (firstn N (hist s)))%nat) by (rewrite firstn_length; lia).
    destruct (firstn_rev_cons_full N HN (hist s) 0 HfL) as (prev & rest & E & Hprev & _).
    assert (Hyoung: t - W < prev).
    { destruct (Z_lt_le_dec (t - W) prev) as [Hlt|Hge]; [exact Hlt|].
      pose proof (filter_gt_le (t - W) (hist s) (N - 1) prev Hde Hprev Hge). lia. }
    destruct Hc as (_ & He & _).
    apply wait_sleeps_iff; [exact He|]. split.
    + rewrite Hdq, rev_length. exact HfL.
    + exists prev, rest. split; [rewrite Hdq; exact E|lia].
Qed.

Theorem shipped_sleep_iff_window_full api cs c : Forall call_ok cs -> call_ok c ->
  let s := run (limit api) window cs in let t := now s + gap c in
  snd (wait (limit api) window (dq s) t (eps c)) <> 0 <->
  (limit api <= length (filter (fun x => (t - window <? x)%Z) (hist s)))%nat.
Proof. intros H1 H2. apply sleep_iff_window_full; first [apply limit_pos | apply window_nonneg | assumption]. Qed.

Lemma witness_keys :
  let cs := [(false, c0); (true, c0); (true, c0); (true, c0); (false, c0); (false, c0)] in
  Forall (fun kc => call_ok (snd kc)) cs /\ rev (hist (run2 cs)) = [0; 0; 0; 0; 1024; 1024].
Proof. split; [repeat constructor; discriminate | reflexivity]. Qed.

(* ================= the proposed repair of the key-switch defect ================= *)
(* on states whose deque is no longer than the limit the repair changes nothing (one key setting: always) *)
Theorem stepF_same N W s c : (length (dq s) <= N)%nat -> stepF N W s c = step N W s c.
Proof.
  intros H. unfold stepF, trim. replace (length (dq s) - N)%nat with 0%nat by lia. simpl. destruct s; reflexivity.
Qed.

Section Fixed.
Variable W : Z.
Hypothesis W_pos : 0 <= W.

Definition InvF (s : st) : Prop :=
  exists L, dq s = rev (firstn L (hist s)) /\ (L <= length (hist s))%nat /\
  (forall x, In x (hist s) -> x <= now s) /\ desc (hist s) /\
  (forall i b, (L <= i)%nat -> nth_error (hist s) i = Some b -> b + W <= now s).

Lemma InvF_init : InvF init.
Proof.
  exists 0%nat. unfold init; simpl. repeat split; try lia; try easy.
  - intros i j a b _ H. destruct i; discriminate.
  - intros i b _ H. destruct i; discriminate.
Qed.

Lemma stepF_InvF N s c : (0 < N)%nat -> call_ok c -> InvF s ->
  InvF (stepF N W s c) /\
  forall b, nth_error (hist (stepF N W s c)) N = Some b -> hd 0 (hist (stepF N W s c)) - b >= W.
Proof.
  intros HN (Hg & He & Hd) (L & Hdq & HLh & Hnow & Hde & HJ).
  pose proof (Inv2_len s L Hdq HLh) as Hlen.
  unfold stepF, step, trim. cbn [dq now hist slept]. rewrite Hlen.
  destruct (le_lt_dec N L) as [Full|Short].
  - assert (E: skipn (L - N) (dq s) = rev (firstn N (hist s))).
    { rewrite Hdq, skipn_rev, firstn_length, firstn_firstn. f_equal. f_equal. lia. }
    rewrite E.
    assert (HfN: (N <= length (firstn N (hist s)))%nat) by (rewrite firstn_length; lia).
    destruct (firstn_rev_cons_full N HN (hist s) 0 HfN) as (prev & rest & E1 & Hprev & _).
    assert (HNd: (N <= length (prev :: rest))%nat) by (rewrite <- E1, rev_length; exact HfN).
    destruct (wait_pop N W prev rest (now s + gap c) (eps c) HNd He) as (t' & sl & Ew & Ht & Hp & _ & _).
    rewrite E1, Ew. cbn [dq hist now hd].
    assert (Hprev_now: prev <= now s) by (apply Hnow; eapply nth_error_In; eauto).
    split.
    + exists N. cbn [dq hist now]. split; [|split; [|split; [|split]]].
      * destruct (firstn_rev_cons_full N HN (hist s) t' HfN) as (p2 & r2 & E2 & _ & E3).
        rewrite E1 in E2. inversion E2; subst. symmetry; exact E3.
      * simpl. lia.
      * intros x [Hx|Hx]; [subst; lia|specialize (Hnow x Hx); lia].
      * apply desc_cons'; [exact Hde|]. intros x Hx. specialize (Hnow x Hx). lia.
      * intros i b Hi Hb. destruct i as [|i]; [lia|]. simpl in Hb.
        assert (b <= prev) by (apply (Hde (N - 1)%nat i prev b); [lia|exact Hprev|exact Hb]). lia.
    + intros b Hb. destruct N as [|n]; [lia|]. simpl in Hb. replace (S n - 1)%nat with n in Hprev by lia.
      rewrite Hprev in Hb. inversion Hb; subst. lia.
  - replace (L - N)%nat with 0%nat by lia. cbn [skipn].
    rewrite wait_nopop by lia. cbn [dq hist now hd].
    split.
    + exists (S L). cbn [dq hist now]. split; [|split; [|split; [|split]]].
      * rewrite Hdq. simpl. reflexivity.
      * simpl. lia.
      * intros x [Hx|Hx]; [subst; lia|specialize (Hnow x Hx); lia].
      * apply desc_cons'; [exact Hde|]. intros x Hx. specialize (Hnow x Hx). lia.
      * intros i b Hi Hb. destruct i as [|i]; [lia|]. simpl in Hb.
        assert (b + W <= now s) by (apply (HJ i b); [lia|exact Hb]). lia.
    + intros b Hb. destruct N as [|n]; [lia|]. simpl in Hb.
      assert (b + W <= now s) by (apply (HJ n b); [lia|exact Hb]). lia.
Qed.
End Fixed.

Lemma runF_InvF cs : Forall (fun kc => call_ok (snd kc)) cs -> InvF window (runF cs).
Proof.
  intros H. unfold runF.
  assert (G: forall s, InvF window s -> InvF window (fold_left rstepF cs s)).
  { induction H as [|kc cs Hc Hcs IH]; intros s Hs; simpl; [exact Hs|]. apply IH.
    apply (stepF_InvF window (limit (fst kc)) s (snd kc) (limit_pos _) Hc Hs). }
  apply G, InvF_init.
Qed.

(* with the repair, in ANY history of key switches, every request starts at least one window after the request N places before it,
   N being the limit in force for THAT request (3 without key, 10 with) *)
Theorem repaired_rate_limit pre kc : Forall (fun x => call_ok (snd x)) (pre ++ [kc]) ->
  let h := hist (runF (pre ++ [kc])) in
  forall b, nth_error h (limit (fst kc)) = Some b -> hd 0 h - b >= window.
Proof.
  intros H h b Hb. apply Forall_app in H. destruct H as [Hpre Hkc]. inversion Hkc as [|x l Hc _]; subst.
  unfold h, runF in *. rewrite fold_left_app in *. simpl in *.
  apply (stepF_InvF window (limit (fst kc)) _ (snd kc) (limit_pos _) Hc (runF_InvF pre Hpre)). exact Hb.
Qed.

(* the history that defeats the shipped code (key_removed_refuted) is limited again *)
Theorem repaired_key_removed :
  rev (hist (runF (map (pair true) (repeat c0 10) ++ map (pair false) ({| gap := 1024; eps := 0; dur := 0 |} :: repeat c0 9))))
  = repeat 0 10 ++ [1024; 1024; 1024; 2048; 2048; 2048; 3072; 3072; 3072; 4096].
Proof. vm_compute. reflexivity. Qed.

(* ================= the repaired function is the code (fix a09a4a0): what holds for every history of key switches ================= *)
Lemma Inv_dq_len N W s : Inv N W s -> (length (dq s) <= N)%nat.
Proof. intros (Hdq & _). rewrite Hdq, rev_length, firstn_length. lia. Qed.

Lemma fold_rstepF_const key cs : Forall call_ok cs -> forall s, Inv (limit key) window s ->
  fold_left rstepF (map (pair key) cs) s = fold_left (step (limit key) window) cs s.
Proof.
  induction 1 as [|c cs Hc Hcs IH]; intros s Hs; simpl; [reflexivity|].
  change (rstepF s (key, c)) with (stepF (limit key) window s c).
  rewrite stepF_same by (eapply Inv_dq_len; eauto).
  apply IH. apply step_Inv; [apply limit_pos|exact Hc|exact Hs].
Qed.

(* with one key setting the code is the one-limit machine of the round-1 theorems (rate_limit ... sleep_iff_window_full) *)
Theorem runF_const key cs : Forall call_ok cs -> runF (map (pair key) cs) = run (limit key) window cs.
Proof. intros H. apply fold_rstepF_const; [exact H|apply Inv_init]. Qed.

Lemma hist_stepF N W s c : hist (stepF N W s c) = hd 0 (hist (stepF N W s c)) :: hist s.
Proof. unfold stepF, step, trim. cbn [dq now hist slept]. destruct (wait _ _ _ _ _) as [[d' t'] sl]. reflexivity. Qed.

Lemma stepF_spaced M N s c : (0 < N)%nat -> (N <= M)%nat -> call_ok c -> InvF window s ->
  spaced M window (hist s) -> spaced M window (hist (stepF N window s c)).
Proof.
  intros HN HNM Hc Hs Hsp.
  destruct (stepF_InvF window N s c HN Hc Hs) as ((L & _ & _ & _ & Hde & _) & Hhead).
  rewrite hist_stepF in *. set (t' := hd 0 (hist (stepF N window s c))) in *. simpl in Hhead.
  intros k a b Ha Hb. destruct k as [|k]; simpl in Ha, Hb.
  - inversion Ha; subst a.
    assert (HlenM: (M < length (t' :: hist s))%nat) by (apply nth_error_Some; simpl; congruence).
    destruct (nth_error (t' :: hist s) N) as [b0|] eqn:E0; [|apply nth_error_None in E0; lia].
    assert (b <= b0) by (apply (Hde N M b0 b); [lia|exact E0|exact Hb]).
    specialize (Hhead b0 eq_refl). lia.
  - eapply Hsp; eauto.
Qed.

Lemma runF_InvF_spaced cs : Forall (fun kc => call_ok (snd kc)) cs ->
  InvF window (runF cs) /\ spaced (limit true) window (hist (runF cs)).
Proof.
  intros H. unfold runF.
  assert (G: forall s, InvF window s /\ spaced (limit true) window (hist s) ->
             InvF window (fold_left rstepF cs s) /\ spaced (limit true) window (hist (fold_left rstepF cs s))).
  { induction H as [|kc cs Hc Hcs IH]; intros s Hs; simpl; [exact Hs|]. apply IH. destruct Hs as [H1 H2]. split.
    - apply (stepF_InvF window (limit (fst kc)) s (snd kc) (limit_pos _) Hc H1).
    - apply stepF_spaced; first [apply limit_pos | apply limit_le_max | assumption]. }
  apply G. split; [apply InvF_init|]. intros k a b Ha. destruct k; discriminate.
Qed.

(* ANY history, the key free to change at every call: no half-open one-second window holds more than the larger limit of starts *)
Theorem window_limit_any_key_F cs x : Forall (fun kc => call_ok (snd kc)) cs ->
  (count_in_window window x (hist (runF cs)) <= limit true)%nat.
Proof.
  intros H. destruct (runF_InvF_spaced cs H) as ((L & _ & _ & _ & Hde & _) & Hsp).
  apply count_window; [apply limit_pos|exact Hsp|exact Hde].
Qed.

(* the exact statement: when a request starts, every one-second window that contains this start holds at most N starts so far,
   N being the limit in force for THIS request *)
Lemma count_window_head N W x a r : (0 < N)%nat -> desc (a :: r) ->
  (forall b, nth_error (a :: r) N = Some b -> a - b >= W) -> in_window W x a = true ->
  (count_in_window W x (a :: r) <= N)%nat.
Proof.
  intros HN Hd Hhead Ea. unfold count_in_window. simpl. rewrite Ea. simpl.
  assert (Hold: forall y, In y (skipn (N - 1) r) -> in_window W x y = false).
  { intros y Hy. apply (In_skipn_nth 1 Nat.lt_0_1) in Hy. destruct Hy as (k & Hk & Ek).
    destruct (nth_error (a :: r) N) as [b|] eqn:Eb.
    - specialize (Hhead b eq_refl).
      assert (y <= b) by (apply (Hd N (S k) b y); [lia|exact Eb|simpl; exact Ek]).
      unfold in_window in *. apply andb_prop in Ea. destruct Ea as [E1 E2].
      apply Z.leb_le in E1. apply Z.ltb_lt in E2.
      destruct (x <=? y) eqn:E3; [|reflexivity]. apply Z.leb_le in E3. lia.
    - apply nth_error_None in Eb. simpl in Eb.
      assert (k < length r)%nat by (apply nth_error_Some; congruence). lia. }
  rewrite <- (firstn_skipn (N - 1) r), filter_app, (filter_none _ _ Hold), app_nil_r.
  pose proof (filter_len_le 1 Nat.lt_0_1 (in_window W x) (firstn (N - 1) r)) as Lq.
  rewrite firstn_length in Lq. lia.
Qed.

Theorem window_limit_current_key pre kc x : Forall (fun c => call_ok (snd c)) (pre ++ [kc]) ->
  let h := hist (runF (pre ++ [kc])) in
  in_window window x (hd 0 h) = true -> (count_in_window window x h <= limit (fst kc))%nat.
Proof.
  intros H h Hin. pose proof (repaired_rate_limit pre kc H) as Hhead. fold h in Hhead.
  destruct (runF_InvF_spaced _ H) as ((L & _ & _ & _ & Hde & _) & _). fold h in Hde.
  assert (E: h = hd 0 h :: hist (runF pre)).
  { unfold h, runF. rewrite fold_left_app. simpl. apply hist_stepF. }
  rewrite E in *. simpl in Hin, Hhead. apply count_window_head; try assumption. apply limit_pos.
Qed.

(* corollary for the history that defeated the unrepaired code: see repaired_key_removed *)
Lemma witness_keys_F :
  let cs := [(false, c0); (true, c0); (true, c0); (true, c0); (false, c0); (false, c0)] in
  Forall (fun kc => call_ok (snd kc)) cs /\ rev (hist (runF cs)) = [0; 0; 0; 0; 1024; 1024].
Proof. split; [repeat constructor; discriminate | reflexivity]. Qed.
