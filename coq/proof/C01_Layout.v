(* C01 proofs: comment / blank lines can be deleted from FASTA and Stockholm files; Stockholm with any number of blocks. *)
From Coq Require Import List ZArith NArith Bool Lia Arith.
From Coq.Strings Require Import Byte.
Import ListNotations.
From SV Require Import Text C01_Lines G_codes G_c01_io C01_Model C01_Lemmas C01_Formats C01_Stockholm.

(* ---------------------------------------------------------------- FASTA: ';' lines *)
Definition not_comment (l : str) : bool := negb (head_is SEMI l).
Lemma semi_not_gt l : head_is SEMI l = true -> head_is GT l = false.
Proof.
  destruct l as [|c l]; [discriminate|]. cbn [head_is]. intros H. apply byte_eqb_eq in H. subst. reflexivity.
Qed.
(* deleting every ';' line of a FASTA file changes nothing of what is read (in any parser state) *)
Theorem fasta_comments_removable ls : forall st, iter_fasta st (filter not_comment ls) = iter_fasta st ls.
Proof.
  induction ls as [|l ls IH]; intros st; [reflexivity|].
  cbn [filter]. unfold not_comment at 1. destruct (head_is SEMI l) eqn:E; cbn [negb].
  - cbn [iter_fasta]. rewrite (semi_not_gt l E). rewrite E. apply IH.
  - cbn [iter_fasta]. rewrite E. destruct (head_is GT l).
    + rewrite IH. reflexivity.
    + destruct st as [[[i h] d]|]; [apply IH|]. destruct (strip l); [apply IH|reflexivity].
Qed.
(* the same for blank lines inside and between records, but not before a header-less start (there they are skipped too) *)
Definition not_skippable (l : str) : bool := negb (is_skip_line l).
Theorem fasta_blank_comments_removable ls : forall st, iter_fasta st (filter not_skippable ls) = iter_fasta st ls.
Proof.
  induction ls as [|l ls IH]; intros st; [reflexivity|].
  cbn [filter]. unfold not_skippable at 1. destruct (is_skip_line l) eqn:E; cbn [negb].
  - unfold is_skip_line in E. cbn [iter_fasta]. destruct (head_is SEMI l) eqn:S1.
    + rewrite (semi_not_gt l S1). apply IH.
    + cbn [orb] in E. destruct (strip l) as [|c r] eqn:S2; [|discriminate].
      rewrite (blank_not_gt l S2). destruct st as [[[i h] d]|]; [|apply IH].
      rewrite app_nil_r. apply IH.
  - cbn [iter_fasta]. destruct (head_is GT l).
    + rewrite IH. reflexivity.
    + destruct (head_is SEMI l); [apply IH|]. destruct st as [[[i h] d]|]; [apply IH|]. destruct (strip l); [apply IH|reflexivity].
Qed.

(* ---------------------------------------------------------------- Stockholm: blank lines, '#' comments, well-formed annotations *)
(* a line the sequence reader passes over: blank, or starting with '#' and accepted (a '#=GF x' line with too few fields
   raises, so it is not one of them) *)
Definition stk_noop (l : str) : bool :=
  match strip l with
  | [] => true
  | s => head_is HASH s && match stk_line l [] with Ok ([], false) => true | _ => false end
  end.
Lemma stk_noop_line l : stk_noop l = true -> forall d, stk_line l d = Ok (d, false).
Proof.
  unfold stk_noop, stk_line. destruct (strip l) as [|c s] eqn:E; [reflexivity|].
  intros H d. apply andb_prop in H. destruct H as [Hh Hm].
  destruct (startswith STK_HEAD (c :: s)); [reflexivity|].
  destruct (startswith (bs "#=GF"%bs) (c :: s) || startswith (bs "#=GC"%bs) (c :: s)).
  { destruct (Nat.leb 3 (ntokens (c :: s))); [reflexivity|discriminate]. }
  destruct (startswith (bs "#=GS"%bs) (c :: s) || startswith (bs "#=GR"%bs) (c :: s)).
  { destruct (Nat.leb 4 (ntokens (c :: s))); [reflexivity|discriminate]. }
  rewrite Hh. reflexivity.
Qed.
(* plain comments are such lines *)
Lemma stk_plain_comment_noop l c s : strip l = c :: s -> head_is HASH (c :: s) = true ->
  startswith (bs "#="%bs) (c :: s) = false -> stk_noop l = true.
Proof.
  intros E Hh Hn. unfold stk_noop, stk_line. rewrite E. cbv beta iota zeta. rewrite Hh. cbn [andb].
  destruct (startswith STK_HEAD (c :: s)); [reflexivity|].
  assert (G : forall x y, startswith ("#"%byte :: "="%byte :: "G"%byte :: [x]) (c :: s) = true -> startswith (bs "#="%bs) (c :: s) = y -> y = true).
  { intros x y H1 H2. rewrite <- H2. unfold startswith in *. destruct (strip_prefix ("#"%byte :: "="%byte :: "G"%byte :: [x]) (c :: s)) as [r|] eqn:P; [|discriminate].
    apply strip_prefix_some in P. rewrite P. reflexivity. }
  destruct (startswith (bs "#=GF"%bs) (c :: s)) eqn:A1; [specialize (G _ _ A1 Hn); discriminate|].
  destruct (startswith (bs "#=GC"%bs) (c :: s)) eqn:A2; [specialize (G _ _ A2 Hn); discriminate|].
  destruct (startswith (bs "#=GS"%bs) (c :: s)) eqn:A3; [specialize (G _ _ A3 Hn); discriminate|].
  destruct (startswith (bs "#=GR"%bs) (c :: s)) eqn:A4; [specialize (G _ _ A4 Hn); discriminate|].
  cbn [orb]. reflexivity.
Qed.
(* deleting every blank line and every '#' line of a Stockholm file changes nothing of what is read *)
Theorem stk_comments_removable ls : forall d, stk_loop (filter (fun l => negb (stk_noop l)) ls) d = stk_loop ls d.
Proof.
  induction ls as [|l ls IH]; intros d; [reflexivity|].
  cbn [filter]. destruct (stk_noop l) eqn:E; cbn [negb].
  - cbn [stk_loop]. rewrite (stk_noop_line l E d). cbn [bind]. apply IH.
  - cbn [stk_loop]. destruct (stk_line l d) as [[d' brk]|e]; cbn [bind]; [|reflexivity].
    destruct brk; [reflexivity|apply IH].
Qed.
Theorem stk_comments_removable_read ls :
  read_stockholm_lines (filter (fun l => negb (stk_noop l)) ls) = read_stockholm_lines ls.
Proof. unfold read_stockholm_lines. rewrite stk_comments_removable. reflexivity. Qed.

(* ---------------------------------------------------------------- Stockholm: any number of interleaved blocks *)
Lemma row_ok_zip ks : forall vs ws, forallb row_ok (combine ks vs) = true -> forallb row_ok (combine ks ws) = true ->
  forallb row_ok (combine ks (zip_app vs ws)) = true.
Proof.
  induction ks as [|k ks IH]; intros vs ws Hv Hw; [reflexivity|].
  destruct vs as [|v vs]; [reflexivity|]. destruct ws as [|w ws]; [reflexivity|].
  cbn [zip_app combine forallb] in *. apply andb_prop in Hv. destruct Hv as [Hv Hvs]. apply andb_prop in Hw. destruct Hw as [Hw Hws].
  rewrite (IH vs ws Hvs Hws). rewrite andb_true_r.
  unfold row_ok in *. cbn [fst snd] in *.
  apply andb_prop in Hv. destruct Hv as [Hv Hv3]. apply andb_prop in Hv. destruct Hv as [Hv1 Hv2].
  apply andb_prop in Hw. destruct Hw as [Hw Hw3]. apply andb_prop in Hw. destruct Hw as [Hw1 Hw2].
  rewrite Hv1. unfold residues_ok in *. rewrite forallb_app. rewrite Hv2, Hw2. cbn [andb].
  destruct v; [discriminate|reflexivity].
Qed.
Lemma zip_app_length : forall vs ws, length vs = length ws -> length (zip_app vs ws) = length vs.
Proof.
  induction vs as [|v vs IH]; intros [|w ws] H; try reflexivity; try discriminate.
  cbn [zip_app length] in *. f_equal. apply IH. lia.
Qed.
Definition blank_lines (sep : list str) : bool := forallb (fun l => match strip l with [] => true | _ => false end) sep.
(* a block after the first: separator lines (blank) and the rows of the block *)
Definition block_ok (ks : list str) (sb : list str * list str) : Prop :=
  blank_lines (fst sb) = true /\ length (snd sb) = length ks /\ forallb row_ok (combine ks (snd sb)) = true.
Definition block_lines (ks : list str) (sb : list str * list str) : list str :=
  fst sb ++ map row_line (combine ks (snd sb)).
Definition rows_all (b0 : list str) (blocks : list (list str * list str)) : list str :=
  fold_left (fun acc sb => zip_app acc (snd sb)) blocks b0.
Theorem stk_interleave_n ks : forall blocks b0 rest d, distinct ks = true ->
  length b0 = length ks -> forallb row_ok (combine ks b0) = true -> Forall (block_ok ks) blocks ->
  stk_loop (map row_line (combine ks b0) ++ concat (map (block_lines ks) blocks) ++ rest) d
  = stk_loop (map row_line (combine ks (rows_all b0 blocks)) ++ rest) d.
Proof.
  induction blocks as [|[sep vs] blocks IH]; intros b0 rest d Hd L0 H0 Hb; [reflexivity|].
  inversion Hb as [|x l Hx Hl]; subst. destruct Hx as (Hs & Lv & Hv). cbn [fst snd] in *.
  cbn [map concat]. unfold block_lines at 1. cbn [fst snd]. rewrite <- !app_assoc.
  pose proof (row_ok_zip ks b0 vs H0 Hv) as Hz.
  rewrite (stk_interleave ks b0 vs sep _ d Hd L0 Lv H0 Hv Hz Hs).
  unfold rows_all. cbn [fold_left snd]. apply IH; [exact Hd| |exact Hz|exact Hl].
  rewrite zip_app_length; lia.
Qed.

(* ---------------------------------------------------------------- FASTA: concatenation of files *)
(* FASTA files can be concatenated: reading the lines of one file followed by the lines of another one (which starts with
   a header) gives the records of the first followed by the records of the second, whatever their layout; an error in
   either part is an error of the whole *)
Theorem fasta_concat l1 h l2 : head_is GT h = true -> forall st,
  iter_fasta st (l1 ++ h :: l2)
  = bind (iter_fasta st l1) (fun r1 => bind (iter_fasta None (h :: l2)) (fun r2 => Ok (r1 ++ r2))).
Proof.
  intros Hh. remember (iter_fasta None (h :: l2)) as B eqn:EB. induction l1 as [|l l1 IH]; intros st.
  - cbn [app iter_fasta bind]. rewrite Hh. subst B. cbn [iter_fasta]. rewrite Hh. cbn [bind flush].
    destruct (iter_fasta (Some (id_from_header (strip (lstrip_ch GT h)), strip (lstrip_ch GT h), [])) l2); reflexivity.
  - cbn [app iter_fasta]. destruct (head_is GT l).
    + rewrite IH. destruct (iter_fasta (Some (id_from_header (strip (lstrip_ch GT l)), strip (lstrip_ch GT l), [])) l1) as [a|e]; cbn [bind]; [|reflexivity].
      destruct B as [b|e]; cbn [bind]; [|reflexivity]. rewrite app_assoc. reflexivity.
    + destruct (head_is SEMI l); [apply IH|].
      destruct st as [[[i hd] d]|]; [apply IH|]. destruct (strip l); [apply IH|reflexivity].
Qed.
