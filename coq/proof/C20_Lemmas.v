From Coq Require Import List ZArith NArith Bool Lia.
From Coq.Strings Require Import Byte.
Import ListNotations.
From SV Require Import Text G_submat_index C20_Model C20_Finite C20_Render C20_Num.

(* ================= small generic lemmas ================= *)
Lemma strs_eqb_eq a b : strs_eqb a b = true -> a = b.
Proof.
  revert b; induction a as [|x a IH]; intros [|y b] H; cbn in H; try discriminate; [reflexivity|].
  apply andb_prop in H. destruct H as [H1 H2]. apply str_eqb_eq in H1. apply IH in H2. congruence.
Qed.
Lemma strs_eqb_refl a : strs_eqb a a = true.
Proof. induction a as [|x a IH]; [reflexivity|]. cbn. rewrite str_eqb_refl, IH. reflexivity. Qed.
Lemma num_eqb_eq a b : num_eqb a b = true -> a = b.
Proof.
  destruct a as [x|m k], b as [y|m' k']; cbn; intros H; try discriminate.
  - apply Z.eqb_eq in H. congruence.
  - apply andb_prop in H. destruct H as [H1 H2]. apply Z.eqb_eq in H1. apply Nat.eqb_eq in H2. congruence.
Qed.
Lemma num_eqb_refl a : num_eqb a a = true.
Proof. destruct a; cbn; [apply Z.eqb_refl|]. rewrite Z.eqb_refl, Nat.eqb_refl. reflexivity. Qed.

Lemma nth_error_combine_In {A B} (l1 : list A) (l2 : list B) j a b :
  nth_error l1 j = Some a -> nth_error l2 j = Some b -> In (a, b) (combine l1 l2).
Proof.
  revert l1 l2; induction j as [|j IH]; intros [|x l1] [|y l2] H1 H2; cbn in *; try discriminate.
  - left. congruence.
  - right. apply IH; assumption.
Qed.

Lemma existsb_str_false x l : existsb (str_eqb x) l = false -> ~ In x l.
Proof.
  intros H Hin. assert (E : existsb (str_eqb x) l = true).
  { apply existsb_exists. exists x. split; [exact Hin|apply str_eqb_refl]. }
  congruence.
Qed.
Lemma nodupb_NoDup l : nodupb l = true -> NoDup l.
Proof.
  induction l as [|x l IH]; intros H; [constructor|].
  cbn in H. apply andb_prop in H. destruct H as [H1 H2].
  constructor; [|apply IH; exact H2].
  apply existsb_str_false. destruct (existsb (str_eqb x) l); [discriminate|reflexivity].
Qed.

Lemma NoDup_firstn {A} n (l : list A) : NoDup l -> NoDup (firstn n l).
Proof.
  revert n; induction l as [|x l IH]; intros [|n] H; cbn; try constructor.
  - inversion H as [|? ? Hx Hl]; subst. intros Hin. apply Hx.
    rewrite <- (firstn_skipn n l). apply in_or_app. left. exact Hin.
  - inversion H; subst. apply IH. assumption.
Qed.
Lemma map_fst_combine {A B} (a : list A) (b : list B) : map fst (combine a b) = firstn (length b) a.
Proof.
  revert b; induction a as [|x a IH]; intros [|y b]; cbn; try reflexivity.
  rewrite IH. reflexivity.
Qed.
Lemma firstn_min_len {A} n (l : list A) : firstn (Nat.min (length l) n) l = firstn n l.
Proof.
  destruct (Nat.le_ge_cases (length l) n) as [H|H].
  - rewrite Nat.min_l by exact H. rewrite firstn_all. symmetry. apply firstn_all2. exact H.
  - rewrite Nat.min_r by exact H. reflexivity.
Qed.

(* ================= dict ================= *)
Definition set_all {V} (l : list (str * V)) (d : list (str * V)) : list (str * V) :=
  fold_left (fun d kv => dict_set (fst kv) (snd kv) d) l d.

Lemma dict_set_fresh {V} k (v : V) d : ~ In k (map fst d) -> dict_set k v d = d ++ [(k, v)].
Proof.
  induction d as [|[k' v'] d IH]; intros H; [reflexivity|].
  cbn in *. destruct (str_eqb k' k) eqn:E.
  - apply str_eqb_eq in E. exfalso. apply H. left. exact E.
  - rewrite IH; [reflexivity|]. intros Hin. apply H. right. exact Hin.
Qed.
Lemma set_all_nodup {V} (rows d : list (str * V)) :
  NoDup (map fst rows) -> (forall k, In k (map fst rows) -> ~ In k (map fst d)) -> set_all rows d = d ++ rows.
Proof.
  revert d; induction rows as [|[k v] rows IH]; intros d Hnd Hfresh.
  - cbn. rewrite app_nil_r. reflexivity.
  - cbn [set_all fold_left fst snd]. change (fold_left _ rows ?x) with (set_all rows x).
    cbn [map fst] in Hnd. inversion Hnd as [|? ? Hk Hnd']; subst.
    rewrite dict_set_fresh by (apply Hfresh; left; reflexivity).
    rewrite IH; [rewrite <- app_assoc; reflexivity|exact Hnd'|].
    intros k' Hk' Hin. rewrite map_app in Hin. apply in_app_or in Hin. destruct Hin as [Hin|Hin].
    + revert Hin. apply Hfresh. right. exact Hk'.
    + cbn in Hin. destruct Hin as [Hin|[]]. subst. contradiction.
Qed.
Lemma dict_of_pairs_nodup {V} (l : list (str * V)) : NoDup (map fst l) -> dict_of_pairs l = l.
Proof.
  intros H. change (dict_of_pairs l) with (set_all l []). rewrite set_all_nodup; [reflexivity|exact H|].
  intros k _ [].
Qed.
Lemma dict_get_nodup_In {V} k (v : V) d : NoDup (map fst d) -> In (k, v) d -> dict_get k d = Some v.
Proof.
  induction d as [|[k' v'] d IH]; intros Hnd Hin; [destruct Hin|].
  cbn [map fst] in Hnd. inversion Hnd as [|? ? Hk Hnd']; subst.
  cbn [dict_get]. destruct (str_eqb k' k) eqn:E.
  - apply str_eqb_eq in E. subst k'. destruct Hin as [Hin|Hin]; [congruence|].
    exfalso. apply Hk. change k with (fst (k, v)). apply in_map. exact Hin.
  - destruct Hin as [Hin|Hin].
    + inversion Hin; subst. rewrite str_eqb_refl in E. discriminate.
    + apply IH; assumption.
Qed.
Lemma dict_get_In {V} k (v : V) d : dict_get k d = Some v -> In (k, v) d.
Proof.
  induction d as [|[k' v'] d IH]; intros H; [discriminate|].
  cbn [dict_get] in H. destruct (str_eqb k' k) eqn:E.
  - apply str_eqb_eq in E. left. congruence.
  - right. apply IH. exact H.
Qed.
Lemma dict_get_None {V} k (d : list (str * V)) : dict_get k d = None <-> ~ In k (map fst d).
Proof.
  induction d as [|[k' v'] d IH]; cbn [dict_get map fst].
  - split; [intros _ []|reflexivity].
  - destruct (str_eqb k' k) eqn:E.
    + apply str_eqb_eq in E. split; [discriminate|]. intros H. exfalso. apply H. left. exact E.
    + rewrite IH. split.
      * intros H [H1|H1]; [|contradiction]. subst. rewrite str_eqb_refl in E. discriminate.
      * intros H H1. apply H. right. exact H1.
Qed.

(* ================= lifting the boolean file check to statements ================= *)
Lemma file_ok_inv raw m : file_ok raw = true -> parse raw = Some m ->
  nodupb (header_of raw) = true /\ nodupb (map first_word (data_lines raw)) = true /\
  (forall line, In line (data_lines raw) -> line_ok m (header_of raw) line = true) /\
  map fst m = map first_word (data_lines raw).
Proof.
  unfold file_ok. intros H Hp. rewrite Hp in H.
  apply andb_prop in H. destruct H as [H H4]. apply andb_prop in H. destruct H as [H H3].
  apply andb_prop in H. destruct H as [H1 H2].
  repeat split; try assumption.
  - intros line Hin. rewrite forallb_forall in H3. apply H3. exact Hin.
  - apply strs_eqb_eq. exact H4.
Qed.

(* the j-th number word of a data line is the cell under the j-th header letter *)
Lemma file_ok_cells raw m : file_ok raw = true -> parse raw = Some m ->
  forall line r vs, In line (data_lines raw) -> split_ws line = r :: vs ->
  forall j c tok, nth_error (header_of raw) j = Some c -> nth_error vs j = Some tok ->
  exists v, parse_num (existsb has_dot vs) tok = Some v /\ cell m r c = Some v.
Proof.
  intros Hok Hp line r vs Hin Hs j c tok Hc Ht.
  destruct (file_ok_inv raw m Hok Hp) as (_ & _ & Hl & _).
  specialize (Hl line Hin). unfold line_ok in Hl. rewrite Hs in Hl.
  destruct vs as [|v0 vs']; [destruct j; discriminate|].
  apply andb_prop in Hl. destruct Hl as [Hl _].
  rewrite forallb_forall in Hl.
  specialize (Hl (c, tok) (nth_error_combine_In _ _ j c tok Hc Ht)). cbn [fst snd] in Hl.
  destruct (parse_num (existsb has_dot (v0 :: vs')) tok) as [v|]; [|discriminate].
  exists v. split; [reflexivity|].
  destruct (cell m r c) as [v'|]; [|discriminate].
  apply num_eqb_eq in Hl. congruence.
Qed.

(* no row and no column is lost or invented *)
Lemma file_ok_shape raw m : file_ok raw = true -> parse raw = Some m ->
  map fst m = map first_word (data_lines raw) /\ NoDup (map fst m) /\ NoDup (header_of raw) /\
  forall line r vs, In line (data_lines raw) -> split_ws line = r :: vs ->
    vs <> [] /\ exists rw, dict_get r m = Some rw /\ map fst rw = firstn (length vs) (header_of raw).
Proof.
  intros Hok Hp. destruct (file_ok_inv raw m Hok Hp) as (H1 & H2 & Hl & H4).
  split; [exact H4|]. split; [rewrite H4; apply nodupb_NoDup; exact H2|]. split; [apply nodupb_NoDup; exact H1|].
  intros line r vs Hin Hs. specialize (Hl line Hin). unfold line_ok in Hl. rewrite Hs in Hl.
  destruct vs as [|v0 vs']; [discriminate|]. split; [discriminate|].
  apply andb_prop in Hl. destruct Hl as [_ Hl].
  destruct (dict_get r m) as [rw|]; [|discriminate].
  exists rw. split; [reflexivity|]. apply strs_eqb_eq. exact Hl.
Qed.

Lemma sym_ok_spec m : sym_ok m = true ->
  forall a b va vb, cell m a b = Some va -> cell m b a = Some vb -> num_val_eqb va vb = true.
Proof.
  unfold sym_ok. intros H a b va vb Hab Hba. rewrite forallb_forall in H.
  unfold cell in Hab. destruct (dict_get a m) as [rw|] eqn:Ea; [|discriminate].
  apply dict_get_In in Ea. apply dict_get_In in Hab.
  specialize (H (a, rw) Ea). cbn [fst snd] in H. rewrite forallb_forall in H.
  specialize (H (b, va) Hab). cbn [fst snd] in H. rewrite Hba in H. exact H.
Qed.
Lemma num_val_eqb_int x y : num_val_eqb (NInt x) (NInt y) = true -> x = y.
Proof. cbn. apply Z.eqb_eq. Qed.

(* ================= bundled files ================= *)
Lemma bundled_file_ok name raw : In (name, raw) submat_files -> file_ok raw = true.
Proof. intros H. pose proof all_files_ok as A. rewrite forallb_forall in A. exact (A (name, raw) H). Qed.

Lemma bundled_wf name raw : In (name, raw) submat_files ->
  wf_content raw = true /\ upper name = name /\ exists m, parse raw = Some m.
Proof.
  intros H. pose proof all_files_wf as A. rewrite forallb_forall in A. specialize (A (name, raw) H). cbn [snd] in A.
  pose proof names_functional as B. rewrite forallb_forall in B. specialize (B (name, raw) H). cbn [fst snd] in B.
  apply andb_prop in B. destruct B as [_ B]. apply str_eqb_eq in B.
  split; [exact A|]. split; [exact B|].
  unfold wf_content in A. destruct (parse raw) as [m|]; [exists m; reflexivity|]. discriminate.
Qed.

Lemma bundled_cells name raw m : In (name, raw) submat_files -> parse raw = Some m ->
  forall line r vs, In line (data_lines raw) -> split_ws line = r :: vs ->
  forall j c tok, nth_error (header_of raw) j = Some c -> nth_error vs j = Some tok ->
  exists v, parse_num (existsb has_dot vs) tok = Some v /\ cell m r c = Some v.
Proof. intros H. apply file_ok_cells. exact (bundled_file_ok name raw H). Qed.

Lemma bundled_shape name raw m : In (name, raw) submat_files -> parse raw = Some m ->
  map fst m = map first_word (data_lines raw) /\ NoDup (map fst m) /\ NoDup (header_of raw) /\
  forall line r vs, In line (data_lines raw) -> split_ws line = r :: vs ->
    vs <> [] /\ exists rw, dict_get r m = Some rw /\ map fst rw = firstn (length vs) (header_of raw).
Proof. intros H. apply file_ok_shape. exact (bundled_file_ok name raw H). Qed.

Lemma bundled_symmetric name raw m : In (name, raw) submat_files -> parse raw = Some m ->
  forall a b va vb, cell m a b = Some va -> cell m b a = Some vb ->
  num_val_eqb va vb = true /\ (forall x y, va = NInt x -> vb = NInt y -> x = y).
Proof.
  intros H Hp a b va vb Hab Hba.
  pose proof all_files_sym as A. rewrite forallb_forall in A. specialize (A (name, raw) H). cbn [snd] in A.
  unfold file_sym in A. rewrite Hp in A.
  pose proof (sym_ok_spec m A a b va vb Hab Hba) as E.
  split; [exact E|]. intros x y -> ->. apply num_val_eqb_int. exact E.
Qed.

(* ================= name resolution ================= *)
Lemma upper1_idem c : upper1 (upper1 c) = upper1 c.
Proof. destruct c; vm_compute; reflexivity. Qed.
Lemma upper_idem s : upper (upper s) = upper s.
Proof. unfold upper. rewrite map_map. apply map_ext. intros c. apply upper1_idem. Qed.

Lemma resolve_case_insensitive b s1 s2 : upper s1 = upper s2 -> resolve b s1 = resolve b s2.
Proof. unfold resolve. intros ->. reflexivity. Qed.

(* every spelling s of a bundled name nm (same upper-case form) resolves to nm's file *)
Lemma resolve_spelling nm raw s : In (nm, raw) submat_files -> upper s = upper nm -> resolve false s = RFile raw.
Proof.
  intros H Hs. pose proof names_functional as B. rewrite forallb_forall in B. specialize (B (nm, raw) H).
  cbn [fst snd] in B. apply andb_prop in B. destruct B as [B1 B2]. apply str_eqb_eq in B2.
  unfold resolve. rewrite Hs, B2.
  destruct (dict_get nm submat_files) as [r|]; [|discriminate].
  apply str_eqb_eq in B1. congruence.
Qed.

Lemma resolve_missing name : resolve false name = RMissing <-> ~ In (upper name) submat_names.
Proof.
  unfold resolve, submat_names. rewrite <- dict_get_None.
  destruct (dict_get (upper name) submat_files); split; intros H; try reflexivity; discriminate.
Qed.

Lemma join_contains sep l x : In x l -> exists p q, join sep l = p ++ x ++ q.
Proof.
  induction l as [|y l IH]; intros H; [destruct H|].
  destruct H as [H|H].
  - subst. destruct l as [|z l]; cbn [join].
    + exists [], []. rewrite app_nil_r. reflexivity.
    + exists [], (sep ++ join sep (z :: l)). reflexivity.
  - destruct l as [|z l]; [destruct H|].
    destruct (IH H) as (p & q & E). cbn [join]. cbn [join] in E. rewrite E.
    exists (y ++ sep ++ p), q. rewrite <- !app_assoc. reflexivity.
Qed.
(* the FileNotFoundError text ends with ', '.join(available) and therefore contains every available name *)
Lemma fnf_lists_all name :
  (exists p, fnf_message name = p ++ available) /\
  forall nm, In nm submat_names -> exists p q, fnf_message name = p ++ nm ++ q.
Proof.
  unfold fnf_message. split.
  - eexists. rewrite !app_assoc. reflexivity.
  - intros nm H. destruct (join_contains (bs ", "%bs) submat_names nm H) as (p & q & E).
    unfold available. rewrite E. eexists. exists q. rewrite !app_assoc. reflexivity.
Qed.

(* ================= the parser, for every file content ================= *)
Lemma parse_lines_filter ls st mat :
  parse_lines ls st mat = parse_lines (filter (fun l => negb (skipped l)) ls) st mat.
Proof.
  revert st mat; induction ls as [|l ls IH]; intros st mat; [reflexivity|].
  cbn [parse_lines filter]. destruct (skipped l) eqn:E; cbn [negb]; [apply IH|].
  cbn [parse_lines]. rewrite E. destruct st as [hs|]; [|apply IH].
  destruct (split1 l) as [[l1 rest]|]; [|reflexivity].
  destruct (parse_vals (has_dot rest) (firstn (length hs) (split_ws rest))); [apply IH|reflexivity].
Qed.

Definition row_of (hs : list str) (line : str) : option (str * row) :=
  match split1 line with
  | None => None
  | Some (l1, rest) =>
      match parse_vals (has_dot rest) (firstn (length hs) (split_ws rest)) with
      | None => None
      | Some vals => Some (l1, dict_of_pairs (combine hs vals))
      end
  end.
Fixpoint rows_of (hs : list str) (ls : list str) : option (list (str * row)) :=
  match ls with
  | [] => Some []
  | l :: r => match row_of hs l with
              | None => None
              | Some x => match rows_of hs r with None => None | Some xs => Some (x :: xs) end
              end
  end.

Lemma parse_lines_rows hs ls mat : forallb (fun l => negb (skipped l)) ls = true ->
  parse_lines ls (Some hs) mat = match rows_of hs ls with Some rows => Some (set_all rows mat) | None => None end.
Proof.
  revert mat; induction ls as [|l ls IH]; intros mat H; [reflexivity|].
  cbn [forallb] in H. apply andb_prop in H. destruct H as [H1 H2].
  cbn [parse_lines rows_of]. destruct (skipped l); [discriminate|].
  unfold row_of. destruct (split1 l) as [[l1 rest]|]; [|reflexivity].
  destruct (parse_vals (has_dot rest) (firstn (length hs) (split_ws rest))) as [vals|]; [|reflexivity].
  rewrite IH by exact H2. destruct (rows_of hs ls); reflexivity.
Qed.

(* --- words --- *)
Lemma split_ws_lstrip s : split_ws (lstrip s) = split_ws s.
Proof.
  induction s as [|c r IH]; [reflexivity|].
  cbn [lstrip]. destruct (is_ws c) eqn:E; [|reflexivity].
  rewrite IH. cbn [split_ws]. rewrite E. reflexivity.
Qed.
Lemma lstrip_head s c r : lstrip s = c :: r -> is_ws c = false.
Proof.
  induction s as [|d s IH]; [discriminate|].
  cbn [lstrip]. destruct (is_ws d) eqn:E; [exact IH|]. intros H. inversion H; subst. exact E.
Qed.
Lemma split_ws_word r : forall c, is_ws c = false ->
  split_ws (c :: r) = (c :: fst (span_word r)) :: split_ws (snd (span_word r)).
Proof.
  induction r as [|d r IH]; intros c Hc.
  - cbn. rewrite Hc. reflexivity.
  - cbn [split_ws span_word]. rewrite Hc. destruct (is_ws d) eqn:Ed.
    + cbn [fst snd split_ws]. rewrite Ed. reflexivity.
    + pose proof (IH d Ed) as E. cbn [split_ws] in E. rewrite Ed in E. rewrite E.
      destruct (span_word r) as [w t]. reflexivity.
Qed.
Lemma split1_split_ws line l1 rest : split1 line = Some (l1, rest) ->
  split_ws line = l1 :: split_ws rest /\ split_ws rest <> [].
Proof.
  unfold split1. intros H. rewrite <- (split_ws_lstrip line).
  destruct (lstrip line) as [|c r] eqn:E; [discriminate|].
  pose proof (lstrip_head _ _ _ E) as Hc.
  rewrite (split_ws_word r c Hc).
  cbn [span_word] in H. rewrite Hc in H. destruct (span_word r) as [w t]. cbn [fst snd].
  destruct (lstrip t) as [|c2 r2] eqn:E2; [discriminate|].
  inversion H; subst. rewrite <- (split_ws_lstrip t), E2. split; [reflexivity|].
  rewrite (split_ws_word r2 c2 (lstrip_head _ _ _ E2)). discriminate.
Qed.

Lemma ws_not_dot c : is_ws c = true -> byte_eqb "."%byte c = false.
Proof. destruct c; vm_compute; intros H; try reflexivity; discriminate. Qed.
Lemma has_dot_cons c r : has_dot (c :: r) = byte_eqb "."%byte c || has_dot r.
Proof. reflexivity. Qed.
Lemma has_dot_split_ws s : existsb has_dot (split_ws s) = has_dot s.
Proof.
  induction s as [|c r IH]; [reflexivity|].
  rewrite has_dot_cons. cbn [split_ws].
  destruct (is_ws c) eqn:Ec.
  - rewrite IH. rewrite (ws_not_dot c Ec). reflexivity.
  - destruct r as [|d r']; [cbn [existsb]; rewrite has_dot_cons; change (has_dot []) with false; rewrite !orb_false_r; reflexivity|].
    destruct (is_ws d) eqn:Ed.
    + cbn [existsb]. rewrite IH. rewrite has_dot_cons. change (has_dot []) with false. rewrite orb_false_r. reflexivity.
    + rewrite <- IH. destruct (split_ws (d :: r')) as [|t ts]; cbn [existsb].
      * rewrite has_dot_cons. change (has_dot []) with false. rewrite !orb_false_r. reflexivity.
      * rewrite has_dot_cons, <- orb_assoc. reflexivity.
Qed.

(* --- rows --- *)
Lemma row_of_key hs line x : row_of hs line = Some x -> first_word line = fst x.
Proof.
  unfold row_of. destruct (split1 line) as [[l1 rest]|] eqn:E; [|discriminate].
  destruct (parse_vals _ _); [|discriminate]. intros H. inversion H; subst. cbn [fst].
  destruct (split1_split_ws _ _ _ E) as [E1 _]. unfold first_word. rewrite E1. reflexivity.
Qed.
Lemma rows_of_keys hs ls rows : rows_of hs ls = Some rows -> map fst rows = map first_word ls.
Proof.
  revert rows; induction ls as [|l ls IH]; intros rows H; cbn [rows_of] in H.
  - inversion H. reflexivity.
  - destruct (row_of hs l) as [x|] eqn:E; [|discriminate].
    destruct (rows_of hs ls) as [xs|]; [|discriminate]. inversion H; subst.
    cbn [map]. rewrite (IH xs eq_refl), (row_of_key _ _ _ E). reflexivity.
Qed.
Lemma rows_of_In hs ls rows line : rows_of hs ls = Some rows -> In line ls ->
  exists x, row_of hs line = Some x /\ In x rows.
Proof.
  revert rows; induction ls as [|l ls IH]; intros rows H Hin; [destruct Hin|].
  cbn [rows_of] in H. destruct (row_of hs l) as [x|] eqn:E; [|discriminate].
  destruct (rows_of hs ls) as [xs|]; [|discriminate]. inversion H; subst.
  destruct Hin as [Hin|Hin].
  - subst. exists x. split; [exact E|left; reflexivity].
  - destruct (IH xs eq_refl Hin) as (y & Hy & Hy2). exists y. split; [exact Hy|right; exact Hy2].
Qed.

Lemma parse_vals_length fl toks vals : parse_vals fl toks = Some vals -> length vals = length toks.
Proof.
  revert vals; induction toks as [|t r IH]; intros vals H; cbn [parse_vals] in H.
  - inversion H. reflexivity.
  - destruct (parse_num fl t); [|discriminate]. destruct (parse_vals fl r) as [vs|]; [|discriminate].
    inversion H; subst. cbn. rewrite (IH vs eq_refl). reflexivity.
Qed.
Lemma parse_vals_combine fl (hs : list str) : forall vs vals, parse_vals fl (firstn (length hs) vs) = Some vals ->
  forall c tok, In (c, tok) (combine hs vs) -> exists v, parse_num fl tok = Some v /\ In (c, v) (combine hs vals).
Proof.
  induction hs as [|h hs IH]; intros vs vals H c tok Hin; [destruct Hin|].
  destruct vs as [|t vs]; [destruct Hin|].
  cbn [length firstn parse_vals] in H.
  destruct (parse_num fl t) as [v0|] eqn:E0; [|discriminate].
  destruct (parse_vals fl (firstn (length hs) vs)) as [vals'|] eqn:E1; [|discriminate].
  inversion H; subst. cbn [combine] in *. destruct Hin as [Hin|Hin].
  - inversion Hin; subst. exists v0. split; [exact E0|left; reflexivity].
  - destruct (IH vs vals' E1 c tok Hin) as (v & Hv & Hv2). exists v. split; [exact Hv|right; exact Hv2].
Qed.

Lemma line_ok_intro (m : matrix) hs line l1 vs vals :
  split_ws line = l1 :: vs -> vs <> [] ->
  parse_vals (existsb has_dot vs) (firstn (length hs) vs) = Some vals ->
  NoDup hs -> dict_get l1 m = Some (combine hs vals) ->
  line_ok m hs line = true.
Proof.
  intros Hs Hne Hv Hnd Hget. unfold line_ok. rewrite Hs.
  destruct vs as [|v0 vs']; [congruence|]. cbv beta iota zeta.
  assert (Hk : NoDup (map fst (combine hs vals))) by (rewrite map_fst_combine; apply NoDup_firstn; exact Hnd).
  apply andb_true_intro. split.
  - apply forallb_forall. intros [c tok] Hin. cbn [fst snd].
    destruct (parse_vals_combine _ hs _ vals Hv c tok Hin) as (v & Hv1 & Hv2).
    rewrite Hv1. unfold cell. rewrite Hget.
    rewrite (dict_get_nodup_In c v _ Hk Hv2). apply num_eqb_refl.
  - rewrite Hget. rewrite map_fst_combine. rewrite (parse_vals_length _ _ _ Hv).
    rewrite firstn_length. rewrite firstn_min_len. apply strs_eqb_refl.
Qed.

Lemma content_lines_nonskipped raw : forallb (fun l => negb (skipped l)) (content_lines raw) = true.
Proof. unfold content_lines. apply forallb_forall. intros l H. apply filter_In in H. exact (proj2 H). Qed.

(* the parser is the list of per-line rows (when row letters are pairwise different) *)
Lemma parse_char raw m : parse raw = Some m -> NoDup (map first_word (data_lines raw)) ->
  match content_lines raw with
  | [] => m = []
  | h :: D => rows_of (split_ws h) D = Some m
  end.
Proof.
  unfold parse, data_lines. rewrite parse_lines_filter. fold (content_lines raw).
  pose proof (content_lines_nonskipped raw) as Hns.
  destruct (content_lines raw) as [|h D]; cbn [parse_lines tl].
  - intros H _. inversion H. reflexivity.
  - cbn [forallb] in Hns. apply andb_prop in Hns. destruct Hns as [Hh HD].
    destruct (skipped h); [discriminate|]. rewrite (parse_lines_rows _ _ _ HD).
    destruct (rows_of (split_ws h) D) as [rows|] eqn:E; [|discriminate].
    intros H Hnd. inversion H; subst. f_equal.
    rewrite set_all_nodup; [reflexivity| |intros k _ []].
    rewrite (rows_of_keys _ _ _ E). exact Hnd.
Qed.

(* main general theorem: on every well-formed content the positional file check holds *)
Lemma wf_file_ok raw : wf_content raw = true -> file_ok raw = true.
Proof.
  unfold wf_content. intros H.
  apply andb_prop in H. destruct H as [H Hrows]. apply andb_prop in H. destruct H as [Hp Hhdr].
  destruct (parse raw) as [m|] eqn:Ep; [|discriminate].
  unfold file_ok. rewrite Ep, Hhdr, Hrows. cbn [andb].
  pose proof (nodupb_NoDup _ Hrows) as NDr. pose proof (nodupb_NoDup _ Hhdr) as NDh.
  pose proof (parse_char raw m Ep NDr) as Hc.
  unfold header_of, data_lines in *.
  destruct (content_lines raw) as [|h D]; cbn [tl] in *.
  - subst m. reflexivity.
  - pose proof (rows_of_keys _ _ _ Hc) as Hk.
    apply andb_true_intro. split; [|rewrite Hk; apply strs_eqb_refl].
    apply forallb_forall. intros line Hin.
    destruct (rows_of_In _ _ _ line Hc Hin) as ([l1 rw] & Hrow & Hinr).
    unfold row_of in Hrow. destruct (split1 line) as [[l1' rest]|] eqn:E1; [|discriminate].
    destruct (parse_vals (has_dot rest) (firstn (length (split_ws h)) (split_ws rest))) as [vals|] eqn:E2; [|discriminate].
    inversion Hrow; subst l1' rw.
    destruct (split1_split_ws _ _ _ E1) as [Hs Hne].
    assert (Hkk : NoDup (map fst (combine (split_ws h) vals)))
      by (rewrite map_fst_combine; apply NoDup_firstn; exact NDh).
    apply (line_ok_intro m (split_ws h) line l1 (split_ws rest) vals Hs Hne).
    + rewrite has_dot_split_ws. exact E2.
    + exact NDh.
    + rewrite <- (dict_of_pairs_nodup _ Hkk). apply dict_get_nodup_In; [rewrite Hk; exact NDr|exact Hinr].
Qed.

(* general corollaries, in the form used by props/C20_Props.v *)
Lemma parse_positional raw m : wf_content raw = true -> parse raw = Some m ->
  forall line r vs, In line (data_lines raw) -> split_ws line = r :: vs ->
  forall j c tok, nth_error (header_of raw) j = Some c -> nth_error vs j = Some tok ->
  exists v, parse_num (existsb has_dot vs) tok = Some v /\ cell m r c = Some v.
Proof. intros H. apply file_ok_cells. apply wf_file_ok. exact H. Qed.
Lemma parse_shape raw m : wf_content raw = true -> parse raw = Some m ->
  map fst m = map first_word (data_lines raw) /\ NoDup (map fst m) /\ NoDup (header_of raw) /\
  forall line r vs, In line (data_lines raw) -> split_ws line = r :: vs ->
    vs <> [] /\ exists rw, dict_get r m = Some rw /\ map fst rw = firstn (length vs) (header_of raw).
Proof. intros H. apply file_ok_shape. apply wf_file_ok. exact H. Qed.

(* non-vacuity witness among the bundled files: the first file of the list, whatever it is (no cell value is pinned,
   so a consistent edit of the data does not disturb it) *)
Definition w_file : str * str := hd ([], []) submat_files.
Definition w_m : matrix := match parse (snd w_file) with Some m => m | None => [] end.
Definition w_r : str := hd [] (map fst w_m).
Definition w_c : str := hd [] (header_of (snd w_file)).
Definition w_v : num := match cell w_m w_r w_c with Some v => v | None => NInt 0 end.
Lemma hd_In {A} (d : A) l : l <> [] -> In (hd d l) l.
Proof. destruct l; [congruence|]. intros _. left. reflexivity. Qed.
Lemma witness_bundled : exists (name raw : str) (m : matrix), In (name, raw) submat_files /\ parse raw = Some m /\
  (4 <= length m)%nat /\ exists r c v, cell m r c = Some v.
Proof.
  exists (fst w_file), (snd w_file), w_m. split; [|split; [|split]].
  - rewrite <- surjective_pairing. apply hd_In.
    intros E. apply (f_equal (@length _)) in E. vm_compute in E. discriminate.
  - vm_compute. reflexivity.
  - apply Nat.leb_le. vm_compute. reflexivity.
  - exists w_r, w_c, w_v. vm_compute. reflexivity.
Qed.

(* files rendered from an abstract layout: the matrix is the positional reading of the ABSTRACT words *)
Lemma render_positional f m : afile_ok f = true -> wf_content (render f) = true -> parse (render f) = Some m ->
  forall hs rows, word_lines f = hs :: rows ->
  map fst m = map (hd []) rows /\
  forall r vs, In (r :: vs) rows ->
  forall j c tok, nth_error hs j = Some c -> nth_error vs j = Some tok ->
  exists v, parse_num (existsb has_dot vs) tok = Some v /\ cell m r c = Some v.
Proof.
  intros Hf Hwf Hp hs rows Hw.
  pose proof (words_of_rendered f Hf) as E. rewrite Hw in E.
  destruct (content_lines (render f)) as [|h D] eqn:EC; [discriminate|].
  cbn [map] in E. inversion E as [[Eh ED]].
  assert (Hh : header_of (render f) = split_ws h) by (unfold header_of; rewrite EC; reflexivity).
  assert (Hd : data_lines (render f) = D) by (unfold data_lines; rewrite EC; reflexivity).
  split.
  - destruct (parse_shape _ _ Hwf Hp) as (Hk & _). rewrite Hk, Hd. unfold first_word. rewrite <- map_map. reflexivity.
  - intros r vs Hin j c tok Hc Ht. apply in_map_iff in Hin. destruct Hin as (line & Hl & Hin).
    apply (parse_positional _ _ Hwf Hp line r vs) with (j := j); [rewrite Hd; exact Hin|exact Hl| |exact Ht].
    rewrite Hh. exact Hc.
Qed.

(* numbers: a row written with the canonical literals of its numbers is read back as exactly these numbers *)
Lemma fl_uniform vals v : row_uniform vals = true -> In v vals ->
  existsb has_dot (map render_num vals) = negb (is_int_num v).
Proof.
  unfold row_uniform. intros H Hin. apply orb_prop in H. destruct H as [H|H]; rewrite forallb_forall in H.
  - rewrite (H v Hin). cbn [negb].
    destruct (existsb has_dot (map render_num vals)) eqn:E; [|reflexivity].
    apply existsb_exists in E. destruct E as (x & Hx & Hd). apply in_map_iff in Hx. destruct Hx as (v0 & <- & Hv0).
    rewrite (proj2 (parse_render_num v0)), (H v0 Hv0) in Hd. discriminate.
  - pose proof (H v Hin) as Hv. destruct (is_int_num v); [discriminate|]. cbn [negb].
    apply existsb_exists. exists (render_num v). split; [apply in_map; exact Hin|].
    rewrite (proj2 (parse_render_num v)). destruct (is_int_num v) eqn:E; [|reflexivity].
    specialize (H v Hin). rewrite E in H. discriminate.
Qed.

Lemma render_cells f m : afile_ok f = true -> wf_content (render f) = true -> parse (render f) = Some m ->
  forall hs rows, word_lines f = hs :: rows ->
  forall r vals, row_uniform vals = true -> In (r :: map render_num vals) rows ->
  forall j c v, nth_error hs j = Some c -> nth_error vals j = Some v -> cell m r c = Some v.
Proof.
  intros Hf Hwf Hp hs rows Hw r vals Hu Hin j c v Hc Hv.
  destruct (render_positional f m Hf Hwf Hp hs rows Hw) as [_ H].
  destruct (H r (map render_num vals) Hin j c (render_num v) Hc (map_nth_error render_num j vals Hv)) as (v' & Hv' & Hcell).
  rewrite (fl_uniform vals v Hu (nth_error_In _ _ Hv)) in Hv'.
  rewrite (proj1 (parse_render_num v)) in Hv'. congruence.
Qed.

(* the whole function on names *)
Lemma submat_bundled nm raw s : In (nm, raw) submat_files -> upper s = upper nm ->
  exists m, submat_name s = OMatrix m /\ parse raw = Some m.
Proof.
  intros H Hs. destruct (bundled_wf nm raw H) as (_ & _ & m & Hm).
  exists m. split; [|exact Hm]. unfold submat_name, submat_call, parsed. rewrite (resolve_spelling nm raw s H Hs), Hm. reflexivity.
Qed.
Lemma submat_unknown s : ~ In (upper s) submat_names -> submat_name s = OFileNotFound (fnf_message s).
Proof. intros H. unfold submat_name, submat_call. rewrite (proj2 (resolve_missing s) H). reflexivity. Qed.
Lemma submat_name_no_value_error s : submat_name s <> OValueError.
Proof.
  unfold submat_name, submat_call, resolve, parsed. destruct (dict_get (upper s) submat_files) as [raw|] eqn:E; [|discriminate].
  apply dict_get_In in E. destruct (bundled_wf _ _ E) as (_ & _ & m & ->). discriminate.
Qed.

(* the same for any text whose non-skipped lines have known word lists (used for the other line terminators) *)
Lemma positional_of_words raw m hs rows : map split_ws (content_lines raw) = hs :: rows ->
  wf_content raw = true -> parse raw = Some m ->
  map fst m = map (hd []) rows /\
  forall r vs, In (r :: vs) rows ->
  forall j c tok, nth_error hs j = Some c -> nth_error vs j = Some tok ->
  exists v, parse_num (existsb has_dot vs) tok = Some v /\ cell m r c = Some v.
Proof.
  intros E Hwf Hp.
  destruct (content_lines raw) as [|h D] eqn:EC; [discriminate|].
  cbn [map] in E. inversion E as [[Eh ED]].
  assert (Hh : header_of raw = split_ws h) by (unfold header_of; rewrite EC; reflexivity).
  assert (Hd : data_lines raw = D) by (unfold data_lines; rewrite EC; reflexivity).
  split.
  - destruct (parse_shape _ _ Hwf Hp) as (Hk & _). rewrite Hk, Hd. unfold first_word. rewrite <- map_map. reflexivity.
  - intros r vs Hin j c tok Hc Ht. apply in_map_iff in Hin. destruct Hin as (line & Hl & Hin).
    apply (parse_positional _ _ Hwf Hp line r vs) with (j := j); [rewrite Hd; exact Hin|exact Hl| |exact Ht].
    rewrite Hh. exact Hc.
Qed.
Lemma cells_of_words raw m hs rows : map split_ws (content_lines raw) = hs :: rows ->
  wf_content raw = true -> parse raw = Some m ->
  forall r vals, row_uniform vals = true -> In (r :: map render_num vals) rows ->
  forall j c v, nth_error hs j = Some c -> nth_error vals j = Some v -> cell m r c = Some v.
Proof.
  intros E Hwf Hp r vals Hu Hin j c v Hc Hv.
  destruct (positional_of_words raw m hs rows E Hwf Hp) as [_ H].
  destruct (H r (map render_num vals) Hin j c (render_num v) Hc (map_nth_error render_num j vals Hv)) as (v' & Hv' & Hcell).
  rewrite (fl_uniform vals v Hu (nth_error_In _ _ Hv)) in Hv'.
  rewrite (proj1 (parse_render_num v)) in Hv'. congruence.
Qed.

(* LF / CRLF / CR line ends, with or without a terminator after the last line *)
Lemma render_with_positional e final f m : afile_ok f = true ->
  wf_content (render_with e final f) = true -> parse (render_with e final f) = Some m ->
  forall hs rows, word_lines f = hs :: rows ->
  map fst m = map (hd []) rows /\
  (forall r vs, In (r :: vs) rows ->
   forall j c tok, nth_error hs j = Some c -> nth_error vs j = Some tok ->
   exists v, parse_num (existsb has_dot vs) tok = Some v /\ cell m r c = Some v) /\
  (forall r vals, row_uniform vals = true -> In (r :: map render_num vals) rows ->
   forall j c v, nth_error hs j = Some c -> nth_error vals j = Some v -> cell m r c = Some v).
Proof.
  intros Hf Hwf Hp hs rows Hw.
  pose proof (words_of_rendered_with e final f Hf) as E. rewrite Hw in E.
  destruct (positional_of_words _ m hs rows E Hwf Hp) as [H1 H2].
  split; [exact H1|]. split; [exact H2|]. exact (cells_of_words _ m hs rows E Hwf Hp).
Qed.

(* a user's file wins over a bundled name: when the argument is the path of a regular file, that file is parsed,
   whatever the name spells *)
Lemma file_wins name content : resolve true name = RPath /\ submat_call name (Some content) = submat_file content.
Proof. split; reflexivity. Qed.
(* ... and only when there is no such file does the name decide *)
Lemma no_file_lookup name : submat_call name None = submat_name name /\ resolve false name <> RPath.
Proof.
  split; [reflexivity|]. unfold resolve. destruct (dict_get (upper name) submat_files); discriminate.
Qed.

Lemma witness_file_wins : exists (name raw : str),
  In (name, raw) submat_files /\
  submat_call name (Some (bs "X
X 42"%bs)) = OMatrix [(bs "X"%bs, [(bs "X"%bs, NInt 42)])] /\
  submat_call name None = parsed raw.
Proof.
  exists (fst w_file), (snd w_file). split; [|split].
  - rewrite <- surjective_pairing. apply hd_In.
    intros E. apply (f_equal (@length _)) in E. vm_compute in E. discriminate.
  - vm_compute. reflexivity.
  - vm_compute. reflexivity.
Qed.
