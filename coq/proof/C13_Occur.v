(* C13: end-to-end completeness for start/stop-like word lists: EVERY occurrence of a word (gaps tolerated) at a column >= start
   whose residue-count frame is requested is an element of the result, with its own extent, text and frame, on both strands. *)
From Coq Require Import List ZArith NArith Bool Lia.
From Coq.Strings Require Import Byte.
Import ListNotations.
From SV Require Import Text G_codes C05_Model C05_Lemmas C13_Model C13_Lemmas C13_Once.
Local Open Scope Z_scope.

Lemma slice_prefix (s t u : str) p : skipn p s = t ++ u -> slice p (p + length t) s = t.
Proof.
  intros H. unfold slice. rewrite H. replace (p + length t - p)%nat with (length t) by lia.
  rewrite firstn_app, Nat.sub_diag, firstn_all. cbn. now rewrite app_nil_r.
Qed.
Lemma fwd_occurrence_reported g sub s rf start l out w t u p :
  wf_sub sub = true -> forallb (plain_word g) (words sub) = true ->
  prefix_free (words sub) = true -> no_overlap (words sub) = true ->
  In w (words sub) -> irel (compile_word (Some g) w) t -> skipn p s = t ++ u ->
  matchall s sub rf start (Some g) = Some out -> norm_rf rf = Some (Some l) -> has_fwd l = true ->
  0 <= start <= Z.of_nat p ->
  In (residues (Some g) (slice (Z.to_nat start) p s) mod 3) l ->
  In (mk_bm (Z.of_nat p) (Z.of_nat (p + length t)) t (Some (residues (Some g) (slice (Z.to_nat start) p s) mod 3))) out.
Proof.
  intros Hwf Hpl Hpf Hno Hw Hr Hs Hm Hn Hf Hst Hin.
  pose proof (words_once g sub s w t u p Hwf Hpl Hpf Hno Hw Hr Hs) as Hi.
  pose proof (finditer_sound _ _ _ _ _ _ Hi) as (_ & Hlt & Hb & _). cbn in Hb.
  assert (Hfr : frame_of (fwd_gaps (Some g) (Some l) s start) start (Z.of_nat p)
                = residues (Some g) (slice (Z.to_nat start) p s) mod 3).
  { change (fwd_gaps (Some g) (Some l) s start) with (option_map (fun g0 => gap_positions g0 s 0 start) (Some g)).
    apply frame_formula; lia. }
  pose proof (fwd_reported s sub rf start (Some g) l p (p + length t)%nat out Hm Hn Hf Hi ltac:(lia)) as H.
  rewrite Hfr, (slice_prefix s t u p Hs) in H. now apply H.
Qed.

Lemma bwd_occurrence_reported g sub s rf start l out w t u p :
  wf_sub sub = true -> forallb (plain_word g) (words sub) = true ->
  prefix_free (words sub) = true -> no_overlap (words sub) = true ->
  In w (words sub) -> irel (compile_word (Some g) w) t -> skipn p (rc s) = t ++ u ->
  matchall s sub rf start (Some g) = Some out -> norm_rf rf = Some (Some l) -> has_bwd l = true ->
  0 <= start <= Z.of_nat p ->
  In (- (residues (Some g) (slice (Z.to_nat start) p (rc s)) mod 3) - 1) l ->
  In (mk_bm (Z.of_nat (length s) - Z.of_nat (p + length t)) (Z.of_nat (length s) - Z.of_nat p) t
        (Some (- (residues (Some g) (slice (Z.to_nat start) p (rc s)) mod 3) - 1))) out.
Proof.
  intros Hwf Hpl Hpf Hno Hw Hr Hs Hm Hn Hf Hst Hin.
  pose proof (words_once g sub (rc s) w t u p Hwf Hpl Hpf Hno Hw Hr Hs) as Hi.
  pose proof (finditer_sound _ _ _ _ _ _ Hi) as (_ & Hlt & Hb & _). cbn in Hb.
  assert (Hfr : frame_of (bwd_gaps (Some g) (rc s) start) start (Z.of_nat p)
                = residues (Some g) (slice (Z.to_nat start) p (rc s)) mod 3).
  { change (bwd_gaps (Some g) (rc s) start) with (option_map (fun g0 => gap_positions g0 (rc s) 0 start) (Some g)).
    apply frame_formula; lia. }
  pose proof (bwd_reported s sub rf start (Some g) l p (p + length t)%nat out Hm Hn Hf Hi ltac:(lia)) as H.
  rewrite Hfr, (slice_prefix (rc s) t u p Hs), rc_length in H.
  replace (-1 * (residues (Some g) (slice (Z.to_nat start) p (rc s)) mod 3) - 1)
    with (- (residues (Some g) (slice (Z.to_nat start) p (rc s)) mod 3) - 1) in H by lia.
  now apply H.
Qed.
