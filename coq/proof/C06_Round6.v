(* C06, round 6: RNA inside the harness domain, type-name lookup, BioBasket indexing as a map of the sequence-level window,
   the gap option on every window form, the two feature-cutting paths under gap x update_fts. *)
From Coq Require Import List ZArith NArith Bool Lia ZifyBool Permutation.
From Coq.Strings Require Import Byte.
Import ListNotations.
From SV Require Import Text G_codes G_flags C05_Model C05_Lemmas C06_Model C06_Lemmas.
Local Open Scope Z_scope.

(* ------------------------------------------------------------------ the DNA domain of the theorems lies inside the harness domain *)
Lemma forallb_alpha_u s : forallb in_alpha s = true -> forallb in_alpha_u s = true.
Proof.
  intros H. rewrite forallb_forall in *. intros c Hc. unfold in_alpha_u. rewrite (H c Hc). reflexivity.
Qed.
Theorem wf_dna_in_rna data fts w u sp fi gap : wf_C06 data fts w u sp fi gap = true -> wf_C06u data fts w u sp fi gap = true.
Proof.
  unfold wf_C06, wf_C06u. intros H.
  destruct (forallb in_alpha (upper data)) eqn:E; [|rewrite andb_false_r in H; discriminate].
  rewrite (forallb_alpha_u _ E). exact H.
Qed.

(* ------------------------------------------------------------------ type-name lookup: the first feature whose type EQUALS the name *)
Lemma find_first {A} (p : A -> bool) (l : list A) x :
  find p l = Some x <-> exists pre post, l = pre ++ x :: post /\ p x = true /\ forallb (fun y => negb (p y)) pre = true.
Proof.
  split.
  - induction l as [|a r IH]; intros H; [discriminate|]. cbn [find] in H. destruct (p a) eqn:E.
    + inversion H; subst a. exists [], r. repeat split; [exact E].
    + destruct (IH H) as (pre & post & E1 & E2 & E3). exists (a :: pre), post. subst r. repeat split; [exact E2|].
      cbn [forallb]. rewrite E, E3. reflexivity.
  - intros (pre & post & E1 & E2 & E3). subst l. induction pre as [|a pre IH].
    + cbn [app find]. rewrite E2. reflexivity.
    + cbn [forallb] in E3. apply andb_prop in E3. destruct E3 as [Ea E3]. apply negb_true_iff in Ea.
      cbn [app find]. rewrite Ea. apply IH. exact E3.
Qed.
Lemma find_none {A} (p : A -> bool) (l : list A) : find p l = None <-> forallb (fun y => negb (p y)) l = true.
Proof.
  induction l as [|a r IH]; [split; reflexivity|]. cbn [find forallb]. destruct (p a); cbn [negb andb].
  - split; discriminate.
  - exact IH.
Qed.
Lemma lower_length s : length (lower s) = length s.
Proof. unfold lower. apply map_length. Qed.
Theorem type_lookup_spec name fts :
  (forall f, fts_get name fts = Some f <->
     exists pre post, fts = pre ++ f :: post /\ type_matches name f = true /\
                      forallb (fun g => negb (type_matches name g)) pre = true) /\
  (fts_get name fts = None <-> forallb (fun g => negb (type_matches name g)) fts = true) /\
  (forall f, type_matches name f = true <-> exists t, ftype f = Some t /\ lower t = lower name) /\
  (forall f t, type_matches name f = true -> ftype f = Some t -> length t = length name).
Proof.
  assert (TM : forall f, type_matches name f = true <-> exists t, ftype f = Some t /\ lower t = lower name).
  { intros f. unfold type_matches. destruct (ftype f) as [t|].
    - rewrite str_eqb_eq. split; [intros H; exists t; split; [reflexivity|exact H]|].
      intros (t' & E & H). inversion E; subst t'. exact H.
    - split; [discriminate|]. intros (t & E & _). discriminate. }
  split; [|split; [|split]].
  - intros f. rewrite fts_get_find. apply find_first.
  - rewrite fts_get_find. apply find_none.
  - exact TM.
  - intros f t H E. apply TM in H. destruct H as (t' & E' & H). rewrite E in E'. inversion E'; subst t'.
    rewrite <- (lower_length t), <- (lower_length name), H. reflexivity.
Qed.

(* ------------------------------------------------------------------ BioBasket indexing is the sequence-level window, mapped *)
Lemma map_res_ok {A B} (f : A -> res B) (l : list A) rs : map_res f l = Ok rs <-> Forall2 (fun x y => f x = Ok y) l rs.
Proof.
  revert rs. induction l as [|x r IH]; intros rs.
  - cbn [map_res]. split; [intros H; inversion H; constructor|intros H; inversion H; reflexivity].
  - cbn [map_res]. destruct (f x) as [y|e] eqn:E; cbn [bind].
    + destruct (map_res f r) as [ys|e] eqn:E2; cbn [bind].
      * split.
        -- intros H. inversion H; subst rs. constructor; [exact E|]. apply IH. reflexivity.
        -- intros H. inversion H as [|x' y' l' rs' Hxy Hrest]; subst. rewrite E in Hxy. inversion Hxy; subst y'.
           apply IH in Hrest. inversion Hrest; subst. reflexivity.
      * split; [discriminate|]. intros H. inversion H as [|x' y' l' rs' Hxy Hrest]; subst.
        apply IH in Hrest. discriminate.
    + split; [discriminate|]. intros H. inversion H as [|x' y' l' rs' Hxy Hrest]; subst. rewrite E in Hxy. discriminate.
Qed.
Lemma map_res_err {A B} (f : A -> res B) (l : list A) e :
  map_res f l = Err e <-> exists pre x post, l = pre ++ x :: post /\ (forall y, In y pre -> exists r, f y = Ok r) /\ f x = Err e.
Proof.
  induction l as [|a r IH].
  - cbn [map_res]. split; [discriminate|]. intros (pre & x & post & E & _). destruct pre; discriminate.
  - cbn [map_res]. destruct (f a) as [fa|e'] eqn:E; cbn [bind].
    + destruct (map_res f r) as [ys|e'] eqn:E2; cbn [bind].
      * split; [discriminate|]. intros (pre & x & post & E1 & Hpre & Hx).
        destruct pre as [|p pre]; cbn [app] in E1; inversion E1; subst.
        -- rewrite E in Hx. discriminate.
        -- assert (X : @Ok (list B) ys = Err e); [|discriminate]. apply IH. exists pre, x, post. repeat split; [|exact Hx].
           intros y Hy. apply Hpre. right. exact Hy.
      * split.
        -- intros H. inversion H; subst e'. destruct (proj1 IH eq_refl) as (pre & x & post & E1 & Hpre & Hx).
           exists (a :: pre), x, post. subst r. repeat split; [|exact Hx].
           intros y [Hy|Hy]; [subst y; exists fa; exact E|apply Hpre; exact Hy].
        -- intros (pre & x & post & E1 & Hpre & Hx). destruct pre as [|p pre]; cbn [app] in E1; inversion E1; subst.
           ++ rewrite E in Hx. discriminate.
           ++ f_equal. assert (X : Err e' = @Err (list B) e); [|inversion X; reflexivity]. apply IH.
              exists pre, x, post. repeat split; [|exact Hx]. intros y Hy. apply Hpre. right. exact Hy.
    + split.
      * intros H. inversion H; subst e'. exists [], a, r. repeat split; [|exact E]. intros y [].
      * intros (pre & x & post & E1 & Hpre & Hx). destruct pre as [|p pre]; cbn [app] in E1; inversion E1; subst.
        -- rewrite E in Hx. inversion Hx. reflexivity.
        -- destruct (Hpre p (or_introl eq_refl)) as (r0 & Hr). rewrite E in Hr. discriminate.
Qed.
Lemma map_res_total {A B} (f : A -> res B) (g : A -> B) (l : list A) : (forall x, In x l -> f x = Ok (g x)) -> map_res f l = Ok (map g l).
Proof.
  induction l as [|x r IH]; intros H; [reflexivity|]. cbn [map_res map]. rewrite (H x (or_introl eq_refl)). cbn [bind].
  rewrite IH by (intros y Hy; apply H; right; exact Hy). reflexivity.
Qed.
Lemma map_res_ext {A B} (f g : A -> res B) (l : list A) : (forall x, In x l -> f x = g x) -> map_res f l = map_res g l.
Proof.
  induction l as [|x r IH]; intros H; [reflexivity|]. cbn [map_res]. rewrite (H x (or_introl eq_refl)).
  rewrite IH by (intros y Hy; apply H; right; exact Hy). reflexivity.
Qed.

(* list[:] is the list *)
Lemma take_step_all {A} (l : list A) : forall pre, take_step (length l) (Z.of_nat (length pre)) 1 (pre ++ l) = l.
Proof.
  induction l as [|x r IH]; intros pre; [reflexivity|]. cbn [length take_step].
  rewrite Nat2Z.id, nth_error_app2 by lia. rewrite Nat.sub_diag. cbn [nth_error]. f_equal.
  specialize (IH (pre ++ [x])). rewrite app_length in IH. cbn [length] in IH.
  replace (Z.of_nat (length pre) + 1) with (Z.of_nat (length pre + 1)) by lia.
  rewrite <- app_assoc in IH. exact IH.
Qed.
Lemma list_slice_full {A} (l : list A) : list_slice l None None None = Ok l.
Proof.
  unfold list_slice. change (1 =? 0) with false. change (1 <? 0) with false. cbv iota. f_equal.
  unfold slice_len. change (1 <? 0) with false. cbv iota.
  destruct l as [|x r]; [reflexivity|].
  destruct (0 <? Z.of_nat (length (x :: r))) eqn:E; [|cbn [length] in E; lia].
  rewrite Z.div_1_r. replace (Z.to_nat (Z.of_nat (length (x :: r)) - 0 - 1 + 1)) with (length (x :: r)) by lia.
  exact (take_step_all (x :: r) []).
Qed.

Definition elem_ok (w : window) (u : bool) (sp fi gap : option str) (e r : belem) : Prop :=
  fst r = fst e /\ getitem_g (snd e) w u sp fi gap = Ok (snd r).
Lemma elem_getitem_ok w u sp fi gap e r : elem_getitem w u sp fi gap e = Ok r <-> elem_ok w u sp fi gap e r.
Proof.
  unfold elem_getitem, elem_ok. destruct (getitem_g (snd e) w u sp fi gap) as [x|err]; cbn [bind].
  - split.
    + intros H. inversion H; subst r. cbn [fst snd]. split; reflexivity.
    + intros [H1 H2]. destruct r as [t q]. cbn [fst snd] in *. inversion H2; subst. reflexivity.
  - split; [discriminate|]. intros [_ H]. discriminate.
Qed.
Lemma elem_getitem_err w u sp fi gap e err : elem_getitem w u sp fi gap e = Err err <-> getitem_g (snd e) w u sp fi gap = Err err.
Proof.
  unfold elem_getitem. destruct (getitem_g (snd e) w u sp fi gap) as [x|err']; cbn [bind].
  - split; discriminate.
  - split; intros H; inversion H; reflexivity.
Qed.
Lemma Forall2_iff {A B} (P Q : A -> B -> Prop) l rs : (forall x y, P x y <-> Q x y) -> Forall2 P l rs <-> Forall2 Q l rs.
Proof.
  intros H. split; induction 1; constructor; try assumption; apply H; assumption.
Qed.

Lemma map_res_elem w u sp fi gap sel rs :
  map_res (elem_getitem w u sp fi gap) sel = Ok rs <-> Forall2 (elem_ok w u sp fi gap) sel rs.
Proof. rewrite map_res_ok. apply Forall2_iff. intros x y. apply elem_getitem_ok. Qed.

(* seqs[a:b:st, w]: exactly the selected sequences, in order, each replaced by its window; metadata (tag) carried along *)
Theorem basket_slice_window qs a b st w u sp fi gap rs :
  basket_getitem qs (BPairS a b st w) u sp fi gap = Ok (BMany rs) <->
  exists sel, list_slice qs a b st = Ok sel /\ Forall2 (elem_ok w u sp fi gap) sel rs.
Proof.
  unfold basket_getitem. destruct (list_slice qs a b st) as [sel|e]; cbn [bind].
  - destruct (map_res (elem_getitem w u sp fi gap) sel) as [r|e] eqn:E; cbn [bind].
    + split.
      * intros H. inversion H; subst r. exists sel. split; [reflexivity|]. apply map_res_elem. exact E.
      * intros (sel' & E1 & F). inversion E1; subst sel'. apply map_res_elem in F. rewrite E in F. inversion F. reflexivity.
    + split; [discriminate|]. intros (sel' & E1 & F). inversion E1; subst sel'. apply map_res_elem in F. rewrite E in F. discriminate.
  - split; [discriminate|]. intros (sel & E1 & _). discriminate.
Qed.
(* the exception: of the slice itself (step 0), or of the first selected sequence on which the window raises *)
Theorem basket_slice_window_error qs a b st w u sp fi gap e :
  basket_getitem qs (BPairS a b st w) u sp fi gap = Err e <->
  list_slice qs a b st = Err e \/
  exists sel pre x post, list_slice qs a b st = Ok sel /\ sel = pre ++ x :: post /\
    (forall y, In y pre -> exists r, getitem_g (snd y) w u sp fi gap = Ok r) /\ getitem_g (snd x) w u sp fi gap = Err e.
Proof.
  unfold basket_getitem. destruct (list_slice qs a b st) as [sel|e']; cbn [bind].
  - destruct (map_res (elem_getitem w u sp fi gap) sel) as [r|e'] eqn:E; cbn [bind].
    + split; [discriminate|]. intros [H|(sel' & pre & x & post & E1 & E2 & Hpre & Hx)]; [discriminate|].
      injection E1 as E1. rewrite <- E1 in E2. clear E1 sel'.
      assert (X : map_res (elem_getitem w u sp fi gap) sel = Err e); [|rewrite E in X; discriminate].
      apply map_res_err. exists pre, x, post. split; [exact E2|]. split; [|apply elem_getitem_err; exact Hx].
      intros y Hy. destruct (Hpre y Hy) as (r0 & Hr). exists (fst y, r0). unfold elem_getitem. rewrite Hr. reflexivity.
    + split.
      * intros H. inversion H; subst e'. right. apply map_res_err in E. destruct E as (pre & x & post & E2 & Hpre & Hx).
        exists sel, pre, x, post. split; [reflexivity|]. split; [exact E2|]. split; [|apply elem_getitem_err; exact Hx].
        intros y Hy. destruct (Hpre y Hy) as (r0 & Hr). apply elem_getitem_ok in Hr. destruct Hr as [_ Hr]. exists (snd r0). exact Hr.
      * intros [H|(sel' & pre & x & post & E1 & E2 & Hpre & Hx)]; [discriminate|].
        injection E1 as E1. rewrite <- E1 in E2. clear E1 sel'.
        assert (X : map_res (elem_getitem w u sp fi gap) sel = Err e).
        { apply map_res_err. exists pre, x, post. split; [exact E2|]. split; [|apply elem_getitem_err; exact Hx].
          intros y Hy. destruct (Hpre y Hy) as (r0 & Hr). exists (fst y, r0). unfold elem_getitem. rewrite Hr. reflexivity. }
        rewrite E in X. inversion X. reflexivity.
  - split.
    + intros H. inversion H. left. reflexivity.
    + intros [H|(sel & pre & x & post & E1 & _)]; [inversion H; reflexivity|discriminate].
Qed.
(* seqs[w] is seqs[:, w]; seqs[i, w] is seqs[i][w] *)
Theorem basket_forms qs w u sp fi gap :
  basket_getitem qs (BWin w) u sp fi gap = basket_getitem qs (BPairS None None None w) u sp fi gap /\
  (forall i, basket_getitem qs (BPairI i w) u sp fi gap =
     bind (list_item qs i) (fun e => bind (getitem_g (snd e) w u sp fi gap) (fun r => Ok (BOne (fst e, r))))) /\
  (forall i, basket_getitem qs (BInt i) u sp fi gap = bind (list_item qs i) (fun e => Ok (BOne e))) /\
  (forall i, (i < - Z.of_nat (length qs) \/ Z.of_nat (length qs) <= i) -> basket_getitem qs (BPairI i w) u sp fi gap = Err E_Index).
Proof.
  split; [|split; [|split]].
  - unfold basket_getitem. rewrite list_slice_full. reflexivity.
  - intros i. unfold basket_getitem, elem_getitem. destruct (list_item qs i) as [e|err]; cbn [bind]; [|reflexivity].
    destruct (getitem_g (snd e) w u sp fi gap); reflexivity.
  - reflexivity.
  - intros i H. unfold basket_getitem, list_item.
    destruct (((if i <? 0 then i + Z.of_nat (length qs) else i) <? 0) || (Z.of_nat (length qs) <=? (if i <? 0 then i + Z.of_nat (length qs) else i))) eqn:E;
      [reflexivity|]. destruct (i <? 0) eqn:E0; lia.
Qed.
(* extraction through a basket: every selected sequence is replaced by the 5'->3' concatenation of its pieces (C06_extract_spec),
   features and tag kept; by type name: each sequence's own first feature of that type, ValueError if one has none *)
Definition extract_elem (ls : list loc) (sp fi : option str) (e : belem) : belem :=
  (fst e, mkSeq (upper (concat (extract_spec (sdata (snd e)) fi sp ls))) (sfts (snd e))).
Theorem basket_extract qs a b st sp fi :
  (forall ls, basket_getitem qs (BPairS a b st (WFeat ls)) false sp fi None =
     bind (list_slice qs a b st) (fun sel => Ok (BMany (map (extract_elem ls sp fi) sel)))) /\
  (forall l, basket_getitem qs (BPairS a b st (WLoc l)) false sp fi None =
     bind (list_slice qs a b st) (fun sel => Ok (BMany (map (extract_elem [l] sp fi) sel)))) /\
  (forall name, basket_getitem qs (BPairS a b st (WType name)) false sp fi None =
     bind (list_slice qs a b st) (fun sel =>
       bind (map_res (fun e => match find (type_matches name) (sfts (snd e)) with
                               | Some f => Ok (extract_elem (flocs f) sp fi e)
                               | None => Err E_Value
                               end) sel) (fun r => Ok (BMany r)))).
Proof.
  split; [|split].
  - intros ls. unfold basket_getitem. destruct (list_slice qs a b st) as [sel|e]; cbn [bind]; [|reflexivity].
    rewrite (map_res_total _ (extract_elem ls sp fi)); [reflexivity|].
    intros x _. unfold elem_getitem. rewrite getitem_g_None. cbn [getitem]. rewrite extract_locs. reflexivity.
  - intros l. unfold basket_getitem. destruct (list_slice qs a b st) as [sel|e]; cbn [bind]; [|reflexivity].
    rewrite (map_res_total _ (extract_elem [l] sp fi)); [reflexivity|].
    intros x _. unfold elem_getitem. rewrite getitem_g_None. cbn [getitem]. rewrite extract_locs. reflexivity.
  - intros name. unfold basket_getitem. destruct (list_slice qs a b st) as [sel|e]; cbn [bind]; [|reflexivity].
    erewrite map_res_ext; [reflexivity|]. intros x _. unfold elem_getitem. rewrite getitem_g_None. cbn [getitem].
    rewrite fts_get_find. destruct (find (type_matches name) (sfts (snd x))); [|reflexivity].
    rewrite extract_locs. reflexivity.
Qed.

(* ------------------------------------------------------------------ the gap option on every window form (no update_fts) *)
Lemma adj_some g s i : adj g s (Some i) = Some (adj_z g s i).
Proof. reflexivity. Qed.
(* a negative residue bound is first moved into 0..n (clamped), then treated like a non-negative one *)
Lemma adj_norm g s i :
  let n := Z.of_nat (length (degap g s)) in
  let r := if i <? 0 then Z.max (i + n) 0 else i in
  0 <= r /\ adj g s (Some i) = Some (Z.of_nat (col_of g s (Z.to_nat r))).
Proof.
  cbv zeta. set (n := Z.of_nat (length (degap g s))). destruct (i <? 0) eqn:E.
  - split; [lia|]. rewrite <- adj_col by lia. unfold adj, nogaps. rewrite nogaps_from_length. fold n. rewrite E.
    destruct (Z.max (i + n) 0 <? 0) eqn:E2; [lia|]. reflexivity.
  - split; [lia|]. apply adj_col. lia.
Qed.
(* one slice bound: its column (after adj and the clamp of str slicing) cuts the sequence where its residue number cuts
   the ungapped sequence; dc / dr are the defaults of an omitted bound (0 / 0 or len / n) *)
Lemma bound_cut g s o dc dr :
  let d := degap g s in
  (dc = 0 /\ dr = 0) \/ (dc = Z.of_nat (length s) /\ dr = Z.of_nat (length d)) ->
  let c := clampZ (Z.of_nat (length s)) dc (adj g s o) in
  let r := clampZ (Z.of_nat (length d)) dr o in
  0 <= r <= Z.of_nat (length d) /\ degap g (firstn (Z.to_nat c) s) = firstn (Z.to_nat r) d.
Proof.
  cbv zeta. intros Hd. destruct o as [i|].
  - destruct (adj_norm g s i) as [Hr E]. cbv zeta in Hr, E. rewrite E. unfold clampZ.
    set (n := Z.of_nat (length (degap g s))) in *.
    set (r := if i <? 0 then Z.max (i + n) 0 else i) in *.
    pose proof (col_of_le g s (Z.to_nat r)) as Hc.
    destruct (Z.of_nat (col_of g s (Z.to_nat r)) <? 0) eqn:E0; [lia|].
    rewrite (Z.min_l (Z.of_nat (col_of g s (Z.to_nat r)))) by lia. rewrite Nat2Z.id. rewrite degap_firstn.
    subst r. destruct (i <? 0) eqn:Ei.
    + split; [lia|reflexivity].
    + split; [lia|]. destruct (Z_le_gt_dec i n) as [L|G].
      * rewrite Z.min_l by lia. reflexivity.
      * rewrite Z.min_r by lia. subst n. rewrite Nat2Z.id. rewrite firstn_all. apply firstn_all2. lia.
  - cbn [adj clampZ]. destruct Hd as [[-> ->]|[-> ->]].
    + split; [lia|reflexivity].
    + split; [lia|]. rewrite !Nat2Z.id, !firstn_all. reflexivity.
Qed.
Lemma degap_sub_general g s CL CH RL RH :
  (RL <= length (degap g s))%nat -> (RH <= length (degap g s))%nat ->
  degap g (firstn CL s) = firstn RL (degap g s) -> degap g (firstn CH s) = firstn RH (degap g s) ->
  degap g (sub s CL CH) = sub (degap g s) RL RH.
Proof.
  intros H1 H2 FL FH. destruct (le_lt_dec CL CH) as [L|G].
  - rewrite (firstn_split s CL CH L), degap_app, FL in FH.
    assert (Hlen : (RL <= RH)%nat).
    { apply (f_equal (@length byte)) in FH. rewrite app_length, !firstn_length_le in FH by lia. lia. }
    rewrite (firstn_split (degap g s) RL RH Hlen) in FH. apply app_inv_head in FH. exact FH.
  - assert (L : (CH <= CL)%nat) by lia.
    rewrite (firstn_split s CH CL L), degap_app, FH in FL.
    assert (Hlen : (RH <= RL)%nat).
    { apply (f_equal (@length byte)) in FL. rewrite app_length, !firstn_length_le in FL by lia. lia. }
    unfold sub. replace (CH - CL)%nat with 0%nat by lia. replace (RH - RL)%nat with 0%nat by lia. reflexivity.
Qed.
(* gap=g, any slice bounds (omitted, negative, beyond the ends, crossing): with the gap columns removed the window is the
   window with the same bounds of the ungapped sequence *)
Theorem gap_window_spec_all g s a b : degap g (gslice (Some g) s a b) = py_slice (degap g s) a b.
Proof.
  unfold gslice. rewrite !py_slice_bounds. unfold slice_bounds. cbn [fst snd].
  destruct (bound_cut g s a 0 0 (or_introl (conj eq_refl eq_refl))) as [Ha Fa].
  destruct (bound_cut g s b (Z.of_nat (length s)) (Z.of_nat (length (degap g s))) (or_intror (conj eq_refl eq_refl))) as [Hb Fb].
  apply degap_sub_general; [lia|lia|exact Fa|exact Fb].
Qed.

Lemma col_of_lt g s : forall i, (i < length (degap g s))%nat -> (col_of g s i < length s)%nat.
Proof.
  unfold degap. induction s as [|c r IH]; intros i Hi; [simpl in Hi; lia|].
  cbn [col_of length]. cbn [filter] in Hi. destruct (has c g); cbn [negb] in Hi.
  - specialize (IH i Hi). lia.
  - destruct i as [|j]; [lia|]. cbn [length] in Hi. specialize (IH j). lia.
Qed.
Lemma nth_error_col g s : forall i, (i < length (degap g s))%nat -> nth_error s (col_of g s i) = nth_error (degap g s) i.
Proof.
  unfold degap. induction s as [|c r IH]; intros i Hi; [simpl in Hi; lia|].
  cbn [col_of filter] in *. destruct (has c g) eqn:E; cbn [negb] in *.
  - cbn [nth_error]. apply IH. exact Hi.
  - destruct i as [|j]; [reflexivity|]. cbn [nth_error]. apply IH. cbn [length] in Hi. lia.
Qed.
Lemma sub_single {A} (l : list A) : forall k x, nth_error l k = Some x -> sub l k (S k) = [x].
Proof.
  unfold sub. induction l as [|a r IH]; intros k x H; [destruct k; discriminate|].
  replace (S k - k)%nat with 1%nat by lia. destruct k as [|j].
  - cbn in H. inversion H. reflexivity.
  - cbn [nth_error] in H. cbn [skipn]. specialize (IH j x H). replace (S j - j)%nat with 1%nat in IH by lia. exact IH.
Qed.
(* gap=g, int window i: the i-th residue (negative i from the end), IndexError outside [-n, n); the result is the plain
   int window at that residue's column, so C06_int_window_tracking applies to it *)
Theorem gap_int_spec q g i u sp fi :
  let s := sdata q in
  let d := degap g s in
  let n := Z.of_nat (length d) in
  let r := if i <? 0 then i + n else i in
  (0 <= r < n ->
     let k := Z.of_nat (col_of g s (Z.to_nat r)) in
     0 <= k < Z.of_nat (length s) /\
     getitem_g q (WInt i) u sp fi (Some g) = getitem q (WInt k) u sp fi /\
     zsub s k (k + 1) = zsub d r (r + 1)) /\
  (~ (0 <= r < n) -> getitem_g q (WInt i) u sp fi (Some g) = Err E_Index).
Proof.
  cbv zeta. set (s := sdata q). set (n := Z.of_nat (length (degap g s))). set (r := if i <? 0 then i + n else i).
  unfold getitem_g. fold s. unfold nogaps. rewrite nogaps_from_length. fold n. fold r.
  split.
  - intros Hr. pose proof (col_of_lt g s (Z.to_nat r)) as Hlt.
    assert (Hk : (col_of g s (Z.to_nat r) < length s)%nat) by (apply Hlt; lia).
    split; [lia|]. split.
    + destruct ((r <? 0) || (n <=? r)) eqn:E; [lia|].
      rewrite nogaps_from_nth by lia. rewrite Z.add_0_l.
      set (k := Z.of_nat (col_of g s (Z.to_nat r))).
      unfold getitem. fold s.
      destruct (k <? 0) eqn:E0; [lia|].
      destruct ((k <? 0) || (Z.of_nat (length s) <=? k)) eqn:E1; [lia|]. reflexivity.
    + unfold zsub. replace (Z.to_nat (Z.of_nat (col_of g s (Z.to_nat r)) + 1)) with (S (col_of g s (Z.to_nat r))) by lia.
      rewrite Nat2Z.id. replace (Z.to_nat (r + 1)) with (S (Z.to_nat r)) by lia.
      pose proof (nth_error_col g s (Z.to_nat r)) as Hn.
      destruct (nth_error (degap g s) (Z.to_nat r)) as [x|] eqn:Ex.
      * rewrite (sub_single s _ x) by (apply Hn; lia). rewrite (sub_single (degap g s) _ x Ex). reflexivity.
      * apply nth_error_None in Ex. lia.
  - intros Hr. destruct ((r <? 0) || (n <=? r)) eqn:E; [reflexivity|lia].
Qed.

(* ------------------------------------------------------------------ gap x update_fts: the two paths, side by side *)
(* int / slice windows: the features are cut at the COLUMN bounds of the window (the plain tracked window at adj(a), adj(b)) *)
Theorem gap_update_slice_path q g a b step sp fi :
  let s := sdata q in
  let len := Z.of_nat (length s) in
  let lo := fst (slice_bounds len (adj g s a) (adj g s b)) in
  let hi := snd (slice_bounds len (adj g s a) (adj g s b)) in
  upper s = s -> (step = None \/ step = Some 1) -> forallb (ft_in len) (sfts q) = true ->
  getitem_g q (WSlice a b step) true sp fi (Some g) = Ok (mkSeq (zsub s lo hi) (slice_spec lo hi lo (sfts q))).
Proof.
  cbv zeta. intros Hup Hst Hf. cbn [getitem_g].
  exact (proj1 (window_tracking q (adj g (sdata q) a) (adj g (sdata q) b) step sp fi Hup Hst Hf)).
Qed.
(* Location / Feature / type-name windows: the features are cut at the NUMBERS of the window, whatever gap is: the feature list
   of the result is the one of the plain (gap=None) window; only the residues are selected gap-aware *)
Lemma slice_locs_g_fts gap q ls sp fi :
  slice_locs_g gap q ls sp fi true =
  match slice_locs q ls sp fi true with
  | Ok r => Ok (mkSeq (upper (concat (join_locs_g gap (sdata q) fi sp None ls))) (sfts r))
  | Err e => Err e
  end.
Proof.
  unfold slice_locs_g, slice_locs. destruct (1 <? Z.of_nat (length ls)); [reflexivity|].
  destruct (slice_each (sfts q) (range_start ls) ls); reflexivity.
Qed.
Lemma join_locs_g_single gap s fi sp l : concat (join_locs_g gap s fi sp None [l]) = gpiece gap s l.
Proof. cbn [join_locs_g]. destruct fi, sp; cbn [app concat]; rewrite !app_nil_r; reflexivity. Qed.
Theorem gap_update_loc_path q g w sp fi :
  let len := Z.of_nat (length (sdata q)) in
  let lo := lstart w in
  let hi := lstop w in
  forallb in_alpha (sdata q) = true -> loc_in len w = true -> forallb (ft_in len) (sfts q) = true ->
  getitem_g q (WLoc w) true sp fi (Some g) =
    Ok (mkSeq (upper (gpiece (Some g) (sdata q) w))
              (if is_minus w then fts_rc (hi - lo) (slice_spec lo hi lo (sfts q)) else slice_spec lo hi lo (sfts q))).
Proof.
  cbv zeta. intros Ha Hw Hf. cbn [getitem_g]. rewrite slice_locs_g_fts.
  pose proof (feature_window_tracking q w sp fi Ha Hw Hf) as [G _]. cbn [getitem] in G. rewrite G.
  cbn [sfts]. rewrite join_locs_g_single. reflexivity.
Qed.
(* the paths agree when the residue-numbered bounds fall on the columns with the same numbers (no gap column before residue
   number stop): a forward Location [a, b) gives what the slice a:b gives *)
Theorem gap_update_paths_agree q g w sp fi :
  is_minus w = false -> 0 <= lstart w -> 0 <= lstop w -> aligned g (sdata q) (lstart w) (lstop w) = true ->
  getitem_g q (WLoc w) true sp fi (Some g) =
  getitem_g q (WSlice (Some (lstart w)) (Some (lstop w)) None) true sp fi (Some g).
Proof.
  intros Hm Ha Hb Hal. unfold aligned in Hal. apply andb_prop in Hal. destruct Hal as [A1 A2].
  apply Z.eqb_eq in A1. apply Z.eqb_eq in A2.
  cbn [getitem_g]. rewrite !adj_some, A1, A2.
  assert (La : lstart w <= Z.of_nat (length (sdata q))).
  { pose proof (adj_col g (sdata q) (lstart w) Ha) as E. rewrite adj_some, A1 in E. inversion E as [E'].
    pose proof (col_of_le g (sdata q) (Z.to_nat (lstart w))). lia. }
  assert (Lb : lstop w <= Z.of_nat (length (sdata q))).
  { pose proof (adj_col g (sdata q) (lstop w) Hb) as E. rewrite adj_some, A2 in E. inversion E as [E'].
    pose proof (col_of_le g (sdata q) (Z.to_nat (lstop w))). lia. }
  unfold getitem, slice_locs_g. cbn [length]. change (1 <? Z.of_nat 1) with false. cbv iota.
  rewrite join_locs_g_single. unfold gpiece. rewrite Hm. unfold gslice. rewrite !adj_some, A1, A2.
  cbn [range_start range_stop fold_left slice_each].
  unfold slice_bounds, clampZ.
  destruct (lstart w <? 0) eqn:E1; [lia|]. destruct (lstop w <? 0) eqn:E2; [lia|].
  rewrite !Z.min_l by lia.
  destruct (fts_slice (lstart w) (lstop w) (lstart w) (sfts q)) as [r|e]; cbn [bind]; [|reflexivity].
  rewrite app_nil_r. reflexivity.
Qed.
(* ... and they differ otherwise: residues 1..2 of A-CG are the columns 2..3; a feature on column 2 is kept by the slice path
   (cut at columns) and dropped by the Location path (cut at the numbers 1..2) *)
Theorem gap_update_paths_refuted :
  exists q g w, state_ok (Some g) q = true /\ win_ok_g q (WLoc w) true (Some g) = true /\ is_minus w = false /\
    aligned g (sdata q) (lstart w) (lstop w) = false /\
    getitem_g q (WLoc w) true None None (Some g) <>
    getitem_g q (WSlice (Some (lstart w)) (Some (lstop w)) None) true None None (Some g).
Proof.
  exists (mkSeq (bs "A-CG"%bs) [mkFt None [mkLoc 2 3 S_FORWARD 0]]), (bs "-"%bs), (mkLoc 1 2 S_FORWARD 0).
  repeat split; try reflexivity. vm_compute. discriminate.
Qed.

(* necessity: whenever the bounds are NOT aligned some single-location feature inside the sequence is tracked differently by the
   two paths (so "aligned" is exactly the set of windows on which the paths agree for every feature set) *)
Lemma col_of_ge g s : forall i, (i <= length (degap g s))%nat -> (i <= col_of g s i)%nat.
Proof.
  unfold degap. induction s as [|c r IH]; intros i Hi; [simpl in Hi; simpl; lia|].
  cbn [col_of]. cbn [filter] in Hi. destruct (has c g); cbn [negb] in Hi.
  - specialize (IH i Hi). lia.
  - destruct i as [|k]; [lia|]. cbn [length] in Hi. specialize (IH k). lia.
Qed.
Lemma col_of_strict g s : forall i j, (i < j)%nat -> (i < length (degap g s))%nat -> (col_of g s i < col_of g s j)%nat.
Proof.
  unfold degap. induction s as [|c r IH]; intros i j Hij Hi; [simpl in Hi; lia|].
  cbn [col_of]. cbn [filter] in Hi. destruct (has c g); cbn [negb] in Hi.
  - specialize (IH i j Hij Hi). lia.
  - destruct i as [|i']; [destruct j; lia|]. destruct j as [|j']; [lia|]. cbn [length] in Hi. specialize (IH i' j'). lia.
Qed.
Definition unit_ft (x : Z) : feature := mkFt None [mkLoc x (x + 1) S_FORWARD 0].
Lemma fts_slice_unit lo hi rel x :
  fts_slice lo hi rel [unit_ft x] =
  if (lo <=? x) && (x <? hi) then Ok [mkFt None [mkLoc (x - rel) (x + 1 - rel) S_FORWARD 0]] else Ok [].
Proof.
  unfold unit_ft. cbn [fts_slice flocs cut_locs]. unfold overlaps. cbn [lstart lstop].
  destruct ((lo <=? x) && (x <? hi)) eqn:E.
  - destruct (Z.max x lo <? Z.min (x + 1) hi) eqn:E1; [|lia].
    unfold cut_loc, cut_defect, mk_loc. cbn [lstart lstop lstrand ldefect].
    destruct (x <? lo) eqn:E2; [lia|]. destruct (hi <? x + 1) eqn:E3; [lia|].
    rewrite Z.max_r, Z.min_r by lia.
    destruct (x + 1 - rel <=? x - rel) eqn:E4; [lia|]. reflexivity.
  - destruct (Z.max x lo <? Z.min (x + 1) hi) eqn:E1; [lia|]. reflexivity.
Qed.
Lemma unit_ft_in len x : 0 <= x -> x + 1 <= len -> ft_in len (unit_ft x) = true.
Proof.
  intros H1 H2. unfold ft_in, unit_ft, loc_in. cbn [flocs length forallb same_strand ftype opt_ascii lstart lstop lstrand ldefect].
  destruct (0 <=? x) eqn:E1; [|lia]. destruct (x <? x + 1) eqn:E2; [|lia]. destruct (x + 1 <=? len) eqn:E3; [|lia]. reflexivity.
Qed.
Theorem gap_update_paths_differ s g a b sp fi :
  0 <= a -> a < b -> b <= Z.of_nat (length (degap g s)) -> aligned g s a b = false ->
  exists f, ft_in (Z.of_nat (length s)) f = true /\ length (flocs f) = 1%nat /\
    getitem_g (mkSeq s [f]) (WLoc (mkLoc a b S_FORWARD 0)) true sp fi (Some g) <>
    getitem_g (mkSeq s [f]) (WSlice (Some a) (Some b) None) true sp fi (Some g).
Proof.
  intros Ha Hab Hb Hal.
  set (ca := Z.of_nat (col_of g s (Z.to_nat a))). set (cb := Z.of_nat (col_of g s (Z.to_nat b))).
  assert (A1 : adj g s (Some a) = Some ca) by (apply adj_col; lia).
  assert (A2 : adj g s (Some b) = Some cb) by (apply adj_col; lia).
  assert (G1 : a <= ca) by (pose proof (col_of_ge g s (Z.to_nat a)); lia).
  assert (G2 : b <= cb) by (pose proof (col_of_ge g s (Z.to_nat b)); lia).
  assert (G3 : ca < cb) by (pose proof (col_of_strict g s (Z.to_nat a) (Z.to_nat b)); lia).
  assert (G4 : cb <= Z.of_nat (length s)) by (pose proof (col_of_le g s (Z.to_nat b)); lia).
  assert (Hne : ca <> a \/ cb <> b).
  { unfold aligned, adj_z in Hal. rewrite A1, A2 in Hal. lia. }
  (* both sides, for the feature list [unit_ft x] *)
  assert (L : forall x, getitem_g (mkSeq s [unit_ft x]) (WLoc (mkLoc a b S_FORWARD 0)) true sp fi (Some g) =
                        bind (fts_slice a b a [unit_ft x])
                             (fun r => Ok (mkSeq (upper (gpiece (Some g) s (mkLoc a b S_FORWARD 0))) r))).
  { intros x. cbn [getitem_g]. unfold slice_locs_g. cbn [length]. change (1 <? Z.of_nat 1) with false. cbv iota.
    rewrite join_locs_g_single. cbn [sdata sfts range_start range_stop fold_left slice_each lstart lstop].
    change (is_minus (mkLoc a b S_FORWARD 0)) with false. cbv iota.
    destruct (fts_slice a b a [unit_ft x]) as [r|e]; cbn [bind]; [rewrite app_nil_r|]; reflexivity. }
  assert (R : forall x, getitem_g (mkSeq s [unit_ft x]) (WSlice (Some a) (Some b) None) true sp fi (Some g) =
                        bind (fts_slice ca cb ca [unit_ft x])
                             (fun r => Ok (mkSeq (upper (py_slice s (Some ca) (Some cb))) r))).
  { intros x. cbn [getitem_g sdata]. rewrite A1, A2. unfold getitem. cbn [sdata sfts].
    unfold slice_bounds, clampZ. destruct (ca <? 0) eqn:E1; [lia|]. destruct (cb <? 0) eqn:E2; [lia|].
    rewrite !Z.min_l by lia. reflexivity. }
  destruct (Z.eq_dec ca a) as [Eq|Ne].
  - (* ca = a, so cb > b: the feature on the last column of the slice-path window *)
    assert (Hcb : b < cb) by lia.
    exists (unit_ft (cb - 1)). split; [apply unit_ft_in; lia|]. split; [reflexivity|].
    rewrite L, R, !fts_slice_unit.
    destruct ((a <=? cb - 1) && (cb - 1 <? b)) eqn:E1; [lia|].
    destruct ((ca <=? cb - 1) && (cb - 1 <? cb)) eqn:E2; [|lia].
    cbn [bind]. intros H. inversion H.
  - (* ca > a: the feature on the first column of the slice-path window *)
    exists (unit_ft ca). split; [apply unit_ft_in; lia|]. split; [reflexivity|].
    rewrite L, R, !fts_slice_unit.
    destruct ((ca <=? ca) && (ca <? cb)) eqn:E2; [|lia].
    destruct ((a <=? ca) && (ca <? b)) eqn:E1; cbn [bind]; intros H; inversion H; lia.
Qed.

(* ------------------------------------------------------------------ filler on the minus strand *)
(* consecutive minus-strand locations in 5'->3' order (descending) without overlap, inside the sequence *)
Fixpoint chain_ok_minus (len : Z) (p : loc) (r : list loc) : bool :=
  match r with
  | [] => true
  | l :: t => is_minus l && (lstop l <=? lstart p) && (0 <=? lstart l) && (lstart l <=? lstop l) && (lstop l <=? len) &&
              chain_ok_minus len l t
  end.
Lemma filler_chain_minus s c : forall r p, lstart p <= Z.of_nat (length s) -> chain_ok_minus (Z.of_nat (length s)) p r = true ->
  Z.of_nat (length (concat (flat_map (fun pl => sep_spec (Some [c]) None (fst pl) (snd pl) ++ [piece s (snd pl)])
                                     (combine (p :: r) r)))) = lstart p - lstart (last r p).
Proof.
  induction r as [|l t IH]; intros p Hp H; [simpl; lia|].
  cbn [chain_ok_minus] in H. apply andb_prop in H. destruct H as [H H6]. apply andb_prop in H. destruct H as [H H5].
  apply andb_prop in H. destruct H as [H H4]. apply andb_prop in H. destruct H as [H H3]. apply andb_prop in H. destruct H as [H1 H2].
  set (F := fun pl : loc * loc => sep_spec (Some [c]) None (fst pl) (snd pl) ++ [piece s (snd pl)]) in *.
  change (combine (p :: l :: t) (l :: t)) with ((p, l) :: combine (l :: t) t).
  change (flat_map F ((p, l) :: combine (l :: t) t)) with (F (p, l) ++ flat_map F (combine (l :: t) t)).
  rewrite concat_app, app_length, Nat2Z.inj_add.
  rewrite (IH l) by (try exact H6; lia).
  rewrite last_cons.
  subst F. cbn [fst snd]. unfold sep_spec, fill_num. rewrite H1. rewrite app_nil_r.
  assert (Pl : Z.of_nat (length (piece s l)) = lstop l - lstart l) by (apply piece_length; lia).
  destruct (0 <? lstart p - lstop l) eqn:E.
  - cbn [app concat]. rewrite !app_length, repeat_str_length. cbn [length]. lia.
  - cbn [app concat]. rewrite ?app_length. cbn [length]. lia.
Qed.
(* seq.sl(filler=c)[feature] on descending non-overlapping minus-strand locations has the length of the feature's range too *)
Theorem filler_pads_minus s c l0 r : is_minus l0 = true ->
  0 <= lstart l0 -> lstart l0 <= lstop l0 -> lstop l0 <= Z.of_nat (length s) -> chain_ok_minus (Z.of_nat (length s)) l0 r = true ->
  Z.of_nat (length (concat (extract_spec s (Some [c]) None (l0 :: r)))) = lstop l0 - lstart (last r l0).
Proof.
  intros Hm H1 H2 H3 Hc. unfold extract_spec. cbn [concat]. rewrite app_length, Nat2Z.inj_add.
  rewrite piece_length by lia. rewrite (filler_chain_minus s c r l0) by (try exact Hc; lia). lia.
Qed.

(* ------------------------------------------------------------------ non-vacuity instances used by props/C06_Props.v *)
Lemma witness_round6 :
  wf_C06u (bs "ACGU"%bs) [(Some (bs "cds"%bs), [(0, 3, 45, 0)])] (RType (bs "CDS"%bs)) true None None None = true /\
  wf_C06 (bs "ACGU"%bs) [(Some (bs "cds"%bs), [(0, 3, 45, 0)])] (RType (bs "CDS"%bs)) true None None None = false /\
  fts_get (bs "MRNA"%bs) [mkFt (Some (bs "RNA"%bs)) [mkLoc 0 1 S_FORWARD 0]; mkFt (Some (bs "mRNA"%bs)) [mkLoc 1 2 S_FORWARD 0]]
    = Some (mkFt (Some (bs "mRNA"%bs)) [mkLoc 1 2 S_FORWARD 0]) /\
  wf_C06b [(bs "ACGT"%bs, [(Some (bs "cds"%bs), [(0, 2, 45, 0)])]); (bs "GGA"%bs, [(Some (bs "CDS"%bs), [(1, 3, 43, 0)])])]
          (QPairS None None (Some (-1)) (RType (bs "cds"%bs))) false None None None = true /\
  Bstr (show (show_bres (bind (build_basket 0 [(bs "ACGT"%bs, [(Some (bs "cds"%bs), [(0, 2, 45, 0)])]);
                                               (bs "GGA"%bs, [(Some (bs "CDS"%bs), [(1, 3, 43, 0)])])])
                 (fun qs => basket_getitem qs (BPairS None None (Some (-1)) (WType (bs "cds"%bs))) false None None None)))) =
  Bstr (show (VL [VS (bs "basket"%bs);
                  VL [VL [VI 1; VL [VS (bs "GA"%bs); VL [VL [VS (bs "CDS"%bs); VL [VL [VI 1; VI 3; VS (bs "+"%bs); VI 0]]]]]];
                      VL [VI 0; VL [VS (bs "GT"%bs); VL [VL [VS (bs "cds"%bs); VL [VL [VI 0; VI 2; VS (bs "-"%bs); VI 0]]]]]]]])) /\
  aligned (bs "-"%bs) (bs "ACG-T"%bs) 0 2 = true /\ aligned (bs "-"%bs) (bs "A-CG"%bs) 1 2 = false /\
  chain_ok_minus 8 (mkLoc 5 7 S_REVERSE 0) [mkLoc 1 3 S_REVERSE 0] = true.
Proof. repeat split; reflexivity. Qed.

(* ------------------------------------------------------------------ BioBasket.rc(update_fts): every sequence about its own length *)
Theorem basket_rc_spec qs u sp fi gap :
  basket_getitem qs BRc u sp fi gap = Ok (BMany (map (fun e => (fst e, seq_rc (snd e) u)) qs)) /\
  (forall e, In e qs ->
     let q := snd e in
     let len := Z.of_nat (length (sdata q)) in
     forallb in_alpha (sdata q) = true -> forallb (ft_in len) (sfts q) = true ->
     seq_rc q true = mkSeq (rc (sdata q)) (map (feature_rc len) (sfts q)) /\
     forall f l, In f (sfts q) -> In l (flocs f) -> is_pm (lstrand l) = true ->
       piece (rc (sdata q)) (loc_reverse len l) = piece (sdata q) l).
Proof.
  split; [reflexivity|]. intros e _. cbv zeta. intros Ha Hf.
  destruct (rc_tracking (snd e) Ha Hf) as [G T]. split; [exact G|].
  intros f l Hfi Hl Hpm. destruct (T f l Hfi Hl) as (_ & _ & _ & P). exact (proj2 (P Hpm)).
Qed.
