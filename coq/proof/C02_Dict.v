(* C02 proofs, part 5: algebra of insertion-ordered dicts (aget / aset / apop / aupdate / filter). *)
From Coq Require Import List ZArith NArith Bool Lia.
From Coq.Strings Require Import Byte.
Import ListNotations.
From SV Require Import Text G_gff C02_Model C02_Lemmas.

Lemma str_eqb_false_sym a b : str_eqb a b = false -> str_eqb b a = false.
Proof. intros H. rewrite str_eqb_sym. exact H. Qed.

Lemma in_keys_aget k d : in_keys k d = match aget k d with Some _ => true | None => false end.
Proof.
  induction d as [|[k' v] d IH]; [reflexivity|]. cbn [in_keys existsb aget fst]. destruct (str_eqb k' k); [reflexivity|exact IH].
Qed.
Lemma aget_none_in_keys k d : aget k d = None <-> in_keys k d = false.
Proof. rewrite in_keys_aget. destruct (aget k d); split; congruence. Qed.
Lemma aget_app k a b : aget k (a ++ b) = match aget k a with Some v => Some v | None => aget k b end.
Proof. induction a as [|[k' v] a IH]; [reflexivity|]. cbn [app aget]. destruct (str_eqb k' k); [reflexivity|exact IH]. Qed.
Lemma aget_In k v d : aget k d = Some v -> In (k, v) d.
Proof.
  induction d as [|[k' v'] d IH]; cbn [aget]; [discriminate|]. destruct (str_eqb k' k) eqn:E.
  - intros H. inversion H; subst. apply str_eqb_eq in E. subst. left. reflexivity.
  - intros H. right. apply IH. exact H.
Qed.
Lemma In_aget k v d : keys_unique d = true -> In (k, v) d -> aget k d = Some v.
Proof.
  induction d as [|[k' v'] d IH]; [contradiction|]. cbn [keys_unique aget]. intros U H. apply andb_prop in U. destruct U as [U1 U2].
  destruct H as [H|H].
  - inversion H; subst. rewrite str_eqb_refl. reflexivity.
  - destruct (str_eqb k' k) eqn:E; [|apply IH; assumption].
    apply str_eqb_eq in E. subst k'. apply negb_true_iff in U1.
    assert (existsb (fun kv => str_eqb (fst kv) k) d = true) as T by (apply existsb_exists; exists (k, v); split; [exact H|apply str_eqb_refl]).
    congruence.
Qed.

(* aset *)
Lemma aget_aset_same k v d : aget k (aset k v d) = Some v.
Proof.
  induction d as [|[k' v'] d IH]; cbn [aset aget]; [rewrite str_eqb_refl; reflexivity|].
  destruct (str_eqb k' k) eqn:E; cbn [aget]; rewrite E; [reflexivity|exact IH].
Qed.
Lemma aget_aset_other k k' v d : str_eqb k k' = false -> aget k' (aset k v d) = aget k' d.
Proof.
  intros N. induction d as [|[k2 v2] d IH]; cbn [aset aget].
  - rewrite N. reflexivity.
  - destruct (str_eqb k2 k) eqn:E; cbn [aget].
    + apply str_eqb_eq in E. subst k2. rewrite N. reflexivity.
    + rewrite IH. reflexivity.
Qed.
Lemma in_keys_aset k k' v d : in_keys k' (aset k v d) = in_keys k' d || str_eqb k k'.
Proof.
  rewrite !in_keys_aget. destruct (str_eqb k k') eqn:E.
  - apply str_eqb_eq in E. subst. rewrite aget_aset_same. rewrite orb_true_r. reflexivity.
  - rewrite (aget_aset_other _ _ _ _ E). rewrite orb_false_r. reflexivity.
Qed.
Lemma aset_same_val k v d : aget k d = Some v -> aset k v d = d.
Proof.
  induction d as [|[k' v'] d IH]; cbn [aget aset]; [discriminate|]. destruct (str_eqb k' k) eqn:E.
  - intros H. inversion H; subst. reflexivity.
  - intros H. rewrite (IH H). reflexivity.
Qed.
Lemma keys_unique_aset k v d : keys_unique d = true -> keys_unique (aset k v d) = true.
Proof.
  induction d as [|[k' v'] d IH]; cbn [aset keys_unique]; [reflexivity|]. intros U. apply andb_prop in U. destruct U as [U1 U2].
  destruct (str_eqb k' k) eqn:E; cbn [keys_unique].
  - rewrite U1, U2. reflexivity.
  - rewrite (IH U2), andb_true_r. apply negb_true_iff. apply negb_true_iff in U1.
    change (in_keys k' (aset k v d) = false). rewrite in_keys_aset. change (in_keys k' d = false) in U1. rewrite U1.
    rewrite str_eqb_sym. rewrite E. reflexivity.
Qed.
Lemma forallb_aset (P : str * aval -> bool) k v d :
  (forall k', str_eqb k' k = true -> P (k', v) = true) -> forallb P d = true -> forallb P (aset k v d) = true.
Proof.
  intros Hp. induction d as [|[k' v'] d IH]; cbn [aset forallb].
  - intros _. rewrite (Hp k (str_eqb_refl k)). reflexivity.
  - intros H. apply andb_prop in H. destruct H as [H1 H2]. destruct (str_eqb k' k) eqn:E; cbn [forallb].
    + rewrite (Hp k' E), H2. reflexivity.
    + rewrite H1, (IH H2). reflexivity.
Qed.

(* apop *)
Lemma In_apop kv k d : In kv (apop k d) -> In kv d.
Proof.
  induction d as [|[k' v'] d IH]; cbn [apop]; [auto|]. destruct (str_eqb k' k); [intros H; right; exact H|].
  intros [H|H]; [left; exact H|right; apply IH; exact H].
Qed.
Lemma aget_apop_other k k' d : str_eqb k k' = false -> aget k' (apop k d) = aget k' d.
Proof.
  intros N. induction d as [|[k2 v2] d IH]; [reflexivity|]. cbn [apop aget]. destruct (str_eqb k2 k) eqn:E.
  - apply str_eqb_eq in E. subst k2. rewrite N. reflexivity.
  - cbn [aget]. rewrite IH. reflexivity.
Qed.
Lemma in_keys_apop_le k k' d : in_keys k' (apop k d) = true -> in_keys k' d = true.
Proof.
  unfold in_keys. intros H. apply existsb_exists in H. destruct H as [kv [H1 H2]]. apply existsb_exists. exists kv. split; [apply (In_apop _ _ _ H1)|exact H2].
Qed.
Lemma in_keys_apop_same k d : keys_unique d = true -> in_keys k (apop k d) = false.
Proof.
  induction d as [|[k' v'] d IH]; [reflexivity|]. cbn [keys_unique apop]. intros U. apply andb_prop in U. destruct U as [U1 U2].
  destruct (str_eqb k' k) eqn:E.
  - apply str_eqb_eq in E. subst k'. apply negb_true_iff in U1. exact U1.
  - cbn [in_keys existsb fst]. rewrite E. apply IH. exact U2.
Qed.
Lemma keys_unique_apop k d : keys_unique d = true -> keys_unique (apop k d) = true.
Proof.
  induction d as [|[k' v'] d IH]; [reflexivity|]. cbn [keys_unique apop]. intros U. apply andb_prop in U. destruct U as [U1 U2].
  destruct (str_eqb k' k); [exact U2|]. cbn [keys_unique]. rewrite (IH U2), andb_true_r.
  apply negb_true_iff. apply negb_true_iff in U1. destruct (existsb _ (apop k d)) eqn:T; [|reflexivity].
  apply (in_keys_apop_le k k' d) in T. unfold in_keys in T. congruence.
Qed.
Lemma forallb_apop (P : str * aval -> bool) k d : forallb P d = true -> forallb P (apop k d) = true.
Proof.
  induction d as [|[k' v'] d IH]; [reflexivity|]. cbn [forallb apop]. intros H. apply andb_prop in H. destruct H as [H1 H2].
  destruct (str_eqb k' k); [exact H2|]. cbn [forallb]. rewrite H1, (IH H2). reflexivity.
Qed.
Lemma in_keys_apop_other k k' d : str_eqb k k' = false -> in_keys k' (apop k d) = in_keys k' d.
Proof. intros N. rewrite !in_keys_aget, (aget_apop_other _ _ _ N). reflexivity. Qed.

(* filter *)
Lemma keys_unique_filter (p : str * aval -> bool) d : keys_unique d = true -> keys_unique (filter p d) = true.
Proof.
  induction d as [|[k v] d IH]; [reflexivity|]. cbn [keys_unique filter]. intros U. apply andb_prop in U. destruct U as [U1 U2].
  destruct (p (k, v)); [|apply IH; exact U2]. cbn [keys_unique]. rewrite (IH U2), andb_true_r.
  apply negb_true_iff. apply negb_true_iff in U1. destruct (existsb _ (filter p d)) eqn:T; [|reflexivity].
  apply existsb_exists in T. destruct T as [kv [T1 T2]]. apply filter_In in T1. destruct T1 as [T1 _].
  assert (existsb (fun kv0 => str_eqb (fst kv0) k) d = true) as T by (apply existsb_exists; exists kv; auto). congruence.
Qed.
Lemma forallb_filter (P p : str * aval -> bool) d : forallb P d = true -> forallb P (filter p d) = true.
Proof.
  induction d as [|x d IH]; [reflexivity|]. cbn [forallb filter]. intros H. apply andb_prop in H. destruct H as [H1 H2].
  destruct (p x); [cbn [forallb]; rewrite H1, (IH H2); reflexivity|apply IH; exact H2].
Qed.
Lemma in_keys_filter_le (p : str * aval -> bool) k d : in_keys k (filter p d) = true -> in_keys k d = true.
Proof.
  unfold in_keys. intros H. apply existsb_exists in H. destruct H as [kv [H1 H2]]. apply filter_In in H1.
  apply existsb_exists. exists kv. tauto.
Qed.
Lemma aget_filter (p : str * aval -> bool) k d : keys_unique d = true ->
  aget k (filter p d) = match aget k d with Some v => if p (k, v) then Some v else None | None => None end.
Proof.
  induction d as [|[k' v'] d IH]; [reflexivity|]. cbn [keys_unique filter aget]. intros U. apply andb_prop in U. destruct U as [U1 U2].
  destruct (str_eqb k' k) eqn:E.
  - apply str_eqb_eq in E. subst k'. destruct (p (k, v')) eqn:Pk; cbn [aget]; [rewrite str_eqb_refl; reflexivity|].
    rewrite (IH U2). apply negb_true_iff in U1. change (in_keys k d = false) in U1. apply aget_none_in_keys in U1. rewrite U1. reflexivity.
  - destruct (p (k', v')); cbn [aget]; [rewrite E|]; apply IH; exact U2.
Qed.

(* aupdate *)
Lemma aupdate_cons d k v e : aupdate d ((k, v) :: e) = aupdate (aset k v d) e.
Proof. reflexivity. Qed.
Lemma keys_unique_aupdate e : forall d, keys_unique d = true -> keys_unique (aupdate d e) = true.
Proof. induction e as [|[k v] e IH]; intros d U; [exact U|]. rewrite aupdate_cons. apply IH, keys_unique_aset, U. Qed.
Lemma forallb_aupdate (P : str * aval -> bool) e : forall d,
  (forall k k' v, In (k, v) e -> str_eqb k' k = true -> P (k', v) = true) -> forallb P d = true -> forallb P (aupdate d e) = true.
Proof.
  induction e as [|[k v] e IH]; intros d Hp H; [exact H|]. rewrite aupdate_cons. apply IH.
  - intros k0 k' v0 Hin. apply Hp. right. exact Hin.
  - apply forallb_aset; [|exact H]. intros k' E. apply (Hp k k' v); [left; reflexivity|exact E].
Qed.
Lemma aget_aupdate k e : forall d, keys_unique e = true ->
  aget k (aupdate d e) = match aget k e with Some v => Some v | None => aget k d end.
Proof.
  induction e as [|[k' v'] e IH]; intros d U; [reflexivity|]. rewrite aupdate_cons. cbn [keys_unique] in U. apply andb_prop in U. destruct U as [U1 U2].
  rewrite (IH _ U2). cbn [aget]. destruct (str_eqb k' k) eqn:E.
  - apply str_eqb_eq in E. subst k'. apply negb_true_iff in U1. change (in_keys k e = false) in U1. apply aget_none_in_keys in U1.
    rewrite U1. apply aget_aset_same.
  - destruct (aget k e); [reflexivity|]. apply aget_aset_other. exact E.
Qed.
