(* C04, round 7: gap-aware subscripts of gap-free sequences, every step *)
From Coq Require Import List ZArith NArith Bool Lia ZifyBool.
From Coq.Strings Require Import Byte.
Import ListNotations.
From SV Require Import Text C04_PySlice C04_Model C04_Lemmas C04_Str C04_Str7.
Local Open Scope Z_scope.

Lemma adj_bound_norm_any len step i : 0 <= len -> (0 < step \/ - len <= i) ->
  adj_bound len step (norm len i) = adj_bound len step i.
Proof.
  intros Hl Hs. unfold adj_bound, norm.
  repeat match goal with |- context [if ?b then _ else _] => destruct b eqn:? end; lia.
Qed.
Lemma gap_free_any_step g s sl : (forall c, In c (data s) -> in_gap g c = false) ->
  bound_ok (Z.of_nat (length (data s))) (sl_step sl) (sl_start sl) ->
  bound_ok (Z.of_nat (length (data s))) (sl_step sl) (sl_stop sl) ->
  seq_getitem (Some g) s (ISlice sl) = seq_getitem None s (ISlice sl).
Proof.
  intros Hfree Ha Hb. unfold seq_getitem, adjust_index. cbn [pyget].
  set (n := Z.of_nat (length (data s))) in *.
  assert (Hsi : slice_indices n (mkslice (adj (nogaps g (data s)) n (sl_start sl)) (adj (nogaps g (data s)) n (sl_stop sl)) (sl_step sl))
                = slice_indices n sl).
  { unfold slice_indices. cbn [sl_start sl_stop sl_step].
    set (step := match sl_step sl with Some k => k | None => 1 end).
    destruct (step =? 0); [reflexivity|].
    assert (Hn : 0 <= n) by (unfold n; lia).
    assert (Hc : forall o dflt, bound_ok n (sl_step sl) o ->
                   match adj (nogaps g (data s)) n o with None => dflt | Some i => adj_bound n step i end
                   = match o with None => dflt | Some i => adj_bound n step i end).
    { intros [i|] dflt Hok; [|reflexivity]. unfold n. rewrite adj_gapfree by exact Hfree. apply adj_bound_norm_any; [exact Hn|].
      cbn [bound_ok] in Hok. unfold step. destruct Hok as [Hok|Hok]; [left; destruct (sl_step sl); [exact Hok|lia]|right; exact Hok]. }
    rewrite !(Hc _ _ Ha), !(Hc _ _ Hb). reflexivity. }
  unfold getslice. fold n. rewrite Hsi. reflexivity.
Qed.
