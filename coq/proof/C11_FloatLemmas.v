(* C11 round 7: float() on e-values and scores. Every text of the grammar
     [blanks] [sign] digits [. digits] [(e|E) [sign] digits] [blanks]     (at least one digit in the mantissa)
   is read as the number with exactly that mantissa and decimal exponent (float_parse); the words are read as inf / nan. *)
From Coq Require Import List ZArith NArith Bool Lia.
From Coq.Strings Require Import Byte.
Import ListNotations.
From SV Require Import Text G_tab C11_Model C11_Lemmas C11_TextLemmas C11_FileLemmas C11_IntLemmas.
Local Open Scope Z_scope.

(* value of a digit string, accumulator style *)
Fixpoint dval (s : str) (acc : Z) : Z :=
  match s with
  | c :: r => match digit_val c with Some d => dval r (acc * 10 + d) | None => acc end
  | [] => acc
  end.
Definition head_nondigit (r : str) : bool := match r with [] => true | c :: _ => negb (is_digit c) end.

Lemma span_digits_app ds : forall r acc n, all_digits ds = true -> head_nondigit r = true ->
  span_digits (ds ++ r) acc n = (dval ds acc, n + Z.of_nat (length ds), r).
Proof.
  induction ds as [|c ds IH]; intros r acc n A H.
  - cbn [app dval length]. replace (n + Z.of_nat 0) with n by lia.
    destruct r as [|x r]; [reflexivity|]. cbn [span_digits]. cbn [head_nondigit] in H. unfold is_digit in H.
    destruct (digit_val x); [discriminate|reflexivity].
  - cbn [all_digits forallb] in A. apply andb_prop in A. destruct A as [A1 A2]. unfold is_digit in A1.
    cbn [app span_digits dval]. destruct (digit_val c) as [dg|]; [|discriminate].
    rewrite (IH r _ _ A2 H). f_equal. f_equal. cbn [length]. lia.
Qed.
Lemma span_digits_all ds acc n : all_digits ds = true -> span_digits ds acc n = (dval ds acc, n + Z.of_nat (length ds), []).
Proof. intros A. rewrite <- (app_nil_r ds) at 1. apply span_digits_app; [exact A|reflexivity]. Qed.
Lemma dval_app a : forall b acc, all_digits a = true -> dval (a ++ b) acc = dval b (dval a acc).
Proof.
  induction a as [|c a IH]; intros b acc A; [reflexivity|].
  cbn [all_digits forallb] in A. apply andb_prop in A. destruct A as [A1 A2]. unfold is_digit in A1.
  cbn [app dval]. destruct (digit_val c); [|discriminate]. apply IH. exact A2.
Qed.
Lemma digits_val_dval s : all_digits s = true -> digits_val s = dval s 0.
Proof. intros A. unfold digits_val. rewrite span_digits_all by exact A. reflexivity. Qed.

(* per-character facts (256 cases each) *)
Lemma digit_facts c : is_digit c = true ->
  is_space_num c = false /\ byte_eqb c "-"%byte = false /\ byte_eqb c "+"%byte = false /\ byte_eqb c "."%byte = false /\
  exp_mark c = false /\ byte_eqb (lower1 c) "i"%byte = false /\ byte_eqb (lower1 c) "n"%byte = false.
Proof. destruct c; cbn; intros H; try discriminate H; repeat split; reflexivity. Qed.
Lemma mark_facts c : exp_mark c = true -> is_space_num c = false /\ is_digit c = false /\ byte_eqb c "."%byte = false.
Proof. destruct c; cbn; intros H; try discriminate H; repeat split; reflexivity. Qed.
Lemma sign_char_facts c : byte_eqb c "+"%byte || byte_eqb c "-"%byte = true -> is_space_num c = false.
Proof. destruct c; cbn; intros H; try discriminate H; reflexivity. Qed.

Lemma digits_nonsp s : all_digits s = true -> nonsp s = true.
Proof.
  intros A. unfold nonsp. apply forallb_forall. intros c I. unfold all_digits in A. rewrite forallb_forall in A.
  destruct (digit_facts c (A c I)) as (-> & _). reflexivity.
Qed.
Lemma sign_nonsp s : sign_ok s = true -> nonsp s = true.
Proof.
  destruct s as [|c [|d r]]; cbn; intros H; try discriminate H; [reflexivity|].
  rewrite (sign_char_facts c H). reflexivity.
Qed.
Lemma nonsp_app a b : nonsp (a ++ b) = nonsp a && nonsp b.
Proof. unfold nonsp. apply forallb_app. Qed.

(* split_sign on sign ++ rest, when rest does not begin with a sign *)
Definition head_nosign (r : str) : bool :=
  match r with [] => true | c :: _ => negb (byte_eqb c "-"%byte) && negb (byte_eqb c "+"%byte) end.
Lemma split_sign_text sg r : sign_ok sg = true -> head_nosign r = true -> split_sign (sg ++ r) = (sign_neg sg, r).
Proof.
  intros S H. destruct sg as [|c [|d q]]; cbn in S; try discriminate S.
  - cbn [app sign_neg]. destruct r as [|x r]; [reflexivity|]. cbn in H. apply andb_prop in H. destruct H as [H1 H2].
    unfold split_sign. destruct x; try reflexivity; cbn in H1, H2; discriminate.
  - cbn [app sign_neg]. destruct c; cbn in S; try discriminate S; reflexivity.
Qed.

(* the words *)
Lemma not_word c r : byte_eqb (lower1 c) "i"%byte = false -> byte_eqb (lower1 c) "n"%byte = false ->
  (str_eqb (map lower1 (c :: r)) (bs "inf"%bs) || str_eqb (map lower1 (c :: r)) (bs "infinity"%bs)) = false /\
  str_eqb (map lower1 (c :: r)) (bs "nan"%bs) = false.
Proof.
  intros I N. cbn [map]. split.
  - apply orb_false_intro; (destruct (str_eqb _ _) eqn:E; [|reflexivity]); apply str_eqb_eq in E; inversion E as [[E1 E2]];
      rewrite E1 in I; discriminate I.
  - destruct (str_eqb _ _) eqn:E; [|reflexivity]. apply str_eqb_eq in E. inversion E as [[E1 E2]]. rewrite E1 in N. discriminate N.
Qed.

(* the unsigned part of a literal: digits [. digits] [exp] *)
Definition frac_text (fp : option str) : str := match fp with Some f => "."%byte :: f | None => [] end.
Definition exp_text (ex : option (byte * str * str)) : str := match ex with Some (m, es, ed) => m :: es ++ ed | None => [] end.
Definition frac_digits (fp : option str) : str := match fp with Some f => f | None => [] end.

Lemma float_text_split sg ip fp ex : float_text sg ip fp ex = sg ++ (ip ++ frac_text fp ++ exp_text ex).
Proof. unfold float_text, frac_text, exp_text. reflexivity. Qed.

Definition body (ip : str) (fp : option str) (ex : option (byte * str * str)) : str := ip ++ frac_text fp ++ exp_text ex.

  Lemma ok_parts sg ip fp ex (OK : float_text_ok sg ip fp ex = true) :
    sign_ok sg = true /\ all_digits ip = true /\ all_digits (frac_digits fp) = true /\
    (length ip + length (frac_digits fp) <> 0)%nat /\
    match ex with Some (m, es, ed) => exp_mark m = true /\ sign_ok es = true /\ all_digits ed = true /\ ed <> [] | None => True end.
  Proof.
    unfold float_text_ok in OK. apply andb_prop in OK. destruct OK as [O1 O5]. apply andb_prop in O1. destruct O1 as [O1 O4].
    apply andb_prop in O1. destruct O1 as [O1 O3]. apply andb_prop in O1. destruct O1 as [O1 O2].
    split; [exact O1|]. split; [exact O2|]. split; [destruct fp; [exact O3|reflexivity]|]. split.
    - destruct fp; cbn [frac_digits length]; intros E; rewrite E in O4; discriminate O4.
    - destruct ex as [[[m es] ed]|]; [|exact I]. apply andb_prop in O5. destruct O5 as [O5 O9]. apply andb_prop in O5. destruct O5 as [O5 O8].
      apply andb_prop in O5. destruct O5 as [O6 O7]. repeat split; try assumption. intros ->. discriminate O9.
  Qed.

  Lemma exp_head_nondigit sg ip fp ex (OK : float_text_ok sg ip fp ex = true) : head_nondigit (exp_text ex) = true.
  Proof.
    destruct (ok_parts sg ip fp ex OK) as (_ & _ & _ & _ & E). destruct ex as [[[m es] ed]|]; [|reflexivity]. destruct E as (M & _).
    cbn. destruct (mark_facts m M) as (_ & -> & _). reflexivity.
  Qed.
  Lemma rest_head_nondigit sg ip fp ex (OK : float_text_ok sg ip fp ex = true) : head_nondigit (frac_text fp ++ exp_text ex) = true.
  Proof. destruct fp; [reflexivity|]. cbn [frac_text app]. apply (exp_head_nondigit sg ip None ex OK). Qed.

  Lemma body_nonempty sg ip fp ex (OK : float_text_ok sg ip fp ex = true) : body ip fp ex <> [].
  Proof.
    destruct (ok_parts sg ip fp ex OK) as (_ & _ & _ & L & _). unfold body. destruct ip as [|c r]; [|discriminate].
    destruct fp as [f|]; [discriminate|]. cbn in L. congruence.
  Qed.
  Lemma body_nonsp sg ip fp ex (OK : float_text_ok sg ip fp ex = true) : nonsp (body ip fp ex) = true.
  Proof.
    destruct (ok_parts sg ip fp ex OK) as (_ & I & F & _ & E). unfold body. rewrite !nonsp_app. rewrite (digits_nonsp _ I). cbn [andb].
    apply andb_true_intro. split.
    - destruct fp as [f|]; [|reflexivity]. cbn [frac_text frac_digits] in *. unfold nonsp. cbn [forallb]. fold (nonsp f).
      rewrite (digits_nonsp _ F). reflexivity.
    - destruct ex as [[[m es] ed]|]; [|reflexivity]. destruct E as (M & S & D & _). cbn [exp_text]. unfold nonsp. cbn [forallb].
      destruct (mark_facts m M) as (-> & _). cbn [negb andb]. fold (nonsp (es ++ ed)). rewrite nonsp_app, (sign_nonsp _ S), (digits_nonsp _ D).
      reflexivity.
  Qed.
  (* the first character of the body is a digit or the point *)
  Lemma body_head sg ip fp ex (OK : float_text_ok sg ip fp ex = true) : exists c r, body ip fp ex = c :: r /\ (is_digit c = true \/ c = "."%byte).
  Proof.
    destruct (ok_parts sg ip fp ex OK) as (_ & I & _ & L & _). unfold body. destruct ip as [|c r].
    - destruct fp as [f|]; [|cbn in L; congruence]. cbn. eauto.
    - cbn [all_digits forallb] in I. apply andb_prop in I. destruct I as [I _]. cbn. eauto.
  Qed.

  Lemma float_parse_core sg ip fp ex (OK : float_text_ok sg ip fp ex = true) a b : all_space_num a = true -> all_space_num b = true ->
    py_float (a ++ float_text sg ip fp ex ++ b) = Some (float_text_val sg ip fp ex).
  Proof.
    intros A B. destruct (ok_parts sg ip fp ex OK) as (S & I & F & L & E).
    unfold py_float. rewrite float_text_split. fold (body ip fp ex).
    rewrite strip_num_pad; [|exact A|exact B|rewrite nonsp_app, (sign_nonsp _ S), (body_nonsp sg ip fp ex OK); reflexivity|].
    all: try (intros X; apply app_eq_nil in X; destruct X as [_ X]; exact (body_nonempty sg ip fp ex OK X)).
    destruct (body_head sg ip fp ex OK) as (c & r & BH & HC).
    assert (NS : head_nosign (body ip fp ex) = true).
    { rewrite BH. cbn. destruct HC as [HC| ->]; [|reflexivity]. destruct (digit_facts c HC) as (_ & -> & -> & _). reflexivity. }
    rewrite (split_sign_text sg (body ip fp ex) S NS).
    assert (W : (byte_eqb (lower1 c) "i"%byte = false) /\ (byte_eqb (lower1 c) "n"%byte = false)).
    { destruct HC as [HC| ->]; [|split; reflexivity]. destruct (digit_facts c HC) as (_ & _ & _ & _ & _ & X & Y). split; assumption. }
    destruct W as [W1 W2]. rewrite BH. destruct (not_word c r W1 W2) as [N1 N2]. rewrite N1, N2. rewrite <- BH.
    unfold body. rewrite (span_digits_app ip _ 0 0 I (rest_head_nondigit sg ip fp ex OK)).
    unfold float_text_val. cbv zeta. fold (frac_digits fp).
    rewrite (digits_val_dval (ip ++ frac_digits fp)) by (unfold all_digits in *; rewrite forallb_app, I, F; reflexivity).
    rewrite (dval_app ip (frac_digits fp) 0 I).
    pose proof (exp_head_nondigit sg ip fp ex OK) as EH.
    destruct fp as [f|]; cbn [frac_text frac_digits app length] in *.
    - (* with a fraction *)
      cbv beta iota. rewrite (span_digits_app f _ _ 0 F EH). cbv beta iota.
      match goal with |- context [?x =? 0] => replace (x =? 0) with false by (symmetry; apply Z.eqb_neq; lia) end.
      destruct ex as [[[m es] ed]|]; cbn [exp_text].
      + destruct E as (M & SE & D & NE). unfold exp_mark in M. rewrite M.
        assert (NS2 : head_nosign ed = true).
        { destruct ed as [|x q]; [reflexivity|]. cbn [all_digits forallb] in D. apply andb_prop in D. destruct D as [D _].
          cbn. destruct (digit_facts x D) as (_ & -> & -> & _). reflexivity. }
        rewrite (split_sign_text es ed SE NS2). cbv beta iota. rewrite (span_digits_all ed 0 0 D). cbv beta iota.
        match goal with |- context [?x =? 0] => replace (x =? 0) with false
          by (symmetry; apply Z.eqb_neq; destruct ed; [congruence|cbn [length]; lia]) end.
        rewrite (digits_val_dval ed D). match goal with |- Some (FNum _ _ ?a) = Some (FNum _ _ ?b) => replace a with b by lia; reflexivity end.
      + match goal with |- Some (FNum _ _ ?a) = Some (FNum _ _ ?b) => replace a with b by lia; reflexivity end.
    - (* without a fraction *)
      destruct ex as [[[m es] ed]|]; cbn [exp_text] in *.
      + destruct E as (M & SE & D & NE).
        assert (MC : m = "e"%byte \/ m = "E"%byte) by (clear -M; destruct m; cbn in M; try discriminate M; auto).
        assert (NS2 : head_nosign ed = true).
        { destruct ed as [|x q]; [reflexivity|]. cbn [all_digits forallb] in D. apply andb_prop in D. destruct D as [D _].
          cbn. destruct (digit_facts x D) as (_ & -> & -> & _). reflexivity. }
        destruct MC as [-> | ->]; cbv beta iota;
          (match goal with |- context [?x =? 0] => replace (x =? 0) with false by (symmetry; apply Z.eqb_neq; lia) end);
          (match goal with |- context [byte_eqb ?a ?b || byte_eqb ?c ?d] =>
             replace (byte_eqb a b || byte_eqb c d) with true by reflexivity end);
          rewrite (split_sign_text es ed SE NS2); cbv beta iota; rewrite (span_digits_all ed 0 0 D); cbv beta iota;
          (match goal with |- context [?x =? 0] => replace (x =? 0) with false
             by (symmetry; apply Z.eqb_neq; destruct ed; [congruence|cbn [length]; lia]) end);
          rewrite (digits_val_dval ed D); cbn [dval]; match goal with |- Some (FNum _ _ ?a) = Some (FNum _ _ ?b) => replace a with b by lia; reflexivity end.
      + cbv beta iota.
        match goal with |- context [?x =? 0] => replace (x =? 0) with false by (symmetry; apply Z.eqb_neq; lia) end.
        cbn [dval]. match goal with |- Some (FNum _ _ ?a) = Some (FNum _ _ ?b) => replace a with b by lia; reflexivity end.
  Qed.

Lemma float_parse sg ip fp ex a b : float_text_ok sg ip fp ex = true -> all_space_num a = true -> all_space_num b = true ->
  py_float (a ++ float_text sg ip fp ex ++ b) = Some (float_text_val sg ip fp ex).
Proof. intros OK. apply (float_parse_core sg ip fp ex OK). Qed.

(* the words, in any letter case, with a sign and blanks *)
Definition is_word (w : str) : option bool :=   (* Some true = infinity, Some false = nan *)
  if str_eqb (map lower1 w) (bs "inf"%bs) || str_eqb (map lower1 w) (bs "infinity"%bs) then Some true
  else if str_eqb (map lower1 w) (bs "nan"%bs) then Some false else None.
Lemma word_head w k : is_word w = Some k -> w <> [] /\ nonsp w = true /\ head_nosign w = true.
Proof.
  unfold is_word. intros H.
  assert (L : map lower1 w = bs "inf"%bs \/ map lower1 w = bs "infinity"%bs \/ map lower1 w = bs "nan"%bs).
  { destruct (str_eqb (map lower1 w) (bs "inf"%bs)) eqn:E1; [left; apply str_eqb_eq; exact E1|].
    destruct (str_eqb (map lower1 w) (bs "infinity"%bs)) eqn:E2; [right; left; apply str_eqb_eq; exact E2|].
    destruct (str_eqb (map lower1 w) (bs "nan"%bs)) eqn:E3; [right; right; apply str_eqb_eq; exact E3|]. cbn in H. discriminate H. }
  assert (G : forall c, In c w -> is_space_num c = false /\ byte_eqb c "-"%byte = false /\ byte_eqb c "+"%byte = false).
  { intros c I. assert (IL : In (lower1 c) (map lower1 w)) by (apply in_map; exact I).
    assert (X : In (lower1 c) (bs "infinity"%bs) \/ In (lower1 c) (bs "nan"%bs)).
    { destruct L as [L|[L|L]]; rewrite L in IL; [left|left|right]; try exact IL. cbn in IL |- *. tauto. }
    clear -X. destruct c; cbn in X; repeat split; try reflexivity; exfalso; intuition discriminate. }
  split; [|split].
  - intros ->. destruct L as [L|[L|L]]; discriminate L.
  - unfold nonsp. apply forallb_forall. intros c I. destruct (G c I) as (-> & _). reflexivity.
  - destruct w as [|c r]; [reflexivity|]. cbn. destruct (G c (or_introl eq_refl)) as (_ & -> & ->). reflexivity.
Qed.
Lemma float_words sg w k a b : sign_ok sg = true -> is_word w = Some k -> all_space_num a = true -> all_space_num b = true ->
  py_float (a ++ (sg ++ w) ++ b) = Some (if k then FInf (sign_neg sg) else FNan).
Proof.
  intros S W A B. destruct (word_head w k W) as (NE & NS & HS).
  unfold py_float. rewrite strip_num_pad; [|exact A|exact B|rewrite nonsp_app, (sign_nonsp _ S), NS; reflexivity|].
  all: try (intros X; apply app_eq_nil in X; destruct X as [_ X]; exact (NE X)).
  rewrite (split_sign_text sg w S HS). unfold is_word in W.
  destruct (str_eqb (map lower1 w) (bs "inf"%bs) || str_eqb (map lower1 w) (bs "infinity"%bs)).
  - inversion W. reflexivity.
  - destruct (str_eqb (map lower1 w) (bs "nan"%bs)); [inversion W; reflexivity|discriminate W].
Qed.

(* non-vacuity: 5.331E-82 and " -.5e+3 " are texts of the grammar; their values *)
Lemma witness_float :
  float_text [] (bs "5"%bs) (Some (bs "331"%bs)) (Some ("E"%byte, bs "-"%bs, bs "82"%bs)) = bs "5.331E-82"%bs /\
  float_text_ok [] (bs "5"%bs) (Some (bs "331"%bs)) (Some ("E"%byte, bs "-"%bs, bs "82"%bs)) = true /\
  float_text_val [] (bs "5"%bs) (Some (bs "331"%bs)) (Some ("E"%byte, bs "-"%bs, bs "82"%bs)) = FNum false 5331 (-85) /\
  float_text_ok (bs "-"%bs) [] (Some (bs "5"%bs)) (Some ("e"%byte, bs "+"%bs, bs "3"%bs)) = true /\
  py_float (bs " -.5e+3 "%bs) = Some (FNum true 5 2) /\ py_float (bs "1e"%bs) = None /\ py_float (bs "."%bs) = None /\
  is_word (bs "InFiNiTy"%bs) = Some true /\ py_float (bs "-NaN"%bs) = Some FNan /\ py_float (unhex (bs "371f"%bs)) = None.
Proof. repeat split; vm_compute; reflexivity. Qed.
