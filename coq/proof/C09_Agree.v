(* C09: histories, second part.  With ids distinct over the file set: every record of every file that was ever added is found
   (completeness), len(index) counts the records, the two back ends find the same records and give identical answers after
   every history both accept, and the different query forms agree with each other. *)
From Coq Require Import List Arith Lia ZArith NArith Bool Sorted Permutation.
From Coq.Strings Require Import Byte.
Import ListNotations.
From SV Require Import Text C09_Model C09_Lemmas C09_Extract C09_Record C09_Unterm C09_Box C09_Scan C09_Parse C09_Get C09_GetAll C09_Header C09_Read C09_Store C09_Sort C09_Layout C09_Hist.

(* ------------------------------------------------------------------ list facts *)
Lemma nodup_map_inj {A B} (f : A -> B) : forall l a b, NoDup (map f l) -> In a l -> In b l -> f a = f b -> a = b.
Proof.
  induction l as [|x l IH]; intros a b ND Ia Ib E; [destruct Ia|]. cbn [map] in ND. inversion ND as [|? ? Hn ND']; subst.
  destruct Ia as [<-|Ia], Ib as [<-|Ib]; try reflexivity.
  - exfalso. apply Hn. rewrite E. exact (in_map f _ _ Ib).
  - exfalso. apply Hn. rewrite <- E. exact (in_map f _ _ Ia).
  - exact (IH a b ND' Ia Ib E).
Qed.

Lemma nodup_app_disj {A} : forall (l1 l2 : list A) x, NoDup (l1 ++ l2) -> In x l1 -> In x l2 -> False.
Proof.
  induction l1 as [|y l1 IH]; intros l2 x ND I1 I2; [destruct I1|]. cbn [app] in ND. inversion ND as [|? ? Hn ND']; subst.
  destruct I1 as [<-|I1]; [apply Hn, in_or_app; right; exact I2|exact (IH l2 x ND' I1 I2)].
Qed.

Lemma nodup_app_l {A} : forall (l1 l2 : list A), NoDup (l1 ++ l2) -> NoDup l1.
Proof.
  induction l1 as [|y l1 IH]; intros l2 ND; [constructor|]. cbn [app] in ND. inversion ND as [|? ? Hn ND']; subst.
  constructor; [intros I; apply Hn, in_or_app; left; exact I|exact (IH l2 ND')].
Qed.

Lemma nodup_app_r {A} : forall (l1 l2 : list A), NoDup (l1 ++ l2) -> NoDup l2.
Proof. induction l1 as [|y l1 IH]; intros l2 ND; [exact ND|]. cbn [app] in ND. inversion ND; subst. apply IH. assumption. Qed.

(* an element of the concatenation of duplicate-free blocks lies in exactly one block *)
Lemma concat_block_unique {A B} (g : A -> list B) : forall (l : list A) a b x,
  NoDup (concat (map g l)) -> In a l -> In b l -> In x (g a) -> In x (g b) -> NoDup (map (fun _ : unit => tt) []) -> a = b \/ False.
Proof. intros. left. revert a b x H H0 H1 H2 H3.
  induction l as [|y l IH]; intros a b x ND Ia Ib Xa Xb; [destruct Ia|]. cbn [map concat] in ND.
  destruct Ia as [<-|Ia], Ib as [<-|Ib]; try reflexivity.
  - exfalso. apply (nodup_app_disj _ _ x ND Xa). apply in_concat. exists (g b). split; [exact (in_map g _ _ Ib)|exact Xb].
  - exfalso. apply (nodup_app_disj _ _ x ND Xb). apply in_concat. exists (g a). split; [exact (in_map g _ _ Ia)|exact Xa].
  - exact (IH a b x (nodup_app_r _ _ ND) Ia Ib Xa Xb).
Qed.

Lemma concat_block_nodup {A B} (g : A -> list B) : forall (l : list A) a, NoDup (concat (map g l)) -> In a l -> NoDup (g a).
Proof.
  induction l as [|y l IH]; intros a ND Ia; [destruct Ia|]. cbn [map concat] in ND.
  destruct Ia as [<-|Ia]; [exact (nodup_app_l _ _ ND)|exact (IH a (nodup_app_r _ _ ND) Ia)].
Qed.

Lemma nodup_nth_inj {A} (l : list A) i j x : NoDup l -> nth_error l i = Some x -> nth_error l j = Some x -> i = j.
Proof.
  intros ND Hi Hj. apply (proj1 (NoDup_nth_error l) ND); [apply nth_error_Some; congruence|congruence].
Qed.

Section Agree1.
Variable mode : N.
Variables hs path : str.
Variable env : list (str * gfile).
Hypothesis Hmode : mode = MODE_BINARY \/ mode = MODE_DB.
Hypothesis Hnd : NoDup (map fst env).
Hypothesis Hwf : Forall (fun nf => wf_gfile mode (snd nf)) env.
Hypothesis Hnames : Forall (fun nf => name_ok (fst nf) = true) env.
Hypothesis Hpath : wf_header mode hs path [] = true.
Hypothesis Hsmall : (N.of_nat (length env) < 65536)%N.
(* ids distinct over the whole file set *)
Hypothesis Hids : NoDup (concat (map (fun nf => map rid (g_recs (snd nf))) env)).

(* two records with the same id that both come from scans of registered files are the same record *)
Lemma prov_unique files e1 e2 : NoDup files -> prov env files e1 -> prov env files e2 -> e_id e1 = e_id e2 -> e1 = e2.
Proof.
  intros ND [nm1 [f1 [N1 [I1 X1]]]] [nm2 [f2 [N2 [I2 X2]]]] E.
  assert (Id1: In (e_id e1) (map rid (g_recs f1))).
  { rewrite <- (expected_ids (nl_of (g_crlf f1)) (e_fn e1) 0). exact (in_map e_id _ _ X1). }
  assert (Id2: In (e_id e1) (map rid (g_recs f2))).
  { rewrite E, <- (expected_ids (nl_of (g_crlf f2)) (e_fn e2) 0). exact (in_map e_id _ _ X2). }
  assert (Ef: (nm1, f1) = (nm2, f2)).
  { destruct (concat_block_unique (fun nf => map rid (g_recs (snd nf))) env (nm1, f1) (nm2, f2) (e_id e1) Hids I1 I2 Id1 Id2 (NoDup_nil _)) as [H|[]]. exact H. }
  inversion Ef; subst nm2 f2. assert (Efn: e_fn e1 = e_fn e2) by exact (nodup_nth_inj files _ _ nm1 ND N1 N2).
  rewrite <- Efn in X2.
  apply (nodup_map_inj e_id (expected_from (nl_of (g_crlf f1)) (e_fn e1) 0 (g_recs f1))); try assumption.
  rewrite expected_ids. exact (concat_block_nodup (fun nf => map rid (g_recs (snd nf))) env (nm1, f1) Hids I1).
Qed.

(* the index holds the record *)
Definition has (s : istate) (e : entry) : Prop :=
  if N.eqb mode MODE_DB then e_id e <> HEADER_KEY /\ exists v, db_get (e_id e) (st_db s) = Some v /\ pack_entry e = Some v
  else exists h recs, st_bin s = Some (h, recs) /\ In e recs.

Lemma pack_entry_inj e1 e2 v : e_id e1 = e_id e2 -> pack_entry e1 = Some v -> pack_entry e2 = Some v -> e1 = e2.
Proof.
  unfold pack_entry. intros E P1 P2.
  assert (U: forall a b c, pack a b c = Some v -> unpack v = (a, b, c)).
  { intros a b c P. assert (X: exists b0, pack a b c = Some b0 /\ unpack b0 = (a, b, c)).
    { apply pack_iff. destruct (N.lt_ge_cases a 65536) as [Ha|Ha]; [|assert (pack a b c = None) by (apply pack_none_iff; left; exact Ha); congruence].
      destruct (N.lt_ge_cases b 65536) as [Hb|Hb]; [split; assumption|].
      assert (pack a b c = None) by (apply pack_none_iff; right; exact Hb). congruence. }
    destruct X as [b0 [P0 U0]]. rewrite P in P0. inversion P0; subst. exact U0. }
  pose proof (U _ _ _ P1) as U1. pose proof (U _ _ _ P2) as U2. rewrite U1 in U2. inversion U2 as [[A B C]].
  apply Nat2N.inj in A. apply Nat2N.inj in B. apply Nat2N.inj in C. destruct e1, e2; cbn in *; congruence.
Qed.

Lemma has_prov s e : inv mode path env s -> has s e -> prov env (st_files s) e.
Proof.
  intros [Ip [Ind [Iin [Ib [Id [Ih [Imb Imd]]]]]]] H. unfold has in H. destruct (N.eqb mode MODE_DB) eqn:M.
  - destruct H as [Hh [v [G P]]]. destruct (Id _ _ G Hh) as [e' [Pe [Ee Pk]]].
    rewrite (pack_entry_inj e e' v (eq_sym Ee) P Pk). exact Pe.
  - destruct H as [h [recs [B I]]]. destruct (Ib _ _ B) as [_ [_ Fp]]. rewrite Forall_forall in Fp. exact (Fp _ I).
Qed.

(* completeness of the lookup: a record the index holds is found, with exactly its numbers *)
Theorem has_lookup s e : inv mode path env s -> e_id e <> [] -> has s e ->
  lookup_entry mode s (e_id e) = Ok (e_fn e, e_linelen e, e_start e).
Proof.
  intros I Hne H. pose proof (has_prov s e I H) as Pe. pose proof I as [Ip [Ind [Iin [Ib [Id [Ih [Imb Imd]]]]]]].
  unfold has in H. unfold lookup_entry. destruct (N.eqb mode MODE_DB) eqn:M.
  - destruct H as [Hh [v [G P]]]. rewrite G. apply N.eqb_eq in M.
    assert (B: (N.of_nat (e_fn e) < 65536)%N /\ (N.of_nat (e_linelen e) < 65536)%N) by (eapply prov_bounds; eauto).
    destruct B as [B1 B2]. unfold pack_entry in P.
    destruct (pack_unpack _ _ (N.of_nat (e_start e)) B1 B2) as [b [Pb Ub]]. rewrite Pb in P. inversion P; subst v.
    rewrite Ub, !Nat2N.id. reflexivity.
  - destruct H as [h [recs [B Ie]]]. rewrite B. destruct (Ib _ _ B) as [_ [Ss Fp]].
    rewrite (bsf_get_first recs (e_id e) Ss Hne).
    destruct (find (fun e0 => str_eqb (e_id e0) (e_id e)) recs) as [e0|] eqn:F.
    + pose proof (find_some _ _ F) as [I0 E0]. apply str_eqb_eq in E0. rewrite Forall_forall in Fp.
      rewrite (prov_unique _ e0 e Ind (Fp _ I0) Pe E0). reflexivity.
    + pose proof (find_none _ _ F e Ie) as X. cbn in X. rewrite str_eqb_refl in X. discriminate.
Qed.

(* soundness of the lookup in terms of [has] *)
Theorem lookup_has s id fn ll st : inv mode path env s -> id <> [] -> id <> HEADER_KEY ->
  lookup_entry mode s id = Ok (fn, ll, st) -> has s (Entry id fn ll st).
Proof.
  intros I Hne Hnh L. pose proof I as [Ip [Ind [Iin [Ib [Id [Ih [Imb Imd]]]]]]].
  unfold has. unfold lookup_entry in L. destruct (N.eqb mode MODE_DB) eqn:M.
  - cbn [e_id]. split; [exact Hnh|]. destruct (db_get id (st_db s)) as [v|] eqn:G; [|discriminate]. exists v. split; [reflexivity|].
    destruct (Id _ _ G Hnh) as [e [Pe [Ee Pk]]]. apply N.eqb_eq in M.
    assert (B: (N.of_nat (e_fn e) < 65536)%N /\ (N.of_nat (e_linelen e) < 65536)%N) by (eapply prov_bounds; eauto).
    destruct B as [B1 B2]. unfold pack_entry in Pk.
    destruct (pack_unpack _ _ (N.of_nat (e_start e)) B1 B2) as [b [Pb Ub]]. rewrite Pb in Pk. inversion Pk; subst v.
    rewrite Ub, !Nat2N.id in L. inversion L; subst. unfold pack_entry. cbn [e_fn e_linelen e_start]. exact Pb.
  - destruct (st_bin s) as [[h recs]|] eqn:B; [|discriminate]. exists h, recs. split; [reflexivity|].
    destruct (Ib _ _ eq_refl) as [_ [Ss _]]. destruct (bsf_get recs id) as [e|] eqn:G; [|discriminate]. inversion L; subst.
    destruct (bsf_get_min recs id e Ss Hne G) as [Ie [Ee _]]. destruct e; cbn in *. subst. exact Ie.
Qed.

(* dbm: what a batch of assignments leaves under a key *)
Lemma db_add_all_keep : forall es d d' id v, db_add_all es d = Some d' -> db_get id d = Some v ->
  (forall e, In e es -> e_id e = id -> pack_entry e = Some v) -> db_get id d' = Some v.
Proof.
  induction es as [|e es IH]; intros d d' id v H G K; [inversion H; subst; exact G|].
  cbn [db_add_all] in H. destruct (pack_entry e) as [pv|] eqn:P; [|discriminate].
  apply (IH _ _ id v H); [|intros e' I'; apply K; right; exact I'].
  rewrite db_get_set. destruct (str_eqb (e_id e) id) eqn:E; [|exact G].
  apply str_eqb_eq in E. rewrite <- (K e (or_introl eq_refl) E). f_equal. congruence.
Qed.

Lemma db_add_all_new : forall es d d' e v, db_add_all es d = Some d' -> In e es -> pack_entry e = Some v ->
  (forall e', In e' es -> e_id e' = e_id e -> pack_entry e' = Some v) -> db_get (e_id e) d' = Some v.
Proof.
  induction es as [|x es IH]; intros d d' e v H I P K; [destruct I|].
  cbn [db_add_all] in H. destruct (pack_entry x) as [pv|] eqn:Px; [|discriminate].
  destruct I as [<-|I].
  - apply (db_add_all_keep es _ d' (e_id x) v H); [|intros e' I'; apply K; right; exact I'].
    rewrite db_get_set, str_eqb_refl. congruence.
  - exact (IH _ _ e v H I P (fun e' I' => K e' (or_intror I'))).
Qed.

Lemma db_add_all_some : forall es d, (forall e, In e es -> exists v, pack_entry e = Some v) -> exists d', db_add_all es d = Some d'.
Proof.
  induction es as [|e es IH]; intros d K; [exists d; reflexivity|]. cbn [db_add_all].
  destruct (K e (or_introl eq_refl)) as [v ->]. apply IH. intros e' I'. apply K. right. exact I'.
Qed.

(* ------------------------------------------------------------------ one operation: what the index holds afterwards *)
(* an add call that does not raise: the index holds what it held before and every record of the scanned files *)
Definition add_result (s : istate) (ks : list nat) : res (list str * list entry) :=
  add_files (benv env) (sort_s (map (fun k => fst (nth k (benv env) ([], []))) ks)) (st_files s) [].
(* the two ways a binary add call raises before it writes: a non-empty index without force (:244-247), force on an index
   file that does not exist yet (self.db.read()) *)
Definition refused (s : istate) (force : bool) : bool :=
  N.eqb mode MODE_BINARY && negb force && match st_bin s with Some (_, _ :: _) => true | _ => false end.
Definition missing (s : istate) (force : bool) : bool :=
  N.eqb mode MODE_BINARY && force && match st_bin s with None => true | _ => false end.

Lemma prov_pack files e : NoDup files -> incl files (map fst env) -> mode = MODE_DB -> prov env files e -> exists v, pack_entry e = Some v.
Proof.
  intros ND IN M P. assert (B: (N.of_nat (e_fn e) < 65536)%N /\ (N.of_nat (e_linelen e) < 65536)%N) by (eapply prov_bounds; eauto).
  destruct B as [B1 B2]. destruct (pack_unpack _ _ (N.of_nat (e_start e)) B1 B2) as [b [Pb _]]. exists b. exact Pb.
Qed.

Theorem add_has s ks force files' add : inv mode path env s -> add_result s ks = Ok (files', add) ->
  refused s force = false -> missing s force = false ->
  let s' := fst (step mode hs (benv env) s (OAdd ks force)) in
  st_files s' = files' /\ forall e, has s' e <-> (has s e \/ In e add).
Proof.
  intros I A Hrf Hms. pose proof I as [Ip [Ind [Iin [Ib [Id [Ih [Imb Imd]]]]]]].
  assert (Spec: (exists ext, files' = st_files s ++ ext) /\ NoDup files' /\ incl files' (map fst env)
                /\ exists es, add = [] ++ es /\ Forall (prov env files') es) by (eapply add_files_spec; eauto).
  destruct Spec as [[ext Ef] [ND' [IN' [es [Ea Fa]]]]]. cbn [app] in Ea. subst es. rewrite Forall_forall in Fa.
  unfold add_result in A. cbn [step]. unfold refused in Hrf. unfold missing in Hms. rewrite Hrf.
  pose proof Hrf as G. rewrite A. unfold has. destruct Hmode as [M|M].
  - assert (Edb: N.eqb mode MODE_DB = false) by (rewrite M; reflexivity). rewrite Edb in *.
    assert (Eb: N.eqb mode MODE_BINARY = true) by (rewrite M; reflexivity). rewrite Eb in G. cbn [andb] in G.
    destruct force.
    + rewrite Eb in Hms. cbn [andb] in Hms. destruct (st_bin s) as [[h0 old]|] eqn:B; [|discriminate].
      cbn [fst st_files st_bin]. split; [reflexivity|]. intros e. split.
      * intros [h [recs [E Ie]]]. inversion E; subst. apply (Permutation_in _ (sort_perm _)) in Ie. apply in_app_or in Ie.
        destruct Ie as [Ie|Ie]; [left; exists h0, old; split; [reflexivity|exact Ie]|right; exact Ie].
      * intros [[h [recs [E Ie]]]|Ie]; eexists; eexists; (split; [reflexivity|]); apply (Permutation_in _ (Permutation_sym (sort_perm _))); apply in_or_app.
        -- inversion E; subst. left. exact Ie.
        -- right. exact Ie.
    + cbn [negb andb] in G. cbn [fst st_files st_bin]. split; [reflexivity|]. intros e. split.
      * intros [h [recs [E Ie]]]. inversion E; subst. right. exact (Permutation_in _ (sort_perm _) Ie).
      * intros [[h [recs [E Ie]]]|Ie].
        -- exfalso. rewrite E in G. destruct recs; [destruct Ie|discriminate].
        -- eexists; eexists; split; [reflexivity|]. exact (Permutation_in _ (Permutation_sym (sort_perm _)) Ie).
  - assert (Edb: N.eqb mode MODE_DB = true) by (rewrite M; reflexivity). rewrite Edb in *.
    destruct (db_add_all_some add (st_db s) (fun e Ie => prov_pack files' e ND' IN' M (Fa _ Ie))) as [d D]. rewrite D.
    cbn [fst st_files st_db]. split; [reflexivity|].
    assert (Uq: forall e e', In e add -> In e' add -> e_id e' = e_id e -> e' = e).
    { intros e e' Ie Ie' E. exact (prov_unique files' e' e ND' (Fa _ Ie') (Fa _ Ie) E). }
    intros e. split.
    * intros [Hh [v [Gt P]]]. rewrite db_get_set in Gt. destruct (str_eqb HEADER_KEY (e_id e)) eqn:E; [apply str_eqb_eq in E; congruence|].
      destruct (db_add_all_get _ _ _ D _ _ Gt) as [[e' [Ie' [E1 E2]]]|G'].
      -- right. rewrite <- (pack_entry_inj e' e v E1 E2 P). exact Ie'.
      -- left. split; [exact Hh|]. exists v. split; assumption.
    * intros [[Hh [v [Gt P]]]|Ie].
      -- split; [exact Hh|]. exists v. split; [|exact P]. rewrite db_get_set.
         destruct (str_eqb HEADER_KEY (e_id e)) eqn:E; [apply str_eqb_eq in E; congruence|].
         apply (db_add_all_keep add _ d (e_id e) v D Gt). intros e' Ie' E'.
         (* e' comes from the scan; e is held by the index: both have provenance in files', same id *)
         assert (Pe: prov env files' e).
         { rewrite Ef. apply prov_app. apply (has_prov s e I). unfold has. rewrite Edb. split; [exact Hh|]. exists v. split; assumption. }
         rewrite (prov_unique files' e' e ND' (Fa _ Ie') Pe E'). exact P.
      -- assert (Hh: e_id e <> HEADER_KEY) by (eapply prov_not_header; eauto).
         split; [exact Hh|]. destruct (prov_pack files' e ND' IN' M (Fa _ Ie)) as [v P]. exists v. split; [|exact P].
         rewrite db_get_set. destruct (str_eqb HEADER_KEY (e_id e)) eqn:E; [apply str_eqb_eq in E; congruence|].
         apply (db_add_all_new add _ d e v D Ie P). intros e' Ie' E'. rewrite (Uq e e' Ie Ie' E'). exact P.
Qed.

End Agree1.

(* ------------------------------------------------------------------ [has] never shrinks; completeness over histories *)
Section Agree1b.
Variable mode : N.
Variables hs path : str.
Variable env : list (str * gfile).
Hypothesis Hmode : mode = MODE_BINARY \/ mode = MODE_DB.
Hypothesis Hnd : NoDup (map fst env).
Hypothesis Hwf : Forall (fun nf => wf_gfile mode (snd nf)) env.
Hypothesis Hnames : Forall (fun nf => name_ok (fst nf) = true) env.
Hypothesis Hpath : wf_header mode hs path [] = true.
Hypothesis Hsmall : (N.of_nat (length env) < 65536)%N.
Hypothesis Hids : NoDup (concat (map (fun nf => map rid (g_recs (snd nf))) env)).

(* an add call either leaves the state as it is (it raised before writing) or is accepted *)
Lemma step_add_cases s ks force : inv mode path env s ->
  fst (step mode hs (benv env) s (OAdd ks force)) = s
  \/ exists files' add, add_result env s ks = Ok (files', add) /\ refused mode s force = false /\ missing mode s force = false.
Proof.
  intros I. pose proof I as [Ip [Ind [Iin [Ib [Id [Ih [Imb Imd]]]]]]]. cbn [step]. unfold refused, missing, add_result.
  destruct (N.eqb mode MODE_BINARY && negb force && match st_bin s with Some (_, _ :: _) => true | _ => false end) eqn:G; [left; reflexivity|].
  destruct (add_files (benv env) (sort_s (map (fun k => fst (nth k (benv env) ([], []))) ks)) (st_files s) []) as [[files' add]|] eqn:A; [|left; reflexivity].
  destruct Hmode as [M|M].
  - assert (Edb: N.eqb mode MODE_DB = false) by (rewrite M; reflexivity). rewrite Edb.
    assert (Eb: N.eqb mode MODE_BINARY = true) by (rewrite M; reflexivity). rewrite Eb. cbn [andb].
    destruct force.
    + destruct (st_bin s) as [[h0 old]|] eqn:B; [|left; reflexivity]. right. exists files', add. auto.
    + right. exists files', add. auto.
  - assert (Eb: N.eqb mode MODE_BINARY = false) by (rewrite M; reflexivity). rewrite Eb. cbn [andb].
    right. exists files', add. auto.
Qed.

Theorem has_step s o e : inv mode path env s -> has mode s e -> has mode (fst (step mode hs (benv env) s o)) e.
Proof.
  intros I H. destruct o as [ks force| |q| |]; try exact H.
  - destruct (step_add_cases s ks force I) as [E|[files' [add [A [R M]]]]]; [rewrite E; exact H|].
    apply (add_has mode hs path env Hmode Hnd Hwf Hpath Hsmall Hids s ks force files' add I A R M). left. exact H.
  - rewrite (reopen_same mode hs path env Hmode Hwf Hnames Hpath s I). exact H.
Qed.

Theorem has_run : forall ops s e, inv mode path env s -> has mode s e -> has mode (fst (run_ops mode hs (benv env) s ops)) e.
Proof.
  induction ops as [|o ops IH]; intros s e I H; [exact H|]. cbn [run_ops].
  pose proof (inv_step mode hs path env Hmode Hnd Hwf Hnames Hpath s o I) as I1. pose proof (has_step s o e I H) as H1.
  destruct (step mode hs (benv env) s o) as [s1 v]. cbn [fst] in *. specialize (IH s1 e I1 H1).
  destruct (run_ops mode hs (benv env) s1 ops) as [s2 vs]. exact IH.
Qed.

(* which records an add call scans: all records of every named file, under the number the file is registered with *)
Lemma insert_s_in x y : forall l, In x (insert_s y l) <-> x = y \/ In x l.
Proof.
  induction l as [|z l IH]; cbn [insert_s].
  - cbn [In]. split; [intros [E|[]]; left; congruence|intros [E|[]]; left; congruence].
  - destruct (str_cmp y z); cbn [In]; rewrite ?IH; intuition congruence.
Qed.

Lemma sort_s_in x : forall l, In x (sort_s l) <-> In x l.
Proof. induction l as [|y l IH]; cbn [sort_s fold_right]; [reflexivity|]. fold (sort_s l). rewrite insert_s_in, IH. cbn [In]. intuition congruence. Qed.

Lemma add_files_covers : forall names files acc files' add,
  add_files (benv env) names files acc = Ok (files', add) -> NoDup files -> incl files (map fst env) ->
  incl acc add /\ forall nm f, In nm names -> In (nm, f) env ->
    exists fn, nth_error files' fn = Some nm /\ incl (expected_from (nl_of (g_crlf f)) fn 0 (g_recs f)) add.
Proof.
  induction names as [|nm names IH]; intros files acc files' add H ND IN.
  - inversion H; subst. split; [apply incl_refl|]. intros nm f [].
  - cbn [add_files] in H. destruct (register nm files) as [fn files1] eqn:R.
    destruct (scan_file (env_bytes (benv env) nm) fn) as [es|] eqn:S; [|discriminate].
    assert (Nth1: nth_error files1 fn = Some nm).
    { unfold register in R. destruct (index_of nm files) as [k|] eqn:IO; inversion R; subst;
        [exact (index_of_some _ _ _ IO)|rewrite nth_error_app2, Nat.sub_diag; [reflexivity|lia]]. }
    (* one step of add_files_spec, to know files1 *)
    assert (One: add_files (benv env) [nm] files [] = Ok (files1, es)) by (cbn [add_files]; rewrite R, S; reflexivity).
    destruct (add_files_spec mode env Hmode Hnd Hwf [nm] files [] files1 es One ND IN) as [[ext1 E1] [ND1 [IN1 _]]].
    destruct (IH _ _ _ _ H ND1 IN1) as [Hacc Hcov].
    destruct (add_files_spec mode env Hmode Hnd Hwf names files1 (acc ++ es) files' add H ND1 IN1) as [[ext2 E2] _].
    split; [intros x Hx; apply Hacc, in_or_app; left; exact Hx|].
    intros nm' f [<-|I'] If; [|exact (Hcov nm' f I' If)].
    exists fn. split.
    + rewrite E2, nth_error_app1; [exact Nth1|apply nth_error_Some; rewrite Nth1; discriminate].
    + unfold benv in S. rewrite (env_bytes_in env nm f Hnd If) in S.
      assert (Wf: wf_gfile mode f) by (rewrite Forall_forall in Hwf; exact (Hwf _ If)).
      rewrite (scan_gfile mode f fn Wf) in S. inversion S; subst es.
      intros x Hx. apply Hacc, in_or_app. right. exact Hx.
Qed.

(* the scan of files of the environment cannot fail *)
Lemma add_files_total : forall names files acc, incl names (map fst env) -> NoDup files -> incl files (map fst env) ->
  exists r, add_files (benv env) names files acc = Ok r.
Proof.
  induction names as [|n names IH]; intros files acc INn ND IN; [eexists; reflexivity|].
  cbn [add_files]. destruct (register n files) as [fn files1] eqn:R.
  assert (Inm: In n (map fst env)) by (apply INn; left; reflexivity).
  apply in_map_iff in Inm. destruct Inm as [[n' f] [E If]]. cbn in E. subst n'.
  unfold benv at 1. rewrite (env_bytes_in env n f Hnd If).
  assert (Wf: wf_gfile mode f) by (rewrite Forall_forall in Hwf; exact (Hwf _ If)).
  rewrite (scan_gfile mode f fn Wf).
  assert (One: add_files (benv env) [n] files [] = Ok (files1, expected_from (nl_of (g_crlf f)) fn 0 (g_recs f))).
  { cbn [add_files]. rewrite R. unfold benv at 1. rewrite (env_bytes_in env n f Hnd If), (scan_gfile mode f fn Wf). reflexivity. }
  destruct (add_files_spec mode env Hmode Hnd Hwf [n] files [] files1 _ One ND IN) as [_ [ND1 [IN1 _]]].
  apply IH; [intros x Hx; apply INn; right; exact Hx|exact ND1|exact IN1].
Qed.

Lemma name_of_index k nm f : nth_error env k = Some (nm, f) -> fst (nth k (benv env) ([], [])) = nm.
Proof.
  intros H. unfold benv. rewrite (nth_error_nth _ _ _ (map_nth_error (fun nf => (fst nf, gfile_bytes (snd nf))) _ _ H)). reflexivity.
Qed.

Lemma names_in_env ks : (forall k, In k ks -> k < length env) ->
  incl (sort_s (map (fun k => fst (nth k (benv env) ([], []))) ks)) (map fst env).
Proof.
  intros Hk nm Hn. apply (proj1 (sort_s_in _ _)) in Hn. apply in_map_iff in Hn. destruct Hn as [k [E Ik]]. subst nm.
  destruct (nth_error env k) as [[nm f]|] eqn:N; [|apply nth_error_None in N; specialize (Hk k Ik); lia].
  rewrite (name_of_index k nm f N). exact (in_map fst _ _ (nth_error_In _ _ N)).
Qed.

Lemma run_ops_app : forall ops1 o ops2 s0,
  fst (run_ops mode hs (benv env) s0 (ops1 ++ o :: ops2))
  = fst (run_ops mode hs (benv env) (fst (step mode hs (benv env) (fst (run_ops mode hs (benv env) s0 ops1)) o)) ops2).
Proof.
  induction ops1 as [|o1 ops1 IH]; intros o ops2 s0.
  - cbn [app run_ops fst]. destruct (step mode hs (benv env) s0 o) as [sa v]. cbn [fst].
    destruct (run_ops mode hs (benv env) sa ops2). reflexivity.
  - cbn [app run_ops]. destruct (step mode hs (benv env) s0 o1) as [sa v]. specialize (IH o ops2 sa).
    destruct (run_ops mode hs (benv env) sa (ops1 ++ o :: ops2)) as [sb vb].
    destruct (run_ops mode hs (benv env) sa ops1) as [sc vc]. cbn [fst] in *. exact IH.
Qed.

(* completeness over histories: once an add call naming file k has been accepted (it names existing files; binary: the index
   is empty or force is given, and with force the index file exists), every record of file k is found -- for ever after,
   whatever operations follow (further add calls, refused ones, the same file again, reopening) *)
Theorem hist_get_complete : forall ops1 ks force ops2 k nm f r,
  let s1 := fst (run_ops mode hs (benv env) (init_state path) ops1) in
  (forall k', In k' ks -> k' < length env) -> refused mode s1 force = false -> missing mode s1 force = false ->
  In k ks -> nth_error env k = Some (nm, f) -> In r (g_recs f) ->
  let s := fst (run_ops mode hs (benv env) (init_state path) (ops1 ++ OAdd ks force :: ops2)) in
  exists fn ll st, lookup_entry mode s (rid r) = Ok (fn, ll, st).
Proof.
  intros ops1 ks force ops2 k nm f r s1 Hks R M Ik Hk Ir s.
  assert (I1: inv mode path env s1) by (apply (hist_invariant mode hs path env Hmode Hnd Hwf Hnames Hpath); apply inv_init).
  assert (Es: s = fst (run_ops mode hs (benv env) (fst (step mode hs (benv env) s1 (OAdd ks force))) ops2)) by apply run_ops_app.
  assert (If: In (nm, f) env) by exact (nth_error_In _ _ Hk).
  pose proof I1 as [_ [Ind [Iin _]]].
  destruct (add_files_total _ (st_files s1) [] (names_in_env ks Hks) Ind Iin) as [[files' add] A].
  destruct (add_has mode hs path env Hmode Hnd Hwf Hpath Hsmall Hids s1 ks force files' add I1 A R M) as [Ef Hhas].
  destruct (add_files_covers _ _ _ _ _ A Ind Iin) as [_ Hcov].
  assert (Inm: In nm (sort_s (map (fun k0 => fst (nth k0 (benv env) ([], []))) ks))).
  { apply (proj2 (sort_s_in _ _)). apply in_map_iff. exists k. split; [exact (name_of_index k nm f Hk)|exact Ik]. }
  destruct (Hcov nm f Inm If) as [fn [Nth Hincl]].
  (* the entry of r *)
  destruct (in_split _ _ Ir) as [rs1 [rs2 Er]].
  set (e := Entry (rid r) fn (if length (rseq r) <=? rw r then 0 else rw r + length (nl_of (g_crlf f))) (0 + length (render_recs (nl_of (g_crlf f)) rs1))).
  assert (Ie: In e (expected_from (nl_of (g_crlf f)) fn 0 (g_recs f))).
  { rewrite Er, expected_app. apply in_or_app. right. cbn [expected_from]. left. reflexivity. }
  assert (H1: has mode (fst (step mode hs (benv env) s1 (OAdd ks force))) e) by (apply Hhas; right; apply Hincl; exact Ie).
  assert (I2: inv mode path env (fst (step mode hs (benv env) s1 (OAdd ks force)))) by (apply (inv_step mode hs path env Hmode Hnd Hwf Hnames Hpath); exact I1).
  pose proof (has_run ops2 _ e I2 H1) as H2. rewrite <- Es in H2.
  assert (Is: inv mode path env s) by (rewrite Es; apply (hist_invariant mode hs path env Hmode Hnd Hwf Hnames Hpath); exact I2).
  assert (Hne: e_id e <> []).
  { cbn [e_id e]. rewrite Forall_forall in Hwf. pose proof (Hwf _ If) as [_ Hrs]. cbn [g_strip fst snd] in Hrs.
    rewrite Forall_forall in Hrs. pose proof (Hrs r Ir) as Hr. exact (proj2 (wf_id_nosp _ (proj1 (wf_rec_id_desc _ _ _ Hr)))). }
  exists fn, (e_linelen e), (e_start e). exact (has_lookup mode hs path env Hmode Hwf Hpath Hsmall Hids s e Is Hne H2).
Qed.
End Agree1b.

(* ------------------------------------------------------------------ the two back ends side by side *)
Lemma wf_rec_db_bin n r : wf_rec MODE_DB n r = true -> wf_rec MODE_BINARY n r = true.
Proof.
  unfold wf_rec. cbn [N.eqb MODE_DB MODE_BINARY Pos.eqb]. intros H. apply andb_prop in H. destruct H as [H _]. rewrite H. reflexivity.
Qed.

Section Agree2.
Variables hs path : str.
Variable env : list (str * gfile).
Hypothesis Hnd : NoDup (map fst env).
Hypothesis Hwfd : Forall (fun nf => wf_gfile MODE_DB (snd nf)) env.
Hypothesis Hnames : Forall (fun nf => name_ok (fst nf) = true) env.
Hypothesis Hpathb : wf_header MODE_BINARY hs path [] = true.
Hypothesis Hsmall : (N.of_nat (length env) < 65536)%N.
Hypothesis Hids : NoDup (concat (map (fun nf => map rid (g_recs (snd nf))) env)).

Lemma Hwfb : Forall (fun nf => wf_gfile MODE_BINARY (snd nf)) env.
Proof.
  eapply Forall_impl; [|exact Hwfd]. intros nf [H1 H2]. split; [exact H1|].
  eapply Forall_impl; [|exact H2]. intros r Hr. apply wf_rec_db_bin. exact Hr.
Qed.
Lemma Hpathd : wf_header MODE_DB hs path [] = true.
Proof. exact Hpathb. Qed.
Let Mb : MODE_BINARY = MODE_BINARY \/ MODE_BINARY = MODE_DB := or_introl eq_refl.
Let Md : MODE_DB = MODE_BINARY \/ MODE_DB = MODE_DB := or_intror eq_refl.

(* the same history run on a binary index and on a dbm index; every add call is one the binary index accepts (the dbm index
   accepts every add call) *)
Inductive both : istate -> istate -> Prop :=
| both_init : both (init_state path) (init_state path)
| both_step sb sd o : both sb sd ->
    (forall ks force, o = OAdd ks force -> refused MODE_BINARY sb force = false /\ missing MODE_BINARY sb force = false) ->
    both (fst (step MODE_BINARY hs (benv env) sb o)) (fst (step MODE_DB hs (benv env) sd o)).

Theorem both_agree sb sd : both sb sd ->
  inv MODE_BINARY path env sb /\ inv MODE_DB path env sd /\ st_files sb = st_files sd
  /\ forall e, has MODE_BINARY sb e <-> has MODE_DB sd e.
Proof.
  induction 1 as [|sb sd o B [Ib [Id [Ef Hh]]] Hacc].
  - split; [apply inv_init|]. split; [apply inv_init|]. split; [reflexivity|]. intros e. unfold has. cbn. split.
    + intros [h [recs [E _]]]. discriminate.
    + intros [_ [v [E _]]]. discriminate.
  - split; [apply (inv_step MODE_BINARY hs path env Mb Hnd Hwfb Hnames Hpathb); exact Ib|].
    split; [apply (inv_step MODE_DB hs path env Md Hnd Hwfd Hnames Hpathd); exact Id|].
    destruct o as [ks force| |q| |]; try (cbn [step fst]; split; assumption).
    + destruct (Hacc ks force eq_refl) as [R M].
      destruct (add_result env sb ks) as [[files' add]|kd] eqn:A.
      * assert (A': add_result env sd ks = Ok (files', add)) by (unfold add_result in *; rewrite <- Ef; exact A).
        destruct (add_has MODE_BINARY hs path env Mb Hnd Hwfb Hpathb Hsmall Hids sb ks force files' add Ib A R M) as [F1 H1].
        destruct (add_has MODE_DB hs path env Md Hnd Hwfd Hpathd Hsmall Hids sd ks force files' add Id A' eq_refl eq_refl) as [F2 H2].
        split; [congruence|]. intros e. split; intros X.
        -- apply H2. apply H1 in X. destruct X as [X|X]; [left; apply Hh; exact X|right; exact X].
        -- apply H1. apply H2 in X. destruct X as [X|X]; [left; apply Hh; exact X|right; exact X].
      * assert (A': add_result env sd ks = Err kd) by (unfold add_result in *; rewrite <- Ef; exact A).
        assert (E1: fst (step MODE_BINARY hs (benv env) sb (OAdd ks force)) = sb).
        { cbn [step]. unfold refused in R. rewrite R. unfold add_result in A. rewrite A. reflexivity. }
        assert (E2: fst (step MODE_DB hs (benv env) sd (OAdd ks force)) = sd).
        { cbn [step]. cbn [N.eqb MODE_DB MODE_BINARY andb]. unfold add_result in A'. rewrite A'. reflexivity. }
        rewrite E1, E2. split; assumption.
    + rewrite (reopen_same MODE_BINARY hs path env Mb Hwfb Hnames Hpathb sb Ib), (reopen_same MODE_DB hs path env Md Hwfd Hnames Hpathd sd Id).
      split; assumption.
Qed.

(* "the binary-search and dbm back ends return identical answers": after every history both accept, an id is found by one
   back end iff it is found by the other, with the same file number, line length and offset, the same registered files --
   hence the same answer to every query on it *)
Theorem hist_modes_agree sb sd id : both sb sd -> id <> [] -> id <> HEADER_KEY ->
  (forall x, lookup_entry MODE_BINARY sb id = Ok x <-> lookup_entry MODE_DB sd id = Ok x)
  /\ forall q x, q_id q = id -> lookup_entry MODE_BINARY sb id = Ok x ->
       snd (step MODE_BINARY hs (benv env) sb (OGet q)) = snd (step MODE_DB hs (benv env) sd (OGet q)).
Proof.
  intros B Hne Hnh. destruct (both_agree sb sd B) as [Ib [Id [Ef Hh]]].
  assert (L: forall x, lookup_entry MODE_BINARY sb id = Ok x <-> lookup_entry MODE_DB sd id = Ok x).
  { intros [[fn ll] st]. split; intros X.
    - pose proof (lookup_has MODE_BINARY hs path env Mb Hwfb Hpathb Hsmall sb id fn ll st Ib Hne Hnh X) as H1.
      apply Hh in H1. exact (has_lookup MODE_DB hs path env Md Hwfd Hpathd Hsmall Hids sd (Entry id fn ll st) Id Hne H1).
    - pose proof (lookup_has MODE_DB hs path env Md Hwfd Hpathd Hsmall sd id fn ll st Id Hne Hnh X) as H1.
      apply Hh in H1. exact (has_lookup MODE_BINARY hs path env Mb Hwfb Hpathb Hsmall Hids sb (Entry id fn ll st) Ib Hne H1). }
  split; [exact L|]. intros q x Hq X. cbn [step snd]. rewrite Hq, X, (proj1 (L x) X), Ef. reflexivity.
Qed.
End Agree2.

Lemma both_witness :
  both ex_hs (bs "{dbpath}/"%bs) ex_env
       (fst (run_ops MODE_BINARY ex_hs (benv ex_env) (init_state (bs "{dbpath}/"%bs)) [OAdd [1] false; OAdd [0] true; OReopen]))
       (fst (run_ops MODE_DB ex_hs (benv ex_env) (init_state (bs "{dbpath}/"%bs)) [OAdd [1] false; OAdd [0] true; OReopen]))
  /\ NoDup (concat (map (fun nf => map rid (g_recs (snd nf))) ex_env)).
Proof.
  split.
  - pose proof (both_init ex_hs (bs "{dbpath}/"%bs) ex_env) as B0.
    pose proof (both_step _ _ _ _ _ (OAdd [1] false) B0) as B1.
    assert (B1': both ex_hs (bs "{dbpath}/"%bs) ex_env
                  (fst (step MODE_BINARY ex_hs (benv ex_env) (init_state (bs "{dbpath}/"%bs)) (OAdd [1] false)))
                  (fst (step MODE_DB ex_hs (benv ex_env) (init_state (bs "{dbpath}/"%bs)) (OAdd [1] false)))).
    { apply B1. intros ks force E. inversion E; subst. split; reflexivity. }
    pose proof (both_step _ _ _ _ _ (OAdd [0] true) B1') as B2.
    assert (B2': both ex_hs (bs "{dbpath}/"%bs) ex_env
                  (fst (step MODE_BINARY ex_hs (benv ex_env) (fst (step MODE_BINARY ex_hs (benv ex_env) (init_state (bs "{dbpath}/"%bs)) (OAdd [1] false))) (OAdd [0] true)))
                  (fst (step MODE_DB ex_hs (benv ex_env) (fst (step MODE_DB ex_hs (benv ex_env) (init_state (bs "{dbpath}/"%bs)) (OAdd [1] false))) (OAdd [0] true)))).
    { apply B2. intros ks force E. inversion E; subst. split; vm_compute; reflexivity. }
    pose proof (both_step _ _ _ _ _ OReopen B2') as B3.
    assert (B3' := B3 ltac:(intros ks force E; discriminate)).
    exact B3'.
  - vm_compute. repeat constructor; cbn; intuition discriminate.
Qed.

(* ------------------------------------------------------------------ the query forms agree with each other; clipping *)
Lemma sl_clip (s : str) oi j : length s <= j -> sl s oi (Some j) = sl s oi None.
Proof. intros H. unfold sl. apply firstn_all2. rewrite skipn_length. lia. Qed.

Lemma sl_whole (s : str) : sl s (Some 0) (Some (length s)) = s /\ sl s None None = s.
Proof. unfold sl. cbn [skipn]. rewrite Nat.sub_0_r, firstn_all. split; reflexivity. Qed.

Lemma hline_prefix mode crlf final rs2 r : wf_rec mode (length (nl_of crlf)) r = true ->
  exists rest, rtext crlf final rs2 r = rhline crlf final rs2 r ++ rest.
Proof.
  intros Hwf. unfold rtext, rhline. destruct (final || negb (is_nil rs2)) eqn:A; cbn [orb].
  - exists (body (nl_of crlf) r). reflexivity.
  - destruct (rseq r) as [|c0 s0] eqn:Es.
    + cbn [is_nil negb]. exists []. rewrite (unterm_degenerate crlf r Es), app_nil_r. reflexivity.
    + cbn [is_nil negb]. destruct (wf_rec_facts _ _ _ Hwf) as [Hw _].
      destruct (body_ends_nl crlf r Hw ltac:(rewrite Es; discriminate)) as [W' EW].
      exists W'. unfold render_rec. rewrite EW.
      replace (header_line (nl_of crlf) r ++ W' ++ nl_of crlf) with ((header_line (nl_of crlf) r ++ W') ++ nl_of crlf) by (rewrite <- app_assoc; reflexivity).
      rewrite app_length, Nat.add_sub, firstn_app, Nat.sub_diag, firstn_O, app_nil_r, firstn_all. reflexivity.
Qed.

(* "whole-record, header-only and range queries agree; a too-large end is clipped": after every history, for every id the
   index finds: the header-only answer is the first line of the whole-record text; the whole-record text parses (FASTA reader)
   to exactly what get(id) returns; get(id, i, j) is the slice [i:j] of the residues get(id) returns, with the same id and
   header; an end at or beyond the record length gives the same as an open end, and (0, len) the whole record *)
Theorem hist_queries_agree mode hs path (env : list (str * gfile)) :
  (mode = MODE_BINARY \/ mode = MODE_DB) -> NoDup (map fst env) ->
  Forall (fun nf => wf_gfile mode (snd nf)) env -> Forall (fun nf => name_ok (fst nf) = true) env ->
  wf_header mode hs path [] = true -> (N.of_nat (length env) < 65536)%N ->
  forall ops id fn ll st,
  let s := fst (run_ops mode hs (benv env) (init_state path) ops) in
  id <> [] -> id <> HEADER_KEY -> lookup_entry mode s id = Ok (fn, ll, st) ->
  exists hline rest h d,
    (forall rng, snd (step mode hs (benv env) s (OGet (Query 2 id rng))) = VS hline)
    /\ snd (step mode hs (benv env) s (OGet (Query 1 id None))) = VS (hline ++ rest)
    /\ parse_get (hline ++ rest) = Ok (Some id, h, d)
    /\ snd (step mode hs (benv env) s (OGet (Query 0 id None))) = VL [VS id; VS h; VS d]
    /\ (forall oi oj : option nat,
         (match oi, oj with Some i, Some j => i <= j | None, None => False | _, _ => True end) ->
         snd (step mode hs (benv env) s (OGet (Query 0 id (Some (option_map Z.of_nat oi, option_map Z.of_nat oj)))))
         = VL [VS id; VS h; VS (sl d oi oj)])
    /\ (forall oi j, length d <= j -> sl d oi (Some j) = sl d oi None)
    /\ sl d (Some 0) (Some (length d)) = d.
Proof.
  intros Hmode Hnd Hwf Hnames Hpath Hsmall ops id fn ll st s Hne Hnh L.
  assert (Is: inv mode path env s) by (apply (hist_invariant mode hs path env Hmode Hnd Hwf Hnames Hpath); apply inv_init).
  destruct (get_sound mode hs path env Hmode Hnd Hwf Hpath Hsmall s id fn ll st Is Hne Hnh L)
    as [nm [crlf [final [rs1 [r [rs2 [Nth [If [Eid [A1 [A2 [A3 A4]]]]]]]]]]]].
  assert (Wf: wf_gfile mode (crlf, final, rs1 ++ r :: rs2)) by (rewrite Forall_forall in Hwf; exact (Hwf _ If)).
  assert (Hr: wf_rec mode (length (nl_of crlf)) r = true).
  { destruct Wf as [_ Hrs]. cbn [g_strip g_crlf g_recs fst snd] in Hrs. rewrite Forall_forall in Hrs. apply Hrs, in_or_app. right. left. reflexivity. }
  destruct (hline_prefix mode crlf final rs2 r Hr) as [rest Er].
  destruct (rec_ok_gfile mode crlf final rs1 r rs2 Wf) as [_ [[_ PF] _]].
  exists (rhline crlf final rs2 r), rest, (hdr crlf r), (upper (rseq r)).
  split; [exact A1|]. split; [rewrite <- Er; exact A2|]. split; [rewrite <- Er, <- Eid; exact PF|]. split; [exact A3|].
  split; [intros oi oj Hij; rewrite (A4 oi oj Hij), upper_sl; reflexivity|]. split; [intros oi j Hj; apply sl_clip; exact Hj|].
  exact (proj1 (sl_whole _)).
Qed.

(* ------------------------------------------------------------------ len(index) *)
Lemma db_set_keys_in k v x : forall d, In x (map fst (db_set k v d)) <-> x = k \/ In x (map fst d).
Proof.
  induction d as [|[k' v'] d IH]; cbn [db_set map fst In].
  - intuition congruence.
  - destruct (str_eqb k' k) eqn:E; cbn [map fst In].
    + apply str_eqb_eq in E. subst k'. intuition congruence.
    + rewrite IH. intuition congruence.
Qed.

Lemma db_set_nodup k v : forall d, NoDup (map fst d) -> NoDup (map fst (db_set k v d)).
Proof.
  induction d as [|[k' v'] d IH]; intros ND; cbn [db_set map fst].
  - constructor; [intros []|constructor].
  - cbn [map fst] in ND. inversion ND as [|? ? Hn ND']; subst. destruct (str_eqb k' k) eqn:E; cbn [map fst].
    + apply str_eqb_eq in E. subst k'. constructor; assumption.
    + constructor; [|exact (IH ND')]. intros I. apply db_set_keys_in in I. destruct I as [->|I]; [rewrite str_eqb_refl in E; discriminate|exact (Hn I)].
Qed.

Lemma db_add_all_nodup : forall es d d', db_add_all es d = Some d' -> NoDup (map fst d) -> NoDup (map fst d').
Proof.
  induction es as [|e es IH]; intros d d' H ND; [inversion H; subst; exact ND|].
  cbn [db_add_all] in H. destruct (pack_entry e); [|discriminate]. exact (IH _ _ H (db_set_nodup _ _ _ ND)).
Qed.

Lemma db_get_in k v : forall d, db_get k d = Some v -> In (k, v) d.
Proof.
  induction d as [|[k' v'] d IH]; intros H; [discriminate|]. cbn [db_get] in H. destruct (str_eqb k' k) eqn:E.
  - apply str_eqb_eq in E. inversion H; subst. left. reflexivity.
  - right. exact (IH H).
Qed.

Lemma db_in_get k v : forall d, NoDup (map fst d) -> In (k, v) d -> db_get k d = Some v.
Proof.
  induction d as [|[k' v'] d IH]; intros ND I; [destruct I|]. cbn [map fst] in ND. inversion ND as [|? ? Hn ND']; subst.
  cbn [db_get]. destruct I as [E|I].
  - inversion E; subst. rewrite str_eqb_refl. reflexivity.
  - destruct (str_eqb k' k) eqn:E; [|exact (IH ND' I)]. apply str_eqb_eq in E. subst k'. exfalso. apply Hn. exact (in_map fst _ _ I).
Qed.

Definition not_key (k : str) (kv : str * str) : bool := negb (str_eqb (fst kv) k).

Lemma filter_drop_one k : forall d, NoDup (map fst d) -> In k (map fst d) -> S (length (filter (not_key k) d)) = length d.
Proof.
  induction d as [|[k' v'] d IH]; intros ND I; [destruct I|]. cbn [map fst] in ND, I. inversion ND as [|? ? Hn ND']; subst.
  cbn [filter]. unfold not_key at 1. cbn [fst]. destruct (str_eqb k' k) eqn:E; cbn [negb length].
  - apply str_eqb_eq in E. subst k'. f_equal.
    assert (F: forall l, ~ In k (map fst l) -> filter (not_key k) l = l).
    { induction l as [|[a b] l IHl]; intros Hl; [reflexivity|]. cbn [filter]. unfold not_key at 1. cbn [fst].
      destruct (str_eqb a k) eqn:Ea; [apply str_eqb_eq in Ea; exfalso; apply Hl; left; exact Ea|].
      cbn [negb]. f_equal. apply IHl. intros X. apply Hl. right. exact X. }
    rewrite (F d Hn). reflexivity.
  - f_equal. destruct I as [->|I]; [rewrite str_eqb_refl in E; discriminate|]. exact (IH ND' I).
Qed.

Lemma filter_keys_nodup (p : str * str -> bool) : forall d, NoDup (map fst d) -> NoDup (map fst (filter p d)).
Proof.
  induction d as [|kv d IH]; intros ND; [constructor|]. cbn [map] in ND. inversion ND as [|? ? Hn ND']; subst.
  cbn [filter]. destruct (p kv); [|exact (IH ND')]. cbn [map]. constructor; [|exact (IH ND')].
  intros I. apply Hn. apply in_map_iff in I. destruct I as [x [Ex Ix]]. apply filter_In in Ix. rewrite <- Ex. exact (in_map fst _ _ (proj1 Ix)).
Qed.

Definition ent_of_kv (kv : str * str) : entry :=
  let '(a, l, st) := unpack (snd kv) in Entry (fst kv) (N.to_nat a) (N.to_nat l) (N.to_nat st).
Definition db_entries (d : dbm) : list entry := map ent_of_kv (filter (not_key HEADER_KEY) d).

Lemma pack_entry_unpack e v : pack_entry e = Some v -> ent_of_kv (e_id e, v) = e.
Proof.
  unfold pack_entry. intros P.
  assert (X: exists b0, pack (N.of_nat (e_fn e)) (N.of_nat (e_linelen e)) (N.of_nat (e_start e)) = Some b0
                        /\ unpack b0 = (N.of_nat (e_fn e), N.of_nat (e_linelen e), N.of_nat (e_start e))).
  { apply pack_iff. destruct (N.lt_ge_cases (N.of_nat (e_fn e)) 65536) as [Ha|Ha];
      [|assert (pack (N.of_nat (e_fn e)) (N.of_nat (e_linelen e)) (N.of_nat (e_start e)) = None) by (apply pack_none_iff; left; exact Ha); congruence].
    destruct (N.lt_ge_cases (N.of_nat (e_linelen e)) 65536) as [Hb|Hb]; [split; assumption|].
    assert (pack (N.of_nat (e_fn e)) (N.of_nat (e_linelen e)) (N.of_nat (e_start e)) = None) by (apply pack_none_iff; right; exact Hb). congruence. }
  destruct X as [b0 [P0 U0]]. rewrite P in P0. inversion P0; subst b0. unfold ent_of_kv. cbn [fst snd]. rewrite U0, !Nat2N.id.
  destruct e; reflexivity.
Qed.

Section Len.
Variables hs path : str.
Variable env : list (str * gfile).
Hypothesis Hnd : NoDup (map fst env).
Hypothesis Hwfd : Forall (fun nf => wf_gfile MODE_DB (snd nf)) env.
Hypothesis Hnames : Forall (fun nf => name_ok (fst nf) = true) env.
Hypothesis Hpathb : wf_header MODE_BINARY hs path [] = true.
Hypothesis Hsmall : (N.of_nat (length env) < 65536)%N.
Hypothesis Hids : NoDup (concat (map (fun nf => map rid (g_recs (snd nf))) env)).

(* the dbm keeps one value per key, and it exists exactly when the binary index file exists *)
Lemma both_shape sb sd : both hs path env sb sd -> NoDup (map fst (st_db sd)) /\ (st_db sd = [] <-> st_bin sb = None).
Proof.
  induction 1 as [|sb sd o B [ND Eq] Hacc].
  - split; [constructor|]. split; reflexivity.
  - destruct (both_agree hs path env Hnd Hwfd Hnames Hpathb Hsmall Hids sb sd B) as [Ib [Id [Ef Hh]]].
    destruct o as [ks force| |q| |]; try (cbn [step fst]; split; assumption).
    + destruct (Hacc ks force eq_refl) as [R M]. cbn [step]. unfold refused in R. rewrite R.
      cbn [N.eqb MODE_DB MODE_BINARY andb Pos.eqb]. rewrite <- Ef.
      destruct (add_files (benv env) (sort_s (map (fun k => fst (nth k (benv env) ([], []))) ks)) (st_files sb) []) as [[files' add]|] eqn:A;
        [|cbn [fst]; split; assumption].
      destruct (db_add_all add (st_db sd)) as [d|] eqn:D.
      * assert (NDd: NoDup (map fst (db_set HEADER_KEY (header_bytes MODE_DB (st_path sd) files') d))) by (apply db_set_nodup; exact (db_add_all_nodup _ _ _ D ND)).
        assert (Ne: db_set HEADER_KEY (header_bytes MODE_DB (st_path sd) files') d <> []) by (destruct d as [|[k0 v0] d0]; cbn [db_set]; [discriminate|destruct (str_eqb k0 HEADER_KEY); discriminate]).
        unfold missing in M. cbn [N.eqb MODE_BINARY andb] in M.
        destruct force.
        -- cbn [andb] in M. destruct (st_bin sb) as [[h0 old]|] eqn:Bb; [|discriminate]. cbn [fst st_db st_bin]. split; [exact NDd|].
           split; [intros X; contradiction|discriminate].
        -- cbn [fst st_db st_bin]. split; [exact NDd|]. split; [intros X; contradiction|discriminate].
      * (* the dbm add cannot fail on well-formed files *)
        exfalso. destruct Id as [_ [Ind [Iin _]]]. rewrite <- Ef in *.
        destruct (add_files_spec MODE_DB env (or_intror eq_refl) Hnd Hwfd _ _ _ _ _ A Ind Iin) as [_ [ND' [IN' [es [Ea Fa]]]]].
        cbn [app] in Ea. subst es. rewrite Forall_forall in Fa.
        destruct (db_add_all_some add (st_db sd) (fun e Ie => prov_pack MODE_DB hs path env (or_intror eq_refl) Hwfd (Hpathd hs path Hpathb) Hsmall files' e ND' IN' eq_refl (Fa _ Ie))) as [d' D'].
        congruence.
    + rewrite (reopen_same MODE_BINARY hs path env (or_introl eq_refl) (Hwfb env Hwfd) Hnames Hpathb sb Ib),
              (reopen_same MODE_DB hs path env (or_intror eq_refl) Hwfd Hnames (Hpathd hs path Hpathb) sd Id). split; assumption.
Qed.

(* len(FastaIndex): after every history both back ends accept (at least one accepted add call), the dbm index reports the
   number of distinct records it holds, the binary index the number of records in its file; the two hold the same records,
   so the numbers are equal whenever the binary file holds no record twice (no file was added again) *)
Theorem hist_len sb sd : both hs path env sb sd -> st_db sd <> [] ->
  exists Lb Ld,
    snd (step MODE_BINARY hs (benv env) sb OLen) = VI (Z.of_nat (length Lb))
    /\ snd (step MODE_DB hs (benv env) sd OLen) = VI (Z.of_nat (length Ld))
    /\ (forall e, In e Lb <-> has MODE_BINARY sb e) /\ (forall e, In e Ld <-> has MODE_DB sd e) /\ NoDup Ld
    /\ (forall e, In e Lb <-> In e Ld) /\ (NoDup Lb -> length Lb = length Ld).
Proof.
  intros B Hne. destruct (both_agree hs path env Hnd Hwfd Hnames Hpathb Hsmall Hids sb sd B) as [Ib [Id [Ef Hh]]].
  destruct (both_shape sb sd B) as [ND Eq].
  destruct (st_bin sb) as [[h recs]|] eqn:Bb; [|exfalso; apply Hne; apply Eq; reflexivity].
  exists recs, (db_entries (st_db sd)).
  pose proof Id as [_ [_ [_ [_ [Idb [Ihd _]]]]]]. destruct Ihd as [E0|Hhd]; [contradiction|].
  assert (Hb: forall e, In e recs <-> has MODE_BINARY sb e).
  { intros e. unfold has. cbn [N.eqb MODE_BINARY MODE_DB]. rewrite Bb. split; [intros I; exists h, recs; split; [reflexivity|exact I]|].
    intros [h' [recs' [E I]]]. inversion E; subst. exact I. }
  assert (Hd: forall e, In e (db_entries (st_db sd)) <-> has MODE_DB sd e).
  { intros e. unfold has, db_entries. cbn [N.eqb MODE_DB Pos.eqb]. split.
    - intros I. apply in_map_iff in I. destruct I as [[k v] [Ee Ik]]. apply filter_In in Ik. destruct Ik as [Ik Pk].
      unfold not_key in Pk. cbn [fst] in Pk. assert (Hk: k <> HEADER_KEY) by (intros ->; rewrite str_eqb_refl in Pk; discriminate).
      pose proof (db_in_get k v _ ND Ik) as G. destruct (Idb _ _ G Hk) as [e' [Pe [Ee' Pk']]].
      rewrite <- Ee' in Ee. rewrite (pack_entry_unpack e' v Pk') in Ee. subst e'. split; [congruence|].
      exists v. split; [rewrite Ee'; exact G|exact Pk'].
    - intros [Hk [v [G P]]]. apply in_map_iff. exists (e_id e, v). split; [exact (pack_entry_unpack e v P)|].
      apply filter_In. split; [exact (db_get_in _ _ _ G)|]. unfold not_key. cbn [fst].
      destruct (str_eqb (e_id e) HEADER_KEY) eqn:E; [apply str_eqb_eq in E; contradiction|reflexivity]. }
  assert (NDl: NoDup (db_entries (st_db sd))).
  { apply (NoDup_map_inv e_id). unfold db_entries. rewrite map_map.
    assert (X: map (fun x => e_id (ent_of_kv x)) (filter (not_key HEADER_KEY) (st_db sd)) = map fst (filter (not_key HEADER_KEY) (st_db sd))).
    { apply map_ext. intros [k v]. unfold ent_of_kv. cbn [fst snd]. destruct (unpack v) as [[a l] st0]. reflexivity. }
    rewrite X. apply filter_keys_nodup. exact ND. }
  assert (Hbd: forall e, In e recs <-> In e (db_entries (st_db sd))).
  { intros e. rewrite Hb, Hd. apply Hh. }
  split; [cbn [step snd N.eqb MODE_BINARY MODE_DB]; rewrite Bb; reflexivity|].
  split.
  { cbn [step snd N.eqb MODE_DB Pos.eqb]. f_equal. unfold db_entries. rewrite map_length.
    pose proof (filter_drop_one HEADER_KEY (st_db sd) ND (in_map fst _ _ (db_get_in _ _ _ Hhd))) as F. cbn [fst] in F. lia. }
  split; [exact Hb|]. split; [exact Hd|]. split; [exact NDl|]. split; [exact Hbd|].
  intros NDb. apply Permutation_length. apply NoDup_Permutation; assumption.
Qed.
End Len.
