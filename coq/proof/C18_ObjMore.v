(* C18 proofs, object model: (1) operations documented as not in-place return a NEW object; (2) the write footprint: for every set
   of objects that contains the operands and is closed under references, a program changes no object outside the set. *)
From Coq Require Import List ZArith NArith Bool Lia.
From Coq.Strings Require Import Byte.
Import ListNotations.
From SV Require Import Text G_attr G_codes C18_Model C18_Heap C18_Lemmas C18_HeapLemmas C18_HeapOps C18_Obj C18_ObjLemmas.

(* ---------- (1) the result of a not-in-place operation is an object allocated by that operation ---------- *)
Fixpoint ret_fresh (fr : list nat) (c : cmd) : Prop :=
  match c with
  | Ret v => exists a, v = HRef a /\ In a fr
  | Fail _ => True
  | Read _ k => forall c, ret_fresh fr (k c)
  | Write _ _ k => ret_fresh fr k
  | Alloc _ k => forall a, ret_fresh (a :: fr) (k a)
  | Copy _ k => forall a, ret_fresh (a :: fr) (k a)
  end.
Lemma ret_fresh_sound n0 c : forall fr kn h h' r, ret_fresh fr c -> (forall a, In a fr -> n0 <= a) -> n0 <= length h ->
  interp c kn h = inl (h', r) -> exists a, r = HRef a /\ n0 <= a.
Proof.
  induction c as [v'|e|l k IH|l c k IH|c k IH|l k IH]; intros fr kn h h' r W Fr L E; cbn [interp ret_fresh] in *.
  - destruct (val_known kn v'); [|discriminate]. inversion E; subst. destruct W as [a [-> Ha]]. exists a. auto.
  - discriminate.
  - destruct (memb l kn); [|discriminate]. destruct (nth_error h l) as [c|]; [|discriminate]. eapply IH; eauto.
  - destruct (_ && _); [|discriminate]. apply (IH fr kn (set_nth h l c) h' r W Fr); [rewrite length_set_nth; exact L|exact E].
  - destruct (subsetb _ _); [|discriminate]. apply (IH (length h) (length h :: fr) (length h :: kn) (h ++ [c]) h' r); auto.
    + intros a [<-|Ha]; auto.
    + rewrite app_length. lia.
  - destruct (memb l kn); [|discriminate]. destruct (graph_copy h l) as [[h1 l1]|] eqn:G; [|discriminate].
    apply graph_copy_spec in G. destruct G as [cells [-> [Hl1 _]]]. apply (IH l1 (l1 :: fr) (l1 :: kn) (h ++ cells) h' r); auto.
    + intros a [<-|Ha]; auto. lia.
    + rewrite app_length. lia.
Qed.
Lemma rf_rd fr x k : (forall l c, ret_fresh fr (k l c)) -> ret_fresh fr (rd x k).
Proof. intros H. destruct x; cbn; auto. Qed.
Lemma rf_read_all fr k : (forall cs, ret_fresh fr (k cs)) -> forall vs acc, ret_fresh fr (read_all vs acc k).
Proof. intros H vs. induction vs as [|x r IH]; intros acc; cbn [read_all]; [apply H|]. apply rf_rd. intros l c. apply IH. Qed.
Lemma rf_onav fr k q : (forall v, ret_fresh fr (k v)) -> forall v, ret_fresh fr (onav v q k).
Proof. intros H. induction q as [|e q IH]; intros v; cbn [onav]; [apply H|]. apply rf_rd. intros l c. destruct (cstep c e); cbn; auto. Qed.
Lemma rf_rewrap fr m k : (forall a, ret_fresh (a :: fr) (k (HRef a))) -> ret_fresh fr (rewrap m k).
Proof.
  intros H. unfold rewrap. apply rf_rd. intros l c. destruct (attrcls (ocls c)); cbn; auto.
  apply rf_read_all. intros cs. destruct (existsb _ cs); cbn; auto.
Qed.
Lemma rf_new_seq fr d m : ret_fresh fr (new_seq d m Ret).
Proof.
  unfold new_seq. apply rf_rewrap. intros a. cbn [rd ret_fresh]. intros c. destruct (amem kid (ofs c)); cbn [ret_fresh]; intros x; exists x; split; auto; left; reflexivity.
Qed.
Lemma pure_cmd_rf f l c : f <> PGet -> ret_fresh [] (pure_cmd f l c).
Proof.
  intros NG. destruct f; cbn [pure_cmd]; try contradiction.
  - cbn [ret_fresh]. intros y. exists y. split; auto. left. reflexivity.
  - destruct (ocls c); try exact I.
    + destruct (seq_data c); [|exact I]. destruct (aget kmeta (ofs c)); [|exact I]. apply rf_new_seq.
    + destruct (aget kmeta (ofs c)); [|exact I]. apply rf_rewrap. intros x. cbn [ret_fresh]. intros y. exists y. split; auto. left. reflexivity.
    + cbn [ret_fresh]. intros y. exists y. split; auto. left. reflexivity.
  - destruct (seq_data c); [|exact I]. destruct (aget kmeta (ofs c)); [|exact I]. apply rf_new_seq.
  - destruct (ocls c); try exact I. apply rf_read_all. intros cs. destruct (all_some len_of cs); [|exact I]. cbn [ret_fresh].
    intros m y. exists y. split; auto. left. reflexivity.
  - destruct (ocls c); try exact I. apply rf_read_all. intros scs. destruct (mapM _ scs); [|exact I].
    apply rf_read_all. intros mcs. destruct (mapM _ mcs); [|exact I]. apply rf_read_all. intros fcs.
    destruct (forallb _ fcs); [|exact I]. cbn [ret_fresh]. intros y. exists y. split; auto. left. reflexivity.
Qed.
Theorem pure_returns_new i f j q s s' r : f <> PGet -> ostep (OPure i f j q) s = inl (s', r) ->
  exists a, r = HRef a /\ length (fst s) <= a /\ nth_error (fst s) a = None.
Proof.
  intros NG. unfold ostep. cbn [op_regs op_cmd op_dst map nth]. destruct (interp _ _ _) as [[h' r']|e] eqn:E; [|discriminate].
  intros X. inversion X; subst. clear X.
  apply ret_fresh_sound with (n0 := length (fst s)) (fr := []) in E; auto.
  - destruct E as [a [-> Ha]]. exists a. repeat split; auto. apply nth_error_None. exact Ha.
  - apply rf_onav. intros v. apply rf_rd. intros l c. apply pure_cmd_rf. exact NG.
  - intros a [].
Qed.

(* ---------- (2) write footprint ---------- *)
(* [side] marks a set of addresses; it is closed when every marked cell refers to marked in-bounds cells only *)
Definition closed_true side (h : oheap) : Prop := forall l c, nth_error h l = Some c -> side l = true -> ocell_ok side (length h) true c.

Theorem interp_footprint side c : forall kn h h' r,
  fresh_true side (length h) -> closed_true side h -> known_ok side (length h) kn ->
  interp c kn h = inl (h', r) ->
  closed_true side h' /\ length h <= length h' /\ okv side (length h') true r /\
  (forall l, side l = false -> nth_error h' l = nth_error h l).
Proof.
  induction c as [v|e|l k IH|l c k IH|c k IH|l k IH]; intros kn h h' r F I K E; cbn [interp] in E.
  - destruct (val_known kn v) eqn:V; [|discriminate]. inversion E; subst. repeat split; auto.
    destruct r; cbn; auto. cbn in V. apply memb_In in V. apply K. exact V.
  - discriminate.
  - destruct (memb l kn) eqn:M; [|discriminate]. apply memb_In in M.
    destruct (nth_error h l) as [c|] eqn:N; [|discriminate].
    apply (IH c (ocell_refs c ++ kn) h h' r F I); [|exact E].
    intros x Hx. apply in_app_or in Hx. destruct Hx as [Hx|Hx]; [|apply K; exact Hx].
    destruct (K l M) as [_ Sl]. specialize (I l c N Sl). unfold ocell_ok in I. rewrite Forall_forall in I.
    unfold ocell_refs in Hx. apply In_vrefs in Hx. apply (I _ Hx).
  - destruct (memb l kn && subsetb (ocell_refs c) kn && Nat.ltb l (length h)) eqn:G; [|discriminate].
    apply andb_prop in G. destruct G as [G L]. apply andb_prop in G. destruct G as [M Sb].
    apply memb_In in M. apply Nat.ltb_lt in L. destruct (K l M) as [_ Sl].
    assert (closed_true side (set_nth h l c)) as I'.
    { intros l' c' N' S'. rewrite length_set_nth. destruct (Nat.eq_dec l l') as [<-|NE].
      - rewrite nth_error_set_nth_same in N' by exact L. inversion N'; subst. eapply known_refs; [exact K|]. apply subsetb_In. exact Sb.
      - rewrite nth_error_set_nth_other in N' by exact NE. apply (I l' c' N' S'). }
    specialize (IH kn (set_nth h l c) h' r). rewrite length_set_nth in IH. destruct (IH F I' K E) as [A [B [C D]]].
    repeat split; auto. intros x Hx. rewrite D by exact Hx. apply nth_error_set_nth_other. intros ->. congruence.
  - destruct (subsetb (ocell_refs c) kn) eqn:Sb; [|discriminate].
    assert (length (h ++ [c]) = S (length h)) as Len by (rewrite app_length; cbn; lia).
    assert (closed_true side (h ++ [c])) as I'.
    { intros l' c' N' S'. rewrite Len. destruct (Nat.lt_ge_cases l' (length h)) as [Hl|Hl].
      - rewrite nth_error_app1 in N' by exact Hl. eapply ocell_ok_mono; [|apply (I l' c' N' S')]. lia.
      - rewrite nth_error_app2 in N' by exact Hl. destruct (l' - length h) as [|d]; cbn in N'; [|destruct d; discriminate].
        inversion N'; subst. eapply ocell_ok_mono; [|eapply known_refs; [exact K|apply subsetb_In; exact Sb]]. lia. }
    destruct (IH (length h) (length h :: kn) (h ++ [c]) h' r) as [A [B [C D]]]; auto.
    + rewrite Len. eapply fresh_true_mono; [|exact F]. lia.
    + rewrite Len. intros x [<-|Hx]; [split; [lia|apply F; lia]|]. destruct (K x Hx). split; [lia|assumption].
    + repeat split; auto; [lia|]. intros x Hx. rewrite D by exact Hx. apply app_old.
      destruct (Nat.lt_ge_cases x (length h)) as [Y|Y]; [exact Y|]. rewrite (F x Y) in Hx. discriminate.
  - destruct (memb l kn) eqn:M; [|discriminate]. destruct (graph_copy h l) as [[h1 l1]|] eqn:G; [|discriminate].
    apply graph_copy_spec in G. destruct G as [cells [-> [Hl1 Cs]]].
    assert (length h <= length (h ++ cells)) as Len by (rewrite app_length; lia).
    assert (closed_true side (h ++ cells)) as I'.
    { intros l' c' N' S'. destruct (Nat.lt_ge_cases l' (length h)) as [Hl|Hl].
      - rewrite nth_error_app1 in N' by exact Hl. eapply ocell_ok_mono; [exact Len|apply (I l' c' N' S')].
      - rewrite nth_error_app2 in N' by exact Hl. apply nth_error_In in N'. rewrite Forall_forall in Cs. specialize (Cs c' N').
        unfold ocell_ok. eapply Forall_impl; [|exact Cs]. intros v Hv. destruct v; cbn; auto. split; [lia|apply F; lia]. }
    destruct (IH l1 (l1 :: kn) (h ++ cells) h' r) as [A [B [C D]]]; auto.
    + eapply fresh_true_mono; [exact Len|exact F].
    + intros x [<-|Hx]; [split; [lia|apply F; lia]|]. destruct (K x Hx). split; [lia|assumption].
    + repeat split; auto; [lia|]. intros x Hx. rewrite D by exact Hx. apply app_old.
      destruct (Nat.lt_ge_cases x (length h)) as [Y|Y]; [exact Y|]. rewrite (F x Y) in Hx. discriminate.
Qed.

(* for operations: let S be ANY set of existing objects that contains the objects held by the operand variables and is closed
   under references (for instance: everything reachable from the operands).  Then the operation changes no object outside S. *)
Theorem ostep_footprint (M : nat -> bool) o s s' r :
  (forall l c, nth_error (fst s) l = Some c -> M l = true -> Forall (fun v => match v with HRef a => a < length (fst s) /\ M a = true | _ => True end) (ocell_vals c)) ->
  (forall k a, In k (op_regs o) -> oreg s k = HRef a -> a < length (fst s) /\ M a = true) ->
  ostep o s = inl (s', r) ->
  forall l, l < length (fst s) -> M l = false -> nth_error (fst s') l = nth_error (fst s) l.
Proof.
  intros Cl Ops E l Hl Sl. unfold ostep in E. destruct (interp _ _ _) as [[h' r']|e] eqn:X; [|discriminate]. inversion E; subst. clear E.
  cbn [fst]. set (side := fun x => M x || Nat.leb (length (fst s)) x).
  apply interp_footprint with (side := side) in X.
  - destruct X as (_ & _ & _ & D). apply D. unfold side. rewrite Sl. cbn. apply Nat.leb_gt. exact Hl.
  - intros x Hx. unfold side. apply orb_true_intro. right. apply Nat.leb_le. exact Hx.
  - intros l0 c N S0. assert (l0 < length (fst s)) as L0 by (apply nth_error_Some; unfold oheap in *; rewrite N; discriminate).
    unfold side in S0. replace (Nat.leb (length (fst s)) l0) with false in S0 by (symmetry; apply Nat.leb_gt; exact L0).
    rewrite orb_false_r in S0. specialize (Cl l0 c N S0). unfold ocell_ok. eapply Forall_impl; [|exact Cl].
    intros v Hv. destruct v; cbn; auto. destruct Hv as [A B]. split; [exact A|]. unfold side. rewrite B. reflexivity.
  - intros x Hx. apply In_vrefs in Hx. apply in_map_iff in Hx. destruct Hx as [k [Hk Hin]].
    destruct (Ops k x Hin Hk) as [A B]. split; [exact A|]. unfold side. rewrite B. reflexivity.
Qed.
