(* C12 proofs, part 5: arbitrary regular expressions as start/stop patterns (C13 regex trees) *)
From Coq Require Import List ZArith NArith Bool Lia ZifyBool Sorted.
From Coq.Strings Require Import Byte.
Import ListNotations.
From SV Require Import Text C05_Model C05_Lemmas.
From SV Require C13_Model C13_Rx C13_RxLemmas.
From SV Require Import C12_Model C12_Lemmas C12_Gap C12_Modes C12_GapSet C12_Rx.
Local Open Scope Z_scope.

(* the state-threading loop over given lists: invariants in every mode, for any frame list *)
Theorem orfs_frames_gen_good starts_of stops_of fs_of last_of ns need_stop minlen L :
  (forall f, Forall (start_in L) (starts_of f)) -> (forall f, Forall (stop_in L) (stops_of f)) ->
  (forall f, 0 <= fs_of f) -> (forall f, last_of f <= L) ->
  forall frames st, st_ok L st ->
  exists l, orfs_frames_gen starts_of stops_of fs_of last_of ns need_stop minlen L st frames = ROk l /\
            Forall (orf_inv L minlen frames) l.
Proof.
  intros HB1 HB2 Hfs Hlast.
  induction frames as [|f r IH]; intros st Hst; cbn [orfs_frames_gen]; [exists []; split; [reflexivity|constructor]|].
  set (ls := match lookup_st f st with Some p => p | None => (starts_of f, stops_of f) end).
  assert (Hls : Forall (start_in L) (fst ls) /\ Forall (stop_in L) (snd ls)).
  { unfold ls. destruct (lookup_st f st) as [v|] eqn:E.
    - apply lookup_st_in in E. apply (Hst f v E).
    - cbn [fst snd]. split; [apply HB1|apply HB2]. }
  destruct Hls as [B1 B2].
  pose proof (frame_loop_good (length (fst ls) + length (snd ls) + 1) ns need_stop minlen L f
                (fs_of f) (last_of f) (fst ls) (snd ls) None B1 B2) as G.
  destruct G as [l1 [E1 F1]]; [intros p E; discriminate|apply Hfs|apply Hlast|lia|].
  pose proof (frame_loop_st_left (length (fst ls) + length (snd ls) + 1) ns need_stop minlen L f
                (fs_of f) (last_of f) (fst ls) (snd ls) None) as [I1 I2].
  rewrite frame_loop_st_fst, E1.
  destruct (IH ((f, snd (frame_loop_st (length (fst ls) + length (snd ls) + 1) ns need_stop minlen L f
                (fs_of f) (last_of f) (fst ls) (snd ls) None)) :: st))
    as [l2 [E2 F2]].
  { intros k v [Hin|Hin]; [|apply (Hst k v Hin)]. inversion Hin; subst. split.
    - rewrite Forall_forall in *. intros x Hx. apply B1. apply I1. exact Hx.
    - rewrite Forall_forall in *. intros x Hx. apply B2. apply I2. exact Hx. }
  rewrite E2. cbn [app_res]. exists (l1 ++ l2). split; [reflexivity|]. apply Forall_app. split.
  - eapply Forall_impl; [|exact F1]. intros o (O1 & O2 & O3 & O4 & O5 & O6). unfold orf_inv. rewrite O5. repeat split; auto. left; reflexivity.
  - eapply Forall_impl; [|exact F2]. intros o (O1 & O2 & O3 & O4 & O5 & O6). unfold orf_inv. repeat split; auto. right; exact O5.
Qed.

(* every match of any regex tree lies inside the strand and is not empty *)
Lemma hits_rx_bound gap r s f i e : In (i, e) (hits_rx gap r s f) -> (i < e)%nat /\ (e <= length s)%nat.
Proof.
  unfold hits_rx. intros H. apply filter_In in H. destruct H as [H _].
  apply (C13_RxLemmas.finditer_m_sound (C13_Rx.m_rx (C13_Rx.eff_rx gap r))) in H.
  - destruct H as (_ & H2 & H3 & _). rewrite strand_str_length in H3. cbn [Nat.add] in H3. split; assumption.
  - intros t n Hn. apply C13_RxLemmas.m_rx_sound in Hn. destruct Hn as [Hn _]. exact Hn.
Qed.

Theorem rx_invariants gap rs rp rf ns need_stop minlen s :
  match rf with
  | RAspec r => exists l, find_orfs_rx gap rs rp rf ns need_stop minlen s = XOk l /\
      Forall (fun o => 0 <= o_start o /\ o_start o < o_stop o /\ o_stop o <= Z.of_nat (length s) /\
                       minlen <= o_stop o - o_start o /\ In (o_rf o) (frames_of r) /\ o_plus o = (o_rf o >=? 0)) l
  | RAbadstr => find_orfs_rx gap rs rp rf ns need_stop minlen s = XErr (bs "AssertionError"%bs)
  | _ => find_orfs_rx gap rs rp rf ns need_stop minlen s = XErr (bs "TypeError"%bs)
  end.
Proof.
  destruct rf as [r| | | |]; try reflexivity. unfold find_orfs_rx.
  destruct (orfs_frames_gen_good (starts_rx gap rs s) (stops_rx gap rp s)
              (fun f => Z.of_nat (frame_start_g (gap_set gap) (strand_data s f) f))
              (fun f => Z.of_nat (last_res_g (gap_set gap) (strand_data s f)))
              ns need_stop minlen (Z.of_nat (length s))) with (frames := frames_of r) (st := @nil (Z * (list Z * list Z))) as [l [E F]].
  - intros f. apply Forall_forall. intros a H. unfold starts_rx in H. apply in_map_iff in H.
    destruct H as [[i e] [Ea H]]. cbn in Ea. subst a. apply hits_rx_bound in H. unfold start_in. lia.
  - intros f. apply Forall_forall. intros a H. unfold stops_rx in H. apply in_map_iff in H.
    destruct H as [[i e] [Ea H]]. cbn in Ea. subst a. apply hits_rx_bound in H. unfold stop_in. lia.
  - intros f. lia.
  - intros f. cbn beta.
    assert (K : forall g d, (last_res_g g d <= length d)%nat).
    { intros g. induction d as [|c d IHd]; [cbn; lia|]. cbn [last_res_g length]. destruct (last_res_g g d); [destruct (is_gap_g g c); lia|lia]. }
    pose proof (K (gap_set gap) (strand_data s f)) as H.
    assert (E : length (strand_data s f) = length s) by (unfold strand_data; destruct (f >=? 0); [reflexivity|apply rev_length]). lia.
  - intros k v [].
  - exists l. rewrite E. split; [reflexivity|exact F].
Qed.

(* ---- the exact result of every mode over given per-frame lists (no repeated frames) ----------------------------------------- *)
Theorem orfs_frames_gen_spec starts_of stops_of fs_of last_of ns need_stop minlen L :
  (forall f, zsorted (starts_of f)) -> (forall f, zsorted (stops_of f)) ->
  (forall f, Forall (start_in L) (starts_of f)) -> (forall f, Forall (stop_in L) (stops_of f)) ->
  (forall f, 0 <= fs_of f) -> (forall f, last_of f <= L) ->
  (ns = NSAlways -> forall f, Forall (fun a => a < last_of f) (starts_of f)) ->
  forall frames st, nodupz frames = true -> (forall k v, In (k, v) st -> ~ In k frames) ->
  orfs_frames_gen starts_of stops_of fs_of last_of ns need_stop minlen L st frames =
  ROk (concat (map (fun f => orfs_of minlen f L (spec_mode ns need_stop (fs_of f) (last_of f) L (starts_of f) (stops_of f))) frames)).
Proof.
  intros S1 S2 B1 B2 Hfs Hlast Hbl.
  induction frames as [|f r IH]; intros st N D; [reflexivity|]. cbn [orfs_frames_gen map concat].
  apply nodupz_cons in N. destruct N as [N1 N2].
  rewrite lookup_st_none by (intros k v Hin E; subst k; apply (D f v Hin); left; reflexivity).
  cbn [fst snd]. rewrite frame_loop_st_fst.
  rewrite IH; [|exact N2|].
  2:{ intros k v [Hin|Hin]; [inversion Hin; subst; exact N1|]. intros Hk. apply (D k v Hin). right. exact Hk. }
  assert (E : frame_loop (length (starts_of f) + length (stops_of f) + 1) ns need_stop minlen L f (fs_of f) (last_of f)
                (starts_of f) (stops_of f) None =
              ROk (orfs_of minlen f L (spec_mode ns need_stop (fs_of f) (last_of f) L (starts_of f) (stops_of f)))).
  { unfold spec_mode. destruct ns.
    - apply always_loop_spec_ns; auto.
      + eapply Forall_impl; [|apply B2]. intros e He. unfold stop_in in He. lia.
      + lia.
    - pose proof (B1 f) as Hb. destruct (starts_of f) as [|a ss] eqn:Est.
      + replace (length (@nil Z) + length (stops_of f) + 1)%nat with (S (length (stops_of f))) by (cbn; lia).
        cbn [frame_loop loop_cond is_nil negb is_some orb]. reflexivity.
      + replace (length (a :: ss) + length (stops_of f) + 1)%nat with (S (length (a :: ss) + length (stops_of f))) by lia.
        inversion Hb as [|? ? Ha Hbss]; subst. unfold start_in in Ha.
        apply (chain_first_spec _ NSOnce need_stop minlen _ f _ _ (a :: ss) _ a ss); auto.
        * left. reflexivity.
        * lia.
        * cbn [length]. lia.
    - replace (length (starts_of f) + length (stops_of f) + 1)%nat with (S (length (starts_of f) + length (stops_of f))) by lia.
      apply (chain_first_spec _ NSNever need_stop minlen _ f _ _ (starts_of f) _ (fs_of f) (starts_of f)); auto.
      + right. reflexivity.
      + lia. }
  rewrite E. reflexivity.
Qed.

(* the match lists of any regex tree are strictly increasing *)
Lemma chain_sorted_before : forall l lo, C13_Model.chain lo l -> StronglySorted before l /\ Forall (fun m => (lo <= fst m)%nat /\ (fst m < snd m)%nat) l.
Proof.
  induction l as [|[b e] l IH]; intros lo H; [split; constructor|]. cbn [C13_Model.chain] in H. destruct H as (H1 & H2 & H3).
  destruct (IH e H3) as [S F]. split.
  - constructor; [exact S|]. eapply Forall_impl; [|exact F]. intros m [Hm _]. unfold before. cbn [snd]. exact Hm.
  - constructor; [cbn; lia|]. eapply Forall_impl; [|exact F]. intros m [Hm Hm2]. split; [lia|exact Hm2].
Qed.

Lemma hits_rx_sorted gap r s f :
  StronglySorted before (hits_rx gap r s f) /\ Forall (fun m => (fst m < snd m)%nat) (hits_rx gap r s f).
Proof.
  unfold hits_rx.
  pose proof (C13_RxLemmas.finditer_m_chain (C13_Rx.m_rx (C13_Rx.eff_rx gap r)) (strand_str s f) 0 0) as H.
  apply chain_sorted_before in H. destruct H as [S F]. split.
  - apply sorted_filter. exact S.
  - apply Forall_filter. eapply Forall_impl; [|exact F]. intros m [_ Hm]. exact Hm.
Qed.

(* regular expressions as start/stop, no repeated frame: every mode is its specification over the match lists; for
   need_start='always' provided every start match begins before the end of the last residue (true whenever the regex
   begins with a residue letter) *)
Theorem rx_modes_spec gap rs rp r ns need_stop minlen s :
  nodupz (frames_of r) = true ->
  (ns = NSAlways -> forall f, Forall (fun a => a < Z.of_nat (last_res_g (gap_set gap) (strand_data s f))) (starts_rx gap rs s f)) ->
  find_orfs_rx gap rs rp (RAspec r) ns need_stop minlen s =
  XOk (concat (map (fun f => orfs_of minlen f (Z.of_nat (length s))
                     (spec_mode ns need_stop (Z.of_nat (frame_start_g (gap_set gap) (strand_data s f) f))
                                (Z.of_nat (last_res_g (gap_set gap) (strand_data s f))) (Z.of_nat (length s))
                                (starts_rx gap rs s f) (stops_rx gap rp s f))) (frames_of r))).
Proof.
  intros N Hbl. unfold find_orfs_rx.
  rewrite (orfs_frames_gen_spec (starts_rx gap rs s) (stops_rx gap rp s)
             (fun f => Z.of_nat (frame_start_g (gap_set gap) (strand_data s f) f))
             (fun f => Z.of_nat (last_res_g (gap_set gap) (strand_data s f))) ns need_stop minlen (Z.of_nat (length s))); try reflexivity; auto.
  - intros f. destruct (hits_rx_sorted gap rs s f). apply sorted_map_fst; assumption.
  - intros f. destruct (hits_rx_sorted gap rp s f). apply sorted_map_snd; assumption.
  - intros f. apply Forall_forall. intros a H. unfold starts_rx in H. apply in_map_iff in H.
    destruct H as [[i e] [Ea H]]. cbn in Ea. subst a. apply hits_rx_bound in H. unfold start_in. lia.
  - intros f. apply Forall_forall. intros a H. unfold stops_rx in H. apply in_map_iff in H.
    destruct H as [[i e] [Ea H]]. cbn in Ea. subst a. apply hits_rx_bound in H. unfold stop_in. lia.
  - intros f. lia.
  - intros f. cbn beta.
    assert (K : forall g d, (last_res_g g d <= length d)%nat).
    { intros g. induction d as [|c d IHd]; [cbn; lia|]. cbn [last_res_g length]. destruct (last_res_g g d); [destruct (is_gap_g g c); lia|lia]. }
    pose proof (K (gap_set gap) (strand_data s f)) as H.
    assert (E : length (strand_data s f) = length s) by (unfold strand_data; destruct (f >=? 0); [reflexivity|apply rev_length]). lia.
Qed.

(* non-vacuity of the hypothesis of rx_modes_spec for need_start='always' *)
Definition wit_rs : C13_Rx.rx := C13_Rx.XCat (C13_Rx.XChr "A"%byte) (C13_Rx.XCat (C13_Rx.XCls false (bs "TU"%bs)) (C13_Rx.XChr "G"%byte)).
Lemma rx_modes_witness : forall f,
  Forall (fun a => a < Z.of_nat (last_res_g (gap_set (Some (bs "-"%bs))) (strand_data (bs "CCA-TGAAATA-AC"%bs) f)))
         (starts_rx (Some (bs "-"%bs)) wit_rs (bs "CCA-TGAAATA-AC"%bs) f).
Proof.
  intros f. unfold starts_rx, hits_rx. apply Forall_forall. intros a H. apply in_map_iff in H. destruct H as [[i e] [E H]].
  cbn [fst] in E. subst a. apply filter_In in H. destruct H as [H _]. unfold strand_str, strand_data in *.
  destruct (f >=? 0); vm_compute in H; repeat (destruct H as [H|H]; [inversion H; subst; vm_compute; reflexivity|]); destruct H.
Qed.

(* ---- discharging the hypothesis of rx_modes_spec: patterns every match of which begins with a residue ---------------------------- *)
(* head_ok P r: r is not nullable and every word of its language begins with a character satisfying P (syntactic, sufficient) *)
Fixpoint head_ok (P : byte -> bool) (r : C13_Rx.rx) : bool :=
  match r with
  | C13_Rx.XChr c => P c
  | C13_Rx.XDot => false
  | C13_Rx.XCls neg cs => negb neg && forallb P cs
  | C13_Rx.XCat a _ => head_ok P a
  | C13_Rx.XAlt a b => head_ok P a && head_ok P b
  | C13_Rx.XStar _ | C13_Rx.XOpt _ => false
  | C13_Rx.XPlus a => head_ok P a
  | C13_Rx.XGrp _ a => head_ok P a
  end.

Lemma head_ok_lang P r t : C13_Rx.lang r t -> head_ok P r = true -> exists c t', t = c :: t' /\ P c = true.
Proof.
  intros L. induction L as [c|x Hx|neg cs x Hx|a b t u La IHa Lb IHb|a b t La IHa|a b t Lb IHb|a|a t u La IHa Ls IHs|a t u La IHa Ls IHs|a|a t La IHa|c a t La IHa];
    cbn [head_ok]; intros HK; try discriminate.
  - exists c, []. split; [reflexivity|exact HK].
  - apply andb_prop in HK. destruct HK as [Hn Hf]. destruct neg; [discriminate|]. cbn [negb] in *.
    exists x, []. split; [reflexivity|]. rewrite forallb_forall in Hf. apply Hf.
    unfold C05_Model.has in Hx. apply existsb_exists in Hx. destruct Hx as [y [Hy E]]. apply byte_eqb_eq in E. subst y. exact Hy.
  - destruct (IHa HK) as [c [t' [E Pc]]]. subst t. exists c, (t' ++ u). split; [reflexivity|exact Pc].
  - apply andb_prop in HK. destruct HK as [Ha _]. apply IHa. exact Ha.
  - apply andb_prop in HK. destruct HK as [_ Hb]. apply IHb. exact Hb.
  - destruct (IHa HK) as [c [t' [E Pc]]]. subst t. exists c, (t' ++ u). split; [reflexivity|exact Pc].
  - apply IHa. exact HK.
Qed.

Lemma head_ok_gapify P g r : head_ok P r = true -> head_ok P (C13_Rx.gapify g r) = true.
Proof.
  induction r; cbn [C13_Rx.gapify head_ok]; intros H; try exact H; try discriminate.
  - apply IHr1. exact H.
  - apply andb_prop in H. destruct H as [H1 H2]. rewrite IHr1, IHr2 by assumption. reflexivity.
  - apply IHr. exact H.
  - apply IHr. exact H.
Qed.

Lemma last_res_g_nth g : forall d i c, nth_error d i = Some c -> is_gap_g g c = false -> (i < last_res_g g d)%nat.
Proof.
  induction d as [|x d IH]; intros i c H G; [destruct i; discriminate|]. cbn [last_res_g]. destruct i as [|i].
  - cbn in H. inversion H; subst x. rewrite G. destruct (last_res_g g d); lia.
  - cbn [nth_error] in H. pose proof (IH i c H G) as K. destruct (last_res_g g d); lia.
Qed.

Lemma last_res_g_strand g s f : gap_safe g = true -> last_res_g g (strand_str s f) = last_res_g g (strand_data s f).
Proof.
  intros S. rewrite !last_res_transfer. rewrite <- strand_str_to_dash by exact S. rewrite <- strand_data_to_dash. apply last_res_strand.
Qed.

Lemma skipn_head_nth {A} : forall i (t : list A) c r, skipn i t = c :: r -> nth_error t i = Some c.
Proof.
  induction i as [|i IH]; intros t c r H; destruct t as [|x t]; cbn in *; try discriminate.
  - inversion H. reflexivity.
  - eapply IH. exact H.
Qed.

Lemma firstn_head {A} : forall n (l : list A) c r, firstn n l = c :: r -> exists r', l = c :: r'.
Proof. intros n l c r H. destruct n; [discriminate|]. destruct l as [|x l]; [discriminate|]. cbn in H. inversion H. eauto. Qed.

Theorem rx_starts_before_last gap rs s f :
  gap_safe (gap_set gap) = true -> head_ok (fun c => negb (is_gap_g (gap_set gap) c)) rs = true ->
  Forall (fun a => a < Z.of_nat (last_res_g (gap_set gap) (strand_data s f))) (starts_rx gap rs s f).
Proof.
  intros S H. apply Forall_forall. intros a Ha. unfold starts_rx in Ha. apply in_map_iff in Ha.
  destruct Ha as [[i e] [Ea Hin]]. cbn [fst] in Ea. subst a. unfold hits_rx in Hin. apply filter_In in Hin. destruct Hin as [Hin _].
  apply (C13_RxLemmas.finditer_m_sound (C13_Rx.m_rx (C13_Rx.eff_rx gap rs))) in Hin;
    [|intros t n Hn; apply C13_RxLemmas.m_rx_sound in Hn; destruct Hn as [Hn _]; exact Hn].
  destruct Hin as (_ & Hlt & _ & Hm). rewrite Nat.sub_0_r in Hm. apply C13_RxLemmas.m_rx_sound in Hm. destruct Hm as [_ Hl].
  assert (HO : head_ok (fun c => negb (is_gap_g (gap_set gap) c)) (C13_Rx.eff_rx gap rs) = true).
  { destruct gap as [g|]; cbn [C13_Rx.eff_rx]; [apply head_ok_gapify; exact H|exact H]. }
  destruct (head_ok_lang _ _ _ Hl HO) as [c [t' [E Pc]]].
  apply firstn_head in E. destruct E as [r' E]. apply skipn_head_nth in E.
  apply negb_true_iff in Pc. pose proof (last_res_g_nth _ _ _ _ E Pc) as K. rewrite last_res_g_strand in K by exact S. lia.
Qed.

(* every mode, regex patterns whose start pattern begins with residue letters / positive classes of residue letters: no
   hypothesis about the text is left *)
Theorem rx_modes_spec_plain gap rs rp r ns need_stop minlen s :
  gap_safe (gap_set gap) = true -> head_ok (fun c => negb (is_gap_g (gap_set gap) c)) rs = true ->
  nodupz (frames_of r) = true ->
  find_orfs_rx gap rs rp (RAspec r) ns need_stop minlen s =
  XOk (concat (map (fun f => orfs_of minlen f (Z.of_nat (length s))
                     (spec_mode ns need_stop (Z.of_nat (frame_start_g (gap_set gap) (strand_data s f) f))
                                (Z.of_nat (last_res_g (gap_set gap) (strand_data s f))) (Z.of_nat (length s))
                                (starts_rx gap rs s f) (stops_rx gap rp s f))) (frames_of r))).
Proof.
  intros S H N. apply rx_modes_spec; [exact N|]. intros _ f. apply rx_starts_before_last; assumption.
Qed.
