(* C12 proofs, part 5: arbitrary regular expressions as start/stop patterns (C13 regex trees) *)
From Coq Require Import List ZArith NArith Bool Lia ZifyBool Sorted.
From Coq.Strings Require Import Byte.
Import ListNotations.
From SV Require Import Text C05_Model C05_Lemmas.
From SV Require C13_Model C13_Rx C13_RxLemmas.
From SV Require Import C12_Model C12_Lemmas C12_Gap C12_Modes C12_GapSet C12_Rx.
Local Open Scope Z_scope.

(* the state-threading loop over given lists: invariants in every mode, for any frame list *)
Theorem orfs_frames_gen_good starts_of stops_of fs_of last_of ns need_stop minlen L :
  (forall f, Forall (start_in L) (starts_of f)) -> (forall f, Forall (stop_in L) (stops_of f)) ->
  (forall f, 0 <= fs_of f) -> (forall f, last_of f <= L) ->
  forall frames st, st_ok L st ->
  exists l, orfs_frames_gen starts_of stops_of fs_of last_of ns need_stop minlen L st frames = ROk l /\
            Forall (orf_inv L minlen frames) l.
Proof.
  intros HB1 HB2 Hfs Hlast.
  induction frames as [|f r IH]; intros st Hst; cbn [orfs_frames_gen]; [exists []; split; [reflexivity|constructor]|].
  set (ls := match lookup_st f st with Some p => p | None => (starts_of f, stops_of f) end).
  assert (Hls : Forall (start_in L) (fst ls) /\ Forall (stop_in L) (snd ls)).
  { unfold ls. destruct (lookup_st f st) as [v|] eqn:E.
    - apply lookup_st_in in E. apply (Hst f v E).
    - cbn [fst snd]. split; [apply HB1|apply HB2]. }
  destruct Hls as [B1 B2].
  pose proof (frame_loop_good (length (fst ls) + length (snd ls) + 1) ns need_stop minlen L f
                (fs_of f) (last_of f) (fst ls) (snd ls) None B1 B2) as G.
  destruct G as [l1 [E1 F1]]; [intros p E; discriminate|apply Hfs|apply Hlast|lia|].
  pose proof (frame_loop_st_left (length (fst ls) + length (snd ls) + 1) ns need_stop minlen L f
                (fs_of f) (last_of f) (fst ls) (snd ls) None) as [I1 I2].
  rewrite frame_loop_st_fst, E1.
  destruct (IH ((f, snd (frame_loop_st (length (fst ls) + length (snd ls) + 1) ns need_stop minlen L f
                (fs_of f) (last_of f) (fst ls) (snd ls) None)) :: st))
    as [l2 [E2 F2]].
  { intros k v [Hin|Hin]; [|apply (Hst k v Hin)]. inversion Hin; subst. split.
    - rewrite Forall_forall in *. intros x Hx. apply B1. apply I1. exact Hx.
    - rewrite Forall_forall in *. intros x Hx. apply B2. apply I2. exact Hx. }
  rewrite E2. cbn [app_res]. exists (l1 ++ l2). split; [reflexivity|]. apply Forall_app. split.
  - eapply Forall_impl; [|exact F1]. intros o (O1 & O2 & O3 & O4 & O5 & O6). unfold orf_inv. rewrite O5. repeat split; auto. left; reflexivity.
  - eapply Forall_impl; [|exact F2]. intros o (O1 & O2 & O3 & O4 & O5 & O6). unfold orf_inv. repeat split; auto. right; exact O5.
Qed.

(* every match of any regex tree lies inside the strand and is not empty *)
Lemma hits_rx_bound gap r s f i e : In (i, e) (hits_rx gap r s f) -> (i < e)%nat /\ (e <= length s)%nat.
Proof.
  unfold hits_rx. intros H. apply filter_In in H. destruct H as [H _].
  apply (C13_RxLemmas.finditer_m_sound (C13_Rx.m_rx (C13_Rx.eff_rx gap r))) in H.
  - destruct H as (_ & H2 & H3 & _). rewrite strand_str_length in H3. cbn [Nat.add] in H3. split; assumption.
  - intros t n Hn. apply C13_RxLemmas.m_rx_sound in Hn. destruct Hn as [Hn _]. exact Hn.
Qed.

Theorem rx_invariants gap rs rp rf ns need_stop minlen s :
  match rf with
  | RAspec r => exists l, find_orfs_rx gap rs rp rf ns need_stop minlen s = XOk l /\
      Forall (fun o => 0 <= o_start o /\ o_start o < o_stop o /\ o_stop o <= Z.of_nat (length s) /\
                       minlen <= o_stop o - o_start o /\ In (o_rf o) (frames_of r) /\ o_plus o = (o_rf o >=? 0)) l
  | RAbadstr => find_orfs_rx gap rs rp rf ns need_stop minlen s = XErr (bs "AssertionError"%bs)
  | _ => find_orfs_rx gap rs rp rf ns need_stop minlen s = XErr (bs "TypeError"%bs)
  end.
Proof.
  destruct rf as [r| | | |]; try reflexivity. unfold find_orfs_rx.
  destruct (orfs_frames_gen_good (starts_rx gap rs s) (stops_rx gap rp s)
              (fun f => Z.of_nat (frame_start_g (gap_set gap) (strand_data s f) f))
              (fun f => Z.of_nat (last_res_g (gap_set gap) (strand_data s f)))
              ns need_stop minlen (Z.of_nat (length s))) with (frames := frames_of r) (st := @nil (Z * (list Z * list Z))) as [l [E F]].
  - intros f. apply Forall_forall. intros a H. unfold starts_rx in H. apply in_map_iff in H.
    destruct H as [[i e] [Ea H]]. cbn in Ea. subst a. apply hits_rx_bound in H. unfold start_in. lia.
  - intros f. apply Forall_forall. intros a H. unfold stops_rx in H. apply in_map_iff in H.
    destruct H as [[i e] [Ea H]]. cbn in Ea. subst a. apply hits_rx_bound in H. unfold stop_in. lia.
  - intros f. lia.
  - intros f. cbn beta.
    assert (K : forall g d, (last_res_g g d <= length d)%nat).
    { intros g. induction d as [|c d IHd]; [cbn; lia|]. cbn [last_res_g length]. destruct (last_res_g g d); [destruct (is_gap_g g c); lia|lia]. }
    pose proof (K (gap_set gap) (strand_data s f)) as H.
    assert (E : length (strand_data s f) = length s) by (unfold strand_data; destruct (f >=? 0); [reflexivity|apply rev_length]). lia.
  - intros k v [].
  - exists l. rewrite E. split; [reflexivity|exact F].
Qed.
