(* C09 proofs, part 3: the extraction lemmas instantiated for a rendered record inside a file. *)
From Coq Require Import List Arith Lia ZArith NArith Bool.
From Coq.Strings Require Import Byte.
Import ListNotations.
From SV Require Import Text C09_Model C09_Lemmas C09_Extract.

Lemma nl_of_cases crlf : nl_of crlf = [LF] \/ nl_of crlf = [CR; LF].
Proof. destruct crlf; [right|left]; reflexivity. Qed.
Lemma nl_of_isnl crlf : forallb isnl (nl_of crlf) = true.
Proof. destruct crlf; reflexivity. Qed.
Lemma nl_of_noGT crlf : forallb notGT (nl_of crlf) = true.
Proof. destruct crlf; reflexivity. Qed.
Lemma nl_of_len crlf : 1 <= length (nl_of crlf).
Proof. destruct crlf; simpl; lia. Qed.

Lemma filter_all {A} (p : A -> bool) l : forallb p l = true -> filter p l = l.
Proof.
  induction l as [|c l IH]; intros H; [reflexivity|]. simpl in *.
  apply andb_prop in H. destruct H as [Hc Hl]. rewrite Hc, IH by assumption. reflexivity.
Qed.

Section Rec.
Variable crlf : bool.
Variable r : arec.
Let nl := nl_of crlf.
Let s := rseq r.
Let w := rw r.
Hypothesis w_pos : 1 <= w.
Hypothesis head_nonnl : forallb nonnl (rid r ++ rdesc r) = true.
Hypothesis head_noGT : forallb notGT (rid r ++ rdesc r) = true.
Hypothesis s_nonnl : forallb nonnl s = true.
Hypothesis s_noGT : forallb notGT s = true.

Lemma brk_small k : S k < w -> brk nl w k = [].
Proof.
  intros H. unfold brk. rewrite Nat.mod_small by lia. reflexivity.
Qed.

Lemma firstn_wrap_small : forall (t : str) k x, k + x <= w -> x <= length t ->
  firstn x (wrap_from nl w k t) = firstn x t.
Proof.
  induction t as [|c t IH]; intros k x Hk Hx.
  - destruct x; reflexivity.
  - destruct x as [|x]; [reflexivity|]. cbn [wrap_from firstn]. f_equal.
    destruct x as [|x]; [reflexivity|].
    rewrite brk_small by lia. cbn [app]. apply IH; simpl in Hx; lia.
Qed.

Lemma wrap_noGT : forall (t : str) k, forallb notGT t = true -> forallb notGT (wrap_from nl w k t) = true.
Proof.
  induction t as [|c t IH]; intros k H; [reflexivity|].
  cbn [wrap_from forallb] in *. apply andb_prop in H. destruct H as [Hc Ht].
  rewrite Hc, forallb_app, IH by assumption. unfold brk. destruct (_ =? _); [|reflexivity].
  subst nl. rewrite nl_of_noGT. reflexivity.
Qed.

Definition tail : str := if (length s) mod w =? 0 then [] else nl.

Lemma body_eq : body nl r = wrap_from nl w 0 s ++ tail.
Proof. reflexivity. Qed.

Lemma tail_filter : filter nonnl tail = [].
Proof. unfold tail. destruct (_ =? _); [reflexivity|]. subst nl. destruct crlf; reflexivity. Qed.

Lemma body_noGT : forallb notGT (body nl r) = true.
Proof.
  rewrite body_eq, forallb_app, wrap_noGT by exact s_noGT. unfold tail.
  destruct (_ =? _); [reflexivity|]. subst nl. rewrite nl_of_noGT. reflexivity.
Qed.

Lemma body_filter : filter nonnl (body nl r) = s.
Proof.
  rewrite body_eq, filter_app, tail_filter, app_nil_r.
  apply (filter_wrap isnl nl w); [subst nl; apply nl_of_isnl|exact s_nonnl].
Qed.

(* what the scanner stores for the record: 0 unless the residues continue after the first line *)
Definition linelen_of : nat := if length s <=? w then 0 else w + length nl.

Lemma body_cnt x : x <= length s ->
  filter nonnl (firstn (cmp nl linelen_of x) (body nl r ++ [])) = firstn x s.
Proof.
  intros Hx. rewrite app_nil_r, body_eq. unfold cmp, linelen_of.
  destruct (length s <=? w) eqn:E.
  - apply Nat.leb_le in E. cbn [Nat.eqb].
    rewrite firstn_app.
    assert (L: x <= length (wrap_from nl w 0 s)).
    { rewrite (length_wrap nl w ltac:(lia)). unfold boff. apply Nat.le_trans with (length s); [exact Hx | apply Nat.le_add_r]. }
    replace (x - length (wrap_from nl w 0 s)) with 0 by lia. rewrite firstn_O, app_nil_r.
    rewrite firstn_wrap_small by lia. apply filter_all. apply forallb_firstn. exact s_nonnl.
  - apply Nat.leb_gt in E.
    assert (w + length nl =? 0 = false) as -> by (apply Nat.eqb_neq; lia).
    replace (w + length nl - length nl) with w by lia.
    change (x + x / w * length nl) with (off nl w x).
    rewrite firstn_app.
    assert (L: off nl w x <= length (wrap_from nl w 0 s)).
    { rewrite (length_wrap nl w ltac:(lia)), <- (off_boff nl w ltac:(lia)). apply off_mono; lia. }
    replace (off nl w x - length (wrap_from nl w 0 s)) with 0 by lia. rewrite firstn_O, app_nil_r.
    apply (filter_firstn_off isnl nl w ltac:(lia)); [subst nl; apply nl_of_isnl|exact Hx|exact s_nonnl].
Qed.

Lemma linelen_ok : linelen_of = 0 \/ length nl < linelen_of.
Proof. unfold linelen_of. destruct (_ <=? _); [left; reflexivity|right; lia]. Qed.

Variables pre post : str.
Hypothesis post_ok : post = [] \/ exists p, post = GT :: p.

Definition the_file : str := pre ++ render_rec nl r ++ post.

Lemma the_file_eq : the_file = file pre (rid r ++ rdesc r) nl (body nl r) post.
Proof.
  unfold the_file, file, render_rec, header_line, hl. cbn [app]. rewrite <- !app_assoc. reflexivity.
Qed.
Lemma header_eq : header_line nl r = hl (rid r ++ rdesc r) nl.
Proof. unfold header_line, hl. rewrite <- app_assoc. reflexivity. Qed.

(* range query on a record of a file: header line followed by bytes whose residues are s[i:j] (end clipped, start clipped) *)
Theorem extract_range_rendered (oi oj : option nat) :
  (match oi, oj with Some i, Some j => i <= j | _, _ => True end) ->
  exists data,
    extract the_file linelen_of (length pre) (QRange (option_map Z.of_nat oi) (option_map Z.of_nat oj))
      = Ok (header_line nl r ++ data)
    /\ filter nonnl data = slice s oi oj.
Proof.
  intros H. rewrite the_file_eq, header_eq.
  apply (extract_range pre (rid r ++ rdesc r) nl (body nl r) post (nl_of_cases crlf) head_nonnl body_noGT post_ok
           s [] linelen_of eq_refl body_filter linelen_ok body_cnt oi oj H).
Qed.

Theorem extract_header_rendered ll : extract the_file ll (length pre) QHeader = Ok (header_line nl r).
Proof.
  rewrite the_file_eq, header_eq.
  apply (extract_header pre (rid r ++ rdesc r) nl (body nl r) post (nl_of_cases crlf) head_nonnl).
Qed.

Theorem extract_full_rendered ll : extract the_file ll (length pre) QFull = Ok (render_rec nl r).
Proof.
  rewrite the_file_eq. unfold render_rec. rewrite header_eq.
  apply (extract_full pre (rid r ++ rdesc r) nl (body nl r) post body_noGT post_ok head_noGT (nl_of_noGT crlf)).
Qed.
End Rec.

(* ------------------------------------------------------------------ from the boolean domain predicate *)
Lemma id_char_ok c : id_char c = true -> nonnl c = true /\ notGT c = true.
Proof. destruct c; vm_compute; intro H; first [split; reflexivity | discriminate H]. Qed.
Lemma desc_char_ok c : desc_char c = true -> nonnl c = true /\ notGT c = true.
Proof. destruct c; vm_compute; intro H; first [split; reflexivity | discriminate H]. Qed.
Lemma res_char_ok c : res_char c = true -> nonnl c = true /\ notGT c = true.
Proof. destruct c; vm_compute; intro H; first [split; reflexivity | discriminate H]. Qed.

Lemma forallb_impl2 (p : byte -> bool) (l : str) :
  (forall c, p c = true -> nonnl c = true /\ notGT c = true) -> forallb p l = true ->
  forallb nonnl l = true /\ forallb notGT l = true.
Proof.
  intros Hp H. rewrite !forallb_forall in *. split; intros x Hx; apply (Hp x (H x Hx)).
Qed.

Lemma wf_desc_chars d : wf_desc d = true -> forallb desc_char d = true.
Proof. destruct d as [|c d]; [reflexivity|]. unfold wf_desc. intros H. apply andb_prop in H. apply H. Qed.

Lemma wf_rec_facts mode nllen r : wf_rec mode nllen r = true ->
  1 <= rw r /\ forallb nonnl (rid r ++ rdesc r) = true /\ forallb notGT (rid r ++ rdesc r) = true
  /\ forallb nonnl (rseq r) = true /\ forallb notGT (rseq r) = true.
Proof.
  unfold wf_rec. intros H.
  apply andb_prop in H. destruct H as [H _].
  apply andb_prop in H. destruct H as [H Hw].
  apply andb_prop in H. destruct H as [H Hs].
  apply andb_prop in H. destruct H as [Hi Hd].
  unfold wf_id in Hi. apply andb_prop in Hi. destruct Hi as [_ Hi].
  apply wf_desc_chars in Hd.
  destruct (forallb_impl2 _ _ id_char_ok Hi) as [I1 I2].
  destruct (forallb_impl2 _ _ desc_char_ok Hd) as [D1 D2].
  destruct (forallb_impl2 _ _ res_char_ok Hs) as [S1 S2].
  apply Nat.leb_le in Hw.
  rewrite !forallb_app, I1, I2, D1, D2. auto.
Qed.

(* P0 extract_record: for a well-formed record anywhere in a file (followed by nothing or by the next record), with the index
   entry (line length, offset) the scanner stores for it *)
Theorem extract_record mode crlf (r : arec) (pre post : str) :
  wf_rec mode (length (nl_of crlf)) r = true ->
  (post = [] \/ exists p, post = GT :: p) ->
  let nl := nl_of crlf in
  let f := pre ++ render_rec nl r ++ post in
  let ll := if length (rseq r) <=? rw r then 0 else rw r + length nl in
  extract f ll (length pre) QHeader = Ok (header_line nl r)
  /\ extract f ll (length pre) QFull = Ok (render_rec nl r)
  /\ forall oi oj : option nat,
       (match oi, oj with Some i, Some j => i <= j | _, _ => True end) ->
       exists data,
         extract f ll (length pre) (QRange (option_map Z.of_nat oi) (option_map Z.of_nat oj)) = Ok (header_line nl r ++ data)
         /\ filter nonnl data
            = (let i := match oi with Some i => i | None => 0 end in
               match oj with Some j => firstn (j - i) (skipn i (rseq r)) | None => skipn i (rseq r) end).
Proof.
  intros Hwf Hpost. destruct (wf_rec_facts _ _ _ Hwf) as [Hw [H1 [H2 [H3 H4]]]].
  cbv zeta. split; [|split].
  - apply (extract_header_rendered crlf r H1 pre post).
  - apply (extract_full_rendered crlf r H2 H4 pre post Hpost).
  - intros oi oj Hij.
    destruct (extract_range_rendered crlf r Hw H1 H3 H4 pre post Hpost oi oj Hij) as [data [E F]].
    exists data. split; [exact E|]. rewrite F. unfold slice. destruct oi; reflexivity.
Qed.

Lemma witness_run :
  let r := ARec (bs "a"%bs) (bs " d"%bs) (bs "ACGTACGTACGT"%bs) 5 in
  let f := [FAbs true true [ARec (bs "p"%bs) [] (bs "TT"%bs) 3; r; ARec (bs "q"%bs) [] (bs "GGGG"%bs) 2]] in
  wf_rec MODE_DB 2 r = true
  /\ wf_C09 MODE_DB 0 true [0] f [Query 0 (bs "a"%bs) (Some (Some 3%Z, Some 8%Z))] = true
  /\ out (run_C09 MODE_DB 0 true [0] f [Query 0 (bs "a"%bs) (Some (Some 3%Z, Some 8%Z)); Query 0 (bs "a"%bs) (Some (Some 9%Z, Some 30%Z));
                                     Query 0 (bs "a"%bs) (Some (Some 20%Z, Some 30%Z))])
     = out (VL [VB true; VL [VL [VI 44; VI 3386509425; VL [VL [VS (bs "p"%bs); VS (bs "p"%bs); VS (bs "TT"%bs)]; VL [VS (bs "a"%bs); VS (bs "a d"%bs); VS (bs "ACGTACGTACGT"%bs)]; VL [VS (bs "q"%bs); VS (bs "q"%bs); VS (bs "GGGG"%bs)]]]];
                VL [VI 3; VL [VL [VS (bs "a"%bs); VS (bs "a d"%bs); VS (bs "TACGT"%bs)];
                              VL [VS (bs "a"%bs); VS (bs "a d"%bs); VS (bs "CGT"%bs)];
                              VL [VS (bs "a"%bs); VS (bs "a d"%bs); VS []]]]]).
Proof. vm_compute. repeat split; reflexivity. Qed.
