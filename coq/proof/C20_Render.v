(* C20: the text layer on files rendered from an abstract layout (comments, blank lines, word lines with arbitrary
   in-line white space): lines and words of the rendered text are the abstract ones. *)
From Coq Require Import List ZArith NArith Bool Lia.
From Coq.Strings Require Import Byte.
Import ListNotations.
From SV Require Import Text G_submat_index C20_Model.

Lemma forallb_impl {A} (P Q : A -> bool) l : (forall x, P x = true -> Q x = true) -> forallb P l = true -> forallb Q l = true.
Proof.
  intros H. induction l as [|x l IH]; [reflexivity|]. cbn. intros E. apply andb_prop in E. destruct E as [E1 E2].
  rewrite (H x E1), (IH E2). reflexivity.
Qed.

(* per-byte facts *)
Lemma linebreak_is_ws c : is_linebreak c = true -> is_ws c = true.
Proof. destruct c; vm_compute; intros H; try reflexivity; discriminate. Qed.
Lemma nonws_nolb c : negb (is_ws c) = true -> negb (is_linebreak c) = true.
Proof. destruct c; vm_compute; intros H; try reflexivity; discriminate. Qed.
Lemma inline_nolb c : is_inline_ws c = true -> negb (is_linebreak c) = true.
Proof. unfold is_inline_ws. intros H. apply andb_prop in H. exact (proj2 H). Qed.
Lemma inline_ws c : is_inline_ws c = true -> is_ws c = true.
Proof. unfold is_inline_ws. intros H. apply andb_prop in H. exact (proj1 H). Qed.
Lemma nolb_nocr c : negb (is_linebreak c) = true -> byte_eqb c x0d = false.
Proof. destruct c; vm_compute; intros H; try reflexivity; discriminate. Qed.

(* ---- lines ---- *)
Lemma universal_nl_line l s : no_linebreak l = true -> universal_nl (l ++ x0a :: s) = l ++ x0a :: universal_nl s.
Proof.
  unfold no_linebreak. induction l as [|c l IH]; intros H; [reflexivity|].
  cbn [forallb] in H. apply andb_prop in H. destruct H as [H1 H2].
  cbn [app universal_nl]. rewrite (nolb_nocr c H1), (IH H2). reflexivity.
Qed.
Lemma splitlines_line l s : no_linebreak l = true -> splitlines (l ++ x0a :: s) = l :: splitlines s.
Proof.
  unfold no_linebreak. induction l as [|c l IH]; intros H; [reflexivity|].
  cbn [forallb] in H. apply andb_prop in H. destruct H as [H1 H2].
  cbn [app splitlines]. rewrite (IH H2).
  destruct (is_linebreak c); [discriminate|reflexivity].
Qed.
Lemma universal_nl_sep l c s : no_linebreak l = true -> byte_eqb c x0d = false ->
  universal_nl (l ++ c :: s) = l ++ c :: universal_nl s.
Proof.
  unfold no_linebreak. intros H Hc. induction l as [|d l IH].
  - cbn [app universal_nl]. rewrite Hc. reflexivity.
  - cbn [forallb] in H. apply andb_prop in H. destruct H as [H1 H2].
    cbn [app universal_nl]. rewrite (nolb_nocr d H1), (IH H2). reflexivity.
Qed.
Lemma splitlines_sep l c s : no_linebreak l = true -> is_linebreak c = true ->
  splitlines (l ++ c :: s) = l :: splitlines s.
Proof.
  unfold no_linebreak. intros H Hc. induction l as [|d l IH].
  - cbn [app splitlines]. rewrite Hc. reflexivity.
  - cbn [forallb] in H. apply andb_prop in H. destruct H as [H1 H2].
    cbn [app splitlines]. rewrite (IH H2). destruct (is_linebreak d); [discriminate|reflexivity].
Qed.
Lemma lines_of_rendered (ls : list str) : forallb no_linebreak ls = true ->
  splitlines (universal_nl (concat (map (fun l => l ++ [x0a]) ls))) = ls.
Proof.
  induction ls as [|l ls IH]; intros H; [reflexivity|].
  cbn [forallb] in H. apply andb_prop in H. destruct H as [H1 H2].
  cbn [map concat]. rewrite <- app_assoc. cbn [app].
  rewrite (universal_nl_line _ _ H1), (splitlines_line _ _ H1), (IH H2). reflexivity.
Qed.

Lemma no_linebreak_app a b : no_linebreak (a ++ b) = no_linebreak a && no_linebreak b.
Proof. unfold no_linebreak. apply forallb_app. Qed.
Lemma inline_no_linebreak s : forallb is_inline_ws s = true -> no_linebreak s = true.
Proof. apply forallb_impl. exact inline_nolb. Qed.
Lemma word_no_linebreak w : word_ok w = true -> no_linebreak w = true.
Proof. unfold word_ok. intros H. apply andb_prop in H. revert H. intros [_ H]. revert H. apply forallb_impl. exact nonws_nolb. Qed.

Definition more_ok (more : list (str * str)) : bool :=
  forallb (fun p => nonempty (fst p) && forallb is_inline_ws (fst p) && word_ok (snd p)) more.
Lemma more_no_linebreak more : more_ok more = true -> no_linebreak (concat (map (fun p => fst p ++ snd p) more)) = true.
Proof.
  induction more as [|[sp w] more IH]; intros H; [reflexivity|].
  cbn [more_ok forallb fst snd] in H. apply andb_prop in H. destruct H as [H1 H2].
  apply andb_prop in H1. destruct H1 as [H1 Hw]. apply andb_prop in H1. destruct H1 as [_ Hs].
  cbn [map concat fst snd]. rewrite !no_linebreak_app.
  rewrite (inline_no_linebreak _ Hs), (word_no_linebreak _ Hw), (IH H2). reflexivity.
Qed.

Lemma aline_no_linebreak l : aline_ok l = true -> no_linebreak (render_aline l) = true.
Proof.
  destruct l as [lead text|ws|lead w1 more trail]; cbn [aline_ok render_aline]; intros H.
  - apply andb_prop in H. destruct H as [H1 H2]. rewrite no_linebreak_app, (inline_no_linebreak _ H1).
    unfold no_linebreak in *. cbn [forallb]. rewrite H2. reflexivity.
  - apply inline_no_linebreak. exact H.
  - apply andb_prop in H. destruct H as [H Ht]. apply andb_prop in H. destruct H as [H Hm].
    apply andb_prop in H. destruct H as [H _]. apply andb_prop in H. destruct H as [Hl Hw].
    rewrite !no_linebreak_app. rewrite (inline_no_linebreak _ Hl), (word_no_linebreak _ Hw),
      (more_no_linebreak _ Hm), (inline_no_linebreak _ Ht). reflexivity.
Qed.

Lemma render_lines f : afile_ok f = true -> splitlines (universal_nl (render f)) = map render_aline f.
Proof.
  intros H. unfold render. rewrite <- (map_map render_aline (fun l => l ++ [x0a])).
  apply lines_of_rendered. rewrite forallb_forall. intros l Hin. apply in_map_iff in Hin.
  destruct Hin as (a & <- & Ha). apply aline_no_linebreak.
  unfold afile_ok in H. rewrite forallb_forall in H. exact (H a Ha).
Qed.

(* ---- words ---- *)
Definition ws_start (t : str) : bool := match t with [] => true | c :: _ => is_ws c end.

Lemma split_ws_skip sp s : forallb is_ws sp = true -> split_ws (sp ++ s) = split_ws s.
Proof.
  induction sp as [|c sp IH]; intros H; [reflexivity|].
  cbn [forallb] in H. apply andb_prop in H. destruct H as [H1 H2].
  cbn [app split_ws]. rewrite H1. exact (IH H2).
Qed.
Lemma split_ws_all_ws sp : forallb is_ws sp = true -> split_ws sp = [].
Proof. intros H. rewrite <- (app_nil_r sp). rewrite (split_ws_skip sp [] H). reflexivity. Qed.
Lemma split_ws_one_word w t : word_ok w = true -> ws_start t = true -> split_ws (w ++ t) = w :: split_ws t.
Proof.
  unfold word_ok. intros H Ht. apply andb_prop in H. destruct H as [Hne H].
  induction w as [|c w IH]; [discriminate|].
  cbn [forallb] in H. apply andb_prop in H. destruct H as [Hc Hw].
  assert (Ec : is_ws c = false) by (destruct (is_ws c); [discriminate|reflexivity]).
  destruct w as [|c2 w].
  - cbn [app split_ws]. rewrite Ec. destruct t as [|d t]; [reflexivity|]. cbn [ws_start] in Ht. rewrite Ht. reflexivity.
  - pose proof (IH eq_refl Hw) as E. cbn [forallb] in Hw. apply andb_prop in Hw. destruct Hw as [Hc2 _].
    assert (Ec2 : is_ws c2 = false) by (destruct (is_ws c2); [discriminate|reflexivity]).
    cbn [app split_ws] in *. rewrite Ec, Ec2 in *. rewrite E. reflexivity.
Qed.
Lemma inline_all_ws s : forallb is_inline_ws s = true -> forallb is_ws s = true.
Proof. apply forallb_impl. exact inline_ws. Qed.

Lemma ws_start_tail more trail : more_ok more = true -> forallb is_inline_ws trail = true ->
  ws_start (concat (map (fun p => fst p ++ snd p) more) ++ trail) = true.
Proof.
  intros Hm Ht. destruct more as [|[sp w] more].
  - cbn. destruct trail as [|c t]; [reflexivity|]. cbn in *. apply andb_prop in Ht. apply inline_ws. exact (proj1 Ht).
  - cbn [more_ok forallb fst snd] in Hm. apply andb_prop in Hm. destruct Hm as [H1 _].
    apply andb_prop in H1. destruct H1 as [H1 _]. apply andb_prop in H1. destruct H1 as [Hne Hs].
    destruct sp as [|c sp]; [discriminate|]. cbn in *. apply andb_prop in Hs. apply inline_ws. exact (proj1 Hs).
Qed.
Lemma split_ws_more more trail : more_ok more = true -> forallb is_inline_ws trail = true ->
  split_ws (concat (map (fun p => fst p ++ snd p) more) ++ trail) = map snd more.
Proof.
  intros Hm Ht. induction more as [|[sp w] more IH].
  - cbn. apply split_ws_all_ws. apply inline_all_ws. exact Ht.
  - pose proof Hm as Hm0. cbn [more_ok forallb fst snd] in Hm. apply andb_prop in Hm. destruct Hm as [H1 H2].
    apply andb_prop in H1. destruct H1 as [H1 Hw]. apply andb_prop in H1. destruct H1 as [_ Hs].
    cbn [map concat fst snd]. rewrite <- !app_assoc.
    rewrite (split_ws_skip sp _ (inline_all_ws _ Hs)).
    rewrite (split_ws_one_word w _ Hw (ws_start_tail more trail H2 Ht)).
    rewrite (IH H2). reflexivity.
Qed.
Lemma split_ws_words lead w1 more trail : aline_ok (AWords lead w1 more trail) = true ->
  split_ws (render_aline (AWords lead w1 more trail)) = w1 :: map snd more.
Proof.
  cbn [aline_ok render_aline]. intros H.
  apply andb_prop in H. destruct H as [H Ht]. apply andb_prop in H. destruct H as [H Hm].
  apply andb_prop in H. destruct H as [H _]. apply andb_prop in H. destruct H as [Hl Hw].
  rewrite (split_ws_skip lead _ (inline_all_ws _ Hl)).
  rewrite (split_ws_one_word w1 _ Hw (ws_start_tail more trail Hm Ht)).
  rewrite (split_ws_more more trail Hm Ht). reflexivity.
Qed.

(* ---- the line filter ---- *)
Lemma lstrip_all_ws s : forallb is_ws s = true -> lstrip s = [].
Proof.
  induction s as [|c s IH]; intros H; [reflexivity|].
  cbn [forallb] in H. apply andb_prop in H. destruct H as [H1 H2]. cbn [lstrip]. rewrite H1. exact (IH H2).
Qed.
Lemma lstrip_skip sp s : forallb is_ws sp = true -> lstrip (sp ++ s) = lstrip s.
Proof.
  induction sp as [|c sp IH]; intros H; [reflexivity|].
  cbn [forallb] in H. apply andb_prop in H. destruct H as [H1 H2]. cbn [app lstrip]. rewrite H1. exact (IH H2).
Qed.
Lemma lstrip_snoc a c : is_ws c = false -> lstrip (a ++ [c]) = lstrip a ++ [c].
Proof.
  intros Hc. induction a as [|d a IH]; cbn [app lstrip]; [rewrite Hc; reflexivity|].
  destruct (is_ws d); [exact IH|reflexivity].
Qed.
Lemma rstrip_head c s : is_ws c = false -> exists t, rstrip (c :: s) = c :: t.
Proof.
  intros Hc. unfold rstrip. cbn [rev]. rewrite (lstrip_snoc _ _ Hc). rewrite rev_app_distr. cbn. eexists. reflexivity.
Qed.
Lemma skipped_nonws_head sp c s : forallb is_ws sp = true -> is_ws c = false ->
  skipped (sp ++ c :: s) = byte_eqb c "#"%byte.
Proof.
  intros Hs Hc. unfold skipped, strip. rewrite (lstrip_skip sp _ Hs). cbn [lstrip]. rewrite Hc.
  destruct (rstrip_head c s Hc) as (t & ->). reflexivity.
Qed.
Lemma skipped_all_ws s : forallb is_ws s = true -> skipped s = true.
Proof. intros H. unfold skipped, strip. rewrite (lstrip_all_ws s H). reflexivity. Qed.

Lemma skipped_aline l : aline_ok l = true -> skipped (render_aline l) = negb (is_words l).
Proof.
  destruct l as [lead text|ws|lead w1 more trail]; cbn [aline_ok render_aline is_words negb]; intros H.
  - apply andb_prop in H. destruct H as [H1 _].
    rewrite (skipped_nonws_head lead "#"%byte text (inline_all_ws _ H1) eq_refl). reflexivity.
  - apply skipped_all_ws. apply inline_all_ws. exact H.
  - apply andb_prop in H. destruct H as [H _]. apply andb_prop in H. destruct H as [H _].
    apply andb_prop in H. destruct H as [H Hh]. apply andb_prop in H. destruct H as [Hl Hw].
    unfold word_ok in Hw. apply andb_prop in Hw. destruct Hw as [Hne Hw].
    destruct w1 as [|c w1]; [discriminate|]. cbn [forallb] in Hw. apply andb_prop in Hw. destruct Hw as [Hc _].
    cbn [hd] in Hh. cbn [app].
    rewrite (skipped_nonws_head lead c _ (inline_all_ws _ Hl)); [|destruct (is_ws c); [discriminate|reflexivity]].
    destruct (byte_eqb c "#"%byte); [discriminate|reflexivity].
Qed.

Lemma content_lines_render f : afile_ok f = true ->
  content_lines (render f) = map render_aline (filter is_words f).
Proof.
  intros H. unfold content_lines. rewrite (render_lines f H).
  unfold afile_ok in H. induction f as [|l f IH]; [reflexivity|].
  cbn [forallb] in H. apply andb_prop in H. destruct H as [H1 H2].
  cbn [map filter]. rewrite (skipped_aline l H1), negb_involutive.
  destruct (is_words l); cbn [map]; rewrite (IH H2); reflexivity.
Qed.

(* words of the non-skipped lines of a rendered file are the abstract word lists *)
Lemma words_of_rendered f : afile_ok f = true -> map split_ws (content_lines (render f)) = word_lines f.
Proof.
  intros H. rewrite (content_lines_render f H). unfold afile_ok in H.
  induction f as [|l f IH]; [reflexivity|].
  cbn [forallb] in H. apply andb_prop in H. destruct H as [H1 H2].
  destruct l as [lead text|ws|lead w1 more trail]; cbn [filter is_words word_lines map]; try exact (IH H2).
  rewrite (split_ws_words _ _ _ _ H1), (IH H2). reflexivity.
Qed.

(* ================= other line terminators, missing final terminator ================= *)
Definition nonskipped (l : str) : bool := negb (skipped l).
Definition not_lf_start (s : str) : bool := match s with c :: _ => negb (byte_eqb c x0a) | [] => true end.

Lemma filter_rendered f : afile_ok f = true ->
  filter nonskipped (map render_aline f) = map render_aline (filter is_words f).
Proof.
  unfold afile_ok, nonskipped. induction f as [|l f IH]; intros H; [reflexivity|].
  cbn [forallb] in H. apply andb_prop in H. destruct H as [H1 H2].
  cbn [map filter]. rewrite (skipped_aline l H1), negb_involutive.
  destruct (is_words l); cbn [map]; rewrite (IH H2); reflexivity.
Qed.
Lemma words_of_filtered f : afile_ok f = true ->
  map split_ws (map render_aline (filter is_words f)) = word_lines f.
Proof.
  unfold afile_ok. induction f as [|l f IH]; intros H; [reflexivity|].
  cbn [forallb] in H. apply andb_prop in H. destruct H as [H1 H2].
  destruct l as [lead text|ws|lead w1 more trail]; cbn [filter is_words word_lines map]; try exact (IH H2).
  rewrite (split_ws_words _ _ _ _ H1), (IH H2). reflexivity.
Qed.

Lemma universal_nl_crlf l s : no_linebreak l = true ->
  universal_nl (l ++ x0d :: x0a :: s) = l ++ x0a :: universal_nl s.
Proof.
  unfold no_linebreak. induction l as [|c l IH]; intros H; [reflexivity|].
  cbn [forallb] in H. apply andb_prop in H. destruct H as [H1 H2].
  cbn [app universal_nl]. rewrite (nolb_nocr c H1), (IH H2). reflexivity.
Qed.
Lemma universal_nl_cr l s : no_linebreak l = true -> not_lf_start s = true ->
  universal_nl (l ++ x0d :: s) = l ++ x0a :: universal_nl s.
Proof.
  unfold no_linebreak. intros H Hs. induction l as [|c l IH].
  - cbn [app universal_nl]. change (byte_eqb x0d x0d) with true. cbv iota.
    destruct s as [|d s']; [reflexivity|]. cbn [not_lf_start] in Hs.
    destruct (byte_eqb d x0a); [discriminate|reflexivity].
  - cbn [forallb] in H. apply andb_prop in H. destruct H as [H1 H2].
    cbn [app universal_nl]. rewrite (nolb_nocr c H1), (IH H2). reflexivity.
Qed.
Lemma universal_nl_nolb l : no_linebreak l = true -> universal_nl l = l.
Proof.
  unfold no_linebreak. induction l as [|c l IH]; intros H; [reflexivity|].
  cbn [forallb] in H. apply andb_prop in H. destruct H as [H1 H2].
  cbn [universal_nl]. rewrite (nolb_nocr c H1), (IH H2). reflexivity.
Qed.
Lemma splitlines_last l : no_linebreak l = true -> l <> [] -> splitlines l = [l].
Proof.
  unfold no_linebreak. induction l as [|c l IH]; intros H Hne; [congruence|].
  cbn [forallb] in H. apply andb_prop in H. destruct H as [H1 H2].
  cbn [splitlines]. destruct (is_linebreak c); [discriminate|].
  destruct l as [|d l']; [reflexivity|]. rewrite (IH H2); [reflexivity|discriminate].
Qed.

Definition L (s : str) : list str := splitlines (universal_nl s).
Lemma L_line e l s : no_linebreak l = true -> (e = CR -> not_lf_start s = true) ->
  L (l ++ eol_str e ++ s) = l :: L s.
Proof.
  intros H Hs. unfold L. destruct e; cbn [eol_str app].
  - rewrite (universal_nl_line _ _ H). apply splitlines_line. exact H.
  - rewrite (universal_nl_crlf _ _ H). apply splitlines_line. exact H.
  - rewrite (universal_nl_cr _ _ H (Hs eq_refl)). apply splitlines_line. exact H.
  - rewrite (universal_nl_sep l x0b s H eq_refl). apply splitlines_sep; [exact H|reflexivity].
  - rewrite (universal_nl_sep l x0c s H eq_refl). apply splitlines_sep; [exact H|reflexivity].
  - rewrite (universal_nl_sep l x1c s H eq_refl). apply splitlines_sep; [exact H|reflexivity].
  - rewrite (universal_nl_sep l x1d s H eq_refl). apply splitlines_sep; [exact H|reflexivity].
  - rewrite (universal_nl_sep l x1e s H eq_refl). apply splitlines_sep; [exact H|reflexivity].
  - rewrite (universal_nl_sep l x85 s H eq_refl). apply splitlines_sep; [exact H|reflexivity].
Qed.
Lemma L_last l : no_linebreak l = true -> filter nonskipped (L l) = filter nonskipped [l].
Proof.
  intros H. unfold L. rewrite (universal_nl_nolb l H).
  destruct l as [|c l']; [reflexivity|]. rewrite (splitlines_last _ H); [reflexivity|discriminate].
Qed.

Lemma nolb_not_lf c : negb (is_linebreak c) = true -> negb (byte_eqb c x0a) = true.
Proof. destruct c; vm_compute; intros H; try reflexivity; discriminate. Qed.
Lemma not_lf_start_app l s : no_linebreak l = true -> not_lf_start s = true -> not_lf_start (l ++ s) = true.
Proof.
  destruct l as [|c l]; [intros _ H; exact H|]. unfold no_linebreak. cbn [forallb app not_lf_start].
  intros H _. apply andb_prop in H. apply nolb_not_lf. exact (proj1 H).
Qed.
Lemma not_lf_start_render final f : afile_ok f = true -> not_lf_start (render_with CR final f) = true.
Proof.
  unfold afile_ok. destruct f as [|l r]; intros H; [reflexivity|].
  cbn [forallb] in H. apply andb_prop in H. destruct H as [H1 _].
  cbn [render_with]. apply not_lf_start_app; [apply aline_no_linebreak; exact H1|].
  destruct r; [destruct final; reflexivity|reflexivity].
Qed.

Lemma content_lines_render_with e final f : afile_ok f = true ->
  content_lines (render_with e final f) = map render_aline (filter is_words f).
Proof.
  intros H. rewrite <- (filter_rendered f H).
  unfold content_lines. change (splitlines (universal_nl ?x)) with (L x). fold nonskipped.
  unfold afile_ok in H. induction f as [|l r IH]; [reflexivity|].
  cbn [forallb] in H. apply andb_prop in H. destruct H as [H1 H2].
  pose proof (aline_no_linebreak l H1) as Hl.
  cbn [render_with]. destruct r as [|l2 r'].
  - destruct final.
    + rewrite <- (app_nil_r (eol_str e)). rewrite (L_line e _ [] Hl (fun _ => eq_refl)). reflexivity.
    + rewrite app_nil_r. apply L_last. exact Hl.
  - assert (Hcr : e = CR -> not_lf_start (render_with e final (l2 :: r')) = true)
      by (intros ->; apply not_lf_start_render; exact H2).
    rewrite (L_line e _ _ Hl Hcr).
    cbn [map filter]. rewrite (IH H2). reflexivity.
Qed.
Lemma words_of_rendered_with e final f : afile_ok f = true ->
  map split_ws (content_lines (render_with e final f)) = word_lines f.
Proof. intros H. rewrite (content_lines_render_with e final f H). apply words_of_filtered. exact H. Qed.
