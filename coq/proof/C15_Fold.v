(* C15 proofs, part 3: the reader's fold over items rebuilds the alignment; round trip; successive reads. *)
From Coq Require Import List ZArith NArith Bool Arith Lia.
From Coq.Strings Require Import Byte.
Import ListNotations.
From SV Require Import Text G_flags C15_Model C15_Lemmas C15_Read.

Definition kv_gf (kv : str * str) : item := IGF (fst kv) (snd kv).
Definition kv_gc (kv : str * str) : item := IGC (fst kv) (snd kv).
Definition gs_items (r : row) : list item := map (fun kv => IGS (r_id r) (fst kv) (snd kv)) (r_gs r).
Definition seq_items (r : row) : list item :=
  ISeq (r_id r) (r_data r) :: map (fun kv => IGR (r_id r) (fst kv) (snd kv)) (r_gr r).
Definition items_of (a : aln) : list item :=
  IBlank :: map kv_gf (a_gf a) ++ flat_map gs_items (a_rows a) ++ flat_map seq_items (a_rows a) ++ map kv_gc (a_gc a).
Definition good (it : item) : bool := match it with IEnd | IBad => false | _ => true end.

Lemma run_items_app {A} (parse : A -> item) ls e rest : forall s,
  forallb good (map parse ls) = true -> parse e = IEnd ->
  run_items parse (ls ++ e :: rest) s = (Some (fold_left step (map parse ls) s), rest).
Proof.
  induction ls as [|l ls IH]; simpl; intros s H He.
  - rewrite He. reflexivity.
  - apply andb_prop in H. destruct H as [H1 H2]. rewrite <- (IH (step s (parse l)) H2 He).
    destruct (parse l); try discriminate; reflexivity.
Qed.

(* ------------------------------------------------------------------ phases of the fold *)
Definition updf (f : str -> option str -> str) (d : dict str) (kv : str * str) : dict str := upd (fst kv) (f (snd kv)) d.
Definition updsub (f : str -> option str -> str) (i : str) (D : dict (dict str)) (kv : str * str) : dict (dict str) :=
  upd i (sub_upd (fst kv) (f (snd kv))) D.

Lemma phase_gf l : forall s, fold_left step (map kv_gf l) s =
  mkst (fold_left (updf join_sp) l (s_gf s)) (s_gc s) (s_gs s) (s_gr s) (s_seqs s).
Proof. induction l as [|kv l IH]; intros [a b c d e]; simpl; [reflexivity|]. rewrite IH. reflexivity. Qed.
Lemma phase_gc l : forall s, fold_left step (map kv_gc l) s =
  mkst (s_gf s) (fold_left (updf cat) l (s_gc s)) (s_gs s) (s_gr s) (s_seqs s).
Proof. induction l as [|kv l IH]; intros [a b c d e]; simpl; [reflexivity|]. rewrite IH. reflexivity. Qed.
Lemma phase_gs_row i l : forall s, fold_left step (map (fun kv => IGS i (fst kv) (snd kv)) l) s =
  mkst (s_gf s) (s_gc s) (fold_left (updsub join_sp i) l (s_gs s)) (s_gr s) (s_seqs s).
Proof. induction l as [|kv l IH]; intros [a b c d e]; simpl; [reflexivity|]. rewrite IH. reflexivity. Qed.
Lemma phase_gr_row i l : forall s, fold_left step (map (fun kv => IGR i (fst kv) (snd kv)) l) s =
  mkst (s_gf s) (s_gc s) (s_gs s) (fold_left (updsub cat i) l (s_gr s)) (s_seqs s).
Proof. induction l as [|kv l IH]; intros [a b c d e]; simpl; [reflexivity|]. rewrite IH. reflexivity. Qed.
Definition gs_all (rows : list row) (D : dict (dict str)) := fold_left (fun D r => fold_left (updsub join_sp (r_id r)) (r_gs r) D) rows D.
Definition gr_all (rows : list row) (D : dict (dict str)) := fold_left (fun D r => fold_left (updsub cat (r_id r)) (r_gr r) D) rows D.
Definition seqs_all (rows : list row) (d : dict str) := fold_left (fun d r => upd (r_id r) (cat (r_data r)) d) rows d.
Lemma phase_gs rows : forall s, fold_left step (flat_map gs_items rows) s =
  mkst (s_gf s) (s_gc s) (gs_all rows (s_gs s)) (s_gr s) (s_seqs s).
Proof.
  induction rows as [|r rows IH]; intros s; [destruct s; reflexivity|].
  cbn [flat_map]. rewrite fold_left_app, IH. unfold gs_items. rewrite phase_gs_row. destruct s; reflexivity.
Qed.
Lemma phase_seq rows : forall s, fold_left step (flat_map seq_items rows) s =
  mkst (s_gf s) (s_gc s) (s_gs s) (gr_all rows (s_gr s)) (seqs_all rows (s_seqs s)).
Proof.
  induction rows as [|r rows IH]; intros s; [destruct s; reflexivity|].
  cbn [flat_map]. rewrite fold_left_app, IH. unfold seq_items. cbn [fold_left]. rewrite phase_gr_row. destruct s; reflexivity.
Qed.

(* ------------------------------------------------------------------ nested dictionaries seen through lookups *)
Definition getd (i : str) (D : dict (dict str)) : dict str := odict (lookup i D).
Lemma getd_row_same f i l : forall D, getd i (fold_left (updsub f i) l D) = fold_left (updf f) l (getd i D).
Proof.
  induction l as [|kv l IH]; intros D; simpl; [reflexivity|]. rewrite IH. f_equal.
  unfold getd, updsub. rewrite lookup_upd_same. reflexivity.
Qed.
Lemma getd_row_other f i i2 l : i2 <> i -> forall D, getd i2 (fold_left (updsub f i) l D) = getd i2 D.
Proof.
  intros Hn. induction l as [|kv l IH]; intros D; simpl; [reflexivity|]. rewrite IH.
  unfold getd, updsub. rewrite lookup_upd_other by exact Hn. reflexivity.
Qed.
Section Rows.
  Variable f : str -> option str -> str.
  Variable proj : row -> dict str.
  Definition all_rows (rows : list row) (D : dict (dict str)) := fold_left (fun D r => fold_left (updsub f (r_id r)) (proj r) D) rows D.
  Lemma getd_rows_notin i rows : ~ In i (map r_id rows) -> forall D, getd i (all_rows rows D) = getd i D.
  Proof.
    induction rows as [|r rows IH]; intros Hn D; simpl; [reflexivity|].
    unfold all_rows in *. simpl. rewrite IH by (intros H; apply Hn; right; exact H).
    apply getd_row_other. intros E. apply Hn. left. symmetry. exact E.
  Qed.
  Lemma getd_rows rows r : NoDup (map r_id rows) -> In r rows -> forall D,
    getd (r_id r) (all_rows rows D) = fold_left (updf f) (proj r) (getd (r_id r) D).
  Proof.
    induction rows as [|r0 rows IH]; intros Hnd Hin D; [destruct Hin|].
    simpl in Hnd. inversion Hnd as [|x l Hx Hnd']; subst. unfold all_rows in *. simpl.
    destruct Hin as [E|Hin].
    - subst r0. fold (all_rows rows (fold_left (updsub f (r_id r)) (proj r) D)).
      rewrite getd_rows_notin by exact Hx. apply getd_row_same.
    - rewrite (IH Hnd' Hin). f_equal. apply getd_row_other. intros E. apply Hx. rewrite <- E. apply in_map. exact Hin.
  Qed.
End Rows.

Lemma seqs_all_fresh rows : forall d, NoDup (keys d ++ map r_id rows) ->
  seqs_all rows d = d ++ map (fun r => (r_id r, r_data r)) rows.
Proof.
  induction rows as [|r rows IH]; intros d H; simpl; [rewrite app_nil_r; reflexivity|].
  unfold seqs_all in *. simpl. rewrite upd_notin.
  - simpl. rewrite IH; [rewrite <- app_assoc; reflexivity|].
    unfold keys in *. rewrite map_app. simpl. rewrite <- app_assoc. exact H.
  - simpl in H. apply NoDup_remove_2 in H. intros Hin. apply H. apply in_or_app. left. exact Hin.
Qed.

(* ------------------------------------------------------------------ well-formedness, unpacked *)
Lemma wf_key_tokk k : wf_key k = true -> tokk k.
Proof.
  unfold wf_key. intros H. apply andb_prop in H. destruct H as [H _]. apply andb_prop in H. destruct H as [H1 H2].
  split; [destruct k; [discriminate|discriminate]|exact H2].
Qed.
Lemma wf_dict_facts wfv d : wf_dict wfv d = true ->
  (forall kv, In kv d -> tokk (fst kv) /\ wfv (snd kv) = true) /\ NoDup (keys d).
Proof.
  unfold wf_dict. intros H. apply andb_prop in H. destruct H as [H1 H2]. split.
  - intros kv Hin. rewrite forallb_forall in H1. specialize (H1 kv Hin). apply andb_prop in H1. destruct H1 as [A B].
    split; [apply wf_key_tokk; exact A|exact B].
  - apply nodup_str_NoDup. exact H2.
Qed.
Record rowok (w : nat) (r : row) : Prop := {
  ro_id : wf_id (r_id r) = true;
  ro_data : valk (r_data r) /\ no_nl (r_data r) /\ length (r_data r) = w /\ forallb is_graph (r_data r) = true;
  ro_upper : upper (r_data r) = r_data r;
  ro_gs : (forall kv, In kv (r_gs r) -> tokk (fst kv) /\ wf_val (snd kv) = true) /\ NoDup (keys (r_gs r));
  ro_gr : (forall kv, In kv (r_gr r) -> tokk (fst kv) /\ wf_col w (snd kv) = true) /\ NoDup (keys (r_gr r)) }.
Lemma wf_row_ok w r : 1 <= w -> wf_row w r = true -> rowok w r.
Proof.
  unfold wf_row, wf_data. intros Hw H. apply andb_prop in H. destruct H as [H H4]. apply andb_prop in H. destruct H as [H H3].
  apply andb_prop in H. destruct H as [H1 H2]. apply andb_prop in H2. destruct H2 as [H2 H2u].
  constructor; [exact H1|apply (wf_col_valk w _ Hw H2)|apply upper_fix; exact H2u|apply wf_dict_facts; exact H3|apply wf_dict_facts; exact H4].
Qed.
Record alnok (a : aln) : Prop := {
  ao_w : 1 <= width a;
  ao_rows : forall r, In r (a_rows a) -> rowok (width a) r;
  ao_ids : NoDup (map r_id (a_rows a));
  ao_ne : a_rows a <> [];
  ao_gf : (forall kv, In kv (a_gf a) -> tokk (fst kv) /\ wf_val (snd kv) = true) /\ NoDup (keys (a_gf a));
  ao_gc : (forall kv, In kv (a_gc a) -> tokk (fst kv) /\ wf_col (width a) (snd kv) = true) /\ NoDup (keys (a_gc a)) }.
Lemma wf_aln_ok a : wf_aln a = true -> alnok a.
Proof.
  unfold wf_aln. intros H. apply andb_prop in H. destruct H as [H H6]. apply andb_prop in H. destruct H as [H H5].
  apply andb_prop in H. destruct H as [H H4]. apply andb_prop in H. destruct H as [H H3]. apply andb_prop in H. destruct H as [H1 H2].
  apply Nat.leb_le in H2.
  constructor; [exact H2| |apply nodup_str_NoDup; exact H4|destruct (a_rows a); [discriminate|discriminate]
               |apply wf_dict_facts; exact H5|apply wf_dict_facts; exact H6].
  intros r Hin. rewrite forallb_forall in H3. apply wf_row_ok; [exact H2|apply H3; exact Hin].
Qed.

(* ------------------------------------------------------------------ the fold rebuilds the alignment *)
Lemma cat_none v : cat v None = v. Proof. reflexivity. Qed.
Lemma join_sp_none v : join_sp v None = v. Proof. reflexivity. Qed.

Lemma fold_items a : alnok a -> finish (fold_left step (items_of a) st0) = a.
Proof.
  intros [Hw Hrows Hids Hne [_ Hgf] [_ Hgc]]. unfold items_of. cbn [fold_left step].
  rewrite !fold_left_app, phase_gf, phase_gs, phase_seq, phase_gc. cbn [s_gf s_gc s_gs s_gr s_seqs st0].
  unfold finish. cbn [s_gf s_gc s_gs s_gr s_seqs].
  unfold updf. rewrite (fold_upd_fresh join_sp join_sp_none) by exact Hgf.
  rewrite (fold_upd_fresh cat cat_none) by exact Hgc. cbn [app].
  rewrite seqs_all_fresh by exact Hids. cbn [app]. rewrite map_map. cbn [fst snd].
  destruct a as [gf gc rows]. cbn [a_gf a_gc a_rows] in *. f_equal.
  transitivity (map (fun r : row => r) rows); [|apply map_id]. apply map_ext_in. intros r Hin.
  destruct (Hrows r Hin) as [_ _ Hu [_ Hgs] [_ Hgr]]. rewrite Hu.
  fold (getd (r_id r) (gs_all rows [])). fold (getd (r_id r) (gr_all rows [])).
  change (gs_all rows []) with (all_rows join_sp r_gs rows []).
  change (gr_all rows []) with (all_rows cat r_gr rows []).
  rewrite (getd_rows join_sp r_gs rows r Hids Hin), (getd_rows cat r_gr rows r Hids Hin).
  unfold getd. cbn [lookup odict]. unfold updf.
  rewrite (fold_upd_fresh join_sp join_sp_none) by exact Hgs.
  rewrite (fold_upd_fresh cat cat_none) by exact Hgr. destruct r; reflexivity.
Qed.

(* ------------------------------------------------------------------ lines of the writer and their items *)
Definition content_lines (a : aln) : list str :=
  HEADER :: map (kvline GFt []) (a_gf a) ++ flat_map gs_lines (a_rows a) ++ flat_map seq_lines (a_rows a)
  ++ map (kvline GCt []) (a_gc a).
Definition ENDL : str := bs "//"%bs ++ [NL].
Lemma write_lines_eq a : write_lines a = content_lines a ++ [ENDL].
Proof. unfold write_lines, content_lines. cbn [app]. rewrite <- !app_assoc. reflexivity. Qed.

Lemma map_flat_map {A B C} (f : B -> C) (g : A -> list B) l : map f (flat_map g l) = flat_map (fun x => map f (g x)) l.
Proof. induction l as [|x l IH]; simpl; [reflexivity|]. rewrite map_app, IH. reflexivity. Qed.
Lemma flat_map_ext_in {A B} (f g : A -> list B) l : (forall x, In x l -> f x = g x) -> flat_map f l = flat_map g l.
Proof.
  induction l as [|x l IH]; simpl; intros H; [reflexivity|]. rewrite (H x (or_introl eq_refl)), IH; [reflexivity|].
  intros y Hy. apply H. right. exact Hy.
Qed.

Definition pl (l : str) : item := parse_line (addnl l).
Lemma lines_items a : alnok a -> map pl (content_lines a) = items_of a.
Proof.
  intros [Hw Hrows Hids Hne [Hgf _] [Hgc _]]. unfold content_lines, items_of. cbn [map]. f_equal.
  rewrite !map_app. f_equal; [|f_equal; [|f_equal]].
  - rewrite map_map. apply map_ext_in. intros kv Hin. destruct (Hgf kv Hin) as [Hk Hv]. destruct kv as [k v].
    unfold pl. apply parse_gf; [exact Hk|apply (wf_val_valk v Hv)].
  - rewrite map_flat_map. apply flat_map_ext_in. intros r Hin. destruct (Hrows r Hin) as [Hid _ _ [Hgs _] _].
    unfold gs_lines, gs_items. rewrite map_map. apply map_ext_in. intros kv Hk. destruct (Hgs kv Hk) as [Hkk Hv].
    destruct kv as [k v]. unfold pl. apply parse_gs; [apply (wf_id_facts _ Hid)|exact Hkk|apply (wf_val_valk v Hv)].
  - rewrite map_flat_map. apply flat_map_ext_in. intros r Hin. destruct (Hrows r Hin) as [Hid [Hd _] _ _ [Hgr _]].
    unfold seq_lines, seq_items. cbn [map]. f_equal.
    + unfold pl. apply parse_seq; assumption.
    + rewrite map_map. apply map_ext_in. intros kv Hk. destruct (Hgr kv Hk) as [Hkk Hv].
      destruct kv as [k v]. unfold pl. apply parse_gr; [apply (wf_id_facts _ Hid)|exact Hkk|apply (wf_col_valk _ v Hw Hv)].
  - rewrite map_map. apply map_ext_in. intros kv Hin. destruct (Hgc kv Hin) as [Hk Hv]. destruct kv as [k v].
    unfold pl. apply parse_gc; [exact Hk|apply (wf_col_valk _ v Hw Hv)].
Qed.

Lemma tokk_no_nl k : tokk k -> no_nl k.
Proof. intros [_ H]. apply graph_no_nl. exact H. Qed.
Lemma sp_not_nl : byte_eqb SP NL = false. Proof. reflexivity. Qed.
Lemma kvline_no_nl tag pre k v : no_nl tag -> no_nl pre -> no_nl k -> no_nl v -> no_nl (kvline tag pre (k, v)).
Proof.
  intros. unfold kvline. cbn [fst snd]. apply no_nl_app; [assumption|]. apply no_nl_cons; [exact sp_not_nl|].
  apply no_nl_app; [assumption|]. apply no_nl_app; [assumption|]. apply no_nl_cons; [exact sp_not_nl|assumption].
Qed.
Lemma Forall_flat_map {A B} (P : B -> Prop) (g : A -> list B) l : (forall x, In x l -> Forall P (g x)) -> Forall P (flat_map g l).
Proof.
  induction l as [|x l IH]; simpl; intros H; [constructor|]. apply Forall_app. split; [apply H; left; reflexivity|].
  apply IH. intros y Hy. apply H. right. exact Hy.
Qed.
Lemma Forall_map_in {A B} (P : B -> Prop) (g : A -> B) l : (forall x, In x l -> P (g x)) -> Forall P (map g l).
Proof. intros H. apply Forall_forall. intros y Hy. apply in_map_iff in Hy. destruct Hy as (x & <- & Hx). apply H. exact Hx. Qed.

Lemma lines_no_nl a : alnok a -> Forall no_nl (content_lines a).
Proof.
  intros [Hw Hrows Hids Hne [Hgf _] [Hgc _]]. unfold content_lines. constructor; [reflexivity|].
  repeat (apply Forall_app; split).
  - apply Forall_map_in. intros [k v] Hin. destruct (Hgf _ Hin) as [Hk Hv].
    apply kvline_no_nl; [reflexivity|reflexivity|apply tokk_no_nl; exact Hk|apply (wf_val_valk v Hv)].
  - apply Forall_flat_map. intros r Hin. destruct (Hrows r Hin) as [Hid _ _ [Hgs _] _]. unfold gs_lines.
    apply Forall_map_in. intros [k v] Hk. destruct (Hgs _ Hk) as [Hkk Hv].
    apply kvline_no_nl; [reflexivity| |apply tokk_no_nl; exact Hkk|apply (wf_val_valk v Hv)].
    apply no_nl_app; [apply tokk_no_nl; apply (wf_id_facts _ Hid)|reflexivity].
  - apply Forall_flat_map. intros r Hin. destruct (Hrows r Hin) as [Hid [_ [Hd _]] _ _ [Hgr _]]. unfold seq_lines.
    assert (Hi : no_nl (r_id r)) by (apply tokk_no_nl; apply (wf_id_facts _ Hid)).
    constructor; [apply no_nl_app; [exact Hi|apply no_nl_cons; [exact sp_not_nl|exact Hd]]|].
    apply Forall_map_in. intros [k v] Hk. destruct (Hgr _ Hk) as [Hkk Hv].
    apply kvline_no_nl; [reflexivity|apply no_nl_app; [exact Hi|reflexivity]|apply tokk_no_nl; exact Hkk|apply (wf_col_valk _ v Hw Hv)].
  - apply Forall_map_in. intros [k v] Hin. destruct (Hgc _ Hin) as [Hk Hv].
    apply kvline_no_nl; [reflexivity|reflexivity|apply tokk_no_nl; exact Hk|apply (wf_col_valk _ v Hw Hv)].
Qed.

Lemma forallb_flat_map {A B} (p : B -> bool) (g : A -> list B) l : (forall x, forallb p (g x) = true) -> forallb p (flat_map g l) = true.
Proof. induction l as [|x l IH]; simpl; intros H; [reflexivity|]. rewrite forallb_app, H, IH by exact H. reflexivity. Qed.
Lemma forallb_map_all {A B} (p : B -> bool) (g : A -> B) l : (forall x, p (g x) = true) -> forallb p (map g l) = true.
Proof. induction l as [|x l IH]; simpl; intros H; [reflexivity|]. rewrite H, IH by exact H. reflexivity. Qed.
Lemma items_good a : forallb good (items_of a) = true.
Proof.
  unfold items_of. cbn [forallb good andb]. rewrite !forallb_app.
  rewrite (forallb_map_all good kv_gf) by reflexivity. rewrite (forallb_map_all good kv_gc) by reflexivity.
  rewrite !forallb_flat_map; [reflexivity| |].
  - intros r. unfold seq_items. cbn [forallb good andb]. apply forallb_map_all. reflexivity.
  - intros r. unfold gs_items. apply forallb_map_all. reflexivity.
Qed.

(* ------------------------------------------------------------------ main theorems *)
Theorem read_write_rest a rest : wf_aln a = true -> read_text (write_text a ++ rest) = (Some a, rest).
Proof.
  intros Hwf. pose proof (wf_aln_ok a Hwf) as Hok. unfold read_text, write_text.
  rewrite write_lines_eq, join_snoc. unfold ENDL. rewrite <- !app_assoc. cbn [app].
  rewrite (py_lines_lines _ _ (lines_no_nl a Hok)).
  change (bs "//"%bs ++ NL :: rest) with (bs "//"%bs ++ NL :: rest).
  rewrite (py_lines_line (bs "//"%bs) rest eq_refl).
  pose proof (run_items_app parse_line (map addnl (content_lines a)) (bs "//"%bs ++ [NL]) (py_lines rest) st0) as R.
  unfold str in *. rewrite R; clear R.
  - rewrite map_map. pose proof (lines_items a Hok) as L. unfold pl, str in *. rewrite L. cbn [option_map]. rewrite (fold_items a Hok). rewrite concat_py_lines. reflexivity.
  - rewrite map_map. pose proof (lines_items a Hok) as L. unfold pl, str in *. rewrite L. apply items_good.
  - reflexivity.
Qed.

Theorem stk_roundtrip a : wf_aln a = true -> read_text (write_text a) = (Some a, []).
Proof. intros H. rewrite <- (app_nil_r (write_text a)). apply read_write_rest. exact H. Qed.

Definition empty_aln : aln := mkaln [] [] [].
(* successive reads on one handle return successive alignments, then an empty basket *)
Theorem stk_multi a alns : wf_aln a = true ->
  read_text (concat (map write_text (a :: alns))) = (Some a, concat (map write_text alns))
  /\ read_text [] = (Some empty_aln, []).
Proof. intros H. split; [apply read_write_rest; exact H|reflexivity]. Qed.

Fixpoint read_n (n : nat) (t : str) : list (option aln) :=
  match n with 0 => [] | S n' => let x := read_text t in fst x :: read_n n' (snd x) end.
Theorem stk_multi_all alns : forallb wf_aln alns = true ->
  read_n (S (length alns)) (concat (map write_text alns)) = map Some alns ++ [Some empty_aln].
Proof.
  induction alns as [|a alns IH]; intros H; [reflexivity|].
  simpl in H. apply andb_prop in H. destruct H as [H1 H2].
  change (length (a :: alns)) with (S (length alns)). cbn [read_n map concat].
  rewrite (read_write_rest a _ H1). cbn [fst snd app]. f_equal. apply IH. exact H2.
Qed.

(* repeated GF / GS text lines are joined by one space, other keys untouched *)
Theorem stk_gf_join s k v1 v2 :
  let s' := step (step s (IGF k v1)) (IGF k v2) in
  lookup k (s_gf s') = Some (join_sp v2 (Some (join_sp v1 (lookup k (s_gf s)))))
  /\ (forall k', k' <> k -> lookup k' (s_gf s') = lookup k' (s_gf s))
  /\ (lookup k (s_gf s) = None -> lookup k (s_gf s') = Some (v1 ++ SP :: v2)).
Proof.
  destruct s as [gf gc gs gr sq]. cbn [step s_gf]. split; [|split].
  - rewrite !lookup_upd_same. reflexivity.
  - intros k' Hn. rewrite !lookup_upd_other by exact Hn. reflexivity.
  - intros Hnone. rewrite !lookup_upd_same, Hnone. reflexivity.
Qed.
Theorem stk_gs_join s i k v1 v2 :
  let s' := step (step s (IGS i k v1)) (IGS i k v2) in
  lookup k (getd i (s_gs s')) = Some (join_sp v2 (Some (join_sp v1 (lookup k (getd i (s_gs s))))))
  /\ (forall i', i' <> i -> getd i' (s_gs s') = getd i' (s_gs s)).
Proof.
  destruct s as [gf gc gs gr sq]. cbn [step s_gs]. split.
  - unfold getd. rewrite !lookup_upd_same. cbn [odict]. unfold sub_upd. rewrite !lookup_upd_same. reflexivity.
  - intros i' Hn. unfold getd. rewrite !lookup_upd_other by exact Hn. reflexivity.
Qed.

(* ------------------------------------------------------------------ repeated tags anywhere in the file *)
(* the text fragments of GF tag k, resp. of GS tag k of sequence i, in file order *)
Fixpoint gf_frags (k : str) (its : list item) : list str :=
  match its with
  | [] => []
  | IGF k' v :: r => if str_eqb k' k then v :: gf_frags k r else gf_frags k r
  | _ :: r => gf_frags k r
  end.
Fixpoint gs_frags (i k : str) (its : list item) : list str :=
  match its with
  | [] => []
  | IGS i' k' v :: r => if str_eqb i' i && str_eqb k' k then v :: gs_frags i k r else gs_frags i k r
  | _ :: r => gs_frags i k r
  end.
Definition join_all (o : option str) (vs : list str) : option str := fold_left (fun o v => Some (join_sp v o)) vs o.
Definition spaced (v : str) (vs : list str) : str := v ++ concat (map (cons SP) vs).

Lemma join_all_some x vs : join_all (Some x) vs = Some (spaced x vs).
Proof.
  revert x. induction vs as [|v vs IH]; intros x; simpl; [unfold spaced; simpl; rewrite app_nil_r; reflexivity|].
  unfold join_all in *. simpl. rewrite IH. unfold spaced. simpl. rewrite <- app_assoc. reflexivity.
Qed.

Theorem gf_all_frags k its : forall s,
  lookup k (s_gf (fold_left step its s)) = join_all (lookup k (s_gf s)) (gf_frags k its).
Proof.
  induction its as [|it its IH]; intros s; [reflexivity|]. cbn [fold_left]. rewrite IH. clear IH.
  destruct it; destruct s as [gf gc gs gr sq]; cbn [step s_gf gf_frags]; try reflexivity.
  destruct (str_eqb k0 k) eqn:E.
  - apply str_eqb_eq in E. subst k0. rewrite lookup_upd_same. reflexivity.
  - rewrite lookup_upd_other; [reflexivity|]. intros Heq. subst k0. rewrite str_eqb_refl in E. discriminate.
Qed.
Theorem gs_all_frags i k its : forall s,
  lookup k (getd i (s_gs (fold_left step its s))) = join_all (lookup k (getd i (s_gs s))) (gs_frags i k its).
Proof.
  induction its as [|it its IH]; intros s; [reflexivity|]. cbn [fold_left]. rewrite IH. clear IH.
  destruct it; destruct s as [gf gc gs gr sq]; cbn [step s_gs gs_frags]; try reflexivity.
  destruct (str_eqb s0 i) eqn:E1.
  - apply str_eqb_eq in E1. subst s0. unfold getd at 1. rewrite lookup_upd_same. cbn [odict]. unfold sub_upd.
    fold (odict (lookup i gs)). fold (getd i gs). destruct (str_eqb k0 k) eqn:E2; cbn [andb].
    + apply str_eqb_eq in E2. subst k0. rewrite lookup_upd_same. reflexivity.
    + rewrite lookup_upd_other; [reflexivity|]. intros Heq. subst k0. rewrite str_eqb_refl in E2. discriminate.
  - cbn [andb]. unfold getd at 1. rewrite lookup_upd_other; [reflexivity|].
    intros Heq. subst s0. rewrite str_eqb_refl in E1. discriminate.
Qed.
(* a tag that occurs (first fragment v, later fragments vs, any other lines in between) reads as the fragments joined by
   single spaces in file order *)
Theorem stk_gf_join_anywhere k its v vs : gf_frags k its = v :: vs ->
  lookup k (s_gf (fold_left step its st0)) = Some (spaced v vs).
Proof. intros H. rewrite gf_all_frags, H. cbn [st0 s_gf lookup]. unfold join_all. cbn [fold_left join_sp]. apply join_all_some. Qed.
Theorem stk_gs_join_anywhere i k its v vs : gs_frags i k its = v :: vs ->
  lookup k (getd i (s_gs (fold_left step its st0))) = Some (spaced v vs).
Proof.
  intros H. rewrite gs_all_frags, H. cbn [st0 s_gs]. unfold getd at 1. cbn [lookup odict]. unfold join_all.
  cbn [fold_left join_sp]. apply join_all_some.
Qed.
(* the same on the text of a file: lines before the terminator, whatever they are (markup, sequence blocks, comments) *)
Theorem read_text_gf_join t ls e rest k v vs :
  py_lines t = ls ++ e :: rest -> forallb good (map parse_line ls) = true -> parse_line e = IEnd ->
  gf_frags k (map parse_line ls) = v :: vs ->
  exists a, fst (read_text t) = Some a /\ lookup k (a_gf a) = Some (spaced v vs).
Proof.
  intros Hpy Hgood He Hfr. unfold read_text. rewrite Hpy.
  pose proof (run_items_app parse_line ls e rest st0 Hgood He) as R. unfold str in *. rewrite R.
  cbn [fst option_map]. eexists. split; [reflexivity|]. unfold finish. cbn [a_gf]. apply stk_gf_join_anywhere. exact Hfr.
Qed.
Theorem read_text_gs_join t ls e rest i k v vs r :
  py_lines t = ls ++ e :: rest -> forallb good (map parse_line ls) = true -> parse_line e = IEnd ->
  gs_frags i k (map parse_line ls) = v :: vs ->
  exists a, fst (read_text t) = Some a /\ (In r (a_rows a) -> r_id r = i -> lookup k (r_gs r) = Some (spaced v vs)).
Proof.
  intros Hpy Hgood He Hfr. unfold read_text. rewrite Hpy.
  pose proof (run_items_app parse_line ls e rest st0 Hgood He) as R. unfold str in *. rewrite R.
  cbn [fst option_map]. eexists. split; [reflexivity|]. unfold finish. cbn [a_rows]. intros Hin Hid.
  apply in_map_iff in Hin. destruct Hin as (kv & <- & _). cbn [r_id r_gs] in *. subst i.
  apply (stk_gs_join_anywhere (fst kv) k _ v vs Hfr).
Qed.

(* ------------------------------------------------------------------ column data anywhere in the file: GC, GR, sequence rows *)
Fixpoint gc_frags (k : str) (its : list item) : list str :=
  match its with
  | [] => []
  | IGC k' v :: r => if str_eqb k' k then v :: gc_frags k r else gc_frags k r
  | _ :: r => gc_frags k r
  end.
Fixpoint gr_frags (i k : str) (its : list item) : list str :=
  match its with
  | [] => []
  | IGR i' k' v :: r => if str_eqb i' i && str_eqb k' k then v :: gr_frags i k r else gr_frags i k r
  | _ :: r => gr_frags i k r
  end.
Fixpoint seq_frags (i : str) (its : list item) : list str :=
  match its with
  | [] => []
  | ISeq i' v :: r => if str_eqb i' i then v :: seq_frags i r else seq_frags i r
  | _ :: r => seq_frags i r
  end.
Definition cat_all (o : option str) (vs : list str) : option str := fold_left (fun o v => Some (cat v o)) vs o.
Lemma cat_all_some x vs : cat_all (Some x) vs = Some (x ++ concat vs).
Proof.
  revert x. induction vs as [|v vs IH]; intros x; [simpl; rewrite app_nil_r; reflexivity|].
  unfold cat_all in *. simpl. rewrite IH, <- app_assoc. reflexivity.
Qed.
Lemma cat_all_none v vs : cat_all None (v :: vs) = Some (concat (v :: vs)).
Proof. unfold cat_all. cbn [fold_left cat]. apply cat_all_some. Qed.

Theorem gc_all_frags k its : forall s,
  lookup k (s_gc (fold_left step its s)) = cat_all (lookup k (s_gc s)) (gc_frags k its).
Proof.
  induction its as [|it its IH]; intros s; [reflexivity|]. cbn [fold_left]. rewrite IH. clear IH.
  destruct it; destruct s as [gf gc gs gr sq]; cbn [step s_gc gc_frags]; try reflexivity.
  destruct (str_eqb k0 k) eqn:E.
  - apply str_eqb_eq in E. subst k0. rewrite lookup_upd_same. reflexivity.
  - rewrite lookup_upd_other; [reflexivity|]. intros Heq. subst k0. rewrite str_eqb_refl in E. discriminate.
Qed.
Theorem seq_all_frags i its : forall s,
  lookup i (s_seqs (fold_left step its s)) = cat_all (lookup i (s_seqs s)) (seq_frags i its).
Proof.
  induction its as [|it its IH]; intros s; [reflexivity|]. cbn [fold_left]. rewrite IH. clear IH.
  destruct it; destruct s as [gf gc gs gr sq]; cbn [step s_seqs seq_frags]; try reflexivity.
  destruct (str_eqb k i) eqn:E.
  - apply str_eqb_eq in E. subst k. rewrite lookup_upd_same. reflexivity.
  - rewrite lookup_upd_other; [reflexivity|]. intros Heq. subst k. rewrite str_eqb_refl in E. discriminate.
Qed.
Theorem gr_all_frags i k its : forall s,
  lookup k (getd i (s_gr (fold_left step its s))) = cat_all (lookup k (getd i (s_gr s))) (gr_frags i k its).
Proof.
  induction its as [|it its IH]; intros s; [reflexivity|]. cbn [fold_left]. rewrite IH. clear IH.
  destruct it; destruct s as [gf gc gs gr sq]; cbn [step s_gr gr_frags]; try reflexivity.
  destruct (str_eqb s0 i) eqn:E1.
  - apply str_eqb_eq in E1. subst s0. unfold getd at 1. rewrite lookup_upd_same. cbn [odict]. unfold sub_upd.
    fold (odict (lookup i gr)). fold (getd i gr). destruct (str_eqb k0 k) eqn:E2; cbn [andb].
    + apply str_eqb_eq in E2. subst k0. rewrite lookup_upd_same. reflexivity.
    + rewrite lookup_upd_other; [reflexivity|]. intros Heq. subst k0. rewrite str_eqb_refl in E2. discriminate.
  - cbn [andb]. unfold getd at 1. rewrite lookup_upd_other; [reflexivity|].
    intros Heq. subst s0. rewrite str_eqb_refl in E1. discriminate.
Qed.
(* whatever the placement of the lines (any block layout, markup moved around): every column annotation and every
   sequence reads as the concatenation of its fragments in file order *)
Theorem stk_columns_anywhere its :
  (forall k v vs, gc_frags k its = v :: vs -> lookup k (s_gc (fold_left step its st0)) = Some (concat (v :: vs)))
  /\ (forall i v vs, seq_frags i its = v :: vs -> lookup i (s_seqs (fold_left step its st0)) = Some (concat (v :: vs)))
  /\ (forall i k v vs, gr_frags i k its = v :: vs ->
        lookup k (getd i (s_gr (fold_left step its st0))) = Some (concat (v :: vs))).
Proof.
  split; [|split].
  - intros k v vs H. rewrite gc_all_frags, H. apply cat_all_none.
  - intros i v vs H. rewrite seq_all_frags, H. apply cat_all_none.
  - intros i k v vs H. rewrite gr_all_frags, H. unfold getd at 1. cbn [st0 s_gr lookup odict]. apply cat_all_none.
Qed.
