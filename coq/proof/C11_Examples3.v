(* C11 round 7: computed non-vacuity witnesses for the any-text, typed-column and common-metadata theorems *)
From Coq Require Import List ZArith NArith Bool Lia.
From Coq.Strings Require Import Byte.
Import ListNotations.
From SV Require Import Text G_tab C11_Model C11_Lemmas C11_TextLemmas C11_FileLemmas C11_Examples C11_IntLemmas C11_RenderLemmas
  C11_SelectLemmas C11_BlocksLemmas C11_Examples2 C11_AnyLemmas C11_TableLemmas.
Local Open Scope Z_scope.

Definition locs (r : res (list feat)) : option (list (Z * Z * str)) :=
  match r with Ok fs => Some (map (fun f => (f_start f, f_stop f, f_strand f)) fs) | Err _ => None end.
Definition tab (l : list str) : str := join x09 l.

(* a line soup read with outfmt=: comment, row, blank line, an MMseqs2 name row, a '# Fields:' line, row *)
Definition ex3_outfmt : str := bs "query target qstart qend tstart tend"%bs.
Definition ex3_lines : list str :=
  [bs "# a comment"%bs; tab [bs "q1"%bs; bs "s1"%bs; bs "5"%bs; bs "6"%bs; bs "20"%bs; bs "10"%bs]; bs "   "%bs;
   tab [bs "query"%bs; bs "target"%bs]; bs "# Fields: query id, subject id"%bs;
   tab [bs "q2"%bs; bs "s2"%bs; bs "1"%bs; bs "9"%bs; bs "100"%bs; bs "300"%bs]; bs "#"%bs].
Definition ex3_content : str := unlines ex3_lines.
Lemma witness_any_outfmt :
  (exists hs, headers_from false Mmseqs (split_ws ex3_outfmt) = Ok hs) /\
  length (filter (data_line Mmseqs (Some x09)) (content_lines false ex3_content)) = 2%nat /\
  locs (snd (read_content Mmseqs (Some x09) (Some ex3_outfmt) None false ex3_content)) =
    Some [(9, 20, bs "-"%bs); (99, 300, bs "+"%bs)] /\
  wf_C11 Mmseqs (Some x09) (Some ex3_outfmt) None false ex3_content = true.
Proof. split; [eexists; vm_compute; reflexivity|]. repeat split; vm_compute; reflexivity. Qed.

(* default columns, no header-discovery line: BLAST rows between comments and blank lines *)
Definition ex3_blast_lines : list str :=
  [bs "# BLASTN 2.15.0+"%bs; []; tab [bs "q1"%bs; bs "s1"%bs; bs "99.0"%bs; bs "10"%bs; bs "0"%bs; bs "0"%bs; bs "5"%bs; bs "6"%bs; bs "20"%bs;
   bs "10"%bs; bs "1e-5"%bs; bs "50"%bs]; bs "# in between"%bs;
   tab [bs "q1"%bs; bs "s1"%bs; bs "99.0"%bs; bs "10"%bs; bs "0"%bs; bs "0"%bs; bs "5"%bs; bs "5"%bs; bs "7"%bs;
   bs "3"%bs; bs "1e-5"%bs; bs "0.0"%bs]].
Lemma witness_any_text :
  forallb (fun l => negb (discovery_line Blast (Some x09) l)) (content_lines false (unlines ex3_blast_lines)) = true /\
  (exists names hs, assoc (dialect_name Blast) DEFAULT_OUTFMT = Some names /\ headers_from false Blast names = Ok hs) /\
  locs (snd (read_content Blast (Some x09) None None false (unlines ex3_blast_lines))) =
    Some [(9, 20, bs "-"%bs); (2, 7, bs "."%bs)].
Proof. split; [vm_compute; reflexivity|]. split; [do 2 eexists; split; vm_compute; reflexivity|]. vm_compute. reflexivity. Qed.

(* Infernal: after the ruler, rows, comments, blank lines and a second header/ruler pair in any order *)
Definition ex3_inf_row (s e : str) : str :=
  join " "%byte [bs "chrA"%bs; bs "-"%bs; bs "tRNA5"%bs; bs "-"%bs; bs "cm"%bs; bs "1"%bs; bs "72"%bs; s; e; bs "+"%bs; bs "no"%bs; bs "1"%bs;
                 bs "0.50"%bs; bs "0.0"%bs; bs "0.0"%bs; bs "9.5"%bs; bs "?"%bs; bs "some genome, --complete  #1"%bs].
Definition ex3_inf_tail : str :=
  unlines [ex3_inf_row (bs "1200"%bs) (bs "1271"%bs); bs "#"%bs; bs "#target name"%bs; ruler_of 18; [];
           ex3_inf_row (bs "5"%bs) (bs "9"%bs); bs "# [ok]"%bs].
Lemma witness_infernal_any :
  ruler_ok 18 (ruler_of 18) = true /\ (exists hs, infernal_headers 18 = Ok hs) /\
  forallb (skip_line Infernal true true) [bs "#target name  accession"%bs] = true /\
  locs (snd (read_content Infernal None None None false (unlines ([bs "#target name  accession"%bs] ++ [ruler_of 18]) ++ ex3_inf_tail))) =
    Some [(1199, 1271, bs "+"%bs); (4, 9, bs "+"%bs)] /\
  match snd (read_content Infernal None None None false (unlines ([bs "#target name  accession"%bs] ++ [ruler_of 18]) ++ ex3_inf_tail)) with
  | Ok (f :: _) => assoc (bs "description"%bs) (f_fmt f) = Some (AStr (bs "some genome, --complete  #1"%bs)) /\
                   assoc (bs "score"%bs) (f_common f) = Some (AFlt (FNum false 0 (-1)))
  | _ => False
  end.
Proof.
  split; [vm_compute; reflexivity|]. split; [eexists; vm_compute; reflexivity|]. split; [vm_compute; reflexivity|].
  split; [vm_compute; reflexivity|]. vm_compute. split; reflexivity.
Qed.

(* typed columns and common metadata on a concrete BLAST row with signed frames and a zero bit score *)
Definition ex3_hs : list hdr :=
  hs_of (headers_from false Blast (split_ws (bs "qseqid sseqid qstart qend sstart send evalue bitscore qframe sframe score"%bs))).
Definition ex3_row : list str :=
  [bs "q1"%bs; bs "chr1"%bs; bs "1"%bs; bs "90"%bs; bs "5089"%bs; bs "5000"%bs; bs "2.5e-12"%bs; bs "0.0"%bs; bs "+1"%bs; bs "-1"%bs; bs "81"%bs].
Lemma witness_typed :
  nodup_str (map hname ex3_hs) = true /\ (forall h, In h ex3_hs -> In h (header_of Blast)) /\
  match row_feature Blast (Some (bs "hit"%bs)) ex3_hs ex3_row with
  | Ok f => assoc (bs "sframe"%bs) (f_fmt f) = Some (AInt (-1)) /\ assoc (bs "qframe"%bs) (f_fmt f) = Some (AInt 1) /\
            assoc (bs "bitscore"%bs) (f_fmt f) = Some (AFlt (FNum false 0 (-1))) /\
            assoc (bs "type"%bs) (f_common f) = Some (AStr (bs "hit"%bs)) /\
            assoc (bs "score"%bs) (f_common f) = Some (AFlt (FNum false 0 (-1))) /\
            assoc (bs "evalue"%bs) (f_common f) = Some (AFlt (FNum false 25 (-13))) /\
            assoc (bs "seqid"%bs) (f_common f) = Some (AStr (bs "chr1"%bs)) /\
            assoc (bs "name"%bs) (f_common f) = Some (AStr (bs "q1"%bs)) /\ length (f_common f) = 5%nat
  | Err _ => False
  end.
Proof.
  split; [vm_compute; reflexivity|]. split.
  - apply (headers_from_in false Blast (split_ws (bs "qseqid sseqid qstart qend sstart send evalue bitscore qframe sframe score"%bs))).
    vm_compute. reflexivity.
  - vm_compute. repeat split; reflexivity.
Qed.

(* free text with the other layouts' separators: a tab-separated BLAST row whose title holds commas, blanks, '#' and '--' is a
   renderable row (the hypotheses of C11_read_rendered_rows / C11_read_outfmt_file hold), and so is a comma-separated row whose
   title holds a tab; the Infernal description keeps tabs and runs of blanks (C11_split_ws_render applies) *)
Definition ex3_free_hs : list hdr :=
  hs_of (headers_from false Blast (split_ws (bs "qseqid sseqid stitle qstart qend sstart send evalue bitscore"%bs))).
Definition ex3_free_row (title : str) : list str :=
  [bs "q1"%bs; bs "chr2"%bs; title; bs "5"%bs; bs "80"%bs; bs "2075"%bs; bs "2000"%bs; bs "0.001"%bs; bs "40.1"%bs].
Definition ex3_title_tab : str := bs "Homo sapiens, chromosome 1; alt #1 -- # Fields: x"%bs.
Definition ex3_title_comma : str := "a"%byte :: x09 :: bs "b  c"%bs.
Lemma witness_freetext :
  row_ok Blast x09 (ex3_free_row ex3_title_tab) = true /\ row_ok Blast ","%byte (ex3_free_row ex3_title_comma) = true /\
  match row_feature Blast None ex3_free_hs (ex3_free_row ex3_title_tab) with
  | Ok f => assoc (bs "stitle"%bs) (f_fmt f) = Some (AStr ex3_title_tab) /\ (f_start f, f_stop f, f_strand f) = (1999, 2075, bs "-"%bs)
  | Err _ => False
  end /\
  locs (snd (read_content Blast (Some ","%byte) (Some (bs "qseqid sseqid stitle qstart qend sstart send evalue bitscore"%bs)) None false
               (unlines [join ","%byte (ex3_free_row ex3_title_comma)]))) = Some [(1999, 2075, bs "-"%bs)] /\
  edge_ok ("a"%byte :: x09 :: x09 :: bs "b  -- #c"%bs) = true.
Proof. repeat split; vm_compute; reflexivity. Qed.
