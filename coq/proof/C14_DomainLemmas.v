(* C14: the borders of the domain.  What the round trip does to graphs that satisfy everything except ONE clause of wf:
   unsorted location tuples are read back sorted (equal iff they were sorted), features with several strands are unreadable
   (ValueError), lower-case residues are read back upper-cased (equal iff there were none).  LocationTuple(...) always returns an
   ordered one-strand tuple and is the identity on ordered tuples. *)
From Coq Require Import List ZArith NArith Bool Lia.
From Coq.Strings Require Import Byte.
Import ListNotations.
From SV Require Import Text G_sjson C14_Model C14_Lemmas.

(* ---- insertion sort (sorted(..., key=...) is stable) ------------------------------------------------------------------------ *)
Definition asym (lt : obj -> obj -> bool) : Prop := forall a b, lt a b = true -> lt b a = false.
Lemma lt_start_asym : asym lt_start.
Proof. intros a b. unfold lt_start. rewrite Z.ltb_lt, Z.ltb_ge. lia. Qed.
Lemma gt_stop_asym : asym gt_stop.
Proof. intros a b. unfold gt_stop. rewrite !Z.gtb_ltb, Z.ltb_lt, Z.ltb_ge. lia. Qed.
Lemma loc_order_asym l : asym (loc_order l).
Proof. unfold loc_order. destruct l as [|x l]; [apply lt_start_asym|]. destruct (str_eqb (loc_strand x) S_minus); [apply gt_stop_asym|apply lt_start_asym]. Qed.

Lemma insert_sorted lt x l : asym lt -> sorted_by lt l = true -> sorted_by lt (insert_by lt x l) = true.
Proof.
  intros A. induction l as [|y r IH]; intros H; [reflexivity|].
  cbn [insert_by]. destruct (lt y x) eqn:E.
  - cbn [sorted_by] in H. apply andb_prop in H. destruct H as [H1 H2]. specialize (IH H2).
    cbn [sorted_by]. rewrite IH, andb_true_r.
    destruct r as [|z r']; cbn [insert_by].
    + rewrite (A _ _ E). reflexivity.
    + destruct (lt z x); [exact H1|rewrite (A _ _ E); reflexivity].
  - cbn [sorted_by] in *. rewrite E. cbn [negb andb]. exact H.
Qed.
Lemma sort_by_sorted lt l : asym lt -> sorted_by lt (sort_by lt l) = true.
Proof. intros A. unfold sort_by. induction l as [|x l IH]; [reflexivity|]. cbn [fold_right]. apply insert_sorted; assumption. Qed.
Lemma sort_fix_sorted lt l : asym lt -> sort_by lt l = l -> sorted_by lt l = true.
Proof. intros A H. rewrite <- H. apply sort_by_sorted. exact A. Qed.

Lemma forallb_insert (P : obj -> bool) lt x l : forallb P (insert_by lt x l) = P x && forallb P l.
Proof.
  induction l as [|y r IH]; [reflexivity|]. cbn [insert_by]. destruct (lt y x); cbn [forallb]; [|reflexivity].
  rewrite IH. destruct (P y), (P x); reflexivity.
Qed.
Lemma forallb_sort (P : obj -> bool) lt l : forallb P (sort_by lt l) = forallb P l.
Proof. unfold sort_by. induction l as [|x l IH]; [reflexivity|]. cbn [fold_right forallb]. rewrite forallb_insert, IH. reflexivity. Qed.
Lemma insert_nonempty lt x l : insert_by lt x l <> [].
Proof. destruct l as [|y r]; cbn [insert_by]; [discriminate|]. destruct (lt y x); discriminate. Qed.
Lemma sort_nonempty lt l : l <> [] -> sort_by lt l <> [].
Proof. destruct l as [|x l]; [congruence|]. intros _. unfold sort_by. cbn [fold_right]. apply insert_nonempty. Qed.

(* one strand: every location carries the strand s *)
Definition all_strand (s : str) (l : list obj) : bool := forallb (fun y => str_eqb (loc_strand y) s) l.
Lemma same_strands_all x l : same_strands (x :: l) = true -> all_strand (loc_strand x) (x :: l) = true.
Proof. cbn [same_strands all_strand forallb]. intros H. rewrite str_eqb_refl. exact H. Qed.
Lemma all_same_strands s l : all_strand s l = true -> same_strands l = true.
Proof.
  destruct l as [|x l]; [reflexivity|]. cbn [all_strand same_strands forallb]. intros H. apply andb_prop in H. destruct H as [Hx Hl].
  apply str_eqb_eq in Hx. subst s. exact Hl.
Qed.
Lemma all_strand_order s l l' : l <> [] -> l' <> [] -> all_strand s l = true -> all_strand s l' = true -> loc_order l' = loc_order l.
Proof.
  destruct l as [|x l]; [congruence|]. destruct l' as [|y l']; [congruence|]. intros _ _ H H'.
  cbn [all_strand forallb] in H, H'. apply andb_prop in H. apply andb_prop in H'. destruct H as [H _]. destruct H' as [H' _].
  apply str_eqb_eq in H. apply str_eqb_eq in H'. cbn [loc_order]. rewrite H, H'. reflexivity.
Qed.

(* LocationTuple(locs) for a list of Location objects, fts.py:152-180 *)
Lemma location_tuple_locs l : l <> [] -> forallb is_loc l = true ->
  location_tuple l = if same_strands l then Ok (sort_by (loc_order l) l) else Err E_Value.
Proof.
  intros Hne Hl. unfold location_tuple. destruct l as [|x r]; [congruence|].
  rewrite coerce_locs_id by exact Hl. rewrite bind_ok. destruct (same_strands (x :: r)); reflexivity.
Qed.

Theorem locationtuple_ordered : forall l l', forallb is_loc l = true -> location_tuple l = Ok l' ->
  l' <> [] /\ forallb is_loc l' = true /\ same_strands l' = true /\ sorted_by (loc_order l') l' = true /\
  location_tuple l' = Ok l' /\ (sorted_by (loc_order l) l = true -> l' = l).
Proof.
  intros l l' Hl H. destruct l as [|x r]; [discriminate H|].
  rewrite location_tuple_locs in H by (congruence || exact Hl).
  destruct (same_strands (x :: r)) eqn:S; [|discriminate H]. injection H as <-.
  set (l := x :: r) in *. set (l' := sort_by (loc_order l) l).
  assert (Hne : l' <> []) by (apply sort_nonempty; discriminate).
  assert (Hloc : forallb is_loc l' = true) by (unfold l'; rewrite forallb_sort; exact Hl).
  pose proof (same_strands_all x r S) as A. fold l in A.
  assert (A' : all_strand (loc_strand x) l' = true) by (unfold l', all_strand; rewrite forallb_sort; exact A).
  assert (Ho : loc_order l' = loc_order l) by (apply (all_strand_order (loc_strand x)); [discriminate|exact Hne|exact A|exact A']).
  assert (Hs : sorted_by (loc_order l') l' = true) by (rewrite Ho; apply sort_by_sorted, loc_order_asym).
  pose proof (all_same_strands _ _ A') as SS.
  split; [exact Hne|]. split; [exact Hloc|]. split; [exact SS|]. split; [exact Hs|]. split.
  - change (location_tuple l' = Ok l'). rewrite (location_tuple_locs l' Hne Hloc). rewrite SS. rewrite (sort_sorted _ _ Hs). reflexivity.
  - intros Hsorted. change (l' = l). exact (sort_sorted _ _ Hsorted).
Qed.

(* ---- strip commutes with the sort -------------------------------------------------------------------------------------------- *)
Lemma insert_map_strip lt x l : (forall a b, lt (strip a) (strip b) = lt a b) ->
  insert_by lt (strip x) (map strip l) = map strip (insert_by lt x l).
Proof.
  intros C. induction l as [|y r IH]; [reflexivity|]. cbn [map insert_by]. rewrite C. destruct (lt y x); cbn [map]; [rewrite IH|]; reflexivity.
Qed.
Lemma sort_map_strip lt l : (forall a b, lt (strip a) (strip b) = lt a b) -> sort_by lt (map strip l) = map strip (sort_by lt l).
Proof.
  intros C. unfold sort_by. induction l as [|x l IH]; [reflexivity|]. cbn [map fold_right]. rewrite IH. apply insert_map_strip. exact C.
Qed.

(* ---- a feature that satisfies everything but the order of its locations ------------------------------------------------- *)
Definition wf_feat_but_order (m : list (str * obj)) (locs : list obj) : bool :=
  ok_attr_shape m && forallb (fun p => wf (snd p)) m && match locs with [] => false | _ => true end
  && forallb is_loc locs && forallb wf locs.

Local Opaque ok_attr_shape.
Lemma feature_dec m locs : wf_feat_but_order m locs = true ->
  dec (enc (OFeat m locs)) = bind (location_tuple (map strip locs)) (fun ls => Ok (OFeat (strip_kv m) ls)).
Proof.
  unfold wf_feat_but_order. intros H. repeat (apply andb_prop in H; destruct H as [H ?]).
  rewrite enc_feat, dec_obj. unfold jcls. rewrite !mapMkv_cons, mapMkv_nil.
  rewrite (rt_attr CMeta m (all_RT_kv m)) by assumption. rewrite dec_arr, (rt_list locs (all_RT_list locs)) by assumption.
  cbn [dec bind]. apply hook_feat. apply conv_strip_kv. assumption.
Qed.
Local Transparent ok_attr_shape.

Lemma wfbo_parts m locs : wf_feat_but_order m locs = true -> locs <> [] /\ forallb is_loc locs = true.
Proof.
  unfold wf_feat_but_order. intros H. repeat (apply andb_prop in H; destruct H as [H ?]). split; [|assumption].
  destruct locs; [discriminate|discriminate].
Qed.

(* one strand: read back SORTED into the order of transcription *)
Theorem feature_roundtrip_sorts : forall m locs, wf_feat_but_order m locs = true -> same_strands locs = true ->
  dec (enc (OFeat m locs)) = Ok (OFeat (strip_kv m) (map strip (sort_by (loc_order locs) locs))).
Proof.
  intros m locs H S. destruct (wfbo_parts m locs H) as [Hne Hl]. rewrite (feature_dec m locs H).
  rewrite location_tuple_locs;
    [|destruct locs; [congruence|discriminate]|rewrite (forallb_map_strip is_loc _ is_loc_strip); exact Hl].
  rewrite same_strands_strip, S, loc_order_strip. cbn [bind].
  rewrite sort_map_strip by (intros a b; apply loc_order_compat). reflexivity.
Qed.

(* ... hence equal to what was written exactly when the tuple was in order: the order clause of wf is NECESSARY *)
Theorem feature_roundtrip_iff_sorted : forall m locs, wf_feat_but_order m locs = true -> same_strands locs = true ->
  (dec (enc (OFeat m locs)) = Ok (strip (OFeat m locs)) <-> sorted_by (loc_order locs) locs = true).
Proof.
  intros m locs H S. rewrite (feature_roundtrip_sorts m locs H S), strip_feat. split.
  - intros E. injection E as E.
    rewrite <- sort_map_strip in E by (intros a b; apply loc_order_compat).
    apply sort_fix_sorted in E; [|apply loc_order_asym].
    rewrite sorted_map_strip in E by (intros a b; apply loc_order_compat). exact E.
  - intros Hs. rewrite sort_sorted by exact Hs. reflexivity.
Qed.

(* several strands in one feature: the written file cannot be read (LocationTuple raises ValueError) *)
Theorem feature_mixed_strands_unreadable : forall m locs, wf_feat_but_order m locs = true -> same_strands locs = false ->
  dec (enc (OFeat m locs)) = Err E_Value.
Proof.
  intros m locs H S. destruct (wfbo_parts m locs H) as [Hne Hl]. rewrite (feature_dec m locs H).
  rewrite location_tuple_locs;
    [|destruct locs; [congruence|discriminate]|rewrite (forallb_map_strip is_loc _ is_loc_strip); exact Hl].
  rewrite same_strands_strip, S. reflexivity.
Qed.

(* ---- residues: BioSeq.__init__ upper-cases ------------------------------------------------------------------------------------- *)
Definition wf_seq_but_case (m : list (str * obj)) (t : str) : bool :=
  (str_eqb t N_nt || str_eqb t N_aa) && has_key K_id m && ok_attr_shape m && forallb (fun p => wf (snd p)) m.
Local Opaque ok_attr_shape.
Theorem seq_roundtrip_uppercases : forall d m t, wf_seq_but_case m t = true ->
  dec (enc (OSeq d m t)) = Ok (OSeq (upper d) (strip_kv m) t).
Proof.
  intros d m t H. unfold wf_seq_but_case in H. repeat (apply andb_prop in H; destruct H as [H ?]).
  rewrite enc_seq, dec_obj. unfold jcls. rewrite !mapMkv_cons, mapMkv_nil.
  rewrite (rt_attr CMeta m (all_RT_kv m)) by assumption. cbn [dec bind].
  apply hook_seq; [apply conv_strip_kv; assumption| |assumption].
  apply has_key_strip_kv_true; [reflexivity|assumption].
Qed.
Local Transparent ok_attr_shape.
Theorem seq_roundtrip_iff_no_lower : forall d m t, wf_seq_but_case m t = true ->
  (dec (enc (OSeq d m t)) = Ok (strip (OSeq d m t)) <-> upper d = d).
Proof.
  intros d m t H. rewrite (seq_roundtrip_uppercases d m t H), strip_seq. split.
  - intros E. injection E as E. exact E.
  - intros E. rewrite E. reflexivity.
Qed.
(* upper d = d exactly when no residue is a lower-case ASCII letter *)
Definition is_lower_ascii (c : byte) : bool := let n := Byte.to_N c in (N.leb 97 n && N.leb n 122)%bool.
Lemma upper1_fix c : upper1 c = c <-> is_lower_ascii c = false.
Proof. destruct c; vm_compute; split; congruence. Qed.
Theorem upper_fix_iff : forall d, upper d = d <-> forallb (fun c => negb (is_lower_ascii c)) d = true.
Proof.
  unfold upper. induction d as [|c d IH]; [split; reflexivity|]. cbn [map forallb]. split.
  - intros E. injection E as E1 E2. apply upper1_fix in E1. rewrite E1. apply IH. exact E2.
  - intros E. apply andb_prop in E. destruct E as [E1 E2]. apply negb_true_iff in E1. apply upper1_fix in E1.
    rewrite E1. f_equal. apply IH. exact E2.
Qed.

(* ---- witnesses ------------------------------------------------------------------------------------------------------------------ *)
Definition w_locs_unsorted : list obj := [OLoc 12 20 S_minus 1 None; OLoc 30 40 S_minus 0 None; OLoc 5 20 S_minus 2 (Some [])].
Lemma w_unsorted_ok :
  wf_feat_but_order [(K_type, OStr (bs "CDS"%bs))] w_locs_unsorted = true /\ same_strands w_locs_unsorted = true /\
  sorted_by (loc_order w_locs_unsorted) w_locs_unsorted = false /\
  location_tuple w_locs_unsorted = Ok [OLoc 30 40 S_minus 0 None; OLoc 12 20 S_minus 1 None; OLoc 5 20 S_minus 2 (Some [])] /\
  wf_feat_but_order [] [OLoc 1 2 S_plus 0 None; OLoc 5 6 S_minus 0 None] = true /\
  same_strands [OLoc 1 2 S_plus 0 None; OLoc 5 6 S_minus 0 None] = false /\
  wf_seq_but_case [(K_id, OStr [])] N_nt = true /\ upper (bs "acgU-n"%bs) = bs "ACGU-N"%bs.
Proof. vm_compute. repeat split; reflexivity. Qed.
(* ---- LocationTuple(locs) for ANY argument (locations given as lists are coerced first) ---------------------------------------- *)
Lemma bind_ok_inv {A B} (r : res A) (f : A -> res B) y : bind r f = Ok y -> exists a, r = Ok a /\ f a = Ok y.
Proof. destruct r as [a|e]; [intros H; exists a; split; [reflexivity|exact H]|discriminate]. Qed.
Lemma construct_loc_is_loc d x : construct_loc d = Ok x -> is_loc x = true.
Proof.
  unfold construct_loc. destruct (negb (only_keys SJSON_INIT_Location d)); [discriminate|].
  destruct (lookup K_start d) as [[]|]; try discriminate. destruct (lookup K_stop d) as [[]|]; try discriminate.
  destruct (Z.geb z z0); [discriminate|]. intros H.
  apply bind_ok_inv in H. destruct H as [s [_ H]]. apply bind_ok_inv in H. destruct H as [df [_ H]].
  apply bind_ok_inv in H. destruct H as [m [_ H]]. injection H as <-. reflexivity.
Qed.
Lemma coerce_loc_is_loc o x : coerce_loc o = Ok x -> is_loc x = true.
Proof.
  destruct o; try discriminate.
  - cbn [coerce_loc]. destruct (loc_of_list l) as [y|] eqn:E; [|discriminate]. intros H. injection H as <-.
    unfold loc_of_list in E. destruct l as [|a [|b rest]]; try discriminate E.
    destruct rest as [|s [|d [|m [|? ?]]]]; try discriminate E; apply (construct_loc_is_loc _ _ E).
  - intros H. injection H as <-. reflexivity.
Qed.
Lemma mapM_coerce_locs l l1 : mapM coerce_loc l = Ok l1 -> forallb is_loc l1 = true.
Proof.
  revert l1. induction l as [|x r IH]; intros l1 H; [injection H as <-; reflexivity|].
  rewrite mapM_cons in H. apply bind_ok_inv in H. destruct H as [y [Hy H]]. apply bind_ok_inv in H. destruct H as [ys [Hys H]].
  injection H as <-. cbn [forallb]. rewrite (coerce_loc_is_loc _ _ Hy), (IH ys Hys). reflexivity.
Qed.
Theorem locationtuple_ordered_any : forall l l', location_tuple l = Ok l' ->
  l' <> [] /\ forallb is_loc l' = true /\ same_strands l' = true /\ sorted_by (loc_order l') l' = true /\ location_tuple l' = Ok l'.
Proof.
  intros l l' H. unfold location_tuple in H. destruct l as [|x r]; [discriminate H|].
  apply bind_ok_inv in H. destruct H as [l1 [Hc H]]. pose proof (mapM_coerce_locs _ _ Hc) as Hl1.
  assert (Hne : l1 <> []).
  { intros ->. rewrite mapM_cons in Hc. apply bind_ok_inv in Hc. destruct Hc as [y [_ Hc]]. apply bind_ok_inv in Hc.
    destruct Hc as [ys [_ Hc]]. discriminate Hc. }
  assert (T : location_tuple l1 = Ok l').
  { rewrite (location_tuple_locs l1 Hne Hl1). destruct (same_strands l1); [exact H|discriminate H]. }
  destruct (locationtuple_ordered l1 l' Hl1 T) as [A [B [C [D [E _]]]]]. repeat split; assumption.
Qed.
