(* C13: the word matcher of C13_Model (m_items / m_alts over compiled words) is the regex-tree matcher of C13_Rx on the tree of the
   word list, with and without gap tolerance.  Hence every theorem about pattern trees applies to start / stop / codon lists. *)
From Coq Require Import List ZArith NArith Bool Lia.
From Coq.Strings Require Import Byte.
Import ListNotations.
From SV Require Import Text G_codes C05_Model C13_Model C13_Rx C13_Lemmas C13_RxLemmas.

Definition rx_of_char (c : byte) : rx := if byte_eqb c cdot then XDot else XChr c.
Fixpoint rx_of_word (c : byte) (w : str) : rx :=
  match w with [] => rx_of_char c | d :: w' => XCat (rx_of_char c) (rx_of_word d w') end.
Definition rx_word (w : str) : rx := match w with [] => XDot | c :: r => rx_of_word c r end.
Fixpoint rx_of_words (w : str) (ws : list str) : rx :=
  match ws with [] => rx_word w | w' :: r => XAlt (rx_word w) (rx_of_words w' r) end.
Definition rx_of_list (ws : list str) : rx := match ws with [] => XDot | w :: r => rx_of_words w r end.

(* the item matcher with an explicit continuation *)
Fixpoint m_items_k (its : list item) (s : str) (k : str -> option nat) {struct its} : option nat :=
  match its with
  | [] => k s
  | ILit c :: r => match s with x :: s' => if byte_eqb x c then option_map S (m_items_k r s' k) else None | [] => None end
  | IDot :: r => match s with x :: s' => if byte_eqb x cnl then None else option_map S (m_items_k r s' k) | [] => None end
  | IStar g :: r => star_aux g (fun s' => m_items_k r s' k) s
  end.

Lemma star_aux_ext g k k' : (forall s, k s = k' s) -> forall s, star_aux g k s = star_aux g k' s.
Proof.
  intros H. induction s as [|x s IH]; cbn [star_aux]; [apply H|].
  destruct (has x g); [rewrite IH|]; now rewrite H.
Qed.
Lemma m_items_is_k its : forall s, m_items its s = m_items_k its s (fun _ => Some 0%nat).
Proof.
  induction its as [|it r IH]; intros s; [reflexivity|]. destruct it; cbn [m_items m_items_k].
  - destruct s as [|x s']; [reflexivity|]. now rewrite IH.
  - destruct s as [|x s']; [reflexivity|]. now rewrite IH.
  - apply star_aux_ext. exact IH.
Qed.

(* "[gap]*" as a tree against star_aux *)
Lemma star_loop_is_star_aux g k : forall s fuel, (length s < fuel)%nat ->
  star_loop (mrx (XCls false g)) k fuel s = star_aux g k s.
Proof.
  induction s as [|x s IH]; intros fuel Hf; (destruct fuel as [|f]; [cbn in Hf; lia|]); rewrite star_loop_S.
  - reflexivity.
  - cbn [mrx star_aux negb length]. cbn [length] in Hf.
    destruct (has x g); cbn [Bool.eqb]; [|reflexivity].
    replace (length s <? S (length s))%nat with true by (symmetry; apply Nat.ltb_lt; lia).
    rewrite IH by lia. destruct (star_aux g k s); reflexivity.
Qed.

Lemma mrx_char c s k :
  mrx (rx_of_char c) s k = m_items_k [item_of c] s k.
Proof. unfold rx_of_char, item_of. destruct (byte_eqb c cdot); reflexivity. Qed.

Lemma rx_of_char_plain c : last_plain (rx_of_char c) = wordch c /\ first_plain (rx_of_char c) = wordch c.
Proof.
  unfold rx_of_char. destruct (byte_eqb c cdot) eqn:E; [|split; reflexivity].
  apply byte_eqb_eq in E. subst c. split; reflexivity.
Qed.
Lemma first_plain_word c w : first_plain (rx_of_word c w) = wordch c.
Proof. destruct w; cbn [rx_of_word first_plain]; apply rx_of_char_plain. Qed.

Lemma m_items_k_cons it r s k : m_items_k (it :: r) s k = m_items_k [it] s (fun s' => m_items_k r s' k).
Proof. destruct it; cbn [m_items_k]; try reflexivity. Qed.

(* one word, without and with gap tolerance *)
Lemma word_tree_nogap w : forall c s k, mrx (rx_of_word c w) s k = m_items_k (compile_word None (c :: w)) s k.
Proof.
  induction w as [|d w IH]; intros c s k.
  - cbn [rx_of_word compile_word]. apply mrx_char.
  - cbn [rx_of_word mrx]. change (compile_word None (c :: d :: w)) with (item_of c :: compile_word None (d :: w)).
    rewrite m_items_k_cons, mrx_char. destruct (item_of c); cbn [m_items_k]; try reflexivity.
    + destruct s as [|x s']; [reflexivity|]. now rewrite IH.
    + destruct s as [|x s']; [reflexivity|]. now rewrite IH.
    + apply star_aux_ext. intros s'. apply IH.
Qed.
Lemma word_tree_gap g w : forall c s k, forallb wordch (c :: w) = true ->
  mrx (gapify g (rx_of_word c w)) s k = m_items_k (compile_word (Some g) (c :: w)) s k.
Proof.
  induction w as [|d w IH]; intros c s k Hw.
  - cbn [rx_of_word compile_word]. rewrite <- mrx_char. unfold rx_of_char. destruct (byte_eqb c cdot); reflexivity.
  - cbn [forallb] in Hw. apply andb_prop in Hw. destruct Hw as [Hc Hw].
    assert (Hd : wordch d = true) by (cbn [forallb] in Hw; now apply andb_prop in Hw).
    cbn [rx_of_word gapify]. rewrite (proj1 (rx_of_char_plain c)), first_plain_word, Hc, Hd. cbn [andb mrx].
    change (compile_word (Some g) (c :: d :: w)) with (item_of c :: IStar g :: compile_word (Some g) (d :: w)).
    assert (Hgc : gapify g (rx_of_char c) = rx_of_char c) by (unfold rx_of_char; destruct (byte_eqb c cdot); reflexivity).
    rewrite Hgc, m_items_k_cons, mrx_char.
    assert (Hrest : forall s', mrx (XCat (filler g) (gapify g (rx_of_word d w))) s' k = m_items_k (IStar g :: compile_word (Some g) (d :: w)) s' k).
    { intros s'.
      change (mrx (XCat (filler g) (gapify g (rx_of_word d w))) s' k)
        with (star_loop (mrx (XCls false g)) (fun s'' => mrx (gapify g (rx_of_word d w)) s'' k) (S (length s')) s').
      rewrite star_loop_is_star_aux by lia. cbn [m_items_k]. apply star_aux_ext. intros s''. now apply IH. }
    destruct (item_of c); cbn [m_items_k]; try reflexivity.
    + destruct s as [|x s']; [reflexivity|]. change (mrx (filler g) s' (fun s'0 => mrx (gapify g (rx_of_word d w)) s'0 k)) with (mrx (XCat (filler g) (gapify g (rx_of_word d w))) s' k). now rewrite Hrest.
    + destruct s as [|x s']; [reflexivity|]. change (mrx (filler g) s' (fun s'0 => mrx (gapify g (rx_of_word d w)) s'0 k)) with (mrx (XCat (filler g) (gapify g (rx_of_word d w))) s' k). now rewrite Hrest.
    + apply star_aux_ext. intros s'. change (mrx (filler g) s' (fun s'0 => mrx (gapify g (rx_of_word d w)) s'0 k)) with (mrx (XCat (filler g) (gapify g (rx_of_word d w))) s' k). now rewrite Hrest.
Qed.

Lemma word_tree gap w s : w <> [] -> forallb wordch w = true ->
  m_rx (eff_rx gap (rx_word w)) s = m_items (compile_word gap w) s.
Proof.
  destruct w as [|c r]; [congruence|]. intros _ Hw. rewrite m_items_is_k. unfold m_rx, eff_rx, rx_word.
  destruct gap as [g|]; [now apply word_tree_gap|apply word_tree_nogap].
Qed.

(* the word list: ordered alternation *)
Theorem words_tree gap ws s : ws <> [] -> forallb (fun w => nonempty w && forallb wordch w) ws = true ->
  m_rx (eff_rx gap (rx_of_list ws)) s = m_alts (map (compile_word gap) ws) s.
Proof.
  destruct ws as [|w r]; [congruence|]. intros _. revert w. induction r as [|w' r IH]; intros w Hws.
  - cbn [forallb] in Hws. apply andb_prop in Hws. destruct Hws as [Hw _]. apply andb_prop in Hw. destruct Hw as [Hn Hw].
    cbn [rx_of_list rx_of_words map m_alts]. rewrite word_tree; [|destruct w; discriminate|exact Hw].
    destruct (m_items _ s); reflexivity.
  - cbn [forallb] in Hws. apply andb_prop in Hws. destruct Hws as [Hw Hr]. apply andb_prop in Hw. destruct Hw as [Hn Hw].
    specialize (IH w' Hr). cbn [rx_of_list rx_of_words map m_alts] in *.
    assert (Hhead : m_rx (eff_rx gap (rx_word w)) s = m_items (compile_word gap w) s) by (apply word_tree; [destruct w; discriminate|exact Hw]).
    unfold m_rx, eff_rx in *. destruct gap as [g|]; cbn [gapify mrx]; rewrite Hhead.
    + destruct (m_items (compile_word (Some g) w) s); [reflexivity|exact IH].
    + destruct (m_items (compile_word None w) s); [reflexivity|exact IH].
Qed.

(* the pipeline depends on the matcher only through its values *)
Lemma finditer_m_ext m m' : (forall s, m s = m' s) -> forall s pos skip, finditer_m m s pos skip = finditer_m m' s pos skip.
Proof.
  intros H. induction s as [|x s IH]; intros pos skip; [reflexivity|]. cbn [finditer_m]. rewrite H.
  destruct skip; [|apply IH]. destruct (m' (x :: s)) as [[|n]|]; now rewrite IH.
Qed.
Lemma matchall_m_ext m m' s rfn start gap : (forall s, m s = m' s) -> matchall_m m s rfn start gap = matchall_m m' s rfn start gap.
Proof.
  intros H. unfold matchall_m, fwd_list_m, bwd_list_m, raw_pass_m. now rewrite !(finditer_m_ext m m' H).
Qed.

Lemma split_on_nonnil c s : split_on c s <> [].
Proof. induction s as [|x r IH]; cbn; [discriminate|]. destruct (byte_eqb x c); [discriminate|]. destruct (split_on c r); discriminate. Qed.
Lemma split_on_chars (p : byte -> bool) c s : forallb (fun x => p x || byte_eqb x c) s = true -> forallb (forallb p) (split_on c s) = true.
Proof.
  induction s as [|x r IH]; [reflexivity|]. cbn [forallb split_on]. intros H. apply andb_prop in H. destruct H as [Hx H].
  specialize (IH H). destruct (byte_eqb x c) eqn:E; [cbn; exact IH|]. rewrite orb_false_r in Hx.
  destruct (split_on c r) as [|w ws]; cbn [forallb] in *; [now rewrite Hx|].
  apply andb_prop in IH. destruct IH as [H1 H2]. now rewrite Hx, H1, H2.
Qed.

(* match()/matchall() for start / stop / word lists is the generic pipeline over the regex-tree matcher on the tree of the words *)
Theorem matchall_words_tree s sub rf start gap : wf_sub sub = true ->
  matchall s sub rf start gap =
  option_map (fun rfn => matchall_m (m_rx (eff_rx gap (rx_of_list (words sub)))) s rfn start gap) (norm_rf rf).
Proof.
  intros Hwf. rewrite matchall_is_m. destruct (norm_rf rf) as [rfn|]; [|reflexivity]. cbn [option_map]. f_equal.
  apply matchall_m_ext. intros s'. unfold compile. fold (words sub). symmetry. apply words_tree.
  - apply split_on_nonnil.
  - unfold wf_sub in Hwf. apply andb_prop in Hwf. destruct Hwf as [H1 H2]. fold (words sub) in H2.
    pose proof (split_on_chars wordch cbar (expand_sub sub) H1) as H3. fold (words sub) in H3.
    clear - H2 H3. induction (words sub) as [|w l IH]; [reflexivity|]. cbn [forallb] in *.
    apply andb_prop in H2, H3. destruct H2 as [Ha Hb], H3 as [Hc Hd]. now rewrite Ha, Hc, IH.
Qed.

Lemma rx_group_degapped g r s rfn start x : gapfree g r = true -> (0 <= start)%Z ->
  In x (matchall_m (m_rx (eff_rx (Some g) r)) s rfn start (Some g)) -> lang r (degap g (bm_group x)).
Proof.
  intros Hg H0 Hi. destruct (rx_matchall_sound r s rfn start (Some g) H0) as (F & B & HE & HF & HB).
  rewrite HE in Hi. apply in_app_or in Hi. destruct Hi as [Hi|Hi].
  - destruct (HF x Hi) as (b & e & _ & _ & _ & _ & _ & HP & _). now apply gapify_degap.
  - destruct (HB x Hi) as (l & _ & b & e & _ & _ & _ & _ & _ & _ & _ & HP & _). now apply gapify_degap.
Qed.

(* a "token word": concatenation of single-character atoms (letter, ".", class, negated class).  A string is matched iff it has
   exactly one character per token, each matched by its token; in particular the length of a group is the number of tokens,
   not the length of the pattern text *)
Definition tok_ok (a : rx) : bool := match a with XChr _ | XDot | XCls _ _ => true | _ => false end.
Fixpoint cat_of (a : rx) (l : list rx) : rx := match l with [] => a | b :: r => XCat a (cat_of b r) end.
Definition tok_match (a : rx) (x : byte) : Prop :=
  match a with
  | XChr c => x = c
  | XDot => x <> cnl
  | XCls neg cs => has x cs = negb neg
  | _ => False
  end.
Lemma tok_lang a t : tok_ok a = true -> (lang a t <-> exists x, t = [x] /\ tok_match a x).
Proof.
  destruct a; try discriminate; intros _; cbn [tok_match]; split.
  - intros H. apply lang_chr_inv in H. eauto.
  - intros (x & -> & ->). constructor.
  - intros H. inversion H; subst. eauto.
  - intros (x & -> & H). now constructor.
  - intros H. apply lang_cls_inv in H. exact H.
  - intros (x & -> & H). now constructor.
Qed.
Lemma token_word_language l : forall a t, forallb tok_ok (a :: l) = true ->
  (lang (cat_of a l) t <-> Forall2 tok_match (a :: l) t).
Proof.
  induction l as [|b r IH]; intros a t Hok; cbn [forallb] in Hok; apply andb_prop in Hok; destruct Hok as [Ha Hr]; cbn [cat_of].
  - rewrite tok_lang by exact Ha. split.
    + intros (x & -> & Hx). repeat constructor. exact Hx.
    + intros H. inversion H as [|? ? ? ? Hx Hn]; subst. inversion Hn; subst. eauto.
  - split.
    + intros H. apply lang_cat_inv in H. destruct H as (t1 & t2 & -> & H1 & H2).
      apply (tok_lang a t1 Ha) in H1. destruct H1 as (x & -> & Hx). constructor; [exact Hx|]. now apply IH.
    + intros H. inversion H as [|? x ? t' Hx Hn]; subst. change (x :: t') with ([x] ++ t'). constructor.
      * apply tok_lang; [exact Ha|eauto].
      * now apply IH.
Qed.
Lemma token_word_length l a t : forallb tok_ok (a :: l) = true -> lang (cat_of a l) t -> length t = S (length l).
Proof.
  intros Hok H. apply (token_word_language l a t Hok) in H.
  assert (HL : forall (xs : list rx) (ys : str), Forall2 tok_match xs ys -> length ys = length xs)
    by (induction 1; cbn; congruence).
  apply HL in H. exact H.
Qed.
