(* C15 proofs, part 7: row2fts (fts2row (row2fts r)) = row2fts r for every well-formed row, of any length. *)
From Coq Require Import List ZArith NArith Bool Arith Lia.
From Coq.Strings Require Import Byte.
Import ListNotations.
From SV Require Import Text G_flags C15_Model C15_Lemmas C15_RowInv.

(* ------------------------------------------------------------------ sorting a sorted list *)
Lemma ins_last x acc : (forall y, In y acc -> f_start y < f_start x) -> ins x acc = acc ++ [x].
Proof.
  induction acc as [|y acc IH]; intros H; [reflexivity|]. cbn [ins].
  assert (E : ft_lt x y = false).
  { unfold ft_lt. pose proof (H y (or_introl eq_refl)) as L.
    assert (A : Nat.ltb (f_start x) (f_start y) = false) by (apply Nat.ltb_ge; lia).
    assert (B : Nat.eqb (f_start x) (f_start y) = false) by (apply Nat.eqb_neq; lia). rewrite A, B. reflexivity. }
  rewrite E, IH; [reflexivity|]. intros z Hz. apply H. right. exact Hz.
Qed.
Lemma fold_left_cons {A B} (f : A -> B -> A) x l a : fold_left f (x :: l) a = fold_left f l (f a x).
Proof. reflexivity. Qed.
Lemma sort_chain R : forall f acc, (forall y, In y acc -> f_start y < f_start f) -> wf_chain f R = true ->
  fold_left (fun a x => ins x a) (f :: R) acc = acc ++ f :: R.
Proof.
  induction R as [|f' R' IH]; intros f acc Hacc Hch; rewrite fold_left_cons, (ins_last f acc Hacc); [reflexivity|].
  destruct (wf_chain_cons _ _ _ Hch) as (_ & _ & _ & Hlt & Hch').
  rewrite (IH f' (acc ++ [f])); [rewrite <- app_assoc; reflexivity| |exact Hch'].
  intros y Hy. apply in_app_or in Hy. destruct Hy as [Hy|[<-|[]]]; [specialize (Hacc y Hy); lia|exact Hlt].
Qed.
Lemma sort_sorted L : oksorted L -> sort_fts L = L.
Proof.
  intros [_ H]. destruct L as [|f R]; [reflexivity|]. destruct H as [_ Hch]. unfold sort_fts.
  rewrite (sort_chain R f [] ltac:(intros y []) Hch). reflexivity.
Qed.

(* ------------------------------------------------------------------ find, slice, tokens on arbitrary rows *)
Lemma find_from_spec c s : forall k j, find_from c s k = Some j ->
  k <= j < length s /\ forallb (fun x => negb (byte_eqb x c)) (slice s k j) = true.
Proof.
  induction s as [|x s IH]; intros k j H; [discriminate|]. cbn [find_from] in H. destruct k as [|k].
  - destruct (byte_eqb x c) eqn:E.
    + injection H as <-. split; [cbn [length]; lia|reflexivity].
    + destruct (find_from c s 0) as [j'|] eqn:F; [|discriminate]. injection H as <-.
      destruct (IH 0 j' F) as [A B]. split; [cbn [length]; lia|].
      unfold slice in *. cbn [skipn]. replace (S j' - 0) with (S (j' - 0)) by lia. cbn [firstn forallb]. rewrite E. exact B.
  - destruct (find_from c s k) as [j'|] eqn:F; [|discriminate]. injection H as <-.
    destruct (IH k j' F) as [A B]. split; [cbn [length]; lia|]. unfold slice in *. cbn [skipn]. exact B.
Qed.
Lemma find_from_none c s : forall k, find_from c s k = None ->
  forallb (fun x => negb (byte_eqb x c)) (skipn k s) = true.
Proof.
  induction s as [|x s IH]; intros k H; [destruct k; reflexivity|]. cbn [find_from] in H. destruct k as [|k].
  - destruct (byte_eqb x c) eqn:E; [discriminate|]. destruct (find_from c s 0) eqn:F; [discriminate|].
    cbn [skipn forallb]. rewrite E. exact (IH 0 F).
  - destruct (find_from c s k) eqn:F; [discriminate|]. cbn [skipn]. exact (IH k F).
Qed.
Lemma slice_length (s : str) i j : j <= length s -> length (slice s i j) = j - i.
Proof. intros H. unfold slice. rewrite firstn_length, skipn_length. lia. Qed.
Lemma slice_to_end (s : str) i : slice s i (length s) = skipn i s.
Proof. unfold slice. apply firstn_all2. rewrite skipn_length. lia. Qed.

(* every token is a non-empty, dot-free piece of the segment *)
Definition tok_ok (s : str) (t : str) : Prop :=
  t <> [] /\ nodot t /\ length t <= length s /\ (forall c, In c t -> In c s).
Lemma dtg_tokens s : forall cur, nodot cur ->
  forall t, In t (dot_tokens_go s cur) -> t <> [] /\ nodot t /\ length t <= length s + length cur /\ (forall c, In c t -> In c s \/ In c cur).
Proof.
  induction s as [|x s IH]; intros cur Hcur t Ht; cbn [dot_tokens_go] in Ht.
  - destruct cur as [|c cur]; [destruct Ht|]. destruct Ht as [<-|[]].
    split; [intros E; apply (f_equal (@length byte)) in E; rewrite rev_length in E; discriminate|].
    split; [unfold nodot in *; rewrite forallb_forall in *; intros y Hy; apply Hcur, in_rev, Hy|].
    split; [rewrite rev_length; cbn [length]; lia|]. intros y Hy. right. apply in_rev. exact Hy.
  - destruct (byte_eqb x DOT) eqn:E.
    + assert (Hrest : In t (dot_tokens_go s []) -> t <> [] /\ nodot t /\ length t <= length (x :: s) + length cur /\ (forall c0, In c0 t -> In c0 (x :: s) \/ In c0 cur)).
      { intros H. destruct (IH [] eq_refl t H) as (A & B & C & D). split; [exact A|]. split; [exact B|]. split; [cbn [length] in *; lia|].
        intros y Hy. destruct (D y Hy) as [Hs|[]]. left. right. exact Hs. }
      destruct cur as [|c cur]; [exact (Hrest Ht)|]. destruct Ht as [<-|Ht]; [|exact (Hrest Ht)].
      split; [intros E2; apply (f_equal (@length byte)) in E2; rewrite rev_length in E2; discriminate|].
      split; [unfold nodot in *; rewrite forallb_forall in *; intros y Hy; apply Hcur, in_rev, Hy|].
      split; [rewrite rev_length; cbn [length]; lia|]. intros y Hy. right. apply in_rev. exact Hy.
    + assert (Hc2 : nodot (x :: cur)) by (unfold nodot in *; cbn [forallb]; rewrite E; exact Hcur).
      destruct (IH (x :: cur) Hc2 t Ht) as (A & B & C & D). split; [exact A|]. split; [exact B|].
      split; [cbn [length] in *; lia|]. intros y Hy. destruct (D y Hy) as [Hs|[<-|Hc]]; [left; right; exact Hs|left; left; reflexivity|right; exact Hc].
Qed.
Lemma dot_tokens_ok s t : In t (dot_tokens s) -> tok_ok s t.
Proof.
  intros H. destruct (dtg_tokens s [] eq_refl t H) as (A & B & C & D). cbn [length] in C. repeat split; try assumption; [lia|].
  intros c Hc. destruct (D c Hc) as [Hs|[]]. exact Hs.
Qed.
Lemma dedupe_in l : forall t, In t (dedupe l) -> In t l.
Proof.
  induction l as [|x l IH]; intros t H; [destruct H|]. cbn [dedupe] in H. destruct H as [<-|H]; [left; reflexivity|].
  apply filter_In in H. right. apply IH, H.
Qed.

(* ------------------------------------------------------------------ the features of a well-formed row are well-formed *)
Definition walk_ok (i : nat) (out : list ft) : Prop :=
  Forall okft out /\
  match out with
  | [] => True
  | f :: R => i <= f_start f /\ (open_l f = true -> f_start f = 0) /\ (0 < i -> open_l f = false) /\ wf_chain f R = true
  end.
Definition mkdefect (openl openr : bool) : N :=
  if openl && openr then N.lor D_MISS_LEFT D_MISS_RIGHT else if openl then D_MISS_LEFT else if openr then D_MISS_RIGHT else D_NONE.
Lemma mkdefect_flags a b : flag_in D_MISS_LEFT (mkdefect a b) = a /\ flag_in D_MISS_RIGHT (mkdefect a b) = b /\ (mkdefect a b <= 3)%N.
Proof. destruct a, b; vm_compute; repeat split; discriminate. Qed.

Lemma nobar_in (seg t : str) : nobar seg -> (forall c, In c t -> In c seg) -> nobar t.
Proof. unfold nobar. rewrite !forallb_forall. intros H S c Hc. apply H, S, Hc. Qed.

Lemma r2f_ok rw fuel : forall i, segs_ok fuel rw i = true -> walk_ok i (r2f fuel rw i).
Proof.
  induction fuel as [|fuel IH]; intros i Hs; [split; [constructor|exact I]|].
  cbn [r2f segs_ok] in *. destruct (Nat.ltb i (length rw)) eqn:Ei; [|split; [constructor|exact I]].
  apply Nat.ltb_lt in Ei.
  set (j := match find_from BAR rw (i + 1) with Some j => j | None => length rw end) in *.
  set (seg := slice rw (i + 1) j) in *.
  assert (Hj : i < j <= length rw /\ nobar seg).
  { unfold seg, j. destruct (find_from BAR rw (i + 1)) as [j'|] eqn:F.
    - destruct (find_from_spec _ _ _ _ F) as [A B]. split; [lia|exact B].
    - split; [lia|]. rewrite slice_to_end. exact (find_from_none _ _ _ F). }
  destruct Hj as [Hj Hnb].
  assert (Hsl : length seg = j - (i + 1)) by (unfold seg; apply slice_length; lia).
  assert (Hweak : forall out, walk_ok j out -> walk_ok i out).
  { intros out [A B]. split; [exact A|]. destruct out as [|f R]; [exact I|]. destruct B as (B1 & B2 & B3 & B4).
    repeat split; [lia|exact B2|intros _; apply B3; lia|exact B4]. }
  destruct (dedupe (dot_tokens seg)) as [|n0 [|n1 ns]] eqn:Hn.
  - apply Hweak, IH, Hs.
  - apply andb_prop in Hs. destruct Hs as [Hc Hs]. specialize (IH j Hs).
    assert (Htok : tok_ok seg n0) by (apply dot_tokens_ok, dedupe_in; rewrite Hn; left; reflexivity).
    destruct Htok as (T1 & T2 & T3 & T4). cbn [shortest].
    set (openl := Nat.eqb i 0 && negb (byte_eqb (hd DOT rw) BAR)). set (openr := Nat.eqb j (length rw)) in *.
    fold (mkdefect openl openr). destruct (mkdefect_flags openl openr) as (F1 & F2 & F3).
    set (f := mkft i (Nat.min (j + 1) (length rw)) (mkdefect openl openr) n0).
    assert (Hokf : okft f).
    { constructor; cbn [f f_name f_start f_stop f_defect]; [exact T1|exact T2|exact (nobar_in seg n0 Hnb T4)| |exact F3].
      destruct (Nat.eqb j (length rw)) eqn:Ej.
      - apply Nat.eqb_eq in Ej. apply Nat.ltb_lt in Hc. lia.
      - apply Nat.eqb_neq in Ej. lia. }
    destruct IH as [IHa IHb]. split; [constructor; assumption|].
    assert (Hopl : open_l f = openl) by exact F1. assert (Hopr : open_r f = openr) by exact F2.
    split; [cbn; lia|]. split; [|split].
    + rewrite Hopl. unfold openl. intros E. apply andb_prop in E. destruct E as [E _]. apply Nat.eqb_eq in E. exact E.
    + rewrite Hopl. unfold openl. intros E. assert (E0 : Nat.eqb i 0 = false) by (apply Nat.eqb_neq; lia). rewrite E0. reflexivity.
    + destruct (r2f fuel rw j) as [|f' R'] eqn:ER; [reflexivity|]. destruct IHb as (B1 & B2 & B3 & B4).
      assert (Hjl : j < length rw).
      { destruct (Nat.eq_dec j (length rw)) as [E|E]; [|lia]. rewrite E, r2f_at_end in ER. discriminate. }
      cbn [wf_chain]. rewrite Hopr. unfold openr. assert (E1 : Nat.eqb j (length rw) = false) by (apply Nat.eqb_neq; lia).
      rewrite E1, (B3 ltac:(lia)), B4. cbn [negb andb f f_stop f_start].
      assert (E2 : Nat.leb (Nat.min (j + 1) (length rw)) (f_start f' + 1) = true) by (apply Nat.leb_le; lia).
      assert (E3 : Nat.ltb i (f_start f') = true) by (apply Nat.ltb_lt; lia). rewrite E2, E3. reflexivity.
  - discriminate.
Qed.

Theorem row_fts_row r : wf_rowstr r = true ->
  exists s, fts2row (row2fts r) = ROk s /\ row2fts s = row2fts r /\ oksorted (row2fts r).
Proof.
  unfold wf_rowstr. intros H. apply andb_prop in H. destruct H as [H _]. apply andb_prop in H. destruct H as [_ Hs].
  pose proof (r2f_ok r (S (length r)) 0 Hs) as [A B]. fold (row2fts r) in *.
  assert (Hok : oksorted (row2fts r)).
  { split; [exact A|]. destruct (row2fts r) as [|f R]; [exact I|]. destruct B as (_ & B2 & _ & B4). split; assumption. }
  destruct (fts_inverse_sorted _ Hok) as (E1 & E2 & _).
  exists (tailrow 0 (row2fts r)). unfold fts2row. rewrite (sort_sorted _ Hok). auto.
Qed.

(* rows produced by fts2row are fixed points: fts2row (row2fts s) = s *)
Theorem row_canonical l s : wf_fts l = true -> fts2row l = ROk s -> fts2row (row2fts s) = ROk s.
Proof.
  intros H Hs. unfold wf_fts in H. pose proof (wf_sorted_ok _ H) as Hok.
  destruct (fts_inverse_sorted _ Hok) as (E1 & E2 & _). unfold fts2row in *. rewrite E1 in Hs. injection Hs as <-.
  rewrite E2, (sort_sorted _ Hok). exact E1.
Qed.

Definition wide_ft : ft := mkft 3 403 0 (bs "dom"%bs).
Definition ft_same (a b : ft) : bool :=
  Nat.eqb (f_start a) (f_start b) && Nat.eqb (f_stop a) (f_stop b) && N.eqb (f_defect a) (f_defect b) && str_eqb (f_name a) (f_name b).
Lemma witness_wide :
  wf_fts [wide_ft] = true /\
  match fts2row [wide_ft] with
  | ROk s => match row2fts s with [f] => ft_same f wide_ft | _ => false end && Nat.leb 4 (length (dot_tokens s))
  | RErr _ => false
  end = true.
Proof. vm_compute. split; reflexivity. Qed.

(* ------------------------------------------------------------------ range of a feature with several locations *)
From Coq Require Import Permutation.
Lemma fold_min_spec l : forall a, let m := fold_left Nat.min l a in
  m <= a /\ (forall x, In x l -> m <= x) /\ (m = a \/ In m l).
Proof.
  induction l as [|y l IH]; intros a; cbn [fold_left]; [repeat split; [lia|intros x []|left; reflexivity]|].
  destruct (IH (Nat.min a y)) as (A & B & C). cbv zeta. split; [lia|]. split.
  - intros x [<-|Hx]; [lia|apply B, Hx].
  - destruct C as [C|C]; [|right; right; exact C]. destruct (Nat.min_dec a y) as [E|E]; rewrite E in *; [left; exact C|right; left; symmetry; exact C].
Qed.
Lemma fold_max_spec l : forall a, let m := fold_left Nat.max l a in
  a <= m /\ (forall x, In x l -> x <= m) /\ (m = a \/ In m l).
Proof.
  induction l as [|y l IH]; intros a; cbn [fold_left]; [repeat split; [lia|intros x []|left; reflexivity]|].
  destruct (IH (Nat.max a y)) as (A & B & C). cbv zeta. split; [lia|]. split.
  - intros x [<-|Hx]; [lia|apply B, Hx].
  - destruct C as [C|C]; [|right; right; exact C]. destruct (Nat.max_dec a y) as [E|E]; rewrite E in *; [left; exact C|right; left; symmetry; exact C].
Qed.
(* start = minimum of the starts, stop = maximum of the stops *)
Theorem range_spec locs : locs <> [] ->
  (forall x, In x locs -> range_start locs <= l_start x /\ l_stop x <= range_stop locs)
  /\ (exists x, In x locs /\ l_start x = range_start locs) /\ (exists x, In x locs /\ l_stop x = range_stop locs).
Proof.
  destruct locs as [|x0 r]; [congruence|]. intros _. cbn [range_start range_stop].
  destruct (fold_min_spec (map l_start r) (l_start x0)) as (A1 & A2 & A3).
  destruct (fold_max_spec (map l_stop r) (l_stop x0)) as (B1 & B2 & B3). cbv zeta in *. split; [|split].
  - intros x [<-|Hx]; [split; assumption|]. split; [apply A2, in_map, Hx|apply B2, in_map, Hx].
  - destruct A3 as [E|E]; [exists x0; split; [left; reflexivity|symmetry; exact E]|].
    apply in_map_iff in E. destruct E as (x & E & Hx). exists x. split; [right; exact Hx|exact E].
  - destruct B3 as [E|E]; [exists x0; split; [left; reflexivity|symmetry; exact E]|].
    apply in_map_iff in E. destruct E as (x & E & Hx). exists x. split; [right; exact Hx|exact E].
Qed.
(* ... hence independent of the order of the locations, and the feature fts2row draws has exactly this range *)
Theorem range_perm locs locs' : Permutation locs locs' -> range_start locs = range_start locs' /\ range_stop locs = range_stop locs'.
Proof.
  intros P. destruct locs as [|x0 r].
  - apply Permutation_nil in P. subst. split; reflexivity.
  - assert (N1 : x0 :: r <> []) by discriminate.
    assert (N2 : locs' <> []) by (intros E; subst; apply Permutation_sym, Permutation_nil in P; discriminate).
    destruct (range_spec _ N1) as (A & (a & Ha & Ea) & (b & Hb & Eb)).
    destruct (range_spec _ N2) as (A' & (a' & Ha' & Ea') & (b' & Hb' & Eb')).
    pose proof (A' a (Permutation_in _ P Ha)) as [X1 _]. pose proof (A a' (Permutation_in _ (Permutation_sym P) Ha')) as [X2 _].
    pose proof (A' b (Permutation_in _ P Hb)) as [_ Y1]. pose proof (A b' (Permutation_in _ (Permutation_sym P) Hb')) as [_ Y2].
    split; lia.
Qed.
Lemma sort_locs_ne minus locs : locs <> [] -> sort_locs minus locs <> [].
Proof.
  unfold sort_locs. assert (G : forall l acc, (acc <> [] \/ l <> []) -> fold_left (fun a x => ins_loc minus x a) l acc <> []).
  { induction l as [|x l IH]; intros acc H; cbn [fold_left]; [destruct H; congruence|]. apply IH. left.
    destruct acc as [|y acc]; cbn [ins_loc]; [discriminate|]. destruct (if minus then _ else _); discriminate. }
  intros H. apply G. right. exact H.
Qed.
Theorem multi_ft_range name minus locs : locs <> [] ->
  f_start (multi_ft name minus locs) = range_start locs /\ f_stop (multi_ft name minus locs) = range_stop locs
  /\ f_name (multi_ft name minus locs) = name.
Proof.
  intros H. unfold multi_ft. pose proof (sort_locs_ne minus locs H) as N. destruct (sort_locs minus locs); [congruence|].
  repeat split.
Qed.
