(* C18 proofs: the recursive Mapping -> Attr conversion happens on EVERY entry path (construction, item assignment, attribute
   assignment, update(), setdefault) and is the same function; lists are not descended.  Also: the regenerated table of the
   BioSeq.str / BioBasket.str namespaces agrees (in-place methods hand back the basket for 0, 1 and 2 sequences). *)
From Coq Require Import List ZArith NArith Bool.
From Coq.Strings Require Import Byte.
Import ListNotations.
From SV Require Import Text G_attr G_c18_str C18_Model C18_Lemmas C18_Heap C18_Obj.

Lemma conv_on_every_entry g kvs k v : is_attr g = true ->
  let stored := TMap g (aset k (conv v) kvs) in
  apply_op (OSetItem [] k v) (TMap g kvs) = inl (stored, VNone) /\
  apply_op (OSetAttr [] k v) (TMap g kvs) = inl (stored, VNone) /\
  apply_op (OUpdate [] (TMap TgDict [(k, v)])) (TMap g kvs) = inl (stored, VNone) /\
  (aget k kvs = None -> apply_op (OSetDefault [] k v) (TMap g kvs) = inl (stored, enc v)) /\
  attr_init g [(k, v)] = TMap g [(k, conv v)] /\
  apply_op (OGetItem [] k) stored = inl (stored, enc (conv v)) /\
  apply_op (OGetAttr [] k) stored = inl (stored, enc (conv v)).
Proof.
  intros A. cbn zeta. cbn [apply_op upd]. unfold ret, map_set. rewrite A. cbn [step].
  rewrite aget_aset_same. repeat split; try reflexivity.
  intros N. rewrite N. reflexivity.
Qed.

Lemma conv_list_not_descended l : conv (TList l) = TList l.
Proof. reflexivity. Qed.

Lemma str_table_ok : forallb str_row_ok STR_TABLE = true /\
  existsb (fun row => str_eqb (fst row) (bs "lower"%bs) && N.eqb (fst (snd row)) 1) STR_TABLE = true /\
  existsb (fun row => str_eqb (fst row) (bs "find"%bs) && N.eqb (fst (snd row)) 0) STR_TABLE = true.
Proof. vm_compute. repeat split; reflexivity. Qed.
