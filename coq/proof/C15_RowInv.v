(* C15 proofs, part 6: row2fts (fts2row l) = sort_fts l for feature lists of any length, width and names. *)
From Coq Require Import List ZArith NArith Bool Arith Lia.
From Coq.Strings Require Import Byte.
Import ListNotations.
From SV Require Import Text G_flags C15_Model C15_Lemmas.

Definition nobar (s : str) : Prop := forallb (fun c => negb (byte_eqb c BAR)) s = true.
Definition nodot (s : str) : Prop := forallb (fun c => negb (byte_eqb c DOT)) s = true.

(* ------------------------------------------------------------------ find / slice on prefixed strings *)
Lemma option_map_S_plus n (o : option nat) : option_map S (option_map (plus n) o) = option_map (plus (S n)) o.
Proof. destruct o; reflexivity. Qed.
Lemma find_from_pre c pre s k : find_from c (pre ++ s) (length pre + k) = option_map (plus (length pre)) (find_from c s k).
Proof.
  induction pre as [|x pre IH]; simpl; [destruct (find_from c s k); reflexivity|].
  rewrite IH. apply option_map_S_plus.
Qed.
Lemma find_from_hit c seg rest : forallb (fun x => negb (byte_eqb x c)) seg = true -> find_from c (seg ++ c :: rest) 0 = Some (length seg).
Proof.
  induction seg as [|x seg IH]; simpl; intros H.
  - rewrite byte_eqb_refl. reflexivity.
  - apply andb_prop in H. destruct H as [H1 H2]. apply negb_true_iff in H1. rewrite H1, (IH H2). reflexivity.
Qed.
Lemma find_from_miss c seg : forallb (fun x => negb (byte_eqb x c)) seg = true -> find_from c seg 0 = None.
Proof.
  induction seg as [|x seg IH]; simpl; intros H; [reflexivity|].
  apply andb_prop in H. destruct H as [H1 H2]. apply negb_true_iff in H1. rewrite H1, (IH H2). reflexivity.
Qed.
Lemma skipn_pre {A} (pre : list A) x s : skipn (length pre + 1) (pre ++ x :: s) = s.
Proof. induction pre as [|y pre IH]; simpl; [reflexivity|exact IH]. Qed.
Lemma firstn_exact {A} (a b : list A) : firstn (length a) (a ++ b) = a.
Proof. induction a as [|x a IH]; simpl; [reflexivity|]. rewrite IH. reflexivity. Qed.

(* ------------------------------------------------------------------ one iteration of the row2fts loop *)
Definition emit (names : list str) (f : str -> ft) : list ft :=
  match names with [] => [] | n0 :: ns => [f (shortest n0 ns)] end.
Definition is_nilb {A} (l : list A) : bool := match l with [] => true | _ => false end.

Lemma r2f_step_bar fuel pre c0 seg rest : nobar seg ->
  r2f (S fuel) (pre ++ c0 :: seg ++ BAR :: rest) (length pre) =
  emit (dedupe (dot_tokens seg))
       (mkft (length pre) (length pre + length seg + 2)
             (if is_nilb pre && negb (byte_eqb c0 BAR) then D_MISS_LEFT else D_NONE))
  ++ r2f fuel (pre ++ c0 :: seg ++ BAR :: rest) (length pre + 1 + length seg).
Proof.
  intros Hs. set (rw := pre ++ c0 :: seg ++ BAR :: rest).
  assert (Hlen : length rw = length pre + length seg + 2 + length rest).
  { unfold rw. rewrite app_length. simpl. rewrite app_length. simpl. lia. }
  assert (Hfind : find_from BAR rw (length pre + 1) = Some (length pre + 1 + length seg)).
  { unfold rw. rewrite find_from_pre. simpl. rewrite (find_from_hit BAR seg rest Hs). simpl. f_equal. lia. }
  assert (Hslice : slice rw (length pre + 1) (length pre + 1 + length seg) = seg).
  { unfold slice, rw. rewrite skipn_pre. replace (length pre + 1 + length seg - (length pre + 1)) with (length seg) by lia.
    apply firstn_exact. }
  cbn [r2f]. rewrite Hfind, Hslice.
  assert (L1 : Nat.ltb (length pre) (length rw) = true) by (apply Nat.ltb_lt; lia). rewrite L1.
  assert (L2 : Nat.eqb (length pre + 1 + length seg) (length rw) = false) by (apply Nat.eqb_neq; lia). rewrite L2.
  assert (L3 : Nat.min (length pre + 1 + length seg + 1) (length rw) = length pre + length seg + 2) by lia. rewrite L3.
  assert (L4 : Nat.eqb (length pre) 0 && negb (byte_eqb (hd DOT rw) BAR) = is_nilb pre && negb (byte_eqb c0 BAR)).
  { unfold rw. destruct pre; reflexivity. }
  rewrite L4, andb_false_r. unfold emit.
  destruct (dedupe (dot_tokens seg)) as [|n0 ns]; [reflexivity|].
  destruct (is_nilb pre && negb (byte_eqb c0 BAR)); reflexivity.
Qed.

Lemma r2f_at_end fuel rw : r2f fuel rw (length rw) = [].
Proof. destruct fuel; [reflexivity|]. cbn [r2f]. rewrite Nat.ltb_irrefl. reflexivity. Qed.

Lemma r2f_step_end fuel pre c0 seg : nobar seg ->
  r2f (S fuel) (pre ++ c0 :: seg) (length pre) =
  emit (dedupe (dot_tokens seg))
       (mkft (length pre) (length pre + length seg + 1)
             (if is_nilb pre && negb (byte_eqb c0 BAR) then N.lor D_MISS_LEFT D_MISS_RIGHT else D_MISS_RIGHT)).
Proof.
  intros Hs. set (rw := pre ++ c0 :: seg).
  assert (Hlen : length rw = length pre + length seg + 1).
  { unfold rw. rewrite app_length. simpl. lia. }
  assert (Hfind : find_from BAR rw (length pre + 1) = None).
  { unfold rw. rewrite find_from_pre. simpl. rewrite (find_from_miss BAR seg Hs). reflexivity. }
  assert (Hslice : slice rw (length pre + 1) (length rw) = seg).
  { unfold slice. rewrite Hlen. unfold rw. rewrite skipn_pre. apply firstn_all2. lia. }
  cbn [r2f]. rewrite Hfind, Hslice, !r2f_at_end.
  assert (L1 : Nat.ltb (length pre) (length rw) = true) by (apply Nat.ltb_lt; lia). rewrite L1.
  rewrite Nat.eqb_refl.
  assert (L3 : Nat.min (length rw + 1) (length rw) = length pre + length seg + 1) by lia. rewrite L3.
  assert (L4 : Nat.eqb (length pre) 0 && negb (byte_eqb (hd DOT rw) BAR) = is_nilb pre && negb (byte_eqb c0 BAR)).
  { unfold rw. destruct pre; reflexivity. }
  rewrite L4, andb_true_r. unfold emit.
  destruct (dedupe (dot_tokens seg)) as [|n0 ns]; [reflexivity|].
  destruct (is_nilb pre && negb (byte_eqb c0 BAR)); reflexivity.
Qed.

(* ------------------------------------------------------------------ names in a segment *)
Lemma dtg_word w rest cur : nodot w -> dot_tokens_go (w ++ rest) cur = dot_tokens_go rest (rev w ++ cur).
Proof.
  unfold nodot. revert cur. induction w as [|c w IH]; intros cur H; simpl; [reflexivity|].
  simpl in H. apply andb_prop in H. destruct H as [H1 H2]. apply negb_true_iff in H1. rewrite H1, (IH _ H2).
  rewrite <- app_assoc. reflexivity.
Qed.
Lemma dtg_dots n rest : dot_tokens_go (dots n ++ rest) [] = dot_tokens_go rest [].
Proof.
  induction n as [|n IH]; [reflexivity|]. change (dots (S n) ++ rest) with (DOT :: (dots n ++ rest)).
  cbn [dot_tokens_go]. rewrite byte_eqb_refl. exact IH.
Qed.
Lemma dtg_dot rest c cur : dot_tokens_go (DOT :: rest) (c :: cur) = rev (c :: cur) :: dot_tokens_go rest [].
Proof. cbn [dot_tokens_go]. rewrite byte_eqb_refl. reflexivity. Qed.
Lemma dtg_dots_end n c cur : dot_tokens_go (dots n) (c :: cur) = [rev (c :: cur)].
Proof.
  destruct n as [|n]; [reflexivity|]. change (dots (S n)) with (DOT :: dots n). rewrite dtg_dot.
  rewrite <- (app_nil_r (dots n)), dtg_dots. reflexivity.
Qed.
Lemma dot_tokens_dots n : dot_tokens (dots n) = [].
Proof. unfold dot_tokens. rewrite <- (app_nil_r (dots n)), dtg_dots. reflexivity. Qed.

Fixpoint nrep (k : nat) (name : str) : str :=
  match k with 0 => name | S k' => name ++ dots 100 ++ nrep k' name end.
Lemma rev_ne {A} (l : list A) : l <> [] -> exists c r, rev l = c :: r.
Proof.
  intros H. destruct (rev l) as [|c r] eqn:E; [|eauto]. apply (f_equal (@rev A)) in E. rewrite rev_involutive in E. simpl in E. congruence.
Qed.
Lemma tokens_nrep name k b : name <> [] -> nodot name -> dot_tokens_go (nrep k name ++ dots b) [] = repeat name (S k).
Proof.
  intros Hne Hnd. destruct (rev_ne name Hne) as (c & r & Hr).
  induction k as [|k IH]; cbn [nrep].
  - rewrite dtg_word by exact Hnd. rewrite app_nil_r, Hr, dtg_dots_end, <- Hr, rev_involutive. reflexivity.
  - rewrite <- !app_assoc. rewrite dtg_word by exact Hnd. rewrite app_nil_r, Hr.
    change (dots 100) with (DOT :: dots 99). cbn [app]. rewrite dtg_dot, <- Hr, rev_involutive, dtg_dots, IH. reflexivity.
Qed.
Lemma dedupe_repeat name k : dedupe (repeat name (S k)) = [name].
Proof.
  induction k as [|k IH]; [reflexivity|]. change (repeat name (S (S k))) with (name :: repeat name (S k)).
  cbn [dedupe]. rewrite IH. cbn [filter]. rewrite str_eqb_refl. reflexivity.
Qed.
Lemma names_inner name a k b : name <> [] -> nodot name ->
  dedupe (dot_tokens (dots a ++ nrep k name ++ dots b)) = [name].
Proof. intros Hne Hnd. unfold dot_tokens. rewrite dtg_dots, tokens_nrep by assumption. apply dedupe_repeat. Qed.

(* ------------------------------------------------------------------ the piece of one feature *)
Record okft (f : ft) : Prop := {
  ok_ne : f_name f <> [];
  ok_nodot : nodot (f_name f);
  ok_nobar : nobar (f_name f);
  ok_len : length (f_name f) + 2 <= f_stop f - f_start f;
  ok_def : (f_defect f <= 3)%N }.
Definition lch (f : ft) : byte := if open_l f then DOT else BAR.
Definition rch (f : ft) : byte := if open_r f then DOT else BAR.

Lemma dots_S n : dots (S n) = DOT :: dots n. Proof. reflexivity. Qed.
Lemma dots_snoc n : dots (S n) = dots n ++ [DOT].
Proof. induction n as [|n IH]; [reflexivity|]. rewrite dots_S, IH at 1. reflexivity. Qed.
Lemma dots_length n : length (dots n) = n. Proof. apply repeat_length. Qed.

Lemma rep_loop_shape l name fuel : forall k, length (nrep k name) + 2 <= l ->
  exists k', rep_loop fuel l name (nrep k name) = nrep k' name /\ length (nrep k' name) + 2 <= l.
Proof.
  induction fuel as [|fuel IH]; intros k Hk; cbn [rep_loop]; [eauto|].
  destruct (Nat.ltb (length name + length (nrep k name) + 150) l) eqn:E; [|eauto].
  apply Nat.ltb_lt in E. apply (IH (S k)). cbn [nrep]. rewrite !app_length, dots_length. lia.
Qed.
Lemma center_shape body l : length body + 2 <= l ->
  exists a b, center body l = DOT :: dots a ++ body ++ dots b ++ [DOT] /\ a + b + 2 + length body = l.
Proof.
  intros H. unfold center. assert (E : Nat.leb l (length body) = false) by (apply Nat.leb_gt; lia). rewrite E.
  set (marg := l - length body). set (x := if Nat.odd marg && Nat.odd l then 1 else 0).
  assert (Hx : x <= 1) by (unfold x; destruct (Nat.odd marg && Nat.odd l); lia).
  assert (Hodd : x = 1 -> Nat.odd marg = true).
  { unfold x. destruct (Nat.odd marg); simpl; [reflexivity|lia]. }
  pose proof (Nat.div_mod marg 2 ltac:(lia)) as D. pose proof (Nat.mod_upper_bound marg 2 ltac:(lia)) as U.
  assert (Hm : marg >= 2) by (unfold marg; lia).
  assert (Hoddm : Nat.odd marg = true -> marg mod 2 = 1).
  { intros O. apply Nat.odd_spec in O. destruct O as [m Hm2]. lia. }
  set (left := marg / 2 + x) in *.
  assert (Hl : 1 <= left /\ 1 <= marg - left).
  { unfold left. split; [lia|]. destruct (Nat.eq_dec x 1) as [X|X]; [specialize (Hoddm (Hodd X)); lia|lia]. }
  exists (left - 1), (marg - left - 1). split; [|unfold marg in *; lia].
  assert (E1 : dots left = DOT :: dots (left - 1)) by (rewrite <- dots_S; f_equal; lia).
  assert (E2 : dots (marg - left) = dots (marg - left - 1) ++ [DOT]) by (rewrite <- dots_snoc; f_equal; lia).
  rewrite E1, E2. reflexivity.
Qed.

Lemma defect_cases d : (d <= 3)%N -> d = 0%N \/ d = 1%N \/ d = 2%N \/ d = 3%N.
Proof. lia. Qed.

Lemma removelast_mid {A} (x y : A) a b c : removelast (x :: a ++ b ++ c ++ [y]) = x :: a ++ b ++ c.
Proof.
  replace (x :: a ++ b ++ c ++ [y]) with ((x :: a ++ b ++ c) ++ [y]) by (cbn [app]; rewrite <- !app_assoc; reflexivity).
  apply removelast_last.
Qed.
Lemma piece_shape f : okft f ->
  exists a b k, piece f = ROk (lch f :: dots a ++ nrep k (f_name f) ++ dots b ++ [rch f])
                /\ a + b + 2 + length (nrep k (f_name f)) = f_stop f - f_start f.
Proof.
  intros [Hne Hnd Hnb Hlen Hd]. unfold piece. set (l := f_stop f - f_start f) in *. set (name := f_name f) in *.
  destruct (rep_loop_shape l name l 0 Hlen) as (k & Hk & Hkl). cbn [nrep] in Hk. rewrite Hk.
  destruct (center_shape (nrep k name) l Hkl) as (a & b & Hc & Hab). rewrite Hc.
  assert (E : Nat.ltb (l + 2) (length name) = false) by (apply Nat.ltb_ge; lia). rewrite E.
  exists a, b, k. split; [|exact Hab].
  assert (Hlen2 : forall x y : byte, length (x :: dots a ++ nrep k name ++ dots b ++ [y]) = l).
  { intros x y. cbn [length]. rewrite !app_length, !dots_length. cbn [length]. lia. }
  unfold lch, rch, open_l, open_r.
  destruct (defect_cases _ Hd) as [D|[D|[D|D]]]; rewrite D; cbn [flag_in negb andb tl];
    change (flag_in D_MISS_LEFT 0) with false; change (flag_in D_BEYOND_LEFT 0) with false;
    change (flag_in D_MISS_RIGHT 0) with false; change (flag_in D_BEYOND_RIGHT 0) with false;
    change (flag_in D_MISS_LEFT 1) with true; change (flag_in D_BEYOND_LEFT 1) with false;
    change (flag_in D_MISS_RIGHT 1) with false; change (flag_in D_BEYOND_RIGHT 1) with false;
    change (flag_in D_MISS_LEFT 2) with false; change (flag_in D_BEYOND_LEFT 2) with false;
    change (flag_in D_MISS_RIGHT 2) with true; change (flag_in D_BEYOND_RIGHT 2) with false;
    change (flag_in D_MISS_LEFT 3) with true; change (flag_in D_BEYOND_LEFT 3) with false;
    change (flag_in D_MISS_RIGHT 3) with true; change (flag_in D_BEYOND_RIGHT 3) with false;
    cbn [negb andb tl]; rewrite ?removelast_mid; cbn [app]; rewrite <- ?app_assoc; cbn [app];
    rewrite ?Hlen2, ?Nat.eqb_refl; reflexivity.
Qed.

Definition pc (f : ft) : str := match piece f with ROk s => s | RErr _ => [] end.
Definition inn (f : ft) : str := removelast (tl (pc f)).
Lemma nobar_dots n : nobar (dots n).
Proof. unfold nobar. induction n; [reflexivity|exact IHn]. Qed.
Lemma nobar_app a b : nobar a -> nobar b -> nobar (a ++ b).
Proof. unfold nobar. intros. rewrite forallb_app. apply andb_true_intro. split; assumption. Qed.
Lemma nobar_nrep k name : nobar name -> nobar (nrep k name).
Proof. intros H. induction k as [|k IH]; cbn [nrep]; [exact H|]. repeat apply nobar_app; auto using nobar_dots. Qed.

Lemma pc_facts f : okft f ->
  piece f = ROk (pc f) /\ pc f = lch f :: inn f ++ [rch f] /\ nobar (inn f)
  /\ dedupe (dot_tokens (inn f)) = [f_name f] /\ dedupe (dot_tokens (inn f ++ [DOT])) = [f_name f]
  /\ length (inn f) + 2 = f_stop f - f_start f.
Proof.
  intros Hok. destruct (piece_shape f Hok) as (a & b & k & Hp & Hl). destruct Hok as [Hne Hnd Hnb Hlen Hd].
  unfold inn, pc. rewrite Hp. cbn [tl].
  assert (E : removelast (dots a ++ nrep k (f_name f) ++ dots b ++ [rch f]) = dots a ++ nrep k (f_name f) ++ dots b).
  { replace (dots a ++ nrep k (f_name f) ++ dots b ++ [rch f]) with ((dots a ++ nrep k (f_name f) ++ dots b) ++ [rch f])
      by (rewrite <- !app_assoc; reflexivity). apply removelast_last. }
  rewrite E. split; [reflexivity|]. split; [rewrite <- !app_assoc; reflexivity|].
  split; [repeat apply nobar_app; auto using nobar_dots, nobar_nrep|].
  split; [apply names_inner; assumption|].
  split.
  - rewrite <- !app_assoc. rewrite <- dots_snoc. apply names_inner; assumption.
  - rewrite !app_length, !dots_length. lia.
Qed.

(* ------------------------------------------------------------------ fts2row as a right-recursive row *)
Fixpoint tailrow (ls : nat) (L : list ft) : str :=
  match L with
  | [] => []
  | f :: R => (if Nat.ltb ls (f_start f) then dots (f_start f - ls) ++ pc f
               else if Nat.eqb (f_start f + 1) ls then tl (pc f) else pc f) ++ tailrow (f_stop f) R
  end.
Definition head_ok (acc : str) (ls : nat) (L : list ft) : Prop :=
  match L with
  | [] => True
  | f :: _ => ls <= f_start f + 1 /\ (f_start f + 1 = ls -> open_l f = false /\ exists a0, acc = a0 ++ [BAR])
  end.
Definition chain_ok (L : list ft) : Prop := match L with [] => True | f :: R => wf_chain f R = true end.

Lemma lch_closed f : open_l f = false -> lch f = BAR. Proof. unfold lch. intros ->. reflexivity. Qed.
Lemma rch_closed f : open_r f = false -> rch f = BAR. Proof. unfold rch. intros ->. reflexivity. Qed.

Lemma wf_chain_cons p f R : wf_chain p (f :: R) = true ->
  open_r p = false /\ open_l f = false /\ f_stop p <= f_start f + 1 /\ f_start p < f_start f /\ wf_chain f R = true.
Proof.
  cbn [wf_chain]. intros H. apply andb_prop in H. destruct H as [H H5]. apply andb_prop in H. destruct H as [H H4].
  apply andb_prop in H. destruct H as [H H3]. apply andb_prop in H. destruct H as [H1 H2].
  apply negb_true_iff in H1. apply negb_true_iff in H2. apply Nat.leb_le in H3. apply Nat.ltb_lt in H4. auto.
Qed.

Lemma f2r_tail L : forall acc ls, Forall okft L -> chain_ok L -> head_ok acc ls L ->
  f2r L acc ls = ROk (acc ++ tailrow ls L).
Proof.
  induction L as [|f R IH]; intros acc ls Hok Hch Hhd; [cbn; rewrite app_nil_r; reflexivity|].
  inversion Hok as [|x y Hf HR]; subst. destruct (pc_facts f Hf) as (Hp & Hshape & _ & _ & _ & Hlen).
  cbn [chain_ok] in Hch. cbn [head_ok] in Hhd. destruct Hhd as [Hle Hsh].
  assert (Hnext : forall acc', (exists x, acc' = x ++ pc f) -> chain_ok R /\ head_ok acc' (f_stop f) R).
  { intros acc' [x Hx]. destruct R as [|f' R']; [split; exact I|].
    destruct (wf_chain_cons _ _ _ Hch) as (Hr & Hl & Hst & _ & Hch'). split; [exact Hch'|].
    cbn [head_ok]. split; [exact Hst|]. intros _. split; [exact Hl|].
    exists (x ++ lch f :: inn f). rewrite Hx, Hshape, (rch_closed f Hr). rewrite <- app_assoc. reflexivity. }
  cbn [f2r tailrow]. rewrite Hp.
  destruct (Nat.ltb ls (f_start f)) eqn:E1.
  - destruct (Hnext ((acc ++ dots (f_start f - ls)) ++ pc f)) as [C H]; [eauto|].
    rewrite (IH _ _ HR C H). rewrite <- !app_assoc. reflexivity.
  - apply Nat.ltb_ge in E1. destruct (Nat.eqb (f_start f + 1) ls) eqn:E2.
    + apply Nat.eqb_eq in E2. destruct (Hsh E2) as [Hl [a0 Ha]]. subst acc.
      destruct (a0 ++ [BAR]) as [|c t] eqn:Ea; [destruct a0; discriminate|]. rewrite <- Ea.
      rewrite last_last, byte_eqb_refl, removelast_last.
      destruct (Hnext (a0 ++ pc f)) as [C H]; [eauto|]. rewrite (IH _ _ HR C H).
      rewrite Hshape, (lch_closed f Hl). cbn [tl]. repeat (rewrite <- app_assoc; cbn [app]). reflexivity.
    + apply Nat.eqb_neq in E2. assert (E3 : Nat.ltb (f_start f + 1) ls = false) by (apply Nat.ltb_ge; lia). rewrite E3.
      destruct (Hnext (acc ++ pc f)) as [C H]; [eauto|]. rewrite (IH _ _ HR C H). rewrite <- !app_assoc. reflexivity.
Qed.

(* ------------------------------------------------------------------ row2fts walks over that row and finds the features *)
Lemma ft_eta f : mkft (f_start f) (f_stop f) (f_defect f) (f_name f) = f.
Proof. destruct f; reflexivity. Qed.
Lemma emit_one name g : emit [name] g = [g name].
Proof. reflexivity. Qed.
Lemma dots_nobar_tokens n : dedupe (dot_tokens (dots n)) = [].
Proof. rewrite dot_tokens_dots. reflexivity. Qed.

Lemma defect_closed_r f : okft f -> open_r f = false ->
  (if open_l f then D_MISS_LEFT else D_NONE) = f_defect f.
Proof.
  intros [_ _ _ _ Hd]. unfold open_r, open_l. destruct (defect_cases _ Hd) as [D|[D|[D|D]]]; rewrite D; vm_compute; congruence.
Qed.
Lemma defect_open_r f : okft f -> open_r f = true ->
  (if open_l f then N.lor D_MISS_LEFT D_MISS_RIGHT else D_MISS_RIGHT) = f_defect f.
Proof.
  intros [_ _ _ _ Hd]. unfold open_r, open_l. destruct (defect_cases _ Hd) as [D|[D|[D|D]]]; rewrite D; vm_compute; congruence.
Qed.
Lemma walk R : forall f pre fuel, Forall okft (f :: R) -> chain_ok (f :: R) ->
  length pre = f_start f -> (open_l f = true -> pre = []) ->
  length (pc f ++ tailrow (f_stop f) R) < fuel ->
  r2f fuel (pre ++ pc f ++ tailrow (f_stop f) R) (length pre) = f :: R.
Proof.
  induction R as [|f' R' IH]; intros f pre fuel Hok Hch Hpre Hol Hfuel;
    inversion Hok as [|x y Hf HR]; subst;
    destruct (pc_facts f Hf) as (_ & Hshape & Hnb & Hn1 & Hn2 & Hlen);
    pose proof (ok_len f Hf) as Hl2;
    assert (Hflag : is_nilb pre && negb (byte_eqb (lch f) BAR) = open_l f)
      by (unfold lch; destruct (open_l f) eqn:E; [rewrite (Hol eq_refl); reflexivity|rewrite byte_eqb_refl; apply andb_false_r]);
    destruct fuel as [|fuel]; try lia.
  - (* last feature *)
    cbn [tailrow] in *. rewrite app_nil_r in *. rewrite Hshape in *.
    destruct (open_r f) eqn:Er.
    + unfold rch. rewrite Er. change (lch f :: inn f ++ [DOT]) with (lch f :: (inn f ++ [DOT])).
      rewrite r2f_step_end by (apply nobar_app; [exact Hnb|reflexivity]).
      rewrite Hn2, emit_one, Hflag, (defect_open_r f Hf Er). rewrite app_length. cbn [length].
      replace (length pre + (length (inn f) + 1) + 1) with (f_stop f) by lia. rewrite Hpre. rewrite ft_eta. reflexivity.
    + rewrite (rch_closed f Er).
      replace (pre ++ lch f :: inn f ++ [BAR]) with (pre ++ lch f :: inn f ++ BAR :: []) by reflexivity.
      rewrite r2f_step_bar by exact Hnb. rewrite Hn1, emit_one, Hflag, (defect_closed_r f Hf Er).
      replace (length pre + length (inn f) + 2) with (f_stop f) by lia. rewrite Hpre, ft_eta. cbn [app]. f_equal.
      (* the closing bar is the last column *)
      destruct fuel as [|fuel]; [reflexivity|].
      replace (pre ++ lch f :: inn f ++ [BAR]) with ((pre ++ lch f :: inn f) ++ BAR :: []) by (rewrite <- app_assoc; reflexivity).
      replace (f_start f + 1 + length (inn f)) with (length (pre ++ lch f :: inn f)) by (rewrite app_length; cbn [length]; lia).
      rewrite (r2f_step_end fuel (pre ++ lch f :: inn f) BAR []) by reflexivity. reflexivity.
  - (* a feature follows *)
    destruct (wf_chain_cons _ _ _ Hch) as (Hr & Hl' & Hst & Hlt & Hch').
    inversion HR as [|x y Hf' HR']; subst.
    destruct (pc_facts f' Hf') as (_ & Hshape' & _ & _ & _ & Hlen').
    pose proof (ok_len f' Hf') as Hl2'.
    cbn [tailrow] in *. rewrite Hshape in *. rewrite (rch_closed f Hr) in *.
    set (T := tailrow (f_stop f') R') in *.
    set (G := (if Nat.ltb (f_stop f) (f_start f') then dots (f_start f' - f_stop f) ++ pc f'
               else if Nat.eqb (f_start f' + 1) (f_stop f) then tl (pc f') else pc f')) in *.
    replace (pre ++ (lch f :: inn f ++ [BAR]) ++ G ++ T) with (pre ++ lch f :: inn f ++ BAR :: (G ++ T))
      by (cbn [app]; rewrite <- !app_assoc; reflexivity).
    rewrite r2f_step_bar by exact Hnb. rewrite Hn1, emit_one, Hflag, (defect_closed_r f Hf Hr).
    replace (length pre + length (inn f) + 2) with (f_stop f) by lia. rewrite Hpre, ft_eta. cbn [app]. f_equal.
    assert (Hlenall : length ((lch f :: inn f ++ [BAR]) ++ G ++ T) < S fuel) by exact Hfuel.
    rewrite app_length in Hlenall. cbn [length] in Hlenall. rewrite app_length in Hlenall. cbn [length] in Hlenall.
    set (pre1 := pre ++ lch f :: inn f).
    assert (Hpre1 : length pre1 = f_stop f - 1) by (unfold pre1; rewrite app_length; cbn [length]; lia).
    replace (pre ++ lch f :: inn f ++ BAR :: G ++ T) with (pre1 ++ BAR :: G ++ T) by (unfold pre1; rewrite <- app_assoc; reflexivity).
    replace (f_start f + 1 + length (inn f)) with (length pre1) by lia.
    assert (Hol' : open_l f' = true -> forall p : str, p = []) by (intros E; congruence).
    unfold G in *. clear G.
    destruct (Nat.ltb (f_stop f) (f_start f')) eqn:E1.
    + (* gap of dots *)
      apply Nat.ltb_lt in E1. repeat rewrite app_length in Hlenall. rewrite dots_length in Hlenall.
      destruct fuel as [|fuel]; [lia|].
      replace (pre1 ++ BAR :: (dots (f_start f' - f_stop f) ++ pc f') ++ T)
        with (pre1 ++ BAR :: dots (f_start f' - f_stop f) ++ BAR :: (inn f' ++ [rch f']) ++ T)
        by (rewrite Hshape', (lch_closed f' Hl'); repeat (rewrite <- app_assoc; cbn [app]); reflexivity).
      rewrite r2f_step_bar by apply nobar_dots. rewrite dots_nobar_tokens. cbn [emit app]. rewrite dots_length.
      set (pre2 := pre1 ++ BAR :: dots (f_start f' - f_stop f)).
      assert (Hpre2 : length pre2 = f_start f') by (unfold pre2; rewrite app_length; cbn [length]; rewrite dots_length; lia).
      replace (pre1 ++ BAR :: dots (f_start f' - f_stop f) ++ BAR :: (inn f' ++ [rch f']) ++ T) with (pre2 ++ pc f' ++ T)
        by (unfold pre2; rewrite Hshape', (lch_closed f' Hl'); repeat (rewrite <- app_assoc; cbn [app]); reflexivity).
      replace (length pre1 + 1 + (f_start f' - f_stop f)) with (length pre2) by lia.
      apply IH; [exact HR|exact Hch'|exact Hpre2|intros E; congruence|].
      fold T. rewrite app_length in *. lia.
    + apply Nat.ltb_ge in E1. destruct (Nat.eqb (f_start f' + 1) (f_stop f)) eqn:E2.
      * (* shared boundary column *)
        apply Nat.eqb_eq in E2.
        replace (pre1 ++ BAR :: tl (pc f') ++ T) with (pre1 ++ pc f' ++ T)
          by (rewrite Hshape', (lch_closed f' Hl'); reflexivity).
        apply IH; [exact HR|exact Hch'|lia|intros E; congruence|].
        fold T. rewrite Hshape' in *. cbn [tl] in Hlenall. rewrite !app_length in *. cbn [length] in *. repeat rewrite app_length. cbn [length]. lia.
      * (* adjacent: two bars *)
        apply Nat.eqb_neq in E2. assert (E3 : f_start f' = f_stop f) by lia.
        destruct fuel as [|fuel]; [lia|].
        replace (pre1 ++ BAR :: pc f' ++ T) with (pre1 ++ BAR :: [] ++ BAR :: (inn f' ++ [rch f']) ++ T)
          by (rewrite Hshape', (lch_closed f' Hl'); reflexivity).
        rewrite r2f_step_bar by reflexivity. cbn [emit dot_tokens dot_tokens_go dedupe app length].
        set (pre2 := pre1 ++ [BAR]).
        assert (Hpre2 : length pre2 = f_start f') by (unfold pre2; rewrite app_length; cbn [length]; lia).
        replace (pre1 ++ BAR :: BAR :: (inn f' ++ [rch f']) ++ T) with (pre2 ++ pc f' ++ T)
          by (unfold pre2; rewrite Hshape', (lch_closed f' Hl'); repeat (rewrite <- app_assoc; cbn [app]); reflexivity).
        replace (length pre1 + 1 + 0) with (length pre2) by lia.
        apply IH; [exact HR|exact Hch'|exact Hpre2|intros E; congruence|].
        fold T. rewrite app_length in *. lia.
Qed.

(* ------------------------------------------------------------------ the theorem *)
Definition oksorted (L : list ft) : Prop :=
  Forall okft L /\ match L with [] => True | f :: R => (open_l f = true -> f_start f = 0) /\ wf_chain f R = true end.
Definition last_stop (ls : nat) (L : list ft) : nat := fold_left (fun _ f => f_stop f) L ls.

Lemma pc_length f : okft f -> length (pc f) = f_stop f - f_start f.
Proof.
  intros Hf. destruct (pc_facts f Hf) as (_ & Hs & _ & _ & _ & Hl). rewrite Hs. cbn [length]. rewrite app_length. cbn [length]. lia.
Qed.
Lemma tailrow_len L : forall ls, Forall okft L -> chain_ok L ->
  match L with f :: _ => ls <= f_start f + 1 | [] => True end ->
  ls + length (tailrow ls L) = last_stop ls L.
Proof.
  induction L as [|f R IH]; intros ls Hok Hch Hhd; [cbn; lia|].
  inversion Hok as [|x y Hf HR]; subst. pose proof (pc_length f Hf) as Hp. pose proof (ok_len f Hf) as Hl.
  cbn [tailrow last_stop fold_left]. fold (last_stop (f_stop f) R). rewrite app_length.
  assert (Hn : match R with f' :: _ => f_stop f <= f_start f' + 1 | [] => True end /\ chain_ok R).
  { destruct R as [|f' R']; [split; exact I|]. cbn [chain_ok] in Hch. destruct (wf_chain_cons _ _ _ Hch) as (_ & _ & H3 & _ & H5). split; assumption. }
  destruct Hn as [Hn1 Hn2]. rewrite <- (IH (f_stop f) HR Hn2 Hn1).
  destruct (Nat.ltb ls (f_start f)) eqn:E1.
  - apply Nat.ltb_lt in E1. rewrite app_length, dots_length. lia.
  - apply Nat.ltb_ge in E1. destruct (Nat.eqb (f_start f + 1) ls) eqn:E2.
    + apply Nat.eqb_eq in E2. destruct (pc f) as [|c t] eqn:Ec; cbn [tl length] in *; lia.
    + apply Nat.eqb_neq in E2. lia.
Qed.

Theorem fts_inverse_sorted L : oksorted L ->
  f2r L [] 0 = ROk (tailrow 0 L) /\ row2fts (tailrow 0 L) = L /\ length (tailrow 0 L) = last_stop 0 L.
Proof.
  intros [Hok Hh]. destruct L as [|f R]; [repeat split; reflexivity|]. destruct Hh as [Hopen Hch].
  split; [|split].
  - rewrite f2r_tail; [reflexivity|exact Hok|exact Hch|]. cbn [head_ok]. split; [lia|]. intros E. lia.
  - inversion Hok as [|x y Hf HR]; subst. unfold row2fts. cbn [tailrow].
    destruct (f_start f) as [|s] eqn:Es.
    + cbn [Nat.ltb Nat.leb Nat.eqb plus]. change (0 + 1 =? 0) with false. cbn iota.
      apply (walk R f [] _ Hok Hch); [symmetry; exact Es|reflexivity|lia].
    + assert (Hl : open_l f = false) by (destruct (open_l f); [specialize (Hopen eq_refl); lia|reflexivity]).
      change (Nat.ltb 0 (S s)) with true. cbn iota.
      destruct (pc_facts f Hf) as (_ & Hshape & _).
      set (T := tailrow (f_stop f) R).
      assert (E : (dots (S s - 0) ++ pc f) ++ T = [] ++ DOT :: dots s ++ BAR :: (inn f ++ [rch f]) ++ T).
      { rewrite Hshape, (lch_closed f Hl), Nat.sub_0_r, dots_S. repeat (rewrite <- app_assoc; cbn [app]). reflexivity. }
      rewrite E. rewrite r2f_step_bar by apply nobar_dots. rewrite dots_nobar_tokens. cbn [emit app length]. rewrite dots_length.
      assert (E2 : DOT :: dots s ++ BAR :: (inn f ++ [rch f]) ++ T = (DOT :: dots s) ++ pc f ++ T).
      { rewrite Hshape, (lch_closed f Hl). repeat (rewrite <- app_assoc; cbn [app]). reflexivity. }
      rewrite E2. replace (0 + 1 + s) with (length (DOT :: dots s)) by (cbn [length]; rewrite dots_length; lia).
      apply (walk R f (DOT :: dots s) _ Hok Hch).
      * cbn [length]. rewrite dots_length. symmetry. exact Es.
      * intros E3. congruence.
      * fold T. rewrite Hshape. repeat (rewrite app_length; cbn [length]). rewrite dots_length. lia.
  - pose proof (tailrow_len (f :: R) 0 Hok Hch) as H. cbn [plus] in H. apply H. lia.
Qed.

Lemma name_char_ok c : is_name_char c = true -> negb (byte_eqb c DOT) = true /\ negb (byte_eqb c BAR) = true.
Proof. destruct c; vm_compute; intros H; try discriminate; split; reflexivity. Qed.
Lemma wf_ft_ok f : wf_ft f = true -> okft f.
Proof.
  unfold wf_ft. intros H. apply andb_prop in H. destruct H as [H H4]. apply andb_prop in H. destruct H as [H H3].
  apply andb_prop in H. destruct H as [H1 H2]. apply Nat.leb_le in H3. apply N.leb_le in H4.
  constructor; [destruct (f_name f); [discriminate|discriminate]| | |exact H3|exact H4].
  - unfold nodot. rewrite forallb_forall in *. intros c Hc. apply (name_char_ok c (H2 c Hc)).
  - unfold nobar. rewrite forallb_forall in *. intros c Hc. apply (name_char_ok c (H2 c Hc)).
Qed.
Lemma wf_sorted_ok L : wf_sorted L = true -> oksorted L.
Proof.
  unfold wf_sorted. intros H. apply andb_prop in H. destruct H as [H1 H2]. split.
  - apply Forall_forall. intros f Hf. rewrite forallb_forall in H1. apply wf_ft_ok, H1, Hf.
  - destruct L as [|f R]; [exact I|]. apply andb_prop in H2. destruct H2 as [H2 H3]. split; [|exact H3].
    intros E. rewrite E in H2. apply Nat.eqb_eq in H2. exact H2.
Qed.

Theorem row_fts_inverse l : wf_fts l = true ->
  exists s, fts2row l = ROk s /\ row2fts s = sort_fts l /\ length s = last_stop 0 (sort_fts l).
Proof.
  intros H. unfold wf_fts in H. destruct (fts_inverse_sorted _ (wf_sorted_ok _ H)) as (A & B & C).
  exists (tailrow 0 (sort_fts l)). unfold fts2row. auto.
Qed.
