(* C09: byte layouts.  dbm values (_pack/_unpack: exactly when they round-trip, F15) and the binary search file:
   fixed-width records, the data region and the whole file parse back to what was written. *)
From Coq Require Import List Arith Lia ZArith NArith Bool Sorted Permutation.
From Coq.Strings Require Import Byte.
Import ListNotations.
From SV Require Import Text C09_Model C09_Lemmas C09_Get C09_Store C09_Sort.

(* ------------------------------------------------------------------ _pack / _unpack: exactly the two-byte fields *)
Lemma to_bytes2_overflow n : (65536 <= n)%N -> to_bytes 2 n = None.
Proof.
  intros H. unfold to_bytes. cbn [to_bytes_rev].
  destruct (Byte.of_N (n mod 256)); [|reflexivity].
  destruct (Byte.of_N (n / 256 mod 256)); [|reflexivity].
  assert (N.eqb (n / 256 / 256) 0 = false) as ->; [|reflexivity].
  apply N.eqb_neq. intros E0. apply N.div_small_iff in E0; [|lia].
  assert (n / 256 >= 256)%N; [|lia]. apply N.le_ge. apply N.div_le_lower_bound; lia.
Qed.

Theorem pack_iff fn ll st : (exists b, pack fn ll st = Some b /\ unpack b = (fn, ll, st)) <-> (fn < 65536 /\ ll < 65536)%N.
Proof.
  split.
  - intros [b [H _]]. unfold pack in H.
    destruct (N.lt_ge_cases fn 65536) as [Hf|Hf]; [|rewrite (to_bytes2_overflow fn Hf) in H; discriminate].
    destruct (N.lt_ge_cases ll 65536) as [Hl|Hl]; [split; assumption|].
    rewrite (to_bytes2_overflow ll Hl) in H. destruct (to_bytes 2 fn); discriminate.
  - intros [Hf Hl]. exact (pack_unpack fn ll st Hf Hl).
Qed.

Lemma pack_none_iff fn ll st : pack fn ll st = None <-> (65536 <= fn \/ 65536 <= ll)%N.
Proof.
  split.
  - intros H. destruct (N.lt_ge_cases fn 65536) as [Hf|Hf]; [|left; exact Hf].
    destruct (N.lt_ge_cases ll 65536) as [Hl|Hl]; [|right; exact Hl].
    destruct (pack_unpack fn ll st Hf Hl) as [b [E _]]. congruence.
  - intros [H|H]; unfold pack.
    + rewrite (to_bytes2_overflow fn H). reflexivity.
    + rewrite (to_bytes2_overflow ll H). destruct (to_bytes 2 fn); reflexivity.
Qed.

(* F15 exactly: the dbm store hands the record back iff file number and line length fit two bytes, OverflowError otherwise *)
Theorem stored_db_iff e :
  (stored MODE_DB e = Ok (e_fn e, e_linelen e, e_start e) <-> (N.of_nat (e_fn e) < 65536 /\ N.of_nat (e_linelen e) < 65536)%N)
  /\ (stored MODE_DB e = Err (bs "OverflowError"%bs) <-> (65536 <= N.of_nat (e_fn e) \/ 65536 <= N.of_nat (e_linelen e))%N).
Proof.
  unfold stored. cbn [N.eqb MODE_DB Pos.eqb].
  destruct (pack (N.of_nat (e_fn e)) (N.of_nat (e_linelen e)) (N.of_nat (e_start e))) as [b|] eqn:P.
  - assert (B: (N.of_nat (e_fn e) < 65536 /\ N.of_nat (e_linelen e) < 65536)%N).
    { destruct (N.lt_ge_cases (N.of_nat (e_fn e)) 65536) as [Hf|Hf];
        [|assert (X: pack (N.of_nat (e_fn e)) (N.of_nat (e_linelen e)) (N.of_nat (e_start e)) = None) by (apply pack_none_iff; left; exact Hf); congruence].
      destruct (N.lt_ge_cases (N.of_nat (e_linelen e)) 65536) as [Hl|Hl]; [split; assumption|].
      assert (X: pack (N.of_nat (e_fn e)) (N.of_nat (e_linelen e)) (N.of_nat (e_start e)) = None) by (apply pack_none_iff; right; exact Hl). congruence. }
    destruct B as [B1 B2]. destruct (pack_unpack _ _ (N.of_nat (e_start e)) B1 B2) as [b' [P' U]]. rewrite P in P'. inversion P'; subst b'.
    rewrite U, !Nat2N.id. split; split; try (intros; split; assumption); try reflexivity; try discriminate. intros [H|H]; lia.
  - apply pack_none_iff in P. split; split; try discriminate; try reflexivity; try (intros; exact P). intros [H1 H2]. destruct P; lia.
Qed.

(* ------------------------------------------------------------------ list slices *)
Lemma sub_app_l (a r : str) n : length a = n -> sub (a ++ r) 0 n = a.
Proof. intros <-. unfold sub. cbn [skipn]. rewrite firstn_app, Nat.sub_diag, firstn_all. cbn. apply app_nil_r. Qed.

Lemma sub_skip (a r : str) k m n : length a = k -> sub (a ++ r) (k + m) n = sub r m n.
Proof.
  intros <-. unfold sub. f_equal. rewrite skipn_app. rewrite (skipn_all2 a) by lia. cbn [app].
  replace (length a + m - length a) with m by lia. reflexivity.
Qed.

Lemma sub_at (pre x post : str) k n : length pre = k -> length x = n -> sub (pre ++ x ++ post) k n = x.
Proof. intros Hk Hn. replace k with (k + 0) by lia. rewrite (sub_skip pre _ k 0 n Hk). apply sub_app_l. exact Hn. Qed.

(* ------------------------------------------------------------------ integers in s bytes *)
Lemma byte_length_bound n : (n < 256 ^ N.of_nat (byte_length n))%N.
Proof.
  unfold byte_length, bit_length. set (a := N.to_nat (N.size n)).
  assert (Ha: a <= 8 * ((a + 7) / 8)).
  { pose proof (Nat.div_mod (a + 7) 8 ltac:(lia)). pose proof (Nat.mod_upper_bound (a + 7) 8 ltac:(lia)). lia. }
  pose proof (N.size_gt n) as Hs. remember ((a + 7) / 8) as q eqn:Eq. clear Eq.
  assert (E: (256 ^ N.of_nat q = 2 ^ (8 * N.of_nat q))%N) by (rewrite N.pow_mul_r; reflexivity).
  rewrite E. eapply N.lt_le_trans; [exact Hs|]. apply N.pow_le_mono_r; [lia|]. unfold a in Ha. lia.
Qed.

Lemma to_bytes_fit s n : byte_length n <= s -> exists b, to_bytes s n = Some b /\ length b = s /\ from_bytes b = n.
Proof.
  intros H. apply to_bytes_some. eapply N.lt_le_trans; [apply byte_length_bound|]. apply N.pow_le_mono_r; lia.
Qed.

(* ------------------------------------------------------------------ ljust / rstrip *)
Lemma drop_sp_allsp : forall p t, forallb (fun c => byte_eqb c SP) p = true -> drop_sp (p ++ t) = drop_sp t.
Proof.
  induction p as [|c p IH]; intros t H; [reflexivity|]. cbn [forallb] in H. apply andb_prop in H. destruct H as [H1 H2].
  cbn [app drop_sp]. rewrite H1. apply IH. exact H2.
Qed.

Lemma rstrip_ljust s (v : str) : no_byte SP v = true -> rstrip_sp (ljust s v) = v.
Proof.
  intros H. unfold rstrip_sp, ljust. rewrite rev_app_distr, drop_sp_allsp.
  - destruct (rev v) as [|c t] eqn:E; [cbn; rewrite <- (rev_involutive v), E; reflexivity|].
    assert (Hc: byte_eqb c SP = false).
    { unfold no_byte in H. rewrite forallb_forall in H. specialize (H c). rewrite in_rev, E in H. specialize (H (or_introl eq_refl)).
      destruct (byte_eqb c SP); [discriminate|reflexivity]. }
    cbn [drop_sp]. rewrite Hc, <- E. apply rev_involutive.
  - apply forallb_forall. intros c Hc. apply in_rev in Hc. apply repeat_spec in Hc. subst. apply byte_eqb_refl.
Qed.

Lemma ljust_length s (v : str) : length v <= s -> length (ljust s v) = s.
Proof. intros H. unfold ljust. rewrite app_length, repeat_length. lia. Qed.

(* ------------------------------------------------------------------ one record *)
Definition fits (sz : sizes) (e : entry) : Prop :=
  let '(s0, s1, s2, s3) := sz in
  length (e_id e) <= s0 /\ byte_length (N.of_nat (e_fn e)) <= s1 /\ byte_length (N.of_nat (e_linelen e)) <= s2
  /\ byte_length (N.of_nat (e_start e)) <= s3.

Theorem record_roundtrip sz e : fits sz e -> no_byte SP (e_id e) = true ->
  exists b, enc_rec sz e = Some b /\ length b = recsize sz /\ dec_rec sz b = e.
Proof.
  destruct sz as [[[s0 s1] s2] s3]. intros [F0 [F1 [F2 F3]]] Hsp.
  destruct (to_bytes_fit s1 _ F1) as [a [Ea [La Va]]]. destruct (to_bytes_fit s2 _ F2) as [b [Eb [Lb Vb]]].
  destruct (to_bytes_fit s3 _ F3) as [c [Ec [Lc Vc]]].
  exists (ljust s0 (e_id e) ++ a ++ b ++ c). unfold enc_rec. rewrite Ea, Eb, Ec. split; [reflexivity|].
  pose proof (ljust_length s0 (e_id e) F0) as L0. split.
  - unfold recsize. rewrite !app_length. lia.
  - unfold dec_rec. set (A := ljust s0 (e_id e)) in *.
    assert (E0: sub (A ++ a ++ b ++ c) 0 s0 = A) by (apply sub_app_l; exact L0).
    assert (E1: sub (A ++ a ++ b ++ c) s0 s1 = a) by (apply sub_at; assumption).
    assert (E2: sub (A ++ a ++ b ++ c) (s0 + s1) s2 = b).
    { replace (A ++ a ++ b ++ c) with ((A ++ a) ++ b ++ c) by (rewrite <- app_assoc; reflexivity).
      apply sub_at; [rewrite app_length; lia|exact Lb]. }
    assert (E3: sub (A ++ a ++ b ++ c) (s0 + s1 + s2) s3 = c).
    { replace (A ++ a ++ b ++ c) with ((A ++ a ++ b) ++ c ++ []) by (rewrite app_nil_r, <- !app_assoc; reflexivity).
      apply sub_at; [rewrite !app_length; lia|exact Lc]. }
    rewrite E0, E1, E2, E3. unfold A.
    rewrite Va, Vb, Vc, !Nat2N.id, (rstrip_ljust s0 _ Hsp). destruct e; reflexivity.
Qed.

(* ------------------------------------------------------------------ the data region *)
Theorem records_roundtrip sz : forall recs, Forall (fits sz) recs -> Forall (fun e => no_byte SP (e_id e) = true) recs ->
  exists d, enc_all sz recs = Some d /\ length d = length recs * recsize sz /\ dec_all sz (length recs) d = recs.
Proof.
  induction recs as [|e recs IH]; intros F S.
  - exists []. split; [reflexivity|]. split; reflexivity.
  - inversion F as [|? ? Fe F']; inversion S as [|? ? Se S']; subst.
    destruct (record_roundtrip sz e Fe Se) as [b [Eb [Lb Db]]]. destruct (IH F' S') as [d [Ed [Ld Dd]]].
    exists (b ++ d). cbn [enc_all]. rewrite Eb, Ed. split; [reflexivity|]. split.
    + rewrite app_length. cbn [length]. lia.
    + cbn [length dec_all]. rewrite <- Lb. rewrite firstn_app, Nat.sub_diag, firstn_all. cbn [firstn]. rewrite app_nil_r.
      rewrite skipn_app, Nat.sub_diag, skipn_all. cbn [skipn app]. rewrite Db, Dd. reflexivity.
Qed.

(* the column widths write() computes fit every record *)
Lemma max_list_ge x : forall l, In x l -> x <= max_list l.
Proof.
  induction l as [|y l IH]; intros H; [destruct H|]. cbn [max_list fold_right]. destruct H as [<-|H]; [lia|].
  specialize (IH H). unfold max_list in IH. lia.
Qed.

Lemma sizes_fit data e : In e data -> fits (bsf_sizes data) e.
Proof.
  intros H. unfold fits, bsf_sizes. split; [|split; [|split]]; apply max_list_ge.
  - exact (in_map (fun e => length (e_id e)) _ _ H).
  - exact (in_map (fun e => byte_length (N.of_nat (e_fn e))) _ _ H).
  - exact (in_map (fun e => byte_length (N.of_nat (e_linelen e))) _ _ H).
  - exact (in_map (fun e => byte_length (N.of_nat (e_start e))) _ _ H).
Qed.

(* ------------------------------------------------------------------ the whole file: write() then read_header() / read() *)
Lemma to_bytes_nat s k : (N.of_nat k < 256 ^ N.of_nat s)%N ->
  exists b, to_bytes s (N.of_nat k) = Some b /\ length b = s /\ N.to_nat (from_bytes b) = k.
Proof. intros H. destruct (to_bytes_some s _ H) as [b [E [L V]]]. exists b. rewrite V, Nat2N.id. auto. Qed.

Lemma field_meta_ok ty s : ty < 256 -> (N.of_nat s < 65536)%N ->
  exists t z, field_meta ty s = Some (t ++ z) /\ length t = 1 /\ length z = 2 /\ N.to_nat (from_bytes z) = s.
Proof.
  intros Ht Hs. destruct (to_bytes_nat 1 ty ltac:(change (256 ^ N.of_nat 1)%N with 256%N; lia)) as [t [Et [Lt _]]].
  destruct (to_bytes_nat 2 s ltac:(change (256 ^ N.of_nat 2)%N with 65536%N; lia)) as [z [Ez [Lz Vz]]].
  exists t, z. unfold field_meta. rewrite Et, Ez. auto.
Qed.

Definition sizes_small (sz : sizes) : Prop :=
  let '(s0, s1, s2, s3) := sz in (N.of_nat s0 < 65536 /\ N.of_nat s1 < 65536 /\ N.of_nat s2 < 65536 /\ N.of_nat s3 < 65536)%N.

(* reopening at the byte level: the file write() produces for any header and any records (ids without blanks, not empty)
   parses back -- read_header() gives the header, read() the sorted records -- whenever the offsets and column widths fit
   their two-byte fields (otherwise write() raises OverflowError) *)
Theorem file_roundtrip (hdr : str) (data : list entry) :
  (N.of_nat (length hdr) + 22 < 65536)%N -> sizes_small (bsf_sizes data) ->
  Forall (fun e => no_byte SP (e_id e) = true /\ e_id e <> []) data ->
  exists f, bsf_file hdr data = Some f /\ bsf_parse f = Some (hdr, bsf_sizes data, sort_e data).
Proof.
  intros Hh Hs Hd. unfold bsf_file. set (sz := bsf_sizes data) in *. set (recs := sort_e data).
  assert (Pm: Permutation recs data) by apply sort_perm.
  assert (Frecs: Forall (fits sz) recs).
  { apply Forall_forall. intros e He. apply sizes_fit. exact (Permutation_in _ Pm He). }
  assert (Srecs: Forall (fun e => no_byte SP (e_id e) = true) recs).
  { apply Forall_forall. intros e He. rewrite Forall_forall in Hd. exact (proj1 (Hd _ (Permutation_in _ Pm He))). }
  destruct (records_roundtrip sz recs Frecs Srecs) as [d [Ed [Ld Dd]]]. rewrite Ed.
  assert (Rpos: recs <> [] -> 0 < recsize sz).
  { intros Hne. destruct recs as [|e recs'] eqn:Er; [congruence|].
    assert (Ie: In e data) by (apply (Permutation_in _ Pm); left; reflexivity).
    rewrite Forall_forall in Hd. destruct (Hd _ Ie) as [_ Hid]. pose proof (sizes_fit data e Ie) as Fe. fold sz in Fe.
    destruct sz as [[[s0 s1] s2] s3]. destruct Fe as [F0 _]. unfold recsize. destruct (e_id e); [congruence|]. cbn in F0. lia. }
  destruct sz as [[[s0 s1] s2] s3] eqn:Esz. destruct Hs as [B0 [B1 [B2 B3]]].
  set (mo := 8 + length hdr).
  destruct (to_bytes_nat 2 mo ltac:(change (256 ^ N.of_nat 2)%N with 65536%N; unfold mo; lia)) as [a [Ea [La Va]]].
  destruct (to_bytes_nat 2 (mo + 14) ltac:(change (256 ^ N.of_nat 2)%N with 65536%N; unfold mo; lia)) as [b [Eb [Lb Vb]]].
  destruct (to_bytes_nat 2 4 ltac:(change (256 ^ N.of_nat 2)%N with 65536%N; lia)) as [n4 [En [Ln Vn]]]. cbn [N.of_nat Pos.of_succ_nat Pos.succ] in En.
  destruct (field_meta_ok 0 s0 ltac:(lia) B0) as [t0 [z0 [M0 [Lt0 [Lz0 V0]]]]].
  destruct (field_meta_ok 50 s1 ltac:(lia) B1) as [t1 [z1 [M1 [Lt1 [Lz1 V1]]]]].
  destruct (field_meta_ok 50 s2 ltac:(lia) B2) as [t2 [z2 [M2 [Lt2 [Lz2 V2]]]]].
  destruct (field_meta_ok 50 s3 ltac:(lia) B3) as [t3 [z3 [M3 [Lt3 [Lz3 V3]]]]].
  fold mo. rewrite Ea, Eb. unfold meta_bytes. rewrite En, M0, M1, M2, M3.
  eexists. split; [reflexivity|].
  set (f := MAGIC ++ a ++ b ++ hdr ++ (n4 ++ (t0 ++ z0) ++ (t1 ++ z1) ++ (t2 ++ z2) ++ t3 ++ z3) ++ d).
  assert (Lm: length MAGIC = 4) by reflexivity.
  (* the fields of the file at their offsets *)
  assert (R1: rint f 4 2 = mo).
  { unfold rint, f. rewrite (sub_at MAGIC a _ 4 2 Lm La). exact Va. }
  assert (R2: rint f 6 2 = mo + 14).
  { unfold rint, f. replace (MAGIC ++ a ++ b ++ hdr ++ (n4 ++ (t0 ++ z0) ++ (t1 ++ z1) ++ (t2 ++ z2) ++ t3 ++ z3) ++ d)
      with ((MAGIC ++ a) ++ b ++ hdr ++ (n4 ++ (t0 ++ z0) ++ (t1 ++ z1) ++ (t2 ++ z2) ++ t3 ++ z3) ++ d) by (rewrite <- !app_assoc; reflexivity).
    rewrite (sub_at (MAGIC ++ a) b _ 6 2); [exact Vb|rewrite app_length; lia|exact Lb]. }
  assert (R3: sub f 8 (mo - 8) = hdr).
  { unfold f. replace (MAGIC ++ a ++ b ++ hdr ++ (n4 ++ (t0 ++ z0) ++ (t1 ++ z1) ++ (t2 ++ z2) ++ t3 ++ z3) ++ d)
      with ((MAGIC ++ a ++ b) ++ hdr ++ (n4 ++ (t0 ++ z0) ++ (t1 ++ z1) ++ (t2 ++ z2) ++ t3 ++ z3) ++ d) by (rewrite <- !app_assoc; reflexivity).
    apply sub_at; [rewrite !app_length; lia|unfold mo; lia]. }
  set (P := MAGIC ++ a ++ b ++ hdr).
  assert (LP: length P = mo) by (unfold P, mo; rewrite !app_length; lia).
  assert (Ef: f = P ++ n4 ++ t0 ++ z0 ++ t1 ++ z1 ++ t2 ++ z2 ++ t3 ++ z3 ++ d) by (unfold f, P; rewrite <- !app_assoc; reflexivity).
  assert (R4: rint f mo 2 = 4).
  { unfold rint. rewrite Ef, (sub_at P n4 _ mo 2 LP Ln). exact Vn. }
  assert (R5: rint f (mo + 3) 2 = s0).
  { unfold rint. rewrite Ef. replace (P ++ n4 ++ t0 ++ z0 ++ t1 ++ z1 ++ t2 ++ z2 ++ t3 ++ z3 ++ d)
      with ((P ++ n4 ++ t0) ++ z0 ++ t1 ++ z1 ++ t2 ++ z2 ++ t3 ++ z3 ++ d) by (rewrite <- !app_assoc; reflexivity).
    rewrite (sub_at _ z0 _ (mo + 3) 2); [exact V0|rewrite !app_length; lia|exact Lz0]. }
  assert (R6: rint f (mo + 6) 2 = s1).
  { unfold rint. rewrite Ef. replace (P ++ n4 ++ t0 ++ z0 ++ t1 ++ z1 ++ t2 ++ z2 ++ t3 ++ z3 ++ d)
      with ((P ++ n4 ++ t0 ++ z0 ++ t1) ++ z1 ++ t2 ++ z2 ++ t3 ++ z3 ++ d) by (rewrite <- !app_assoc; reflexivity).
    rewrite (sub_at _ z1 _ (mo + 6) 2); [exact V1|rewrite !app_length; lia|exact Lz1]. }
  assert (R7: rint f (mo + 9) 2 = s2).
  { unfold rint. rewrite Ef. replace (P ++ n4 ++ t0 ++ z0 ++ t1 ++ z1 ++ t2 ++ z2 ++ t3 ++ z3 ++ d)
      with ((P ++ n4 ++ t0 ++ z0 ++ t1 ++ z1 ++ t2) ++ z2 ++ t3 ++ z3 ++ d) by (rewrite <- !app_assoc; reflexivity).
    rewrite (sub_at _ z2 _ (mo + 9) 2); [exact V2|rewrite !app_length; lia|exact Lz2]. }
  assert (R8: rint f (mo + 12) 2 = s3).
  { unfold rint. rewrite Ef. replace (P ++ n4 ++ t0 ++ z0 ++ t1 ++ z1 ++ t2 ++ z2 ++ t3 ++ z3 ++ d)
      with ((P ++ n4 ++ t0 ++ z0 ++ t1 ++ z1 ++ t2 ++ z2 ++ t3) ++ z3 ++ d) by (rewrite <- !app_assoc; reflexivity).
    rewrite (sub_at _ z3 _ (mo + 12) 2); [exact V3|rewrite !app_length; lia|exact Lz3]. }
  assert (R9: skipn (mo + 14) f = d /\ length f = mo + 14 + length d).
  { rewrite Ef. replace (P ++ n4 ++ t0 ++ z0 ++ t1 ++ z1 ++ t2 ++ z2 ++ t3 ++ z3 ++ d)
      with ((P ++ n4 ++ t0 ++ z0 ++ t1 ++ z1 ++ t2 ++ z2 ++ t3 ++ z3) ++ d) by (rewrite <- !app_assoc; reflexivity).
    assert (LL: length (P ++ n4 ++ t0 ++ z0 ++ t1 ++ z1 ++ t2 ++ z2 ++ t3 ++ z3) = mo + 14) by (rewrite !app_length; lia).
    split; [rewrite <- LL, skipn_app, Nat.sub_diag, skipn_all; reflexivity|rewrite app_length; lia]. }
  destruct R9 as [R9 R10].
  unfold bsf_parse. fold f. rewrite R1, R2, R4, R5, R6, R7, R8. cbn [Nat.eqb]. rewrite R3, R9, R10.
  replace (mo + 14 + length d - (mo + 14)) with (length d) by lia. rewrite Ld.
  destruct (recsize (s0, s1, s2, s3) =? 0) eqn:Ez.
  - apply Nat.eqb_eq in Ez. destruct recs as [|e recs'] eqn:Er; [reflexivity|].
    exfalso. assert (X: 0 < recsize (s0, s1, s2, s3)) by (apply Rpos; discriminate). lia.
  - apply Nat.eqb_neq in Ez. rewrite Nat.div_mul by exact Ez. rewrite Dd. reflexivity.
Qed.
