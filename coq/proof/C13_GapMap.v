(* C13: gap transparency of the word matcher.  For plain words (letters that are neither "." nor gap characters) matching the
   gap-tolerant pattern on the gapped text is matching the plain pattern on the degapped text; the spans correspond through
   the residue numbering (rank = number of residues before a column). *)
From Coq Require Import List ZArith NArith Bool Lia.
From Coq.Strings Require Import Byte.
Import ListNotations.
From SV Require Import Text G_codes C05_Model C05_Lemmas C13_Model C13_Rx C13_Lemmas C13_Once C13_RxLemmas.

(* number of residues among the first k columns *)
Definition rank (g : str) (s : str) (k : nat) : nat := length (degap g (firstn k s)).
Definition respan (g : str) (s : str) (be : nat * nat) : nat * nat := (rank g s (fst be), rank g s (snd be)).
Fixpoint cntg (g s : str) : nat := match s with x :: t => if has x g then S (cntg g t) else 0%nat | [] => 0%nat end.
Fixpoint skipg (g s : str) : str := match s with x :: t => if has x g then skipg g t else s | [] => [] end.

Lemma rank_0 g s : rank g s 0 = 0%nat.
Proof. reflexivity. Qed.
Lemma rank_nil g k : rank g [] k = 0%nat.
Proof. unfold rank. now rewrite firstn_nil. Qed.
Lemma rank_cons_gap g x t k : has x g = true -> rank g (x :: t) (S k) = rank g t k.
Proof. intros H. unfold rank, degap. cbn. rewrite H. reflexivity. Qed.
Lemma rank_cons_res g x t k : has x g = false -> rank g (x :: t) (S k) = S (rank g t k).
Proof. intros H. unfold rank, degap. cbn. rewrite H. reflexivity. Qed.
Lemma degap_cons_gap g x t : has x g = true -> degap g (x :: t) = degap g t.
Proof. intros H. unfold degap. cbn. now rewrite H. Qed.
Lemma degap_cons_res g x t : has x g = false -> degap g (x :: t) = x :: degap g t.
Proof. intros H. unfold degap. cbn. now rewrite H. Qed.

Lemma degap_skipg g s : degap g (skipg g s) = degap g s.
Proof.
  induction s as [|x t IH]; [reflexivity|]. cbn [skipg]. destruct (has x g) eqn:E; [|reflexivity].
  rewrite IH. now rewrite degap_cons_gap by exact E.
Qed.
Lemma rank_skipg g s n : rank g s (cntg g s + n) = rank g (skipg g s) n.
Proof.
  induction s as [|x t IH]; [cbn [cntg skipg]; now rewrite !rank_nil|]. cbn [cntg skipg]. destruct (has x g) eqn:E; [|reflexivity].
  cbn [Nat.add]. rewrite rank_cons_gap by exact E. exact IH.
Qed.
Lemma skipg_head g s x t : skipg g s = x :: t -> has x g = false.
Proof.
  induction s as [|y r IH]; [discriminate|]. cbn [skipg]. destruct (has y g) eqn:E; [exact IH|].
  intros H. inversion H; subst. exact E.
Qed.

Lemma degap_firstn g s : forall k, degap g (firstn k s) = firstn (rank g s k) (degap g s).
Proof.
  induction s as [|x t IH]; intros k; [now rewrite rank_nil, firstn_nil|]. destruct k as [|k]; [reflexivity|].
  cbn [firstn]. destruct (has x g) eqn:E.
  - rewrite rank_cons_gap, !degap_cons_gap by exact E. apply IH.
  - rewrite rank_cons_res, !degap_cons_res by exact E. cbn [firstn]. now rewrite IH.
Qed.
Lemma degap_skipn g s : forall k, degap g (skipn k s) = skipn (rank g s k) (degap g s).
Proof.
  induction s as [|x t IH]; intros k; [now rewrite rank_nil, skipn_nil|]. destruct k as [|k]; [reflexivity|].
  cbn [skipn]. destruct (has x g) eqn:E.
  - rewrite rank_cons_gap, degap_cons_gap by exact E. apply IH.
  - rewrite rank_cons_res, degap_cons_res by exact E. cbn [skipn]. apply IH.
Qed.
Lemma rank_add g s a b : rank g s (a + b) = (rank g s a + rank g (skipn a s) b)%nat.
Proof. unfold rank. rewrite firstn_add, degap_app, app_length. reflexivity. Qed.
(* the text of a span, degapped, is the text of the translated span of the degapped sequence *)
Lemma degap_slice g s b e : (b <= e)%nat -> degap g (slice b e s) = slice (rank g s b) (rank g s e) (degap g s).
Proof.
  intros H. unfold slice. rewrite degap_firstn, degap_skipn. f_equal.
  replace e with (b + (e - b))%nat at 2 by lia. rewrite rank_add. lia.
Qed.
Lemma rank_residues g s b : Z.of_nat (rank g s b) = residues (Some g) (slice 0 b s).
Proof. unfold rank, residues, slice, degap, is_gap. cbn [skipn]. now rewrite Nat.sub_0_r. Qed.

(* reverse complement and gap removal commute (gap symbols are their own complement and are not U) *)
Lemma degap_rev g t : degap g (rev t) = rev (degap g t).
Proof.
  induction t as [|x t IH]; [reflexivity|]. cbn [rev]. rewrite degap_app, IH. destruct (has x g) eqn:E.
  - rewrite (degap_cons_gap g x t E), (degap_cons_gap g x [] E). cbn. now rewrite app_nil_r.
  - rewrite (degap_cons_res g x t E), (degap_cons_res g x [] E). reflexivity.
Qed.
Lemma degap_map_cmap g u t : forallb gap_char_ok g = true -> degap g (map (cmap u) t) = map (cmap u) (degap g t).
Proof.
  intros Hg. induction t as [|x t IH]; [reflexivity|]. unfold degap in *. cbn [map filter]. rewrite cmap_gap by exact Hg.
  destruct (has x g); cbn [negb map]; now rewrite IH.
Qed.
Lemma gapok_notU g : forallb gap_char_ok g = true -> has cU g = false.
Proof.
  induction g as [|a g IH]; [reflexivity|]. cbn [forallb]. intros H. apply andb_prop in H. destruct H as [Ha H].
  unfold has. cbn [existsb]. fold (has cU g). rewrite IH by exact H. rewrite orb_false_r.
  destruct a; try discriminate Ha; reflexivity.
Qed.
Lemma hasU_degap g s : has cU g = false -> has cU (degap g s) = has cU s.
Proof.
  intros Hg. induction s as [|x s IH]; [reflexivity|]. destruct (has x g) eqn:E.
  - rewrite degap_cons_gap by exact E. rewrite IH. unfold has at 2. cbn [existsb]. fold (has cU s).
    destruct (byte_eqb cU x) eqn:Eu; [|reflexivity]. apply byte_eqb_eq in Eu. subst x. congruence.
  - rewrite degap_cons_res by exact E. unfold has. cbn [existsb]. fold (has cU (degap g s)) (has cU s). now rewrite IH.
Qed.
Lemma rc_degap g s : forallb gap_char_ok g = true -> rc (degap g s) = degap g (rc s).
Proof.
  intros Hg. rewrite !rc_as_map. rewrite hasU_degap by (now apply gapok_notU). now rewrite degap_rev, degap_map_cmap.
Qed.
Lemma rank_rc g s e : forallb gap_char_ok g = true -> (e <= length s)%nat ->
  (rank g (rc s) e + rank g s (length s - e) = length (degap g s))%nat.
Proof.
  intros Hg He. unfold rank. rewrite rc_as_map, firstn_rev, map_length, skipn_map, degap_rev, rev_length.
  rewrite degap_map_cmap by exact Hg. rewrite map_length.
  rewrite Nat.add_comm, <- app_length, <- degap_app, firstn_skipn. reflexivity.
Qed.

(* a greedy run of gap characters in front of something that cannot start with a gap character *)
Lemma star_aux_skip g k s : (forall x t, has x g = true -> k (x :: t) = None) ->
  star_aux g k s = option_map (Nat.add (cntg g s)) (k (skipg g s)).
Proof.
  intros Hk. induction s as [|x t IH].
  - cbn. destruct (k []); reflexivity.
  - cbn [star_aux cntg skipg]. destruct (has x g) eqn:E.
    + rewrite IH. destruct (k (skipg g t)) as [n|]; cbn; [reflexivity|]. now apply Hk.
    + destruct (k (x :: t)); reflexivity.
Qed.

Section Words.
Variable g : str.
Notation gw := (compile_word (Some g)).
Notation pw := (compile_word None).

Lemma item_of_plain c : byte_eqb c cdot = false -> item_of c = ILit c.
Proof. unfold item_of. now intros ->. Qed.

Lemma gw_head c r : byte_eqb c cdot = false -> exists rest, gw (c :: r) = ILit c :: rest.
Proof. intros H. destruct r; cbn [compile_word]; rewrite item_of_plain by exact H; eauto. Qed.
Lemma pw_head c r : byte_eqb c cdot = false -> exists rest, pw (c :: r) = ILit c :: rest.
Proof. intros H. destruct r; cbn [compile_word]; rewrite item_of_plain by exact H; eauto. Qed.

Lemma gw_gap_head w x t : w <> [] -> plain_word g w = true -> has x g = true -> m_items (gw w) (x :: t) = None.
Proof.
  destruct w as [|c r]; [congruence|]. intros _ Hp Hx. apply plain_cons in Hp. destruct Hp as (Hc & Hd & _).
  destruct (gw_head c r Hd) as (rest & ->). cbn [m_items].
  destruct (byte_eqb x c) eqn:E; [|reflexivity]. apply byte_eqb_eq in E. subst x. congruence.
Qed.
Lemma gw_nil w : w <> [] -> plain_word g w = true -> m_items (gw w) [] = None.
Proof.
  destruct w as [|c r]; [congruence|]. intros _ Hp. apply plain_cons in Hp. destruct Hp as (_ & Hd & _).
  destruct (gw_head c r Hd) as (rest & ->). reflexivity.
Qed.
Lemma pw_nil w : w <> [] -> plain_word g w = true -> m_items (pw w) [] = None.
Proof.
  destruct w as [|c r]; [congruence|]. intros _ Hp. apply plain_cons in Hp. destruct Hp as (_ & Hd & _).
  destruct (pw_head c r Hd) as (rest & ->). reflexivity.
Qed.

(* one word: the gap-tolerant word on the gapped text against the plain word on the degapped text *)
Lemma word_corr w : w <> [] -> plain_word g w = true -> forall s,
  match m_items (gw w) s with
  | Some n => m_items (pw w) (degap g s) = Some (rank g s n) /\ (0 < rank g s n)%nat /\ (0 < n)%nat
  | None => forall x t, s = x :: t -> has x g = false -> m_items (pw w) (degap g s) = None
  end.
Proof.
  induction w as [|c r IH]; [congruence|]. intros _ Hp s.
  pose proof (plain_cons _ _ _ Hp) as (Hc & Hd & Hr).
  destruct r as [|c' r'].
  - (* one letter *)
    cbn [compile_word]. rewrite item_of_plain by exact Hd. destruct s as [|x t]; cbn [m_items]; [intros x t H; discriminate|].
    destruct (byte_eqb x c) eqn:E.
    + apply byte_eqb_eq in E. subst x. cbn [option_map]. rewrite degap_cons_res by exact Hc. cbn [m_items].
      rewrite byte_eqb_refl. cbn [option_map]. rewrite rank_cons_res by exact Hc. rewrite rank_0. repeat split; lia.
    + intros x' t' H Hx. inversion H; subst x' t'. rewrite degap_cons_res by exact Hx. cbn [m_items]. now rewrite E.
  - (* at least two letters *)
    assert (Hne : c' :: r' <> []) by discriminate.
    specialize (IH Hne Hr).
    change (gw (c :: c' :: r')) with (item_of c :: IStar g :: gw (c' :: r')).
    change (pw (c :: c' :: r')) with (item_of c :: pw (c' :: r')).
    rewrite item_of_plain by exact Hd. destruct s as [|x t]; cbn [m_items]; [intros x t H; discriminate|].
    destruct (byte_eqb x c) eqn:E.
    + apply byte_eqb_eq in E. subst x.
      rewrite star_aux_skip by (intros y u Hy; now apply gw_gap_head).
      specialize (IH (skipg g t)).
      rewrite degap_cons_res by exact Hc. cbn [m_items]. rewrite byte_eqb_refl. rewrite <- (degap_skipg g t).
      destruct (m_items (gw (c' :: r')) (skipg g t)) as [n|] eqn:En; cbn [option_map].
      * destruct IH as (H1 & H2 & H3). rewrite H1. cbn [option_map].
        rewrite rank_cons_res by exact Hc. rewrite rank_skipg. repeat split; lia.
      * intros x' t' _ _.
        destruct (skipg g t) as [|y u] eqn:Es.
        -- cbn [degap filter]. rewrite pw_nil by assumption. reflexivity.
        -- rewrite (IH y u eq_refl (skipg_head g t y u Es)). reflexivity.
    + intros x' t' H Hx. inversion H; subst x' t'. rewrite degap_cons_res by exact Hx. cbn [m_items]. now rewrite E.
Qed.

Variable ws : list str.
Hypothesis Hws : forallb (fun w => nonempty w && plain_word g w) ws = true.
Notation A := (map gw ws).
Notation B := (map pw ws).

Lemma alts_corr_gen l : forallb (fun w => nonempty w && plain_word g w) l = true -> forall s,
  match m_alts (map gw l) s with
  | Some n => m_alts (map pw l) (degap g s) = Some (rank g s n) /\ (0 < rank g s n)%nat /\ (0 < n)%nat
  | None => forall x t, s = x :: t -> has x g = false -> m_alts (map pw l) (degap g s) = None
  end.
Proof.
  induction l as [|w l IH]; intros Hl s; [cbn; auto|].
  cbn [forallb] in Hl. apply andb_prop in Hl. destruct Hl as [Hw Hl]. apply andb_prop in Hw. destruct Hw as [Hn Hp].
  assert (Hne : w <> []) by (destruct w; [discriminate|discriminate]).
  cbn [map m_alts]. pose proof (word_corr w Hne Hp s) as Hw. specialize (IH Hl s).
  destruct (m_items (gw w) s) as [n|] eqn:E.
  - destruct Hw as (H1 & H2 & H3). rewrite H1. auto.
  - destruct (m_alts (map gw l) s) as [n|] eqn:E2.
    + (* s begins with a residue, otherwise nothing matches *)
      destruct s as [|x t].
      * exfalso. clear - E2 Hl. induction l as [|w' l' IHl]; [discriminate|]. cbn [forallb] in Hl. apply andb_prop in Hl. destruct Hl as [Hw' Hl'].
        apply andb_prop in Hw'. destruct Hw' as [Hn' Hp']. cbn [map m_alts] in E2. rewrite gw_nil in E2; [now apply IHl|destruct w'; discriminate|exact Hp'].
      * destruct (has x g) eqn:Ex.
        -- exfalso. clear - E2 Hl Ex. induction l as [|w' l' IHl]; [discriminate|]. cbn [forallb] in Hl. apply andb_prop in Hl. destruct Hl as [Hw' Hl'].
           apply andb_prop in Hw'. destruct Hw' as [Hn' Hp']. cbn [map m_alts] in E2. rewrite gw_gap_head in E2; [now apply IHl|destruct w'; discriminate|exact Hp'|exact Ex].
        -- rewrite (Hw x t eq_refl Ex). exact IH.
    + intros x t Hs Hx. rewrite (Hw x t Hs Hx). exact (IH x t Hs Hx).
Qed.

Lemma alts_gap_none x t : has x g = true -> m_alts A (x :: t) = None.
Proof.
  intros Hx. revert Hws. induction ws as [|w l IH]; intros Hl; [reflexivity|].
  cbn [forallb] in Hl. apply andb_prop in Hl. destruct Hl as [Hw Hl]. apply andb_prop in Hw. destruct Hw as [Hn Hp].
  cbn [map m_alts]. rewrite gw_gap_head; [now apply IH|destruct w; discriminate|exact Hp|exact Hx].
Qed.

(* finditer: the two runs stay in step; positions of the gapped run are translated by the residue numbering *)
Lemma finditer_corr s : forall pos skip pos',
  map (fun be => ((pos' + rank g s (fst be - pos))%nat, (pos' + rank g s (snd be - pos))%nat)) (finditer A s pos skip)
  = finditer B (degap g s) pos' (rank g s skip).
Proof.
  induction s as [|x t IH]; intros pos skip pos'; [reflexivity|].
  assert (Hmap : forall k p' (f : nat -> nat), (forall j, f (S j) = (p' + rank g t j)%nat) ->
            map (fun be => (f (fst be - pos), f (snd be - pos))) (finditer A t (S pos) k)
            = map (fun be => ((p' + rank g t (fst be - S pos))%nat, (p' + rank g t (snd be - S pos))%nat)) (finditer A t (S pos) k)).
  { intros k p' f Hf. apply map_ext_in. intros [b e] Hi. apply finditer_sound in Hi. destruct Hi as (H1 & H2 & _). cbn [fst snd].
    replace (b - pos)%nat with (S (b - S pos)) by lia. replace (e - pos)%nat with (S (e - S pos)) by lia. now rewrite !Hf. }
  destruct (has x g) eqn:Ex.
  - (* a gap column: invisible on the degapped side *)
    rewrite degap_cons_gap by exact Ex. cbn [finditer].
    destruct skip as [|k].
    + rewrite alts_gap_none by exact Ex. rewrite rank_0.
      rewrite (Hmap 0%nat pos' (fun j => (pos' + rank g (x :: t) j)%nat)) by (intros j; now rewrite rank_cons_gap).
      rewrite IH. now rewrite rank_0.
    + rewrite rank_cons_gap by exact Ex.
      rewrite (Hmap k pos' (fun j => (pos' + rank g (x :: t) j)%nat)) by (intros j; now rewrite rank_cons_gap).
      apply IH.
  - (* a residue column *)
    rewrite degap_cons_res by exact Ex. cbn [finditer].
    destruct skip as [|k].
    + rewrite rank_0. pose proof (alts_corr_gen ws Hws (x :: t)) as Hc.
      destruct (m_alts A (x :: t)) as [n|] eqn:En.
      * destruct Hc as (H1 & H2 & H3). rewrite degap_cons_res in H1 by exact Ex. rewrite H1.
        destruct n as [|n0]; [lia|]. rewrite rank_cons_res in * by exact Ex.
        cbn [map fst snd]. f_equal.
        -- rewrite Nat.sub_diag, rank_0. replace (pos + S n0 - pos)%nat with (S n0) by lia.
           rewrite rank_cons_res by exact Ex. f_equal; lia.
        -- rewrite (Hmap n0 (S pos') (fun j => (pos' + rank g (x :: t) j)%nat)) by (intros j; rewrite rank_cons_res by exact Ex; lia).
           apply IH.
      * specialize (Hc x t eq_refl Ex). rewrite degap_cons_res in Hc by exact Ex. rewrite Hc.
        rewrite (Hmap 0%nat (S pos') (fun j => (pos' + rank g (x :: t) j)%nat)) by (intros j; rewrite rank_cons_res by exact Ex; lia).
        rewrite IH. now rewrite rank_0.
    + rewrite rank_cons_res by exact Ex.
      rewrite (Hmap k (S pos') (fun j => (pos' + rank g (x :: t) j)%nat)) by (intros j; rewrite rank_cons_res by exact Ex; lia).
      apply IH.
Qed.

(* gap-tolerant pattern on the gapped text = plain pattern on the degapped text, spans mapped through the residue numbering *)
Theorem finditer_gap_transparent s :
  map (respan g s) (finditer A s 0 0) = finditer B (degap g s) 0 0.
Proof.
  pose proof (finditer_corr s 0 0 0) as H. rewrite rank_0 in H. rewrite <- H. apply map_ext. intros [b e]. unfold respan. cbn [fst snd].
  now rewrite !Nat.sub_0_r.
Qed.

(* the same for the forward matches of match()/matchall() with start = 0: spans translated, groups degapped, frames unchanged *)
Definition degap_bm (s : str) (m : bm) : bm :=
  mk_bm (Z.of_nat (rank g s (Z.to_nat (bm_b m)))) (Z.of_nat (rank g s (Z.to_nat (bm_e m)))) (degap g (bm_group m)) (bm_rf m).

Lemma filter_all {X} (p : X -> bool) l : (forall x, In x l -> p x = true) -> filter p l = l.
Proof.
  induction l as [|x l IH]; intros H; [reflexivity|]. cbn. rewrite (H x (or_introl eq_refl)). f_equal. apply IH. intros y Hy. apply H. now right.
Qed.
Lemma filter_map_map {X Y Z'} (f : Y -> option Z') (h : X -> Y) l : filter_map f (map h l) = filter_map (fun x => f (h x)) l.
Proof. induction l as [|x l IH]; [reflexivity|]. cbn. destruct (f (h x)); now rewrite IH. Qed.
Lemma map_filter_map_in {X Y Z'} (f : X -> option Y) (f' : X -> option Z') (h : Y -> Z') l :
  (forall x, In x l -> f' x = option_map h (f x)) -> map h (filter_map f l) = filter_map f' l.
Proof.
  induction l as [|x l IH]; intros H; [reflexivity|]. cbn. rewrite (H x (or_introl eq_refl)).
  destruct (f x) as [y0|]; cbn; [f_equal|]; apply IH; intros x' Hx'; apply H; now right.
Qed.

Theorem fwd_gap_transparent s rfn :
  map (degap_bm s) (fwd_list A s 0 (Some g) rfn) = fwd_list B (degap g s) 0 None rfn.
Proof.
  unfold fwd_list. destruct (runs_fwd rfn); [|reflexivity].
  unfold raw_pass. rewrite !filter_all by (intros [b e] _; cbn; apply Z.leb_le; lia).
  rewrite <- finditer_gap_transparent. rewrite filter_map_map.
  apply map_filter_map_in. intros [b e] Hi. apply finditer_sound in Hi. destruct Hi as (_ & Hbe & Hel & _). cbn in Hel.
  unfold fwd_one, respan. cbn [fst snd]. destruct rfn as [l|].
  - assert (Hfr : frame_of (fwd_gaps None (Some l) (degap g s) 0) 0 (Z.of_nat (rank g s b))
                  = frame_of (fwd_gaps (Some g) (Some l) s 0) 0 (Z.of_nat b)).
    { change (fwd_gaps (Some g) (Some l) s 0) with (option_map (fun g0 => gap_positions g0 s 0 0) (Some g)).
      rewrite (frame_formula (Some g) s 0 b) by lia. cbn [Z.to_nat]. rewrite <- rank_residues.
      unfold frame_of, fwd_gaps. f_equal. lia. }
    rewrite Hfr. destruct (zmem _ l); [|reflexivity]. cbn [option_map]. unfold degap_bm. cbn [bm_b bm_e bm_group bm_rf].
    rewrite !Nat2Z.id. rewrite degap_slice by lia. reflexivity.
  - cbn [option_map]. unfold degap_bm. cbn [bm_b bm_e bm_group bm_rf]. rewrite !Nat2Z.id. rewrite degap_slice by lia. reflexivity.
Qed.

(* ... and for the backward matches: the same translation of forward-strand coordinates *)
Theorem bwd_gap_transparent s rfn : forallb gap_char_ok g = true ->
  map (degap_bm s) (bwd_list A s 0 (Some g) rfn) = bwd_list B (degap g s) 0 None rfn.
Proof.
  intros Hg. unfold bwd_list. destruct rfn as [l|]; [|reflexivity]. destruct (has_bwd l); [|reflexivity]. cbv zeta.
  rewrite rc_degap by exact Hg.
  unfold raw_pass. rewrite !filter_all by (intros [b e] _; cbn; apply Z.leb_le; lia).
  rewrite <- finditer_gap_transparent. rewrite filter_map_map.
  apply map_filter_map_in. intros [b e] Hi. apply finditer_sound in Hi. destruct Hi as (_ & Hbe & Hel & _). cbn in Hel.
  rewrite rc_length in Hel.
  unfold bwd_one, respan. cbn [fst snd].
  assert (Hfr : frame_of (bwd_gaps None (degap g (rc s)) 0) 0 (Z.of_nat (rank g (rc s) b))
                = frame_of (bwd_gaps (Some g) (rc s) 0) 0 (Z.of_nat b)).
  { change (bwd_gaps (Some g) (rc s) 0) with (option_map (fun g0 => gap_positions g0 (rc s) 0 0) (Some g)).
    rewrite (frame_formula (Some g) (rc s) 0 b) by (rewrite ?rc_length; lia). cbn [Z.to_nat]. rewrite <- rank_residues.
    unfold frame_of, bwd_gaps. cbn [option_map]. f_equal. lia. }
  rewrite Hfr. destruct (zmem _ l); [|reflexivity]. cbn [option_map]. unfold degap_bm. cbn [bm_b bm_e bm_group bm_rf].
  rewrite degap_slice by lia. rewrite rc_length.
  pose proof (rank_rc g s e Hg ltac:(lia)) as He. pose proof (rank_rc g s b Hg ltac:(lia)) as Hb.
  assert (HL : length (degap g (rc s)) = length (degap g s)) by (rewrite <- rc_degap by exact Hg; apply rc_length).
  rewrite HL.
  replace (Z.of_nat (length s) - Z.of_nat e)%Z with (Z.of_nat (length s - e)) by lia.
  replace (Z.of_nat (length s) - Z.of_nat b)%Z with (Z.of_nat (length s - b)) by lia.
  rewrite !Nat2Z.id.
  replace (Z.of_nat (length (degap g s)) - Z.of_nat (rank g (rc s) e))%Z with (Z.of_nat (rank g s (length s - e))) by lia.
  replace (Z.of_nat (length (degap g s)) - Z.of_nat (rank g (rc s) b))%Z with (Z.of_nat (rank g s (length s - b))) by lia.
  reflexivity.
Qed.

(* ------------------------------------------------------------------ start offsets *)
Lemma rank_mono s a b : (a <= b)%nat -> (rank g s a <= rank g s b)%nat.
Proof. intros H. replace b with (a + (b - a))%nat by lia. rewrite rank_add. lia. Qed.
Lemma rank_succ s b x t : skipn b s = x :: t -> has x g = false -> rank g s (S b) = S (rank g s b).
Proof.
  intros Hs Hx. replace (S b) with (b + 1)%nat by lia. rewrite rank_add, Hs. rewrite rank_cons_res by exact Hx. rewrite rank_0. lia.
Qed.
Lemma residues_slice s a b : (a <= b)%nat ->
  residues (Some g) (slice a b s) = (Z.of_nat (rank g s b) - Z.of_nat (rank g s a))%Z.
Proof.
  intros H. replace b with (a + (b - a))%nat at 2 by lia. rewrite rank_add.
  unfold residues, slice, rank, degap, is_gap. lia.
Qed.
Lemma alts_nil_none : m_alts A [] = None.
Proof.
  revert Hws. induction ws as [|w l IH]; intros Hl; [reflexivity|].
  cbn [forallb] in Hl. apply andb_prop in Hl. destruct Hl as [Hw Hl]. apply andb_prop in Hw. destruct Hw as [Hn Hp].
  cbn [map m_alts]. rewrite gw_nil; [now apply IH|destruct w; discriminate|exact Hp].
Qed.
(* a reported match begins on a residue *)
Lemma match_starts_on_residue s b e : In (b, e) (finditer A s 0 0) -> exists x t, skipn b s = x :: t /\ has x g = false.
Proof.
  intros Hi. apply finditer_sound in Hi. destruct Hi as (_ & _ & _ & Hm). rewrite Nat.sub_0_r in Hm.
  destruct (skipn b s) as [|x t] eqn:E; [rewrite alts_nil_none in Hm; discriminate|].
  exists x, t. split; [reflexivity|]. destruct (has x g) eqn:Ex; [|reflexivity]. rewrite alts_gap_none in Hm by exact Ex. discriminate.
Qed.
Lemma start_filter_corr s st b e : In (b, e) (finditer A s 0 0) ->
  (Z.of_nat (rank g s st) <=? Z.of_nat (rank g s b))%Z = (Z.of_nat st <=? Z.of_nat b)%Z.
Proof.
  intros Hi. destruct (match_starts_on_residue s b e Hi) as (x & t & Hs & Hx).
  pose proof (rank_succ s b x t Hs Hx) as Hsucc.
  destruct (Nat.le_gt_cases st b) as [Hle|Hgt].
  - pose proof (rank_mono s st b Hle). rewrite (proj2 (Z.leb_le _ _)) by lia. symmetry. apply Z.leb_le. lia.
  - pose proof (rank_mono s (S b) st ltac:(lia)). rewrite (proj2 (Z.leb_gt _ _)) by lia. symmetry. apply Z.leb_gt. lia.
Qed.
Lemma filter_map_swap {X Y} (p : Y -> bool) (h : X -> Y) l : filter p (map h l) = map h (filter (fun x => p (h x)) l).
Proof. induction l as [|x l IH]; [reflexivity|]. cbn. destruct (p (h x)); cbn; now rewrite IH. Qed.

Lemma raw_pass_corr s st :
  raw_pass B (degap g s) (Z.of_nat (rank g s st)) = map (respan g s) (raw_pass A s (Z.of_nat st)).
Proof.
  unfold raw_pass. rewrite <- finditer_gap_transparent, filter_map_swap. f_equal.
  apply filter_ext_in. intros [b e] Hi. unfold respan. cbn [fst]. now apply start_filter_corr with (e := e).
Qed.

(* forward matches for any start offset: the offset is translated like every other column *)
Theorem fwd_gap_transparent_start s rfn st :
  map (degap_bm s) (fwd_list A s (Z.of_nat st) (Some g) rfn)
  = fwd_list B (degap g s) (Z.of_nat (rank g s st)) None rfn.
Proof.
  unfold fwd_list. destruct (runs_fwd rfn); [|reflexivity].
  rewrite raw_pass_corr, filter_map_map.
  apply map_filter_map_in. intros [b e] Hi. unfold raw_pass in Hi. apply filter_In in Hi. destruct Hi as [Hi Hst].
  cbn [fst] in Hst. apply Z.leb_le in Hst.
  apply finditer_sound in Hi. destruct Hi as (_ & Hbe & Hel & _). cbn in Hel.
  unfold fwd_one, respan. cbn [fst snd]. destruct rfn as [l|].
  - assert (Hfr : frame_of (fwd_gaps None (Some l) (degap g s) (Z.of_nat (rank g s st))) (Z.of_nat (rank g s st)) (Z.of_nat (rank g s b))
                  = frame_of (fwd_gaps (Some g) (Some l) s (Z.of_nat st)) (Z.of_nat st) (Z.of_nat b)).
    { change (fwd_gaps (Some g) (Some l) s (Z.of_nat st)) with (option_map (fun g0 => gap_positions g0 s 0 (Z.of_nat st)) (Some g)).
      rewrite (frame_formula (Some g) s (Z.of_nat st) b) by lia. rewrite Nat2Z.id. rewrite residues_slice by lia.
      unfold frame_of, fwd_gaps. f_equal. lia. }
    rewrite Hfr. destruct (zmem _ l); [|reflexivity]. cbn [option_map]. unfold degap_bm. cbn [bm_b bm_e bm_group bm_rf].
    rewrite !Nat2Z.id. rewrite degap_slice by lia. reflexivity.
  - cbn [option_map]. unfold degap_bm. cbn [bm_b bm_e bm_group bm_rf]. rewrite !Nat2Z.id. rewrite degap_slice by lia. reflexivity.
Qed.

(* backward matches: the offset counts columns of the reverse complement, so it is translated by the numbering of that strand *)
Theorem bwd_gap_transparent_start s rfn st : forallb gap_char_ok g = true ->
  map (degap_bm s) (bwd_list A s (Z.of_nat st) (Some g) rfn)
  = bwd_list B (degap g s) (Z.of_nat (rank g (rc s) st)) None rfn.
Proof.
  intros Hg. unfold bwd_list. destruct rfn as [l|]; [|reflexivity]. destruct (has_bwd l); [|reflexivity]. cbv zeta.
  rewrite rc_degap by exact Hg.
  rewrite raw_pass_corr, filter_map_map.
  apply map_filter_map_in. intros [b e] Hi. unfold raw_pass in Hi. apply filter_In in Hi. destruct Hi as [Hi Hst].
  cbn [fst] in Hst. apply Z.leb_le in Hst.
  apply finditer_sound in Hi. destruct Hi as (_ & Hbe & Hel & _). cbn in Hel.
  rewrite rc_length in Hel.
  unfold bwd_one, respan. cbn [fst snd].
  assert (Hfr : frame_of (bwd_gaps None (degap g (rc s)) (Z.of_nat (rank g (rc s) st))) (Z.of_nat (rank g (rc s) st)) (Z.of_nat (rank g (rc s) b))
                = frame_of (bwd_gaps (Some g) (rc s) (Z.of_nat st)) (Z.of_nat st) (Z.of_nat b)).
  { change (bwd_gaps (Some g) (rc s) (Z.of_nat st)) with (option_map (fun g0 => gap_positions g0 (rc s) 0 (Z.of_nat st)) (Some g)).
    rewrite (frame_formula (Some g) (rc s) (Z.of_nat st) b) by (rewrite ?rc_length; lia). rewrite Nat2Z.id. rewrite residues_slice by lia.
    unfold frame_of, bwd_gaps. cbn [option_map]. f_equal. lia. }
  rewrite Hfr. destruct (zmem _ l); [|reflexivity]. cbn [option_map]. unfold degap_bm. cbn [bm_b bm_e bm_group bm_rf].
  rewrite degap_slice by lia. rewrite rc_length.
  pose proof (rank_rc g s e Hg ltac:(lia)) as He. pose proof (rank_rc g s b Hg ltac:(lia)) as Hb.
  assert (HL : length (degap g (rc s)) = length (degap g s)) by (rewrite <- rc_degap by exact Hg; apply rc_length).
  rewrite HL.
  replace (Z.of_nat (length s) - Z.of_nat e)%Z with (Z.of_nat (length s - e)) by lia.
  replace (Z.of_nat (length s) - Z.of_nat b)%Z with (Z.of_nat (length s - b)) by lia.
  rewrite !Nat2Z.id.
  replace (Z.of_nat (length (degap g s)) - Z.of_nat (rank g (rc s) e))%Z with (Z.of_nat (rank g s (length s - e))) by lia.
  replace (Z.of_nat (length (degap g s)) - Z.of_nat (rank g (rc s) b))%Z with (Z.of_nat (rank g s (length s - b))) by lia.
  reflexivity.
Qed.

(* matchall as a whole, start = 0 *)
Theorem matchall_gap_transparent s sub rf out : forallb gap_char_ok g = true ->
  ws = words sub -> matchall s sub rf 0 (Some g) = Some out ->
  matchall (degap g s) sub rf 0 None = Some (map (degap_bm s) out).
Proof.
  intros Hg Hw. unfold matchall, compile. fold (words sub). rewrite <- Hw.
  destruct (norm_rf rf) as [rfn|]; [|discriminate]. intros H. injection H as <-.
  rewrite map_app, fwd_gap_transparent, bwd_gap_transparent by exact Hg. reflexivity.
Qed.
End Words.
