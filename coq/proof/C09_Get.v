(* C09 proofs, part 8: composition.  FastaIndex.get on a record of a file = extraction + FASTA reader; then the index:
   scanner entries of a file set, lookup by id, stored values, and the answers of get / get_fasta / get_fastaheader. *)
From Coq Require Import List Arith Lia ZArith NArith Bool.
From Coq.Strings Require Import Byte.
Import ListNotations.
From SV Require Import Text C09_Model C09_Lemmas C09_Extract C09_Record C09_Unterm C09_Box C09_Scan C09_Parse.

(* ------------------------------------------------------------------ the bytes of a rendered body *)
Lemma res_char_resb c : res_char c = true -> resb c = true.
Proof. destruct c; vm_compute; intro H; first [reflexivity | discriminate H]. Qed.

Lemma nl_datab crlf : forallb datab (nl_of crlf) = true.
Proof. destruct crlf; reflexivity. Qed.

Lemma wrap_forall (p : byte -> bool) nl w : forallb p nl = true ->
  forall (s : str) k, forallb p s = true -> forallb p (wrap_from nl w k s) = true.
Proof.
  intros Hn. induction s as [|c s IH]; intros k H; [reflexivity|].
  cbn [wrap_from forallb] in *. apply andb_prop in H. destruct H as [Hc Hs].
  rewrite Hc, forallb_app, IH by exact Hs. unfold brk. destruct (_ =? _); [rewrite Hn|]; reflexivity.
Qed.

Lemma resb_datab (s : str) : forallb resb s = true -> forallb datab s = true.
Proof.
  intros H. rewrite forallb_forall in *. intros c Hc. unfold datab. rewrite (H c Hc). reflexivity.
Qed.

Lemma body_datab crlf r : forallb resb (rseq r) = true -> forallb datab (body (nl_of crlf) r) = true.
Proof.
  intros H. unfold body. rewrite forallb_app, (wrap_forall datab _ _ (nl_datab crlf)) by (apply resb_datab; exact H).
  destruct (_ =? _); [reflexivity|apply nl_datab].
Qed.

Lemma cr_ok_wrap crlf w : forall (s : str) k tl, forallb resb s = true -> cr_ok tl = true ->
  cr_ok (wrap_from (nl_of crlf) w k s ++ tl) = true.
Proof.
  induction s as [|c s IH]; intros k tl H Ht; [exact Ht|].
  cbn [forallb] in H. apply andb_prop in H. destruct H as [Hc Hs].
  destruct (resb_facts c Hc) as [_ [_ [_ [_ [_ Hcr]]]]].
  cbn [wrap_from app cr_ok]. rewrite Hcr. cbn [andb].
  rewrite <- app_assoc. unfold brk. destruct (_ =? _); [|apply IH; assumption].
  destruct crlf; cbn [nl_of app cr_ok]; cbn; apply IH; assumption.
Qed.

Lemma body_cr_ok crlf r : forallb resb (rseq r) = true -> cr_ok (body (nl_of crlf) r) = true.
Proof.
  intros H. unfold body. apply cr_ok_wrap; [exact H|]. destruct (_ =? _); [reflexivity|destruct crlf; reflexivity].
Qed.

Lemma wf_rec_resb mode nllen r : wf_rec mode nllen r = true -> forallb resb (rseq r) = true.
Proof.
  unfold wf_rec. intros H. apply andb_prop in H. destruct H as [H _]. apply andb_prop in H. destruct H as [H _].
  apply andb_prop in H. destruct H as [_ Hs]. rewrite forallb_forall in *. intros c Hc. apply res_char_resb, Hs, Hc.
Qed.

(* ------------------------------------------------------------------ get on one record of a file *)
Definition hdr (crlf : bool) (r : arec) : str := strip_ws (rid r ++ rdesc r ++ nl_of crlf).
Definition sl (s : str) (oi oj : option nat) : str :=
  let i := match oi with Some i => i | None => 0 end in
  match oj with Some j => firstn (j - i) (skipn i s) | None => skipn i s end.

Theorem get_record mode crlf (r : arec) (pre post : str) :
  wf_rec mode (length (nl_of crlf)) r = true ->
  (post = [] \/ exists p, post = GT :: p) ->
  let nl := nl_of crlf in
  let f := pre ++ render_rec nl r ++ post in
  let ll := linelen_of crlf r in
  (exists txt, extract f ll (length pre) QFull = Ok txt
               /\ parse_get txt = Ok (Some (rid r), hdr crlf r, upper (rseq r)))
  /\ forall oi oj : option nat,
       (match oi, oj with Some i, Some j => i <= j | _, _ => True end) ->
       exists txt, extract f ll (length pre) (QRange (option_map Z.of_nat oi) (option_map Z.of_nat oj)) = Ok txt
                   /\ parse_get txt = Ok (Some (rid r), hdr crlf r, upper (sl (rseq r) oi oj)).
Proof.
  intros Hwf Hpost. cbv zeta.
  destruct (wf_rec_facts _ _ _ Hwf) as [Hw [H1 [H2 [H3 H4]]]].
  pose proof (wf_rec_resb _ _ _ Hwf) as HR.
  pose proof (body_datab crlf r HR) as BD. pose proof (body_cr_ok crlf r HR) as BC.
  split.
  - exists (render_rec (nl_of crlf) r). split.
    + apply (extract_full_rendered crlf r H2 H4 pre post Hpost).
    + unfold render_rec. rewrite (parse_extracted mode crlf r _ Hwf BD BC), (body_filter crlf r H3). reflexivity.
  - intros oi oj Hij.
    pose proof (the_file_eq crlf r pre post) as FE. unfold the_file in FE. rewrite FE.
    destruct (extract_range_slice pre (rid r ++ rdesc r) (nl_of crlf) (body (nl_of crlf) r) post (nl_of_cases crlf) H1
                (body_noGT crlf r H4) Hpost (rseq r) [] (linelen_of crlf r) eq_refl (body_filter crlf r H3)
                (linelen_ok crlf r Hw) (body_cnt crlf r Hw H3) oi oj Hij) as [data [E [F [a [n ES]]]]].
    exists (hl (rid r ++ rdesc r) (nl_of crlf) ++ data). split; [exact E|].
    rewrite <- (header_eq crlf r).
    rewrite (parse_extracted mode crlf r data Hwf).
    + rewrite F. unfold slice, sl. destruct oi; reflexivity.
    + rewrite ES. apply forallb_firstn, forallb_skipn. exact BD.
    + rewrite ES. apply cr_ok_firstn, cr_ok_skipn. exact BC.
Qed.

(* ------------------------------------------------------------------ the index over a set of files *)
Definition afile := (bool * list arec)%type.                      (* newline style, records; rendered with final newline *)
Definition afile_bytes (f : afile) : str := render_file (fst f) true (snd f).
Fixpoint entries_from (k : nat) (fs : list afile) : list entry :=
  match fs with
  | [] => []
  | f :: r => expected_from (nl_of (fst f)) k 0 (snd f) ++ entries_from (S k) r
  end.
Definition wf_afile (mode : N) (f : afile) : Prop :=
  snd f <> [] /\ Forall (fun r => wf_rec mode (length (nl_of (fst f))) r = true) (snd f).
Definition all_ids (fs : list afile) : list str := concat (map (fun f => map rid (snd f)) fs).

Lemma scan_files_abs mode (fs : list afile) : Forall (wf_afile mode) fs ->
  forall k, scan_files (map afile_bytes fs) k = Ok (entries_from k fs).
Proof.
  induction 1 as [|f fs [Hne Hwf] _ IH]; intros k; [reflexivity|].
  cbn [map scan_files entries_from]. unfold afile_bytes at 1. rewrite (scan_index mode (fst f) (snd f) k Hne Hwf), IH. reflexivity.
Qed.

Lemma expected_ids nl k p rs : map e_id (expected_from nl k p rs) = map rid rs.
Proof. revert p. induction rs as [|r rs IH]; intros p; [reflexivity|]. cbn [expected_from map]. rewrite IH. reflexivity. Qed.
Lemma entries_ids k fs : map e_id (entries_from k fs) = all_ids fs.
Proof.
  revert k. induction fs as [|f fs IH]; intros k; [reflexivity|].
  cbn [entries_from]. unfold all_ids. cbn [map concat]. rewrite map_app, expected_ids. fold (all_ids fs). rewrite IH. reflexivity.
Qed.
Lemma entries_in : forall fs k0 k f, nth_error fs k = Some f ->
  forall e, In e (expected_from (nl_of (fst f)) (k0 + k) 0 (snd f)) -> In e (entries_from k0 fs).
Proof.
  induction fs as [|g fs IH]; intros k0 k f Hn e He; [destruct k; discriminate|].
  cbn [entries_from]. apply in_or_app. destruct k as [|k].
  - inversion Hn; subst g. left. rewrite Nat.add_0_r in He. exact He.
  - right. apply (IH (S k0) k f Hn). replace (S k0 + k) with (k0 + S k) by lia. exact He.
Qed.

Lemma lookup_notin id es acc : ~ In id (map e_id es) -> lookup id es acc = acc.
Proof.
  revert acc. induction es as [|e es IH]; intros acc H; [reflexivity|].
  cbn [lookup]. cbn [map In] in H. destruct (str_eqb (e_id e) id) eqn:E.
  - apply str_eqb_eq in E. tauto.
  - apply IH. tauto.
Qed.
Lemma lookup_unique es : NoDup (map e_id es) -> forall e acc, In e es -> lookup (e_id e) es acc = Some e.
Proof.
  induction es as [|e0 es IH]; intros Hnd e acc Hin; [destruct Hin|].
  cbn [map] in Hnd. inversion Hnd as [|x l Hni Hnd']; subst x l. cbn [lookup].
  destruct Hin as [<- | Hin].
  - rewrite str_eqb_refl. apply lookup_notin. exact Hni.
  - apply IH; assumption.
Qed.

Lemma render_recs_app nl a b : render_recs nl (a ++ b) = render_recs nl a ++ render_recs nl b.
Proof. unfold render_recs. rewrite map_app, concat_app. reflexivity. Qed.

Lemma stored_ok mode e :
  mode = MODE_BINARY \/ (mode = MODE_DB /\ (N.of_nat (e_fn e) < 65536)%N /\ (N.of_nat (e_linelen e) < 65536)%N) ->
  stored mode e = Ok (e_fn e, e_linelen e, e_start e).
Proof.
  intros [-> | [-> [Hf Hl]]]; [reflexivity|]. unfold stored. cbn [N.eqb MODE_DB Pos.eqb].
  destruct (pack_unpack (N.of_nat (e_fn e)) (N.of_nat (e_linelen e)) (N.of_nat (e_start e)) Hf Hl) as [b [-> ->]].
  rewrite !Nat2N.id. reflexivity.
Qed.

Lemma wf_rec_db_ll crlf r : wf_rec MODE_DB (length (nl_of crlf)) r = true -> (N.of_nat (linelen_of crlf r) < 65536)%N.
Proof.
  unfold wf_rec, linelen_of. intros H. apply andb_prop in H. destruct H as [_ H]. cbn [N.eqb MODE_DB Pos.eqb] in H.
  apply andb_prop in H. destruct H as [_ H]. destruct (length (rseq r) <=? rw r); [reflexivity|].
  cbn [orb] in H. apply N.ltb_lt in H. exact H.
Qed.

Lemma existsb_notin id seen : ~ In id seen -> existsb (str_eqb id) seen = false.
Proof.
  induction seen as [|x seen IH]; intros H; [reflexivity|]. cbn [existsb]. cbn [In] in H.
  destruct (str_eqb id x) eqn:E; [apply str_eqb_eq in E; subst x; tauto|]. apply IH. tauto.
Qed.
Lemma distinct_len : forall es seen, NoDup (map e_id es) -> (forall e, In e es -> ~ In (e_id e) seen) ->
  distinct_ids es seen = length es.
Proof.
  induction es as [|e es IH]; intros seen Hnd Hs; [reflexivity|].
  cbn [map] in Hnd. inversion Hnd as [|x l Hni Hnd']; subst x l.
  cbn [distinct_ids length]. rewrite (existsb_notin _ _ (Hs e (or_introl eq_refl))). f_equal.
  apply IH; [exact Hnd'|]. intros e' Hin [Heq | Hin2].
  - apply Hni. rewrite Heq. apply in_map. exact Hin.
  - exact (Hs e' (or_intror Hin) Hin2).
Qed.

(* P1 index_get_spec: a set of well-formed files (registration order = list order; every file with final newline), ids
   distinct over the whole set.  The index is the scanner output; every record of every file is found and answered:
   len = number of records, get_fastaheader = the header line, get_fasta = the record text, get = (id, header, upper(s)),
   get (id, i, j) = (id, header, upper(s[i:j])). *)
Theorem index_get_spec mode (fs : list afile) :
  (mode = MODE_BINARY \/ (mode = MODE_DB /\ (N.of_nat (length fs) < 65536)%N)) ->
  Forall (wf_afile mode) fs -> NoDup (all_ids fs) ->
  let reg := map afile_bytes fs in
  let es := entries_from 0 fs in
  scan_files reg 0 = Ok es
  /\ distinct_ids es [] = length (all_ids fs)
  /\ forall k crlf rs1 r rs2, nth_error fs k = Some (crlf, rs1 ++ r :: rs2) ->
     let nl := nl_of crlf in
     (forall rng, answer mode reg es (Query 2 (rid r) rng) = VS (header_line nl r))
     /\ answer mode reg es (Query 1 (rid r) None) = VS (render_rec nl r)
     /\ answer mode reg es (Query 0 (rid r) None) = VL [VS (rid r); VS (hdr crlf r); VS (upper (rseq r))]
     /\ forall oi oj : option nat,
          (match oi, oj with Some i, Some j => i <= j | None, None => False | _, _ => True end) ->
          answer mode reg es (Query 0 (rid r) (Some (option_map Z.of_nat oi, option_map Z.of_nat oj)))
          = VL [VS (rid r); VS (hdr crlf r); VS (upper (sl (rseq r) oi oj))].
Proof.
  intros Hmode Hwf Hnd. cbv zeta.
  pose proof (entries_ids 0 fs) as EI.
  split; [apply (scan_files_abs mode fs Hwf)|]. split.
  { rewrite distinct_len; [rewrite <- EI, map_length; reflexivity|rewrite EI; exact Hnd|intros e _ []]. }
  intros k crlf rs1 r rs2 Hk.
  set (nl := nl_of crlf). set (pre := render_recs nl rs1). set (post := render_recs nl rs2).
  set (e := Entry (rid r) k (linelen_of crlf r) (length pre)).
  (* the file and the record in it *)
  assert (Hfile: nth k (map afile_bytes fs) [] = pre ++ render_rec nl r ++ post).
  { rewrite (nth_error_nth _ _ _ (map_nth_error afile_bytes _ _ Hk)). unfold afile_bytes, render_file. cbn [fst snd].
    fold nl. rewrite render_recs_app, render_recs_cons. reflexivity. }
  assert (Hpost: post = [] \/ exists p, post = GT :: p).
  { unfold post. destruct rs2 as [|r2 rs2]; [left; reflexivity|right]. apply render_recs_head. discriminate. }
  rewrite Forall_forall in Hwf. pose proof (Hwf _ (nth_error_In _ _ Hk)) as [_ Hrs]. cbn [fst snd] in Hrs.
  rewrite Forall_forall in Hrs. assert (Hr: wf_rec mode (length nl) r = true) by (apply Hrs, in_or_app; right; left; reflexivity).
  (* the entry *)
  assert (Hin: In e (entries_from 0 fs)).
  { apply (entries_in fs 0 k _ Hk). cbn [fst snd Nat.add]. fold nl. rewrite expected_app. apply in_or_app. right.
    cbn [expected_from]. left. unfold e, linelen_of, pre. rewrite Nat.add_0_l. reflexivity. }
  assert (Hlook: lookup (rid r) (entries_from 0 fs) None = Some e).
  { apply (lookup_unique _ ltac:(rewrite EI; exact Hnd) e None Hin). }
  assert (Hst: stored mode e = Ok (k, linelen_of crlf r, length pre)).
  { apply (stored_ok mode e). destruct Hmode as [-> | [-> Hlen]]; [left; reflexivity|right]. split; [reflexivity|].
    cbn [e_fn e_linelen e]. split.
    - assert (k < length fs) by (apply nth_error_Some; rewrite Hk; discriminate). lia.
    - apply wf_rec_db_ll. exact Hr. }
  assert (Hans: forall q, q_id q = rid r ->
            answer mode (map afile_bytes fs) (entries_from 0 fs) q
            = match extract (pre ++ render_rec nl r ++ post) (linelen_of crlf r) (length pre) (qkind_of q) with
              | Err kd => VE kd
              | Ok txt => if N.eqb (q_api q) 0
                          then match parse_get txt with Ok (id, h, d) => VL [VStrO id; VS h; VS d] | Err kd => VE kd end
                          else VS txt
              end).
  { intros q Hq. unfold answer. rewrite Hq, Hlook, Hst, Hfile. reflexivity. }
  destruct (get_record mode crlf r pre post Hr Hpost) as [[txtF [EF PF]] HR]. fold nl in EF, HR.
  destruct (wf_rec_facts _ _ _ Hr) as [Hw [H1 [H2 [H3 H4]]]].
  split; [|split; [|split]].
  - intros rng. rewrite Hans by reflexivity. cbn [qkind_of q_api N.eqb Pos.eqb].
    pose proof (extract_header_rendered crlf r H1 pre post (linelen_of crlf r)) as EH. unfold the_file in EH. fold nl in EH.
    rewrite EH. reflexivity.
  - rewrite Hans by reflexivity. cbn [qkind_of q_api q_rng N.eqb Pos.eqb].
    pose proof (extract_full_rendered crlf r H2 H4 pre post Hpost (linelen_of crlf r)) as EFu. unfold the_file in EFu. fold nl in EFu.
    rewrite EFu. reflexivity.
  - rewrite Hans by reflexivity. cbn [qkind_of q_api q_rng N.eqb]. rewrite EF, PF. reflexivity.
  - intros oi oj Hij. rewrite Hans by reflexivity. cbn [q_api N.eqb].
    assert (Hq: qkind_of (Query 0 (rid r) (Some (option_map Z.of_nat oi, option_map Z.of_nat oj)))
                = QRange (option_map Z.of_nat oi) (option_map Z.of_nat oj)).
    { unfold qkind_of. cbn [q_api q_rng N.eqb]. destruct oi, oj; try reflexivity. destruct Hij. }
    rewrite Hq.
    destruct (HR oi oj ltac:(destruct oi, oj; auto)) as [txt [E P]]. rewrite E, P. reflexivity.
Qed.

(* ------------------------------------------------------------------ both back ends give the same answers *)
Lemma lookup_in id : forall es acc e, lookup id es acc = Some e -> In e es \/ acc = Some e.
Proof.
  induction es as [|e0 es IH]; intros acc e H; [right; exact H|].
  cbn [lookup] in H. destruct (IH _ _ H) as [Hin | Hacc]; [left; right; exact Hin|].
  destruct (str_eqb (e_id e0) id); [inversion Hacc; left; left; reflexivity|right; exact Hacc].
Qed.

(* for every query whatsoever on an id that is in the index, provided file numbers and line lengths fit the dbm packing *)
Theorem modes_agree (files : list str) (es : list entry) (q : query) :
  (forall e, In e es -> (N.of_nat (e_fn e) < 65536)%N /\ (N.of_nat (e_linelen e) < 65536)%N) ->
  lookup (q_id q) es None <> None ->
  answer MODE_BINARY files es q = answer MODE_DB files es q.
Proof.
  intros Hb Hl. unfold answer. destruct (lookup (q_id q) es None) as [e|] eqn:E; [|congruence].
  destruct (lookup_in _ _ _ _ E) as [Hin | Hn]; [|discriminate].
  destruct (Hb e Hin) as [B1 B2].
  rewrite (stored_ok MODE_BINARY e (or_introl eq_refl)).
  rewrite (stored_ok MODE_DB e (or_intror (conj eq_refl (conj B1 B2)))). reflexivity.
Qed.

(* ------------------------------------------------------------------ get on the last record of a file without final newline *)
Theorem get_record_unterminated mode crlf (r : arec) (pre : str) :
  wf_rec mode (length (nl_of crlf)) r = true -> rseq r <> [] ->
  let nl := nl_of crlf in
  let rr := render_rec nl r in
  let U := firstn (length rr - length nl) rr in
  let f := pre ++ U in
  let ll := linelen_of crlf r in
  extract f ll (length pre) QHeader = Ok (header_line nl r)
  /\ (exists txt, extract f ll (length pre) QFull = Ok txt /\ txt = U
                  /\ parse_get txt = Ok (Some (rid r), hdr crlf r, upper (rseq r)))
  /\ forall oi oj : option nat,
       (match oi, oj with Some i, Some j => i <= j | _, _ => True end) ->
       exists txt, extract f ll (length pre) (QRange (option_map Z.of_nat oi) (option_map Z.of_nat oj)) = Ok txt
                   /\ parse_get txt = Ok (Some (rid r), hdr crlf r, upper (sl (rseq r) oi oj)).
Proof.
  intros Hwf Hne. cbv zeta. destruct (wf_rec_facts _ _ _ Hwf) as [Hw [H1 [H2 [H3 H4]]]].
  pose proof (wf_rec_resb _ _ _ Hwf) as HR.
  destruct (body_ends_nl crlf r Hw Hne) as [W' EW].
  assert (EU: firstn (length (render_rec (nl_of crlf) r) - length (nl_of crlf)) (render_rec (nl_of crlf) r)
              = hl (rid r ++ rdesc r) (nl_of crlf) ++ W').
  { unfold render_rec. rewrite EW, header_eq. rewrite (app_assoc (hl _ _) W'). rewrite app_length, Nat.add_sub.
    rewrite firstn_app, Nat.sub_diag, firstn_O, app_nil_r, firstn_all. reflexivity. }
  assert (Ef: pre ++ firstn (length (render_rec (nl_of crlf) r) - length (nl_of crlf)) (render_rec (nl_of crlf) r)
              = file pre (rid r ++ rdesc r) (nl_of crlf) W' []).
  { rewrite EU. unfold file. rewrite app_nil_r. reflexivity. }
  rewrite Ef, EU.
  pose proof (body_noGT crlf r H4) as BG. rewrite EW, forallb_app in BG. apply andb_prop in BG. destruct BG as [BG _].
  assert (Fnl: filter nonnl (nl_of crlf) = []) by (destruct crlf; reflexivity).
  pose proof (body_filter crlf r H3) as BF. rewrite EW, filter_app, Fnl, app_nil_r in BF.
  pose proof (body_datab crlf r HR) as BD. rewrite EW, forallb_app in BD. apply andb_prop in BD. destruct BD as [BD _].
  pose proof (body_cr_ok crlf r HR) as BC. rewrite EW in BC.
  assert (BC': cr_ok W' = true).
  { pose proof (cr_ok_firstn _ (length W') BC) as K. rewrite firstn_app, Nat.sub_diag, firstn_O, app_nil_r, firstn_all in K. exact K. }
  assert (Hcnt: forall x, x <= length (rseq r) ->
            filter nonnl (firstn (cmp (nl_of crlf) (linelen_of crlf r) x) (W' ++ nl_of crlf)) = firstn x (rseq r)).
  { intros x Hx. pose proof (body_cnt crlf r Hw H3 x Hx) as C. rewrite app_nil_r, EW in C. exact C. }
  split; [|split].
  - rewrite header_eq. apply (extract_header pre (rid r ++ rdesc r) (nl_of crlf) W' [] (nl_of_cases crlf) H1).
  - exists (hl (rid r ++ rdesc r) (nl_of crlf) ++ W'). split; [|split; [reflexivity|]].
    + apply (extract_full pre (rid r ++ rdesc r) (nl_of crlf) W' [] BG (or_introl eq_refl) H2 (nl_of_noGT crlf)).
    + rewrite <- header_eq, (parse_extracted mode crlf r W' Hwf BD BC'), BF. reflexivity.
  - intros oi oj Hij.
    destruct (extract_range_slice pre (rid r ++ rdesc r) (nl_of crlf) W' [] (nl_of_cases crlf) H1 BG (or_introl eq_refl)
                (rseq r) (nl_of crlf) (linelen_of crlf r) Fnl BF (linelen_ok crlf r Hw) Hcnt oi oj Hij) as [data [E [F [a [n ES]]]]].
    exists (hl (rid r ++ rdesc r) (nl_of crlf) ++ data). split; [exact E|].
    rewrite <- header_eq, (parse_extracted mode crlf r data Hwf).
    + rewrite F. unfold slice, sl. destruct oi; reflexivity.
    + rewrite ES. apply forallb_firstn, forallb_skipn. exact BD.
    + rewrite ES. apply cr_ok_firstn, cr_ok_skipn. exact BC'.
Qed.

(* non-vacuity of the hypotheses of index_get_spec: two files (CRLF and LF), three records, one of them empty *)
Definition ex_files : list afile :=
  [(true, [ARec (bs "a"%bs) (bs " d"%bs) (bs "ACGTACGTACGT"%bs) 5; ARec (bs "e"%bs) [] [] 60]);
   (false, [ARec (bs "b"%bs) [] (bs "TTTTGGGG"%bs) 8])].
Lemma ex_files_ok : Forall (wf_afile MODE_DB) ex_files /\ NoDup (all_ids ex_files) /\ (N.of_nat (length ex_files) < 65536)%N.
Proof.
  split; [|split].
  - repeat constructor; discriminate.
  - cbn. repeat constructor; cbn; intuition discriminate.
  - reflexivity.
Qed.
