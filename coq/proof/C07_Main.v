(* C07 proofs, part 4: the statements of props/C07_Props.v assembled from parts 1-3. *)
From Coq Require Import List ZArith NArith Bool Lia Arith.
From Coq.Strings Require Import Byte.
Import ListNotations.
From SV Require Import Text C05_Model G_gc_ids G_c07_tabs C07_Model C07_Lemmas C07_Spec C07_Tables.

Section Main.
Variable t : gtab.
Variable o : opts.
Let aa := aa_of t (o_astop o).

Lemma spec_translate_cases l :
  spec_translate t o l = if started t o (codons l) then spec_go t o (codons l) else Err ENoStart.
Proof.
  unfold spec_translate, started. destruct (codons l) as [|c r].
  - rewrite orb_true_r. reflexivity.
  - destruct (eff_check_start o); cbn [negb andb orb]; [|reflexivity]. destruct (can_start t c); reflexivity.
Qed.

Hypothesis Hafter : gap_after_ok o = true.

Lemma translate_spec l : gapfree o (u2t l) = true -> translate t o l = spec_translate t o (u2t l).
Proof. intros H. unfold translate. apply translate_t_spec; assumption. Qed.

Lemma translate_codonwise l : gapfree o (u2t l) = true ->
  o_complete o = true -> o_check_stop o = false -> started t o (codons (u2t l)) = true ->
  translate t o l =
    Ok (map aa (if eff_final_stop o || negb (last_is_stop t (codons (u2t l))) then codons (u2t l)
                else removelast (codons (u2t l)))).
Proof.
  intros G C S St. rewrite translate_spec by exact G. rewrite spec_translate_cases, St.
  apply spec_go_complete; assumption.
Qed.

Lemma translate_stops_at_first_stop l : gapfree o (u2t l) = true ->
  o_complete o = false -> o_check_stop o = false -> started t o (codons (u2t l)) = true ->
  translate t o l =
    Ok (map aa (take_nonstop t (codons (u2t l))) ++
        match first_stop t (codons (u2t l)) with
        | Some (c, _) => if eff_final_stop o then [aa c] else []
        | None => []
        end).
Proof.
  intros G C S St. rewrite translate_spec by exact G. rewrite spec_translate_cases, St.
  apply spec_go_first_stop; assumption.
Qed.

Lemma check_start_iff l : gapfree o (u2t l) = true ->
  (translate t o l = Err ENoStart <-> started t o (codons (u2t l)) = false).
Proof.
  intros G. rewrite translate_spec by exact G. rewrite spec_translate_cases.
  destruct (started t o (codons (u2t l))).
  - split; [intros H; exfalso; exact (spec_go_not_nostart t o _ H)|discriminate].
  - split; reflexivity.
Qed.

Lemma check_stop_spec l : gapfree o (u2t l) = true ->
  o_check_stop o = true -> started t o (codons (u2t l)) = true ->
  translate t o l =
    match first_stop t (codons (u2t l)) with
    | None => Err ENoStop
    | Some (c, []) => Ok (map aa (take_nonstop t (codons (u2t l))) ++ (if eff_final_stop o then [aa c] else []))
    | Some (c, _ :: _) => Err EStopNotLast
    end.
Proof.
  intros G S St. rewrite translate_spec by exact G. rewrite spec_translate_cases, St.
  apply spec_go_check_stop; assumption.
Qed.

Lemma no_check_stop_ok l : gapfree o (u2t l) = true ->
  o_check_stop o = false -> started t o (codons (u2t l)) = true -> exists x, translate t o l = Ok x.
Proof.
  intros G S St. rewrite translate_spec by exact G. rewrite spec_translate_cases, St.
  apply spec_go_no_check_ok; assumption.
Qed.

End Main.

(* ---- the whole domain: gaps only add gap symbols, and what remains is the codon-level specification *)
Lemma wf_parts t o l : wf_C07 t o l = true ->
  gap_sym_ok t o = true /\ gap_after_ok o = true /\
  match o_gap o with None => true | Some g => negb (is_nt g) end = true.
Proof.
  unfold wf_C07. intros H. apply andb_prop in H. destruct H as [H H4]. apply andb_prop in H. destruct H as [H H3].
  apply andb_prop in H. destruct H as [H1 H2]. repeat split; assumption.
Qed.

Lemma translate_degap t o l : wf_C07 t o l = true ->
  res_degap o (translate t o l) = translate t o (degap_in o l).
Proof.
  intros H. destruct (wf_parts t o l H) as (H1 & H2 & H3). apply translate_degap_full; assumption.
Qed.

Lemma degapped_gapfree t o l : wf_C07 t o l = true -> gapfree o (u2t (degap_in o l)) = true.
Proof.
  intros H. destruct (wf_parts t o l H) as (H1 & H2 & H3).
  rewrite <- (degap_u2t o H3). apply degap_in_gapfree.
Qed.

Lemma translate_master t o l : wf_C07 t o l = true ->
  res_degap o (translate t o l) = spec_translate t o (u2t (degap_in o l)).
Proof.
  intros H. rewrite translate_degap by exact H. destruct (wf_parts t o l H) as (H1 & H2 & H3).
  apply translate_spec; [exact H2|]. apply (degapped_gapfree t o l H).
Qed.

(* without gap handling the degapping is the identity *)
Lemma res_degap_nogap o r : o_gap o = None -> res_degap o r = r.
Proof.
  intros G. destruct r as [a|e]; [|reflexivity]. cbn [res_degap]. f_equal. unfold degap_out.
  assert (E: forall x, negb (is_gap o x) = true) by (intro x; unfold is_gap; rewrite G; reflexivity).
  induction a as [|x a IH]; [reflexivity|]. cbn [filter]. rewrite E, IH. reflexivity.
Qed.
