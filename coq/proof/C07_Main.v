(* C07 proofs, part 4: the statements of props/C07_Props.v assembled from parts 1-3. *)
From Coq Require Import List ZArith NArith Bool Lia Arith.
From Coq.Strings Require Import Byte.
Import ListNotations.
From SV Require Import Text C05_Model G_gc_ids G_c07_tabs C07_Model C07_Lemmas C07_Spec C07_Tables.

Section Main.
Variable t : gtab.
Variable o : opts.
Let aa := aa_of t (o_astop o).

Lemma spec_translate_cases l :
  spec_translate t o l = if started t o (codons l) then spec_go t o (codons l) else Err ENoStart.
Proof.
  unfold spec_translate, started. destruct (codons l) as [|c r].
  - rewrite orb_true_r. reflexivity.
  - destruct (eff_check_start o); cbn [negb andb orb]; [|reflexivity]. destruct (can_start t c); reflexivity.
Qed.

Hypothesis Hafter : gap_after_ok o = true.

Lemma translate_spec l : gapfree o (u2t l) = true -> translate t o l = spec_translate t o (u2t l).
Proof. intros H. unfold translate. apply translate_t_spec; assumption. Qed.

Lemma translate_codonwise l : gapfree o (u2t l) = true ->
  o_complete o = true -> o_check_stop o = false -> started t o (codons (u2t l)) = true ->
  translate t o l =
    Ok (map aa (if eff_final_stop o || negb (last_is_stop t (codons (u2t l))) then codons (u2t l)
                else removelast (codons (u2t l)))).
Proof.
  intros G C S St. rewrite translate_spec by exact G. rewrite spec_translate_cases, St.
  apply spec_go_complete; assumption.
Qed.

Lemma translate_stops_at_first_stop l : gapfree o (u2t l) = true ->
  o_complete o = false -> o_check_stop o = false -> started t o (codons (u2t l)) = true ->
  translate t o l =
    Ok (map aa (take_nonstop t (codons (u2t l))) ++
        match first_stop t (codons (u2t l)) with
        | Some (c, _) => if eff_final_stop o then [aa c] else []
        | None => []
        end).
Proof.
  intros G C S St. rewrite translate_spec by exact G. rewrite spec_translate_cases, St.
  apply spec_go_first_stop; assumption.
Qed.

Lemma check_start_iff l : gapfree o (u2t l) = true ->
  (translate t o l = Err ENoStart <-> started t o (codons (u2t l)) = false).
Proof.
  intros G. rewrite translate_spec by exact G. rewrite spec_translate_cases.
  destruct (started t o (codons (u2t l))).
  - split; [intros H; exfalso; exact (spec_go_not_nostart t o _ H)|discriminate].
  - split; reflexivity.
Qed.

Lemma check_stop_spec l : gapfree o (u2t l) = true ->
  o_check_stop o = true -> started t o (codons (u2t l)) = true ->
  translate t o l =
    match first_stop t (codons (u2t l)) with
    | None => Err ENoStop
    | Some (c, []) => Ok (map aa (take_nonstop t (codons (u2t l))) ++ (if eff_final_stop o then [aa c] else []))
    | Some (c, _ :: _) => Err EStopNotLast
    end.
Proof.
  intros G S St. rewrite translate_spec by exact G. rewrite spec_translate_cases, St.
  apply spec_go_check_stop; assumption.
Qed.

Lemma no_check_stop_ok l : gapfree o (u2t l) = true ->
  o_check_stop o = false -> started t o (codons (u2t l)) = true -> exists x, translate t o l = Ok x.
Proof.
  intros G S St. rewrite translate_spec by exact G. rewrite spec_translate_cases, St.
  apply spec_go_no_check_ok; assumption.
Qed.

End Main.

(* ---- the whole domain: gaps only add gap symbols, and what remains is the codon-level specification *)
Lemma wf_parts t o l : wf_C07 t o l = true ->
  gap_sym_ok t o = true /\ gap_after_ok o = true /\
  match o_gap o with None => true | Some g => negb (is_nt g) end = true.
Proof.
  unfold wf_C07. intros H. apply andb_prop in H. destruct H as [H H4]. apply andb_prop in H. destruct H as [H H3].
  apply andb_prop in H. destruct H as [H1 H2]. repeat split; assumption.
Qed.

Lemma translate_degap t o l : wf_C07 t o l = true ->
  res_degap o (translate t o l) = translate t o (degap_in o l).
Proof.
  intros H. destruct (wf_parts t o l H) as (H1 & H2 & H3). apply translate_degap_full; assumption.
Qed.

Lemma degapped_gapfree t o l : wf_C07 t o l = true -> gapfree o (u2t (degap_in o l)) = true.
Proof.
  intros H. destruct (wf_parts t o l H) as (H1 & H2 & H3).
  rewrite <- (degap_u2t o H3). apply degap_in_gapfree.
Qed.

Lemma translate_master t o l : wf_C07 t o l = true ->
  res_degap o (translate t o l) = spec_translate t o (u2t (degap_in o l)).
Proof.
  intros H. rewrite translate_degap by exact H. destruct (wf_parts t o l H) as (H1 & H2 & H3).
  apply translate_spec; [exact H2|]. apply (degapped_gapfree t o l H).
Qed.

(* without gap handling the degapping is the identity *)
Lemma res_degap_nogap o r : o_gap o = None -> res_degap o r = r.
Proof.
  intros G. destruct r as [a|e]; [|reflexivity]. cbn [res_degap]. f_equal. unfold degap_out.
  assert (E: forall x, negb (is_gap o x) = true) by (intro x; unfold is_gap; rewrite G; reflexivity).
  induction a as [|x a IH]; [reflexivity|]. cbn [filter]. rewrite E, IH. reflexivity.
Qed.

(* ---- exact placement and number of the gap symbols *)
From SV Require Import C07_Gaps C07_Wrap.

Lemma gap_placement t o l : gap_after_ok o = true -> translate t o l = spec_translate_g t o (u2t l).
Proof. intros H. unfold translate. apply translate_t_gaps; exact H. Qed.

Lemma ecount_0 o : gap_after_ok o = true -> ecount o 0 = 0%Z.
Proof.
  unfold gap_after_ok, ecount. destruct (o_gap o); [|reflexivity]. destruct (o_gap_after o) as [k|]; [|reflexivity].
  intros H. apply Z.leb_le in H. assert (L: (0 <? k)%Z = true) by (apply Z.ltb_lt; lia). rewrite L. reflexivity.
Qed.

Lemma gap_marks_total o l : gap_after_ok o = true ->
  Z.of_nat (sum_nat (marks o 0 0 l)) = ecount o (count_gap o l).
Proof. intros H. rewrite (marks_total o H l 0%Z 0), (ecount_0 o H). simpl. lia. Qed.

Lemma gap_marks_length o l : length (marks o 0 0 l) = S (length (codons (degap_in o l))).
Proof. apply (marks_length o l 0%Z []). simpl. lia. Qed.

Lemma gap_count t o gc l : gap_after_ok o = true -> o_gap o = Some gc -> gap_sym_ok t o = true ->
  o_check_stop o = false -> started t o (codons (degap_in o (u2t l))) = true ->
  forallb (fun c => negb (is_stop t c)) (codons (degap_in o (u2t l))) = true ->
  exists out, translate t o l = Ok out /\ count_gap o out = ecount o (count_gap o (u2t l)).
Proof.
  intros Ha Hg Hs Hc Hst Hns. rewrite (gap_placement t o l Ha). unfold spec_translate_g. rewrite Hst.
  destruct (spec_go_g_nostop t o gc Hg Hs Hc _ (marks o 0 0 (u2t l)) Hns (gap_marks_length o (u2t l))) as (out & E & C).
  exists out. split; [exact E|]. rewrite C. apply gap_marks_total. exact Ha.
Qed.

(* ---- final_stop controls ONLY whether the terminal stop symbol is written *)
Lemma spec_go_final_stop_only t o : forall cs,
  spec_go t o cs = match spec_go t (with_final_stop false o) cs with
                   | Err e => Err e
                   | Ok a => Ok (a ++ if eff_final_stop o then end_stop t o cs else [])
                   end.
Proof.
  induction cs as [|c rest IH]; cbn [spec_go end_stop].
  - unfold with_final_stop at 1. cbn [o_check_stop]. destruct (o_check_stop o); [reflexivity|].
    destruct (eff_final_stop o); reflexivity.
  - change (o_check_stop (with_final_stop false o)) with (o_check_stop o).
    change (o_complete (with_final_stop false o)) with (o_complete o).
    change (o_astop (with_final_stop false o)) with (o_astop o).
    change (eff_final_stop (with_final_stop false o)) with false.
    destruct (is_stop t c && o_check_stop o && negb match rest with [] => true | _ => false end); [reflexivity|].
    destruct (is_stop t c && (match rest with [] => true | _ => false end || negb (o_complete o))).
    + destruct (eff_final_stop o); reflexivity.
    + rewrite IH. destruct (spec_go t (with_final_stop false o) rest); reflexivity.
Qed.

Lemma final_stop_only t o l : gap_after_ok o = true -> gapfree o (u2t l) = true ->
  translate t o l = match translate t (with_final_stop false o) l with
                    | Err e => Err e
                    | Ok a => Ok (a ++ if eff_final_stop o then end_stop t o (codons (u2t l)) else [])
                    end.
Proof.
  intros Ha Hg. rewrite (translate_spec t o Ha l Hg).
  rewrite (translate_spec t (with_final_stop false o) Ha l Hg).
  rewrite !spec_translate_cases.
  change (started t (with_final_stop false o) (codons (u2t l))) with (started t o (codons (u2t l))).
  destruct (started t o (codons (u2t l))); [|reflexivity]. apply spec_go_final_stop_only.
Qed.

(* ---- every bundled table id resolves to one of the tables the per-table theorems speak about *)
Lemma lookup_tab_In k : forall l t, lookup_tab k l = Some t -> In (k, t) l.
Proof.
  induction l as [|[i u] l IH]; intros t; cbn [lookup_tab]; [discriminate|].
  destruct (N.eqb i k) eqn:E.
  - intros H. inversion H. subst. apply N.eqb_eq in E. subst. left. reflexivity.
  - intros H. right. apply IH. exact H.
Qed.
Lemma every_table_b : forallb (fun k => match lookup_tab k tabs with Some _ => true | None => false end) json_ids = true.
Proof. vm_compute. reflexivity. Qed.
Lemma every_table k : In k json_ids -> exists t, lookup_tab k tabs = Some t /\ In (k, t) tabs.
Proof.
  intros H. pose proof every_table_b as B. rewrite forallb_forall in B. specialize (B k H).
  destruct (lookup_tab k tabs) as [t|] eqn:E; [|discriminate]. exists t. split; [reflexivity|]. apply lookup_tab_In. exact E.
Qed.
