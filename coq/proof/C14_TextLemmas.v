(* C14 text layer: json.load reads back exactly the tree json.dump printed (unbounded; nested induction over the tree). *)
From Coq Require Import List ZArith NArith Bool Lia.
From Coq.Strings Require Import Byte.
Import ListNotations.
From SV Require Import Text G_sjson C14_Dec C14_Model C14_Lemmas C14_Text.

(* ---- spans ------------------------------------------------------------------------------------------------------------------ *)
Definition stopb (p : byte -> bool) (rest : str) : bool := match rest with [] => true | c :: _ => negb (p c) end.
Definition stop_ok (rest : str) : bool := stopb is_numchar rest.

Lemma span_app p t rest : forallb p t = true -> stopb p rest = true -> span p (t ++ rest) = (t, rest).
Proof.
  induction t as [|c t IH]; intros Ht Hr.
  - cbn [app]. destruct rest as [|c r]; [reflexivity|]. cbn [span]. cbn [stopb] in Hr.
    destruct (p c); [discriminate|reflexivity].
  - cbn [forallb] in Ht. apply andb_prop in Ht. destruct Ht as [Hc Ht].
    cbn [app span]. rewrite Hc, (IH Ht Hr). reflexivity.
Qed.

(* ---- strings ------------------------------------------------------------------------------------------------------------------ *)
Lemma scan_str_esc c s : scan_str (esc_char c ++ s) = cons_res c (scan_str s).
Proof. destruct c; reflexivity. Qed.

Lemma scan_str_body s rest : scan_str (flat_map esc_char s ++ """"%byte :: rest) = Some (s, rest).
Proof.
  induction s as [|c s IH]; [reflexivity|].
  cbn [flat_map]. rewrite <- app_assoc, scan_str_esc, IH. reflexivity.
Qed.

Lemma jstring_app s rest : jstring s ++ rest = """"%byte :: flat_map esc_char s ++ """"%byte :: rest.
Proof. unfold jstring. cbn [app]. rewrite <- app_assoc. reflexivity. Qed.

(* every byte of a JSON string literal is printable ASCII (ensure_ascii) *)
Definition printable (c : byte) : bool := let n := Byte.to_N c in (N.leb 32 n && N.leb n 126)%bool.
Lemma esc_printable c : forallb printable (esc_char c) = true.
Proof. destruct c; reflexivity. Qed.
Lemma jstring_printable s : forallb printable (jstring s) = true.
Proof.
  unfold jstring. cbn [forallb]. rewrite forallb_app. cbn.
  rewrite andb_true_r. induction s as [|c s IH]; [reflexivity|].
  cbn [flat_map]. rewrite forallb_app, esc_printable, IH. reflexivity.
Qed.

(* ---- unfolding equations of the scanner ------------------------------------------------------------------------------- *)
Lemma parse_num f c r : is_numstart c = true -> parse (S f) (c :: r) = scan_number (c :: r).
Proof. intros H. destruct c; try discriminate H; reflexivity. Qed.
Lemma parse_str f r : parse (S f) (""""%byte :: r) = match scan_str r with Some (x, r') => Some (JStr x, r') | None => None end.
Proof. reflexivity. Qed.
Lemma parse_arr f r : parse (S f) ("["%byte :: r) =
  match skip_ws r with
  | [] => None
  | c1 :: r2 =>
      if byte_eqb c1 "]"%byte then Some (JArr [], r2)
      else match parse f (c1 :: r2) with
           | Some (x, r3) => match parse_tail f r3 with Some (xs, r4) => Some (JArr (x :: xs), r4) | None => None end
           | None => None
           end
  end.
Proof. reflexivity. Qed.
Lemma parse_obj f r : parse (S f) ("{"%byte :: r) =
  match skip_ws r with
  | [] => None
  | c1 :: r2 =>
      if byte_eqb c1 "}"%byte then Some (JObj [], r2)
      else match scan_key (c1 :: r2) with
           | Some (k, r3) =>
               match parse f r3 with
               | Some (x, r4) =>
                   match parse_otail f r4 with Some (xs, r5) => Some (JObj ((k, x) :: xs), r5) | None => None end
               | None => None
               end
           | None => None
           end
  end.
Proof. reflexivity. Qed.
Lemma parse_tail_eq f s : parse_tail (S f) s =
  match skip_ws s with
  | [] => None
  | c :: r =>
      if byte_eqb c "]"%byte then Some ([], r)
      else if byte_eqb c ","%byte then
        match parse f (skip_ws r) with
        | Some (x, r1) => match parse_tail f r1 with Some (xs, r2) => Some (x :: xs, r2) | None => None end
        | None => None
        end
      else None
  end.
Proof. reflexivity. Qed.
Lemma parse_otail_eq f s : parse_otail (S f) s =
  match skip_ws s with
  | [] => None
  | c :: r =>
      if byte_eqb c "}"%byte then Some ([], r)
      else if byte_eqb c ","%byte then
        match scan_key (skip_ws r) with
        | Some (k, r1) =>
            match parse f r1 with
            | Some (x, r2) => match parse_otail f r2 with Some (xs, r3) => Some ((k, x) :: xs, r3) | None => None end
            | None => None
            end
        | None => None
        end
      else None
  end.
Proof. reflexivity. Qed.

(* ---- numbers ------------------------------------------------------------------------------------------------------------------ *)
Lemma digit_byte_numchar c : is_digit_byte c = true -> is_digit c = true.
Proof. destruct c; intros H; try discriminate H; reflexivity. Qed.
Lemma uint_bytes_isdigit u : forallb is_digit (uint_bytes u) = true.
Proof.
  pose proof (uint_bytes_digits u) as H. induction (uint_bytes u) as [|c r IH]; [reflexivity|].
  cbn [forallb] in *. apply andb_prop in H. destruct H as [H1 H2]. rewrite (digit_byte_numchar _ H1), (IH H2). reflexivity.
Qed.
Lemma digit_numchar c : is_digit c = true -> is_numchar c = true.
Proof. intros H. unfold is_numchar. rewrite H. reflexivity. Qed.
Lemma digits_numchars s : forallb is_digit s = true -> forallb is_numchar s = true.
Proof.
  induction s as [|c r IH]; [reflexivity|]. cbn [forallb]. intros H. apply andb_prop in H. destruct H as [H1 H2].
  rewrite (digit_numchar _ H1), (IH H2). reflexivity.
Qed.
Lemma dec_nonempty z : dec_of_Z z <> [].
Proof. intros H. pose proof (Z_of_dec_of_Z z) as R. rewrite H in R. discriminate. Qed.

(* int.__repr__: a digit run, or a minus sign and a digit run *)
Lemma dec_shape z : exists c r, dec_of_Z z = c :: r /\ is_numstart c = true /\ forallb is_numchar (c :: r) = true.
Proof.
  pose proof (dec_nonempty z) as NE. unfold dec_of_Z in *.
  destruct (Z.to_int z) as [u|u].
  - pose proof (uint_bytes_isdigit u) as D. destruct (uint_bytes u) as [|c r]; [congruence|].
    exists c, r. split; [reflexivity|]. split.
    + cbn [forallb] in D. apply andb_prop in D. destruct D as [D _]. unfold is_numstart. rewrite D. reflexivity.
    + apply digits_numchars. exact D.
  - exists "-"%byte, (uint_bytes u). split; [reflexivity|]. split; [reflexivity|].
    cbn [forallb]. rewrite (digits_numchars _ (uint_bytes_isdigit u)). reflexivity.
Qed.

Lemma int_of_lit_dec z : int_of_lit (dec_of_Z z) = Some z.
Proof.
  unfold int_of_lit.
  destruct (str_eqb (dec_of_Z z) (bs "-0"%bs)) eqn:E.
  - apply str_eqb_eq in E. pose proof (Z_of_dec_of_Z z) as R. rewrite E in R. vm_compute in R.
    injection R as R. subst z. vm_compute in E. discriminate.
  - destruct (dec_shape z) as [c [r [Hd [Hs _]]]].
    assert (Hplus : c <> "+"%byte) by (intros ->; discriminate Hs).
    assert (G : forall t, t = c :: r -> match t with
            | "+"%byte :: _ => None
            | _ => match Z_of_dec (dec_of_Z z) with Some z0 => if str_eqb (dec_of_Z z0) (dec_of_Z z) then Some z0 else None | None => None end
            end = Some z).
    { intros t ->. rewrite Z_of_dec_of_Z, str_eqb_refl. destruct c; try reflexivity. congruence. }
    apply G. exact Hd.
Qed.

Lemma scan_number_int z rest : stop_ok rest = true -> scan_number (dec_of_Z z ++ rest) = Some (JInt z, rest).
Proof.
  intros Hr. destruct (dec_shape z) as [c [r [Hd [Hs Hn]]]].
  unfold scan_number. rewrite span_app; [|rewrite Hd; exact Hn|exact Hr].
  destruct (str_eqb (dec_of_Z z) (bs "-"%bs)) eqn:E.
  - apply str_eqb_eq in E. pose proof (Z_of_dec_of_Z z) as R. rewrite E in R. vm_compute in R. discriminate.
  - rewrite int_of_lit_dec. reflexivity.
Qed.

Lemma numstart_not_ws c : is_numstart c = true -> is_ws c = false.
Proof. destruct c; intros H; try discriminate H; reflexivity. Qed.

(* float literals *)
Lemma float_text_plain l :
  str_eqb l L_nan = false -> str_eqb l L_inf = false -> str_eqb l L_ninf = false -> float_text l = l.
Proof. intros A B C. unfold float_text. rewrite A, B, C. reflexivity. Qed.

Lemma jfloat_cases l : jfloat_ok l = true ->
  l = L_nan \/ l = L_inf \/ l = L_ninf \/
  (float_text l = l /\ forallb is_numchar l = true /\ (exists c r, l = c :: r /\ is_numstart c = true) /\
   int_of_lit l = None /\ float_grammar l = true).
Proof.
  unfold jfloat_ok. intros H.
  destruct (str_eqb l L_nan) eqn:A; [left; apply str_eqb_eq; exact A|].
  destruct (str_eqb l L_inf) eqn:B; [right; left; apply str_eqb_eq; exact B|].
  destruct (str_eqb l L_ninf) eqn:C; [right; right; left; apply str_eqb_eq; exact C|].
  right; right; right. cbn [orb] in H.
  apply andb_prop in H. destruct H as [H H4]. apply andb_prop in H. destruct H as [H H3].
  apply andb_prop in H. destruct H as [H1 H2].
  split; [apply float_text_plain; assumption|]. split; [exact H1|]. split.
  - destruct l as [|c r]; [discriminate|]. exists c, r. split; [reflexivity|exact H2].
  - split; [|exact H4]. destruct (int_of_lit l); [discriminate|reflexivity].
Qed.

Lemma parse_float f l rest : jfloat_ok l = true -> stop_ok rest = true ->
  parse (S f) (float_text l ++ rest) = Some (JFloat l, rest).
Proof.
  intros H Hr. destruct (jfloat_cases l H) as [->|[->|[->|[Ht [Hn [[c [r [Hl Hs]]] [Hi Hg]]]]]]]; try reflexivity.
  rewrite Ht. rewrite Hl. cbn [app]. rewrite (parse_num f c _ Hs).
  change (c :: r ++ rest) with ((c :: r) ++ rest). rewrite <- Hl.
  unfold scan_number. rewrite span_app; [|exact Hn|exact Hr].
  destruct (str_eqb l (bs "-"%bs)) eqn:E.
  - apply str_eqb_eq in E. rewrite E in Hg. vm_compute in Hg. discriminate.
  - rewrite Hi, Hg. reflexivity.
Qed.

(* ---- no value starts with white space -------------------------------------------------------------------------------------- *)
Lemma skip_ws_nows c r : is_ws c = false -> skip_ws (c :: r) = c :: r.
Proof. intros H. cbn [skip_ws]. rewrite H. reflexivity. Qed.

Lemma bracket_head o c ss : exists r, bracket o c ss = o :: r.
Proof. destruct ss; eexists; reflexivity. Qed.

Lemma print_head j : wfj j = true -> exists c r, print j = c :: r /\ is_ws c = false.
Proof.
  destruct j as [|[|]|z|l|s|l|kv]; intros W; cbn [print].
  - eexists _, _; split; reflexivity.
  - eexists _, _; split; reflexivity.
  - eexists _, _; split; reflexivity.
  - destruct (dec_shape z) as [c [r [Hd [Hs _]]]]. exists c, r. split; [exact Hd|apply numstart_not_ws; exact Hs].
  - cbn [wfj] in W. destruct (jfloat_cases l W) as [->|[->|[->|[Ht [_ [[c [r [Hl Hs]]] _]]]]]].
    + eexists _, _; split; reflexivity.
    + eexists _, _; split; reflexivity.
    + eexists _, _; split; reflexivity.
    + rewrite Ht. exists c, r. split; [exact Hl|apply numstart_not_ws; exact Hs].
  - eexists _, _; split; reflexivity.
  - destruct (bracket_head "["%byte "]"%byte (map print l)) as [r ->]. eexists _, _; split; reflexivity.
  - destruct (bracket_head "{"%byte "}"%byte (map (fun p => jstring (fst p) ++ KSEP ++ print (snd p)) kv)) as [r ->].
    eexists _, _; split; reflexivity.
Qed.
Lemma skip_ws_print j rest : wfj j = true -> skip_ws (print j ++ rest) = print j ++ rest.
Proof. intros W. destruct (print_head j W) as [c [r [-> H]]]. cbn [app]. apply skip_ws_nows. exact H. Qed.

Lemma tails_stop c ss rest : (c = "]"%byte \/ c = "}"%byte) -> stop_ok (tails c ss ++ rest) = true.
Proof. intros [-> | ->]; destruct ss; reflexivity. Qed.

(* ---- the main induction ------------------------------------------------------------------------------------------------------- *)
Definition PT (j : json) : Prop :=
  forall fuel rest, wfj j = true -> stop_ok rest = true -> jsize j <= fuel -> parse fuel (print j ++ rest) = Some (j, rest).

Definition lsize (l : list json) : nat := list_sum (map jsize l) + List.length l.
Definition osize (kv : list (str * json)) : nat := list_sum (map (fun p => jsize (snd p)) kv) + List.length kv.

Lemma lsize_cons x l : lsize (x :: l) = jsize x + lsize l + 1.
Proof. unfold lsize. cbn [map List.length]. change (list_sum (jsize x :: map jsize l)) with (jsize x + list_sum (map jsize l)). lia. Qed.
Lemma osize_cons k x kv : osize ((k, x) :: kv) = jsize x + osize kv + 1.
Proof.
  unfold osize. cbn [map List.length snd].
  change (list_sum (jsize x :: map (fun p => jsize (snd p)) kv)) with (jsize x + list_sum (map (fun p => jsize (snd p)) kv)). lia.
Qed.

Lemma tail_ok l : Forall PT l -> forall f rest, forallb wfj l = true -> lsize l < f ->
  parse_tail f (tails "]"%byte (map print l) ++ rest) = Some (l, rest).
Proof.
  induction 1 as [|x l Hx Hl IH]; intros f rest W Hf.
  - destruct f as [|f]; [lia|]. reflexivity.
  - destruct f as [|f]; [lia|].
    cbn [forallb] in W. apply andb_prop in W. destruct W as [Wx Wl].
    rewrite lsize_cons in Hf.
    cbn [map tails]. rewrite parse_tail_eq.
    change (SEP ++ print x ++ tails "]"%byte (map print l)) with (","%byte :: " "%byte :: print x ++ tails "]"%byte (map print l)).
    cbn [app]. rewrite skip_ws_nows by reflexivity.
    change (byte_eqb ","%byte "]"%byte) with false. change (byte_eqb ","%byte ","%byte) with true. cbv iota.
    cbn [skip_ws]. change (is_ws " "%byte) with true. cbv iota.
    rewrite <- app_assoc. rewrite skip_ws_print by exact Wx.
    rewrite (Hx f _ Wx (tails_stop _ _ _ (or_introl eq_refl))) by lia.
    rewrite (IH f rest Wl) by lia. reflexivity.
Qed.

Lemma scan_key_ok k j rest : wfj j = true ->
  scan_key (jstring k ++ KSEP ++ print j ++ rest) = Some (k, print j ++ rest).
Proof.
  intros W. rewrite jstring_app. unfold scan_key.
  change (byte_eqb """"%byte """"%byte) with true. cbv iota.
  rewrite scan_str_body.
  change (KSEP ++ print j ++ rest) with (":"%byte :: " "%byte :: print j ++ rest).
  rewrite skip_ws_nows by reflexivity.
  change (byte_eqb ":"%byte ":"%byte) with true. cbv iota.
  cbn [skip_ws]. change (is_ws " "%byte) with true. cbv iota.
  rewrite skip_ws_print by exact W. reflexivity.
Qed.

Definition printp (p : str * json) : str := jstring (fst p) ++ KSEP ++ print (snd p).

Lemma otail_ok kv : Forall (fun p => PT (snd p)) kv -> forall f rest, forallb (fun p => wfj (snd p)) kv = true -> osize kv < f ->
  parse_otail f (tails "}"%byte (map printp kv) ++ rest) = Some (kv, rest).
Proof.
  induction 1 as [|[k x] kv Hx Hl IH]; intros f rest W Hf.
  - destruct f as [|f]; [lia|]. reflexivity.
  - destruct f as [|f]; [lia|].
    cbn [forallb snd] in W. apply andb_prop in W. destruct W as [Wx Wl].
    rewrite osize_cons in Hf. cbn [snd] in Hx.
    cbn [map tails]. rewrite parse_otail_eq.
    change (SEP ++ printp (k, x) ++ tails "}"%byte (map printp kv))
      with (","%byte :: " "%byte :: printp (k, x) ++ tails "}"%byte (map printp kv)).
    cbn [app]. rewrite skip_ws_nows by reflexivity.
    change (byte_eqb ","%byte "}"%byte) with false. change (byte_eqb ","%byte ","%byte) with true. cbv iota.
    cbn [skip_ws]. change (is_ws " "%byte) with true. cbv iota.
    change (printp (k, x)) with (jstring k ++ KSEP ++ print x). rewrite <- !app_assoc.
    rewrite jstring_app. rewrite skip_ws_nows by reflexivity. rewrite <- jstring_app.
    rewrite scan_key_ok by exact Wx.
    rewrite (Hx f _ Wx (tails_stop _ _ _ (or_intror eq_refl))) by lia.
    rewrite (IH f rest Wl) by lia. reflexivity.
Qed.

Theorem parse_print : forall j, PT j.
Proof.
  apply (json_ind' PT); unfold PT.
  - intros [|f] rest _ _ Hf; [cbn in Hf; lia|]. reflexivity.
  - intros [|] [|f] rest _ _ Hf; try (cbn in Hf; lia); reflexivity.
  - intros z [|f] rest _ Hr Hf; [cbn in Hf; lia|]. cbn [print].
    destruct (dec_shape z) as [c [r [Hd [Hs _]]]]. rewrite Hd. cbn [app]. rewrite (parse_num f c _ Hs).
    change (c :: r ++ rest) with ((c :: r) ++ rest). rewrite <- Hd. apply scan_number_int. exact Hr.
  - intros l [|f] rest W Hr Hf; [cbn in Hf; lia|]. cbn [print]. cbn [wfj] in W. apply parse_float; assumption.
  - intros s [|f] rest _ _ Hf; [cbn in Hf; lia|]. cbn [print]. rewrite jstring_app, parse_str, scan_str_body. reflexivity.
  - intros l HF [|f] rest W Hr Hf; [cbn in Hf; lia|]. cbn [print]. cbn [wfj] in W. cbn [jsize] in Hf. fold (lsize l) in Hf.
    destruct l as [|x l].
    + reflexivity.
    + cbn [map bracket app]. rewrite parse_arr.
      inversion HF as [|? ? Hx Hl]; subst.
      cbn [forallb] in W. apply andb_prop in W. destruct W as [Wx Wl].
      rewrite lsize_cons in Hf.
      rewrite <- app_assoc. rewrite skip_ws_print by exact Wx.
      destruct (print_head x Wx) as [c [r [Hp Hws]]].
      assert (Hc : byte_eqb c "]"%byte = false).
      { destruct (byte_eqb c "]"%byte) eqn:E; [|reflexivity]. apply byte_eqb_eq in E. subst c.
        exfalso. clear - Hp Wx. destruct x as [|[|]|z|l0|s|l0|kv]; cbn [print] in Hp; try discriminate Hp.
        - destruct (dec_shape z) as [c [r' [Hd [Hs _]]]]. rewrite Hd in Hp. injection Hp as -> _. discriminate Hs.
        - cbn [wfj] in Wx. destruct (jfloat_cases l0 Wx) as [->|[->|[->|[Ht [_ [[c [r' [Hl0 Hs]]] _]]]]]]; try discriminate Hp.
          rewrite Ht, Hl0 in Hp. injection Hp as -> _. discriminate Hs.
        - destruct (map print l0); discriminate Hp.
        - destruct (map (fun p => jstring (fst p) ++ KSEP ++ print (snd p)) kv); discriminate Hp. }
      assert (Hm : print x ++ tails "]"%byte (map print l) ++ rest = c :: (r ++ tails "]"%byte (map print l) ++ rest))
        by (rewrite Hp; reflexivity).
      rewrite Hm. rewrite Hc. rewrite <- Hm.
      rewrite (Hx f _ Wx (tails_stop _ _ _ (or_introl eq_refl))) by lia.
      rewrite (tail_ok l Hl f rest Wl) by lia. reflexivity.
  - intros kv HF [|f] rest W Hr Hf; [cbn in Hf; lia|]. cbn [print]. cbn [wfj] in W. cbn [jsize] in Hf. fold (osize kv) in Hf.
    fold printp. change (fun p : str * json => jstring (fst p) ++ KSEP ++ print (snd p)) with printp.
    destruct kv as [|[k x] kv].
    + reflexivity.
    + cbn [map bracket app]. rewrite parse_obj.
      inversion HF as [|? ? Hx Hl]; subst. cbn [snd] in Hx.
      cbn [forallb snd] in W. apply andb_prop in W. destruct W as [Wx Wl].
      rewrite osize_cons in Hf.
      change (printp (k, x)) with (jstring k ++ KSEP ++ print x). rewrite <- !app_assoc.
      rewrite jstring_app. rewrite skip_ws_nows by reflexivity.
      change (byte_eqb """"%byte "}"%byte) with false. cbv iota.
      rewrite <- jstring_app. rewrite scan_key_ok by exact Wx.
      rewrite (Hx f _ Wx (tails_stop _ _ _ (or_intror eq_refl))) by lia.
      match goal with |- match ?t with _ => _ end = _ => replace t with (Some (kv, rest)) end; [reflexivity|].
      symmetry. apply otail_ok; [exact Hl|exact Wl|lia].
Qed.

(* ---- fuel: the length of the text is enough ------------------------------------------------------------------------------- *)
Lemma tails_len {A} (sz : A -> nat) (pr : A -> str) c l :
  Forall (fun a => sz a <= List.length (pr a)) l ->
  list_sum (map sz l) + List.length l + 1 <= List.length (tails c (map pr l)).
Proof.
  induction 1 as [|x l Hx Hl IH]; [cbn; lia|].
  cbn [map tails List.length]. change (list_sum (sz x :: map sz l)) with (sz x + list_sum (map sz l)).
  unfold SEP. cbn [bs bytes_of_bstr app List.length]. rewrite app_length. lia.
Qed.
Lemma bracket_len {A} (sz : A -> nat) (pr : A -> str) o c l :
  Forall (fun a => sz a <= List.length (pr a)) l ->
  S (list_sum (map sz l) + List.length l) <= List.length (bracket o c (map pr l)).
Proof.
  intros H. destruct l as [|x l]; [cbn; lia|].
  inversion H as [|? ? Hx Hl]; subst. pose proof (tails_len sz pr c l Hl) as T.
  cbn [map bracket List.length]. change (list_sum (sz x :: map sz l)) with (sz x + list_sum (map sz l)).
  rewrite app_length. lia.
Qed.

Lemma jsize_le_print : forall j, wfj j = true -> jsize j <= List.length (print j).
Proof.
  apply (json_ind' (fun j => wfj j = true -> jsize j <= List.length (print j))).
  - intros _. cbn. lia.
  - intros [|] _; cbn; lia.
  - intros z _. destruct (dec_shape z) as [c [r [Hd _]]]. cbn [print jsize]. rewrite Hd. cbn. lia.
  - intros l W. destruct (print_head (JFloat l) W) as [c [r [Hp _]]]. rewrite Hp. cbn. lia.
  - intros s _. cbn. lia.
  - intros l HF W. cbn [wfj] in W. cbn [print jsize].
    apply (bracket_len jsize print). rewrite Forall_forall in *. intros x Hin. apply HF; [exact Hin|].
    rewrite forallb_forall in W. apply W. exact Hin.
  - intros kv HF W. cbn [wfj] in W. cbn [print jsize].
    apply (bracket_len (fun p => jsize (snd p)) (fun p => jstring (fst p) ++ KSEP ++ print (snd p))).
    rewrite Forall_forall in *. intros p Hin. rewrite !app_length.
    assert (jsize (snd p) <= List.length (print (snd p))); [|lia].
    apply HF; [exact Hin|]. rewrite forallb_forall in W. apply W. exact Hin.
Qed.

(* json.loads (json.dumps j) = j *)
Theorem loads_print : forall j fuel, wfj j = true -> jsize j <= fuel -> loads fuel (print j) = Some j.
Proof.
  intros j fuel W Hf. unfold loads.
  rewrite <- (app_nil_r (print j)). rewrite skip_ws_print by exact W.
  rewrite (parse_print j fuel [] W eq_refl Hf). reflexivity.
Qed.
Corollary loads_print_len j : wfj j = true -> loads (S (List.length (print j))) (print j) = Some j.
Proof. intros W. apply loads_print; [exact W|]. pose proof (jsize_le_print j W). lia. Qed.

(* white space around the document and any fuel above the size do not matter; the text determines the tree *)
Theorem print_injective j1 j2 : wfj j1 = true -> wfj j2 = true -> print j1 = print j2 -> j1 = j2.
Proof.
  intros W1 W2 E. pose proof (loads_print_len j1 W1) as A. pose proof (loads_print_len j2 W2) as B.
  rewrite E in A. rewrite A in B. injection B as B. exact B.
Qed.

(* ---- the encoder's image can be printed and read --------------------------------------------------------------------------- *)
Definition WJ (o : obj) : Prop := wfo o = true -> wfj (enc o) = true.
Lemma wfj_list l : Forall WJ l -> forallb wfo l = true -> forallb wfj (map enc l) = true.
Proof.
  induction 1 as [|x l Hx Hl IH]; [reflexivity|]. cbn [forallb map]. intros H. apply andb_prop in H. destruct H as [H1 H2].
  rewrite (Hx H1), (IH H2). reflexivity.
Qed.
Lemma wfj_kv kv : Pkv WJ kv -> wfo_kv wfo kv = true -> forallb (fun p => wfj (snd p)) (map encp kv) = true.
Proof.
  unfold Pkv, wfo_kv. induction 1 as [|[k x] l Hx Hl IH]; [reflexivity|]. cbn [forallb map encp snd] in *. intros H.
  apply andb_prop in H. destruct H as [H1 H2]. rewrite (Hx H1), (IH H2). reflexivity.
Qed.
Lemma forallb_filter {A} (f g : A -> bool) l : forallb f l = true -> forallb f (filter g l) = true.
Proof.
  induction l as [|x l IH]; [reflexivity|]. cbn [forallb filter]. intros H. apply andb_prop in H. destruct H as [H1 H2].
  destruct (g x); [cbn [forallb]; rewrite H1, (IH H2); reflexivity|apply IH; exact H2].
Qed.
Lemma wfj_attr c kv : Pkv WJ kv -> wfo_kv wfo kv = true -> wfj (enc_attr_j c (map encp kv)) = true.
Proof.
  intros P W. unfold enc_attr_j. cbn [wfj]. rewrite forallb_app. rewrite forallb_filter by (apply wfj_kv; assumption). reflexivity.
Qed.

Theorem wfj_enc : forall o, WJ o.
Proof.
  apply (obj_ind' WJ); unfold WJ; try (intros; reflexivity).
  - intros l W. exact W.
  - intros l HF W. cbn [wfo] in W. cbn [enc wfj]. apply wfj_list; assumption.
  - intros kv HP W. cbn [wfo] in W. cbn [enc wfj]. apply (wfj_kv kv HP W).
  - intros c kv HP W. cbn [wfo] in W. rewrite enc_attr. apply wfj_attr; assumption.
  - intros a b s d m HP W. cbn [wfo] in W. rewrite enc_loc. cbn [wfj forallb snd app].
    destruct m as [kv|]; cbn [app forallb snd]; [|reflexivity].
    fold (encp). change (map (fun p : str * obj => let (k, v) := p in (k, enc v)) kv) with (map encp kv).
    rewrite (wfj_attr CMeta kv HP W). reflexivity.
  - intros m locs HP HF W. cbn [wfo] in W. apply andb_prop in W. destruct W as [W1 W2].
    rewrite enc_feat. cbn [wfj forallb snd]. rewrite (wfj_attr CMeta m HP W1), (wfj_list locs HF W2). reflexivity.
  - intros data HF W. cbn [wfo] in W. rewrite enc_fts. cbn [wfj forallb snd]. rewrite (wfj_list data HF W). reflexivity.
  - intros d m t HP W. cbn [wfo] in W. rewrite enc_seq. cbn [wfj forallb snd]. rewrite (wfj_attr CMeta m HP W). reflexivity.
  - intros data m HF HP W. cbn [wfo] in W. apply andb_prop in W. destruct W as [W1 W2].
    rewrite enc_basket. cbn [wfj forallb snd]. rewrite (wfj_list data HF W1), (wfj_attr CMeta m HP W2). reflexivity.
Qed.

Lemma wfj_write b : wfo b = true -> wfj (write_sjson b) = true.
Proof.
  intros W. pose proof (wfj_enc b W) as E. unfold write_sjson. destruct (enc b); exact E.
Qed.

(* ---- byte-level round trip ---------------------------------------------------------------------------------------------------- *)
Theorem read_write_bytes_tree b : wfo b = true -> read_bytes (write_bytes b) = read_sjson (write_sjson b).
Proof. intros W. unfold read_bytes, write_bytes. rewrite loads_print_len by (apply wfj_write; exact W). reflexivity. Qed.

Theorem bytes_roundtrip b : wf_C14 b = true -> wfo b = true -> read_bytes (write_bytes b) = Ok (strip b).
Proof. intros H W. rewrite read_write_bytes_tree by exact W. apply roundtrip_basket. exact H. Qed.

Theorem bytes_write_read_public b : wf_C14 b = true -> wfo b = true ->
  exists b', write_read_bytes b = Ok b' /\ pub b' = pub b.
Proof.
  intros H W. unfold write_read_bytes. rewrite read_write_bytes_tree by exact W. exact (write_read_public b H).
Qed.

(* ---- Python values that are not JSON: tuples and keys that are not strings ---------------------------------------------- *)
Section pyv_induction.
  Variable P : pyv -> Prop.
  Hypothesis H0 : P PNone.
  Hypothesis H1 : forall b, P (PBool b).
  Hypothesis H2 : forall z, P (PInt z).
  Hypothesis H3 : forall l, P (PFloat l).
  Hypothesis H4 : forall s, P (PStr s).
  Hypothesis H5 : forall l, Forall P l -> P (PList l).
  Hypothesis H6 : forall l, Forall P l -> P (PTuple l).
  Hypothesis H7 : forall kv, Forall (fun p => P (snd p)) kv -> P (PDict kv).
  Fixpoint pyv_ind' (v : pyv) : P v :=
    let fl := fix fl (l : list pyv) : Forall P l :=
                match l with [] => Forall_nil _ | x :: r => Forall_cons x (pyv_ind' x) (fl r) end in
    match v with
    | PNone => H0 | PBool b => H1 b | PInt z => H2 z | PFloat l => H3 l | PStr s => H4 s
    | PList l => H5 l (fl l)
    | PTuple l => H6 l (fl l)
    | PDict kv => H7 kv ((fix fkv (kv : list (pykey * pyv)) : Forall (fun p => P (snd p)) kv :=
                            match kv with [] => Forall_nil _ | (k, x) :: r => Forall_cons (k, x) (pyv_ind' x) (fkv r) end) kv)
    end.
End pyv_induction.

Definition NB (v : pyv) : Prop := forall j, native v = Some j -> (back j = v <-> json_native v = true).

Lemma nb_list l : Forall NB l -> forall js, mapO native l = Some js -> (map back js = l <-> forallb json_native l = true).
Proof.
  induction 1 as [|x l Hx Hl IH]; intros js E.
  - cbn in E. injection E as <-. split; reflexivity.
  - cbn [mapO] in E. destruct (native x) as [a|] eqn:Ea; [|discriminate]. fold (mapO native l) in E.
    destruct (mapO native l) as [b|] eqn:Eb; [|discriminate]. injection E as <-.
    cbn [map forallb]. specialize (Hx a Ea). specialize (IH b eq_refl). split.
    + intros H. injection H as Ha Hb. rewrite (proj1 Hx Ha), (proj1 IH Hb). reflexivity.
    + intros H. apply andb_prop in H. destruct H as [Ha Hb]. rewrite (proj2 Hx Ha), (proj2 IH Hb). reflexivity.
Qed.

Definition natp (p : pykey * pyv) : option (str * json) :=
  match key_text (fst p), native (snd p) with Some a, Some b => Some (a, b) | _, _ => None end.
Definition backp (p : str * json) : pykey * pyv := (KStr (fst p), back (snd p)).
Lemma nb_dict kv : Forall (fun p => NB (snd p)) kv -> forall js, mapO natp kv = Some js ->
  (map backp js = kv <-> forallb (fun p => is_kstr (fst p) && json_native (snd p)) kv = true).
Proof.
  induction 1 as [|[k x] l Hx Hl IH]; intros js E.
  - cbn in E. injection E as <-. split; reflexivity.
  - cbn [mapO] in E. fold (mapO natp l) in E. unfold natp at 1 in E. cbn [fst snd] in E, Hx.
    destruct (key_text k) as [t|] eqn:Ek; [|discriminate].
    destruct (native x) as [a|] eqn:Ea; [|discriminate].
    destruct (mapO natp l) as [b|] eqn:Eb; [|discriminate]. injection E as <-.
    cbn [map forallb backp fst snd]. specialize (Hx a Ea). specialize (IH b eq_refl). split.
    + intros H. injection H as Hk Ha Hb. subst k. rewrite (proj1 Hx Ha), (proj1 IH Hb). reflexivity.
    + intros H. apply andb_prop in H. destruct H as [H Hb]. apply andb_prop in H. destruct H as [Hk Ha].
      destruct k; try discriminate Hk. cbn in Ek. injection Ek as ->.
      f_equal; [unfold backp; cbn [fst snd]; f_equal; apply Hx; exact Ha|apply IH; exact Hb].
Qed.

(* json.loads(json.dumps(v)) == v exactly for the values without tuples whose keys are all strings *)
Theorem native_back_iff : forall v, NB v.
Proof.
  apply (pyv_ind' NB); unfold NB.
  - intros j E. injection E as <-. split; reflexivity.
  - intros b j E. injection E as <-. split; reflexivity.
  - intros z j E. injection E as <-. split; reflexivity.
  - intros l j E. injection E as <-. split; reflexivity.
  - intros s j E. injection E as <-. split; reflexivity.
  - intros l HF j E. cbn [native] in E. destruct (mapO native l) as [js|] eqn:Ej; [|discriminate]. injection E as <-.
    cbn [back json_native]. pose proof (nb_list l HF js Ej) as Q. split.
    + intros H. injection H as H. apply Q. exact H.
    + intros H. f_equal. apply Q. exact H.
  - intros l HF j E. cbn [native] in E. destruct (mapO native l) as [js|] eqn:Ej; [|discriminate]. injection E as <-.
    cbn [back json_native]. split; discriminate.
  - intros kv HF j E. cbn [native] in E. fold natp in E. change (fun p : pykey * pyv => match key_text (fst p), native (snd p) with
        | Some a, Some b => Some (a, b) | _, _ => None end) with natp in E.
    destruct (mapO natp kv) as [js|] eqn:Ej; [|discriminate]. injection E as <-.
    cbn [back json_native]. change (fun p : str * json => (KStr (fst p), back (snd p))) with backp.
    pose proof (nb_dict kv HF js Ej) as Q. split.
    + intros H. injection H as H. apply Q. exact H.
    + intros H. f_equal. apply Q. exact H.
Qed.

(* a key that is not a str always comes back as a different key (a str), and distinct keys can collide *)
Lemma nonstr_key_changed k t : key_text k = Some t -> is_kstr k = false -> KStr t <> k.
Proof. intros _ H E. subst k. discriminate H. Qed.
Lemma key_collision : key_text (KInt 1) = key_text (KStr (bs "1"%bs)) /\ key_text (KBool true) = key_text (KStr (bs "true"%bs))
  /\ key_text KNone = key_text (KStr (bs "null"%bs)).
Proof. repeat split; reflexivity. Qed.

(* ---- witnesses ----------------------------------------------------------------------------------------------------------------- *)
(* every kind of value: True vs 1 vs 1.0, NaN / Infinity / -Infinity, -0.0, an int beyond 2^64, escapes, empty containers, nesting *)
Definition w_json : json :=
  JObj [(bs "a""b\"%bs, JArr [JBool true; JInt 1; JFloat (bs "1.0"%bs); JNull; JInt (-340282366920938463463374607431768211457);
                               JFloat (bs "nan"%bs); JFloat (bs "inf"%bs); JFloat (bs "-inf"%bs); JFloat (bs "-0.0"%bs);
                               JFloat (bs "1e-07"%bs); JFloat (bs "1.7976931348623157e+308"%bs)]);
        (bs ""%bs, JObj []); (bs "k"%bs, JArr []); (bs "s"%bs, JStr [x00; x1f; x7f; xe9; x0a; x22; x5c; x2f; x41]);
        (bs "n"%bs, JArr [JArr [JArr []]; JObj [(bs "x"%bs, JObj [])]])].
Lemma w_json_ok :
  wfj w_json = true /\ loads (jsize w_json) (print w_json) = Some w_json /\
  print (JArr [JBool true; JInt 1; JFloat (bs "1.0"%bs); JFloat (bs "nan"%bs); JFloat (bs "-inf"%bs); JStr [xe9; x0a]])
    = bs "[true, 1, 1.0, NaN, -Infinity, ""\u00e9\n""]"%bs /\
  loads 9 (bs " [ 1 ,2.5E+3 , -0,""\u00E9\/"" ]  "%bs) = Some (JArr [JInt 1; JFloat (bs "2.5E+3"%bs); JInt 0; JStr [xe9; x2f]]) /\
  loads 9 (bs "[01]"%bs) = None /\ loads 9 (bs "[1.]"%bs) = None /\ loads 9 (bs "1 2"%bs) = None /\ loads 9 (bs "[+1]"%bs) = None.
Proof. vm_compute. repeat split; reflexivity. Qed.

Definition w_pyv : pyv :=
  PDict [(KStr (bs "t"%bs), PTuple [PInt 1; PInt 2]); (KInt 1, PStr (bs "a"%bs)); (KBool true, PNone); (KNone, PList []);
         (KFloat (bs "1.5"%bs), PBool false)].
Lemma w_pyv_ok :
  json_native w_pyv = false /\
  option_map print (native w_pyv) = Some (bs "{""t"": [1, 2], ""1"": ""a"", ""true"": null, ""null"": [], ""1.5"": false}"%bs) /\
  option_map back (native w_pyv) =
    Some (PDict [(KStr (bs "t"%bs), PList [PInt 1; PInt 2]); (KStr (bs "1"%bs), PStr (bs "a"%bs)); (KStr (bs "true"%bs), PNone);
                 (KStr (bs "null"%bs), PList []); (KStr (bs "1.5"%bs), PBool false)]) /\
  native (PDict [(KOther, PNone)]) = None.
Proof. vm_compute. repeat split; reflexivity. Qed.

Lemma w_bytes_ok : wfo w_basket = true /\ read_bytes (write_bytes w_basket) = Ok (strip w_basket).
Proof. vm_compute. split; reflexivity. Qed.
(* ---- the sniffer accepts the written BYTES (no trusted text head any more) --------------------------------------------------- *)
Lemma esc_plain c : plain_char c = true -> esc_char c = [c].
Proof. destruct c; intros H; try discriminate H; reflexivity. Qed.
Lemma flat_plain s : forallb plain_char s = true -> flat_map esc_char s = s.
Proof.
  induction s as [|c s IH]; [reflexivity|]. cbn [forallb flat_map]. intros H. apply andb_prop in H. destruct H as [H1 H2].
  rewrite (esc_plain c H1), (IH H2). reflexivity.
Qed.
Lemma print_head_is_text_head k v kv : forallb plain_char k = true -> forallb plain_char v = true ->
  exists rest, print (JObj ((k, JStr v) :: kv)) = text_head (JObj ((k, JStr v) :: kv)) ++ rest.
Proof.
  intros Hk Hv. cbn [text_head]. rewrite Hk, Hv. cbn [andb print map bracket fst snd].
  unfold jstring. rewrite (flat_plain k Hk), (flat_plain v Hv).
  eexists. cbn [app]. rewrite <- !app_assoc. cbn [app]. unfold KSEP. cbn [bs bytes_of_bstr app].
  rewrite <- !app_assoc. cbn [app]. reflexivity.
Qed.
Theorem written_bytes_detected : forall b, is_basket b = true -> is_sjson (write_bytes b) = true.
Proof.
  intros b H. destruct (written_text_is_detected b [] H) as [[kv E] [NE _]]. unfold write_bytes. rewrite E in NE. rewrite E.
  assert (P : forallb plain_char K_fmtcomment = true /\ forallb plain_char SJSON_COMMENT = true).
  { cbn [text_head] in NE. destruct (forallb plain_char K_fmtcomment); [|cbn in NE; congruence].
    destruct (forallb plain_char SJSON_COMMENT); [split; reflexivity|cbn in NE; congruence]. }
  destruct P as [Pk Pv]. destruct (print_head_is_text_head K_fmtcomment SJSON_COMMENT kv Pk Pv) as [rest R].
  destruct (written_text_is_detected b rest H) as [_ [_ S]].
  match goal with |- is_sjson ?t = true => assert (X : t = text_head (write_sjson b) ++ rest) by (rewrite E; exact R); rewrite X end.
  exact S.
Qed.
(* ---- white space around the document does not matter ------------------------------------------------------------------------ *)
Lemma skip_ws_all pre s : forallb is_ws pre = true -> skip_ws (pre ++ s) = skip_ws s.
Proof.
  induction pre as [|c r IH]; [reflexivity|]. cbn [forallb app skip_ws]. intros H. apply andb_prop in H. destruct H as [H1 H2].
  rewrite H1. apply IH. exact H2.
Qed.
Lemma ws_stop post : forallb is_ws post = true -> stop_ok post = true.
Proof.
  destruct post as [|c r]; [reflexivity|]. cbn [forallb]. intros H. apply andb_prop in H. destruct H as [H _].
  unfold stop_ok, stopb. destruct c; try discriminate H; reflexivity.
Qed.
Theorem loads_padded : forall j fuel pre post, wfj j = true -> jsize j <= fuel ->
  forallb is_ws pre = true -> forallb is_ws post = true -> loads fuel (pre ++ print j ++ post) = Some j.
Proof.
  intros j fuel pre post W Hf Hpre Hpost. unfold loads. rewrite (skip_ws_all pre _ Hpre). rewrite skip_ws_print by exact W.
  rewrite (parse_print j fuel post W (ws_stop post Hpost) Hf).
  rewrite <- (app_nil_r post). rewrite (skip_ws_all post [] Hpost). reflexivity.
Qed.
