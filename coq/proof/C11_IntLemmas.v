(* C11: int() of a canonical decimal rendering returns the number (the "converted to its declared type" clause for the
   coordinate columns) *)
From Coq Require Import List ZArith NArith Bool Lia.
From Coq.Strings Require Import Byte.
From Coq Require Decimal DecimalZ.
Import ListNotations.
From SV Require Import Text G_tab C11_Model C11_Lemmas C11_TextLemmas C11_FileLemmas.
Local Open Scope Z_scope.

(* Horner value of a digit list *)
Fixpoint uval (u : Decimal.uint) (acc : Z) : Z :=
  match u with
  | Decimal.Nil => acc
  | Decimal.D0 l => uval l (acc * 10 + 0) | Decimal.D1 l => uval l (acc * 10 + 1)
  | Decimal.D2 l => uval l (acc * 10 + 2) | Decimal.D3 l => uval l (acc * 10 + 3)
  | Decimal.D4 l => uval l (acc * 10 + 4) | Decimal.D5 l => uval l (acc * 10 + 5)
  | Decimal.D6 l => uval l (acc * 10 + 6) | Decimal.D7 l => uval l (acc * 10 + 7)
  | Decimal.D8 l => uval l (acc * 10 + 8) | Decimal.D9 l => uval l (acc * 10 + 9)
  end.
Lemma digits_acc_uint u : forall acc, digits_acc (uint_bytes u) acc = Some (uval u acc).
Proof. induction u; intros acc; cbn [uint_bytes digits_acc digit_val uval]; auto. Qed.
Lemma of_uint_acc_val u : forall acc, Z.pos (Pos.of_uint_acc u acc) = uval u (Z.pos acc).
Proof.
  induction u; intros acc; cbn [Pos.of_uint_acc uval]; try reflexivity; rewrite IHu; f_equal; lia.
Qed.
Lemma of_uint_val u : Z.of_N (Pos.of_uint u) = uval u 0.
Proof.
  induction u; cbn [Pos.of_uint uval]; try reflexivity; try exact IHu;
    cbn [Z.of_N]; rewrite of_uint_acc_val; reflexivity.
Qed.
Lemma nat_of_dec_uint u : u <> Decimal.Nil -> nat_of_dec (uint_bytes u) = Some (Z.of_uint u).
Proof.
  intros NE. unfold Z.of_uint. rewrite of_uint_val. rewrite <- digits_acc_uint.
  destruct u; [congruence|..]; reflexivity.
Qed.
Lemma to_int_nonnil z : Z.to_int z <> Decimal.Pos Decimal.Nil /\ Z.to_int z <> Decimal.Neg Decimal.Nil.
Proof.
  split; intros E; pose proof (DecimalZ.of_to z) as R; rewrite E in R; cbn in R; subst z; discriminate.
Qed.
Lemma Z_of_dec_dec_of_Z z : Z_of_dec (dec_of_Z z) = Some z.
Proof.
  unfold dec_of_Z. pose proof (DecimalZ.of_to z) as R. destruct (to_int_nonnil z) as [N1 N2].
  destruct (Z.to_int z) as [u|u]; cbn [Z.of_int] in R.
  - assert (NE : u <> Decimal.Nil) by congruence.
    replace (Z_of_dec (uint_bytes u)) with (nat_of_dec (uint_bytes u)) by (destruct u; [congruence|..]; reflexivity).
    rewrite nat_of_dec_uint by exact NE. rewrite R. reflexivity.
  - assert (NE : u <> Decimal.Nil) by congruence.
    cbn [Z_of_dec]. rewrite nat_of_dec_uint by exact NE. cbn [option_map]. rewrite R. reflexivity.
Qed.

Lemma strip_nospace s : forallb (fun c => negb (is_space c)) s = true -> strip_ws s = s.
Proof.
  intros F. destruct s as [|c r]; [reflexivity|].
  rewrite <- (app_nil_r (c :: r)) at 1. change ((c :: r) ++ []) with ([] ++ (c :: r) ++ []).
  apply strip_pad; [reflexivity|reflexivity|]. unfold edge_ok. apply andb_true_intro. split.
  - cbn in F. apply andb_prop in F. tauto.
  - assert (G : forallb (fun c => negb (is_space c)) (rev (c :: r)) = true).
    { apply forallb_forall. intros x Hx. apply in_rev in Hx. rewrite forallb_forall in F. exact (F x Hx). }
    destruct (rev (c :: r)) as [|y q] eqn:E.
    + apply (f_equal (@length byte)) in E. rewrite rev_length in E. discriminate.
    + cbn in G. apply andb_prop in G. tauto.
Qed.
Lemma uint_bytes_nospace u : forallb (fun c => negb (is_space c)) (uint_bytes u) = true.
Proof. induction u; cbn [uint_bytes forallb]; auto. Qed.
Lemma dec_of_Z_nospace z : forallb (fun c => negb (is_space c)) (dec_of_Z z) = true.
Proof. unfold dec_of_Z. destruct (Z.to_int z); cbn [forallb]; rewrite uint_bytes_nospace; reflexivity. Qed.

(* ---- the blanks int() / float() skip ---- *)
Lemma space_num_space c : is_space_num c = true -> is_space c = true.
Proof. destruct c; cbn; congruence. Qed.
Lemma lstrip_num_spaces a x : all_space_num a = true -> lstrip_num (a ++ x) = lstrip_num x.
Proof.
  induction a as [|c a IH]; cbn; [reflexivity|]. intros H. apply andb_prop in H. destruct H as [H1 H2].
  rewrite H1. apply IH. exact H2.
Qed.
Lemma all_space_num_rev a : all_space_num (rev a) = all_space_num a.
Proof.
  unfold all_space_num. induction a as [|c a IH]; cbn; [reflexivity|]. rewrite forallb_app, IH. cbn. rewrite andb_true_r. apply andb_comm.
Qed.
Definition nonsp (s : str) : bool := forallb (fun c => negb (is_space_num c)) s.
Lemma lstrip_num_nonsp s t : nonsp s = true -> s <> [] -> lstrip_num (s ++ t) = s ++ t.
Proof. destruct s as [|c r]; [congruence|]. cbn. intros H _. apply andb_prop in H. destruct H as [H _]. destruct (is_space_num c); [discriminate|reflexivity]. Qed.
Lemma nonsp_rev s : nonsp (rev s) = nonsp s.
Proof. unfold nonsp. induction s as [|c a IH]; cbn; [reflexivity|]. rewrite forallb_app, IH. cbn. rewrite andb_true_r. apply andb_comm. Qed.
(* blanks around a blank-free, non-empty text are stripped *)
Lemma strip_num_pad a l b : all_space_num a = true -> all_space_num b = true -> nonsp l = true -> l <> [] ->
  strip_num (a ++ l ++ b) = l.
Proof.
  intros A B N NE. unfold strip_num. rewrite lstrip_num_spaces by exact A. rewrite lstrip_num_nonsp by assumption.
  rewrite rev_app_distr. rewrite lstrip_num_spaces by (rewrite all_space_num_rev; exact B).
  rewrite <- (app_nil_r (rev l)). rewrite lstrip_num_nonsp; [rewrite app_nil_r; apply rev_involutive|rewrite nonsp_rev; exact N|].
  intros E. apply (f_equal (@rev byte)) in E. rewrite rev_involutive in E. cbn in E. congruence.
Qed.
Lemma strip_num_nonsp l : nonsp l = true -> strip_num l = l.
Proof.
  intros N. destruct l as [|c r] eqn:E; [reflexivity|]. rewrite <- E in *.
  rewrite <- (app_nil_r l) at 1. change (l ++ []) with ([] ++ l ++ []). apply strip_num_pad; try reflexivity; [exact N|congruence].
Qed.
Lemma nospace_nonsp s : forallb (fun c => negb (is_space c)) s = true -> nonsp s = true.
Proof.
  intros F. unfold nonsp. apply forallb_forall. intros c I. rewrite forallb_forall in F. specialize (F c I).
  destruct (is_space_num c) eqn:E; [|reflexivity]. apply space_num_space in E. rewrite E in F. discriminate.
Qed.

(* int(str(z)) = z, and hence the typed conversion of a coordinate column *)
Lemma py_int_dec z : py_int (dec_of_Z z) = Some z.
Proof. unfold py_int. rewrite strip_num_nonsp by (apply nospace_nonsp, dec_of_Z_nospace). apply Z_of_dec_dec_of_Z. Qed.
Lemma conv_int_dec z : conv TInt (dec_of_Z z) = AInt z.
Proof. unfold conv. rewrite py_int_dec. reflexivity. Qed.
(* blanks around the number are accepted, as by int() *)
Lemma py_int_padded a b z : all_space_num a = true -> all_space_num b = true -> py_int (a ++ dec_of_Z z ++ b) = Some z.
Proof.
  intros A B. unfold py_int. rewrite strip_num_pad; [apply Z_of_dec_dec_of_Z|exact A|exact B|apply nospace_nonsp, dec_of_Z_nospace|].
  intros E. pose proof (Z_of_dec_dec_of_Z z) as X. rewrite E in X. discriminate.
Qed.
