(* C11 round 7: every column is converted with its declared type (declared table written from the manuals, compared with the
   regenerated header table), _CONVERTH is typed consistently across the dialects, the common metadata is exactly the
   documented projection of the format metadata, a row holding an integer is never taken for the MMseqs2 name row, and the
   end-to-end theorem for the four Infernal tables without table hypotheses. *)
From Coq Require Import List ZArith NArith Bool Lia.
From Coq.Strings Require Import Byte.
Import ListNotations.
From SV Require Import Text G_tab C11_Model C11_Lemmas C11_TextLemmas C11_FileLemmas C11_IntLemmas C11_SelectLemmas.

(* ---------------- declared types ---------------- *)
Lemma declared_ok_all d : declared_ok d = true.
Proof. destruct d; vm_compute; reflexivity. Qed.
Lemma converth_typed_all : converth_typed_ok = true.
Proof. vm_compute. reflexivity. Qed.

Lemma declared_type_of d h : In h (header_of d) -> assoc (hname h) (declared_types d) = Some (htype h).
Proof.
  intros I. pose proof (declared_ok_all d) as D. unfold declared_ok in D.
  apply andb_prop in D. destruct D as [D _]. apply andb_prop in D. destruct D as [D _].
  rewrite forallb_forall in D. specialize (D _ I).
  destruct (assoc (hname h) (declared_types d)) as [t|]; cbn in D; [|discriminate].
  apply coltype_eqb_eq in D. congruence.
Qed.

Lemma columns_typed d ftype hs toks f :
  nodup_str (map hname hs) = true -> (forall h, In h hs -> In h (header_of d)) -> row_feature d ftype hs toks = Ok f ->
  forall i h v, nth_error hs i = Some h -> nth_error toks i = Some v ->
  exists t, assoc (hname h) (declared_types d) = Some t /\ assoc (hname h) (f_fmt f) = Some (conv t v).
Proof.
  intros ND IN RF i h v Hh Hv. destruct (row_to_feature d ftype hs toks f ND RF) as (_ & T & _).
  exists (htype h). split; [|exact (T i h v Hh Hv)].
  apply declared_type_of. apply IN. eapply nth_error_In; eassumption.
Qed.

(* headers obtained from names (outfmt=, name row, defaults) or long names ('# Fields:') are table columns *)
Lemma headers_from_in by_long d names hs : headers_from by_long d names = Ok hs -> forall h, In h hs -> In h (header_of d).
Proof. intros H. exact (proj2 (headers_from_spec by_long d names hs H)). Qed.

(* what conv means for each declared type *)
Lemma conv_meaning v :
  conv TStr v = AStr v /\
  (forall z, py_int v = Some z -> conv TInt v = AInt z) /\ (py_int v = None -> conv TInt v = AStr v) /\
  (forall x, py_float v = Some x -> conv TFloat v = AFlt x) /\ (py_float v = None -> conv TFloat v = AStr v).
Proof. unfold conv. repeat split; intros; try rewrite H; reflexivity. Qed.

(* ---------------- common metadata = documented projection ---------------- *)
Lemma mem_keys_app {V} m (a b : list (str * V)) : mem m (keys (a ++ b)) = mem m (keys a) || mem m (keys b).
Proof. unfold keys. rewrite map_app. apply mem_app. Qed.

Lemma copy_attrs_exact d a : forall cp cm common,
  nodup_str (map snd cp) = true -> forallb (fun p => negb (mem (snd p) (keys cm))) cp = true ->
  copy_attrs (converth_of d) cp a cm = Ok common ->
  common = cm ++ flat_map (fun bm => match assoc (ccol d (fst bm)) a with Some v => [(snd bm, v)] | None => [] end) cp.
Proof.
  induction cp as [|[b t] r IH]; intros cm common ND F H; cbn [copy_attrs flat_map fst snd] in *.
  - inversion H. rewrite app_nil_r. reflexivity.
  - cbn [map nodup_str forallb snd] in ND, F. apply andb_prop in ND. destruct ND as [N1 N2]. apply andb_prop in F. destruct F as [F1 F2].
    unfold ccol at 1. destruct (cget (converth_of d) b) as [col|]; [|discriminate].
    destruct (assoc col a) as [v|].
    + assert (FR : mem t (keys cm) = false) by (destruct (mem t (keys cm)); [discriminate|reflexivity]).
      rewrite dict_set_fresh in H by exact FR.
      assert (F3 : forallb (fun p : str * str => negb (mem (snd p) (keys (cm ++ [(t, v)])))) r = true);
        [|rewrite (IH _ _ N2 F3 H); rewrite <- app_assoc; reflexivity].
      apply forallb_forall. intros [b' t'] I. cbn [snd]. rewrite forallb_forall in F2. specialize (F2 _ I). cbn [snd] in F2.
      rewrite mem_keys_app. destruct (mem t' (keys cm)); [discriminate|]. cbn [orb keys map fst mem existsb].
      rewrite orb_false_r. destruct (str_eqb t' t) eqn:E; [|reflexivity]. apply str_eqb_eq in E. subst t'.
      exfalso. assert (M : mem t (map snd r) = true).
      { apply mem_In. change t with (snd (b', t)). apply in_map. exact I. }
      rewrite M in N1. discriminate.
    + cbn [app]. exact (IH _ _ N2 F2 H).
Qed.

Lemma copyattrs_fresh (ty : option aval) :
  forallb (fun p => negb (mem (snd p) (keys (match ty with Some v => [(bs "type"%bs, v)] | None => [] end)))) copyattrs = true.
Proof. destruct ty; vm_compute; reflexivity. Qed.

Lemma common_metadata d ftype a f : feature_of_attrs d ftype a = Ok f ->
  f_common f = type_entry ftype a ++ common_projection d (f_fmt f).
Proof.
  unfold feature_of_attrs.
  destruct (cattr d a _) as [v1|]; [|discriminate]. destruct (cattr d a _) as [v2|]; [|discriminate].
  destruct (cattr d a _) as [v3|]; [|discriminate]. destruct (cattr d a _) as [v4|]; [|discriminate].
  destruct (as_int v1); [|discriminate]. destruct (as_int v2); [|discriminate].
  destruct (as_int v3); [|discriminate]. destruct (as_int v4); [|discriminate].
  destruct (orient _ _ _ _ _) as [[[lo hi] st]|]; [|discriminate].
  destruct (complete_ident a) as [a'|] eqn:CI; [|discriminate].
  destruct (copy_attrs _ _ _ _) as [common|] eqn:CA; [|discriminate].
  intros H; inversion H; subst f; cbn [f_fmt f_common]. clear H.
  apply (copy_attrs_exact d a' copyattrs _ _ copyattrs_nodup) in CA; [|apply copyattrs_fresh].
  rewrite CA. unfold common_projection, type_entry. destruct ftype as [k|]; [|reflexivity].
  destruct (assoc k a); reflexivity.
Qed.

Lemma common_metadata_row d ftype hs toks f : row_feature d ftype hs toks = Ok f ->
  f_common f = type_entry ftype (row_attrs hs toks) ++ common_projection d (f_fmt f).
Proof.
  unfold row_feature. destruct (negb _); [discriminate|]. apply common_metadata.
Qed.

Lemma copyattrs_documented :
  same_pairs (map (fun p => (snd p, fst p)) copyattrs) documented_common = true /\
  same_pairs documented_common (map (fun p => (snd p, fst p)) copyattrs) = true.
Proof. split; vm_compute; reflexivity. Qed.

(* ---------------- the MMseqs2 name row is never a hit row ---------------- *)
Lemma names_never_int : forallb (fun n => match py_int n with None => true | Some _ => false end) MMSEQS_HEADER_NAMES = true.
Proof. vm_compute. reflexivity. Qed.

Lemma names_row_never_hit toks t : In t toks -> py_int t <> None -> subset toks MMSEQS_HEADER_NAMES = false.
Proof.
  intros I P. destruct (subset toks MMSEQS_HEADER_NAMES) eqn:S; [|reflexivity]. exfalso. apply P.
  unfold subset in S. rewrite forallb_forall in S. specialize (S _ I). apply mem_In in S.
  pose proof names_never_int as N. rewrite forallb_forall in N. specialize (N _ S).
  destruct (py_int t); [discriminate|reflexivity].
Qed.

Lemma int_row_no_names_row d sep line t : In t (line_toks sep None line) -> py_int t <> None -> names_row d sep line = false.
Proof.
  intros I P. unfold names_row. destruct d; try reflexivity. unfold line_toks in I.
  rewrite (names_row_never_hit _ t I P). apply andb_false_r.
Qed.

Lemma hit_row_has_coordinate d free hs h : sel_ok d hs = true -> In (dec_of_Z (h_sstart h)) (hit_row d free hs h).
Proof.
  intros S. assert (I : In (bs "sstart"%bs, TInt) required_cols) by inreq.
  destruct (sel_col d hs _ _ S I) as (_ & hd & Ih & En & _).
  unfold hit_row. apply in_map_iff. exists hd. split; [|exact Ih].
  unfold hit_tok. rewrite En. destruct (tok_lookups d h) as (-> & _). reflexivity.
Qed.

Lemma hit_row_not_names d free hs h : sel_ok d hs = true -> mm_header_toks d (hit_row d free hs h) = false.
Proof.
  intros S. unfold mm_header_toks. destruct d; try reflexivity.
  rewrite (names_row_never_hit _ _ (hit_row_has_coordinate Mmseqs free hs h S)); [apply andb_false_r|].
  rewrite py_int_dec. discriminate.
Qed.

(* ---------------- Infernal fmt 1 / 2 / 3 / 2old end to end, no table hypotheses ---------------- *)
Definition infernal_hs (n : nat) : list hdr := match infernal_headers n with Ok hs => hs | Err _ => [] end.

Lemma read_infernal_fmt_hits sep outfmt ftype n ruler pre post rows free hits :
  In n [18; 29; 20; 27]%nat -> ruler_ok n ruler = true ->
  forallb (skip_line Infernal true true) pre = true -> forallb (skip_line Infernal true false) post = true ->
  forallb (wsrow_ok n) rows = true -> forallb has_direction hits = true ->
  map wsrow_toks rows = sel_rows Infernal free (infernal_hs n) hits ->
  exists fs, snd (read_content Infernal sep outfmt ftype false (unlines (pre ++ [ruler] ++ map wsrow_line rows ++ post))) = Ok fs /\
             map loc_meta fs = map spec_loc_meta hits.
Proof.
  intros IN RO P Q R D T.
  destruct selection_tables as (ST & _). rewrite forallb_forall in ST. specialize (ST _ IN).
  unfold infernal_hs in T. destruct (infernal_headers n) as [hs|] eqn:IH; [|discriminate].
  apply andb_prop in ST. destruct ST as [S NP].
  apply (read_infernal_hits sep outfmt ftype n hs ruler pre post rows free hits); try assumption.
  unfold hits_ok. apply forallb_forall. intros h Ih. rewrite forallb_forall in D. specialize (D _ Ih).
  unfold hit_sel_ok. rewrite D. cbn [orb andb].
  apply ident_ok_no_pident.
  - unfold sel_ok in S. apply andb_prop in S. destruct S as [S _]. apply andb_prop in S. tauto.
  - unfold hit_row. apply map_length.
  - destruct (mem (bs "pident"%bs) (map hname hs)); [discriminate|reflexivity].
Qed.
