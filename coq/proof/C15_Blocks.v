(* C15 proofs, part 5: an interleaved (multi-block) file reads to the same result as the single-block form. *)
From Coq Require Import List ZArith NArith Bool Arith Lia.
From Coq.Strings Require Import Byte.
Import ListNotations.
From SV Require Import Text G_flags C15_Model C15_Lemmas C15_Read C15_Fold.

(* ------------------------------------------------------------------ chunks *)
Lemma firstn_skipn_add {A} a b : forall v : list A, firstn a v ++ firstn b (skipn a v) = firstn (a + b) v.
Proof. induction a as [|a IH]; intros [|x v]; simpl; try reflexivity; [destruct b; reflexivity|]. rewrite IH. reflexivity. Qed.
Lemma chunks_concat bw (v : str) n : concat (map (fun b => chunk bw b v) (seq 0 n)) = firstn (n * bw) v.
Proof.
  induction n as [|n IH]; [reflexivity|]. rewrite seq_S, map_app, concat_app, IH. simpl. rewrite app_nil_r.
  unfold chunk. rewrite firstn_skipn_add. f_equal. lia.
Qed.
Lemma nblocks_cover bw w : 1 <= bw -> w <= nblocks bw w * bw.
Proof.
  intros Hb. unfold nblocks. pose proof (Nat.div_mod (w + bw - 1) bw ltac:(lia)) as E.
  pose proof (Nat.mod_upper_bound (w + bw - 1) bw ltac:(lia)) as U.
  generalize dependent ((w + bw - 1) / bw). intros q E. generalize dependent ((w + bw - 1) mod bw). intros r E U. nia.
Qed.
Lemma nblocks_pos bw w : 1 <= bw -> 1 <= w -> 1 <= nblocks bw w.
Proof. intros Hb Hw. pose proof (nblocks_cover bw w Hb). destruct (nblocks bw w); simpl in *; lia. Qed.
Lemma nblocks_last bw w b : 1 <= bw -> 1 <= w -> b < nblocks bw w -> b * bw < w.
Proof.
  intros Hb Hw. unfold nblocks. pose proof (Nat.div_mod (w + bw - 1) bw ltac:(lia)) as E.
  pose proof (Nat.mod_upper_bound (w + bw - 1) bw ltac:(lia)) as U.
  generalize dependent ((w + bw - 1) / bw). intros q E. generalize dependent ((w + bw - 1) mod bw). intros r E U Hq. nia.
Qed.
Lemma chunks_all bw (v : str) : 1 <= bw -> concat (map (fun b => chunk bw b v) (seq 0 (nblocks bw (length v)))) = v.
Proof. intros Hb. rewrite chunks_concat. apply firstn_all2. apply nblocks_cover. exact Hb. Qed.

Lemma forallb_firstn {A} (p : A -> bool) n : forall l, forallb p l = true -> forallb p (firstn n l) = true.
Proof. induction n as [|n IH]; intros [|x l]; simpl; try reflexivity. intros H. apply andb_prop in H. destruct H as [H1 H2]. rewrite H1, (IH l H2). reflexivity. Qed.
Lemma forallb_skipn {A} (p : A -> bool) n : forall l, forallb p l = true -> forallb p (skipn n l) = true.
Proof. induction n as [|n IH]; intros [|x l]; simpl; try reflexivity; [intros H; exact H|]. intros H. apply andb_prop in H. destruct H as [H1 H2]. apply IH. exact H2. Qed.
Lemma graph_valk v : v <> [] -> forallb is_graph v = true -> valk v.
Proof.
  intros Hne Hg. split.
  - destruct v as [|c v]; [congruence|]. simpl in *. apply andb_prop in Hg. destruct Hg as [H1 _]. rewrite (graph_not_ws c H1). reflexivity.
  - destruct (exists_last Hne) as (v' & x & ->). rewrite rev_app_distr. simpl. rewrite forallb_app in Hg.
    apply andb_prop in Hg. destruct Hg as [_ H2]. simpl in H2. apply andb_prop in H2. destruct H2 as [H2 _].
    rewrite (graph_not_ws x H2). reflexivity.
Qed.
Lemma chunk_ok bw b v : 1 <= bw -> b * bw < length v -> forallb is_graph v = true ->
  valk (chunk bw b v) /\ no_nl (chunk bw b v).
Proof.
  intros Hb Hlt Hg. assert (G : forallb is_graph (chunk bw b v) = true) by (apply forallb_firstn, forallb_skipn; exact Hg).
  split; [|apply graph_no_nl; exact G]. apply graph_valk; [|exact G].
  unfold chunk. intros E. apply (f_equal (@length byte)) in E. rewrite firstn_length, skipn_length in E. simpl in E. lia.
Qed.

(* ------------------------------------------------------------------ dictionaries filled block by block *)
Lemma upd_app_notin {V} k (f : option V -> V) A B : ~ In k (keys A) -> upd k f (A ++ B) = A ++ upd k f B.
Proof.
  induction A as [|[k' v] A IH]; simpl; intros H; [reflexivity|].
  rewrite str_eqb_neq by (intros E; apply H; left; exact E). rewrite IH; [reflexivity|]. intros Hin. apply H. right. exact Hin.
Qed.
Section Blocks.
  Variable c : nat -> str -> str.
  Definition bupd (b : nat) (d : dict str) (acc : dict str) : dict str :=
    fold_left (fun acc kv => upd (fst kv) (cat (c b (snd kv))) acc) d acc.
  Lemma bupd_first b d : forall d0, NoDup (keys d0 ++ keys d) ->
    bupd b d d0 = d0 ++ map (fun kv => (fst kv, c b (snd kv))) d.
  Proof.
    unfold bupd. induction d as [|[k v] d IH]; simpl; intros d0 H; [rewrite app_nil_r; reflexivity|].
    rewrite upd_notin.
    - simpl. rewrite IH; [rewrite <- app_assoc; reflexivity|].
      unfold keys in *. rewrite map_app. simpl. rewrite <- app_assoc. exact H.
    - apply NoDup_remove_2 in H. intros Hin. apply H. apply in_or_app. left. exact Hin.
  Qed.
  Lemma bupd_inplace b (h : str -> str) d2 : forall d1, NoDup (keys (d1 ++ d2)) ->
    bupd b d2 (map (fun kv => (fst kv, h (snd kv) ++ c b (snd kv))) d1 ++ map (fun kv => (fst kv, h (snd kv))) d2)
    = map (fun kv => (fst kv, h (snd kv) ++ c b (snd kv))) (d1 ++ d2).
  Proof.
    unfold bupd. induction d2 as [|[k v] d2 IH]; intros d1 H; simpl; [rewrite !app_nil_r; reflexivity|].
    rewrite upd_app_notin.
    - simpl. rewrite str_eqb_refl. simpl.
      specialize (IH (d1 ++ [(k, v)])). rewrite <- app_assoc in IH. simpl in IH. specialize (IH H).
      rewrite map_app in IH. simpl in IH. rewrite <- app_assoc in IH. simpl in IH. exact IH.
    - unfold keys in *. rewrite map_map. simpl. rewrite map_app in H. simpl in H. apply NoDup_remove_2 in H.
      intros Hin. apply H. apply in_or_app. left. exact Hin.
  Qed.
  Lemma blocks_dict d n : NoDup (keys d) ->
    fold_left (fun acc b => bupd b d acc) (seq 0 (S n)) [] =
    map (fun kv => (fst kv, concat (map (fun b => c b (snd kv)) (seq 0 (S n))))) d.
  Proof.
    intros Hnd. induction n as [|n IH].
    - simpl. rewrite bupd_first by exact Hnd. simpl. apply map_ext. intros kv. rewrite app_nil_r. reflexivity.
    - rewrite seq_S, fold_left_app, IH. cbn [fold_left plus].
      pose proof (bupd_inplace (S n) (fun v => concat (map (fun b => c b v) (seq 0 (S n)))) d [] Hnd) as E.
      cbn [map app] in E. refine (eq_trans E _). apply map_ext. intros kv. cbn [fst snd]. f_equal.
      rewrite map_app, concat_app. simpl. rewrite app_nil_r. reflexivity.
  Qed.
End Blocks.

(* ------------------------------------------------------------------ one block as a small alignment *)
Definition chunkd (bw b : nat) (d : dict str) : dict str := map (fun kv => (fst kv, chunk bw b (snd kv))) d.
Definition crow (bw b : nat) (r : row) : row := mkrow (r_id r) (chunk bw b (r_data r)) [] (chunkd bw b (r_gr r)).
Definition ablock (bw b : nat) (a : aln) : aln := mkaln [] (chunkd bw b (a_gc a)) (map (crow bw b) (a_rows a)).

Lemma chunk_len bw b (v : str) w : length v = w -> length (chunk bw b v) = Nat.min bw (w - b * bw).
Proof. intros <-. unfold chunk. rewrite firstn_length, skipn_length. reflexivity. Qed.
Lemma keys_chunkd bw b d : keys (chunkd bw b d) = keys d.
Proof. unfold keys, chunkd. rewrite map_map. reflexivity. Qed.
Lemma upper_chunk bw b v : upper v = v -> upper (chunk bw b v) = chunk bw b v.
Proof. intros H. unfold upper, chunk in *. rewrite <- firstn_map, <- skipn_map, H. reflexivity. Qed.

Lemma chunkd_ok bw b w d : 1 <= bw -> b * bw < w ->
  (forall kv, In kv d -> tokk (fst kv) /\ wf_col w (snd kv) = true) /\ NoDup (keys d) ->
  (forall kv, In kv (chunkd bw b d) -> tokk (fst kv) /\ wf_col (Nat.min bw (w - b * bw)) (snd kv) = true)
  /\ NoDup (keys (chunkd bw b d)).
Proof.
  intros Hb Hlt [H1 H2]. split; [|rewrite keys_chunkd; exact H2].
  intros kv Hin. unfold chunkd in Hin. apply in_map_iff in Hin. destruct Hin as ([k v] & <- & Hin).
  destruct (H1 _ Hin) as [Hk Hv]. cbn [fst snd] in *. split; [exact Hk|].
  unfold wf_col in *. apply andb_prop in Hv. destruct Hv as [Hg Hl]. apply Nat.eqb_eq in Hl.
  apply andb_true_intro. split; [apply forallb_firstn, forallb_skipn; exact Hg|].
  apply Nat.eqb_eq. apply chunk_len. exact Hl.
Qed.

Lemma ablock_ok bw b a : alnok a -> 1 <= bw -> b < nblocks bw (width a) -> alnok (ablock bw b a).
Proof.
  intros [Hw Hrows Hids Hne Hgf Hgc] Hb Hlt. pose proof (nblocks_last bw (width a) b Hb Hw Hlt) as Hbw.
  assert (Wd : width (ablock bw b a) = Nat.min bw (width a - b * bw)).
  { unfold width, ablock. cbn [a_rows]. destruct (a_rows a) as [|r0 rows]; [congruence|]. cbn [map crow r_data].
    apply chunk_len. reflexivity. }
  constructor; rewrite ?Wd.
  - lia.
  - intros r' Hin. cbn [ablock a_rows] in Hin. apply in_map_iff in Hin. destruct Hin as (r & <- & Hin).
    destruct (Hrows r Hin) as [Hid [Hv [Hn [Hl Hg]]] Hu Hgs Hgr].
    constructor; cbn [crow r_id r_data r_gs r_gr].
    + exact Hid.
    + destruct (chunk_ok bw b (r_data r) Hb ltac:(lia) Hg) as [C1 C2].
      split; [exact C1|split; [exact C2|split; [apply chunk_len; exact Hl|apply forallb_firstn, forallb_skipn; exact Hg]]].
    + apply upper_chunk. exact Hu.
    + split; [intros kv []|constructor].
    + apply chunkd_ok; assumption.
  - cbn [ablock a_rows]. rewrite map_map. cbn [crow r_id]. exact Hids.
  - cbn [ablock a_rows]. destruct (a_rows a); [congruence|discriminate].
  - cbn [ablock a_gf]. split; [intros kv []|constructor].
  - cbn [ablock a_gc]. apply chunkd_ok; assumption.
Qed.

Lemma flat_map_nil {A B} (g : A -> list B) l : (forall x, g x = []) -> flat_map g l = [].
Proof. intros H. induction l as [|x l IH]; simpl; [reflexivity|]. rewrite H, IH. reflexivity. Qed.
Lemma flat_map_map {A B C} (g : A -> B) (f : B -> list C) l : flat_map f (map g l) = flat_map (fun x => f (g x)) l.
Proof. induction l as [|x l IH]; simpl; [reflexivity|]. rewrite IH. reflexivity. Qed.

Lemma block_lines_eq bw a b : block_lines bw a b = tl (content_lines (ablock bw b a)) ++ [[]].
Proof.
  unfold block_lines, content_lines, ablock. cbn [tl a_gf a_gc a_rows map app].
  rewrite !flat_map_map. rewrite (flat_map_nil (fun x => gs_lines (crow bw b x))) by reflexivity. cbn [app].
  rewrite <- app_assoc. f_equal; [|f_equal].
  - apply flat_map_ext_in. intros r _. unfold seq_lines, crow, chunkd. cbn [r_id r_data r_gr].
    f_equal. rewrite map_map. reflexivity.
  - unfold chunkd. rewrite map_map. reflexivity.
Qed.
Definition block_items (bw : nat) (a : aln) (b : nat) : list item := tl (items_of (ablock bw b a)) ++ [IBlank].
Lemma block_parse bw a b : alnok (ablock bw b a) -> map pl (block_lines bw a b) = block_items bw a b.
Proof.
  intros Hok. rewrite block_lines_eq, map_app. unfold block_items. f_equal.
  pose proof (lines_items _ Hok) as L. unfold content_lines in *. cbn [map tl] in *. unfold items_of in L. injection L as L. exact L.
Qed.
Lemma block_no_nl bw a b : alnok (ablock bw b a) -> Forall no_nl (block_lines bw a b).
Proof.
  intros Hok. rewrite block_lines_eq. apply Forall_app. split; [|constructor; [reflexivity|constructor]].
  pose proof (lines_no_nl _ Hok) as L. unfold content_lines in *. inversion L; subst. assumption.
Qed.

(* ------------------------------------------------------------------ the fold over one block and over all blocks *)
Lemma fold_left_map {A B C} (f : A -> C -> A) (g : B -> C) l : forall a, fold_left f (map g l) a = fold_left (fun a x => f a (g x)) l a.
Proof. induction l as [|x l IH]; intros a; simpl; [reflexivity|]. apply IH. Qed.
Lemma gs_all_empty rows D : (forall r, In r rows -> r_gs r = []) -> gs_all rows D = D.
Proof.
  unfold gs_all. revert D. induction rows as [|r rows IH]; intros D H; simpl; [reflexivity|].
  rewrite (H r (or_introl eq_refl)). simpl. apply IH. intros r' Hr. apply H. right. exact Hr.
Qed.
Definition cb (bw : nat) : nat -> str -> str := chunk bw.
Definition rowd (rows : list row) : dict str := map (fun r => (r_id r, r_data r)) rows.
Definition Tb (bw : nat) (a : aln) (b : nat) (s : st) : st :=
  mkst (s_gf s) (bupd (cb bw) b (a_gc a) (s_gc s)) (s_gs s)
       (all_rows cat r_gr (map (crow bw b) (a_rows a)) (s_gr s))
       (bupd (cb bw) b (rowd (a_rows a)) (s_seqs s)).
Lemma block_fold bw a b s : fold_left step (block_items bw a b) s = Tb bw a b s.
Proof.
  unfold block_items, items_of, ablock. cbn [tl a_gf a_gc a_rows map app].
  rewrite !fold_left_app, phase_gs, phase_seq, phase_gc. cbn [fold_left step s_gf s_gc s_gs s_gr s_seqs].
  rewrite gs_all_empty by (intros r Hin; apply in_map_iff in Hin; destruct Hin as (r0 & <- & _); reflexivity).
  unfold Tb. f_equal.
  - unfold chunkd, bupd, updf, cb. rewrite fold_left_map. reflexivity.
  - unfold seqs_all, bupd, rowd, cb. rewrite !fold_left_map. reflexivity.
Qed.
Lemma fold_flat_map {A} (g : A -> list item) l : forall s,
  fold_left step (flat_map g l) s = fold_left (fun s x => fold_left step (g x) s) l s.
Proof. induction l as [|x l IH]; intros s; simpl; [reflexivity|]. rewrite fold_left_app. apply IH. Qed.

Lemma over_blocks bw a bs : NoDup (map r_id (a_rows a)) -> forall s,
  let s' := fold_left (fun s b => Tb bw a b s) bs s in
  s_gf s' = s_gf s /\ s_gs s' = s_gs s
  /\ s_gc s' = fold_left (fun acc b => bupd (cb bw) b (a_gc a) acc) bs (s_gc s)
  /\ s_seqs s' = fold_left (fun acc b => bupd (cb bw) b (rowd (a_rows a)) acc) bs (s_seqs s)
  /\ (forall r, In r (a_rows a) ->
        getd (r_id r) (s_gr s') = fold_left (fun acc b => bupd (cb bw) b (r_gr r) acc) bs (getd (r_id r) (s_gr s))).
Proof.
  intros Hids. induction bs as [|b bs IH]; intros s; cbn [fold_left].
  - repeat split; reflexivity.
  - specialize (IH (Tb bw a b s)). cbv zeta in *. destruct IH as (I1 & I2 & I3 & I4 & I5).
    rewrite I1, I2, I3, I4. repeat split; try reflexivity.
    intros r Hin. rewrite (I5 r Hin). f_equal. unfold Tb. cbn [s_gr].
    pose proof (getd_rows cat r_gr (map (crow bw b) (a_rows a)) (crow bw b r)) as G. cbn [crow r_id r_gr] in G.
    rewrite G.
    + unfold chunkd, bupd, updf, cb. rewrite fold_left_map. reflexivity.
    + rewrite map_map. cbn [crow r_id]. exact Hids.
    + apply in_map. exact Hin.
Qed.

Lemma head_items a : alnok a ->
  map pl (map (kvline GFt []) (a_gf a) ++ flat_map gs_lines (a_rows a)) = map kv_gf (a_gf a) ++ flat_map gs_items (a_rows a).
Proof.
  intros [Hw Hrows Hids Hne [Hgf _] [Hgc _]]. rewrite map_app. f_equal.
  - rewrite map_map. apply map_ext_in. intros kv Hin. destruct (Hgf kv Hin) as [Hk Hv]. destruct kv as [k v].
    unfold pl. apply parse_gf; [exact Hk|apply (wf_val_valk v Hv)].
  - rewrite map_flat_map. apply flat_map_ext_in. intros r Hin. destruct (Hrows r Hin) as [Hid _ _ [Hgs _] _].
    unfold gs_lines, gs_items. rewrite map_map. apply map_ext_in. intros kv Hk. destruct (Hgs kv Hk) as [Hkk Hv].
    destruct kv as [k v]. unfold pl. apply parse_gs; [apply (wf_id_facts _ Hid)|exact Hkk|apply (wf_val_valk v Hv)].
Qed.
Lemma head_no_nl a : alnok a -> Forall no_nl (map (kvline GFt []) (a_gf a) ++ flat_map gs_lines (a_rows a)).
Proof.
  intros [Hw Hrows Hids Hne [Hgf _] [Hgc _]]. apply Forall_app; split.
  - apply Forall_map_in. intros [k v] Hin. destruct (Hgf _ Hin) as [Hk Hv].
    apply kvline_no_nl; [reflexivity|reflexivity|apply tokk_no_nl; exact Hk|apply (wf_val_valk v Hv)].
  - apply Forall_flat_map. intros r Hin. destruct (Hrows r Hin) as [Hid _ _ [Hgs _] _]. unfold gs_lines.
    apply Forall_map_in. intros [k v] Hk. destruct (Hgs _ Hk) as [Hkk Hv].
    apply kvline_no_nl; [reflexivity| |apply tokk_no_nl; exact Hkk|apply (wf_val_valk v Hv)].
    apply no_nl_app; [apply tokk_no_nl; apply (wf_id_facts _ Hid)|reflexivity].
Qed.

Definition blocks_content (bw : nat) (a : aln) : list str :=
  HEADER :: (map (kvline GFt []) (a_gf a) ++ flat_map gs_lines (a_rows a)) ++ flat_map (block_lines bw a) (seq 0 (nblocks bw (width a))).
Definition blocks_items (bw : nat) (a : aln) : list item :=
  IBlank :: (map kv_gf (a_gf a) ++ flat_map gs_items (a_rows a)) ++ flat_map (block_items bw a) (seq 0 (nblocks bw (width a))).
Lemma render_lines_eq bw a : render_blocks_lines bw a = blocks_content bw a ++ [ENDL].
Proof. unfold render_blocks_lines, blocks_content. cbn [app]. rewrite <- !app_assoc. reflexivity. Qed.

Lemma blocks_parse bw a : alnok a -> 1 <= bw -> map pl (blocks_content bw a) = blocks_items bw a.
Proof.
  intros Hok Hb. unfold blocks_content, blocks_items. cbn [map]. f_equal. rewrite map_app, (head_items a Hok). f_equal.
  rewrite map_flat_map. apply flat_map_ext_in. intros b Hin. apply in_seq in Hin. apply block_parse.
  apply ablock_ok; [exact Hok|exact Hb|lia].
Qed.
Lemma blocks_no_nl bw a : alnok a -> 1 <= bw -> Forall no_nl (blocks_content bw a).
Proof.
  intros Hok Hb. unfold blocks_content. constructor; [reflexivity|]. apply Forall_app. split; [apply head_no_nl; exact Hok|].
  apply Forall_flat_map. intros b Hin. apply in_seq in Hin. apply block_no_nl. apply ablock_ok; [exact Hok|exact Hb|lia].
Qed.
Lemma blocks_good bw a : forallb good (blocks_items bw a) = true.
Proof.
  unfold blocks_items. cbn [forallb good andb]. rewrite !forallb_app.
  rewrite (forallb_map_all good kv_gf) by reflexivity.
  rewrite !forallb_flat_map; [reflexivity| |].
  - intros b. unfold block_items. rewrite forallb_app. cbn [forallb good andb]. rewrite andb_true_r.
    pose proof (items_good (ablock bw b a)) as G. unfold items_of in *. cbn [forallb good andb tl] in *. exact G.
  - intros r. unfold gs_items. apply forallb_map_all. reflexivity.
Qed.

Lemma fold_left_ext' {A B} (f g : A -> B -> A) l : (forall a x, f a x = g a x) -> forall a, fold_left f l a = fold_left g l a.
Proof. intros H. induction l as [|x l IH]; intros a; simpl; [reflexivity|]. rewrite H. apply IH. Qed.
Lemma blocks_fold bw a : alnok a -> 1 <= bw -> finish (fold_left step (blocks_items bw a) st0) = a.
Proof.
  intros Hok Hb. pose proof Hok as [Hw Hrows Hids Hne [_ Hgf] [Hgc0 Hgc]].
  unfold blocks_items. cbn [fold_left step]. rewrite !fold_left_app, phase_gf, phase_gs. cbn [s_gf s_gc s_gs s_gr s_seqs st0].
  unfold updf. rewrite (fold_upd_fresh join_sp join_sp_none) by exact Hgf. cbn [app].
  rewrite fold_flat_map.
  rewrite (fold_left_ext' _ (fun s b => Tb bw a b s)) by (intros; apply block_fold).
  destruct (nblocks bw (width a)) as [|n] eqn:En; [pose proof (nblocks_pos bw (width a) Hb Hw); lia|].
  match goal with |- finish (fold_left ?f ?l ?s) = _ =>
    pose proof (over_blocks bw a l Hids s) as OB; cbv zeta in OB; set (S' := fold_left f l s) in *; clearbody S' end.
  destruct OB as (O1 & O2 & O3 & O4 & O5). cbn [s_gf s_gc s_gs s_gr s_seqs] in *.
  unfold finish. rewrite O1, O2, O3, O4.
  rewrite (blocks_dict (cb bw) (a_gc a) n Hgc).
  rewrite (blocks_dict (cb bw) (rowd (a_rows a)) n) by (unfold keys, rowd; rewrite map_map; exact Hids).
  destruct a as [gf gc rows]. cbn [a_gf a_gc a_rows] in *. f_equal.
  - transitivity (map (fun kv : str * str => kv) gc); [|apply map_id]. apply map_ext_in. intros [k v] Hin.
    destruct (Hgc0 _ Hin) as [_ Hv]. cbn [fst snd] in *. f_equal. rewrite <- En.
    destruct (wf_col_valk _ v Hw Hv) as (_ & _ & Hl & _). unfold cb. unfold width in *. cbn [a_rows] in *. rewrite <- Hl at 1. apply chunks_all. exact Hb.
  - unfold rowd. rewrite !map_map. transitivity (map (fun r : row => r) rows); [|apply map_id]. apply map_ext_in. intros r Hin.
    cbn [fst snd]. destruct (Hrows r Hin) as [Hid [_ [_ [Hl _]]] Hu [_ Hgs] [Hgr0 Hgr]].
    assert (Cd : forall v : str, length v = length (r_data r) -> concat (map (fun b => cb bw b v) (seq 0 (S n))) = v).
    { intros v Hv. rewrite <- En. unfold width in *. cbn [a_rows] in *. rewrite <- Hl, <- Hv. apply chunks_all. exact Hb. }
    rewrite (Cd _ eq_refl), Hu.
    fold (getd (r_id r) (gs_all rows [])). change (gs_all rows []) with (all_rows join_sp r_gs rows []).
    rewrite (getd_rows join_sp r_gs rows r Hids Hin).
    pose proof (O5 r Hin) as O5r. unfold getd in O5r. cbn [lookup odict] in O5r. rewrite O5r.
    unfold getd. cbn [lookup odict]. unfold updf.
    rewrite (fold_upd_fresh join_sp join_sp_none) by exact Hgs.
    rewrite (blocks_dict (cb bw) (r_gr r) n Hgr).
    assert (G : map (fun kv : str * str => (fst kv, concat (map (fun b => cb bw b (snd kv)) (seq 0 (S n))))) (r_gr r) = r_gr r).
    { transitivity (map (fun kv : str * str => kv) (r_gr r)); [|apply map_id]. apply map_ext_in. intros [k v] Hk.
      destruct (Hgr0 _ Hk) as [_ Hv]. cbn [fst snd] in *. f_equal. apply Cd.
      destruct (wf_col_valk _ v Hw Hv) as (_ & _ & Hlv & _). lia. }
    rewrite G. destruct r; reflexivity.
Qed.

Theorem read_blocks_rest bw a rest : wf_aln a = true -> 1 <= bw ->
  read_text (render_blocks bw a ++ rest) = (Some a, rest).
Proof.
  intros Hwf Hb. pose proof (wf_aln_ok a Hwf) as Hok. unfold read_text, render_blocks.
  rewrite render_lines_eq, join_snoc. unfold ENDL. rewrite <- !app_assoc. cbn [app].
  rewrite (py_lines_lines _ _ (blocks_no_nl bw a Hok Hb)).
  rewrite (py_lines_line (bs "//"%bs) rest eq_refl).
  pose proof (run_items_app parse_line (map addnl (blocks_content bw a)) (bs "//"%bs ++ [NL]) (py_lines rest) st0) as R.
  unfold str in *. rewrite R; clear R.
  - rewrite map_map. pose proof (blocks_parse bw a Hok Hb) as L. unfold pl, str in *. rewrite L. cbn [option_map].
    rewrite (blocks_fold bw a Hok Hb). rewrite concat_py_lines. reflexivity.
  - rewrite map_map. pose proof (blocks_parse bw a Hok Hb) as L. unfold pl, str in *. rewrite L. apply blocks_good.
  - reflexivity.
Qed.
Theorem stk_interleave bw a : wf_aln a = true -> 1 <= bw ->
  read_text (render_blocks bw a) = read_text (write_text a) /\ read_text (render_blocks bw a) = (Some a, []).
Proof.
  intros Hwf Hb. rewrite (stk_roundtrip a Hwf). rewrite <- (app_nil_r (render_blocks bw a)).
  rewrite (read_blocks_rest bw a [] Hwf Hb). split; reflexivity.
Qed.
