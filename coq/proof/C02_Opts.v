(* C02: the options of the GFF reader (filt, filt_fast, comments; gff.py:40-66) as statements about the lines of the file, and
   the header option of the writer (gff.py:118-126). *)
From Coq Require Import List ZArith Lia Bool.
From Coq.Strings Require Import Byte.
Import ListNotations.
From SV Require Import Text G_gff C02_Model C02_Lemmas C02_Read C02_Lenient.
Local Open Scope Z_scope.

Definition blankish (line : str) : bool := startswith (bs "#"%bs) line || Nat.eqb (length (strip line)) 0.
(* filt_fast: a line is looked at when the lower-cased text occurs in the lower-cased line (the ##FASTA mark is seen first) *)
Definition passes_fast (ff : str) (line : str) : bool := is_fasta_mark line || infix (lower ff) (lower (line ++ nl)).
Ltac tail_o IH :=
  match goal with |- context [split_on c_tab (strip ?line)] =>
    destruct (split_on c_tab (strip line)) as [|c1 [|c2 [|c3 [|c4 [|c5 [|c6 [|c7 [|c8 [|c9 [|c10 r]]]]]]]]]]; try reflexivity end.
(* reading with filt_fast = reading the file from which the lines without that text are removed *)
Theorem read_o_fast fl ff d ls : forall acc id cm,
  read_lines_o (mkRopts fl (Some ff) d) ls acc id cm = read_lines_o (mkRopts fl None d) (filter (passes_fast ff) ls) acc id cm.
Proof.
  induction ls as [|line rest IH]; intros acc id cm; [reflexivity|]. cbn [filter]. unfold passes_fast at 1, is_fasta_mark.
  destruct (startswith (bs "##FASTA"%bs) line) eqn:F; cbn [orb].
  - cbn [read_lines_o]. rewrite F. reflexivity.
  - destruct (infix (lower ff) (lower (line ++ nl))) eqn:I.
    + cbn [read_lines_o o_fast o_filt o_default]. rewrite F, I. cbn [negb].
      destruct (startswith (bs "#"%bs) line || Nat.eqb (length (strip line)) 0); [apply IH|].
      tail_o IH.
      match goal with |- (if ?c then _ else _) = _ => destruct c; [apply IH|] end.
      destruct (parse_line line) as [gl0|]; [|reflexivity]. cbn [g_type g_seqid g_loc g_attrs].
      match goal with |- context [gid_eqb] => idtac end.
      match goal with |- context [match ?o1 with Some i => Some (i, ?t, ?sq) | None => None end] =>
        destruct (match match o1 with Some i => Some (i, t, sq) | None => None end, id with
                  | Some a, Some b => gid_eqb a b | _, _ => false end) end; [|apply IH].
      destruct acc as [|f acc']; [apply IH|]. destruct (loc_tuple _); [apply IH|reflexivity].
    + cbn [read_lines_o o_fast]. rewrite F, I. cbn [negb]. apply IH.
Qed.

(* filt: a data line is looked at when its type (default_ftype for '.') is in the list; an empty list is no filter *)
Definition line_type_in (fl : list str) (d : option str) (line : str) : bool :=
  match split_on c_tab (strip line) with
  | [_; _; c3; _; _; _; _; _; _] =>
      match (if str_eqb (unquote c3) dot then d else Some (unquote c3)) with Some t => existsb (str_eqb t) fl | None => false end
  | _ => true
  end.
Definition passes_filt (fl : list str) (d : option str) (line : str) : bool :=
  is_fasta_mark line || blankish line || line_type_in fl d line.
Theorem read_o_filt x r ff d ls : forall acc id cm,
  read_lines_o (mkRopts (Some (x :: r)) ff d) ls acc id cm = read_lines_o (mkRopts None ff d) (filter (passes_filt (x :: r) d) ls) acc id cm.
Proof.
  induction ls as [|line rest IH]; intros acc id cm; [reflexivity|]. cbn [filter]. unfold passes_filt at 1, is_fasta_mark, blankish, line_type_in.
  destruct (startswith (bs "##FASTA"%bs) line) eqn:F; cbn [orb].
  - cbn [read_lines_o]. rewrite F. reflexivity.
  - destruct (startswith (bs "#"%bs) line || Nat.eqb (length (strip line)) 0) eqn:B; cbn [orb].
    + cbn [read_lines_o o_fast o_filt o_default]. rewrite F, B.
      destruct (match ff with Some ff0 => negb (infix (lower ff0) (lower (line ++ nl))) | None => false end); apply IH.
    + destruct (split_on c_tab (strip line)) as [|c1 [|c2 [|c3 [|c4 [|c5 [|c6 [|c7 [|c8 [|c9 [|c10 r']]]]]]]]]] eqn:E;
        try (cbn [read_lines_o o_fast o_filt o_default]; rewrite F, B, E;
             destruct (match ff with Some ff0 => negb (infix (lower ff0) (lower (line ++ nl))) | None => false end); [apply IH|reflexivity]).
      destruct (match (if str_eqb (unquote c3) dot then d else Some (unquote c3)) with Some t => existsb (str_eqb t) (x :: r) | None => false end) eqn:K.
      * cbn [read_lines_o o_fast o_filt o_default]. rewrite F, B, E, K. cbn [negb].
        destruct (match ff with Some ff0 => negb (infix (lower ff0) (lower (line ++ nl))) | None => false end); [apply IH|].
        destruct (parse_line line) as [gl0|]; [|reflexivity]. cbn [g_type g_seqid g_loc g_attrs].
        match goal with |- context [match ?o1 with Some i => Some (i, ?t, ?sq) | None => None end] =>
          destruct (match match o1 with Some i => Some (i, t, sq) | None => None end, id with
                    | Some a, Some b => gid_eqb a b | _, _ => false end) end; [|apply IH].
        destruct acc as [|f acc']; [apply IH|]. destruct (loc_tuple _); [apply IH|reflexivity].
      * cbn [read_lines_o o_fast o_filt o_default]. rewrite F, B, E, K. cbn [negb].
        destruct (match ff with Some ff0 => negb (infix (lower ff0) (lower (line ++ nl))) | None => false end); apply IH.
Qed.
Theorem read_o_filt_empty ff d ls : forall acc id cm,
  read_lines_o (mkRopts (Some []) ff d) ls acc id cm = read_lines_o (mkRopts None ff d) ls acc id cm.
Proof.
  induction ls as [|line rest IH]; intros acc id cm; [reflexivity|]. cbn [read_lines_o o_fast o_filt o_default].
  destruct (startswith (bs "##FASTA"%bs) line); [reflexivity|].
  destruct (match ff with Some ff0 => negb (infix (lower ff0) (lower (line ++ nl))) | None => false end); [apply IH|].
  destruct (startswith (bs "#"%bs) line || Nat.eqb (length (strip line)) 0); [apply IH|].
  tail_o IH. destruct (parse_line line) as [gl0|]; [|reflexivity]. cbn [g_type g_seqid g_loc g_attrs].
  match goal with |- context [match ?o1 with Some i => Some (i, ?t, ?sq) | None => None end] =>
    destruct (match match o1 with Some i => Some (i, t, sq) | None => None end, id with
              | Some a, Some b => gid_eqb a b | _, _ => false end) end; [|apply IH].
  destruct acc as [|f acc']; [apply IH|]. destruct (loc_tuple _); [apply IH|reflexivity].
Qed.

(* comments=[]: exactly the comment / blank lines before the ##FASTA mark that filt_fast lets through, in file order,
   whatever filt and default_ftype are *)
Fixpoint before_fasta (ls : list str) : list str :=
  match ls with [] => [] | l :: r => if is_fasta_mark l then [] else l :: before_fasta r end.
Definition fast_ok (ff : option str) (line : str) : bool :=
  match ff with Some f => infix (lower f) (lower (line ++ nl)) | None => true end.
Theorem comments_spec fl ff d ls : forall acc id cm fs cs,
  read_lines_o (mkRopts fl ff d) ls acc id cm = Some (fs, cs) ->
  cs = rev cm ++ filter (fun l => fast_ok ff l && blankish l) (before_fasta ls).
Proof.
  induction ls as [|line rest IH]; intros acc id cm fs cs.
  - cbn. intros H. injection H as _ <-. rewrite app_nil_r. reflexivity.
  - cbn [read_lines_o o_fast o_filt o_default before_fasta]. unfold is_fasta_mark, blankish at 1.
    destruct (startswith (bs "##FASTA"%bs) line); [intros H; injection H as _ <-; cbn; rewrite app_nil_r; reflexivity|].
    cbn [filter]. unfold fast_ok at 1.
    destruct ff as [f0|].
    + destruct (infix (lower f0) (lower (line ++ nl))); cbn [negb andb]; [|apply IH].
      destruct (startswith (bs "#"%bs) line || Nat.eqb (length (strip line)) 0).
      * intros H. apply IH in H. rewrite H. cbn [rev]. rewrite <- app_assoc. reflexivity.
      * tail_o IH; try discriminate.
        match goal with |- (if ?c then _ else _) = _ -> _ => destruct c; [apply IH|] end.
        destruct (parse_line line) as [gl0|]; [|discriminate]. cbn [g_type g_seqid g_loc g_attrs].
        match goal with |- context [match ?o1 with Some i => Some (i, ?t, ?sq) | None => None end] =>
          destruct (match match o1 with Some i => Some (i, t, sq) | None => None end, id with
                    | Some a, Some b => gid_eqb a b | _, _ => false end) end; [|apply IH].
        destruct acc as [|f acc']; [apply IH|]. destruct (loc_tuple _); [apply IH|discriminate].
    + cbn [andb].
      destruct (startswith (bs "#"%bs) line || Nat.eqb (length (strip line)) 0).
      * intros H. apply IH in H. rewrite H. cbn [rev]. rewrite <- app_assoc. reflexivity.
      * tail_o IH; try discriminate.
        match goal with |- (if ?c then _ else _) = _ -> _ => destruct c; [apply IH|] end.
        destruct (parse_line line) as [gl0|]; [|discriminate]. cbn [g_type g_seqid g_loc g_attrs].
        match goal with |- context [match ?o1 with Some i => Some (i, ?t, ?sq) | None => None end] =>
          destruct (match match o1 with Some i => Some (i, t, sq) | None => None end, id with
                    | Some a, Some b => gid_eqb a b | _, _ => false end) end; [|apply IH].
        destruct acc as [|f acc']; [apply IH|]. destruct (loc_tuple _); [apply IH|discriminate].
Qed.

(* ------------------------------------------------------------------ header=... of the writer *)
Lemma split_on_nonnil c s : split_on c s <> [].
Proof. induction s as [|x s IH]; cbn [split_on]; [discriminate|]. destruct (byte_eqb x c); [discriminate|]. destruct (split_on c s); discriminate. Qed.
Lemma file_lines_cons l t : has x0a l = false -> file_lines (l ++ nl ++ t) = l :: file_lines t.
Proof.
  intros H. unfold file_lines, nl. cbn [app]. rewrite (split_on_app x0a l t H). cbn [rev].
  pose proof (split_on_nonnil x0a t) as N. destruct (rev (split_on x0a t)) as [|p r] eqn:E.
  - exfalso. apply N. rewrite <- (rev_involutive (split_on x0a t)), E. reflexivity.
  - cbn [app]. destruct p as [|c p]; [|reflexivity]. rewrite rev_app_distr. reflexivity.
Qed.
Lemma file_lines_prefix hl t : Forall (fun l => has x0a l = false) hl ->
  file_lines (concat (map (fun l => l ++ nl) hl) ++ t) = hl ++ file_lines t.
Proof.
  induction hl as [|l hl IH]; intros H; [reflexivity|]. inversion H as [|? ? Hl Hr]; subst.
  cbn [map concat]. rewrite <- !app_assoc. rewrite (file_lines_cons l _ Hl), (IH Hr). reflexivity.
Qed.
Lemma read_skip_all hl rest : Forall (fun l => skippable l = true) hl -> forall acc id, read_lines (hl ++ rest) acc id = read_lines rest acc id.
Proof. induction 1 as [|l hl Hl _ IH]; intros acc id; [reflexivity|]. cbn [app]. rewrite (read_skip l _ acc id Hl). apply IH. Qed.
(* a header made of comment lines does not change what is read back *)
Theorem header_ignored hl body : Forall (fun l => has x0a l = false) hl -> Forall (fun l => skippable l = true) hl ->
  read_gff (gff_header ++ concat (map (fun l => l ++ nl) hl) ++ body) = read_gff (gff_header ++ body).
Proof.
  intros H1 H2. unfold read_gff. rewrite header_eq, <- !app_assoc.
  rewrite !(file_lines_cons header_line) by reflexivity. rewrite (file_lines_prefix hl body H1).
  cbn [read_lines]. change (startswith (bs "##FASTA"%bs) header_line) with false. cbn [orb]. change (startswith (bs "#"%bs) header_line) with true.
  cbn [orb]. rewrite (read_skip_all hl _ H2). reflexivity.
Qed.
Theorem header_ignored_w hl x : Forall (fun l => has x0a l = false) hl -> Forall (fun l => skippable l = true) hl ->
  match write_gff_hdr (concat (map (fun l => l ++ nl) hl)) x, write_gff_h x with
  | Some w, Some w0 => read_gff w = read_gff w0
  | None, None => True
  | _, _ => False
  end.
Proof.
  intros H1 H2. unfold write_gff_hdr, write_gff_h. destruct (concat_opt (write_feats_h 0 x)) as [body|]; cbn [option_map]; [|exact I].
  apply header_ignored; assumption.
Qed.

Definition ex_header : list str := [bs "#made by sugar"%bs; bs "##sequence-region chr1 1 1000"%bs; []; bs "   "%bs].
Lemma ex_header_ok : Forall (fun l => has x0a l = false) ex_header /\ Forall (fun l => skippable l = true) ex_header.
Proof. split; repeat constructor. Qed.
Definition ex_gline (ty : str) : str := join [c_tab] [bs "chr1"%bs; dot; ty; bs "1"%bs; bs "9"%bs; dot; bs "+"%bs; dot; bs "ID=a"%bs].
Lemma ex_filters_ok :
  passes_fast (bs "cds"%bs) (ex_gline (bs "CDS"%bs)) = true /\ passes_fast (bs "cds"%bs) (ex_gline (bs "gene"%bs)) = false /\
  passes_filt [bs "CDS"%bs] None (ex_gline (bs "CDS"%bs)) = true /\ passes_filt [bs "CDS"%bs] None (ex_gline (bs "gene"%bs)) = false /\
  passes_filt [bs "CDS"%bs] (Some (bs "CDS"%bs)) (ex_gline dot) = true /\ passes_filt [bs "CDS"%bs] None (ex_gline dot) = false.
Proof. vm_compute. repeat split; reflexivity. Qed.
