(* C10: the whole reader is total on arbitrary text: a list of records or one of seven exception classes *)
From Coq Require Import List ZArith NArith Bool Lia Permutation.
From Coq.Strings Require Import Byte.
Import ListNotations.
From SV Require Import Text G_flags C10_Model C10_Lemmas C10_Table C10_Reader C10_Extra.

Definition doc_err (k : str) : Prop :=
  In k [ValueError; IndexError; KeyError; TypeError; AttributeError; AssertionError; UnboundLocalError].
Ltac doc := unfold doc_err; cbn [In]; tauto.
Ltac crush :=
  repeat match goal with
         | |- context [match ?x with _ => _ end] => destruct x
         | |- context [if ?x then _ else _] => destruct x
         end;
  intros k0 H0; inversion H0; subst; doc.

Lemma step_header_err s l : forall k, step_header s l = RErr k -> doc_err k.
Proof. unfold step_header. crush. Qed.
Lemma flush_err s : forall k, flush s = RErr k -> doc_err k.
Proof.
  unfold flush. destruct (fttype s); [|discriminate]. destruct (locs s) as [lc|]; [|intros k H; inversion H; doc].
  destruct (parse_total lc) as [(ls & Hn & E)|[E|E]]; rewrite E.
  - destruct (loctuple_total ls Hn) as [(lt & E2 & _)|E2]; rewrite E2; [discriminate|intros k H; inversion H; doc].
  - intros k H; inversion H; doc.
  - intros k H; inversion H; doc.
Qed.
Lemma step_fts_err excl s l : forall k, step_fts excl s l = RErr k -> doc_err k.
Proof.
  unfold step_fts. destruct (mem k_fts excl); [destruct (startswith k_origin (lower (strip (firstn 20 l)))); discriminate|].
  destruct (negb (is_blank (firstn 20 l))).
  - destruct (flush s) as [s1|k1] eqn:F; [|intros k H; inversion H; subst; apply (flush_err s); exact F].
    destruct (first_word (strip (firstn 20 l))); [|intros k H; inversion H; doc].
    destruct (str_eqb (lower s0) k_origin); discriminate.
  - destruct (match strip l with [] => None | c :: l1 => if byte_eqb "/" c then Some l1 else None end) as [l1|].
    + destruct (has "=" l1).
      * destruct (break_at "=" l1) as [k2 v]. destruct (ftmeta s); [discriminate|intros k H; inversion H; doc].
      * destruct (ftmeta s) as [m|]; [|intros k H; inversion H; doc].
        destruct (aget k_misc m) as [[x|z|xs]|]; try discriminate; intros k H; inversion H; doc.
    + destruct (key2 s) as [[k2|]|]; [| |intros k H; inversion H; doc].
      * destruct (ftmeta s) as [m|]; [|intros k H; inversion H; doc].
        destruct (aget k2 m) as [[x|z|xs]|]; try discriminate; intros k H; inversion H; doc.
      * destruct (locs s); [discriminate|intros k H; inversion H; doc].
Qed.
Lemma step_origin_err excl s l : forall k, step_origin excl s l = RErr k -> doc_err k.
Proof. unfold step_origin. destruct (mem k_seq excl); [discriminate|]. destruct (10 <? length l)%nat; discriminate. Qed.
Lemma finish_err excl s : forall k, finish excl s = RErr k -> doc_err k.
Proof.
  unfold finish. destruct (fttype s); [intros k H; inversion H; doc|].
  destruct (aget k_accession (attrs s)) as [[v|l]|]; [| intros k H; inversion H; doc | discriminate].
  destruct (first_word v); [discriminate|intros k H; inversion H; doc].
Qed.
Lemma run_lines_total excl ls : forall s acc k, run_lines excl ls s acc = RErr k -> doc_err k.
Proof.
  induction ls as [|raw rest IH]; intros s acc k; cbn [run_lines]; [discriminate|].
  destruct (is_blank (rstrip raw)); [apply IH|].
  destruct (str_eqb (strip (rstrip raw)) sl2).
  - destruct (finish excl s) as [r|k1] eqn:F; [apply IH|]. intros H; inversion H; subst. apply (finish_err excl s). exact F.
  - destruct (mode s).
    + destruct (step_header s (rstrip raw)) as [s'|k1] eqn:E; [apply IH|]. intros H; inversion H; subst. apply (step_header_err _ _ _ E).
    + destruct (step_fts excl s (rstrip raw)) as [s'|k1] eqn:E; [apply IH|]. intros H; inversion H; subst. apply (step_fts_err _ _ _ _ E).
    + destruct (step_origin excl s (rstrip raw)) as [s'|k1] eqn:E; [apply IH|]. intros H; inversion H; subst. apply (step_origin_err _ _ _ _ E).
Qed.
(* C10_reader_total *)
Lemma reader_total excl text :
  (exists rs, iter_genbank excl text = ROk rs) \/ (exists k, iter_genbank excl text = RErr k /\ doc_err k).
Proof.
  unfold iter_genbank. destruct (run_lines excl (file_lines text) (st0 None) []) as [rs|k] eqn:E; [left; eauto|].
  right. exists k. split; [reflexivity|]. apply (run_lines_total _ _ _ _ _ E).
Qed.
Lemma read_fts_total excl text :
  (exists fl, read_fts_genbank excl text = ROk fl) \/ (exists k, read_fts_genbank excl text = RErr k /\ doc_err k).
Proof.
  unfold read_fts_genbank. destruct (reader_total (k_seq :: excl) text) as [(rs & E)|(k & E & D)]; rewrite E; [|right; eauto].
  left. clear E. induction rs as [|r rs IH]; [eauto|]. destruct (rfts r); [|exact IH]. destruct IH as (fl & ->). eauto.
Qed.
