(* C09 proofs, part 5: the last record of a file without final newline (the last line terminator is missing). *)
From Coq Require Import List Arith Lia ZArith NArith Bool.
From Coq.Strings Require Import Byte.
Import ListNotations.
From SV Require Import Text C09_Model C09_Lemmas C09_Extract C09_Record.

(* a wrapped text that ends on a line boundary ends with the newline *)
Lemma wrap_ends_nl nl w : 0 < w -> forall (t : str) k, t <> [] -> (k + length t) mod w = 0 ->
  exists W', wrap_from nl w k t = W' ++ nl.
Proof.
  intros Hw. induction t as [|c t IH]; intros k Hne Hm; [congruence|].
  destruct t as [|d t].
  - exists [c]. cbn [wrap_from]. unfold brk. cbn [length] in Hm. replace (k + 1) with (S k) in Hm by lia.
    rewrite Hm. cbn [Nat.eqb]. rewrite app_nil_r. reflexivity.
  - destruct (IH (S k) ltac:(discriminate)) as [W' E].
    { cbn [length] in *. replace (S k + S (length t)) with (k + S (S (length t))) by lia. exact Hm. }
    exists (c :: brk nl w k ++ W'). cbn [wrap_from] in *. rewrite E. cbn [app]. rewrite <- app_assoc. reflexivity.
Qed.

Lemma body_ends_nl crlf r : 1 <= rw r -> rseq r <> [] -> exists W', body (nl_of crlf) r = W' ++ nl_of crlf.
Proof.
  intros Hw Hne. rewrite body_eq. unfold tail.
  destruct (length (rseq r) mod rw r =? 0) eqn:E.
  - apply Nat.eqb_eq in E. destruct (wrap_ends_nl (nl_of crlf) (rw r) ltac:(lia) (rseq r) 0 Hne E) as [W' EW].
    exists W'. rewrite EW, app_nil_r. reflexivity.
  - exists (wrap_from (nl_of crlf) (rw r) 0 (rseq r)). reflexivity.
Qed.

(* render_file without final newline = the preceding records, then the last record without its last line terminator *)
Lemma render_file_unterminated crlf rs r :
  render_file crlf false (rs ++ [r])
  = render_recs (nl_of crlf) rs
    ++ firstn (length (render_rec (nl_of crlf) r) - length (nl_of crlf)) (render_rec (nl_of crlf) r).
Proof.
  unfold render_file, render_recs. rewrite map_app, concat_app. cbn [map concat]. rewrite app_nil_r.
  set (p := concat (map (render_rec (nl_of crlf)) rs)). set (rr := render_rec (nl_of crlf) r).
  assert (L: length (nl_of crlf) <= length rr).
  { unfold rr, render_rec, header_line. rewrite app_length. cbn [length]. rewrite !app_length. lia. }
  rewrite firstn_app, app_length. rewrite firstn_all2 by lia. f_equal. f_equal. lia.
Qed.

Theorem extract_range_unterminated mode crlf (r : arec) (pre : str) (oi oj : option nat) :
  wf_rec mode (length (nl_of crlf)) r = true -> rseq r <> [] ->
  (match oi, oj with Some i, Some j => i <= j | _, _ => True end) ->
  let nl := nl_of crlf in
  let rr := render_rec nl r in
  let f := pre ++ firstn (length rr - length nl) rr in
  let ll := if length (rseq r) <=? rw r then 0 else rw r + length nl in
  exists data,
    extract f ll (length pre) (QRange (option_map Z.of_nat oi) (option_map Z.of_nat oj)) = Ok (header_line nl r ++ data)
    /\ filter nonnl data
       = (let i := match oi with Some i => i | None => 0 end in
          match oj with Some j => firstn (j - i) (skipn i (rseq r)) | None => skipn i (rseq r) end).
Proof.
  intros Hwf Hne Hij. destruct (wf_rec_facts _ _ _ Hwf) as [Hw [H1 [H2 [H3 H4]]]]. cbv zeta.
  destruct (body_ends_nl crlf r Hw Hne) as [W' EW].
  assert (Ef: pre ++ firstn (length (render_rec (nl_of crlf) r) - length (nl_of crlf)) (render_rec (nl_of crlf) r)
              = file pre (rid r ++ rdesc r) (nl_of crlf) W' []).
  { unfold render_rec. rewrite EW, header_eq. unfold file. rewrite app_nil_r.
    rewrite (app_assoc (hl _ _) W'). rewrite app_length. rewrite Nat.add_sub.
    rewrite firstn_app, Nat.sub_diag, firstn_O, app_nil_r, firstn_all. reflexivity. }
  rewrite Ef, header_eq.
  pose proof (body_noGT crlf r H4) as BG. rewrite EW, forallb_app in BG. apply andb_prop in BG. destruct BG as [BG _].
  assert (Fnl: filter nonnl (nl_of crlf) = []) by (destruct crlf; reflexivity).
  pose proof (body_filter crlf r H3) as BF. rewrite EW, filter_app, Fnl, app_nil_r in BF.
  assert (Hcnt: forall x, x <= length (rseq r) ->
            filter nonnl (firstn (cmp (nl_of crlf) (linelen_of crlf r) x) (W' ++ nl_of crlf)) = firstn x (rseq r)).
  { intros x Hx. pose proof (body_cnt crlf r Hw H3 x Hx) as C. rewrite app_nil_r, EW in C. exact C. }
  destruct (extract_range pre (rid r ++ rdesc r) (nl_of crlf) W' [] (nl_of_cases crlf) H1 BG (or_introl eq_refl)
              (rseq r) (nl_of crlf) (linelen_of crlf r) Fnl BF (linelen_ok crlf r Hw) Hcnt oi oj Hij) as [data [E F]].
  exists data. split; [exact E|]. rewrite F. unfold slice. destruct oi; reflexivity.
Qed.
