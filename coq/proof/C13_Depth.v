(* C13 depth round: priority of alternatives, gaps between reported matches, backward frames and the start offset in
   forward coordinates, span bounds, empty results, basket wrappers element-wise. *)
From Coq Require Import List ZArith NArith Bool Lia.
From Coq.Strings Require Import Byte.
Import ListNotations.
From SV Require Import Text G_codes C05_Model C05_Lemmas C13_Model C13_Lemmas.
Local Open Scope Z_scope.

(* ordered alternation: the reported alternative is the first one (in pattern order) that matches at all *)
Lemma m_alts_priority alts s n : m_alts alts s = Some n ->
  exists pre a post, alts = pre ++ a :: post /\ m_items a s = Some n /\ forall a', In a' pre -> m_items a' s = None.
Proof.
  induction alts as [|a r IH]; cbn; [discriminate|].
  destruct (m_items a s) as [k|] eqn:E.
  - intros H; inversion H; subst k. exists [], a, r. repeat split; auto. intros a' [].
  - intros H. destruct (IH H) as (pre & a0 & post & -> & Hm & Hn).
    exists (a :: pre), a0, post. repeat split; auto. intros a' [<-|Hi]; auto.
Qed.
Lemma earlier_word_does_not_occur gap ws s n : m_alts (map (compile_word gap) ws) s = Some n ->
  exists pre w post, ws = pre ++ w :: post /\ m_items (compile_word gap w) s = Some n /\
    forall w' t u, In w' pre -> irel (compile_word gap w') t -> s <> t ++ u.
Proof.
  intros H. apply m_alts_priority in H. destruct H as (pre & a & post & E & Hm & Hn).
  apply map_eq_app in E. destruct E as (wpre & wrest & -> & <- & E2).
  apply map_eq_cons in E2. destruct E2 as (w & wpost & -> & <- & <-).
  exists wpre, w, wpost. repeat split; auto.
  intros w' t u Hi Hr ->. specialize (Hn (compile_word gap w') (in_map _ _ _ Hi)).
  now apply (m_items_complete _ _ Hr u).
Qed.

(* no occurrence of any word starts at a column that is outside all reported spans *)
Lemma no_occurrence_between_matches gap sub s p : wf_sub sub = true ->
  (forall b e, In (b, e) (finditer (compile gap (expand_sub sub)) s 0 0) -> ~ (b <= p < e)%nat) ->
  forall w t u, In w (words sub) -> irel (compile_word gap w) t -> skipn p s <> t ++ u.
Proof.
  intros Hwf Hout w t u Hw Hr Hs.
  destruct (occurrences_complete gap sub s w t u p Hwf Hw Hr Hs) as (b & e & Hi & Hbe).
  exact (Hout b e Hi Hbe).
Qed.

(* spans are valid forward-strand spans, on both strands *)
Lemma span_bounds s sub rf start gap out m : 0 <= start -> matchall s sub rf start gap = Some out -> In m out ->
  0 <= bm_b m < bm_e m /\ bm_e m <= Z.of_nat (length s).
Proof.
  intros H0 Hm Hi. destruct (matchall_sound _ _ _ _ _ _ H0 Hm) as (rfn & F & B & _ & -> & HF & HB).
  apply in_app_or in Hi. destruct Hi as [Hi|Hi].
  - destruct (HF m Hi) as (b & e & Hbe & _ & -> & -> & _). lia.
  - destruct (HB m Hi) as (l & _ & b & e & Hbe & _ & -> & -> & _). lia.
Qed.

(* the start offset: forward matches begin at or after start; backward matches END at or before length - start on the
   forward strand, and their frame counts the residues of the forward strand between the end of the span and length - start *)
Lemma start_offset_semantics s sub rf start gap out m : 0 <= start -> wf_gap gap = true ->
  matchall s sub rf start gap = Some out -> In m out ->
  match bm_rf m with
  | None => start <= bm_b m
  | Some f =>
      (0 <= f /\ start <= bm_b m) \/
      (f < 0 /\ bm_e m <= Z.of_nat (length s) - start /\
       - f - 1 = residues gap (slice (Z.to_nat (bm_e m)) (length s - Z.to_nat start) s) mod 3)
  end.
Proof.
  intros H0 Hg Hm Hi. destruct (matchall_sound _ _ _ _ _ _ H0 Hm) as (rfn & F & B & _ & -> & HF & HB).
  apply in_app_or in Hi. destruct Hi as [Hi|Hi].
  - destruct (HF m Hi) as (b & e & Hbe & Hs & Hb & He & _ & _ & Hfr). destruct rfn as [l|].
    + destruct Hfr as (t & -> & _ & Hr & _). left. lia.
    + rewrite Hfr. lia.
  - destruct (HB m Hi) as (l & _ & b & e & Hbe & Hs & Hb & He & _ & _ & _ & f & -> & _ & Hr & Heq).
    right. split; [lia|]. split; [lia|]. rewrite Heq. rewrite He.
    rewrite bwd_residues_forward by (auto; lia). rewrite Nat2Z.id. reflexivity.
Qed.

(* nothing to report: no requested frame is a frame, or the start offset is at/after the end *)
Lemma unrequested_empty s sub rf start gap l : norm_rf rf = Some (Some l) -> has_fwd l = false -> has_bwd l = false ->
  matchall s sub rf start gap = Some [].
Proof. intros Hn Hf Hb. unfold matchall, fwd_list, bwd_list. rewrite Hn. cbn [runs_fwd]. rewrite Hf, Hb. reflexivity. Qed.
Lemma start_beyond_end s sub rf start gap out : Z.of_nat (length s) <= start ->
  matchall s sub rf start gap = Some out -> out = [].
Proof.
  intros Hs Hm. destruct out as [|m r]; [reflexivity|exfalso].
  assert (H0 : 0 <= start) by lia.
  destruct (matchall_sound _ _ _ _ _ _ H0 Hm) as (rfn & F & B & _ & E & HF & HB).
  assert (Hi : In m (F ++ B)) by (rewrite <- E; left; reflexivity).
  apply in_app_or in Hi. destruct Hi as [Hi|Hi].
  - destruct (HF m Hi) as (b & e & Hbe & Hst & _). lia.
  - destruct (HB m Hi) as (l & _ & b & e & Hbe & Hst & _). lia.
Qed.
Lemma invalid_rf_string s sub t start gap :
  t <> bs "fwd"%bs -> t <> bs "bwd"%bs -> t <> bs "both"%bs ->
  matchall s sub (RStr t) start gap = None /\ match_first s sub (RStr t) start gap = None.
Proof.
  intros H1 H2 H3. unfold matchall, match_first. cbn [norm_rf].
  destruct (str_eqb t (bs "fwd"%bs)) eqn:E1; [apply str_eqb_eq in E1; contradiction|].
  destruct (str_eqb t (bs "bwd"%bs)) eqn:E2; [apply str_eqb_eq in E2; contradiction|].
  destruct (str_eqb t (bs "both"%bs)) eqn:E3; [apply str_eqb_eq in E3; contradiction|]. auto.
Qed.

(* BioBasket wrappers, element-wise *)
Lemma basket_matchall_in seqs sub rf start gap out m : basket_matchall seqs sub rf start gap = Some out ->
  (In m out <-> exists s l, In s seqs /\ matchall s sub rf start gap = Some l /\ In m l).
Proof.
  revert out. induction seqs as [|s r IH]; intros out H; cbn [basket_matchall] in H.
  - inversion H. split; [intros []|intros (s & l & [] & _)].
  - destruct (matchall s sub rf start gap) as [l|] eqn:E; [|discriminate].
    destruct (basket_matchall r sub rf start gap) as [l'|] eqn:E'; [|discriminate]. cbn in H. inversion H; subst out.
    rewrite in_app_iff, (IH l' eq_refl). split.
    + intros [Hi|(s' & l0 & Hs & Hm & Hi)]; [exists s, l; cbn; auto|exists s', l0; cbn; auto].
    + intros (s' & l0 & [<-|Hs] & Hm & Hi); [left; congruence|right; exists s', l0; auto].
Qed.
Lemma basket_match_pointwise seqs sub rf start gap out : basket_match seqs sub rf start gap = Some out ->
  Forall2 (fun s m => match_first s sub rf start gap = Some m) seqs out.
Proof.
  revert out. induction seqs as [|s r IH]; intros out H; cbn [basket_match] in H.
  - inversion H. constructor.
  - destruct (match_first s sub rf start gap) as [m|] eqn:E; [|discriminate].
    destruct (basket_match r sub rf start gap) as [l'|] eqn:E'; [|discriminate]. cbn in H. inversion H; subst out.
    constructor; auto.
Qed.
(* an invalid rf raises on the first sequence; an empty basket never looks at rf *)
Lemma basket_empty sub rf start gap : basket_matchall [] sub rf start gap = Some [] /\ basket_match [] sub rf start gap = Some [].
Proof. split; reflexivity. Qed.
Lemma basket_sound seqs sub rf start gap out m : 0 <= start ->
  basket_matchall seqs sub rf start gap = Some out -> In m out ->
  exists s rfn, In s seqs /\ norm_rf rf = Some rfn /\
    (fwd_spec s sub rfn start gap m \/ exists l, rfn = Some l /\ bwd_spec s sub l start gap m).
Proof.
  intros H0 Hb Hi. apply (basket_matchall_in _ _ _ _ _ _ m Hb) in Hi. destruct Hi as (s & l & Hs & Hm & Hi).
  destruct (matchall_sound _ _ _ _ _ _ H0 Hm) as (rfn & F & B & Hn & -> & HF & HB).
  exists s, rfn. split; [exact Hs|]. split; [exact Hn|].
  apply in_app_or in Hi. destruct Hi as [Hi|Hi]; [left; auto|right; auto].
Qed.

(* rf given as a tuple, list or set: only membership matters (order and duplicates are irrelevant) *)
Lemma bool_eq_iff (a b : bool) : (a = true <-> b = true) -> a = b.
Proof. destruct a, b; intros [H1 H2]; try reflexivity; [symmetry; apply H1; reflexivity|apply H2; reflexivity]. Qed.
Lemma filter_map_ext {A B} (f g : A -> option B) l : (forall x, f x = g x) -> filter_map f l = filter_map g l.
Proof. intros H. induction l as [|x l IH]; [reflexivity|]. cbn. rewrite H, IH. reflexivity. Qed.
Lemma first_some_ext {A B} (f g : A -> option B) l : (forall x, f x = g x) -> first_some f l = first_some g l.
Proof. intros H. rewrite !first_some_hd. now rewrite (filter_map_ext f g l H). Qed.

Lemma rf_membership_only s sub start gap l l' : (forall z, In z l <-> In z l') ->
  matchall s sub (RList l) start gap = matchall s sub (RList l') start gap.
Proof.
  intros H.
  assert (Hz : forall z, zmem z l = zmem z l') by (intros z; apply bool_eq_iff; rewrite !zmem_In; apply H).
  assert (Hex : forall p, existsb p l = existsb p l').
  { intros p. apply bool_eq_iff. rewrite !existsb_exists. split; intros (x & Hi & Hp); exists x; split; auto; apply H; auto. }
  unfold matchall. cbn [norm_rf]. f_equal. f_equal.
  - unfold fwd_list. cbn [runs_fwd]. unfold has_fwd. rewrite Hex. destruct (existsb _ l'); [|reflexivity].
    replace (fwd_gaps gap (Some l) s start) with (fwd_gaps gap (Some l') s start) by (destruct gap; reflexivity).
    apply filter_map_ext. intros [b e]. unfold fwd_one. rewrite Hz. reflexivity.
  - unfold bwd_list, has_bwd. rewrite Hex. destruct (existsb _ l'); [|reflexivity]. cbv zeta.
    apply filter_map_ext. intros [b e]. unfold bwd_one. rewrite Hz. reflexivity.
Qed.
(* a single int is the one-element collection; the strings are the three fixed collections *)
Lemma rf_int_is_singleton s sub start gap z : matchall s sub (RInt z) start gap = matchall s sub (RList [z]) start gap.
Proof. reflexivity. Qed.
Lemma rf_both_is_union s sub start gap :
  matchall s sub (RStr (bs "both"%bs)) start gap = matchall s sub (RList [0; 1; 2; -1; -2; -3]) start gap /\
  matchall s sub (RStr (bs "fwd"%bs)) start gap = matchall s sub (RList [0; 1; 2]) start gap /\
  matchall s sub (RStr (bs "bwd"%bs)) start gap = matchall s sub (RList [-1; -2; -3]) start gap.
Proof. repeat split; reflexivity. Qed.
