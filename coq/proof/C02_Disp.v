(* C02: read_fts / write_fts dispatch: fmt is case-insensitive, the three formats are found by their extensions, and the
   table formats round-trip through the dispatch with their default separators. *)
From Coq Require Import List ZArith Lia Bool.
From Coq.Strings Require Import Byte.
Import ListNotations.
From SV Require Import Text G_gff C02_Model C02_Lemmas C02_Order C02_Read C02_Lenient C02_Xsv.
Local Open Scope Z_scope.

Lemma lower1_idem : forall c, lower1 (lower1 c) = lower1 c.
Proof. intros c; destruct c; reflexivity. Qed.
Lemma lower_idem s : lower (lower s) = lower s.
Proof. unfold lower. rewrite map_map. apply map_ext. exact lower1_idem. Qed.
(* fmt='GFF', 'Gff', 'gff' name the same format *)
Theorem fmt_key_lower s : fmt_key (lower s) = fmt_key s.
Proof. unfold fmt_key. rewrite lower_idem. reflexivity. Qed.
Theorem fmt_key_same_lower s1 s2 : lower s1 = lower s2 -> fmt_key s1 = fmt_key s2.
Proof. unfold fmt_key. intros ->. reflexivity. Qed.
(* the regenerated registry: each of the three formats is found by its own name and by its own extension; fmt wins over the
   extension *)
Theorem dispatch_names : forall f,
  fmt_key (fmt_name f) = Some f /\ resolve_w None (fmt_name f) = inl f /\
  (forall e, resolve_w (Some (fmt_name f)) e = inl f).
Proof. intros f; destruct f; vm_compute; repeat split; reflexivity. Qed.
Lemma default_sep_ok f : sep_ok (default_sep f) = true.
Proof. destruct f; reflexivity. Qed.
(* TSV / CSV through write_fts and read_fts with fmt in any spelling and the default separator of the format *)
Theorem dispatch_xsv_roundtrip s1 s2 ext f names x : fmt_key s1 = Some f -> fmt_key s2 = Some f -> f <> FGff ->
  names_ok (default_sep f) names = true -> names <> [] -> forallb (feat_clean (default_sep f) names) x = true ->
  exists t, write_fts_m (Some s1) ext None names x = inl t /\
    read_fts_m s2 None t =
    if sel_ok names then VL [VS (fmt_name f); v_xrecs (map (xspec None names) x)]
    else match x with [] => VL [VS (fmt_name f); v_xrecs []] | _ => key_error end.
Proof.
  intros K1 K2 NG N Hne H. exists (write_xsv (default_sep f) names x). unfold write_fts_m, resolve_w, read_fts_m. rewrite K1, K2.
  pose proof (xsv_total_dom (default_sep f) None names x (default_sep_ok f) N Hne H) as T.
  destruct f; [congruence| |]; (split; [reflexivity|]); rewrite T; destruct (sel_ok names); try reflexivity; destruct x; reflexivity.
Qed.
