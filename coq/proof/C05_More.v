(* C05, round 7: every byte string (not only the alphabet), exact involution region, RNA square, constructor,
   table derivation, object histories. *)
From Coq Require Import List ZArith NArith Bool Lia Arith.
From Coq.Strings Require Import Byte.
Import ListNotations.
From SV Require Import Text G_codes C05_Model C05_Lemmas.

(* ---------------- the translation table on all 256 code points ---------------- *)
Lemma trans1_outside c : in_alpha c = false -> trans1 c = c.
Proof. bytes c. Qed.
Lemma trans1_invol c : trans1 (trans1 c) = c.
Proof. bytes c. Qed.
Lemma trans1_U_iff c : byte_eqb cU (trans1 c) = byte_eqb cU c.
Proof. bytes c. Qed.
Lemma cc_true_spec c :
  cc true c = if byte_eqb c cU || byte_eqb c cT then cA else if byte_eqb c cA then cU else trans1 c.
Proof. bytes c. Qed.
Lemma cc_outside u c : in_alpha c = false -> byte_eqb cU c = false -> cc u c = c.
Proof. destruct u; bytes c. Qed.

Lemma complement_every_string s :
  complement s = map (cc (has cU s)) s /\ length (complement s) = length s /\
  (forall i, nth_error (complement s) i = option_map (cc (has cU s)) (nth_error s i)).
Proof.
  split; [apply complement_as_map|]. split; [apply complement_length|].
  intros i. rewrite complement_as_map. apply nth_error_map.
Qed.

(* ---------------- has / map helpers ---------------- *)
Lemma has_map x y (f : byte -> byte) s : (forall c, byte_eqb x (f c) = byte_eqb y c) -> has x (map f s) = has y s.
Proof.
  intros H. unfold has. induction s as [|a s IH]; simpl; [reflexivity|]. rewrite H, IH. reflexivity.
Qed.
Lemma has_map_false x (f : byte -> byte) s : (forall c, byte_eqb x (f c) = false) -> has x (map f s) = false.
Proof.
  intros H. unfold has. induction s as [|a s IH]; simpl; [reflexivity|]. rewrite H, IH. reflexivity.
Qed.
Lemma has_false_in x s c : has x s = false -> In c s -> byte_eqb x c = false.
Proof.
  intros H Hc. destruct (byte_eqb x c) eqn:E; [|reflexivity].
  apply byte_eqb_eq in E. subst. apply has_In in Hc. congruence.
Qed.
Lemma map_id_in (f : byte -> byte) s : (forall c, In c s -> f c = c) -> map f s = s.
Proof. intros H. rewrite <- (map_id s) at 2. apply map_ext_in. exact H. Qed.

Lemma replace1_fix a b s : byte_eqb a b = false -> (replace1 a b s = s <-> has a s = false).
Proof.
  intros Hab. unfold replace1. induction s as [|x s IH]; simpl; [tauto|].
  unfold has in *. simpl. destruct (byte_eqb x a) eqn:E.
  - apply byte_eqb_eq in E. subst x. rewrite byte_eqb_refl. simpl. split; [|discriminate].
    intros H. inversion H as [[H1 H2]]. subst b. rewrite byte_eqb_refl in Hab. discriminate.
  - assert (E2 : byte_eqb a x = false).
    { destruct (byte_eqb a x) eqn:E3; [|reflexivity]. apply byte_eqb_eq in E3. subst. rewrite byte_eqb_refl in E. discriminate. }
    rewrite E2. simpl. rewrite <- IH. split; intros H; [inversion H; congruence|congruence].
Qed.

Lemma t2u_no_T s : has cT (t2u s) = false.
Proof. unfold t2u, replace1. apply has_map_false. intros c. bytes c. Qed.
Lemma t2u_keeps_U s : has cU (t2u s) = has cU s || has cT s.
Proof.
  unfold t2u, replace1, has. induction s as [|x s IH]; [reflexivity|].
  cbn [map existsb]. rewrite IH. generalize (existsb (byte_eqb cU) s) (existsb (byte_eqb cT) s). intros p q.
  destruct x; destruct p, q; vm_compute; reflexivity.
Qed.
Lemma t2u_u2t s : has cT s = false -> t2u (u2t s) = s.
Proof.
  intros H. unfold t2u, u2t, replace1. rewrite map_map. apply map_id_in. intros c Hc.
  pose proof (has_false_in _ _ _ H Hc) as E. revert E. bytes c.
Qed.
Lemma u2t_t2u_id s : has cU s = false -> u2t (t2u s) = s.
Proof. intros H. rewrite u2t_t2u. apply u2t_id. exact H. Qed.
Lemma t2u_id s : has cT s = false -> t2u s = s.
Proof. intros H. apply replace1_fix; [reflexivity|exact H]. Qed.

(* ---------------- complement twice: the exact formula and the exact region of the involution ---------------- *)
Lemma complement_twice s :
  complement (complement s) = if has cU s then (if has cA s then t2u s else u2t s) else s.
Proof.
  rewrite (complement_as_map (complement s)). rewrite (complement_as_map s). destruct (has cU s) eqn:U.
  - assert (HU : has cU (map (cc true) s) = has cA s) by (apply has_map; intros c; bytes c).
    rewrite HU. destruct (has cA s) eqn:A.
    + rewrite map_map. unfold t2u, replace1. apply map_ext. intros c. bytes c.
    + rewrite map_map. unfold u2t, replace1. apply map_ext_in. intros c Hc.
      pose proof (has_false_in _ _ _ A Hc) as E. revert E. bytes c.
  - assert (HU : has cU (map (cc false) s) = false).
    { replace false with (has cU s) at 2 by exact U. apply has_map. intros c. apply trans1_U_iff. }
    rewrite HU. rewrite map_map. apply map_id_in. intros c _. apply trans1_invol.
Qed.

Lemma complement_involutive_iff s : complement (complement s) = s <-> inv_ok s = true.
Proof.
  rewrite complement_twice. unfold inv_ok. destruct (has cU s) eqn:U; simpl; [|tauto].
  destruct (has cA s) eqn:A; simpl.
  - unfold t2u. rewrite replace1_fix by reflexivity. destruct (has cT s); simpl; split; congruence.
  - unfold u2t. rewrite replace1_fix by reflexivity. split; congruence.
Qed.

Lemma rc_twice s : rc (rc s) = complement (complement s).
Proof.
  unfold rc, reverse. rewrite (complement_rev s). rewrite rev_involutive. reflexivity.
Qed.
Lemma rc_involutive_iff s : rc (rc s) = s <-> inv_ok s = true.
Proof. rewrite rc_twice. apply complement_involutive_iff. Qed.

(* all strings without U: any bytes whatsoever *)
Lemma involutive_no_U s : has cU s = false -> complement (complement s) = s /\ rc (rc s) = s.
Proof.
  intros H. assert (I : inv_ok s = true) by (unfold inv_ok; rewrite H; reflexivity).
  split; [apply complement_involutive_iff|apply rc_involutive_iff]; exact I.
Qed.

(* ---------------- RNA: the commuting squares ---------------- *)
Lemma rna_square s : has cU s = true -> complement s = t2u (complement (u2t s)) /\ has cT (complement s) = false.
Proof.
  intros H. unfold complement at 2. rewrite u2t_no_U. unfold complement. rewrite H. split; [reflexivity|apply t2u_no_T].
Qed.
Lemma mixed_TU s : has cU s = true -> complement s = complement (t2u s) /\ rc s = rc (t2u s).
Proof.
  intros H. assert (C : forall x, has cU x = true -> complement x = complement (t2u x)).
  { intros x Hx. unfold complement. rewrite t2u_keeps_U, Hx. simpl. rewrite u2t_t2u. reflexivity. }
  split; [apply C; exact H|]. unfold rc, reverse. rewrite C by (rewrite has_rev; exact H).
  unfold t2u. rewrite replace1_rev. reflexivity.
Qed.
Lemma has_A_trans s : has cT (py_translate s) = has cA s.
Proof. unfold py_translate. apply has_map. intros c. bytes c. Qed.
Lemma t2u_square_iff d : has cU d = false ->
  (complement (t2u d) = t2u (complement d) <-> has cT d = true \/ has cA d = false).
Proof.
  intros U. destruct (has cT d) eqn:T.
  - split; [intros _; left; reflexivity|]. intros _.
    unfold complement. rewrite t2u_keeps_U, U, T. simpl. rewrite u2t_t2u, (u2t_id d U). reflexivity.
  - rewrite (t2u_id d T). unfold complement. rewrite U. unfold t2u.
    split.
    + intros H. right. symmetry in H. apply replace1_fix in H; [|reflexivity]. rewrite has_A_trans in H. exact H.
    + intros [H|H]; [discriminate|]. symmetry. apply replace1_fix; [reflexivity|]. rewrite has_A_trans. exact H.
Qed.

(* RNA alphabet: set-level IUPAC semantics of the U branch, all 17 symbols *)
Lemma alphabet_rna_ok : forallb sym_ok_rna alphabet_rna = true.
Proof. vm_compute. reflexivity. Qed.
Lemma complement_table_sound_rna c : In c alphabet_rna ->
  set_eqb (iupac_rna (cc true c)) (map wc_rna (iupac_rna c)) = true /\ In (cc true c) alphabet_rna /\
  (is_gapsym c = true -> cc true c = c).
Proof.
  intros H. pose proof alphabet_rna_ok as A. rewrite forallb_forall in A. specialize (A c H).
  unfold sym_ok_rna in A. apply andb_prop in A. destruct A as [A G]. apply andb_prop in A. destruct A as [A B].
  split; [exact A|]. split; [apply has_In; exact B|].
  intros Hg. rewrite Hg in G. apply byte_eqb_eq in G. exact G.
Qed.

(* ---------------- the constructor: str(data).upper() ---------------- *)
Lemma construct_app a b : construct (a ++ b) = construct a ++ construct b.
Proof. unfold construct. apply flat_map_app. Qed.
Lemma upper1_idem c : construct (upper1 c) = upper1 c.
Proof. bytes c. Qed.
Lemma construct_idem s : construct (construct s) = construct s.
Proof.
  induction s as [|c s IH]; [reflexivity|]. change (construct (c :: s)) with (upper1 c ++ construct s).
  rewrite construct_app, IH, upper1_idem. reflexivity.
Qed.
Lemma construct_alpha s : forallb in_alpha_rna s = true -> construct s = s /\ construct (py_lower s) = s.
Proof.
  induction s as [|c s IH]; intros H; [split; reflexivity|]. simpl in H. apply andb_prop in H. destruct H as [Hc Hs].
  destruct (IH Hs) as [I1 I2]. change (construct (c :: s)) with (upper1 c ++ construct s).
  change (construct (py_lower (c :: s))) with (upper1 (lower1 c) ++ construct (py_lower s)). rewrite I1, I2.
  revert Hc. bytes c.
Qed.
Lemma construct_length_ascii s : forallb (fun c => N.ltb (nb c) 128) s = true -> length (construct s) = length s.
Proof.
  induction s as [|c s IH]; intros H; [reflexivity|]. simpl in H. apply andb_prop in H. destruct H as [Hc Hs].
  change (construct (c :: s)) with (upper1 c ++ construct s). rewrite app_length, (IH Hs). revert Hc. bytes c.
Qed.

(* ---------------- table derivation on the regenerated CODES / COMPLEMENT ---------------- *)
Definition derived0 : list (byte * byte) := match derive_all CODES COMPLEMENT with Some d => d | None => [] end.
Lemma derive_some : derive_all CODES COMPLEMENT = Some derived0.
Proof. vm_compute. reflexivity. Qed.
Lemma derived_all c : lookupB c derived0 = lookupB c COMPLEMENT_ALL.
Proof. destruct c; vm_compute; reflexivity. Qed.
(* as functions of str.translate: entries that map a code point to itself may be present or not *)
Lemma derived_trans c : trans_with (derive_trans derived0) c = trans1 c.
Proof. destruct c; vm_compute; reflexivity. Qed.
Lemma trans_keys_small : forallb (fun kv => N.ltb (fst kv) 256 && N.ltb (snd kv) 256) COMPLEMENT_TRANS = true.
Proof. vm_compute. reflexivity. Qed.
Lemma codes_are_iupac : forallb codes_ok alphabet = true /\ length CODES = length alphabet.
Proof. vm_compute. split; reflexivity. Qed.

Lemma derived_tables : exists d, derive_all CODES COMPLEMENT = Some d /\
  (forall c, lookupB c d = lookupB c COMPLEMENT_ALL) /\
  (forall c, trans_with (derive_trans d) c = trans1 c) /\
  forallb (fun kv => N.ltb (fst kv) 256 && N.ltb (snd kv) 256) COMPLEMENT_TRANS = true.
Proof.
  exists derived0. split; [exact derive_some|]. split; [exact derived_all|]. split; [exact derived_trans|exact trans_keys_small].
Qed.

Lemma witness_twice : inv_ok (bs "ACGU"%bs) = true /\ inv_ok (bs "UUU"%bs) = false /\ inv_ok (bs "ATU"%bs) = false /\
  Bstr (complement (complement (bs "UUU"%bs))) = "TTT"%bs /\ Bstr (complement (bs "TU"%bs)) = "AA"%bs /\
  Bstr (complement (bs "aXu-R"%bs)) = "aXu-Y"%bs /\ Bstr (complement (t2u (bs "AAA"%bs))) = "TTT"%bs /\
  Bstr (t2u (complement (bs "AAA"%bs))) = "UUU"%bs /\ Bstr (construct (bs "acgu-n"%bs)) = "ACGU-N"%bs.
Proof. vm_compute. repeat split; reflexivity. Qed.

(* ---------------- the derivation is sound for ANY code table (unbounded) ---------------- *)
Lemma set_eqb_iff a b : set_eqb a b = true <-> (forall x, In x a <-> In x b).
Proof.
  unfold set_eqb. rewrite andb_true_iff, !forallb_forall. split.
  - intros [H1 H2] x. split; intros H; apply has_In; auto.
  - intros H. split; intros x Hx; apply has_In; apply H; exact Hx.
Qed.
Lemma set_eqb_refl a : set_eqb a a = true.
Proof. apply set_eqb_iff. tauto. Qed.

Definition inv_good (codes : list (byte * list byte)) (t : list (list byte * byte)) : Prop :=
  forall a b, In (a, b) t -> exists v, In (b, v) codes /\ set_eqb a v = true.

Lemma inv_insert_good codes ks k t : In (k, ks) codes -> inv_good codes t -> inv_good codes (inv_insert ks k t).
Proof.
  intros Hk. induction t as [|[a b] r IH]; intros G.
  - intros a b [E|[]]. inversion E; subst a b. exists ks. split; [exact Hk|apply set_eqb_refl].
  - cbn [inv_insert]. destruct (set_eqb a ks) eqn:E.
    + intros a' b' [E'|Hin].
      * inversion E'; subst a' b'. exists ks. split; [exact Hk|exact E].
      * apply G. right. exact Hin.
    + intros a' b' [E'|Hin].
      * inversion E'; subst a' b'. apply G. left. reflexivity.
      * apply IH; [|exact Hin]. intros x y Hxy. apply G. right. exact Hxy.
Qed.

Lemma derive_inv_good_gen codes l t : (forall kv, In kv l -> In kv codes) -> inv_good codes t ->
  inv_good codes (fold_left (fun t kv => inv_insert (snd kv) (fst kv) t) l t).
Proof.
  revert t. induction l as [|[k v] l IH]; intros t Hsub G; [exact G|].
  cbn [fold_left fst snd]. apply IH.
  - intros kv H. apply Hsub. right. exact H.
  - apply inv_insert_good; [apply (Hsub (k, v)); left; reflexivity|exact G].
Qed.
Lemma derive_inv_good codes : inv_good codes (derive_inv codes).
Proof. apply derive_inv_good_gen; [auto|]. intros a b []. Qed.

Lemma lookupS_in ks t d : lookupS ks t = Some d -> exists a, In (a, d) t /\ set_eqb a ks = true.
Proof.
  induction t as [|[a b] r IH]; cbn [lookupS]; [discriminate|].
  destruct (set_eqb a ks) eqn:E.
  - intros H. inversion H; subst. exists a. split; [left; reflexivity|exact E].
  - intros H. destruct (IH H) as (a' & Hin & Ea). exists a'. split; [right; exact Hin|exact Ea].
Qed.

Lemma mapM_in {A B} (f : A -> option B) l r x : mapM f l = Some r -> In x l -> exists y, f x = Some y /\ In y r.
Proof.
  revert r. induction l as [|a l IH]; intros r H Hx; [destruct Hx|].
  cbn [mapM] in H. destruct (f a) as [y|] eqn:Fa; [|discriminate]. destruct (mapM f l) as [ys|] eqn:M; [|discriminate].
  inversion H; subst. destruct Hx as [E|Hx].
  - subst. exists y. split; [exact Fa|left; reflexivity].
  - destruct (IH ys eq_refl Hx) as (y' & Fy & Hy). exists y'. split; [exact Fy|right; exact Hy].
Qed.
Lemma mapM_keys {A B C} (f : A -> option B) (ka : A -> C) (kb : B -> C) l r :
  (forall x y, f x = Some y -> kb y = ka x) -> mapM f l = Some r -> map kb r = map ka l.
Proof.
  intros Hk. revert r. induction l as [|a l IH]; intros r H; cbn [mapM] in H; [inversion H; reflexivity|].
  destruct (f a) as [y|] eqn:Fa; [|discriminate]. destruct (mapM f l) as [ys|] eqn:M; [|discriminate].
  inversion H; subst. cbn [map]. rewrite (Hk a y Fa), (IH ys eq_refl). reflexivity.
Qed.

(* whatever CODES and COMPLEMENT are: if the derivation succeeds, the derived complement of a code c is a code of the table whose
   base set is the image of c's bases under COMPLEMENT; the derived table has the keys of CODES in the same order *)
Lemma derivation_sound codes compl d : derive_all codes compl = Some d ->
  map fst d = map fst codes /\
  forall c nts, In (c, nts) codes ->
    exists c' nts' img, In (c, c') d /\ In (c', nts') codes /\
      mapM (fun nt => lookupB nt compl) nts = Some img /\ (forall x, In x nts' <-> In x img).
Proof.
  intros H. unfold derive_all in H. split.
  - apply (mapM_keys _ fst fst _ _) with (2 := H). intros x y Hxy. unfold derive_entry in Hxy.
    destruct (mapM _ (snd x)); [|discriminate]. destruct (lookupS _ _); [|discriminate]. inversion Hxy. reflexivity.
  - intros c nts Hin. destruct (mapM_in _ _ _ _ H Hin) as (y & Fy & Hy). unfold derive_entry in Fy. cbn [fst snd] in Fy.
    destruct (mapM (fun nt => lookupB nt compl) nts) as [img|] eqn:M; [|discriminate].
    destruct (lookupS img (derive_inv codes)) as [c'|] eqn:L; [|discriminate]. inversion Fy; subst y.
    destruct (lookupS_in _ _ _ L) as (a & Ha & Ea). destruct (derive_inv_good codes a c' Ha) as (v & Hv & Eav).
    exists c', v, img. split; [exact Hy|]. split; [exact Hv|]. split; [reflexivity|].
    intros x. rewrite set_eqb_iff in Ea, Eav. rewrite <- Eav. apply Ea.
Qed.

Lemma witness_derive : exists d, derive_all [("A"%byte, bs "A"%bs); ("T"%byte, bs "T"%bs); ("W"%byte, bs "AT"%bs); ("X"%byte, bs "TA"%bs)]
    [("A"%byte, "T"%byte); ("T"%byte, "A"%byte)] = Some d /\ lookupB "W"%byte d = Some "X"%byte.
Proof. eexists. split; vm_compute; reflexivity. Qed.

(* ---------------- rc position by position ---------------- *)
Lemma nth_error_rev {A} (l : list A) i : i < length l -> nth_error (rev l) i = nth_error l (length l - 1 - i).
Proof.
  intros H. destruct l as [|d l']; [simpl in H; lia|]. set (l := d :: l') in *.
  rewrite (nth_error_nth' (rev l) d) by (rewrite rev_length; exact H).
  rewrite (nth_error_nth' l d) by lia.
  rewrite rev_nth by exact H. f_equal. f_equal. lia.
Qed.
Lemma rc_positionwise s i : i < length s ->
  nth_error (rc s) i = option_map (cc (has cU s)) (nth_error s (length s - 1 - i)).
Proof.
  intros H. destruct (rc_defs s) as [_ E]. rewrite E. rewrite nth_error_rev by (rewrite complement_length; exact H).
  rewrite complement_length. apply complement_every_string.
Qed.

(* ---------------- complement and concatenation / slices: only the flag matters ---------------- *)
Lemma has_app c a b : has c (a ++ b) = has c a || has c b.
Proof. unfold has. apply existsb_app. Qed.
Lemma complement_app a b :
  complement (a ++ b) = map (cc (has cU a || has cU b)) a ++ map (cc (has cU a || has cU b)) b.
Proof. rewrite complement_as_map, has_app, map_app. reflexivity. Qed.
Lemma complement_app_same a b : has cU a = has cU b -> complement (a ++ b) = complement a ++ complement b.
Proof.
  intros H. rewrite complement_app, !complement_as_map. rewrite H. destruct (has cU b); reflexivity.
Qed.
(* a U-free piece next to a piece with U is complemented as RNA: the pieces do not commute with complement unless the U-free
   piece has none of the two symbols (A, U) on which the two maps differ *)
Lemma cc_differ c : byte_eqb (cc true c) (cc false c) = negb (byte_eqb c cA || byte_eqb c cU).
Proof. bytes c. Qed.

(* ---------------- closed alphabets ---------------- *)
Definition in_rna (c : byte) : bool := has c alphabet_rna.
Lemma cc_rna_closed c : in_rna c = true -> in_rna (cc true c) = true.
Proof. bytes c. Qed.
Lemma closed_alphabets s :
  (forallb in_alpha s = true -> forallb in_alpha (complement s) = true /\ forallb in_alpha (rc s) = true) /\
  (forallb in_rna s = true -> has cU s = true -> forallb in_rna (complement s) = true /\ forallb in_rna (rc s) = true).
Proof.
  split.
  - intros H. split; [apply complement_alpha; exact H|]. unfold rc, reverse. apply complement_alpha, rev_alpha, H.
  - intros H U.
    assert (C : forall x, forallb in_rna x = true -> has cU x = true -> forallb in_rna (complement x) = true).
    { intros x Hx Ux. rewrite complement_as_map, Ux. rewrite forallb_forall in *. intros y Hy. apply in_map_iff in Hy.
      destruct Hy as (z & E & Hz). subst. apply cc_rna_closed. auto. }
    split; [apply C; assumption|]. unfold rc, reverse. apply C; [|rewrite has_rev; exact U].
    rewrite forallb_forall in *. intros x Hx. apply H. apply in_rev. exact Hx.
Qed.

Lemma map_cc_eq b : has cU b = false -> (map (cc true) b = map (cc false) b <-> has cA b = false).
Proof.
  unfold has. induction b as [|x b IH]; cbn [map existsb]; [tauto|].
  intros H. apply orb_false_elim in H. destruct H as [Hx Hb]. specialize (IH Hb).
  pose proof (cc_differ x) as D. split.
  - intros E.
    assert (D2 : byte_eqb (cc true x) (cc false x) = true) by (apply byte_eqb_eq; injection E; auto).
    assert (E2 : map (cc true) b = map (cc false) b) by (injection E; auto).
    rewrite D in D2.
    apply orb_false_intro; [|apply IH; exact E2].
    destruct (byte_eqb cA x) eqn:A; [|reflexivity]. apply byte_eqb_eq in A. subst x. discriminate D2.
  - intros E. apply orb_false_elim in E. destruct E as [Ex Eb]. f_equal; [|apply IH; exact Eb].
    apply byte_eqb_eq. rewrite D. clear -Hx Ex. revert Hx Ex. bytes x.
Qed.

Lemma complement_app_iff a b :
  complement (a ++ b) = complement a ++ complement b <->
  (has cU a = has cU b \/ (has cU a = true /\ has cA b = false) \/ (has cU b = true /\ has cA a = false)).
Proof.
  rewrite complement_app, !complement_as_map.
  destruct (has cU a) eqn:Ua, (has cU b) eqn:Ub; cbn [orb].
  - split; [left; reflexivity|reflexivity].
  - split.
    + intros E. apply app_inv_head in E. right. left. split; [reflexivity|]. apply map_cc_eq; assumption.
    + intros [E|[[_ E]|[E _]]]; try discriminate. f_equal. apply map_cc_eq; assumption.
  - split.
    + intros E. apply app_inv_tail in E. right. right. split; [reflexivity|]. apply map_cc_eq; assumption.
    + intros [E|[[E _]|[_ E]]]; try discriminate. f_equal. apply map_cc_eq; assumption.
  - split; [left; reflexivity|reflexivity].
Qed.

Lemma witness_app : Bstr (complement (bs "AC"%bs ++ bs "GU"%bs)) = "UGCA"%bs /\
  Bstr (complement (bs "AC"%bs) ++ complement (bs "GU"%bs)) = "TGCA"%bs /\
  nth_error (rc (bs "AACGU"%bs)) 1 = Some "C"%byte.
Proof. vm_compute. repeat split; reflexivity. Qed.
