(* C03 proofs, part 4: the write-side decision against its declarative table; fmt given / omitted on the read side. *)
From Coq Require Import List ZArith NArith Bool Lia.
From Coq.Strings Require Import Byte.
Import ListNotations.
From SV Require Import Text G_c03 C03_Model C03_Lemmas.

Lemma write_resolve_table : forall w fa f fmt a, write_resolve w fa f fmt a = wtable w fa f fmt a.
Proof.
  intros w fa f fmt a. unfold write_resolve, wtable, write_fmt, detect_ext_arg, is_name_arg.
  destruct a, f, fmt; cbn; try reflexivity;
    repeat match goal with |- context [detect_ext ?w ?s] => destruct (detect_ext w s); cbn end; reflexivity.
Qed.

(* consequences of the table *)
Lemma write_fmt_option_wins : forall w fa f x a d, write_resolve w fa f (Some x) a = d ->
  match d with
  | WToStr y | WHandle y | WFile _ y | WArchive _ _ y => y = lower x
  | WErrArchiveHandle => a <> ANone /\ is_name_arg f = None
  | WErrNoFmt | WErrDetect => False
  end.
Proof.
  intros w fa f x a d H. subst d. unfold write_resolve, write_fmt. destruct a, f; cbn; try reflexivity; split; congruence.
Qed.
Lemma write_errors : forall w fa f fmt a,
  (write_resolve w fa f fmt a = WErrArchiveHandle <-> a <> ANone /\ is_name_arg f = None) /\
  (write_resolve w fa f fmt a = WErrNoFmt <-> a = ANone /\ f = FNone /\ fmt = None).
Proof.
  intros w fa f fmt a. rewrite write_resolve_table. unfold wtable, is_name_arg. split; split.
  - destruct a, f, fmt; cbn; intros H; try discriminate H;
      repeat match goal with H : context [detect_ext ?w ?s] |- _ => destruct (detect_ext w s); cbn in H end;
      try discriminate H; split; congruence.
  - intros [Ha Hf]. destruct a; [congruence| |]; destruct f; try discriminate Hf; reflexivity.
  - destruct a, f, fmt; cbn; intros H; try discriminate H;
      repeat match goal with H : context [detect_ext ?w ?s] |- _ => destruct (detect_ext w s); cbn in H end;
      try discriminate H; repeat split; reflexivity.
  - intros [Ha [Hf Hm]]. subst. reflexivity.
Qed.
(* writing derives the format from the extension: <stem>.<ext> with fmt omitted *)
Lemma chain_names_lower : forall w p, In p (chain w) -> lower (p_name p) = p_name p.
Proof.
  intros w p H.
  assert (G : forallb (fun q => str_eqb (lower (p_name q)) (p_name q)) (chain w) = true) by (destruct w; vm_compute; reflexivity).
  rewrite forallb_forall in G. apply str_eqb_eq. apply G. exact H.
Qed.
Lemma write_by_extension : forall w fa p e stem,
  In p (chain w) -> In e (p_exts p) ->
  forallb (fun c => negb (byte_eqb c slash)) stem = true -> forallb (fun c => byte_eqb c dot) stem = false ->
  write_resolve w fa (FStr (stem ++ dot :: e)) None ANone = WFile (stem ++ dot :: e) (p_name p) /\
  write_resolve w fa (FPath (stem ++ dot :: e)) None ANone = WFile (stem ++ dot :: e) (p_name p) /\
  write_resolve w fa (FStr (stem ++ dot :: e)) None ATrue = WArchive (stem ++ dot :: e) fa (p_name p).
Proof.
  intros w fa p e stem Hp He Hs Hd.
  pose proof (detect_ext_spec w p e stem Hp He Hs Hd) as E.
  unfold write_resolve, write_fmt, detect_ext_arg. rewrite E. cbn [option_map]. rewrite (chain_names_lower w p Hp).
  repeat split.
  assert (Hb : basename (stem ++ dot :: e) = stem ++ dot :: e).
  { unfold basename. rewrite split_on_noslash; [reflexivity|].
    assert (Hok : forallb (fun x => forallb (fun c => negb (byte_eqb c slash)) x) (flat_map p_exts (chain w)) = true)
      by (destruct w; vm_compute; reflexivity).
    rewrite forallb_forall in Hok. rewrite forallb_app, Hs. cbn [forallb].
    rewrite (Hok e) by (apply in_flat_map; exists p; split; assumption). reflexivity. }
  rewrite Hb, E. cbn [option_map]. rewrite (chain_names_lower w p Hp). reflexivity.
Qed.

(* ------------------------------------------------------------------ fmt given / omitted *)
Lemma read_fmt_given_or_detected : forall w o h d h',
  detect_h w o h = (DFound d, h') -> read_plan w o None h = read_plan w o (Some d) h.
Proof.
  intros w o h d h' H. unfold read_plan. rewrite H.
  pose proof (detect_restores_pos w o h) as [Hp Hc]. rewrite H in Hp, Hc. cbn [snd] in Hp, Hc.
  assert (Hb : h_binary h' = h_binary h).
  { clear Hp Hc. unfold detect_h in H. revert H. generalize (h_tell h) as fpos. generalize (chain w) as ps. intros ps. revert h h'.
    induction ps as [|p rest IH]; intros h h' fpos H; cbn [detect_loop] in H; [discriminate|].
    destruct (negb (p_has_sniffer p)); [exact (IH _ _ _ H)|].
    destruct (p_binary p && negb (h_binary h)); [exact (IH _ _ _ H)|].
    destruct (p_binary p); [discriminate|].
    destruct (sniffer_of w (p_name p)) as [sn|]; [|discriminate].
    destruct (sn o (h_rest h)) as [[|]|]; try (apply IH in H; exact H).
    inversion H; subst. reflexivity. }
  rewrite Hp, Hc, Hb. reflexivity.
Qed.
Lemma read_fmt_omitted_fails_iff : forall w o h,
  read_plan w o None h = None <-> (forall d, fst (detect_h w o h) <> DFound d).
Proof.
  intros w o h. unfold read_plan. destruct (detect_h w o h) as [[d| |u] h']; cbn [fst]; split; intros H;
    try discriminate H; try reflexivity; try (intros ?; discriminate); exfalso; apply (H d); reflexivity.
Qed.

(* ------------------------------------------------------------------ archive extensions (regenerated table) *)
(* every extension shutil.unpack_archive is documented to know must be in the table _resolve_fname consults *)
Definition KNOWN_ARCHIVE_EXTS : list str :=
  [bs "zip"%bs; bs "tar"%bs; bs "tar.gz"%bs; bs "tgz"%bs; bs "tar.bz2"%bs; bs "tbz2"%bs; bs "tar.xz"%bs; bs "txz"%bs].
Lemma archive_exts_complete : subset_str KNOWN_ARCHIVE_EXTS ARCHIVE_EXTS = true.
Proof. vm_compute. reflexivity. Qed.
Lemma mem_str_In' : forall x l, In x l -> mem_str x l = true.
Proof. intros x l H. unfold mem_str. apply existsb_exists. exists x. split; [exact H|apply str_eqb_refl]. Qed.
(* hence a plain local name ending in one of them is unpacked as an archive, whatever the archive option *)
Lemma resolve_known_archive : forall dd ex stem e a,
  In e KNOWN_ARCHIVE_EXTS -> plain_name (stem ++ dot :: e) = true ->
  resolve dd ex (FStr (stem ++ dot :: e)) a = DArchive (stem ++ dot :: e) (match a with AStr s => Some s | _ => None end).
Proof.
  intros dd ex stem e a He Hp. rewrite resolve_spec by exact Hp.
  assert (Hin : has_archive_ext (stem ++ dot :: e) = true).
  { unfold has_archive_ext. apply existsb_exists. exists e. split.
    - pose proof archive_exts_complete as C. unfold subset_str in C. rewrite forallb_forall in C.
      specialize (C e He). unfold mem_str in C. apply existsb_exists in C. destruct C as [y [Hy Ey]]. apply str_eqb_eq in Ey. subst y. exact Hy.
    - unfold endswith. rewrite rev_app_distr. apply startswith_self_app. }
  rewrite Hin, orb_true_r. reflexivity.
Qed.
