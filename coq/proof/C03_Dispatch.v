(* C03 proofs, part 8: which plugin function read / iter_ / write(mode=) call; which file objects get a text layer. *)
From Coq Require Import List ZArith NArith Bool Lia.
From Coq.Strings Require Import Byte.
Import ListNotations.
From SV Require Import Text G_c03 C03_Model C03_Lemmas.

(* every registered plugin can be read -- through read AND through iter_ (sequences), through read_fts (features) -- and the
   SUPPORT tables list exactly the plugins of the detection chains *)
Definition can (p : pfun) : bool := match p with PNoSupport => false | _ => true end.
Lemma dispatch_support :
  forallb (fun s => can (dispatch_read (snd s)) && can (dispatch_iter (snd s))) SUPPORT_seqs = true /\
  forallb (fun s => can (dispatch_read_fts (snd s))) SUPPORT_fts = true /\
  map fst SUPPORT_seqs = map fst PLUGINS_seqs /\ map fst SUPPORT_fts = map fst PLUGINS_fts.
Proof. vm_compute. repeat split; reflexivity. Qed.

(* read prefers read_<fmt>, iter_ prefers iter_<fmt>; each falls back to the other; RuntimeError exactly when neither exists *)
Lemma read_dispatch_spec : forall r i w a,
  (dispatch_read (r, (i, (w, a))) = PNoSupport <-> r = false /\ i = false) /\
  (dispatch_iter (r, (i, (w, a))) = PNoSupport <-> r = false /\ i = false) /\
  (r = true -> dispatch_read (r, (i, (w, a))) = PRead) /\ (i = true -> dispatch_iter (r, (i, (w, a))) = PIter) /\
  (r = false -> i = true -> dispatch_read (r, (i, (w, a))) = PIter) /\ (i = false -> r = true -> dispatch_iter (r, (i, (w, a))) = PRead).
Proof. intros [|] [|] w a; cbn; repeat split; try congruence; try (intros [? ?]; congruence); intros; discriminate. Qed.

Definition has_a (mode : str) : bool := contains (bs "a"%bs) mode.
Definition has_w (mode : str) : bool := contains (bs "w"%bs) mode.
(* write(mode=m) as a table over (append_ exists, write_ exists, 'a' in m, 'w' in m) *)
Lemma write_dispatch_spec : forall mode r i w a,
  dispatch_write mode (r, (i, (w, a))) =
    match a, w, has_a mode, has_w mode with
    | true, _, true, _ => PAppend               (* appending, and the plugin can append: object by object *)
    | _, true, _, _ => PWrite                   (* else the plugin's writer for the whole collection (also for mode 'a') *)
    | true, false, false, true => PAppend       (* no writer: a fresh file is written object by object *)
    | _, _, _, _ => PNoSupport
    end.
Proof. intros mode r i [|] [|]; unfold dispatch_write, has_a, has_w; cbn [andb]; destruct (contains (bs "a"%bs) mode), (contains (bs "w"%bs) mode); reflexivity. Qed.
(* the default mode 'w': the writer if there is one, else append per object; writable = the converter's `writable` *)
Lemma write_default_mode : forall w0 f s, lookup_support f (support_tab w0) = Some s ->
  (writable w0 f = None <-> dispatch_write (bs "w"%bs) s <> PNoSupport) /\
  (readable w0 f = None <-> dispatch_read s <> PNoSupport).
Proof.
  intros w0 f [r [i [w a]]] H. unfold writable, readable. rewrite H. unfold dispatch_write, dispatch_read.
  change (contains (bs "a"%bs) (bs "w"%bs)) with false. change (contains (bs "w"%bs) (bs "w"%bs)) with true.
  destruct r, i, w, a; cbn; split; split; intros; try congruence; try discriminate; exfalso; auto.
Qed.

(* which file objects get a text layer *)
Lemma is_binary_handle_spec : forall io_binary has_encoding mode_b,
  (io_binary = true -> is_binary_handle io_binary has_encoding mode_b = true) /\
  (io_binary = false -> has_encoding = true -> is_binary_handle io_binary has_encoding mode_b = false) /\
  (io_binary = false -> has_encoding = false -> is_binary_handle io_binary has_encoding mode_b = mode_b).
Proof. intros [|] [|] [|]; cbn; repeat split; congruence. Qed.

Lemma witness_dispatch :
  dispatch_write (bs "w"%bs) (false, (true, (false, true))) = PAppend /\          (* fasta *)
  dispatch_write (bs "a"%bs) (true, (false, (true, false))) = PWrite /\           (* stockholm, mode 'a' *)
  dispatch_write (bs "x"%bs) (false, (true, (false, true))) = PNoSupport /\
  dispatch_read (false, (true, (false, true))) = PIter /\
  dispatch_iter (true, (false, (true, false))) = PRead /\
  is_binary_handle false false true = true.
Proof. vm_compute. repeat split; reflexivity. Qed.
