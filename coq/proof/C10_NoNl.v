(* C10: the side condition "no rendered line contains a newline" of wf_C10 follows from the character classes of wf_arec *)
From Coq Require Import List ZArith NArith Bool Lia.
From Coq.Strings Require Import Byte.
Import ListNotations.
From SV Require Import Text G_flags C10_Model C10_Lemmas C10_Table C10_Reader.

Definition P (c : byte) : bool := negb (byte_eqb nl c).
Definition Pl (l : str) : Prop := forallb P l = true.
Lemma no_has_nl l : negb (has nl l) = forallb P l.
Proof. induction l as [|c r IH]; [reflexivity|]. rewrite has_cons. cbn [forallb]. unfold P at 1. rewrite <- IH. now rewrite negb_orb. Qed.
Lemma Pl_app a b : Pl a -> Pl b -> Pl (a ++ b).
Proof. unfold Pl. intros. rewrite forallb_app. now rewrite H, H0. Qed.
Lemma Pl_cons c l : P c = true -> Pl l -> Pl (c :: l).
Proof. unfold Pl. intros. cbn. now rewrite H, H0. Qed.
Lemma Pl_spaces n : Pl (spaces n).
Proof. induction n; [reflexivity|]. apply Pl_cons; [reflexivity|exact IHn]. Qed.
Lemma Pl_rstrip s : Pl s -> Pl (rstrip s).
Proof.
  unfold Pl. induction s as [|c r IH]; [reflexivity|]. cbn [forallb rstrip]. intros H. apply andb_prop in H. destruct H as [Hc Hr].
  specialize (IH Hr). destruct (rstrip r) as [|x t]; [destruct (is_ws c); [reflexivity|cbn; now rewrite Hc]|]. cbn [forallb] in *. now rewrite Hc.
Qed.
Lemma Pl_class (Q : byte -> bool) : (forall c, Q c = true -> P c = true) -> forall s, forallb Q s = true -> Pl s.
Proof. intros H s. apply forallb_impl. exact H. Qed.
Lemma printable_P c : printable c = true -> P c = true. Proof. destruct c; vm_compute; congruence. Qed.
Lemma upper_P c : is_upper c = true -> P c = true. Proof. destruct c; vm_compute; congruence. Qed.
Lemma keych_P c : is_keych c = true -> P c = true. Proof. destruct c; vm_compute; congruence. Qed.
Lemma word_P c : is_word c = true -> P c = true. Proof. destruct c; vm_compute; congruence. Qed.
Lemma alpha_P c : is_alpha c = true -> P c = true. Proof. destruct c; vm_compute; congruence. Qed.
Lemma digit_P c : is_digit c = true -> P c = true. Proof. destruct c; vm_compute; congruence. Qed.
Lemma Pl_pad_right n s : Pl s -> Pl (pad_right n s).
Proof. intros H. unfold pad_right. apply Pl_app; [exact H|apply Pl_spaces]. Qed.
Lemma Pl_pad_left n s : Pl s -> Pl (pad_left n s).
Proof. intros H. unfold pad_left. apply Pl_app; [apply Pl_spaces|exact H]. Qed.
Lemma Pl_firstn n s : Pl s -> Pl (firstn n s). Proof. apply forallb_firstn. Qed.
Lemma Pl_skipn n s : Pl s -> Pl (skipn n s). Proof. apply forallb_skipn. Qed.
Lemma wf_text_P t : wf_text t = true -> Pl t.
Proof.
  unfold wf_text. intros H. do 4 (apply andb_prop in H; destruct H as [H _]). apply (Pl_class printable printable_P). exact H.
Qed.

Lemma field_lines_P first ls : Pl first -> forallb wf_text ls = true -> Forall Pl (render_field_lines first ls).
Proof.
  intros Hf W. destruct ls as [|l r]; cbn [render_field_lines].
  - constructor; [apply Pl_rstrip; exact Hf|constructor].
  - cbn [forallb] in W. apply andb_prop in W. destruct W as [Wl Wr]. constructor; [apply Pl_app; [exact Hf|apply wf_text_P; exact Wl]|].
    apply Forall_forall. intros x Hx. apply in_map_iff in Hx. destruct Hx as (t & <- & Ht). rewrite forallb_forall in Wr.
    apply Pl_app; [apply Pl_spaces|apply wf_text_P; apply Wr; exact Ht].
Qed.
Lemma hfield_P h : wf_hfield h = true -> Forall Pl (render_hfield h).
Proof.
  intros W. unfold wf_hfield in W.
  apply andb_prop in W. destruct W as [W _]. apply andb_prop in W. destruct W as [W W7]. apply andb_prop in W. destruct W as [W W6].
  apply andb_prop in W. destruct W as [W _]. apply andb_prop in W. destruct W as [W _]. apply andb_prop in W. destruct W as [W _].
  apply andb_prop in W. destruct W as [_ W2].
  unfold render_hfield. apply Forall_app. split.
  - apply field_lines_P; [apply Pl_pad_right; apply (Pl_class is_upper upper_P); exact W2|exact W6].
  - apply Forall_forall. intros x Hx. apply in_flat_map in Hx. destruct Hx as (p & Hp & Hx). rewrite forallb_forall in W7. specialize (W7 p Hp).
    apply andb_prop in W7. destruct W7 as [W7 S5]. apply andb_prop in W7. destruct W7 as [W7 _]. apply andb_prop in W7. destruct W7 as [W7 _].
    apply andb_prop in W7. destruct W7 as [_ S2].
    assert (F : Forall Pl (render_field_lines (spaces 2 ++ pad_right 10 (fst p)) (snd p))).
    { apply field_lines_P; [apply Pl_app; [apply Pl_spaces|apply Pl_pad_right; apply (Pl_class is_upper upper_P); exact S2]|exact S5]. }
    rewrite Forall_forall in F. apply F. exact Hx.
Qed.
Lemma Pl_lit (s : str) : forallb P s = true -> Pl s. Proof. exact (fun H => H). Qed.
Lemma qtext_go_P r : forall first, Pl first -> Forall (fun c => Pl c) r -> Forall Pl (qtext_go first r).
Proof.
  induction r as [|c r IH]; intros first Hf Hr; cbn [qtext_go].
  - constructor; [apply Pl_app; [exact Hf|reflexivity]|constructor].
  - inversion Hr; subst. constructor; [exact Hf|]. apply IH; [apply Pl_app; [apply Pl_spaces|assumption]|assumption].
Qed.
Lemma qual_P q : wf_qual q = true -> Forall Pl (render_qual q).
Proof.
  assert (K : forall k, wf_qkey k = true -> Pl k).
  { intros k H. unfold wf_qkey in H. do 2 (apply andb_prop in H; destruct H as [H _]). apply andb_prop in H. destruct H as [_ H].
    apply (Pl_class is_word word_P). exact H. }
  assert (L : forall k rest, Pl k -> Pl rest -> Pl (spaces 21 ++ "/"%byte :: k ++ rest)).
  { intros k rest Hk Hr. apply Pl_app; [apply Pl_spaces|]. apply Pl_cons; [reflexivity|]. apply Pl_app; assumption. }
  destruct q as [k cs|k dg|k v|k]; cbn [wf_qual]; intros W.
  - apply andb_prop in W. destruct W as [W _]. apply andb_prop in W. destruct W as [Wk Wc].
    assert (C : Forall (fun c => Pl c) cs).
    { apply Forall_forall. intros c Hc. rewrite forallb_forall in Wc. specialize (Wc c Hc). apply andb_prop in Wc. destruct Wc as [Wc _].
      apply (Pl_class printable printable_P). exact Wc. }
    destruct cs as [|c0 r].
    + cbn [render_qual]. constructor; [|constructor]. apply (L k ["="%byte; dq; dq]); [apply K; exact Wk|reflexivity].
    + rewrite render_qtext. inversion C; subst. apply qtext_go_P; [|assumption].
      apply (L k ("="%byte :: dq :: c0)); [apply K; exact Wk|]. apply Pl_cons; [reflexivity|]. apply Pl_cons; [reflexivity|assumption].
  - apply andb_prop in W. destruct W as [Wk Wd]. cbn [render_qual]. constructor; [|constructor].
    apply (L k ("="%byte :: dg)); [apply K; exact Wk|]. apply Pl_cons; [reflexivity|].
    apply all_digits_forall in Wd. destruct Wd as [Wd _]. apply (Pl_class is_digit digit_P). exact Wd.
  - do 2 (apply andb_prop in W; destruct W as [W _]). apply andb_prop in W. destruct W as [W Wp]. apply andb_prop in W. destruct W as [Wk _].
    cbn [render_qual]. constructor; [|constructor].
    apply (L k ("="%byte :: v)); [apply K; exact Wk|]. apply Pl_cons; [reflexivity|]. apply (Pl_class printable printable_P). exact Wp.
  - apply andb_prop in W. destruct W as [_ W]. cbn [render_qual]. constructor; [|constructor].
    replace (spaces 21 ++ "/"%byte :: k) with (spaces 21 ++ "/"%byte :: k ++ []) by now rewrite app_nil_r.
    apply L; [apply (Pl_class is_word word_P); exact W|reflexivity].
Qed.
Lemma feat_P f : wf_afeat_pre f = true -> Forall Pl (render_feat f).
Proof.
  intros W. unfold wf_afeat_pre in W.
  apply andb_prop in W. destruct W as [W Wq]. apply andb_prop in W. destruct W as [W We]. apply andb_prop in W. destruct W as [W _].
  apply andb_prop in W. destruct W as [W _]. apply andb_prop in W. destruct W as [_ Wch].
  rewrite render_feat_split. apply Forall_app. split.
  - assert (C : forallb (forallb P) (wrap_at (print (aloc f)) (awrap f)) = true).
    { apply wrap_at_forallb. apply print_forallb; [exact digit_P|reflexivity|exact We]. }
    destruct (wrap_at (print (aloc f)) (awrap f)) as [|c0 cr]; [constructor|]. cbn [forallb] in C. apply andb_prop in C. destruct C as [C0 Cr].
    cbn [loc_lines]. constructor.
    + apply Pl_app; [apply Pl_spaces|]. apply Pl_app; [apply Pl_pad_right; apply (Pl_class is_keych keych_P); exact Wch|exact C0].
    + apply Forall_forall. intros x Hx. apply in_map_iff in Hx. destruct Hx as (t & <- & Ht). rewrite forallb_forall in Cr.
      apply Pl_app; [apply Pl_spaces|apply Cr; exact Ht].
  - apply Forall_forall. intros x Hx. apply in_flat_map in Hx. destruct Hx as (q & Hq & Hx). rewrite forallb_forall in Wq.
    pose proof (qual_P q (Wq q Hq)) as F. rewrite Forall_forall in F. apply F. exact Hx.
Qed.
Lemma join_P gs : Forall (fun g => Pl g) gs -> Pl (join [sp] gs).
Proof.
  induction 1 as [|g r Hg Hr IH]; [reflexivity|]. destruct r as [|g2 r']; [exact Hg|]. rewrite join_cons2.
  apply Pl_app; [exact Hg|]. apply Pl_app; [reflexivity|exact IH].
Qed.
Lemma origin_go_P ls : Forall chunk_ok ls -> forall pos, forallb pos_ok (pos_list pos (length ls)) = true -> Forall Pl (origin_go ls pos).
Proof.
  induction 1 as [|l r Hl Hr IH]; intros pos Hp; [constructor|]. cbn [length pos_list forallb] in Hp. apply andb_prop in Hp. destruct Hp as [Hp0 Hp].
  cbn [origin_go]. constructor; [|apply IH; exact Hp]. unfold origin_line_of.
  unfold pos_ok in Hp0. apply andb_prop in Hp0. destruct Hp0 as [Hd _]. apply all_digits_forall in Hd. destruct Hd as [Hd _].
  apply Pl_app; [apply Pl_pad_left; apply (Pl_class is_digit digit_P); exact Hd|]. apply Pl_cons; [reflexivity|].
  apply join_P. destruct Hl as (_ & _ & Ha). pose proof (groups_sub is_alpha 10 7 l Ha) as G.
  apply Forall_forall. intros g Hg. rewrite Forall_forall in G. apply (Pl_class is_alpha alpha_P). apply G. exact Hg.
Qed.
Lemma rec_P excl r : wf_arec excl r = true -> Forall Pl (render_rec r).
Proof.
  intros W. unfold wf_arec in W.
  apply andb_prop in W. destruct W as [W _]. apply andb_prop in W. destruct W as [W _]. apply andb_prop in W. destruct W as [W Wpos].
  apply andb_prop in W. destruct W as [W Wseq]. apply andb_prop in W. destruct W as [W Wfts]. apply andb_prop in W. destruct W as [Whdr _].
  unfold render_rec. apply Forall_app. split.
  { apply Forall_forall. intros x Hx. apply in_flat_map in Hx. destruct Hx as (h & Hh & Hx). rewrite forallb_forall in Whdr.
    pose proof (hfield_P h (Whdr h Hh)) as F. rewrite Forall_forall in F. apply F. exact Hx. }
  apply Forall_app. split.
  { destruct (afeatures r); [|constructor]. constructor; [reflexivity|].
    apply Forall_forall. intros x Hx. apply in_flat_map in Hx. destruct Hx as (f & Hf & Hx). rewrite forallb_forall in Wfts.
    specialize (Wfts f Hf). apply andb_prop in Wfts. destruct Wfts as [Wf _].
    pose proof (feat_P f Wf) as F. rewrite Forall_forall in F. apply F. exact Hx. }
  apply Forall_app. split.
  { destruct (aorigin r); [|constructor]. constructor; [reflexivity|]. rewrite render_origin_eq.
    apply origin_go_P; [apply groups_chunk_ok; exact Wseq|]. unfold origin_positions in Wpos. rewrite pos_list_map in Wpos. exact Wpos. }
  constructor; [reflexivity|]. destruct (ablank r); [constructor; [reflexivity|constructor]|constructor].
Qed.
(* C10_wf_no_nl *)
Lemma wf_no_nl excl rs : forallb (wf_arec excl) rs = true -> no_nl rs = true.
Proof.
  intros W. unfold no_nl. apply forallb_forall. intros l Hl. apply in_flat_map in Hl. destruct Hl as (r & Hr & Hl).
  rewrite forallb_forall in W. pose proof (rec_P excl r (W r Hr)) as F. rewrite Forall_forall in F. rewrite no_has_nl. apply F. exact Hl.
Qed.
Lemma wf_C10_simple excl rs : wf_C10 excl rs = nonempty rs && forallb (wf_arec excl) rs.
Proof.
  unfold wf_C10. destruct (nonempty rs); [|reflexivity]. cbn [andb]. destruct (forallb (wf_arec excl) rs) eqn:E; [|reflexivity].
  cbn [andb]. apply (wf_no_nl excl rs E).
Qed.
