(* C01 proofs, part 6: the FASTA id extractor is idempotent: an extracted id is extracted from itself.
   (This is why read -> write -> read keeps every id that the reader ever produces.) *)
From Coq Require Import List ZArith NArith Bool Lia.
From Coq.Strings Require Import Byte.
Import ListNotations.
From SV Require Import Text C01_Lines G_codes G_c01_io C01_Model C01_Lemmas.

Lemma first_some_inv {A B} (f : A -> option B) l y : first_some f l = Some y -> exists x, In x l /\ f x = Some y.
Proof.
  induction l as [|x l IH]; [discriminate|]. cbn. destruct (f x) eqn:E.
  - intros H. inversion H; subst. exists x. auto.
  - intros H. destruct (IH H) as (x0 & Hin & Hx). exists x0. auto.
Qed.
Lemma first_some_none {A B} (f : A -> option B) l : (forall x, In x l -> f x = None) -> first_some f l = None.
Proof.
  induction l as [|x l IH]; [reflexivity|]. intros H. cbn. rewrite (H x (or_introl eq_refl)). apply IH. intros x0 Hx. apply H. right. exact Hx.
Qed.
Lemma first_some_some {A B} (f : A -> option B) l x : In x l -> f x <> None -> first_some f l <> None.
Proof.
  induction l as [|x0 l IH]; [contradiction|]. intros [E|Hin] Hx; cbn.
  - subst. destruct (f x); [discriminate|contradiction].
  - destruct (f x0); [discriminate|]. apply IH; assumption.
Qed.

Lemma try_tag_inv seps w tag g : try_tag seps w tag = Some g ->
  exists c r, w = tag ++ c :: r /\ mem c seps = true /\ g = chs_run r /\ g <> [].
Proof.
  unfold try_tag. destruct (strip_prefix tag w) as [[|c r]|] eqn:E; try discriminate.
  apply strip_prefix_some in E. destruct (mem c seps) eqn:M; [|discriminate].
  destruct (chs_run r) as [|y g0] eqn:G; [discriminate|]. intros H. inversion H; subst.
  exists c, r. repeat split; auto. discriminate.
Qed.

Lemma chs_run_app_ne r r2 : chs_run r <> [] -> chs_run (r ++ r2) <> [].
Proof.
  unfold chs_run. destruct r as [|y r]; [contradiction|]. cbn. destruct (chs y); [discriminate|contradiction].
Qed.

Lemma try_tag_extend seps s tag r2 : try_tag seps s tag <> None -> try_tag seps (s ++ r2) tag <> None.
Proof.
  destruct (try_tag seps s tag) as [g|] eqn:E; [|contradiction]. intros _.
  destruct (try_tag_inv _ _ _ _ E) as (c & r & Es & M & Eg & Hne). subst s.
  unfold try_tag. rewrite <- app_assoc. cbn [app]. rewrite strip_prefix_app. rewrite M.
  pose proof (chs_run_app_ne r r2) as Hx. rewrite <- Eg in Hx. specialize (Hx Hne).
  destruct (chs_run (r ++ r2)); [contradiction|discriminate].
Qed.

Lemma first_try_extend tags seps s r2 :
  first_some (try_tag seps s) tags <> None -> first_some (try_tag seps (s ++ r2)) tags <> None.
Proof.
  destruct (first_some (try_tag seps s) tags) as [g|] eqn:E; [|contradiction]. intros _.
  destruct (first_some_inv _ _ _ E) as (tag & Hin & Ht).
  apply (first_some_some _ _ tag Hin). apply try_tag_extend. rewrite Ht. discriminate.
Qed.

Lemma last_match_cons_none tags seps x w : last_match tags seps (x :: w) = None ->
  last_match tags seps w = None /\ first_some (try_tag seps (x :: w)) tags = None.
Proof. cbn [last_match]. destruct (last_match tags seps w); [discriminate|]. auto. Qed.

Lemma last_match_suffix_none tags seps a b : last_match tags seps (a ++ b) = None -> last_match tags seps b = None.
Proof.
  induction a as [|x a IH]; [tauto|]. cbn [app]. intros H. apply last_match_cons_none in H. apply IH. tauto.
Qed.

Lemma last_match_prefix_none tags seps g r2 : last_match tags seps (g ++ r2) = None -> last_match tags seps g = None.
Proof.
  induction g as [|x g IH]; [reflexivity|]. cbn [app]. intros H. apply last_match_cons_none in H. destruct H as [H1 H2].
  cbn [last_match]. rewrite (IH H1).
  destruct (first_some (try_tag seps (x :: g)) tags) eqn:E; [|reflexivity].
  exfalso. apply (first_try_extend tags seps (x :: g) r2); [rewrite E; discriminate|exact H2].
Qed.

Lemma last_match_split tags seps w g : last_match tags seps w = Some g ->
  exists pre x s, w = pre ++ x :: s /\ last_match tags seps s = None /\ first_some (try_tag seps (x :: s)) tags = Some g.
Proof.
  induction w as [|x w IH]; [discriminate|]. cbn [last_match].
  destruct (last_match tags seps w) as [g0|] eqn:E.
  - intros H. inversion H; subst. destruct (IH eq_refl) as (pre & x0 & s & Ew & H1 & H2).
    exists (x :: pre), x0, s. subst w. auto.
  - intros H. exists [], x, w. auto.
Qed.

Definition nonempty_tags (tags : list str) : Prop := forall t, In t tags -> t <> [].

(* the group found by one alternative: a run of CHS characters, which is a segment of w followed by the rest r2 *)
Lemma last_match_group tags seps w g : nonempty_tags tags -> last_match tags seps w = Some g ->
  forallb chs g = true /\ g <> [] /\ exists p r2, w = p ++ g ++ r2 /\ last_match tags seps (g ++ r2) = None.
Proof.
  intros Hne H. destruct (last_match_split _ _ _ _ H) as (pre & x & s & Ew & Hs & Hf).
  destruct (first_some_inv _ _ _ Hf) as (tag & Hin & Ht).
  destruct (try_tag_inv _ _ _ _ Ht) as (c & r & Exs & M & Eg & Hg).
  split; [subst g; apply takewhile_forallb|]. split; [exact Hg|].
  destruct tag as [|y tag]; [exfalso; apply (Hne [] Hin); reflexivity|].
  cbn [app] in Exs. inversion Exs; subst x s.
  exists (pre ++ y :: tag ++ [c]), (dropwhile chs r).
  assert (Er : g ++ dropwhile chs r = r) by (subst g; apply takewhile_dropwhile).
  rewrite Er. split.
  - subst w. rewrite <- app_assoc. cbn [app]. rewrite <- app_assoc. reflexivity.
  - replace (tag ++ c :: r) with ((tag ++ [c]) ++ r) in Hs by (rewrite <- app_assoc; reflexivity).
    apply (last_match_suffix_none _ _ _ _ Hs).
Qed.

(* a run of CHS characters contains no '|' *)
Lemma chs_not_bar c : chs c = true -> byte_eqb c "|"%byte = false.
Proof. destruct c; vm_compute; intros H; try discriminate; reflexivity. Qed.
Lemma no_bar_none tags g : forallb chs g = true -> last_match tags SEPS2 g = None.
Proof.
  induction g as [|x g IH]; [reflexivity|]. intros H. cbn [last_match].
  assert (Hg : forallb chs g = true) by (cbn in H; apply andb_prop in H; tauto).
  rewrite (IH Hg). apply first_some_none. intros tag _.
  destruct (try_tag SEPS2 (x :: g) tag) as [g0|] eqn:E; [|reflexivity]. exfalso.
  destruct (try_tag_inv _ _ _ _ E) as (c & r & Exs & M & _).
  assert (Hc : chs c = true).
  { rewrite forallb_forall in H. apply H. rewrite Exs. apply in_or_app. right. left. reflexivity. }
  unfold SEPS2, mem in M. cbn [existsb] in M. rewrite orb_false_r in M.
  rewrite (chs_not_bar c Hc) in M. discriminate.
Qed.

Lemma takewhile_sub (p q : byte -> bool) h : (forall c, p c = true -> q c = true) ->
  exists r2, takewhile q h = takewhile p h ++ r2.
Proof.
  intros Hpq. induction h as [|x h IH]; [exists []; reflexivity|]. cbn [takewhile].
  destruct (p x) eqn:Ep.
  - rewrite (Hpq x Ep). destruct IH as [r2 E]. exists r2. cbn [app]. rewrite E. reflexivity.
  - eexists. reflexivity.
Qed.

Lemma tags1_ne : nonempty_tags TAGS1.
Proof. intros t [E|[]]; subst; discriminate. Qed.
Lemma tags2_ne : nonempty_tags TAGS2.
Proof. intros t Hin. cbn in Hin. repeat (destruct Hin as [E|Hin]; [subst; discriminate|]). contradiction. Qed.

(* an id run: nothing of the first two alternatives inside, so it is returned as it is *)
Lemma match_idpattern_run g : forallb chs g = true -> g <> [] -> last_match TAGS1 SEPS1 g = None ->
  match_idpattern g = Some g.
Proof.
  intros Hc Hne H1. unfold match_idpattern.
  assert (Hn : forallb non_ws g = true).
  { revert Hc. apply forallb_imp. intros x H. unfold non_ws. rewrite (chs_not_ws x H). reflexivity. }
  rewrite (takewhile_all non_ws g Hn). rewrite H1. rewrite (no_bar_none TAGS2 g Hc).
  unfold chs_run. rewrite (takewhile_all chs g Hc). destruct g; [contradiction|reflexivity].
Qed.

Theorem match_idpattern_idem h g : match_idpattern h = Some g ->
  forallb chs g = true /\ g <> [] /\ match_idpattern g = Some g.
Proof.
  unfold match_idpattern. set (w := takewhile non_ws h).
  destruct (last_match TAGS1 SEPS1 w) as [g1|] eqn:E1.
  - intros H. inversion H; subst g1.
    destruct (last_match_group _ _ _ _ tags1_ne E1) as (Hc & Hne & p & r2 & Ew & Hn).
    split; [exact Hc|]. split; [exact Hne|]. apply match_idpattern_run; auto.
    apply (last_match_prefix_none _ _ _ _ Hn).
  - destruct (last_match TAGS2 SEPS2 w) as [g2|] eqn:E2.
    + intros H. inversion H; subst g2.
      destruct (last_match_group _ _ _ _ tags2_ne E2) as (Hc & Hne & p & r2 & Ew & _).
      split; [exact Hc|]. split; [exact Hne|]. apply match_idpattern_run; auto.
      rewrite Ew in E1. apply last_match_suffix_none in E1. apply (last_match_prefix_none _ _ _ _ E1).
    + destruct (chs_run h) as [|y g0] eqn:Eg; [discriminate|]. intros H. inversion H; subst g.
      assert (Hc : forallb chs (y :: g0) = true) by (rewrite <- Eg; apply takewhile_forallb).
      split; [exact Hc|]. split; [discriminate|]. apply match_idpattern_run; auto; [discriminate|].
      destruct (takewhile_sub chs non_ws h) as [r2 Er].
      { intros c Hcc. unfold non_ws. rewrite (chs_not_ws c Hcc). reflexivity. }
      fold w in Er. fold (chs_run h) in Er. rewrite Eg in Er. rewrite Er in E1.
      apply (last_match_prefix_none _ _ _ _ E1).
Qed.

Theorem id_from_header_idem h g : id_from_header h = Some g ->
  forallb chs g = true /\ g <> [] /\ id_from_header g = Some g.
Proof.
  unfold id_from_header. destruct h as [|x h]; [discriminate|]. intros H.
  destruct (match_idpattern_idem _ _ H) as (Hc & Hne & Hm). split; [exact Hc|]. split; [exact Hne|].
  destruct g; [contradiction|exact Hm].
Qed.
